/-
  Grenad.Proofs.IterProofs — C04 / C05: the range and prefix iterators of `Grenad.Model.Iter`,
  run over any cursor that refines the specification cursor `Spec.step es`, yield exactly the
  filtered list (forward) or its reverse (backward).

  Structure:
  1. the specification cursor in terms of indices (`land`, `landB`, `lowerBound`, `upperBound`);
  2. `Sim`: a cursor `step'` simulates `Spec.step es` through a relation `R` (results agree
     wherever the specification is determined; nothing is assumed where it is not);
  3. two generic `collect` lemmas (ascending scan from an index, descending scan from an index);
  4. the four iterators.
-/
import Grenad.Proofs.IterLists

namespace Grenad.IterP

open Spec (Pos SRes land lowerBound upperBound)

/-! ### 1. The specification cursor, by indices -/

/-- Backward landing: "the entry before index `n`". -/
def landB (es : List Entry) (n : Nat) : Pos × SRes :=
  if n = 0 then (.lost, some none) else land es (n - 1)

theorem landB_zero (es : List Entry) : landB es 0 = (.lost, some none) := rfl

theorem landB_succ (es : List Entry) (m : Nat) : landB es (m + 1) = land es m := rfl

theorem land_eq (es : List Entry) (i : Nat) :
    land es i = (if i < es.length then .at i else .lost, some es[i]?) := by
  unfold Spec.land
  by_cases h : i < es.length
  · simp [h]
  · simp [h]

theorem lowerBound_le_length (es : List Entry) (q : Bytes) : lowerBound es q ≤ es.length :=
  length_takeWhile_le _ _

theorem upperBound_le_length (es : List Entry) (q : Bytes) : upperBound es q ≤ es.length :=
  length_takeWhile_le _ _

theorem find_eq_land (es : List Entry) (f : Entry → Bool) :
    Spec.find es f = land es (es.takeWhile (fun e => !f e)).length := by
  have hlen : (es.takeWhile (fun e => !f e)).length = es.findIdx f := by
    rw [List.takeWhile_eq_take_findIdx_not, List.length_take]
    simp only [Bool.not_not]
    exact Nat.min_eq_left List.findIdx_le_length
  rw [hlen]
  unfold Spec.find
  rw [List.findIdx?_eq_guard_findIdx_lt]
  by_cases h : es.findIdx f < es.length
  · simp [Option.guard, h]
  · simp [Option.guard, h, land_eq]

theorem not_decide_le (a b : Bytes) : (!decide (a ≤ b)) = decide (b < a) := by
  by_cases h : a ≤ b
  · have : ¬ b < a := fun h' => h h'
    simp [h, this]
  · have : b < a := List.not_le.mp h
    simp [h, this]

theorem not_decide_lt (a b : Bytes) : (!decide (a < b)) = decide (b ≤ a) := by
  by_cases h : a < b
  · have : ¬ b ≤ a := fun h' => h' h
    simp [h, this]
  · have : b ≤ a := h
    simp [h, this]

theorem step_first (es : List Entry) (pos : Pos) : Spec.step es pos .first = land es 0 := by
  cases pos <;> rfl

theorem step_last (es : List Entry) (pos : Pos) : Spec.step es pos .last = landB es es.length := by
  cases es with
  | nil => cases pos <;> rfl
  | cons e t => cases pos <;> rfl

theorem step_ge (es : List Entry) (pos : Pos) (q : Bytes) :
    Spec.step es pos (.ge q) = land es (lowerBound es q) := by
  have : Spec.step es pos (.ge q) = Spec.find es (fun e => decide (q ≤ e.1)) := by
    cases pos <;> rfl
  rw [this, find_eq_land]
  simp only [not_decide_le]
  rfl

theorem step_le (es : List Entry) (pos : Pos) (q : Bytes) :
    Spec.step es pos (.le q) = landB es (upperBound es q) := by
  cases pos <;> rfl

theorem step_next_at (es : List Entry) (i : Nat) :
    Spec.step es (.at i) .next = land es (i + 1) := rfl

theorem step_prev_at (es : List Entry) (i : Nat) :
    Spec.step es (.at i) .prev = landB es i := rfl

theorem step_current_at (es : List Entry) (i : Nat) :
    Spec.step es (.at i) .current = (.at i, some es[i]?) := rfl

/-! #### `lowerBound` / `upperBound` over a strictly ascending list -/

theorem strictAsc_cons {e : Entry} {t : List Entry} :
    StrictAsc (e :: t) ↔ (∀ b ∈ t, e.1 < b.1) ∧ StrictAsc t := List.pairwise_cons

theorem upperBound_eq_zero_of_all_gt (t : List Entry) (q : Bytes) (h : ∀ b ∈ t, q < b.1) :
    upperBound t q = 0 := by
  cases t with
  | nil => rfl
  | cons b t =>
    have hb : ¬ b.1 ≤ q := fun h' => h' (h b List.mem_cons_self)
    simp [Spec.upperBound, List.takeWhile_cons_of_neg, hb]

theorem upperBound_eq (es : List Entry) (h : StrictAsc es) (q : Bytes) :
    upperBound es q =
      lowerBound es q + (if (es[lowerBound es q]?).map (·.1) = some q then 1 else 0) := by
  induction es with
  | nil => simp [Spec.upperBound, Spec.lowerBound]
  | cons e t ih =>
    rw [strictAsc_cons] at h
    by_cases hlt : e.1 < q
    · have hle : e.1 ≤ q := bytes_le_of_lt hlt
      have hub : upperBound (e :: t) q = upperBound t q + 1 := by
        simp [Spec.upperBound, List.takeWhile_cons_of_pos, hle]
      have hlb : lowerBound (e :: t) q = lowerBound t q + 1 := by
        simp [Spec.lowerBound, List.takeWhile_cons_of_pos, hlt]
      rw [hub, hlb, ih h.2, List.getElem?_cons_succ]
      omega
    · have hlb : lowerBound (e :: t) q = 0 := by
        simp [Spec.lowerBound, List.takeWhile_cons_of_neg, hlt]
      rw [hlb]
      simp only [List.getElem?_cons_zero, Option.map_some, Option.some.injEq, Nat.zero_add]
      by_cases heq : e.1 = q
      · have h0 : upperBound t q = 0 :=
          upperBound_eq_zero_of_all_gt t q (fun b hb => heq ▸ h.1 b hb)
        have hle : e.1 ≤ q := heq ▸ bytes_le_refl _
        have hub : upperBound (e :: t) q = upperBound t q + 1 := by
          simp [Spec.upperBound, List.takeWhile_cons_of_pos, hle]
        rw [hub, h0]; simp [heq]
      · have hnle : ¬ e.1 ≤ q := fun h' => heq (List.le_antisymm h' (List.not_lt.mp hlt))
        have hub : upperBound (e :: t) q = 0 := by
          simp [Spec.upperBound, List.takeWhile_cons_of_neg, hnle]
        rw [hub]; simp [heq]

theorem lt_of_lt_lowerBound (es : List Entry) (q : Bytes) (m : Nat) (e : Entry)
    (hm : m < lowerBound es q) (he : es[m]? = some e) : e.1 < q := by
  obtain ⟨h1, h2⟩ := getElem_takeWhile_length_lt _ es m hm
  rw [List.getElem?_eq_getElem h1] at he
  cases he
  simpa using h2

/-- The two possible relations of `upperBound` and `lowerBound` for a probe `q`:
    `q` is absent (they coincide, and neither neighbour has key `q`) or present at `lowerBound`. -/
theorem bound_cases (es : List Entry) (h : StrictAsc es) (q : Bytes) :
    (upperBound es q = lowerBound es q ∧
        (∀ e, es[lowerBound es q]? = some e → e.1 ≠ q) ∧
        (∀ m e, lowerBound es q = m + 1 → es[m]? = some e → e.1 ≠ q)) ∨
    (upperBound es q = lowerBound es q + 1 ∧ ∃ e, es[lowerBound es q]? = some e ∧ e.1 = q) := by
  have hu := upperBound_eq es h q
  by_cases hc : (es[lowerBound es q]?).map (·.1) = some q
  · right
    rw [if_pos hc] at hu
    refine ⟨hu, ?_⟩
    cases he : es[lowerBound es q]? with
    | none => rw [he] at hc; cases hc
    | some e => rw [he] at hc; exact ⟨e, rfl, by simpa using hc⟩
  · left
    rw [if_neg hc] at hu
    refine ⟨hu, ?_, ?_⟩
    · intro e he heq; apply hc; rw [he]; simp [heq]
    · intro m e hm he heq
      have := lt_of_lt_lowerBound es q m e (by omega) he
      rw [heq] at this
      exact bytes_lt_irrefl _ this

/-! #### start / end indices of a range -/

/-- Index of the first entry accepted by the lower bound. -/
def startIdx (es : List Entry) (lo : Bound) : Nat :=
  (es.takeWhile (fun e => !startContains lo e.1)).length

/-- Index after the last entry accepted by the upper bound. -/
def endIdx (es : List Entry) (hi : Bound) : Nat :=
  (es.takeWhile (fun e => endContains hi e.1)).length

theorem startIdx_unbounded (es : List Entry) : startIdx es .unbounded = 0 := by
  cases es <;> simp [startIdx, startContains]

theorem startIdx_included (es : List Entry) (s : Bytes) :
    startIdx es (.included s) = lowerBound es s := by
  simp only [startIdx, startContains, not_decide_le]; rfl

theorem startIdx_excluded (es : List Entry) (s : Bytes) :
    startIdx es (.excluded s) = upperBound es s := by
  simp only [startIdx, startContains, not_decide_lt]; rfl

theorem endIdx_unbounded (es : List Entry) : endIdx es .unbounded = es.length := by
  have : es.takeWhile (fun e => endContains .unbounded e.1) = es := by
    induction es with
    | nil => rfl
    | cons e t ih => simpa [endContains] using ih
  simp only [endIdx, this]

theorem endIdx_included (es : List Entry) (e : Bytes) :
    endIdx es (.included e) = upperBound es e := rfl

theorem endIdx_excluded (es : List Entry) (e : Bytes) :
    endIdx es (.excluded e) = lowerBound es e := rfl

theorem endIdx_le_length (es : List Entry) (hi : Bound) : endIdx es hi ≤ es.length :=
  length_takeWhile_le _ _

theorem startContains_mono {lo : Bound} {a b : Bytes} (hab : a < b) :
    startContains lo a = true → startContains lo b = true := by
  cases lo with
  | unbounded => intro _; rfl
  | included s =>
    simp only [startContains, decide_eq_true_eq]
    exact fun h => bytes_le_of_lt (bytes_lt_of_le_of_lt h hab)
  | excluded s =>
    simp only [startContains, decide_eq_true_eq]
    exact fun h => bytes_lt_trans h hab

theorem endContains_anti {hi : Bound} {a b : Bytes} (hab : a < b) :
    endContains hi b = true → endContains hi a = true := by
  cases hi with
  | unbounded => intro _; rfl
  | included s =>
    simp only [endContains, decide_eq_true_eq]
    exact fun h => bytes_le_of_lt (bytes_lt_of_lt_of_le hab h)
  | excluded s =>
    simp only [endContains, decide_eq_true_eq]
    exact fun h => bytes_lt_trans hab h

/-- Ascending characterisation of a range. -/
theorem range_eq_fwd (es : List Entry) (h : StrictAsc es) (lo hi : Bound) :
    Spec.range es lo hi =
      (es.drop (startIdx es lo)).takeWhile (fun e => endContains hi e.1) := by
  unfold Spec.range startIdx
  rw [← dropWhile_eq_drop_length_takeWhile]
  have := filter_eq_takeWhile_dropWhile (fun e : Entry => startContains lo e.1)
    (fun e : Entry => endContains hi e.1) es
    (h.imp (fun hab => startContains_mono hab))
    (h.imp (fun hab _ => endContains_anti hab))
  simpa [inRange] using this

/-- Descending characterisation of a range. -/
theorem range_reverse_eq_bwd (es : List Entry) (h : StrictAsc es) (lo hi : Bound) :
    (Spec.range es lo hi).reverse =
      (es.take (endIdx es hi)).reverse.takeWhile (fun e => startContains lo e.1) := by
  unfold Spec.range endIdx
  rw [← reverse_dropWhile_not_of_closed (fun e : Entry => endContains hi e.1) es
    (h.imp (fun hab => endContains_anti hab)), ← List.filter_reverse]
  have hr : es.reverse.Pairwise (fun a b => b.1 < a.1) := List.pairwise_reverse.mpr h
  have := filter_eq_takeWhile_dropWhile (fun e : Entry => endContains hi e.1)
    (fun e : Entry => startContains lo e.1) es.reverse
    (hr.imp (fun hab => endContains_anti hab))
    (hr.imp (fun hab _ => startContains_mono hab))
  rw [← this]
  apply List.filter_congr
  intro e _
  simp [inRange, Bool.and_comm]

/-- Ascending characterisation of a prefix set. -/
theorem withPrefix_eq_fwd (es : List Entry) (h : StrictAsc es) (p : Bytes) :
    Spec.withPrefix es p =
      (es.drop (lowerBound es p)).takeWhile (fun e => p.isPrefixOf e.1) := by
  rw [← startIdx_included]
  unfold Spec.withPrefix startIdx
  rw [← dropWhile_eq_drop_length_takeWhile]
  have hclosed : ∀ a b : Bytes, a < b → p ≤ a → p.isPrefixOf b = true → p.isPrefixOf a = true := by
    intro a b hab hpa hpb
    cases hp : advanceKey p with
    | some s =>
      exact (advanceKey_spec p s hp a).mpr
        ⟨hpa, bytes_lt_trans hab ((advanceKey_spec p s hp b).mp hpb).2⟩
    | none => exact (isPrefixOf_iff_le_of_all255 p ((advanceKey_none p).mp hp) a).mpr hpa
  have := filter_eq_takeWhile_dropWhile (fun e : Entry => startContains (.included p) e.1)
    (fun e : Entry => p.isPrefixOf e.1) es
    (h.imp (fun hab => startContains_mono hab))
    (h.imp (fun {a b} hab hq => hclosed a.1 b.1 hab (by simpa [startContains] using hq)))
  rw [← this]
  apply List.filter_congr
  intro e _
  cases hpe : p.isPrefixOf e.1 with
  | false => simp
  | true => simp [startContains, le_of_isPrefixOf hpe]

/-- Index after the last entry that can start with `p`. -/
def prefixEndIdx (es : List Entry) (p : Bytes) : Nat :=
  match advanceKey p with
  | some np => lowerBound es np
  | none => es.length

theorem prefixEndIdx_le_length (es : List Entry) (p : Bytes) : prefixEndIdx es p ≤ es.length := by
  unfold prefixEndIdx
  cases advanceKey p with
  | none => exact Nat.le_refl _
  | some np => exact lowerBound_le_length es np

/-- Descending characterisation of a prefix set. -/
theorem withPrefix_reverse_eq_bwd (es : List Entry) (h : StrictAsc es) (p : Bytes) :
    (Spec.withPrefix es p).reverse =
      (es.take (prefixEndIdx es p)).reverse.takeWhile (fun e => p.isPrefixOf e.1) := by
  have hr : es.reverse.Pairwise (fun a b => b.1 < a.1) := List.pairwise_reverse.mpr h
  unfold Spec.withPrefix prefixEndIdx
  rw [← List.filter_reverse]
  cases hp : advanceKey p with
  | none =>
    have h255 := (advanceKey_none p).mp hp
    simp only [List.take_length]
    have := filter_eq_takeWhile_of_all (fun _ : Entry => true) (fun e : Entry => p.isPrefixOf e.1)
      es.reverse (fun _ _ => rfl)
      (hr.imp (fun {a b} hab hb => (isPrefixOf_iff_le_of_all255 p h255 a.1).mpr
        (bytes_le_of_lt (bytes_lt_of_le_of_lt
          ((isPrefixOf_iff_le_of_all255 p h255 b.1).mp hb) hab))))
    simpa using this
  | some np =>
    simp only
    rw [← endIdx_excluded, endIdx,
      ← reverse_dropWhile_not_of_closed (fun e : Entry => endContains (.excluded np) e.1) es
        (h.imp (fun hab => endContains_anti hab))]
    have := filter_eq_takeWhile_dropWhile (fun e : Entry => endContains (.excluded np) e.1)
      (fun e : Entry => p.isPrefixOf e.1) es.reverse
      (hr.imp (fun hab => endContains_anti hab))
      (hr.imp (fun {a b} hab ha hb => (advanceKey_spec p np hp a.1).mpr
        ⟨bytes_le_of_lt (bytes_lt_of_le_of_lt ((advanceKey_spec p np hp b.1).mp hb).1 hab),
          by simpa [endContains] using ha⟩))
    rw [← this]
    apply List.filter_congr
    intro e _
    cases hpe : p.isPrefixOf e.1 with
    | false => simp
    | true => simp [endContains, ((advanceKey_spec p np hp e.1).mp hpe).2]

/-! ### 2. Simulation of the specification cursor -/

/-- `step'` simulates the specification cursor over `es` through `R`: positions stay related and
    results agree *wherever the specification determines them* (`Spec.Agree`); where it does not
    (`next` / `prev` / `current` in position `lost`) the result of `step'` is arbitrary. -/
def Sim {γ : Type} (es : List Entry) (step' : γ → Op → γ × Res) (R : γ → Pos → Prop) : Prop :=
  ∀ c pos op, R c pos →
    R (step' c op).1 (Spec.step es pos op).1 ∧ Spec.Agree (step' c op).2 (Spec.step es pos op).2

theorem sim_stepTotal (es : List Entry) : Sim es (Spec.stepTotal es) Eq := by
  intro c pos op h
  subst h
  unfold Spec.stepTotal
  cases hs : Spec.step es c op with
  | mk p' r => cases r <;> simp [Spec.Agree]

section sim
variable {γ : Type} {es : List Entry} {step' : γ → Op → γ × Res} {R : γ → Pos → Prop}

theorem sim_land (hsim : Sim es step' R) {c : γ} {pos : Pos} {op : Op} {i : Nat}
    (hR : R c pos) (hs : Spec.step es pos op = land es i) :
    ∃ c', step' c op = (c', .ok es[i]?) ∧ (i < es.length → R c' (.at i)) := by
  obtain ⟨h1, h2⟩ := hsim c pos op hR
  rw [hs, land_eq] at h1 h2
  refine ⟨(step' c op).1, Prod.ext rfl h2, ?_⟩
  intro hi
  simpa [hi] using h1

theorem sim_none (hsim : Sim es step' R) {c : γ} {pos : Pos} {op : Op}
    (hR : R c pos) (hs : Spec.step es pos op = (.lost, some none)) :
    ∃ c', step' c op = (c', .ok none) ∧ R c' .lost := by
  obtain ⟨h1, h2⟩ := hsim c pos op hR
  rw [hs] at h1 h2
  exact ⟨(step' c op).1, Prod.ext rfl h2, h1⟩

theorem sim_at (hsim : Sim es step' R) {c : γ} {pos : Pos} {op : Op} {i : Nat} {r : Option Entry}
    (hR : R c pos) (hs : Spec.step es pos op = (.at i, some r)) :
    ∃ c', step' c op = (c', .ok r) ∧ R c' (.at i) := by
  obtain ⟨h1, h2⟩ := hsim c pos op hR
  rw [hs] at h1 h2
  exact ⟨(step' c op).1, Prod.ext rfl h2, h1⟩

/-- Backward landing through a simulation. -/
theorem sim_landB (hsim : Sim es step' R) {c : γ} {pos : Pos} {op : Op} {n : Nat}
    (hR : R c pos) (hn : n ≤ es.length) (hs : Spec.step es pos op = landB es n) :
    ∃ c', (n = 0 ∧ step' c op = (c', .ok none) ∧ R c' .lost) ∨
      (∃ m e, n = m + 1 ∧ es[m]? = some e ∧ step' c op = (c', .ok (some e)) ∧ R c' (.at m)) := by
  cases n with
  | zero =>
    obtain ⟨c', h1, h2⟩ := sim_none hsim hR (by rw [hs, landB_zero])
    exact ⟨c', .inl ⟨rfl, h1, h2⟩⟩
  | succ m =>
    obtain ⟨c', h1, h2⟩ := sim_land hsim hR (by rw [hs, landB_succ])
    have hm : m < es.length := hn
    refine ⟨c', .inr ⟨m, es[m], rfl, List.getElem?_eq_getElem hm, ?_, h2 hm⟩⟩
    rw [h1, List.getElem?_eq_getElem hm]

end sim

/-! ### 3. Generic scans -/

/-- Ascending scan: if each call examines `es[i]`, yields it and moves to `i+1` when it is `good`,
    and ends otherwise, then `collect` yields the `good`-prefix of `es.drop i`. -/
theorem collect_fwd {ι : Type} (nxt : ι → ι × Res) (es : List Entry) (good : Entry → Bool)
    (I : ι → Nat → Prop)
    (hstep : ∀ it i, I it i → ∃ it',
      (∃ e, es[i]? = some e ∧ good e = true ∧ nxt it = (it', .ok (some e)) ∧ I it' (i + 1)) ∨
      ((∀ e, es[i]? = some e → good e = false) ∧ nxt it = (it', .ok none))) :
    ∀ (fuel : Nat) (it : ι) (i : Nat) (acc : List Entry), I it i → es.length < fuel + i →
      collect nxt fuel it acc = some (acc.reverse ++ (es.drop i).takeWhile good) := by
  intro fuel
  induction fuel with
  | zero =>
    intro it i acc _ hf
    rw [List.drop_eq_nil_of_le (by omega)]
    simp [collect]
  | succ fuel ih =>
    intro it i acc hI hf
    obtain ⟨it', h | h⟩ := hstep it i hI
    · obtain ⟨e, he, hg, hn, hI'⟩ := h
      have hi : i < es.length := by
        rcases Nat.lt_or_ge i es.length with h | h
        · exact h
        · rw [List.getElem?_eq_none h] at he; cases he
      have hee : es[i] = e := by
        rw [List.getElem?_eq_getElem hi] at he; exact Option.some.inj he
      simp only [collect, hn]
      rw [ih it' (i + 1) (e :: acc) hI' (by omega), List.drop_eq_getElem_cons hi, hee,
        List.takeWhile_cons_of_pos hg]
      simp
    · obtain ⟨hb, hn⟩ := h
      simp only [collect, hn]
      rcases Nat.lt_or_ge i es.length with hi | hi
      · have := hb es[i] (List.getElem?_eq_getElem hi)
        rw [List.drop_eq_getElem_cons hi, List.takeWhile_cons_of_neg (by simp [this])]
        simp
      · rw [List.drop_eq_nil_of_le hi]; simp

/-- Descending scan: if each call examines `es[n-1]`, yields it and moves to `n-1` when it is
    `good`, and ends otherwise (or when `n = 0`), then `collect` yields the `good`-prefix of the
    reversed `es.take n`. -/
theorem collect_bwd {ι : Type} (nxt : ι → ι × Res) (es : List Entry) (good : Entry → Bool)
    (I : ι → Nat → Prop)
    (hstep : ∀ it n, I it n → ∃ it',
      (∃ m e, n = m + 1 ∧ es[m]? = some e ∧ good e = true ∧ nxt it = (it', .ok (some e)) ∧
        I it' m) ∨
      ((∀ m e, n = m + 1 → es[m]? = some e → good e = false) ∧ nxt it = (it', .ok none))) :
    ∀ (fuel : Nat) (it : ι) (n : Nat) (acc : List Entry), I it n → n ≤ es.length → n < fuel →
      collect nxt fuel it acc = some (acc.reverse ++ (es.take n).reverse.takeWhile good) := by
  intro fuel
  induction fuel with
  | zero => intro it n acc _ _ hf; omega
  | succ fuel ih =>
    intro it n acc hI hn hf
    obtain ⟨it', h | h⟩ := hstep it n hI
    · obtain ⟨m, e, hnm, he, hg, hnx, hI'⟩ := h
      subst hnm
      simp only [collect, hnx]
      rw [ih it' m (e :: acc) hI' (by omega) (by omega), List.take_add_one, he]
      simp [List.takeWhile_cons_of_pos, hg]
    · obtain ⟨hb, hnx⟩ := h
      simp only [collect, hnx]
      cases n with
      | zero => simp
      | succ m =>
        have hm : m < es.length := hn
        have := hb m es[m] rfl (List.getElem?_eq_getElem hm)
        rw [List.take_add_one, List.getElem?_eq_getElem hm, Option.toList_some,
          List.reverse_append, List.reverse_singleton, List.singleton_append,
          List.takeWhile_cons_of_neg (by simp [this])]
        simp

/-! ### 4. The iterators -/

section iters
variable {γ : Type} (step : γ → Op → γ × Res)

/-- First half of `RangeIter.next`: position the cursor. -/
def rangeSeek (it : RangeIter γ) : γ × Res :=
  if it.start then
    match it.lo with
    | .unbounded => step it.cursor .first
    | .included s => step it.cursor (.ge s)
    | .excluded s =>
      match step it.cursor (.ge s) with
      | (c, .ok (some (k, v))) => if k = s then step c .next else (c, .ok (some (k, v)))
      | (c, r) => (c, r)
  else step it.cursor .next

theorem RangeIter.next_eq (it : RangeIter γ) :
    RangeIter.next step it =
      match rangeSeek step it with
      | (c, r) =>
        let it' := { it with cursor := c, start := false }
        match r with
        | .err => (it', .err)
        | .ok (some (k, v)) =>
          if endContains it.hi k then (it', .ok (some (k, v))) else (it', .ok none)
        | .ok none => (it', .ok none) := rfl

/-- First half of `RangeIter.nextRev`. -/
def rangeSeekRev (it : RangeIter γ) : γ × Res :=
  if it.start then
    match it.hi with
    | .unbounded => step it.cursor .last
    | .included e => step it.cursor (.le e)
    | .excluded e =>
      match step it.cursor (.le e) with
      | (c, .ok (some (k, v))) => if k = e then step c .prev else (c, .ok (some (k, v)))
      | (c, r) => (c, r)
  else step it.cursor .prev

theorem RangeIter.nextRev_eq (it : RangeIter γ) :
    RangeIter.nextRev step it =
      match rangeSeekRev step it with
      | (c, r) =>
        let it' := { it with cursor := c, start := false }
        match r with
        | .err => (it', .err)
        | .ok (some (k, v)) =>
          if startContains it.lo k then (it', .ok (some (k, v))) else (it', .ok none)
        | .ok none => (it', .ok none) := rfl

/-- First half of `PrefixIter.next`. -/
def prefixSeek (it : PrefixIter γ) : γ × Res :=
  if it.start then step it.cursor (.ge it.pre) else step it.cursor .next

theorem PrefixIter.next_eq (it : PrefixIter γ) :
    PrefixIter.next step it =
      match prefixSeek step it with
      | (c, r) =>
        let it' := { it with cursor := c, start := false }
        match r with
        | .err => (it', .err)
        | .ok (some (k, v)) =>
          if it.pre.isPrefixOf k then (it', .ok (some (k, v))) else (it', .ok none)
        | .ok none => (it', .ok none) := rfl

/-- First half of `PrefixIter.nextRev`. -/
def prefixSeekRev (it : PrefixIter γ) : γ × Res :=
  if it.start then moveOnLastPrefix step it.cursor it.pre else step it.cursor .prev

theorem PrefixIter.nextRev_eq (it : PrefixIter γ) :
    PrefixIter.nextRev step it =
      match prefixSeekRev step it with
      | (c, r) =>
        let it' := { it with cursor := c, start := false }
        match r with
        | .err => (it', .err)
        | .ok (some (k, v)) =>
          if it.pre.isPrefixOf k then (it', .ok (some (k, v))) else (it', .ok none)
        | .ok none => (it', .ok none) := rfl

end iters

end Grenad.IterP
