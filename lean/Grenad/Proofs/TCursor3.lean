/-
  T-cursor, part 3: absolute moves (`first`, `last`, `ge`) walk from the root to the block that
  holds the target entry, from any cache-sound state.
-/
import Grenad.Proofs.TCursor2

namespace Grenad.TCursor

open Grenad Spec

/-- The standing assumptions about a non-empty file. -/
structure Ctx (s : Store) (lvl : Nat → Nat) (D root : Nat) (es : List Entry) : Prop where
  asc : StrictAsc es
  sub : Sub s lvl D root es
  lt  : ∀ off blk, s off = some blk → off < 2 ^ 64

section
variable {s : Store} {lvl : Nat → Nat} {D root : Nat} {es : List Entry}

theorem Ctx.off_lt (cx : Ctx s lvl D root es) {d off : Nat} {fl : List Entry}
    (h : Sub s lvl d off fl) : off < 2 ^ 64 := by
  obtain ⟨blk, hb⟩ := Sub.stored h
  exact cx.lt _ _ hb

/-- One level of descent of an absolute move. -/
theorem descend_step (cx : Ctx s lvl D root es) {mov : Mov} (hm : AbsMov mov)
    {k off : Nat} {fl : List Entry} {acc : List (Nat × LC)} {pre post : List Entry}
    (hsub : Sub s lvl (k + 1) off fl) (hup : UpPath s lvl D root es (k + 1) off fl acc pre post)
    (c : LC) (hc : s off = some c.es)
    (ht : target mov fl < fl.length) (hT : target mov es = pre.length + target mov fl) :
    ∃ c' e koff kfl pre2 post2, LC.ops.apply mov c = (c', some e) ∧ c'.es = c.es ∧ offOf e = koff ∧
      Sub s lvl k koff kfl ∧
      (∀ o, UpPath s lvl D root es k koff kfl ((o, c') :: acc) pre2 post2) ∧
      target mov kfl < kfl.length ∧ target mov es = pre2.length + target mov kfl := by
  obtain ⟨kids, hkne, hblk, hkids, rfl⟩ := Sub.inv_node hsub
  have hce : c.es = idx kids := by rw [hblk] at hc; exact (Option.some.inj hc).symm
  have hne : ∀ k ∈ kids, k.2 ≠ [] := fun k hk => Sub.flat_ne (hkids k hk)
  obtain ⟨kpre, kid, kpost, rfl, h2, h3, h4⟩ := target_node hm hne (hup.asc cx.asc) ht
  obtain ⟨koff, kfl⟩ := kid
  have hcne : c.es ≠ [] := by rw [hce]; simp
  have hk : Sub s lvl k koff kfl := hkids (koff, kfl) (by simp)
  refine ⟨⟨c.es, some kpre.length⟩, (lastKey kfl, be64 koff), koff, kfl, pre ++ flat kpre,
    flat kpost ++ post, ?_, rfl, offOf_mk _ (cx.off_lt hk), hk, ?_, h4, ?_⟩
  · rw [apply_abs hm c hcne, hce, h2, idx_zip_get]
  · intro o
    exact ⟨off, kpre, kpost, pre, post, rfl, rfl, hkids, hce, rfl, hup⟩
  · rw [hT, h3]; simp only [List.length_append]; omega

/-- `iterLevels` for an absolute move whose target exists: ends on the leaf holding the target,
    whatever was cached before. `acc` is the (ghost) list of levels already walked. -/
theorem iterLevels_hit (cx : Ctx s lvl D root es) {mov : Mov} (hm : AbsMov mov) :
    ∀ (rest : List (Nat × LC)) (jump : Nat) (fl : List Entry) (acc : List (Nat × LC))
      (pre post : List Entry) (log : List Nat),
      Sub s lvl rest.length jump fl → UpPath s lvl D root es rest.length jump fl acc pre post →
      CSr s lvl 1 (rest.reverse ++ acc) →
      target mov fl < fl.length → target mov es = pre.length + target mov fl →
      ∃ rest' log' off' fl' pre' post',
        RC.iterLevels LC.ops s.load mov jump rest log = some (rest', true, log') ∧
        rest'.length = rest.length ∧ Sub s lvl 0 off' fl' ∧
        UpPath s lvl D root es 0 off' fl' (rest'.reverse ++ acc) pre' post' ∧
        CSr s lvl 1 (rest'.reverse ++ acc) ∧
        target mov fl' < fl'.length ∧ target mov es = pre'.length + target mov fl' := by
  intro rest
  induction rest with
  | nil =>
    intro jump fl acc pre post log hsub hup hcs ht hT
    exact ⟨[], log, jump, fl, pre, post, rfl, rfl, hsub, hup, hcs, ht, hT⟩
  | cons x r ih =>
    obtain ⟨o, c⟩ := x
    intro jump fl acc pre post log hsub hup hcs ht hT
    simp only [List.length_cons] at hsub hup
    have hlv : lvl jump = r.length + 1 := Sub.lvl_eq hsub
    simp only [List.reverse_cons, List.append_assoc, List.singleton_append] at hcs
    rw [CSr_append] at hcs
    obtain ⟨hcs1, hcs2, hcs3⟩ := hcs
    simp only [List.length_reverse] at hcs2 hcs3
    -- the cursor used at this level, reloaded or reused
    have hre : ∃ c2 log2, s jump = some c2.es ∧
        (if jump ≠ o then (s.load jump).map (fun c' => (jump, c', jump :: log)) else some (o, c, log))
          = some (jump, c2, log2) := by
      by_cases hj : jump = o
      · subst hj
        exact ⟨c, log, hcs2 (by omega), by simp⟩
      · obtain ⟨blk, hb⟩ := Sub.stored hsub
        exact ⟨LC.ofList blk, jump :: log, hb, by simp [hj, load_eq hb]⟩
    obtain ⟨c2, log2, hc2, hre⟩ := hre
    obtain ⟨c', e, koff, kfl, pre2, post2, ha, hes, hoff, hk, hup2, ht2, hT2⟩ :=
      descend_step cx hm hsub hup c2 hc2 ht hT
    have hcs' : CSr s lvl 1 (r.reverse ++ (jump, c') :: acc) := by
      rw [CSr_append]
      refine ⟨hcs1, ?_, ?_⟩
      · intro _; rw [hes]; exact hc2
      · simpa [Nat.add_comm] using hcs3
    obtain ⟨rest', log', off', fl', pre', post', hit, hlen, hs0, hup', hcsF, htF, hTF⟩ :=
      ih koff kfl ((jump, c') :: acc) pre2 post2 log2 hk (hup2 jump) hcs' ht2 hT2
    refine ⟨(jump, c') :: rest', log', off', fl', pre', post', ?_, by simp [hlen], hs0, ?_, ?_,
      htF, hTF⟩
    · rw [RC.iterLevels]
      simp only [hre, ha, hoff, hit]
    · simpa [List.reverse_cons, List.append_assoc] using hup'
    · simpa [List.reverse_cons, List.append_assoc] using hcsF

/-- `initialIndex` for an absolute move whose target exists. -/
theorem initialIndex_hit (cx : Ctx s lvl D root es) {mov : Mov} (hm : AbsMov mov) :
    ∀ (d : Nat) (jump : Nat) (fl : List Entry) (acc : List (Nat × LC))
      (pre post : List Entry) (log : List Nat),
      Sub s lvl d jump fl → UpPath s lvl D root es d jump fl acc pre post →
      CSr s lvl (d + 1) acc →
      target mov fl < fl.length → target mov es = pre.length + target mov fl →
      ∃ accF log' off' fl' pre' post',
        RC.initialIndex LC.ops s.load mov d jump acc log = some (some accF.reverse, log') ∧
        accF.length = acc.length + d ∧ Sub s lvl 0 off' fl' ∧
        UpPath s lvl D root es 0 off' fl' accF pre' post' ∧
        CSr s lvl 1 accF ∧
        target mov fl' < fl'.length ∧ target mov es = pre'.length + target mov fl' := by
  intro d
  induction d with
  | zero =>
    intro jump fl acc pre post log hsub hup hcs ht hT
    exact ⟨acc, log, jump, fl, pre, post, rfl, rfl, hsub, hup, hcs, ht, hT⟩
  | succ d ih =>
    intro jump fl acc pre post log hsub hup hcs ht hT
    obtain ⟨blk, hb⟩ := Sub.stored hsub
    obtain ⟨c', e, koff, kfl, pre2, post2, ha, hes, hoff, hk, hup2, ht2, hT2⟩ :=
      descend_step cx hm hsub hup (LC.ofList blk) hb ht hT
    have hcs' : CSr s lvl (d + 1) ((koff, c') :: acc) := by
      refine ⟨?_, hcs⟩
      intro h; have := Sub.lvl_eq hk; omega
    obtain ⟨accF, log', off', fl', pre', post', hit, hlen, hs0, hup', hcsF, htF, hTF⟩ :=
      ih koff kfl ((koff, c') :: acc) pre2 post2 (jump :: log) hk (hup2 koff) hcs' ht2 hT2
    refine ⟨accF, log', off', fl', pre', post', ?_, by simp at hlen; omega, hs0, hup', hcsF, htF, hTF⟩
    rw [RC.initialIndex]
    simp only [load_eq hb, ha, hoff, hit]

end

/-! ### State invariants -/

/-- Cache soundness of a cursor state (holds in every reachable state). -/
structure CScore (s : Store) (lvl : Nat → Nat) (root levels : Nat) (c : RC LC) : Prop where
  hbase : c.base = root
  hlevels : c.levels = levels
  cur_none : c.inner = none → c.cur = none
  inner : ∀ l, c.inner = some l → l.length = levels + 1 ∧ CSr s lvl 1 l.reverse

/-- The cursor is positioned on entry `i`. -/
def PosInv (s : Store) (lvl : Nat → Nat) (root levels : Nat) (es : List Entry) (c : RC LC)
    (i : Nat) : Prop :=
  ∃ l b off fl pre post i0, c.inner = some l ∧ c.cur = some b ∧
    UpPath s lvl (levels + 1) root es 0 off fl l.reverse pre post ∧
    b.es = fl ∧ b.pos = some i0 ∧ i0 < fl.length ∧ i = pre.length + i0

section
variable {s : Store} {lvl : Nat → Nat} {root levels : Nat} {es : List Entry}

theorem getLast?_of_reverse {l : List (Nat × LC)} {o : Nat} {b : LC} {ps : List (Nat × LC)}
    (h : l.reverse = (o, b) :: ps) : l.getLast? = some (o, b) := by
  rw [← List.head?_reverse, h]; rfl

/-- `iterIndex` for an absolute move whose target exists. -/
theorem iterIndex_hit (cx : Ctx s lvl (levels + 1) root es) {mov : Mov} (hm : AbsMov mov)
    {c : RC LC} (hc : CScore s lvl root levels c) (ht : target mov es < es.length) :
    ∃ c' e off fl pre post l,
      RC.iterIndex LC.ops s.load mov c = some (c', some e) ∧
      c'.base = c.base ∧ c'.levels = c.levels ∧ c'.cur = c.cur ∧ c'.inner = some l ∧
      l.length = levels + 1 ∧ CSr s lvl 1 l.reverse ∧
      UpPath s lvl (levels + 1) root es 0 off fl l.reverse pre post ∧ Sub s lvl 0 off fl ∧
      offOf e = off ∧ target mov fl < fl.length ∧ target mov es = pre.length + target mov fl := by
  have htop : UpPath s lvl (levels + 1) root es (levels + 1) root es [] [] [] :=
    ⟨rfl, rfl, rfl, rfl, rfl⟩
  cases hin : c.inner with
  | some inner =>
    obtain ⟨hlen, hcs⟩ := hc.inner inner hin
    obtain ⟨rest', log', off', fl', pre', post', hit, hlen', hs0, hup', hcsF, htF, hTF⟩ :=
      iterLevels_hit cx hm inner root es [] [] [] c.log (hlen ▸ cx.sub) (hlen ▸ htop)
        (by simpa using hcs) ht (by simp)
    simp only [List.append_nil] at hup' hcsF
    have hne : rest'.reverse ≠ [] := by
      intro h; rw [List.reverse_eq_nil_iff] at h; subst h; simp at hlen'; omega
    obtain ⟨⟨o, b⟩, ps, hrev⟩ := List.exists_cons_of_ne_nil hne
    rw [hrev] at hup'
    refine ⟨{ c with inner := some rest', log := log' }, (lastKey fl', be64 off'), off', fl', pre',
      post', rest', ?_, rfl, rfl, rfl, rfl, by omega, hcsF, hrev ▸ hup', hs0,
      offOf_mk _ (cx.off_lt hs0), htF, hTF⟩
    unfold RC.iterIndex
    simp only [hin, hc.hbase, hit, if_true]
    rw [getLast?_of_reverse hrev]
    simp only [LC.ops]
    rw [hup'.head_current]
  | none =>
    obtain ⟨accF, log', off', fl', pre', post', hit, hlen', hs0, hup', hcsF, htF, hTF⟩ :=
      initialIndex_hit cx hm (levels + 1) root es [] [] [] c.log cx.sub htop trivial ht (by simp)
    have hne : accF ≠ [] := by
      intro h; subst h; simp at hlen'
    obtain ⟨⟨o, b⟩, ps, hacc⟩ := List.exists_cons_of_ne_nil hne
    refine ⟨{ c with inner := some accF.reverse, log := log' }, (lastKey fl', be64 off'), off', fl',
      pre', post', accF.reverse, ?_, rfl, rfl, rfl, rfl, by simp at hlen'; simp; omega,
      by simpa using hcsF, by simpa using hup', hs0, offOf_mk _ (cx.off_lt hs0), htF, hTF⟩
    unfold RC.iterIndex
    simp only [hin, hc.hbase, hc.hlevels, hit]
    rw [getLast?_of_reverse (l := accF.reverse) (by simpa using hacc)]
    rw [hacc] at hup'
    simp only [LC.ops]
    rw [hup'.head_current]

/-- Result of an absolute move that hits: positioned on `target mov es`. -/
theorem abs_finish (cx : Ctx s lvl (levels + 1) root es) {mov : Mov} (hm : AbsMov mov)
    {c : RC LC} (hc : CScore s lvl root levels c) (ht : target mov es < es.length) :
    ∃ c' e b c'', RC.iterIndex LC.ops s.load mov c = some (c', some e) ∧
      RC.enter s.load c' e = some (c'', b) ∧
      (LC.ops.apply mov b).2 = es[target mov es]? ∧
      CScore s lvl root levels (RC.withCur c'' (LC.ops.apply mov b).1) ∧
      PosInv s lvl root levels es (RC.withCur c'' (LC.ops.apply mov b).1) (target mov es) := by
  obtain ⟨c', e, off, fl, pre, post, l, hit, hb, hl, hcur, hin, hlen, hcs, hup, hs0, hoff, htF, hTF⟩ :=
    iterIndex_hit cx hm hc ht
  have hfl : fl ≠ [] := Sub.flat_ne hs0
  have hap : LC.ops.apply mov (LC.ofList fl) = (⟨fl, some (target mov fl)⟩, fl[target mov fl]?) :=
    apply_abs hm (LC.ofList fl) hfl
  refine ⟨c', e, LC.ofList fl, { c' with log := offOf e :: c'.log }, hit, ?_, ?_, ?_, ?_⟩
  · unfold RC.enter; rw [hoff, load_eq (Sub.inv_leaf hs0)]
  · rw [hap, hTF]
    show fl[target mov fl]? = _
    conv => rhs; rw [hup.split]
    rw [List.append_assoc, List.getElem?_append_right (by omega)]
    simp only [Nat.add_sub_cancel_left]
    rw [List.getElem?_append_left htF]
  · rw [hap]
    exact ⟨hb.trans hc.hbase, hl.trans hc.hlevels, by simp [RC.withCur, hin],
      by intro l' hl'; simp [RC.withCur, hin] at hl'; subst hl'; exact ⟨hlen, hcs⟩⟩
  · rw [hap]
    exact ⟨l, _, off, fl, pre, post, target mov fl, hin, rfl, hup, rfl, rfl, htF, hTF⟩

end

end Grenad.TCursor
