/-
  Grenad.Proofs.IterMain — C04 / C05, main theorems: the four iterators over any cursor that
  simulates the specification cursor (`Sim es step' R`).
-/
import Grenad.Proofs.IterProofs

namespace Grenad.IterP

open Spec (Pos SRes land lowerBound upperBound)

/-! ### second half of every iterator's `next` -/

/-- Second half of every iterator's `next`: filter the positioned entry through `g`. -/
def finish {ι γ : Type} (mk : γ → ι) (g : Bytes → Bool) : γ × Res → ι × Res
  | (c, .err) => (mk c, .err)
  | (c, .ok (some (k, v))) => if g k then (mk c, .ok (some (k, v))) else (mk c, .ok none)
  | (c, .ok none) => (mk c, .ok none)

theorem finish_cases {ι γ : Type} (mk : γ → ι) (g : Bytes → Bool) (c : γ) (r : Option Entry) :
    (∃ e, r = some e ∧ g e.1 = true ∧ finish mk g (c, .ok r) = (mk c, .ok (some e))) ∨
    ((∀ e, r = some e → g e.1 = false) ∧ finish mk g (c, .ok r) = (mk c, .ok none)) := by
  cases r with
  | none => exact .inr ⟨fun e h => (by cases h), rfl⟩
  | some e =>
    obtain ⟨k, v⟩ := e
    by_cases hg : g k = true
    · exact .inl ⟨(k, v), rfl, hg, by simp [finish, hg]⟩
    · refine .inr ⟨fun e h => ?_, by simp [finish, hg]⟩
      cases h; simpa using hg

section
variable {γ : Type} (step : γ → Op → γ × Res)

theorem RangeIter.next_finish (it : RangeIter γ) :
    RangeIter.next step it =
      finish (fun c => { it with cursor := c, start := false }) (endContains it.hi)
        (rangeSeek step it) := by
  rw [RangeIter.next_eq]
  rcases rangeSeek step it with ⟨c, r⟩
  cases r with
  | err => rfl
  | ok o => cases o with
    | none => rfl
    | some e => rfl

theorem RangeIter.nextRev_finish (it : RangeIter γ) :
    RangeIter.nextRev step it =
      finish (fun c => { it with cursor := c, start := false }) (startContains it.lo)
        (rangeSeekRev step it) := by
  rw [RangeIter.nextRev_eq]
  rcases rangeSeekRev step it with ⟨c, r⟩
  cases r with
  | err => rfl
  | ok o => cases o with
    | none => rfl
    | some e => rfl

theorem PrefixIter.next_finish (it : PrefixIter γ) :
    PrefixIter.next step it =
      finish (fun c => { it with cursor := c, start := false }) (it.pre.isPrefixOf)
        (prefixSeek step it) := by
  rw [PrefixIter.next_eq]
  rcases prefixSeek step it with ⟨c, r⟩
  cases r with
  | err => rfl
  | ok o => cases o with
    | none => rfl
    | some e => rfl

theorem PrefixIter.nextRev_finish (it : PrefixIter γ) :
    PrefixIter.nextRev step it =
      finish (fun c => { it with cursor := c, start := false }) (it.pre.isPrefixOf)
        (prefixSeekRev step it) := by
  rw [PrefixIter.nextRev_eq]
  rcases prefixSeekRev step it with ⟨c, r⟩
  cases r with
  | err => rfl
  | ok o => cases o with
    | none => rfl
    | some e => rfl

end

section main
variable {γ : Type} {es : List Entry} {step' : γ → Op → γ × Res} {R : γ → Pos → Prop}

/-! ### forward range -/

theorem rangeSeek_start (hsim : Sim es step' R) (hasc : StrictAsc es) (it : RangeIter γ)
    (pos : Pos) (hR : R it.cursor pos) (hs : it.start = true) :
    ∃ c', rangeSeek step' it = (c', .ok es[startIdx es it.lo]?) ∧
      (startIdx es it.lo < es.length → R c' (.at (startIdx es it.lo))) := by
  obtain ⟨c, lo, hi, st⟩ := it
  simp only at hs hR ⊢
  subst hs
  unfold rangeSeek
  simp only [if_true]
  cases lo with
  | unbounded =>
    rw [startIdx_unbounded]
    exact sim_land hsim hR (step_first es pos)
  | included s =>
    rw [startIdx_included]
    exact sim_land hsim hR (step_ge es pos s)
  | excluded s =>
    rw [startIdx_excluded]
    obtain ⟨c1, h1, hR1⟩ := sim_land hsim hR (step_ge es pos s)
    simp only [h1]
    rcases bound_cases es hasc s with ⟨hub, hne, _⟩ | ⟨hub, e, he, hk⟩
    · rw [hub]
      cases hlb : es[lowerBound es s]? with
      | none => exact ⟨c1, rfl, fun h => hR1 h⟩
      | some e =>
        obtain ⟨k, v⟩ := e
        have hks : k ≠ s := hne (k, v) hlb
        simp only [if_neg hks]
        exact ⟨c1, rfl, fun h => hR1 h⟩
    · rw [hub, he]
      obtain ⟨k, v⟩ := e
      simp only at hk
      subst hk
      simp only [if_true]
      have hlt : lowerBound es k < es.length := by
        rcases Nat.lt_or_ge (lowerBound es k) es.length with h | h
        · exact h
        · rw [List.getElem?_eq_none h] at he; cases he
      exact sim_land hsim (hR1 hlt) (step_next_at es _)

/-- Invariant of the ascending iterators: the next call examines `es[i]`. -/
def RangeFwdInv (R : γ → Pos → Prop) (es : List Entry) (lo hi : Bound) (it : RangeIter γ)
    (i : Nat) : Prop :=
  it.lo = lo ∧ it.hi = hi ∧
    ((it.start = true ∧ (∃ pos, R it.cursor pos) ∧ i = startIdx es lo) ∨
     (it.start = false ∧ ∃ j, i = j + 1 ∧ R it.cursor (.at j)))

theorem rangeSeek_inv (hsim : Sim es step' R) (hasc : StrictAsc es) {lo hi : Bound}
    (it : RangeIter γ) (i : Nat) (hI : RangeFwdInv R es lo hi it i) :
    ∃ c', rangeSeek step' it = (c', .ok es[i]?) ∧ (i < es.length → R c' (.at i)) := by
  obtain ⟨hlo, _, ⟨hs, ⟨pos, hR⟩, hi0⟩ | ⟨hs, j, hij, hR⟩⟩ := hI
  · subst hi0; subst hlo
    exact rangeSeek_start hsim hasc it pos hR hs
  · subst hij
    unfold rangeSeek
    simp only [hs, Bool.false_eq_true, if_false]
    exact sim_land hsim hR (step_next_at es j)

theorem getElem?_some_lt {α} {l : List α} {i : Nat} {e : α} (h : l[i]? = some e) : i < l.length := by
  rcases Nat.lt_or_ge i l.length with h' | h'
  · exact h'
  · rw [List.getElem?_eq_none h'] at h; cases h

theorem rangeFwd_step (hsim : Sim es step' R) (hasc : StrictAsc es) (lo hi : Bound)
    (it : RangeIter γ) (i : Nat) (hI : RangeFwdInv R es lo hi it i) :
    ∃ it',
      (∃ e, es[i]? = some e ∧ endContains hi e.1 = true ∧
        RangeIter.next step' it = (it', .ok (some e)) ∧ RangeFwdInv R es lo hi it' (i + 1)) ∨
      ((∀ e, es[i]? = some e → endContains hi e.1 = false) ∧
        RangeIter.next step' it = (it', .ok none)) := by
  obtain ⟨c', hseek, hR'⟩ := rangeSeek_inv hsim hasc it i hI
  obtain ⟨hlo, hhi, _⟩ := hI
  subst hlo; subst hhi
  rw [RangeIter.next_finish, hseek]
  refine ⟨{ it with cursor := c', start := false }, ?_⟩
  rcases finish_cases (fun c => { it with cursor := c, start := false }) (endContains it.hi) c'
    es[i]? with ⟨e, he, hg, hf⟩ | ⟨hb, hf⟩
  · exact .inl ⟨e, he, hg, hf, rfl, rfl, .inr ⟨rfl, i, rfl, hR' (getElem?_some_lt he)⟩⟩
  · exact .inr ⟨hb, hf⟩

/-- C04 (forward), for any cursor simulating the specification cursor, from any position. -/
theorem range_collect (hsim : Sim es step' R) (hasc : StrictAsc es) (c0 : γ) (pos0 : Pos)
    (hR : R c0 pos0) (lo hi : Bound) (fuel : Nat) (hf : es.length < fuel) :
    collect (RangeIter.next step') fuel { cursor := c0, lo := lo, hi := hi } [] =
      some (Spec.range es lo hi) := by
  have := collect_fwd (RangeIter.next step') es (fun e => endContains hi e.1)
    (RangeFwdInv R es lo hi) (rangeFwd_step hsim hasc lo hi) fuel
    { cursor := c0, lo := lo, hi := hi } (startIdx es lo) []
    ⟨rfl, rfl, .inl ⟨rfl, ⟨pos0, hR⟩, rfl⟩⟩ (by omega)
  rw [this, range_eq_fwd es hasc]
  rfl

/-! ### backward range -/

/-- Invariant of the descending iterators: the next call examines `es[n-1]`. -/
def RangeBwdInv (R : γ → Pos → Prop) (es : List Entry) (lo hi : Bound) (it : RangeIter γ)
    (n : Nat) : Prop :=
  it.lo = lo ∧ it.hi = hi ∧ n ≤ es.length ∧
    ((it.start = true ∧ (∃ pos, R it.cursor pos) ∧ n = endIdx es hi) ∨
     (it.start = false ∧ R it.cursor (.at n)))

/-- Result shape of a backward positioning that examines `es[n-1]`. -/
def BwdSeek (R : γ → Pos → Prop) (es : List Entry) (n : Nat) (x : γ × Res) : Prop :=
  (n = 0 ∧ x.2 = .ok none) ∨
  (∃ m e, n = m + 1 ∧ es[m]? = some e ∧ x.2 = .ok (some e) ∧ R x.1 (.at m))

theorem bwdSeek_of_landB (hsim : Sim es step' R) {c : γ} {pos : Pos} {op : Op} {n : Nat}
    (hR : R c pos) (hn : n ≤ es.length) (hs : Spec.step es pos op = landB es n) :
    BwdSeek R es n (step' c op) := by
  obtain ⟨c', ⟨h0, h1, _⟩ | ⟨m, e, h0, h1, h2, h3⟩⟩ := sim_landB hsim hR hn hs
  · exact .inl ⟨h0, by rw [h1]⟩
  · exact .inr ⟨m, e, h0, h1, by rw [h2], by rw [h2]; exact h3⟩

/-- The "floor, then step back if equal" positioning used by the excluded upper bound. -/
theorem bwdSeek_excluded (hsim : Sim es step' R) (hasc : StrictAsc es) (c : γ) (pos : Pos)
    (hR : R c pos) (q : Bytes) :
    BwdSeek R es (lowerBound es q)
      (match step' c (.le q) with
       | (c, .ok (some (k, v))) => if k = q then step' c .prev else (c, .ok (some (k, v)))
       | (c, r) => (c, r)) := by
  obtain ⟨c1, ⟨h0, h1, _⟩ | ⟨m, e, h0, h1, h2, h3⟩⟩ :=
    sim_landB hsim hR (upperBound_le_length es q) (step_le es pos q)
  · simp only [h1]
    refine .inl ⟨?_, rfl⟩
    rcases bound_cases es hasc q with ⟨hub, _⟩ | ⟨hub, _⟩ <;> omega
  · simp only [h2]
    obtain ⟨k, v⟩ := e
    rcases bound_cases es hasc q with ⟨hub, _, hne⟩ | ⟨hub, e1, he1, hk⟩
    · have hkq : k ≠ q := hne m (k, v) (by omega) h1
      simp only [if_neg hkq]
      exact .inr ⟨m, (k, v), by omega, h1, rfl, h3⟩
    · have hm : m = lowerBound es q := by omega
      subst hm
      rw [he1] at h1
      cases h1
      simp only at hk
      subst hk
      simp only [if_true]
      exact bwdSeek_of_landB hsim h3 (lowerBound_le_length es k) (step_prev_at es _)

theorem rangeSeekRev_inv (hsim : Sim es step' R) (hasc : StrictAsc es) {lo hi : Bound}
    (it : RangeIter γ) (n : Nat) (hI : RangeBwdInv R es lo hi it n) :
    BwdSeek R es n (rangeSeekRev step' it) := by
  obtain ⟨_, hhi, hn, ⟨hs, ⟨pos, hR⟩, hn0⟩ | ⟨hs, hR⟩⟩ := hI
  · obtain ⟨c, lo', hi', st⟩ := it
    simp only at hs hR hhi
    subst hs; subst hhi; subst hn0
    unfold rangeSeekRev
    simp only [if_true]
    cases hi' with
    | unbounded =>
      rw [endIdx_unbounded]
      exact bwdSeek_of_landB hsim hR (Nat.le_refl _) (step_last es pos)
    | included e =>
      rw [endIdx_included]
      exact bwdSeek_of_landB hsim hR (upperBound_le_length es e) (step_le es pos e)
    | excluded e =>
      rw [endIdx_excluded]
      exact bwdSeek_excluded hsim hasc c pos hR e
  · unfold rangeSeekRev
    simp only [hs, Bool.false_eq_true, if_false]
    exact bwdSeek_of_landB hsim hR hn (step_prev_at es n)

theorem rangeBwd_step (hsim : Sim es step' R) (hasc : StrictAsc es) (lo hi : Bound)
    (it : RangeIter γ) (n : Nat) (hI : RangeBwdInv R es lo hi it n) :
    ∃ it',
      (∃ m e, n = m + 1 ∧ es[m]? = some e ∧ startContains lo e.1 = true ∧
        RangeIter.nextRev step' it = (it', .ok (some e)) ∧ RangeBwdInv R es lo hi it' m) ∨
      ((∀ m e, n = m + 1 → es[m]? = some e → startContains lo e.1 = false) ∧
        RangeIter.nextRev step' it = (it', .ok none)) := by
  have hseek := rangeSeekRev_inv hsim hasc it n hI
  obtain ⟨hlo, hhi, hn, _⟩ := hI
  subst hlo; subst hhi
  rw [RangeIter.nextRev_finish]
  rcases hx : rangeSeekRev step' it with ⟨c', r⟩
  rw [hx] at hseek
  refine ⟨{ it with cursor := c', start := false }, ?_⟩
  rcases hseek with ⟨h0, hr⟩ | ⟨m, e, h0, he, hr, hR'⟩
  · simp only at hr
    subst hr
    exact .inr ⟨fun m e h => (by omega), rfl⟩
  · simp only at hr hR'
    subst hr
    rcases finish_cases (fun c => { it with cursor := c, start := false }) (startContains it.lo) c'
      (some e) with ⟨e', he', hg, hf⟩ | ⟨hb, hf⟩
    · cases he'
      exact .inl ⟨m, e, h0, he, hg, hf, rfl, rfl, by omega, .inr ⟨rfl, hR'⟩⟩
    · refine .inr ⟨fun m' e' hm' he'' => ?_, hf⟩
      have : m' = m := by omega
      subst this
      rw [he] at he''
      cases he''
      exact hb e rfl

/-- C04 (backward), for any cursor simulating the specification cursor, from any position. -/
theorem range_collect_rev (hsim : Sim es step' R) (hasc : StrictAsc es) (c0 : γ) (pos0 : Pos)
    (hR : R c0 pos0) (lo hi : Bound) (fuel : Nat) (hf : es.length < fuel) :
    collect (RangeIter.nextRev step') fuel { cursor := c0, lo := lo, hi := hi } [] =
      some (Spec.range es lo hi).reverse := by
  have hle := endIdx_le_length es hi
  have := collect_bwd (RangeIter.nextRev step') es (fun e => startContains lo e.1)
    (RangeBwdInv R es lo hi) (rangeBwd_step hsim hasc lo hi) fuel
    { cursor := c0, lo := lo, hi := hi } (endIdx es hi) []
    ⟨rfl, rfl, hle, .inl ⟨rfl, ⟨pos0, hR⟩, rfl⟩⟩ hle (by omega)
  rw [this, range_reverse_eq_bwd es hasc]
  rfl

/-! ### forward prefix -/

def PrefixFwdInv (R : γ → Pos → Prop) (es : List Entry) (p : Bytes) (it : PrefixIter γ)
    (i : Nat) : Prop :=
  it.pre = p ∧
    ((it.start = true ∧ (∃ pos, R it.cursor pos) ∧ i = lowerBound es p) ∨
     (it.start = false ∧ ∃ j, i = j + 1 ∧ R it.cursor (.at j)))

theorem prefixSeek_inv (hsim : Sim es step' R) {p : Bytes}
    (it : PrefixIter γ) (i : Nat) (hI : PrefixFwdInv R es p it i) :
    ∃ c', prefixSeek step' it = (c', .ok es[i]?) ∧ (i < es.length → R c' (.at i)) := by
  obtain ⟨hp, ⟨hs, ⟨pos, hR⟩, hi0⟩ | ⟨hs, j, hij, hR⟩⟩ := hI
  · subst hi0
    unfold prefixSeek
    simp only [hs, if_true, hp]
    exact sim_land hsim hR (step_ge es pos p)
  · subst hij
    unfold prefixSeek
    simp only [hs, Bool.false_eq_true, if_false]
    exact sim_land hsim hR (step_next_at es j)

theorem prefixFwd_step (hsim : Sim es step' R) (p : Bytes)
    (it : PrefixIter γ) (i : Nat) (hI : PrefixFwdInv R es p it i) :
    ∃ it',
      (∃ e, es[i]? = some e ∧ p.isPrefixOf e.1 = true ∧
        PrefixIter.next step' it = (it', .ok (some e)) ∧ PrefixFwdInv R es p it' (i + 1)) ∨
      ((∀ e, es[i]? = some e → p.isPrefixOf e.1 = false) ∧
        PrefixIter.next step' it = (it', .ok none)) := by
  obtain ⟨c', hseek, hR'⟩ := prefixSeek_inv hsim it i hI
  obtain ⟨hp, _⟩ := hI
  subst hp
  rw [PrefixIter.next_finish, hseek]
  refine ⟨{ it with cursor := c', start := false }, ?_⟩
  rcases finish_cases (fun c => { it with cursor := c, start := false }) (it.pre.isPrefixOf) c'
    es[i]? with ⟨e, he, hg, hf⟩ | ⟨hb, hf⟩
  · exact .inl ⟨e, he, hg, hf, rfl, .inr ⟨rfl, i, rfl, hR' (getElem?_some_lt he)⟩⟩
  · exact .inr ⟨hb, hf⟩

/-- C05 (forward), for any cursor simulating the specification cursor, from any position. -/
theorem prefix_collect (hsim : Sim es step' R) (hasc : StrictAsc es) (c0 : γ) (pos0 : Pos)
    (hR : R c0 pos0) (p : Bytes) (fuel : Nat) (hf : es.length < fuel) :
    collect (PrefixIter.next step') fuel { cursor := c0, pre := p } [] =
      some (Spec.withPrefix es p) := by
  have := collect_fwd (PrefixIter.next step') es (fun e => p.isPrefixOf e.1)
    (PrefixFwdInv R es p) (prefixFwd_step hsim p) fuel
    { cursor := c0, pre := p } (lowerBound es p) []
    ⟨rfl, .inl ⟨rfl, ⟨pos0, hR⟩, rfl⟩⟩ (by omega)
  rw [this, withPrefix_eq_fwd es hasc]
  rfl

/-! ### backward prefix -/

/-- The side condition of the backward prefix iterator.  `move_on_last_prefix` calls `current()`
    right after a floor seek `le np` (`np = advance_key(p)`) that returned `None`; the specification
    leaves that `current()` open (position `lost`).  All that is needed — and it is necessary, see
    `lostCurrentOK_of_prefix_collect_rev` — is that this one call does not fail and does not
    return an entry that starts with `p`. -/
def LostCurrentOK (step' : γ → Op → γ × Res) (c0 : γ) (p : Bytes) : Prop :=
  ∀ np c1, advanceKey p = some np → step' c0 (.le np) = (c1, .ok none) →
    ∃ c2 r, step' c1 .current = (c2, .ok r) ∧ ∀ e, r = some e → p.isPrefixOf e.1 = false

/-- A convenient sufficient condition: after a failed floor seek `le q`, `current()` returns
    nothing or an entry whose key is `≥ q`. -/
def LostCurrentGe (step' : γ → Op → γ × Res) (c0 : γ) : Prop :=
  ∀ q c1, step' c0 (.le q) = (c1, .ok none) →
    ∃ c2 r, step' c1 .current = (c2, .ok r) ∧ ∀ e, r = some e → q ≤ e.1

theorem LostCurrentGe.ok {c0 : γ} (h : LostCurrentGe step' c0) (p : Bytes) :
    LostCurrentOK step' c0 p := by
  intro np c1 hp hle
  obtain ⟨c2, r, h1, h2⟩ := h np c1 hle
  exact ⟨c2, r, h1, fun e he => not_isPrefixOf_of_advanceKey_le hp (h2 e he)⟩

theorem lostCurrentOK_stepTotal (es : List Entry) (pos : Pos) (p : Bytes) :
    LostCurrentOK (Spec.stepTotal es) pos p := by
  intro np c1 _ hle
  have h1 : c1 = .lost := by
    have hs := step_le es pos np
    unfold Spec.stepTotal at hle
    rw [hs] at hle
    unfold landB at hle
    by_cases h0 : upperBound es np = 0
    · simp only [h0, if_true] at hle
      exact (Prod.mk.inj hle).1.symm
    · simp only [h0, if_false, land_eq] at hle
      have hlt : upperBound es np - 1 < es.length := by
        have := upperBound_le_length es np; omega
      simp [hlt] at hle
  subst h1
  exact ⟨.lost, none, rfl, fun e h => by cases h⟩

/-- Result shape of the backward prefix positioning. -/
def BwdSeekP (R : γ → Pos → Prop) (es : List Entry) (p : Bytes) (n : Nat) (x : γ × Res) : Prop :=
  (n = 0 ∧ ∃ r, x.2 = .ok r ∧ ∀ e, r = some e → p.isPrefixOf e.1 = false) ∨
  (∃ m e, n = m + 1 ∧ es[m]? = some e ∧ x.2 = .ok (some e) ∧ R x.1 (.at m))

theorem BwdSeek.toP {p : Bytes} {n : Nat} {x : γ × Res} (h : BwdSeek R es n x) :
    BwdSeekP R es p n x := by
  rcases h with ⟨h0, h1⟩ | h
  · exact .inl ⟨h0, none, h1, fun e h => by cases h⟩
  · exact .inr h

theorem moveOnLastPrefix_seek (hsim : Sim es step' R) (hasc : StrictAsc es) (c : γ) (pos : Pos)
    (hR : R c pos) (p : Bytes) (hside : LostCurrentOK step' c p) :
    BwdSeekP R es p (prefixEndIdx es p) (moveOnLastPrefix step' c p) := by
  unfold moveOnLastPrefix prefixEndIdx
  cases hp : advanceKey p with
  | none =>
    simp only
    exact (bwdSeek_of_landB hsim hR (Nat.le_refl _) (step_last es pos)).toP
  | some np =>
    simp only
    obtain ⟨c1, ⟨h0, h1, _⟩ | ⟨m, e, h0, h1, h2, h3⟩⟩ :=
      sim_landB hsim hR (upperBound_le_length es np) (step_le es pos np)
    · obtain ⟨c2, r, hc, hr⟩ := hside np c1 hp h1
      simp only [h1, hc]
      refine .inl ⟨?_, r, rfl, hr⟩
      rcases bound_cases es hasc np with ⟨hub, _⟩ | ⟨hub, _⟩ <;> omega
    · simp only [h2]
      obtain ⟨k, v⟩ := e
      rcases bound_cases es hasc np with ⟨hub, _, hne⟩ | ⟨hub, e1, he1, hk⟩
      · have hkq : k ≠ np := hne m (k, v) (by omega) h1
        simp only [if_neg hkq]
        obtain ⟨c2, hc, hR2⟩ := sim_at hsim h3 (step_current_at es m)
        rw [hc, h1]
        exact .inr ⟨m, (k, v), by omega, h1, rfl, hR2⟩
      · have hm : m = lowerBound es np := by omega
        subst hm
        rw [he1] at h1
        cases h1
        simp only at hk
        subst hk
        simp only [if_true]
        exact (bwdSeek_of_landB hsim h3 (lowerBound_le_length es k) (step_prev_at es _)).toP

def PrefixBwdInv (R : γ → Pos → Prop) (es : List Entry) (step' : γ → Op → γ × Res) (p : Bytes)
    (it : PrefixIter γ) (n : Nat) : Prop :=
  it.pre = p ∧ n ≤ es.length ∧
    ((it.start = true ∧ (∃ pos, R it.cursor pos) ∧ LostCurrentOK step' it.cursor p ∧
        n = prefixEndIdx es p) ∨
     (it.start = false ∧ R it.cursor (.at n)))

theorem prefixSeekRev_inv (hsim : Sim es step' R) (hasc : StrictAsc es) {p : Bytes}
    (it : PrefixIter γ) (n : Nat) (hI : PrefixBwdInv R es step' p it n) :
    BwdSeekP R es p n (prefixSeekRev step' it) := by
  obtain ⟨hp, hn, ⟨hs, ⟨pos, hR⟩, hside, hn0⟩ | ⟨hs, hR⟩⟩ := hI
  · subst hn0
    unfold prefixSeekRev
    simp only [hs, if_true, hp]
    exact moveOnLastPrefix_seek hsim hasc it.cursor pos hR p hside
  · unfold prefixSeekRev
    simp only [hs, Bool.false_eq_true, if_false]
    exact (bwdSeek_of_landB hsim hR hn (step_prev_at es n)).toP

theorem prefixBwd_step (hsim : Sim es step' R) (hasc : StrictAsc es) (p : Bytes)
    (it : PrefixIter γ) (n : Nat) (hI : PrefixBwdInv R es step' p it n) :
    ∃ it',
      (∃ m e, n = m + 1 ∧ es[m]? = some e ∧ p.isPrefixOf e.1 = true ∧
        PrefixIter.nextRev step' it = (it', .ok (some e)) ∧ PrefixBwdInv R es step' p it' m) ∨
      ((∀ m e, n = m + 1 → es[m]? = some e → p.isPrefixOf e.1 = false) ∧
        PrefixIter.nextRev step' it = (it', .ok none)) := by
  have hseek := prefixSeekRev_inv hsim hasc it n hI
  obtain ⟨hp, hn, _⟩ := hI
  subst hp
  rw [PrefixIter.nextRev_finish]
  rcases hx : prefixSeekRev step' it with ⟨c', r⟩
  rw [hx] at hseek
  refine ⟨{ it with cursor := c', start := false }, ?_⟩
  rcases hseek with ⟨h0, r', hr, hbad⟩ | ⟨m, e, h0, he, hr, hR'⟩
  · simp only at hr
    subst hr
    rcases finish_cases (fun c => { it with cursor := c, start := false }) (it.pre.isPrefixOf) c'
      r' with ⟨e', he', hg, _⟩ | ⟨_, hf⟩
    · rw [hbad e' he'] at hg; cases hg
    · exact .inr ⟨fun m e h => (by omega), hf⟩
  · simp only at hr hR'
    subst hr
    rcases finish_cases (fun c => { it with cursor := c, start := false }) (it.pre.isPrefixOf) c'
      (some e) with ⟨e', he', hg, hf⟩ | ⟨hb, hf⟩
    · cases he'
      exact .inl ⟨m, e, h0, he, hg, hf, rfl, by omega, .inr ⟨rfl, hR'⟩⟩
    · refine .inr ⟨fun m' e' hm' he'' => ?_, hf⟩
      have : m' = m := by omega
      subst this
      rw [he] at he''
      cases he''
      exact hb e rfl

/-- C05 (backward), for any cursor simulating the specification cursor, from any position,
    under the side condition `LostCurrentOK`. -/
theorem prefix_collect_rev (hsim : Sim es step' R) (hasc : StrictAsc es) (c0 : γ) (pos0 : Pos)
    (hR : R c0 pos0) (p : Bytes) (hside : LostCurrentOK step' c0 p)
    (fuel : Nat) (hf : es.length < fuel) :
    collect (PrefixIter.nextRev step') fuel { cursor := c0, pre := p } [] =
      some (Spec.withPrefix es p).reverse := by
  have hle := prefixEndIdx_le_length es p
  have := collect_bwd (PrefixIter.nextRev step') es (fun e => p.isPrefixOf e.1)
    (PrefixBwdInv R es step' p) (prefixBwd_step hsim hasc p) fuel
    { cursor := c0, pre := p } (prefixEndIdx es p) []
    ⟨rfl, hle, .inl ⟨rfl, ⟨pos0, hR⟩, hside, rfl⟩⟩ hle (by omega)
  rw [this, withPrefix_reverse_eq_bwd es hasc]
  rfl

/-! ### the side condition is necessary -/

theorem collect_acc_prefix {ι : Type} (nxt : ι → ι × Res) :
    ∀ (fuel : Nat) (it : ι) (acc l : List Entry), collect nxt fuel it acc = some l →
      ∃ l', l = acc.reverse ++ l' := by
  intro fuel
  induction fuel with
  | zero =>
    intro it acc l h
    simp only [collect, Option.some.injEq] at h
    exact ⟨[], by simp [h]⟩
  | succ fuel ih =>
    intro it acc l h
    rcases hn : nxt it with ⟨it', r⟩
    simp only [collect, hn] at h
    cases r with
    | err => cases h
    | ok o =>
      cases o with
      | none =>
        simp only [Option.some.injEq] at h
        exact ⟨[], by simp [h]⟩
      | some e =>
        obtain ⟨l', hl⟩ := ih it' (e :: acc) l h
        exact ⟨e :: l', by simp [hl]⟩

/-- `LostCurrentOK` is the weakest side condition: whenever the backward prefix iterator over a
    simulating cursor yields the specified list (with any non-zero fuel), the condition holds. -/
theorem lostCurrentOK_of_prefix_collect_rev (hsim : Sim es step' R) (hasc : StrictAsc es) (c0 : γ)
    (pos0 : Pos) (hR : R c0 pos0) (p : Bytes) (fuel : Nat) (hf : 0 < fuel)
    (h : collect (PrefixIter.nextRev step') fuel { cursor := c0, pre := p } [] =
      some (Spec.withPrefix es p).reverse) :
    LostCurrentOK step' c0 p := by
  intro np c1 hp hle
  -- the floor seek failed, so no entry is `≤ np`, and the specified list is empty
  have hub : upperBound es np = 0 := by
    obtain ⟨c', ⟨h0, _⟩ | ⟨m, e, _, _, h2, _⟩⟩ :=
      sim_landB hsim hR (upperBound_le_length es np) (step_le es pos0 np)
    · exact h0
    · rw [hle] at h2; cases h2
  have hlb : lowerBound es np = 0 := by
    rcases bound_cases es hasc np with ⟨h1, _⟩ | ⟨h1, _⟩ <;> omega
  have hnil : (Spec.withPrefix es p).reverse = [] := by
    rw [withPrefix_reverse_eq_bwd es hasc, prefixEndIdx, hp]
    simp [hlb]
  rw [hnil] at h
  obtain ⟨fuel, rfl⟩ : ∃ f, fuel = f + 1 := ⟨fuel - 1, by omega⟩
  rcases hcur : step' c1 .current with ⟨c2, r⟩
  have hseek : prefixSeekRev step' { cursor := c0, pre := p } = (c2, r) := by
    simp only [prefixSeekRev, moveOnLastPrefix, if_true, hp, hle, hcur]
  simp only [collect, PrefixIter.nextRev_finish, hseek] at h
  cases r with
  | err => simp [finish] at h
  | ok o =>
    refine ⟨c2, o, rfl, fun e he => ?_⟩
    subst he
    cases hpe : p.isPrefixOf e.1 with
    | false => rfl
    | true =>
      obtain ⟨k, v⟩ := e
      simp only at hpe
      simp only [finish, hpe, if_true] at h
      obtain ⟨l', hl⟩ := collect_acc_prefix _ _ _ _ _ h
      simp at hl

/-! ### another sufficient condition: `current()` only ever returns entries of the file -/

theorem lt_of_upperBound_eq_zero (es : List Entry) (hasc : StrictAsc es) (q : Bytes)
    (h0 : upperBound es q = 0) : ∀ e ∈ es, q < e.1 := by
  cases es with
  | nil => intro e he; cases he
  | cons e0 t =>
    have h0' : ¬ e0.1 ≤ q := by
      intro hle
      simp [Spec.upperBound, List.takeWhile_cons_of_pos, hle] at h0
    have hq : q < e0.1 := List.not_le.mp h0'
    rw [strictAsc_cons] at hasc
    intro e he
    rcases List.mem_cons.mp he with rfl | he
    · exact hq
    · exact bytes_lt_trans hq (hasc.1 e he)

/-- If, after a failed floor seek, `current()` returns nothing or *some entry of the file*
    (whichever), the side condition holds. -/
theorem lostCurrentOK_of_mem (hsim : Sim es step' R) (hasc : StrictAsc es) (c0 : γ)
    (pos0 : Pos) (hR : R c0 pos0) (p : Bytes)
    (hmem : ∀ q c1, step' c0 (.le q) = (c1, .ok none) →
      ∃ c2 r, step' c1 .current = (c2, .ok r) ∧ ∀ e, r = some e → e ∈ es) :
    LostCurrentOK step' c0 p := by
  intro np c1 hp hle
  have hub : upperBound es np = 0 := by
    obtain ⟨c', ⟨h0, _⟩ | ⟨m, e, _, _, h2, _⟩⟩ :=
      sim_landB hsim hR (upperBound_le_length es np) (step_le es pos0 np)
    · exact h0
    · rw [hle] at h2; cases h2
  obtain ⟨c2, r, h1, h2⟩ := hmem np c1 hle
  refine ⟨c2, r, h1, fun e he => ?_⟩
  exact not_isPrefixOf_of_advanceKey_le hp
    (bytes_le_of_lt (lt_of_upperBound_eq_zero es hasc np hub e (h2 e he)))

end main

end Grenad.IterP
