/-
  T-writer, part 5: the "flat" description of the index (C09): the items of the blocks of level
  `ℓ`, concatenated in emission order, are the pointers `(last key, be64 offset)` to the blocks
  of level `ℓ - 1` in emission order; the data blocks hold the inserted entries in order.
-/
import Grenad.Proofs.WriterTreeSteps

namespace Grenad

open WT

/-- The blocks of one level, in emission order. -/
def atLevel (log : List Emitted) (ℓ : Nat) : List Emitted := log.filter (·.level = ℓ)

/-- The index entry that points to an emitted block. -/
def blockPtr (c : Emitted) : Entry := (lastKey c.items, be64 c.offset)

theorem atLevel_concat_eq {log : List Emitted} {e : Emitted} {ℓ : Nat} (h : e.level = ℓ) :
    atLevel (log ++ [e]) ℓ = atLevel log ℓ ++ [e] := by
  simp [atLevel, List.filter_append, h]

theorem atLevel_concat_ne {log : List Emitted} {e : Emitted} {ℓ : Nat} (h : e.level ≠ ℓ) :
    atLevel (log ++ [e]) ℓ = atLevel log ℓ := by
  simp [atLevel, List.filter_append, h]

structure FInv (n : Nat) (content : List Entry) (s : WSt) : Prop where
  lvl_lt : ∀ e ∈ s.2.2, e.level < n
  data : (atLevel s.2.2 0).flatMap (·.items) = content
  link : ∀ (j : Nat) (w : BW), s.1[j]? = some w →
    (atLevel s.2.2 (n - j)).flatMap (·.items) ++ w.items = (atLevel s.2.2 (n - j - 1)).map blockPtr

theorem FInv.init (iv n : Nat) : FInv n [] (List.replicate n (BW.new iv), [], []) := by
  refine ⟨by simp, by simp [atLevel], ?_⟩
  intro j w hj
  obtain ⟨hj', hw⟩ := List.getElem?_eq_some_iff.mp hj
  simp at hw; subst hw
  simp [atLevel, BW.new]

theorem FInv.cut {cd : Codec} {n : Nat} {content : List Entry}
    {i : Nat} {idx : List BW} {out : Bytes} {log : List Emitted} {cur parent p' : BW} {lk : Bytes}
    (h : FInv n content (idx, out, log)) (hlen : idx.length = n)
    (hc : idx[i + 1]? = some cur) (hp : idx[i]? = some parent)
    (hlk : lk = lastKey cur.items) (hp' : p'.items = parent.items ++ [(lk, be64 out.length)]) :
    FInv n content (cutAt cd i cur p' (idx, out, log)) := by
  obtain ⟨h1, h2, h3⟩ := h
  simp only at h1 h2 h3
  have hin : i + 1 < n := by
    obtain ⟨h', -⟩ := List.getElem?_eq_some_iff.mp hc; omega
  refine ⟨?_, ?_, ?_⟩
  · intro e he
    simp only [cutAt, List.mem_append, List.mem_singleton] at he
    rcases he with he | rfl
    · exact h1 e he
    · simp only [hlen]; omega
  · simp only [cutAt]
    rw [atLevel_concat_ne (by simp only [hlen]; omega)]; exact h2
  · intro j w hj
    simp only [cutAt] at hj ⊢
    have hjn : j < n := by
      obtain ⟨h', -⟩ := List.getElem?_eq_some_iff.mp hj; simp at h'; omega
    by_cases hj1 : j = i + 1
    · subst hj1
      rw [List.getElem?_set_self (by simp; omega)] at hj
      cases hj
      rw [atLevel_concat_eq (by simp only [hlen]), atLevel_concat_ne (by simp only [hlen]; omega)]
      have := h3 _ _ hc
      simpa [BW.reset] using this
    · by_cases hj0 : j = i
      · subst hj0
        rw [List.getElem?_set_ne (by omega), List.getElem?_set_self (by omega)] at hj
        cases hj
        rw [atLevel_concat_ne (by simp only [hlen]; omega),
          atLevel_concat_eq (by simp only [hlen]; omega)]
        have := h3 _ _ hp
        rw [hp', ← List.append_assoc, this]
        simp [blockPtr, hlk]
      · rw [List.getElem?_set_ne (by omega), List.getElem?_set_ne (by omega)] at hj
        rw [atLevel_concat_ne (by simp only [hlen]; omega),
          atLevel_concat_ne (by simp only [hlen]; omega)]
        exact h3 _ _ hj

theorem FInv.dataStep {cd : Codec} {n : Nat} {content : List Entry}
    {idx : List BW} {out : Bytes} {log : List Emitted} {bw parent p' : BW} {lk : Bytes}
    (h : FInv n content (idx, out, log)) (hlen : idx.length = n)
    (hp : idx[n - 1]? = some parent)
    (hlk : lk = lastKey bw.items) (hp' : p'.items = parent.items ++ [(lk, be64 out.length)]) :
    FInv n (content ++ bw.items) (dataAt cd (n - 1) bw p' (idx, out, log)) := by
  obtain ⟨h1, h2, h3⟩ := h
  simp only at h1 h2 h3
  have hn : 0 < n := by
    obtain ⟨h', -⟩ := List.getElem?_eq_some_iff.mp hp; omega
  refine ⟨?_, ?_, ?_⟩
  · intro e he
    simp only [dataAt, List.mem_append, List.mem_singleton] at he
    rcases he with he | rfl
    · exact h1 e he
    · exact hn
  · simp only [dataAt]
    rw [atLevel_concat_eq rfl]; simp [h2]
  · intro j w hj
    simp only [dataAt] at hj ⊢
    have hjn : j < n := by
      obtain ⟨h', -⟩ := List.getElem?_eq_some_iff.mp hj; simp at h'; omega
    by_cases hj0 : j = n - 1
    · subst hj0
      rw [List.getElem?_set_self (by omega)] at hj
      cases hj
      have e1 : n - (n - 1) - 1 = 0 := by omega
      rw [atLevel_concat_ne (by simp only; omega), e1, atLevel_concat_eq rfl]
      have := h3 _ _ hp
      rw [e1] at this
      rw [hp', ← List.append_assoc, this]
      simp [blockPtr, hlk]
    · rw [List.getElem?_set_ne (by omega)] at hj
      rw [atLevel_concat_ne (by simp only; omega), atLevel_concat_ne (by simp only; omega)]
      exact h3 _ _ hj

/-- The flat description of a finished file. -/
structure FFinal (n : Nat) (content : List Entry) (s : WSt) (r : Nat) : Prop where
  root_last : ∃ l0 e, s.2.2 = l0 ++ [e] ∧ e.offset = r ∧ e.level = n ∧ ∀ e' ∈ l0, e'.level < n
  data : (atLevel s.2.2 0).flatMap (·.items) = content
  links : ∀ ℓ, 1 ≤ ℓ → ℓ ≤ n →
    (atLevel s.2.2 ℓ).flatMap (·.items) = (atLevel s.2.2 (ℓ - 1)).map blockPtr

theorem FInv.root {cd : Codec} {n : Nat} {content : List Entry}
    {idx : List BW} {out : Bytes} {log : List Emitted} {cur : BW}
    (h : FInv n content (idx, out, log)) (hlen : idx.length = n)
    (hempty : ∀ j w, 1 ≤ j → idx[j]? = some w → w.items = [])
    (hc : idx[0]? = some cur) :
    FFinal n content (rootAt cd cur (idx, out, log)) out.length := by
  obtain ⟨h1, h2, h3⟩ := h
  simp only at h1 h2 h3
  have hn : 0 < n := by
    obtain ⟨h', -⟩ := List.getElem?_eq_some_iff.mp hc; omega
  refine ⟨⟨log, _, rfl, rfl, hlen, h1⟩, ?_, ?_⟩
  · simp only [rootAt]
    rw [atLevel_concat_ne (by simp only [hlen]; omega)]; exact h2
  · intro ℓ hl1 hl2
    simp only [rootAt]
    by_cases hl : ℓ = n
    · subst hl
      rw [atLevel_concat_eq hlen, atLevel_concat_ne (by simp only [hlen]; omega)]
      have := h3 _ _ hc
      simpa using this
    · rw [atLevel_concat_ne (by simp only [hlen]; omega),
        atLevel_concat_ne (by simp only [hlen]; omega)]
      have hj : n - ℓ < idx.length := by omega
      have := h3 (n - ℓ) idx[n - ℓ] (by simp [hj])
      rw [hempty (n - ℓ) idx[n - ℓ] (by omega) (by simp [hj])] at this
      have e1 : n - (n - ℓ) = ℓ := by omega
      rw [e1] at this
      simpa using this

end Grenad
