/-
  T-cursor, part 4: the public absolute moves (`first`, `last`, `ge`) from any cache-sound
  state of a non-empty file.
-/
import Grenad.Proofs.TCursor3

namespace Grenad.TCursor

open Grenad Spec

section
variable {s : Store} {lvl : Nat → Nat} {root levels : Nat} {es : List Entry}

theorem Ctx.es_ne (cx : Ctx s lvl (levels + 1) root es) : es ≠ [] := Sub.flat_ne cx.sub

theorem Ctx.es_pos (cx : Ctx s lvl (levels + 1) root es) : 0 < es.length :=
  List.length_pos_iff.2 cx.es_ne

theorem first_spec (cx : Ctx s lvl (levels + 1) root es) {c : RC LC}
    (hc : CScore s lvl root levels c) :
    ∃ c', RC.first LC.ops s.load c = (c', .ok es[0]?) ∧ CScore s lvl root levels c' ∧
      PosInv s lvl root levels es c' 0 := by
  have ht : target .first es < es.length := cx.es_pos
  obtain ⟨c', e, b, c'', h1, h2, h3, h4, h5⟩ := abs_finish cx (mov := .first) trivial hc ht
  refine ⟨_, ?_, h4, h5⟩
  unfold RC.first
  simp only [h1, h2]
  exact congrArg (fun r => (RC.withCur c'' (LC.first b).1, Res.ok r)) h3

theorem last_spec (cx : Ctx s lvl (levels + 1) root es) {c : RC LC}
    (hc : CScore s lvl root levels c) :
    ∃ c', RC.last LC.ops s.load c = (c', .ok es[es.length - 1]?) ∧ CScore s lvl root levels c' ∧
      PosInv s lvl root levels es c' (es.length - 1) := by
  have ht : target .last es < es.length := by have := cx.es_pos; simp only [target]; omega
  obtain ⟨c', e, b, c'', h1, h2, h3, h4, h5⟩ := abs_finish cx (mov := .last) trivial hc ht
  refine ⟨_, ?_, h4, h5⟩
  unfold RC.last
  simp only [h1, h2]
  exact congrArg (fun r => (RC.withCur c'' (LC.last b).1, Res.ok r)) h3

/-- `ge q` beyond the last key: answers `None`, stays cache-sound. -/
theorem ge_miss (cx : Ctx s lvl (levels + 1) root es) {c : RC LC}
    (hc : CScore s lvl root levels c) (q : Bytes) (hq : lowerBound es q = es.length) :
    ∃ c', RC.ge LC.ops s.load q c = (c', .ok none) ∧ CScore s lvl root levels c' := by
  obtain ⟨kids, hkne, hblk, hkids, hfl⟩ := Sub.inv_node cx.sub
  have hne : ∀ k ∈ kids, k.2 ≠ [] := fun k hk => Sub.flat_ne (hkids k hk)
  have hmiss : lowerBound (idx kids) q = (idx kids).length :=
    target_node_miss hne (hfl ▸ cx.asc) q (hfl ▸ hq)
  -- any cursor over the root block answers `None`
  have hroot : ∀ c2 : LC, c2.es = idx kids →
      LC.ops.apply (.ge q) c2 = (⟨c2.es, some (lowerBound c2.es q)⟩, none) := by
    intro c2 h2
    have hcne : c2.es ≠ [] := by rw [h2]; simpa using hkne
    rw [apply_abs (mov := .ge q) trivial c2 hcne]
    simp only [target, h2, hmiss]
    rw [List.getElem?_eq_none (Nat.le_refl _)]
  cases hin : c.inner with
  | none =>
    refine ⟨{ c with inner := none, log := root :: c.log }, ?_, hc.hbase, hc.hlevels,
      fun _ => hc.cur_none hin, (by intro l hl; cases hl)⟩
    unfold RC.ge RC.iterIndex
    simp only [hin, hc.hbase, hc.hlevels]
    rw [RC.initialIndex]
    simp only [load_eq hblk, hroot (LC.ofList (idx kids)) rfl]
  | some inner =>
    obtain ⟨hlen, hcs⟩ := hc.inner inner hin
    cases inner with
    | nil => simp at hlen
    | cons x r =>
      obtain ⟨o, c0⟩ := x
      simp only [List.reverse_cons, CSr_append, List.length_reverse] at hcs
      simp only [List.length_cons] at hlen
      have hre : ∃ c2 log2, s root = some c2.es ∧
          (if root ≠ o then (s.load root).map (fun c' => (root, c', root :: c.log)) else some (o, c0, c.log))
            = some (root, c2, log2) := by
        by_cases hj : root = o
        · subst hj
          refine ⟨c0, c.log, hcs.2.1 ?_, by simp⟩
          have := Sub.lvl_eq cx.sub; omega
        · exact ⟨LC.ofList (idx kids), root :: c.log, hblk, by simp [hj, load_eq hblk]⟩
      obtain ⟨c2, log2, hc2, hre⟩ := hre
      have hc2e : c2.es = idx kids := by rw [hblk] at hc2; exact (Option.some.inj hc2).symm
      refine ⟨{ c with inner := some ((root, ⟨c2.es, some (lowerBound c2.es q)⟩) :: r), log := log2 },
        ?_, hc.hbase, hc.hlevels, (by intro h; cases h), ?_⟩
      · unfold RC.ge RC.iterIndex
        simp only [hin, hc.hbase]
        rw [RC.iterLevels]
        simp only [hre, hroot c2 hc2e]
        simp
      · intro l hl
        simp only [Option.some.injEq] at hl
        subst hl
        refine ⟨by simp [hlen], ?_⟩
        simp only [List.reverse_cons, CSr_append, List.length_reverse]
        exact ⟨hcs.1, ⟨fun _ => hc2, trivial⟩⟩

theorem ge_spec (cx : Ctx s lvl (levels + 1) root es) {c : RC LC}
    (hc : CScore s lvl root levels c) (q : Bytes) :
    ∃ c', RC.ge LC.ops s.load q c = (c', .ok es[lowerBound es q]?) ∧ CScore s lvl root levels c' ∧
      (lowerBound es q < es.length → PosInv s lvl root levels es c' (lowerBound es q)) := by
  by_cases ht : lowerBound es q < es.length
  · obtain ⟨c', e, b, c'', h1, h2, h3, h4, h5⟩ := abs_finish cx (mov := .ge q) trivial hc ht
    refine ⟨_, ?_, h4, fun _ => h5⟩
    unfold RC.ge
    simp only [h1, h2]
    exact congrArg (fun r => (RC.withCur c'' (LC.ge b q).1, Res.ok r)) h3
  · have hq : lowerBound es q = es.length := by have := lowerBound_le es q; omega
    obtain ⟨c', h1, h2⟩ := ge_miss cx hc q hq
    refine ⟨c', ?_, h2, fun h => absurd h ht⟩
    rw [h1, hq, List.getElem?_eq_none (Nat.le_refl _)]

end

end Grenad.TCursor
