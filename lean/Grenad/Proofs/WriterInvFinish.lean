/-
  WriterInv, part 4 — `W.flushLevels`, `W.finish` and `W.run`.
-/
import Grenad.Proofs.WriterInvRun

namespace Grenad

open BW

namespace W

/-- Specification of the level loop of `Writer::into_inner`.
    `m` writers (`idx[0..m]`) remain to be flushed; those at list index `≥ 2` are empty or below the
    block size, except the last one (`m - 1`), which may just have received its final entry. -/
theorem flushLevels_spec (cd : Codec) (iv B n : Nat) :
    ∀ (m : Nat) (idx : List BW) (out : Bytes) (log : List Emitted) (root : Nat),
      idx.length = n → m ≤ n → (∀ w ∈ idx, Reach iv w) →
      (∀ j w, idx[j]? = some w → 2 ≤ j → j + 1 < m → Pend B w) →
      (∀ j w, idx[j]? = some w → 2 ≤ j → j + 1 = m → PendG iv B w) →
      (∀ idx' out' log' root', flushLevels cd m idx out log root = .ok (idx', out', log', root') →
        ∃ tl, log' = log ++ tl ∧ ∀ e ∈ tl, EmOK iv B n e ∧ 1 ≤ e.level) ∧
      (∀ t, flushLevels cd m idx out log root = .error t → t = .keyOrder ∧ ¬ Asc (allKeys idx)) := by
  intro m
  induction m with
  | zero =>
    intro idx out log root _ _ _ _ _
    simp only [flushLevels]
    refine ⟨?_, fun _ h => (by cases h)⟩
    intro idx' out' log' root' h
    injection h with h
    injection h with h1 h
    injection h with h2 h
    injection h with h3 h4
    exact ⟨[], by simp [h3], by simp⟩
  | succ i ih =>
    intro idx out log root hlen hm hR hP hG
    rw [flushLevels]
    have hi : i < idx.length := by omega
    have ec : idx[i]? = some idx[i] := List.getElem?_eq_getElem hi
    generalize idx[i] = cur at ec
    rw [ec]
    simp only
    have hcurR : Reach iv cur := hR cur (List.mem_of_getElem? ec)
    have hreset : cur.reset = BW.new iv := hcurR.reset_eq
    -- emitting `cur` from a list `idx1` (either `idx`, or `idx` with the parent updated)
    have step_ok : ∀ (idx1 : List BW) (root1 : Nat), idx1.length = n → (∀ w ∈ idx1, Reach iv w) →
        (∀ j w, idx1[j]? = some w → 2 ≤ j → j + 1 < i → Pend B w) →
        (∀ j w, idx1[j]? = some w → 2 ≤ j → j + 1 = i → PendG iv B w) →
        (allKeys (idx1.set i cur.reset)).Sublist (allKeys idx) →
        (2 ≤ i → cur.items ≠ []) →
        (∀ idx' out' log' root',
          flushLevels cd i (idx1.set i cur.reset) (out ++ blockBytes cd cur.finish)
            (log ++ [{ offset := out.length, level := idx1.length - i, raw := cur.finish,
                       items := cur.items }]) root1 = .ok (idx', out', log', root') →
          ∃ tl, log' = log ++ tl ∧ ∀ e ∈ tl, EmOK iv B n e ∧ 1 ≤ e.level) ∧
        (∀ t,
          flushLevels cd i (idx1.set i cur.reset) (out ++ blockBytes cd cur.finish)
            (log ++ [{ offset := out.length, level := idx1.length - i, raw := cur.finish,
                       items := cur.items }]) root1 = .error t →
          t = .keyOrder ∧ ¬ Asc (allKeys idx)) := by
      intro idx1 root1 hlen1 hR1 hP1 hG1 hsub hne
      have hrec := ih (idx1.set i cur.reset) (out ++ blockBytes cd cur.finish)
        (log ++ [{ offset := out.length, level := idx1.length - i, raw := cur.finish,
                   items := cur.items }]) root1
        (by simp [hlen1]) (by omega)
        (by
          intro w hw
          rcases List.mem_or_eq_of_mem_set hw with hw | hw
          · exact hR1 w hw
          · rw [hw, hreset]; exact Reach.new)
        (by
          intro j w hj h2 hlt
          rw [List.getElem?_set_ne (by omega)] at hj
          exact hP1 j w hj h2 hlt)
        (by
          intro j w hj h2 hlt
          rw [List.getElem?_set_ne (by omega)] at hj
          exact hG1 j w hj h2 hlt)
      refine ⟨?_, ?_⟩
      · intro idx' out' log' root' h
        obtain ⟨tl, htl, htlok⟩ := hrec.1 idx' out' log' root' h
        refine ⟨[_] ++ tl, htl.trans (List.append_assoc _ _ _), ?_⟩
        intro e he
        rcases List.mem_append.mp he with he | he
        · simp only [List.mem_singleton] at he
          subst he
          refine ⟨⟨cur, hcurR, rfl, rfl, ?_⟩, ?_⟩
          · intro hcut
            have hcut' : idx1.length - i = 0 ∨ idx1.length - i + 2 ≤ n := hcut
            have h2 : 2 ≤ i := by omega
            exact PendG.good (hG i cur ec h2 rfl) (hne h2)
          · show 1 ≤ idx1.length - i
            omega
        · exact htlok e he
      · intro t ht
        obtain ⟨h1, h2⟩ := hrec.2 t ht
        exact ⟨h1, fun hasc => h2 (hasc.sublist hsub)⟩
    have hPi : ∀ j w, idx[j]? = some w → 2 ≤ j → j + 1 < i → Pend B w :=
      fun j w hj h2 hlt => hP j w hj h2 (by omega)
    have hGi : ∀ j w, idx[j]? = some w → 2 ≤ j → j + 1 = i → PendG iv B w :=
      fun j w hj h2 hlt => Pend.toPendG (hR w (List.mem_of_getElem? hj)) (hP j w hj h2 (by omega))
    cases hlk : cur.lastKey with
    | some lk =>
      simp only
      have hne : cur.items ≠ [] := hcurR.items_ne_nil_of_lastKey hlk
      obtain ⟨ini, x, hitems⟩ := hcurR.lastKey_mem hlk
      have hlkmem : lk ∈ bwKeys cur := by simp [bwKeys, hitems]
      have hplain := step_ok idx out.length hlen hR hPi hGi
        (allKeys_set_nil (by rw [hreset]; rfl)) (fun _ => hne)
      by_cases hi0 : i = 0
      · simp only [hi0, if_true]
        subst hi0
        exact hplain
      · simp only [hi0, if_false]
        obtain ⟨i', rfl⟩ : ∃ i', i = i' + 1 := ⟨i - 1, by omega⟩
        simp only [Nat.add_sub_cancel]
        have hi' : i' < idx.length := by omega
        have ep : idx[i']? = some idx[i'] := List.getElem?_eq_getElem hi'
        generalize idx[i'] = parent at ep
        rw [ep]
        simp only
        have hparR : Reach iv parent := hR parent (List.mem_of_getElem? ep)
        have hlen8 : (be64 out.length).length ≤ u32Max := by rw [be64_length]; decide
        have hlkl := hcurR.lastKey_len hlk
        cases hins : parent.insert lk (be64 out.length) with
        | error t =>
          simp only
          refine ⟨fun _ _ _ _ h => (by cases h), ?_⟩
          intro t' ht'
          injection ht' with ht'
          subst ht'
          rcases insert_error hins with ⟨_, h'⟩ | ⟨_, h'⟩ | ⟨ht, _, _, plk, hplk, hnlt⟩
          · omega
          · omega
          · refine ⟨ht, fun hasc => hnlt ?_⟩
            obtain ⟨pini, px, hpitems⟩ := hparR.lastKey_mem hplk
            exact allKeys_adjacent ep ec hasc plk (by simp [bwKeys, hpitems]) lk hlkmem
        | ok parent' =>
          simp only
          have hpar'R : Reach iv parent' := Reach.step hparR hins
          have hp'keys : bwKeys parent' = bwKeys parent ++ [lk] := by
            simp [bwKeys, (insert_ok hins).2.2.2.2.2.1]
          refine step_ok (idx.set i' parent') out.length (by simp [hlen])
            (by
              intro w hw
              rcases List.mem_or_eq_of_mem_set hw with hw | hw
              · exact hR w hw
              · rw [hw]; exact hpar'R)
            (by
              intro j w hj h2 hlt
              rw [List.getElem?_set_ne (by omega)] at hj
              exact hPi j w hj h2 hlt)
            (by
              intro j w hj h2 hlt
              have hji : j = i' := by omega
              subst hji
              rw [List.getElem?_set_self hi'] at hj
              injection hj with hj
              subst hj
              exact .inr ⟨parent, lk, _, hparR, hins, hP j parent ep h2 (by omega)⟩)
            (allKeys_transfer ep ec hp'keys hlkmem (by rw [hreset]; rfl))
            (fun _ => hne)
    | none =>
      simp only
      by_cases hi0 : i = 0
      · simp only [hi0, if_true]
        subst hi0
        exact step_ok idx out.length hlen hR hPi hGi
          (allKeys_set_nil (by rw [hreset]; rfl)) (fun h => by omega)
      · simp only [hi0, if_false]
        exact ih idx out log out.length hlen (by omega) hR hPi hGi

/-- The first half of `Writer::into_inner`: flush the pending data block. -/
def finishData (cd : Codec) (w : W) : Except Trap (List BW × Bytes × List Emitted) :=
  match w.bw.lastKey with
  | some lk =>
    match w.idx[w.idx.length - 1]? with
    | some lastIdx =>
      match lastIdx.insert lk (be64 w.out.length) with
      | .error t => .error t
      | .ok lastIdx' =>
        .ok (w.idx.set (w.idx.length - 1) lastIdx', w.out ++ blockBytes cd w.bw.finish,
             w.log ++ [{ offset := w.out.length, level := 0, raw := w.bw.finish, items := w.bw.items }])
    | none => .ok (w.idx, w.out, w.log)
  | none => .ok (w.idx, w.out, w.log)

/-- The trailer of `Writer::into_inner`. -/
def finishWrap (cd : Codec) (cnt : Nat) :
    Except Trap (List BW × Bytes × List Emitted × Nat) → Except Trap (Bytes × List Emitted)
  | .error t => .error t
  | .ok (idx, out, log, root) =>
    .ok (out ++ Meta.encode { version := 2, root := root, codec := cd.id, count := cnt, levels := (idx.length - 1) % 256 }, log)

theorem finish_eq (cd : Codec) (w : W) :
    W.finish cd w = match finishData cd w with
      | .error t => .error t
      | .ok (idx, out, log) => finishWrap cd w.count (flushLevels cd idx.length idx out log out.length) := by
  unfold W.finish finishData finishWrap
  rfl

/-- Specification of `Writer::into_inner`. -/
theorem finish_spec (cd : Codec) (w : W) (hI : Inv w) :
    (∀ file log, W.finish cd w = .ok (file, log) →
      ∃ tl, log = w.log ++ tl ∧ ∀ e ∈ tl, EmOK w.cfg.interval w.cfg.clamped (w.cfg.levels + 1) e) ∧
    (∀ t, W.finish cd w = .error t → t = .keyOrder ∧ ¬ Asc (keys w)) := by
  rw [finish_eq]
  -- the flush of the index levels from any intermediate state
  have flush : ∀ (idx : List BW) (out : Bytes) (tl0 : List Emitted),
      idx.length = w.cfg.levels + 1 → (∀ b ∈ idx, Reach w.cfg.interval b) →
      (∀ j b, idx[j]? = some b → 2 ≤ j → j + 1 < idx.length → Pend w.cfg.clamped b) →
      (∀ j b, idx[j]? = some b → 2 ≤ j → j + 1 = idx.length → PendG w.cfg.interval w.cfg.clamped b) →
      (∀ e ∈ tl0, EmOK w.cfg.interval w.cfg.clamped (w.cfg.levels + 1) e) →
      (allKeys idx).Sublist (keys w) →
      (∀ file log,
        finishWrap cd w.count (flushLevels cd idx.length idx out (w.log ++ tl0) out.length)
          = .ok (file, log) →
        ∃ tl, log = w.log ++ tl ∧ ∀ e ∈ tl, EmOK w.cfg.interval w.cfg.clamped (w.cfg.levels + 1) e) ∧
      (∀ t,
        finishWrap cd w.count (flushLevels cd idx.length idx out (w.log ++ tl0) out.length)
          = .error t → t = .keyOrder ∧ ¬ Asc (keys w)) := by
    intro idx out tl0 hlen hR hP hG htl0 hsub
    have hfl := flushLevels_spec cd w.cfg.interval w.cfg.clamped (w.cfg.levels + 1) idx.length idx out
      (w.log ++ tl0) out.length hlen (by omega) hR hP hG
    cases hf : flushLevels cd idx.length idx out (w.log ++ tl0) out.length with
    | error t =>
      simp only [finishWrap]
      refine ⟨fun _ _ h => (by cases h), ?_⟩
      intro t' ht'
      injection ht' with ht'
      subst ht'
      obtain ⟨h1, h2⟩ := hfl.2 t hf
      exact ⟨h1, fun hasc => h2 (hasc.sublist hsub)⟩
    | ok r =>
      obtain ⟨idx', out', log', root'⟩ := r
      simp only [finishWrap]
      refine ⟨?_, fun _ h => (by cases h)⟩
      intro file log h
      injection h with h
      injection h with _ h
      subst h
      obtain ⟨tl, htl, htlok⟩ := hfl.1 idx' out' log' root' hf
      refine ⟨tl0 ++ tl, by rw [htl, List.append_assoc], ?_⟩
      intro e he
      rcases List.mem_append.mp he with he | he
      · exact htl0 e he
      · exact (htlok e he).1
  have hPidx : ∀ j b, w.idx[j]? = some b → 2 ≤ j → j + 1 = w.idx.length →
      PendG w.cfg.interval w.cfg.clamped b :=
    fun j b hj h2 _ => Pend.toPendG (hI.idxR b (List.mem_of_getElem? hj)) (hI.idxP j b hj h2)
  have hsubidx : (allKeys w.idx).Sublist (keys w) := List.sublist_append_left _ _
  have plain := flush w.idx w.out [] hI.len hI.idxR (fun j b hj h2 _ => hI.idxP j b hj h2) hPidx
    (by simp) hsubidx
  simp only [List.append_nil] at plain
  unfold finishData
  cases hlk : w.bw.lastKey with
  | none =>
    simp only
    exact plain
  | some lk =>
    simp only
    have hn : w.idx.length - 1 < w.idx.length := by have := hI.len; omega
    have el : w.idx[w.idx.length - 1]? = some w.idx[w.idx.length - 1] := List.getElem?_eq_getElem hn
    generalize w.idx[w.idx.length - 1] = lastIdx at el
    rw [el]
    simp only
    have hlR : Reach w.cfg.interval lastIdx := hI.idxR _ (List.mem_of_getElem? el)
    have hlen8 : (be64 w.out.length).length ≤ u32Max := by rw [be64_length]; decide
    have hlkl := hI.bwR.lastKey_len hlk
    obtain ⟨ini, x, hitems⟩ := hI.bwR.lastKey_mem hlk
    have hlkmem : lk ∈ bwKeys w.bw := by simp [bwKeys, hitems]
    cases hins : lastIdx.insert lk (be64 w.out.length) with
    | error t =>
      simp only
      refine ⟨fun _ _ h => (by cases h), ?_⟩
      intro t' ht'
      injection ht' with ht'
      subst ht'
      rcases insert_error hins with ⟨_, h'⟩ | ⟨_, h'⟩ | ⟨ht, _, _, plk, hplk, hnlt⟩
      · omega
      · omega
      · refine ⟨ht, fun hasc => hnlt ?_⟩
        obtain ⟨pini, px, hpit⟩ := hlR.lastKey_mem hplk
        have hmem : plk ∈ allKeys w.idx :=
          mem_allKeys (List.mem_of_getElem? el) (by simp [bwKeys, hpit])
        exact (List.pairwise_append.mp hasc).2.2 plk hmem lk hlkmem
    | ok lastIdx' =>
      simp only
      have hl'R : Reach w.cfg.interval lastIdx' := Reach.step hlR hins
      have hl'keys : bwKeys lastIdx' = bwKeys lastIdx ++ [lk] := by
        simp [bwKeys, (insert_ok hins).2.2.2.2.2.1]
      have hset : allKeys (w.idx.set (w.idx.length - 1) lastIdx') = allKeys w.idx ++ [lk] :=
        allKeys_set_last el hl'keys
      have := flush (w.idx.set (w.idx.length - 1) lastIdx') (w.out ++ blockBytes cd w.bw.finish)
        [{ offset := w.out.length, level := 0, raw := w.bw.finish, items := w.bw.items }]
        (by simp [hI.len])
        (by
          intro b hb
          rcases List.mem_or_eq_of_mem_set hb with hb | hb
          · exact hI.idxR b hb
          · rw [hb]; exact hl'R)
        (by
          intro j b hj h2 hlt
          rw [List.length_set] at hlt
          rw [List.getElem?_set_ne (by omega)] at hj
          exact hI.idxP j b hj h2)
        (by
          intro j b hj h2 hlt
          rw [List.length_set] at hlt
          have hji : j = w.idx.length - 1 := by omega
          subst hji
          rw [List.getElem?_set_self hn] at hj
          injection hj with hj
          subst hj
          exact .inr ⟨lastIdx, lk, _, hlR, hins, hI.idxP _ _ el h2⟩)
        (by
          intro e he
          simp only [List.mem_singleton] at he
          subst he
          exact ⟨w.bw, hI.bwR, rfl, rfl, fun _ =>
            PendG.good (Pend.toPendG hI.bwR hI.bwP) (hI.bwR.items_ne_nil_of_lastKey hlk)⟩)
        (by
          rw [hset, keys]
          exact List.Sublist.append_left (List.singleton_sublist.mpr hlkmem) _)
      exact this

/-- Specification of `W.run`. -/
theorem run_spec (cd : Codec) (cfg : WCfg) (kvs : List Entry) :
    (∀ file log, W.run cd cfg kvs = .ok (file, log) →
      ∃ w tl, W.run.go cd (W.new cfg) kvs = .ok w ∧ W.finish cd w = .ok (file, log) ∧
        w.cfg = cfg ∧ Inv w ∧ log = w.log ++ tl ∧
        (∀ e ∈ w.log, EmOK cfg.interval cfg.clamped (cfg.levels + 1) e ∧ cfg.clamped ≤ e.raw.length) ∧
        (∀ e ∈ tl, EmOK cfg.interval cfg.clamped (cfg.levels + 1) e) ∧
        (∀ e ∈ kvs, e.1.length ≤ u32Max ∧ e.2.length ≤ u32Max)) ∧
    (∀ t, W.run cd cfg kvs = .error t →
      (t = .keyTooLong ∧ ∃ e ∈ kvs, u32Max < e.1.length) ∨
      (t = .valTooLong ∧ ∃ e ∈ kvs, u32Max < e.2.length) ∨
      (t = .keyOrder ∧ ¬ Asc (kvs.map Prod.fst))) := by
  unfold W.run
  have hgo := go_spec cd kvs (W.new cfg) (inv_new cfg)
  rw [keys_new, List.nil_append] at hgo
  cases hg : W.run.go cd (W.new cfg) kvs with
  | error t =>
    simp only
    refine ⟨fun _ _ h => (by cases h), ?_⟩
    intro t' ht'
    injection ht' with ht'
    subst ht'
    exact hgo.2 t hg
  | ok w =>
    simp only
    obtain ⟨hcfg, hI, _, ⟨tl1, htl1, htl1ok⟩, hsub, hlens⟩ := hgo.1 w hg
    have hfin := finish_spec cd w hI
    have hcfg' : (W.new cfg).cfg = cfg := rfl
    rw [hcfg'] at hcfg htl1ok
    refine ⟨?_, ?_⟩
    · intro file log h
      obtain ⟨tl, htl, htlok⟩ := hfin.1 file log h
      rw [hcfg] at htlok
      refine ⟨w, tl, rfl, h, hcfg, hI, htl, ?_, htlok, hlens⟩
      intro e he
      have : w.log = tl1 := by rw [htl1]; rfl
      rw [this] at he
      exact htl1ok e he
    · intro t ht
      obtain ⟨h1, h2⟩ := hfin.2 t ht
      exact .inr (.inr ⟨h1, fun hasc => h2 (hasc.sublist hsub)⟩)

end W
end Grenad
