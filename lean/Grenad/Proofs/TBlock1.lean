/-
  T-block, part 1: frames, `offAt`, and the block writer (`BW.Built`).
-/
import Grenad.Proofs.Frame
import Grenad.Model.Abstract

set_option linter.unusedSimpArgs false

namespace Grenad

/-! ### Frames and entry offsets -/

/-- The payload bytes of a list of entries. -/
def frames (es : List Entry) : Bytes := (es.map (fun e => BW.frame e.1 e.2)).flatten

/-- Byte offset of entry number `i`: sum of the frame lengths of the first `i` entries. -/
def offAt (es : List Entry) (i : Nat) : Nat :=
  ((es.take i).map (fun e => (BW.frame e.1 e.2).length)).sum

theorem frames_nil : frames [] = [] := rfl

theorem frames_append (a b : List Entry) : frames (a ++ b) = frames a ++ frames b := by
  simp [frames]

theorem frames_cons (e : Entry) (es : List Entry) :
    frames (e :: es) = BW.frame e.1 e.2 ++ frames es := by
  simp [frames]

theorem frames_singleton (e : Entry) : frames [e] = BW.frame e.1 e.2 := by
  simp [frames]

theorem offAt_eq_length (es : List Entry) (i : Nat) : offAt es i = (frames (es.take i)).length := by
  simp [offAt, frames, List.length_flatten, Function.comp_def]

@[simp] theorem offAt_zero (es : List Entry) : offAt es 0 = 0 := by
  simp [offAt]

theorem offAt_length (es : List Entry) : offAt es es.length = (frames es).length := by
  rw [offAt_eq_length, List.take_length]

theorem offAt_of_ge (es : List Entry) {i : Nat} (h : es.length ≤ i) :
    offAt es i = (frames es).length := by
  rw [offAt_eq_length, List.take_of_length_le h]

theorem offAt_succ (es : List Entry) {i : Nat} (h : i < es.length) :
    offAt es (i + 1) = offAt es i + (BW.frame es[i].1 es[i].2).length := by
  unfold offAt
  rw [List.take_succ_eq_append_getElem h, List.map_append, List.sum_append]
  simp

theorem offAt_append_left (es es' : List Entry) {i : Nat} (h : i ≤ es.length) :
    offAt (es ++ es') i = offAt es i := by
  simp [offAt, List.take_append_of_le_length h]

theorem frame_length_ge_two (k v : Bytes) : 2 ≤ (BW.frame k v).length := by
  have := encode32_length_pos k.length
  have := encode32_length_pos v.length
  rw [frame_length]; omega

theorem offAt_lt_succ (es : List Entry) {i : Nat} (h : i < es.length) :
    offAt es i + 2 ≤ offAt es (i + 1) := by
  have := frame_length_ge_two es[i].1 es[i].2
  rw [offAt_succ es h]; omega

theorem offAt_mono_le (es : List Entry) {i j : Nat} (hij : i ≤ j) (hj : j ≤ es.length) :
    offAt es i + 2 * (j - i) ≤ offAt es j := by
  induction j with
  | zero =>
    have : i = 0 := by omega
    subst this; simp
  | succ j ih =>
    rcases Nat.lt_or_ge i (j + 1) with h | h
    · have h1 := ih (by omega) (by omega)
      have h2 := offAt_lt_succ es (i := j) (by omega)
      omega
    · have : i = j + 1 := by omega
      subst this; simp

theorem offAt_strictMono (es : List Entry) {i j : Nat} (hij : i < j) (hj : j ≤ es.length) :
    offAt es i < offAt es j := by
  have := offAt_mono_le es (Nat.le_of_lt hij) hj
  omega

theorem offAt_lt_iff (es : List Entry) {i j : Nat} (hi : i ≤ es.length) (hj : j ≤ es.length) :
    offAt es i < offAt es j ↔ i < j := by
  constructor
  · intro h
    rcases Nat.lt_or_ge i j with h' | h'
    · exact h'
    · have := offAt_mono_le es h' hi
      omega
  · intro h; exact offAt_strictMono es h hj

theorem offAt_inj (es : List Entry) {i j : Nat} (hi : i ≤ es.length) (hj : j ≤ es.length)
    (h : offAt es i = offAt es j) : i = j := by
  rcases Nat.lt_trichotomy i j with h' | h' | h'
  · have := offAt_strictMono es h' hj; omega
  · exact h'
  · have := offAt_strictMono es h' hi; omega

theorem le_offAt (es : List Entry) {i : Nat} (hi : i ≤ es.length) : 2 * i ≤ offAt es i := by
  have := offAt_mono_le es (Nat.zero_le i) hi
  simp at this; omega

theorem length_le_frames (es : List Entry) : 2 * es.length ≤ (frames es).length := by
  rw [← offAt_length]; exact le_offAt es (Nat.le_refl _)

theorem frames_split (es : List Entry) {i : Nat} (h : i < es.length) :
    frames es = frames (es.take i) ++ BW.frame es[i].1 es[i].2 ++ frames (es.drop (i + 1)) := by
  have : es = es.take i ++ es[i] :: es.drop (i + 1) := by
    simp
  conv => lhs; rw [this]
  rw [frames_append, frames_cons, List.append_assoc]

/-- The offset table of a block holding `es`, written with interval `iv`:
    the offsets of entries number `0, iv, 2·iv, …` (`[0]` for the empty block). -/
def offsetTable (iv : Nat) (es : List Entry) : List Nat :=
  (List.range ((es.length - 1) / iv + 1)).map (fun j => offAt es (j * iv))

theorem offsetTable_nil (iv : Nat) : offsetTable iv [] = [0] := by
  simp [offsetTable, List.range_succ]

/-! ### The block writer -/

namespace BW

/-- `w` is obtained from `BW.new iv` by inserting the entries `es` in order (no trap). -/
inductive Built (iv : Nat) : List Entry → BW → Prop where
  | nil : Built iv [] (BW.new iv)
  | snoc {es : List Entry} {w w' : BW} {k v : Bytes} :
      Built iv es w → w.insert k v = .ok w' → Built iv (es ++ [(k, v)]) w'

/-- The state after a successful insert. -/
def pushed (w : BW) (k v : Bytes) : BW :=
  { w with
    buffer := w.buffer ++ frame k v, lastKey := some k,
    offsets := if w.counter = w.interval then w.offsets ++ [w.buffer.length] else w.offsets,
    counter := (if w.counter = w.interval then 0 else w.counter) + 1,
    items := w.items ++ [(k, v)] }

theorem insert_eq (w : BW) (k v : Bytes) :
    w.insert k v =
      if k.length > u32Max then .error .keyTooLong else
      if v.length > u32Max then .error .valTooLong else
      match w.lastKey with
      | some lk => if lk < k then .ok (w.pushed k v) else .error .keyOrder
      | none => .ok (w.pushed k v) := by
  unfold insert pushed
  by_cases hc : w.counter = w.interval <;> cases hl : w.lastKey <;> simp [hc]

theorem insert_ok_iff (w w' : BW) (k v : Bytes) :
    w.insert k v = .ok w' ↔
      k.length < 2^32 ∧ v.length < 2^32 ∧ (∀ lk, w.lastKey = some lk → lk < k) ∧
        w' = w.pushed k v := by
  rw [insert_eq]
  have hu : u32Max = 4294967295 := rfl
  by_cases h1 : k.length > u32Max
  · simp [h1]; omega
  · by_cases h2 : v.length > u32Max
    · simp [h1, h2]; omega
    · have h1' : k.length < 2^32 := by omega
      have h2' : v.length < 2^32 := by omega
      simp only [h1, h2, if_false]
      cases hl : w.lastKey with
      | none => simp [h1', h2', eq_comm]
      | some lk =>
        by_cases h3 : lk < k
        · simp [h1', h2', h3, eq_comm]
        · simp [h1', h2', h3]

/-- Everything the writer state is, as a function of the inserted entries. -/
structure Inv (iv : Nat) (es : List Entry) (w : BW) : Prop where
  items : w.items = es
  buffer : w.buffer = frames es
  lastKey : w.lastKey = es.getLast?.map (·.1)
  interval : w.interval = iv
  cnt : ∃ q, es.length = q * iv + w.counter ∧ w.counter ≤ iv ∧ (es ≠ [] → 1 ≤ w.counter) ∧
    w.offsets = (List.range (q + 1)).map (fun j => offAt es (j * iv))
  asc : StrictAsc es
  lens : ∀ e ∈ es, e.1.length < 2^32 ∧ e.2.length < 2^32

theorem Inv.new (iv : Nat) : Inv iv [] (BW.new iv) := by
  refine ⟨rfl, rfl, rfl, rfl, ⟨0, ?_⟩, ?_, ?_⟩
  · simp [BW.new]
  · simp [StrictAsc]
  · simp

theorem strictAsc_lt_last {es : List Entry} (h : StrictAsc es) {lk : Bytes}
    (hl : es.getLast?.map (·.1) = some lk) : ∀ e ∈ es, e.1 ≤ lk := by
  intro e he
  rcases List.eq_nil_or_concat es with h0 | ⟨init, lst, h1⟩
  · subst h0; simp at he
  · subst h1
    rw [List.concat_eq_append] at h he hl
    simp at hl
    subst hl
    simp only [StrictAsc, List.pairwise_append] at h
    simp at he
    rcases he with he | he
    · exact Std.le_of_lt (h.2.2 e he lst (by simp))
    · subst he; exact Std.le_refl _

theorem offs_congr (es es' : List Entry) (q iv : Nat) (h : q * iv ≤ es.length) :
    (List.range (q + 1)).map (fun j => offAt (es ++ es') (j * iv))
      = (List.range (q + 1)).map (fun j => offAt es (j * iv)) := by
  apply List.map_congr_left
  intro j hj
  have hj' : j ≤ q := by simp at hj; omega
  have := Nat.mul_le_mul_right iv hj'
  exact offAt_append_left es es' (by omega)

theorem Inv.step {iv : Nat} {es : List Entry} {w w' : BW} {k v : Bytes} (hiv : 1 ≤ iv)
    (h : Inv iv es w) (hi : w.insert k v = .ok w') : Inv iv (es ++ [(k, v)]) w' := by
  rw [insert_ok_iff] at hi
  obtain ⟨hk, hv, hlk, rfl⟩ := hi
  obtain ⟨q, hq1, hq2, hq3, hq4⟩ := h.cnt
  have hint := h.interval
  have hall : ∀ e ∈ es, e.1 < k := by
    intro e he
    cases hl : w.lastKey with
    | none =>
      rw [h.lastKey] at hl
      simp at hl
      subst hl; simp at he
    | some lk =>
      have h1 := strictAsc_lt_last h.asc (by rw [← h.lastKey]; exact hl) e he
      exact Std.lt_of_le_of_lt h1 (hlk lk hl)
  refine ⟨?_, ?_, ?_, ?_, ?_, ?_, ?_⟩
  · simp [pushed, h.items]
  · simp [pushed, h.buffer, frames_append, frames_singleton]
  · simp [pushed]
  · simp [pushed, h.interval]
  · by_cases hc : w.counter = w.interval
    · refine ⟨q + 1, ?_, ?_, ?_, ?_⟩
      · simp [pushed, hc, Nat.succ_mul]; omega
      · simp [pushed, hc]; omega
      · simp [pushed, hc]
      · have hn : (q + 1) * iv = es.length := by rw [Nat.succ_mul]; omega
        simp only [pushed, hc, if_true]
        rw [List.range_succ (n := q + 1), List.map_append, offs_congr es _ q iv (by omega), ← hq4]
        simp [hn, offAt_append_left, offAt_length, h.buffer]
    · refine ⟨q, ?_, ?_, ?_, ?_⟩
      · simp [pushed, hc]; omega
      · simp [pushed, hc]; omega
      · simp [pushed, hc]
      · simp only [pushed, hc, if_false]
        rw [offs_congr es _ q iv (by omega), ← hq4]
  · simp only [StrictAsc, List.pairwise_append]
    refine ⟨h.asc, by simp, ?_⟩
    intro a ha b hb
    simp at hb; subst hb
    exact hall a ha
  · intro e he
    simp at he
    rcases he with he | he
    · exact h.lens e he
    · subst he; exact ⟨hk, hv⟩

theorem Built.inv {iv : Nat} {es : List Entry} {w : BW} (hiv : 1 ≤ iv) (h : Built iv es w) :
    Inv iv es w := by
  induction h with
  | nil => exact Inv.new iv
  | snoc _ hi ih => exact ih.step hiv hi

/-- Number of offset-table entries minus one. -/
theorem Inv.q_eq {iv : Nat} {es : List Entry} {w : BW} (hiv : 1 ≤ iv) {q : Nat}
    (h1 : es.length = q * iv + w.counter) (h2 : w.counter ≤ iv) (h3 : es ≠ [] → 1 ≤ w.counter) :
    (es.length - 1) / iv = q := by
  apply Nat.div_eq_of_lt_le
  · rcases es with _ | ⟨e, es⟩
    · simp at h1 ⊢; omega
    · have := h3 (by simp); simp at h1 ⊢; omega
  · rw [Nat.succ_mul]
    rcases es with _ | ⟨e, es⟩
    · simp at h1 ⊢; omega
    · have := h3 (by simp); simp at h1 ⊢; omega

theorem Inv.offsets_eq {iv : Nat} {es : List Entry} {w : BW} (hiv : 1 ≤ iv) (h : Inv iv es w) :
    w.offsets = offsetTable iv es := by
  obtain ⟨q, h1, h2, h3, h4⟩ := h.cnt
  rw [offsetTable, Inv.q_eq hiv h1 h2 h3, h4]

theorem Inv.counter_eq {iv : Nat} {es : List Entry} {w : BW} (hiv : 1 ≤ iv) (h : Inv iv es w) :
    w.counter = if es = [] then 0 else (es.length - 1) % iv + 1 := by
  obtain ⟨q, h1, h2, h3, h4⟩ := h.cnt
  have hq := Inv.q_eq hiv h1 h2 h3
  have hdm := Nat.div_add_mod (es.length - 1) iv
  rw [hq, Nat.mul_comm] at hdm
  rcases es with _ | ⟨e, es⟩
  · simp at h1 ⊢; omega
  · have := h3 (by simp); simp at h1 hdm ⊢; omega

/-- Fold of `insert`. -/
def insertAll (w : BW) : List Entry → Except Trap BW
  | [] => .ok w
  | (k, v) :: es =>
    match w.insert k v with
    | .ok w' => insertAll w' es
    | .error t => .error t

theorem Built.insertAll {iv : Nat} {es : List Entry} :
    ∀ {es0 : List Entry} {w w' : BW}, Built iv es0 w → w.insertAll es = .ok w' →
      Built iv (es0 ++ es) w' := by
  induction es with
  | nil => intro es0 w w' hb h; simp [BW.insertAll] at h; subst h; simpa using hb
  | cons e es ih =>
    intro es0 w w' hb h
    obtain ⟨k, v⟩ := e
    simp only [BW.insertAll] at h
    cases hi : w.insert k v with
    | error t => rw [hi] at h; simp at h
    | ok w1 =>
      rw [hi] at h
      have := ih (Built.snoc hb hi) h
      simpa [List.append_assoc] using this

theorem insertAll_append (w : BW) (a b : List Entry) :
    w.insertAll (a ++ b) = match w.insertAll a with
      | .ok w' => w'.insertAll b
      | .error t => .error t := by
  induction a generalizing w with
  | nil => simp [insertAll]
  | cons e a ih =>
    obtain ⟨k, v⟩ := e
    simp only [List.cons_append, insertAll]
    cases w.insert k v with
    | error t => simp
    | ok w1 => simp [ih]

theorem built_iff_insertAll {iv : Nat} {es : List Entry} {w : BW} :
    Built iv es w ↔ (BW.new iv).insertAll es = .ok w := by
  constructor
  · intro h
    induction h with
    | nil => rfl
    | snoc _ hi ih => rw [insertAll_append, ih]; simp [insertAll, hi]
  · intro h
    simpa using Built.insertAll (es0 := []) Built.nil h

/-- The inserts succeed (no trap) on strictly ascending entries with 32-bit lengths. -/
theorem insertAll_ok {iv : Nat} (hiv : 1 ≤ iv) {es : List Entry} :
    ∀ {es0 : List Entry} {w : BW}, Built iv es0 w → StrictAsc (es0 ++ es) →
      (∀ e ∈ es, e.1.length < 2^32 ∧ e.2.length < 2^32) → ∃ w', w.insertAll es = .ok w' := by
  induction es with
  | nil => intro es0 w _ _ _; exact ⟨w, rfl⟩
  | cons e es ih =>
    intro es0 w hb hasc hl
    obtain ⟨k, v⟩ := e
    have hinv := hb.inv hiv
    have hins : w.insert k v = .ok (w.pushed k v) := by
      rw [insert_ok_iff]
      refine ⟨(hl (k, v) (by simp)).1, (hl (k, v) (by simp)).2, ?_, rfl⟩
      intro lk hlk
      rw [hinv.lastKey] at hlk
      rw [Option.map_eq_some_iff] at hlk
      obtain ⟨a, ha, hak⟩ := hlk
      subst hak
      have ha' : a ∈ es0 := List.mem_of_getLast? ha
      simp only [StrictAsc, List.pairwise_append] at hasc
      exact hasc.2.2 _ ha' (k, v) (by simp)
    have hb' := Built.snoc hb hins
    have := ih hb' (by simpa [List.append_assoc] using hasc) (fun e he => hl e (by simp [he]))
    simpa [insertAll, hins] using this

theorem built_exists {iv : Nat} (hiv : 1 ≤ iv) {es : List Entry} (hasc : StrictAsc es)
    (hl : ∀ e ∈ es, e.1.length < 2^32 ∧ e.2.length < 2^32) : ∃ w, Built iv es w := by
  obtain ⟨w, hw⟩ := insertAll_ok hiv (es := es) Built.nil (by simpa using hasc) hl
  exact ⟨w, built_iff_insertAll.mpr hw⟩

/-- **T-block, writer side.**  For `1 ≤ iv`, strictly ascending keys and 32-bit lengths the
    inserts succeed, and the resulting state is the stated function of the entries. -/
theorem built_spec {iv : Nat} (hiv : 1 ≤ iv) {es : List Entry} {w : BW} (h : Built iv es w) :
    w.items = es ∧
    w.buffer = (es.map (fun e => BW.frame e.1 e.2)).flatten ∧
    w.lastKey = es.getLast?.map (·.1) ∧
    w.interval = iv ∧
    w.offsets = offsetTable iv es ∧
    w.counter = (if es = [] then 0 else (es.length - 1) % iv + 1) ∧
    w.sizeEstimate = offAt es es.length + ((es.length - 1) / iv + 1) * 8 + 4 ∧
    StrictAsc es ∧ (∀ e ∈ es, e.1.length < 2^32 ∧ e.2.length < 2^32) := by
  have hi := h.inv hiv
  refine ⟨hi.items, hi.buffer, hi.lastKey, hi.interval, hi.offsets_eq hiv, hi.counter_eq hiv, ?_,
    hi.asc, hi.lens⟩
  simp [sizeEstimate, hi.offsets_eq hiv, hi.buffer, offAt_length, offsetTable]

theorem insertAll_succeeds {iv : Nat} (hiv : 1 ≤ iv) {es : List Entry} (hasc : StrictAsc es)
    (hl : ∀ e ∈ es, e.1.length < 2^32 ∧ e.2.length < 2^32) :
    ∃ w, (BW.new iv).insertAll es = .ok w ∧ Built iv es w := by
  obtain ⟨w, hw⟩ := built_exists hiv hasc hl
  exact ⟨w, built_iff_insertAll.mp hw, hw⟩

end BW

end Grenad
