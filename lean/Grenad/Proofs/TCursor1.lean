/-
  T-cursor, part 1: L0 facts — byte-string order toolkit, `StrictAsc`, `lowerBound`/`upperBound`,
  `ceiling`/`floor`/`lookup`, and how `Spec.step`'s key searches relate to them.
-/
import Grenad.Model.Abstract

namespace Grenad.TCursor

open Grenad

/-! ### Order toolkit on `Bytes` -/

theorem blt_trans {a b c : Bytes} (h1 : a < b) (h2 : b < c) : a < c := List.lt_trans h1 h2
theorem blt_irrefl (a : Bytes) : ¬ a < a := List.lt_irrefl a
theorem ble_of_lt {a b : Bytes} (h : a < b) : a ≤ b := List.le_of_lt h
theorem blt_of_le_of_lt {a b c : Bytes} (h1 : a ≤ b) (h2 : b < c) : a < c := List.lt_of_le_of_lt h1 h2
theorem ble_trans {a b c : Bytes} (h1 : a ≤ b) (h2 : b ≤ c) : a ≤ c := List.le_trans h1 h2
theorem ble_antisymm {a b : Bytes} (h1 : a ≤ b) (h2 : b ≤ a) : a = b := List.le_antisymm h1 h2
theorem ble_refl (a : Bytes) : a ≤ a := List.le_refl a
theorem ble_iff {a b : Bytes} : a ≤ b ↔ a < b ∨ a = b := List.le_iff_lt_or_eq
theorem bnot_lt {a b : Bytes} : ¬ a < b ↔ b ≤ a := List.not_lt
theorem bnot_le {a b : Bytes} : ¬ a ≤ b ↔ b < a := List.not_le
theorem blt_of_lt_of_le {a b c : Bytes} (h1 : a < b) (h2 : b ≤ c) : a < c := by
  rcases ble_iff.1 h2 with h | h
  · exact blt_trans h1 h
  · exact h ▸ h1
theorem blt_or_ge (a b : Bytes) : a < b ∨ b ≤ a := by
  by_cases h : a < b
  · exact Or.inl h
  · exact Or.inr (bnot_lt.1 h)

/-! ### `StrictAsc` -/

theorem strictAsc_append {a b : List Entry} :
    StrictAsc (a ++ b) ↔ StrictAsc a ∧ StrictAsc b ∧ ∀ x ∈ a, ∀ y ∈ b, x.1 < y.1 := by
  unfold StrictAsc; exact List.pairwise_append

theorem strictAsc_cons {e : Entry} {es : List Entry} :
    StrictAsc (e :: es) ↔ (∀ y ∈ es, e.1 < y.1) ∧ StrictAsc es := by
  unfold StrictAsc; exact List.pairwise_cons

theorem strictAsc_nil : StrictAsc [] := List.Pairwise.nil

theorem StrictAsc.left {a b : List Entry} (h : StrictAsc (a ++ b)) : StrictAsc a :=
  (strictAsc_append.1 h).1
theorem StrictAsc.right {a b : List Entry} (h : StrictAsc (a ++ b)) : StrictAsc b :=
  (strictAsc_append.1 h).2.1

/-- In a strictly ascending list, keys determine entries. -/
theorem StrictAsc.key_inj {es : List Entry} (h : StrictAsc es) {x y : Entry}
    (hx : x ∈ es) (hy : y ∈ es) (hk : x.1 = y.1) : x = y := by
  induction es with
  | nil => cases hx
  | cons e es ih =>
    rw [strictAsc_cons] at h
    rcases List.mem_cons.1 hx with rfl | hx' <;> rcases List.mem_cons.1 hy with rfl | hy'
    · rfl
    · exact absurd (hk ▸ h.1 y hy') (blt_irrefl _)
    · exact absurd (hk ▸ h.1 x hx') (blt_irrefl _)
    · exact ih h.2 hx' hy'

/-! ### `lastKey` -/

theorem exists_snoc {α} {l : List α} (h : l ≠ []) : ∃ a e, l = a ++ [e] :=
  ⟨l.dropLast, l.getLast h, (List.dropLast_concat_getLast h).symm⟩

theorem lastKey_append_singleton (a : List Entry) (e : Entry) : lastKey (a ++ [e]) = e.1 := by
  simp [lastKey]

theorem lastKey_mem {es : List Entry} (h : es ≠ []) : ∃ e ∈ es, e.1 = lastKey es := by
  obtain ⟨a, e, rfl⟩ := exists_snoc h
  exact ⟨e, by simp, (lastKey_append_singleton a e).symm⟩

/-- Every key of a strictly ascending list is `≤` its last key. -/
theorem StrictAsc.le_lastKey {es : List Entry} (h : StrictAsc es) {x : Entry} (hx : x ∈ es) :
    x.1 ≤ lastKey es := by
  have hne : es ≠ [] := List.ne_nil_of_mem hx
  obtain ⟨a, e, rfl⟩ := exists_snoc hne
  rw [lastKey_append_singleton]
  rcases List.mem_append.1 hx with hx | hx
  · exact ble_of_lt ((strictAsc_append.1 h).2.2 x hx e (by simp))
  · simp at hx; subst hx; exact ble_refl _

/-! ### `lowerBound` / `upperBound` -/

open Spec

theorem lowerBound_nil (q : Bytes) : lowerBound [] q = 0 := rfl

theorem lowerBound_cons (e : Entry) (es : List Entry) (q : Bytes) :
    lowerBound (e :: es) q = if e.1 < q then lowerBound es q + 1 else 0 := by
  unfold lowerBound
  by_cases h : e.1 < q <;> simp [h]

theorem lowerBound_le (es : List Entry) (q : Bytes) : lowerBound es q ≤ es.length := by
  unfold lowerBound
  exact (List.takeWhile_sublist _).length_le

theorem lowerBound_append_of_all_lt {a : List Entry} (b : List Entry) {q : Bytes}
    (h : ∀ e ∈ a, e.1 < q) : lowerBound (a ++ b) q = a.length + lowerBound b q := by
  induction a with
  | nil => simp
  | cons e a ih =>
    have he : e.1 < q := h e (by simp)
    have := ih (fun x hx => h x (by simp [hx]))
    simp only [List.cons_append, lowerBound_cons, he, if_true, this, List.length_cons]
    omega

theorem lowerBound_append_of_exists_ge {a : List Entry} (b : List Entry) {q : Bytes}
    (h : ∃ e ∈ a, q ≤ e.1) : lowerBound (a ++ b) q = lowerBound a q ∧ lowerBound a q < a.length := by
  induction a with
  | nil => obtain ⟨e, he, _⟩ := h; cases he
  | cons e a ih =>
    by_cases he : e.1 < q
    · have h' : ∃ x ∈ a, q ≤ x.1 := by
        obtain ⟨x, hx, hq⟩ := h
        rcases List.mem_cons.1 hx with rfl | hx
        · exact absurd he (bnot_lt.2 hq)
        · exact ⟨x, hx, hq⟩
      have := ih h'
      simp only [List.cons_append, lowerBound_cons, he, if_true, List.length_cons]
      omega
    · simp [lowerBound_cons, he]

theorem lowerBound_eq_length_iff {es : List Entry} {q : Bytes} :
    lowerBound es q = es.length ↔ ∀ e ∈ es, e.1 < q := by
  constructor
  · intro h e he
    rcases blt_or_ge e.1 q with hlt | hge
    · exact hlt
    · have := (lowerBound_append_of_exists_ge [] ⟨e, he, hge⟩).2
      omega
  · intro h
    have := lowerBound_append_of_all_lt [] h
    simpa [lowerBound_nil] using this

/-- Without any order assumption: `lowerBound` splits the list at the first key `≥ q`. -/
theorem lowerBound_split (es : List Entry) (q : Bytes) :
    ∃ a b, es = a ++ b ∧ a.length = lowerBound es q ∧ (∀ e ∈ a, e.1 < q) ∧
      (∀ e, b.head? = some e → q ≤ e.1) := by
  induction es with
  | nil => exact ⟨[], [], rfl, rfl, by simp, by simp⟩
  | cons e es ih =>
    by_cases he : e.1 < q
    · obtain ⟨a, b, h1, h2, h3, h4⟩ := ih
      refine ⟨e :: a, b, by simp [h1], by simp [lowerBound_cons, he, h2], ?_, h4⟩
      intro x hx
      rcases List.mem_cons.1 hx with rfl | hx
      · exact he
      · exact h3 x hx
    · refine ⟨[], e :: es, rfl, by simp [lowerBound_cons, he], by simp, ?_⟩
      intro x hx
      simp at hx; subst hx; exact bnot_lt.1 he

/-- With order: everything from the split point on is `≥ q`. -/
theorem lowerBound_split_asc {es : List Entry} (hasc : StrictAsc es) (q : Bytes) :
    ∃ a b, es = a ++ b ∧ a.length = lowerBound es q ∧ (∀ e ∈ a, e.1 < q) ∧ (∀ e ∈ b, q ≤ e.1) := by
  obtain ⟨a, b, h1, h2, h3, h4⟩ := lowerBound_split es q
  refine ⟨a, b, h1, h2, h3, ?_⟩
  subst h1
  cases b with
  | nil => simp
  | cons x b =>
    have hx : q ≤ x.1 := h4 x rfl
    intro e he
    rcases List.mem_cons.1 he with rfl | he
    · exact hx
    · have := (strictAsc_cons.1 (StrictAsc.right hasc)).1 e he
      exact ble_of_lt (blt_of_le_of_lt hx this)

theorem upperBound_cons (e : Entry) (es : List Entry) (q : Bytes) :
    upperBound (e :: es) q = if e.1 ≤ q then upperBound es q + 1 else 0 := by
  unfold upperBound
  by_cases h : e.1 ≤ q <;> simp [h]

theorem upperBound_append_of_all_le {a : List Entry} (b : List Entry) {q : Bytes}
    (h : ∀ e ∈ a, e.1 ≤ q) : upperBound (a ++ b) q = a.length + upperBound b q := by
  induction a with
  | nil => simp
  | cons e a ih =>
    have he : e.1 ≤ q := h e (by simp)
    have := ih (fun x hx => h x (by simp [hx]))
    simp only [List.cons_append, upperBound_cons, he, if_true, this, List.length_cons]
    omega

/-- In a strictly ascending list the upper bound is the lower bound, plus one when the key is
    present. -/
theorem upperBound_eq {es : List Entry} (hasc : StrictAsc es) (q : Bytes) :
    upperBound es q =
      match es[lowerBound es q]? with
      | some e => if e.1 = q then lowerBound es q + 1 else lowerBound es q
      | none => lowerBound es q := by
  obtain ⟨a, b, h1, h2, h3, h4⟩ := lowerBound_split_asc hasc q
  subst h1
  rw [← h2]
  have ha : ∀ e ∈ a, e.1 ≤ q := fun e he => ble_of_lt (h3 e he)
  rw [upperBound_append_of_all_le b ha]
  cases b with
  | nil => simp [upperBound]
  | cons x b =>
    simp only [List.getElem?_append_right (Nat.le_refl _), Nat.sub_self, List.getElem?_cons_zero]
    have hx : q ≤ x.1 := h4 x (by simp)
    by_cases hxq : x.1 = q
    · simp only [hxq, if_true]
      have hb : upperBound b q = 0 := by
        cases b with
        | nil => rfl
        | cons y b =>
          have hy : x.1 < y.1 := (strictAsc_cons.1 (StrictAsc.right hasc)).1 y (by simp)
          have : ¬ y.1 ≤ q := bnot_le.2 (hxq ▸ hy)
          simp [upperBound_cons, this]
      simp [upperBound_cons, hxq, hb]
    · have : ¬ x.1 ≤ q := fun h => hxq (ble_antisymm h hx)
      simp [upperBound_cons, this, hxq]

/-! ### `ceiling`, `floor`, `lookup` as positions -/

theorem ceiling_eq_getElem? (es : List Entry) (q : Bytes) :
    ceiling es q = es[lowerBound es q]? := by
  induction es with
  | nil => rfl
  | cons e es ih =>
    unfold ceiling at ih ⊢
    by_cases he : e.1 < q
    · have : ¬ q ≤ e.1 := bnot_le.2 he
      simp [this, lowerBound_cons, he, ih]
    · have : q ≤ e.1 := bnot_lt.1 he
      simp [this, lowerBound_cons, he]

theorem findIdx?_ge (es : List Entry) (q : Bytes) :
    es.findIdx? (fun e => decide (q ≤ e.1)) =
      if lowerBound es q < es.length then some (lowerBound es q) else none := by
  induction es with
  | nil => rfl
  | cons e es ih =>
    by_cases he : e.1 < q
    · have : ¬ q ≤ e.1 := bnot_le.2 he
      simp only [List.findIdx?_cons, this, decide_false, lowerBound_cons, he, if_true, ih,
        List.length_cons, Nat.add_lt_add_iff_right]
      by_cases hl : lowerBound es q < es.length <;> simp [hl]
    · have : q ≤ e.1 := bnot_lt.1 he
      simp [List.findIdx?_cons, this, lowerBound_cons, he]

theorem land_of_length_le {es : List Entry} {n : Nat} (h : es.length ≤ n) :
    Spec.land es n = (.lost, some none) := by
  simp [Spec.land, List.getElem?_eq_none h]

theorem land_of_lt {es : List Entry} {n : Nat} (h : n < es.length) :
    Spec.land es n = (.at n, some (some es[n])) := by
  simp [Spec.land, List.getElem?_eq_getElem h]

/-- `Spec.step … (.ge q)` lands on the lower bound. -/
theorem find_ge (es : List Entry) (q : Bytes) :
    Spec.find es (fun e => decide (q ≤ e.1)) = Spec.land es (lowerBound es q) := by
  unfold Spec.find
  rw [findIdx?_ge]
  by_cases h : lowerBound es q < es.length
  · simp [h]
  · simp only [h, if_false]
    rw [land_of_length_le (Nat.le_of_not_lt h)]

theorem findIdx?_eq (es : List Entry) (hasc : StrictAsc es) (q : Bytes) :
    es.findIdx? (fun e => decide (e.1 = q)) =
      match es[lowerBound es q]? with
      | some e => if e.1 = q then some (lowerBound es q) else none
      | none => none := by
  obtain ⟨a, b, h1, h2, h3, h4⟩ := lowerBound_split_asc hasc q
  subst h1
  rw [← h2]
  have ha : ∀ e ∈ a, ¬ e.1 = q := fun e he hq => blt_irrefl q (hq ▸ h3 e he)
  cases b with
  | nil =>
    simp only [List.append_nil, List.getElem?_eq_none (Nat.le_refl _)]
    rw [List.findIdx?_eq_none_iff]
    intro x hx; simpa using ha x hx
  | cons x b =>
    simp only [List.getElem?_append_right (Nat.le_refl _), Nat.sub_self, List.getElem?_cons_zero]
    by_cases hxq : x.1 = q
    · simp only [hxq, if_true]
      rw [List.findIdx?_eq_some_iff_getElem]
      refine ⟨by simp, by simp [hxq], ?_⟩
      intro j hj
      have : (a ++ x :: b)[j]'(by simp; omega) ∈ a := by
        rw [List.getElem_append_left hj]; exact List.getElem_mem _
      simpa using ha _ this
    · simp only [hxq, if_false]
      rw [List.findIdx?_eq_none_iff]
      intro y hy
      rcases List.mem_append.1 hy with hy | hy
      · simpa using ha y hy
      · rcases List.mem_cons.1 hy with rfl | hy
        · simpa using hxq
        · have h1 : x.1 < y.1 := (strictAsc_cons.1 (StrictAsc.right hasc)).1 y hy
          have h2 : q ≤ x.1 := h4 x (by simp)
          have : q < y.1 := blt_of_le_of_lt h2 h1
          simp only [decide_eq_false_iff_not]
          intro hyq; exact blt_irrefl q (hyq ▸ this)

theorem lookup_eq (es : List Entry) (hasc : StrictAsc es) (q : Bytes) :
    lookup es q = (es[lowerBound es q]?).filter (fun e => decide (e.1 = q)) := by
  obtain ⟨a, b, h1, h2, h3, h4⟩ := lowerBound_split_asc hasc q
  subst h1
  rw [← h2]
  have ha : ∀ e ∈ a, ¬ e.1 = q := fun e he hq => blt_irrefl q (hq ▸ h3 e he)
  have hfa : a.find? (fun e => decide (e.1 = q)) = none := by
    rw [List.find?_eq_none]; intro x hx; simpa using ha x hx
  unfold lookup
  rw [List.find?_append, hfa, Option.none_or]
  cases b with
  | nil => simp
  | cons x b =>
    simp only [List.getElem?_append_right (Nat.le_refl _), Nat.sub_self, List.getElem?_cons_zero]
    by_cases hxq : x.1 = q
    · simp [hxq, Option.filter]
    · have hb : b.find? (fun e => decide (e.1 = q)) = none := by
        rw [List.find?_eq_none]
        intro y hy
        have h1 : x.1 < y.1 := (strictAsc_cons.1 (StrictAsc.right hasc)).1 y hy
        have h2 : q ≤ x.1 := h4 x (by simp)
        have : q < y.1 := blt_of_le_of_lt h2 h1
        simp only [decide_eq_true_eq]
        intro hyq; exact blt_irrefl q (hyq ▸ this)
      simp [hxq, Option.filter, hb]

theorem upperBound_split_asc {es : List Entry} (hasc : StrictAsc es) (q : Bytes) :
    ∃ a b, es = a ++ b ∧ a.length = upperBound es q ∧ (∀ e ∈ a, e.1 ≤ q) ∧ (∀ e ∈ b, q < e.1) := by
  induction es with
  | nil => exact ⟨[], [], rfl, rfl, by simp, by simp⟩
  | cons e es ih =>
    rw [strictAsc_cons] at hasc
    by_cases he : e.1 ≤ q
    · obtain ⟨a, b, h1, h2, h3, h4⟩ := ih hasc.2
      refine ⟨e :: a, b, by simp [h1], by simp [upperBound_cons, he, h2], ?_, h4⟩
      intro x hx
      rcases List.mem_cons.1 hx with rfl | hx
      · exact he
      · exact h3 x hx
    · refine ⟨[], e :: es, rfl, by simp [upperBound_cons, he], by simp, ?_⟩
      intro x hx
      rcases List.mem_cons.1 hx with rfl | hx
      · exact bnot_le.1 he
      · exact blt_trans (bnot_le.1 he) (hasc.1 x hx)

theorem floor_eq (es : List Entry) (hasc : StrictAsc es) (q : Bytes) :
    floor es q = if upperBound es q = 0 then none else es[upperBound es q - 1]? := by
  obtain ⟨a, b, h1, h2, h3, h4⟩ := upperBound_split_asc hasc q
  subst h1
  rw [← h2]
  have hb : b.reverse.find? (fun e => decide (e.1 ≤ q)) = none := by
    rw [List.find?_eq_none]
    intro x hx
    have := h4 x (List.mem_reverse.1 hx)
    simpa using bnot_le.2 this
  unfold floor
  rw [List.reverse_append, List.find?_append, hb, Option.none_or]
  rcases List.eq_nil_or_concat a with rfl | ⟨a', x, rfl⟩
  · simp
  · have hx : x.1 ≤ q := h3 x (by simp)
    simp [hx]

end Grenad.TCursor
