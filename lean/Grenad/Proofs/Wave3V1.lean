/-
  Grenad.Proofs.Wave3V1 — the byte-level reader over the blocks of a written file followed by
  *another* trailer (C10: the 21-byte version-1 record).

  The Assembly development (`Grenad.Proofs.Assembly`) reaches the file only through
  `ByteSim (storeOf log) load Rb`, i.e. through the loads at the offsets of the log.  Those blocks
  lie inside the block area `log.flatMap blockBytes`, so `Lay.loadBlock` reads them back whatever
  follows the block area (`byteSim_retrailer`).  Everything else is reuse:
  * `retrailer_main` — the re-trailered file simulates the specification cursor;
  * `Twin` — two byte-level readers over two such files, started from cursors with the same root
    and number of levels, stay related to the *same* abstract reader state, hence return the
    same result for every operation of every history (`twin_results`, `twin_scan`).
-/
import Grenad.Proofs.Assembly
import Grenad.Proofs.MetaProofs

namespace Grenad.Wave3

open Grenad Grenad.Assembly Grenad.TCursor Grenad.IterP

section
variable {cd : Codec} {cfg : WCfg} {es : List Entry} {file : Bytes} {log : List Emitted}

/-- The block area of a written file. -/
abbrev body (cd : Codec) (log : List Emitted) : Bytes :=
  log.flatMap (fun e => W.blockBytes cd e.raw)

/-- Layout of the written file, the parsed trailer, and the well-formedness of the tree. -/
theorem setting_layout (S : Setting cd cfg es file log) :
    ∃ root, root < (body cd log).length ∧
      file = body cd log ++ Meta.encode ⟨2, root, cd.id, es.length, cfg.levels⟩ ∧
      Lay cd log (body cd log) ∧
      Meta.parse file = .ok ⟨2, root, cd.id, es.length, cfg.levels⟩ ∧
      FileOK (storeOf log) root cfg.levels es := by
  obtain ⟨idx, out, root, hf, hF, -⟩ := W.run_out S.H S.hrun
  have ho : out = body cd log := hF.lay.out_eq
  have hp : Meta.parse file = .ok ⟨2, root, cd.id, es.length, cfg.levels⟩ := by
    rw [hf]
    apply WT.meta_parse_encode_v2 _ _ rfl _ S.hid S.hcount S.H.levels
    have h1 := hF.root
    have h2 : out.length ≤ file.length := by rw [hf]; simp
    have h3 := S.hfile
    simp only at h1 ⊢
    omega
  obtain ⟨root', hok, hp'⟩ := S.fileOK
  rw [hp] at hp'
  cases hp'
  refine ⟨root, ?_, ?_, ?_, hp, hok⟩
  · rw [← ho]; exact hF.root
  · rw [hf, ho]
  · rw [← ho]; exact hF.lay

/-- The byte loader over the same blocks followed by *any* trailer `t` agrees with the abstract
    store of the log (same statement as `Setting.byteSim`, which is the case
    `t = Meta.encode ⟨2, …⟩`). -/
theorem byteSim_retrailer (S : Setting cd cfg es file log) (t : Bytes)
    (hlen : (body cd log ++ t).length < 2 ^ 64) :
    ByteSim (storeOf log) (loadCursor cd (body cd log ++ t)) (Rb cfg.interval log) where
  ops := Rb_ops _ _
  load := by
    intro off x hs
    obtain ⟨e, he, rfl, rfl⟩ := storeOf_some hs
    obtain ⟨root, -, -, hlay, -, -⟩ := setting_layout S
    have hload := hlay.loadBlock S.H.lawful t hlen e he
    obtain ⟨-, -, -, hmade, -⟩ := T_writer_bytes S.H S.hrun S.hfile
    obtain ⟨w, hw, hraw, hitems⟩ := hmade e he
    have hbl : w.buffer.length < 2 ^ 32 := by
      have h1 : w.buffer.length ≤ w.finish.length := by simp [BW.finish]
      have h2 := S.hsmall e he
      rw [hraw] at h2
      omega
    obtain ⟨b, hp, -, -, hb⟩ := parse_built S.hiv hw.built hbl
    refine ⟨BlockCursor.ofBlock b, ?_, e, he, b, hitems ▸ hb, byteOps_init _ _⟩
    unfold loadCursor
    rw [hload, hraw, hp]
    rfl

/-- Loads at the offsets of the log do not depend on the trailer. -/
theorem loadCursor_retrailer (S : Setting cd cfg es file log) (t : Bytes)
    (hlen : (body cd log ++ t).length < 2 ^ 64) {e : Emitted} (he : e ∈ log) :
    loadCursor cd (body cd log ++ t) e.offset = loadCursor cd file e.offset := by
  obtain ⟨root, -, hf, hlay, -, -⟩ := setting_layout S
  have h1 := hlay.loadBlock S.H.lawful t hlen e he
  have h2 := hlay.loadBlock S.H.lawful (Meta.encode ⟨2, root, cd.id, es.length, cfg.levels⟩)
    (by rw [← hf]; exact S.hfile) e he
  unfold loadCursor
  rw [h1, hf, h2]

/-- **The re-trailered file simulates the specification cursor** from any freshly opened cursor
    with the root offset and number of levels of the written file (same shape as
    `Setting.main`). -/
theorem retrailer_main (S : Setting cd cfg es file log) (t : Bytes)
    (hlen : (body cd log ++ t).length < 2 ^ 64) {m : Meta.Meta} (hm : Meta.parse file = .ok m)
    (m' : Meta.Meta) (hr : m'.root = m.root) (hl : m'.levels = cfg.levels) :
    ∃ (R : RC BlockCursor → Spec.Pos → Prop),
      Sim es (RC.step byteOps (loadCursor cd (body cd log ++ t)) true) R ∧ R (RC.new m') .fresh ∧
      (∀ c p, R c p → ∀ q c1,
        RC.step byteOps (loadCursor cd (body cd log ++ t)) true c (.le q) = (c1, .ok none) →
        ∃ c2 r, RC.step byteOps (loadCursor cd (body cd log ++ t)) true c1 .current = (c2, .ok r) ∧
          ∀ e, r = some e → e ∈ es) := by
  obtain ⟨root, -, -, -, hp, hok⟩ := setting_layout S
  rw [hm] at hp
  cases hp
  have B := byteSim_retrailer S t hlen
  refine ⟨RS (storeOf log) root cfg.levels es (Rb cfg.interval log), RS_sim hok B,
    RS_new hok _ _ hr hl, ?_⟩
  intro c p hR
  exact RS_lostCurrent hok B hR

end

/-! ### Two byte-level readers against one abstract reader -/

section
variable {s : Store} {load₁ load₂ : Nat → Option BlockCursor} {Rb : BlockCursor → LC → Prop}
  {root levels : Nat} {es : List Entry}

/-- Both byte-level states represent the same abstract state, which cannot fail. -/
def Twin (s : Store) (root levels : Nat) (es : List Entry) (Rb : BlockCursor → LC → Prop)
    (c₁ c₂ : RC BlockCursor) : Prop :=
  ∃ a, RCRel Rb c₁ a ∧ RCRel Rb c₂ a ∧ NE s root levels es a

theorem twin_step (h : FileOK s root levels es) (B₁ : ByteSim s load₁ Rb) (B₂ : ByteSim s load₂ Rb)
    {c₁ c₂ : RC BlockCursor} (hT : Twin s root levels es Rb c₁ c₂) (op : Op) :
    (RC.step byteOps load₁ true c₁ op).2 = (RC.step byteOps load₂ true c₂ op).2 ∧
    Twin s root levels es Rb (RC.step byteOps load₁ true c₁ op).1
      (RC.step byteOps load₂ true c₂ op).1 := by
  obtain ⟨a, r1, r2, hne⟩ := hT
  obtain ⟨n1, n2⟩ := NE_step h hne op
  obtain ⟨a1, a2⟩ := B₁.step r1 op n1
  obtain ⟨b1, b2⟩ := B₂.step r2 op n1
  exact ⟨by rw [a2, b2], _, a1, b1, n2⟩

theorem twin_new (h : FileOK s root levels es) (Rb : BlockCursor → LC → Prop)
    (m₁ m₂ : Meta.Meta) (hr₁ : m₁.root = root) (hl₁ : m₁.levels = levels)
    (hr₂ : m₂.root = root) (hl₂ : m₂.levels = levels) :
    Twin s root levels es Rb (RC.new m₁) (RC.new m₂) := by
  subst hr₁ hl₁
  refine ⟨RC.new m₁, RCRel_new Rb m₁, ⟨?_, ?_, rfl, trivial, trivial⟩, NE_c0 h⟩
  · exact hr₂
  · exact hl₂

/-- The results of a history, in order. -/
def results {γ : Type} (step' : γ → Op → γ × Res) : γ → List Op → List Res
  | _, [] => []
  | c, op :: ops => (step' c op).2 :: results step' (step' c op).1 ops

theorem runBothG_map_fst {γ : Type} (step' : γ → Op → γ × Res) (es : List Entry) (c : γ)
    (p : Spec.Pos) (ops : List Op) :
    (runBothG step' es c p ops).map Prod.fst = results step' c ops := by
  induction ops generalizing c p with
  | nil => rfl
  | cons op ops ih => simp only [runBothG, results, List.map_cons, ih]

/-- Same results for every operation of every history. -/
theorem twin_results (h : FileOK s root levels es) (B₁ : ByteSim s load₁ Rb)
    (B₂ : ByteSim s load₂ Rb) {c₁ c₂ : RC BlockCursor} (hT : Twin s root levels es Rb c₁ c₂)
    (ops : List Op) :
    results (RC.step byteOps load₁ true) c₁ ops = results (RC.step byteOps load₂ true) c₂ ops := by
  induction ops generalizing c₁ c₂ with
  | nil => rfl
  | cons op ops ih =>
    obtain ⟨h1, h2⟩ := twin_step h B₁ B₂ hT op
    simp only [results, h1, ih h2]

theorem twin_stateAfter (h : FileOK s root levels es) (B₁ : ByteSim s load₁ Rb)
    (B₂ : ByteSim s load₂ Rb) {c₁ c₂ : RC BlockCursor} (hT : Twin s root levels es Rb c₁ c₂)
    (ops : List Op) :
    Twin s root levels es Rb (stateAfter (RC.step byteOps load₁ true) c₁ ops)
      (stateAfter (RC.step byteOps load₂ true) c₂ ops) := by
  induction ops generalizing c₁ c₂ with
  | nil => exact hT
  | cons op ops ih => exact ih (twin_step h B₁ B₂ hT op).2

/-- Same scans of any length, in both directions (any repeated operation). -/
theorem twin_scan (h : FileOK s root levels es) (B₁ : ByteSim s load₁ Rb)
    (B₂ : ByteSim s load₂ Rb) {c₁ c₂ : RC BlockCursor} (hT : Twin s root levels es Rb c₁ c₂)
    (op : Op) (n : Nat) :
    scan (RC.step byteOps load₁ true) op n c₁ = scan (RC.step byteOps load₂ true) op n c₂ := by
  induction n generalizing c₁ c₂ with
  | zero => rfl
  | succ n ih =>
    obtain ⟨h1, h2⟩ := twin_step h B₁ B₂ hT op
    simp only [scan, h1, ih h2]

end

/-! ### The written file and its re-trailered twin -/

section
variable {cd : Codec} {cfg : WCfg} {es : List Entry} {file : Bytes} {log : List Emitted}

/-- The reader over the re-trailered file and the reader over the written file are twins. -/
theorem retrailer_twin (S : Setting cd cfg es file log) (t : Bytes)
    (hlen : (body cd log ++ t).length < 2 ^ 64) {m : Meta.Meta} (hm : Meta.parse file = .ok m)
    (m' : Meta.Meta) (hr : m'.root = m.root) (hl : m'.levels = cfg.levels) :
    ∃ root, FileOK (storeOf log) root cfg.levels es ∧
      ByteSim (storeOf log) (loadCursor cd (body cd log ++ t)) (Rb cfg.interval log) ∧
      ByteSim (storeOf log) (loadCursor cd file) (Rb cfg.interval log) ∧
      Twin (storeOf log) root cfg.levels es (Rb cfg.interval log) (RC.new m') (RC.new m) := by
  obtain ⟨root, -, -, -, hp, hok⟩ := setting_layout S
  rw [hm] at hp
  cases hp
  exact ⟨root, hok, byteSim_retrailer S t hlen, S.byteSim, twin_new hok _ _ _ hr hl rfl rfl⟩

/-- The version-1 trailer is one byte shorter than the version-2 trailer: the re-trailered file
    is below `2^64` bytes as well. -/
theorem v1_len (S : Setting cd cfg es file log) (root codec count : Nat) :
    (body cd log ++ Meta.encode ⟨1, root, codec, count, 0⟩).length < 2 ^ 64 := by
  obtain ⟨root', -, hf, -, -, -⟩ := setting_layout S
  have h := S.hfile
  rw [hf] at h
  have h1 : (Meta.encode ⟨1, root, codec, count, 0⟩).length = 21 := by
    simp [Meta.encode]
  have h2 : (Meta.encode ⟨2, root', cd.id, es.length, cfg.levels⟩).length = 22 :=
    WT.meta_encode_v2_length _ rfl
  simp only [List.length_append, h1, h2] at h ⊢
  omega

end

end Grenad.Wave3
