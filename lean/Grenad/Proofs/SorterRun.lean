/-
  Grenad.Proofs.SorterRun — the sorter's public calls as steps over the `Entries` lemmas:
  shape of every successful `Sorter.insert` (fit/grow, spill, spill+merge), the invariant `Core`
  carried by every reachable state, and the absence of traps.
-/
import Grenad.Proofs.SorterEvents

namespace Grenad
namespace Sorter

open Entries

/-- Capacity of the first allocation requested by `Sorter.new`. -/
def cap0 (cfg : SCfg) : Nat := if cfg.allowRealloc then cfg.initialSize else cfg.budget

/-! ### The three shapes of a successful insert -/

/-- fit / grow branch: `j` doublings, then the store. -/
def plainStep (s : Sorter) (k v : Bytes) (j : Nat) : Sorter :=
  { s with entries := push (scale s.entries j) k v,
           events := s.events ++ reallocEvents s.entries.bufLen j }

/-- spill branch before the chunk-count test. -/
def spillStep (s : Sorter) (chunk : List Entry) (calls : List (Bytes × List Bytes))
    (k v : Bytes) (j : Nat) : Sorter :=
  { s with chunks := s.chunks ++ [chunk], entries := push (scale s.entries.clear j) k v,
           events := s.events ++ [.create] ++ reallocEvents s.entries.bufLen j,
           calls := s.calls ++ calls }

/-- `merge_chunks`. -/
def mergeStep (s : Sorter) (merged : List Entry) (calls : List (Bytes × List Bytes)) : Sorter :=
  { s with chunks := [merged],
           events := s.events ++ [.create] ++ s.chunks.map (fun _ => SEvent.dropChunk),
           calls := s.calls ++ calls }

/-- Does `insert k v` in state `s` take the spill branch (call `write_chunk`)? -/
def spills (s : Sorter) (k v : Bytes) : Bool :=
  !(decide (s.entries.used + entrySize k v ≤ s.entries.bufLen) ||
    (!decide (s.entries.bufLen ≥ s.cfg.budget) && s.cfg.allowRealloc))

/-- Does it also call `merge_chunks`? -/
def merges (s : Sorter) (k v : Bytes) : Bool :=
  spills s k v && decide (s.chunks.length + 1 ≥ s.cfg.maxNb)

theorem writeChunk_ok {mf : MergeFn} {s s1 : Sorter} (h : writeChunk mf s = .ok s1) :
    ∃ chunk calls, s1 = { s with chunks := s.chunks ++ [chunk], entries := s.entries.clear,
                                 events := s.events ++ [.create], calls := s.calls ++ calls } := by
  unfold writeChunk writeChunkWith at h
  split at h
  · cases h
  · rename_i chunk calls _
    simp only [Except.ok.injEq] at h
    exact ⟨chunk, calls, h.symm⟩

theorem writeChunk_err {mf : MergeFn} {s : Sorter} {e : SErr} (h : writeChunk mf s = .error e) :
    e = .merge := by
  unfold writeChunk writeChunkWith at h
  split at h
  · simp only [Except.error.injEq] at h; exact h.symm
  · cases h

theorem mergeChunks_ok {mf : MergeFn} {s s' : Sorter} (h : mergeChunks mf s = .ok s') :
    ∃ merged calls, s' = mergeStep s merged calls := by
  unfold mergeChunks at h
  split at h
  · cases h
  · rename_i merged m _
    simp only [Except.ok.injEq] at h
    exact ⟨merged, m.calls.reverse, h.symm⟩

theorem mergeChunks_err {mf : MergeFn} {s : Sorter} {e : SErr} (h : mergeChunks mf s = .error e) :
    e = .merge := by
  unfold mergeChunks at h
  split at h
  · simp only [Except.error.injEq] at h; exact h.symm
  · cases h

/-- Shape of every successful `Sorter.insert`. -/
theorem insert_cases {mf : MergeFn} {s s' : Sorter} {k v : Bytes} (hinv : Inv s.entries)
    (h : Sorter.insert mf s k v = .ok s') :
    (spills s k v = false ∧ ∃ j, Grow s.entries k v j ∧ s' = plainStep s k v j) ∨
    (spills s k v = true ∧ ∃ chunk calls j, Grow s.entries.clear k v j ∧
      ((merges s k v = false ∧ s' = spillStep s chunk calls k v j) ∨
       (merges s k v = true ∧ ∃ merged calls',
          s' = mergeStep (spillStep s chunk calls k v j) merged calls'))) := by
  unfold Sorter.insert at h
  rw [fits_eq hinv] at h
  simp only at h
  by_cases hc : (decide (s.entries.used + entrySize k v ≤ s.entries.bufLen) ||
      (!decide (s.entries.bufLen ≥ s.cfg.budget) && s.cfg.allowRealloc)) = true
  · left
    rw [if_pos hc] at h
    refine ⟨by simp [spills, hc], ?_⟩
    cases hi : s.entries.insert k v 64 with
    | error t => simp [hi] at h
    | ok r =>
      obtain ⟨e, ev⟩ := r
      simp only [hi, Except.ok.injEq] at h
      obtain ⟨j, g, rfl, rfl⟩ := insert_ok hinv hi
      exact ⟨j, g, h.symm⟩
  · right
    rw [if_neg hc] at h
    have hsp : spills s k v = true := by simp [spills, hc]
    refine ⟨hsp, ?_⟩
    cases hw : writeChunk mf s with
    | error e => simp [hw] at h
    | ok s1 =>
      simp only [hw] at h
      obtain ⟨chunk, calls, rfl⟩ := writeChunk_ok hw
      simp only at h
      cases hi : s.entries.clear.insert k v 64 with
      | error t => simp [hi] at h
      | ok r =>
        obtain ⟨e, ev⟩ := r
        simp only [hi] at h
        obtain ⟨j, g, rfl, rfl⟩ := insert_ok hinv.clear hi
        refine ⟨chunk, calls, j, g, ?_⟩
        by_cases hm : (s.chunks ++ [chunk]).length ≥ s.cfg.maxNb
        · right
          rw [if_pos hm] at h
          refine ⟨by simpa [merges, hsp] using hm, ?_⟩
          obtain ⟨merged, calls', hs'⟩ := mergeChunks_ok h
          exact ⟨merged, calls', by rw [hs']; simp [spillStep, List.append_assoc, Entries.clear]⟩
        · left
          rw [if_neg hm] at h
          refine ⟨by simpa [merges, hsp] using hm, ?_⟩
          simp only [Except.ok.injEq] at h
          rw [← h]; simp [spillStep, List.append_assoc, Entries.clear]

/-! ### The invariant of reachable states -/

/-- Carried by every state between (and inside) public calls while the buffer is alive. -/
structure Core (cfg : SCfg) (s : Sorter) : Prop where
  cfg_eq : s.cfg = cfg
  inv    : Inv s.entries
  alloc  : allocRun .none s.events = some (.one s.entries.bufLen)
  chunk  : chunkRun (cfg.maxNb + 2) 0 s.events = some s.chunks.length

theorem alloc_eq (n : Nat) : Entries.alloc n =
    if roundUp n = 0 then .error .allocZero else if roundUp n ≥ 2 ^ 63 then .error .arith
    else .ok (roundUp n, [.alloc (roundUp n)]) := rfl

theorem new_ok {cfg : SCfg} {s : Sorter} (h : Sorter.new cfg = .ok s) :
    roundUp (cap0 cfg) ≠ 0 ∧ roundUp (cap0 cfg) < 2 ^ 63 ∧
    s = { cfg := cfg, chunks := [], calls := [], events := [.alloc (roundUp (cap0 cfg))],
          entries := { bufLen := roundUp (cap0 cfg), entriesLen := 0, boundsCount := 0,
                       items := [] } } := by
  unfold Sorter.new Entries.withCapacity at h
  simp only at h
  rw [show (if cfg.allowRealloc = true then cfg.initialSize else cfg.budget) = cap0 cfg from rfl,
    alloc_eq] at h
  by_cases h0 : roundUp (cap0 cfg) = 0
  · simp [h0] at h
  by_cases h1 : roundUp (cap0 cfg) ≥ 2 ^ 63
  · simp [h0, h1] at h
  simp only [h0, h1, if_false, Except.ok.injEq] at h
  exact ⟨h0, by omega, h.symm⟩

theorem new_no_trap {cfg : SCfg} (h0 : 0 < cap0 cfg) (h1 : cap0 cfg + 15 < 2 ^ 63) :
    ∃ s, Sorter.new cfg = .ok s := by
  have a := roundUp_pos h0
  have b := roundUp_lt (cap0 cfg)
  have c := roundUp_mod (cap0 cfg)
  unfold Sorter.new Entries.withCapacity
  simp only
  rw [show (if cfg.allowRealloc = true then cfg.initialSize else cfg.budget) = cap0 cfg from rfl,
    alloc_eq]
  have h0' : ¬ roundUp (cap0 cfg) = 0 := by omega
  have h1' : ¬ roundUp (cap0 cfg) ≥ 2 ^ 63 := by omega
  simp only [h0', h1', if_false]
  exact ⟨_, rfl⟩

theorem core_new {cfg : SCfg} {s : Sorter} (h : Sorter.new cfg = .ok s) : Core cfg s := by
  obtain ⟨h0, _, rfl⟩ := new_ok h
  have c := roundUp_mod (cap0 cfg)
  refine ⟨rfl, ⟨c, ?_, ?_, rfl, rfl, rfl⟩, ?_, ?_⟩
  · show 16 ≤ roundUp (cap0 cfg); omega
  · show 0 + 16 * 0 ≤ roundUp (cap0 cfg); omega
  · simp [allocRun, allocStep]
  · simp [chunkRun]

theorem core_plain {cfg : SCfg} {s : Sorter} {k v : Bytes} {j : Nat} (c : Core cfg s)
    (g : Grow s.entries k v j) : Core cfg (plainStep s k v j) := by
  refine ⟨c.cfg_eq, g.inv c.inv, ?_, ?_⟩
  · show allocRun .none (s.events ++ reallocEvents s.entries.bufLen j) = _
    rw [allocRun_append_of c.alloc, allocRun_realloc]; rfl
  · show chunkRun _ 0 (s.events ++ reallocEvents s.entries.bufLen j) = _
    rw [chunkRun_append_of c.chunk, chunkRun_realloc]; rfl

theorem core_spill {cfg : SCfg} {s : Sorter} {k v : Bytes} {j : Nat} (c : Core cfg s)
    (chunk : List Entry) (calls : List (Bytes × List Bytes))
    (hl : s.chunks.length ≤ cfg.maxNb + 1)
    (g : Grow s.entries.clear k v j) : Core cfg (spillStep s chunk calls k v j) := by
  refine ⟨c.cfg_eq, g.inv c.inv.clear, ?_, ?_⟩
  · show allocRun .none (s.events ++ [.create] ++ reallocEvents s.entries.bufLen j) = _
    rw [List.append_assoc, allocRun_append_of c.alloc]
    show allocRun (.one s.entries.bufLen) (reallocEvents s.entries.bufLen j) = _
    rw [allocRun_realloc]; rfl
  · show chunkRun _ 0 (s.events ++ [.create] ++ reallocEvents s.entries.bufLen j) = _
    rw [List.append_assoc, chunkRun_append_of c.chunk]
    have : s.chunks.length + 1 ≤ cfg.maxNb + 2 := by omega
    simp only [List.cons_append, List.nil_append, chunkRun, this, if_true, chunkRun_realloc]
    simp [spillStep]

theorem core_merge {cfg : SCfg} {s : Sorter} (c : Core cfg s)
    (merged : List Entry) (calls : List (Bytes × List Bytes))
    (hl : s.chunks.length ≤ cfg.maxNb + 1) : Core cfg (mergeStep s merged calls) := by
  refine ⟨c.cfg_eq, c.inv, ?_, ?_⟩
  · show allocRun .none (s.events ++ [.create] ++ s.chunks.map (fun _ => SEvent.dropChunk)) = _
    rw [List.append_assoc, allocRun_append_of c.alloc]
    show allocRun (.one s.entries.bufLen) (s.chunks.map (fun _ => SEvent.dropChunk)) = _
    generalize s.chunks = l
    induction l with
    | nil => rfl
    | cons x r ih => simpa [allocRun, allocStep] using ih
  · show chunkRun _ 0 (s.events ++ [.create] ++ s.chunks.map (fun _ => SEvent.dropChunk)) = _
    rw [List.append_assoc, chunkRun_append_of c.chunk]
    have : s.chunks.length + 1 ≤ cfg.maxNb + 2 := by omega
    simp only [List.cons_append, List.nil_append, chunkRun, this, if_true]
    rw [Nat.add_comm s.chunks.length 1, chunkRun_drops]; rfl

/-- `Sorter.insert` preserves `Core` and keeps the number of chunks between calls below
    `max (maxNb - 1) 1`. -/
theorem core_insert {mf : MergeFn} {cfg : SCfg} {s s' : Sorter} {k v : Bytes} (c : Core cfg s)
    (hl : s.chunks.length ≤ max (cfg.maxNb - 1) 1) (h : Sorter.insert mf s k v = .ok s') :
    Core cfg s' ∧ s'.chunks.length ≤ max (cfg.maxNb - 1) 1 := by
  have hmax : 1 ≤ cfg.maxNb := by unfold SCfg.maxNb; omega
  rcases insert_cases c.inv h with ⟨_, j, g, rfl⟩ | ⟨hsp, chunk, calls, j, g, hm⟩
  · exact ⟨core_plain c g, hl⟩
  · have c1 := core_spill c chunk calls (by omega) g
    rcases hm with ⟨hm, rfl⟩ | ⟨_, merged, calls', rfl⟩
    · refine ⟨c1, ?_⟩
      simp only [merges, hsp, Bool.true_and, decide_eq_false_iff_not, c.cfg_eq] at hm
      simp only [spillStep, List.length_append, List.length_singleton]
      omega
    · refine ⟨core_merge c1 merged calls' ?_, ?_⟩
      · simp only [spillStep, List.length_append, List.length_singleton]; omega
      · simp only [mergeStep, List.length_singleton]; omega

/-! ### Counting creates, bounding the buffer -/

theorem creates_append (a b : List SEvent) : creates (a ++ b) = creates a + creates b := by
  simp [creates]

theorem creates_realloc (b j : Nat) : creates (reallocEvents b j) = 0 := by
  induction j generalizing b with
  | zero => rfl
  | succ j ih => simp [reallocEvents, creates] at ih ⊢; exact ih _

theorem creates_one : creates [SEvent.create] = 1 := by decide

theorem creates_drops {α : Type} (l : List α) :
    creates (l.map (fun _ => SEvent.dropChunk)) = 0 := by
  induction l with
  | nil => rfl
  | cons x r ih => simp [creates] at ih ⊢; exact ih

theorem allocSizes_append (a b : List SEvent) :
    allocSizes (a ++ b) = allocSizes a ++ allocSizes b := by
  induction a with
  | nil => rfl
  | cons x r ih => cases x <;> simp [allocSizes, ih]

theorem allocSizes_drops {α : Type} (l : List α) :
    allocSizes (l.map (fun _ => SEvent.dropChunk)) = [] := by
  induction l with
  | nil => rfl
  | cons x r ih => simp [allocSizes] at ih ⊢; exact ih

/-- Every `.create` is the spill or the merge of some insert. -/
theorem insert_creates {mf : MergeFn} {s s' : Sorter} {k v : Bytes} (hinv : Inv s.entries)
    (h : Sorter.insert mf s k v = .ok s') :
    creates s'.events = creates s.events + (spills s k v).toNat + (merges s k v).toNat := by
  rcases insert_cases hinv h with ⟨hsp, j, _, rfl⟩ | ⟨hsp, chunk, calls, j, _, hm⟩
  · simp [plainStep, creates_append, creates_realloc, hsp, merges]
  · rcases hm with ⟨hm, rfl⟩ | ⟨hm, merged, calls', rfl⟩
    · show creates (s.events ++ [.create] ++ reallocEvents s.entries.bufLen j) = _
      rw [creates_append, creates_append, creates_realloc, creates_one, hsp, hm]; rfl
    · show creates (s.events ++ [.create] ++ reallocEvents s.entries.bufLen j ++ [.create] ++
        (s.chunks ++ [chunk]).map (fun _ => SEvent.dropChunk)) = _
      rw [creates_append, creates_append, creates_append, creates_append, creates_realloc,
        creates_one, creates_drops, hsp, hm]; rfl

/-- The buffer size never exceeds any `X` above the first allocation, `2·budget` and four
    entry sizes. -/
theorem insert_buf {mf : MergeFn} {s s' : Sorter} {k v : Bytes} {X : Nat} (hinv : Inv s.entries)
    (h : Sorter.insert mf s k v = .ok s') (hT : 2 * s.cfg.budget ≤ X)
    (hM : 4 * entrySize k v ≤ X) (hb : s.entries.bufLen ≤ X) : s'.entries.bufLen ≤ X := by
  rcases insert_cases hinv h with ⟨hsp, j, g, rfl⟩ | ⟨hsp, chunk, calls, j, g, hm⟩
  · show s.entries.bufLen * 2 ^ j ≤ X
    rcases g.bound hinv with e | e | e
    · omega
    · by_cases hf : s.entries.used + entrySize k v ≤ s.entries.bufLen
      · have := g.eq_zero_of_fit hf; subst this; simpa using hb
      · simp only [spills, hf, decide_false, Bool.false_or, Bool.not_eq_false',
          Bool.and_eq_true, Bool.not_eq_true', decide_eq_false_iff_not] at hsp
        omega
    · omega
  · have key : s.entries.bufLen * 2 ^ j ≤ X := by
      have := g.bound'
      have hu : s.entries.clear.used = 0 := rfl
      have hl : s.entries.clear.bufLen = s.entries.bufLen := rfl
      rw [hu, hl] at this
      omega
    rcases hm with ⟨_, rfl⟩ | ⟨_, merged, calls', rfl⟩
    · exact key
    · exact key

/-- With reallocation disabled and entries no larger than the buffer, the buffer is never
    reallocated. -/
theorem insert_noRealloc {mf : MergeFn} {s s' : Sorter} {k v : Bytes} (hinv : Inv s.entries)
    (h : Sorter.insert mf s k v = .ok s') (hr : s.cfg.allowRealloc = false)
    (hM : entrySize k v ≤ s.entries.bufLen) :
    s'.entries.bufLen = s.entries.bufLen ∧ allocSizes s'.events = allocSizes s.events := by
  rcases insert_cases hinv h with ⟨hsp, j, g, rfl⟩ | ⟨hsp, chunk, calls, j, g, hm⟩
  · have hf : s.entries.used + entrySize k v ≤ s.entries.bufLen := by
      simpa [spills, hr] using hsp
    have := g.eq_zero_of_fit hf; subst this
    simp [plainStep, reallocEvents, push]
  · have hf : s.entries.clear.used + entrySize k v ≤ s.entries.clear.bufLen := by
      show 0 + 16 * 0 + entrySize k v ≤ s.entries.bufLen
      omega
    have := g.eq_zero_of_fit hf; subst this
    rcases hm with ⟨_, rfl⟩ | ⟨_, merged, calls', rfl⟩
    · simp [spillStep, reallocEvents, allocSizes_append, allocSizes, Entries.clear, push]
    · simp [mergeStep, spillStep, reallocEvents, allocSizes_append, allocSizes, Entries.clear,
        allocSizes_drops, push]

/-! ### No trap -/

theorem insert_no_trap {mf : MergeFn} {s : Sorter} {k v : Bytes} (hinv : Inv s.entries)
    (hk : k.length ≤ u32Max) (hv : v.length ≤ u32Max)
    (hT : s.cfg.allowRealloc = true → s.cfg.budget + entrySize k v ≤ 2 ^ 62 + 1) (t : Trap) :
    Sorter.insert mf s k v ≠ .error (.trap t) := by
  intro h
  have hes : entrySize k v ≤ 2 ^ 62 := by
    unfold entrySize boundSize; unfold u32Max at hk hv; omega
  unfold Sorter.insert at h
  rw [fits_eq hinv] at h
  simp only at h
  by_cases hc : (decide (s.entries.used + entrySize k v ≤ s.entries.bufLen) ||
      (!decide (s.entries.bufLen ≥ s.cfg.budget) && s.cfg.allowRealloc)) = true
  · rw [if_pos hc] at h
    have hsz : s.entries.used + entrySize k v ≤ s.entries.bufLen ∨
        s.entries.used + entrySize k v ≤ 2 ^ 62 := by
      by_cases hf : s.entries.used + entrySize k v ≤ s.entries.bufLen
      · exact .inl hf
      · right
        simp only [hf, decide_false, Bool.false_or, Bool.and_eq_true, Bool.not_eq_true',
          decide_eq_false_iff_not] at hc
        have := hT hc.2
        have : s.entries.used ≤ s.entries.bufLen := hinv.room
        omega
    obtain ⟨e', ev, hi⟩ := insert64_no_trap hinv k v hk hv hsz
    simp [hi] at h
  · rw [if_neg hc] at h
    cases hw : writeChunk mf s with
    | error e => simp [hw, writeChunk_err hw] at h
    | ok s1 =>
      simp only [hw] at h
      obtain ⟨chunk, calls, rfl⟩ := writeChunk_ok hw
      simp only at h
      have hsz : s.entries.clear.used + entrySize k v ≤ 2 ^ 62 := by
        show 0 + 16 * 0 + entrySize k v ≤ 2 ^ 62
        omega
      obtain ⟨e', ev, hi⟩ := insert64_no_trap hinv.clear k v hk hv (.inr hsz)
      simp only [hi] at h
      split at h
      · have := mergeChunks_err h; cases this
      · cases h

/-! ### `finishChunks` -/

/-- The buffer once dropped. -/
def dropped (e : Entries) : Entries := { e with live := false }

/-- `finishChunks`: the final spill, then the buffer is freed. -/
def finishStep (s : Sorter) (chunk : List Entry) (calls : List (Bytes × List Bytes)) : Sorter :=
  { s with chunks := s.chunks ++ [chunk], entries := dropped s.entries.clear,
           events := s.events ++ [.create] ++ [.dealloc s.entries.bufLen],
           calls := s.calls ++ calls }

theorem finishChunks_ok {mf : MergeFn} {s s' : Sorter} (hl : s.entries.live = true)
    (h : finishChunks mf s = .ok s') : ∃ chunk calls, s' = finishStep s chunk calls := by
  unfold finishChunks at h
  cases hw : writeChunk mf s with
  | error e => simp [hw] at h
  | ok s1 =>
    simp only [hw] at h
    obtain ⟨chunk, calls, rfl⟩ := writeChunk_ok hw
    have hd : s.entries.clear.drop =
        .ok (dropped s.entries.clear, [.dealloc s.entries.bufLen]) := by
      simp [Entries.drop, Entries.clear, hl, dropped]
    simp only [hd, Except.ok.injEq] at h
    exact ⟨chunk, calls, by rw [← h]; simp [Entries.clear, finishStep, List.append_assoc]⟩

theorem finishChunks_no_trap {mf : MergeFn} {s : Sorter} (hl : s.entries.live = true) (t : Trap) :
    finishChunks mf s ≠ .error (.trap t) := by
  intro h
  unfold finishChunks at h
  cases hw : writeChunk mf s with
  | error e => simp [hw, writeChunk_err hw] at h
  | ok s1 =>
    simp only [hw] at h
    obtain ⟨chunk, calls, rfl⟩ := writeChunk_ok hw
    have hd : s.entries.clear.drop =
        .ok (dropped s.entries.clear, [.dealloc s.entries.bufLen]) := by
      simp [Entries.drop, Entries.clear, hl, dropped]
    simp [hd] at h

/-- After the final spill the buffer is freed, every allocation has been released with its own
    size, and the live chunk handles are the ones returned. -/
theorem finishChunks_post {mf : MergeFn} {cfg : SCfg} {s s' : Sorter} (c : Core cfg s)
    (hl : s.chunks.length ≤ cfg.maxNb + 1) (h : finishChunks mf s = .ok s') :
    s'.entries.live = false ∧ allocRun .none s'.events = some .none ∧
    allocSizes s'.events = deallocSizes s'.events ∧
    chunkRun (cfg.maxNb + 2) 0 s'.events = some s'.chunks.length ∧
    s'.chunks.length = s.chunks.length + 1 ∧ creates s'.events = creates s.events + 1 := by
  obtain ⟨chunk, calls, rfl⟩ := finishChunks_ok c.inv.live h
  have ha : allocRun .none (s.events ++ [.create] ++ [.dealloc s.entries.bufLen]) = some .none := by
    rw [List.append_assoc, allocRun_append_of c.alloc]
    simp [allocRun, allocStep]
  refine ⟨rfl, ha, ?_, ?_, by simp [finishStep], ?_⟩
  · have := allocRun_balanced ha
    simpa [AState.pending, finishStep] using this
  · show chunkRun _ 0 (s.events ++ [.create] ++ [.dealloc s.entries.bufLen]) = _
    rw [List.append_assoc, chunkRun_append_of c.chunk]
    have : s.chunks.length + 1 ≤ cfg.maxNb + 2 := by omega
    simp [chunkRun, this, finishStep]
  · show creates (s.events ++ [.create] ++ [.dealloc s.entries.bufLen]) = _
    simp [creates]

/-! ### Progress with a total merge function -/

theorem mergeGroups_total {mf : MergeFn} (hmf : ∀ k vs, (mf k vs).isSome) :
    ∀ (l : List Entry) (cur : Option (Bytes × List Bytes)) (out : List Entry)
      (calls : List (Bytes × List Bytes)), (mergeGroups mf l cur out calls).isSome := by
  intro l
  induction l with
  | nil =>
    intro cur out calls
    cases cur with
    | none => simp [mergeGroups]
    | some c =>
      obtain ⟨k, vs⟩ := c
      simp only [mergeGroups, Option.isSome_map]
      exact hmf k vs
  | cons e rest ih =>
    intro cur out calls
    obtain ⟨k, v⟩ := e
    cases cur with
    | none => simp only [mergeGroups]; exact ih _ _ _
    | some c =>
      obtain ⟨ck, vs⟩ := c
      simp only [mergeGroups]
      split
      · exact ih _ _ _
      · cases hm : mf ck vs with
        | none => have := hmf ck vs; simp [hm] at this
        | some m => exact ih _ _ _

theorem writeChunk_total {mf : MergeFn} (hmf : ∀ k vs, (mf k vs).isSome) (s : Sorter) :
    ∃ s1, writeChunk mf s = .ok s1 := by
  unfold writeChunk writeChunkWith
  have := mergeGroups_total hmf (sortStable s.entries.items) none [] []
  cases hg : mergeGroups mf (sortStable s.entries.items) none [] [] with
  | none => simp [hg] at this
  | some r => exact ⟨_, rfl⟩

/-- With a total merge function and a merger that terminates with a result (the subject of the
    merger properties), an insert that cannot trap succeeds. -/
theorem insert_total {mf : MergeFn} {s : Sorter} {k v : Bytes}
    (hmf : ∀ k vs, (mf k vs).isSome) (hrun : ∀ srcs, (Merger.run mf srcs).1.isSome)
    (hnt : ∀ t, Sorter.insert mf s k v ≠ .error (.trap t)) :
    ∃ s', Sorter.insert mf s k v = .ok s' := by
  cases h : Sorter.insert mf s k v with
  | ok s' => exact ⟨s', rfl⟩
  | error e =>
    exfalso
    cases e with
    | trap t => exact hnt t h
    | merge =>
      unfold Sorter.insert at h
      cases hf : s.entries.fits k v with
      | error t => simp [hf] at h
      | ok fit =>
        simp only [hf] at h
        by_cases hc : (fit || (!decide (s.entries.bufLen ≥ s.cfg.budget) &&
            s.cfg.allowRealloc)) = true
        · rw [if_pos hc] at h
          cases hi : s.entries.insert k v 64 with
          | error t => simp [hi] at h
          | ok r => simp [hi] at h
        · rw [if_neg hc] at h
          obtain ⟨s1, hw⟩ := writeChunk_total hmf s
          simp only [hw] at h
          cases hi : s1.entries.insert k v 64 with
          | error t => simp [hi] at h
          | ok r =>
            obtain ⟨e, ev⟩ := r
            simp only [hi] at h
            split at h
            · unfold mergeChunks at h
              split at h
              · rename_i hr
                have := hrun ({ s1 with entries := e, events := s1.events ++ ev } : Sorter).chunks
                rw [hr] at this
                simp at this
              · cases h
            · cases h

/-! ### Runs -/

/-- States reachable by `Sorter.new cfg` followed by successful inserts of entries satisfying
    `P`; `sp` counts the inserts that spilled, `mg` those that also merged the chunks. -/
inductive Reach (mf : MergeFn) (cfg : SCfg) (P : Bytes → Bytes → Prop) :
    Sorter → Nat → Nat → Prop
  | new {s : Sorter} : Sorter.new cfg = .ok s → Reach mf cfg P s 0 0
  | insert {s s' : Sorter} {k v : Bytes} {sp mg : Nat} :
      Reach mf cfg P s sp mg → P k v → Sorter.insert mf s k v = .ok s' →
      Reach mf cfg P s' (sp + (spills s k v).toNat) (mg + (merges s k v).toNat)

theorem Reach.core {mf : MergeFn} {cfg : SCfg} {P : Bytes → Bytes → Prop} {s : Sorter}
    {sp mg : Nat} (r : Reach mf cfg P s sp mg) :
    Core cfg s ∧ s.chunks.length ≤ max (cfg.maxNb - 1) 1 ∧ creates s.events = sp + mg := by
  induction r with
  | new h =>
    refine ⟨core_new h, ?_, ?_⟩
    · obtain ⟨_, _, rfl⟩ := new_ok h; simp
    · obtain ⟨_, _, rfl⟩ := new_ok h; rfl
  | insert _ _ h ih =>
    obtain ⟨c, hl, hc⟩ := ih
    have ⟨c', hl'⟩ := core_insert c hl h
    exact ⟨c', hl', by rw [insert_creates c.inv h, hc]; omega⟩

theorem Reach.mono {mf : MergeFn} {cfg : SCfg} {P Q : Bytes → Bytes → Prop} {s : Sorter}
    {sp mg : Nat} (hPQ : ∀ k v, P k v → Q k v) (r : Reach mf cfg P s sp mg) :
    Reach mf cfg Q s sp mg := by
  induction r with
  | new h => exact .new h
  | insert _ hp h ih => exact .insert ih (hPQ _ _ hp) h

/-- Buffer size bound. -/
theorem Reach.buf {mf : MergeFn} {cfg : SCfg} {P : Bytes → Bytes → Prop} {s : Sorter}
    {sp mg : Nat} {X : Nat} (hcap : roundUp (cap0 cfg) ≤ X) (hT : 2 * cfg.budget ≤ X)
    (hP : ∀ k v, P k v → 4 * entrySize k v ≤ X) (r : Reach mf cfg P s sp mg) :
    s.entries.bufLen ≤ X := by
  induction r with
  | new h => obtain ⟨_, _, rfl⟩ := new_ok h; exact hcap
  | insert r0 hp h ih =>
    have c := r0.core.1
    exact insert_buf c.inv h (by rw [c.cfg_eq]; exact hT) (hP _ _ hp) ih

/-- With reallocation disabled the buffer keeps its first size and is never reallocated. -/
theorem Reach.noRealloc {mf : MergeFn} {cfg : SCfg} {P : Bytes → Bytes → Prop} {s : Sorter}
    {sp mg : Nat} (hr : cfg.allowRealloc = false)
    (hP : ∀ k v, P k v → entrySize k v ≤ roundUp cfg.budget) (r : Reach mf cfg P s sp mg) :
    s.entries.bufLen = roundUp cfg.budget ∧ allocSizes s.events = [roundUp cfg.budget] := by
  have hc : cap0 cfg = cfg.budget := by simp [cap0, hr]
  induction r with
  | new h => obtain ⟨_, _, rfl⟩ := new_ok h; simp [hc, allocSizes]
  | insert r0 hp h ih =>
    have c := r0.core.1
    have := insert_noRealloc c.inv h (by rw [c.cfg_eq]; exact hr) (by rw [ih.1]; exact hP _ _ hp)
    exact ⟨this.1.trans ih.1, this.2.trans ih.2⟩

/-- Insert a list of entries, stopping at the first error. -/
def insertAll (mf : MergeFn) : Sorter → List Entry → Except SErr Sorter
  | s, [] => .ok s
  | s, (k, v) :: r =>
    match Sorter.insert mf s k v with
    | .error e => .error e
    | .ok s' => insertAll mf s' r

/-- A complete use of the sorter: build it, insert `l`, optionally take the chunks out. -/
def program (mf : MergeFn) (cfg : SCfg) (l : List Entry) (fin : Bool) : Except SErr Sorter :=
  match Sorter.new cfg with
  | .error t => .error (.trap t)
  | .ok s =>
    match insertAll mf s l with
    | .error e => .error e
    | .ok s => if fin then finishChunks mf s else .ok s

theorem Reach.insertAll {mf : MergeFn} {cfg : SCfg} {P : Bytes → Bytes → Prop} {s s' : Sorter}
    {sp mg : Nat} {l : List Entry} (r : Reach mf cfg P s sp mg) (hl : ∀ kv ∈ l, P kv.1 kv.2)
    (h : Sorter.insertAll mf s l = .ok s') : ∃ sp' mg', Reach mf cfg P s' sp' mg' := by
  induction l generalizing s sp mg with
  | nil => simp only [Sorter.insertAll, Except.ok.injEq] at h; subst h; exact ⟨_, _, r⟩
  | cons kv l ih =>
    obtain ⟨k, v⟩ := kv
    simp only [Sorter.insertAll] at h
    cases hi : Sorter.insert mf s k v with
    | error e => simp [hi] at h
    | ok s1 =>
      simp only [hi] at h
      exact ih (r.insert (hl (k, v) (by simp)) hi) (fun kv hkv => hl kv (by simp [hkv])) h

/-- States reached by `program … false` are reachable. -/
theorem program_reach {mf : MergeFn} {cfg : SCfg} {P : Bytes → Bytes → Prop} {s : Sorter}
    {l : List Entry} (hl : ∀ kv ∈ l, P kv.1 kv.2) (h : program mf cfg l false = .ok s) :
    ∃ sp mg, Reach mf cfg P s sp mg := by
  unfold program at h
  cases hn : Sorter.new cfg with
  | error t => simp [hn] at h
  | ok s0 =>
    simp only [hn] at h
    cases hi : Sorter.insertAll mf s0 l with
    | error e => simp [hi] at h
    | ok s1 =>
      simp only [hi, Bool.false_eq_true, if_false, Except.ok.injEq] at h
      subst h
      exact (Reach.new hn : Reach mf cfg P s0 0 0).insertAll hl hi

/-- Admissible lengths (the `assert!`s of `Entries::insert`). -/
def LenOk (k v : Bytes) : Prop := k.length ≤ u32Max ∧ v.length ≤ u32Max

theorem insertAll_no_trap {mf : MergeFn} {cfg : SCfg} {s : Sorter} {sp mg : Nat}
    (hT : cfg.allowRealloc = true → cfg.budget ≤ 2 ^ 62 - 2 ^ 34)
    (r : Reach mf cfg LenOk s sp mg) (l : List Entry) (hl : ∀ kv ∈ l, LenOk kv.1 kv.2) (t : Trap) :
    Sorter.insertAll mf s l ≠ .error (.trap t) := by
  induction l generalizing s sp mg with
  | nil => simp [Sorter.insertAll]
  | cons kv l ih =>
    obtain ⟨k, v⟩ := kv
    have hkv : LenOk k v := hl (k, v) (by simp)
    simp only [Sorter.insertAll]
    cases hi : Sorter.insert mf s k v with
    | error e =>
      simp only [ne_eq, Except.error.injEq]
      rintro rfl
      have c := r.core.1
      refine insert_no_trap c.inv hkv.1 hkv.2 ?_ t hi
      intro ha
      have := hT (by rw [← c.cfg_eq]; exact ha)
      rw [c.cfg_eq]
      have h1 := hkv.1; have h2 := hkv.2
      unfold entrySize boundSize; unfold u32Max at h1 h2; omega
    | ok s1 =>
      exact ih (r.insert hkv hi) (fun kv hkv => hl kv (by simp [hkv]))

/-- No call of a complete run traps. -/
theorem program_no_trap (mf : MergeFn) (cfg : SCfg) (l : List Entry) (fin : Bool)
    (h0 : 0 < cap0 cfg) (h1 : cap0 cfg + 15 < 2 ^ 63)
    (hT : cfg.allowRealloc = true → cfg.budget ≤ 2 ^ 62 - 2 ^ 34)
    (hl : ∀ kv ∈ l, LenOk kv.1 kv.2) (t : Trap) :
    program mf cfg l fin ≠ .error (.trap t) := by
  obtain ⟨s0, hn⟩ := new_no_trap h0 h1
  have r0 : Reach mf cfg LenOk s0 0 0 := .new hn
  unfold program
  simp only [hn]
  cases hi : Sorter.insertAll mf s0 l with
  | error e =>
    simp only [ne_eq, Except.error.injEq]
    rintro rfl
    exact insertAll_no_trap hT r0 l hl t hi
  | ok s1 =>
    cases fin with
    | false => simp
    | true =>
      obtain ⟨sp, mg, r1⟩ := r0.insertAll hl hi
      simpa using finishChunks_no_trap r1.core.1.inv.live t

theorem finishChunks_total {mf : MergeFn} (hmf : ∀ k vs, (mf k vs).isSome) {s : Sorter}
    (hl : s.entries.live = true) : ∃ s', finishChunks mf s = .ok s' := by
  cases h : finishChunks mf s with
  | ok s' => exact ⟨s', rfl⟩
  | error e =>
    exfalso
    cases e with
    | trap t => exact finishChunks_no_trap hl t h
    | merge =>
      unfold finishChunks at h
      obtain ⟨s1, hw⟩ := writeChunk_total hmf s
      simp only [hw] at h
      cases hd : s1.entries.drop with
      | error t => simp [hd] at h
      | ok r => simp [hd] at h

theorem insertAll_total {mf : MergeFn} {cfg : SCfg} {s : Sorter} {sp mg : Nat}
    (hmf : ∀ k vs, (mf k vs).isSome) (hrun : ∀ srcs, (Merger.run mf srcs).1.isSome)
    (hT : cfg.allowRealloc = true → cfg.budget ≤ 2 ^ 62 - 2 ^ 34)
    (r : Reach mf cfg LenOk s sp mg) (l : List Entry) (hl : ∀ kv ∈ l, LenOk kv.1 kv.2) :
    ∃ s', Sorter.insertAll mf s l = .ok s' := by
  induction l generalizing s sp mg with
  | nil => exact ⟨s, rfl⟩
  | cons kv l ih =>
    obtain ⟨k, v⟩ := kv
    have hkv : LenOk k v := hl (k, v) (by simp)
    have hnt : ∀ t, Sorter.insert mf s k v ≠ .error (.trap t) := by
      intro t
      have c := r.core.1
      refine insert_no_trap c.inv hkv.1 hkv.2 ?_ t
      intro ha
      have := hT (by rw [← c.cfg_eq]; exact ha)
      rw [c.cfg_eq]
      have h1 := hkv.1; have h2 := hkv.2
      unfold entrySize boundSize; unfold u32Max at h1 h2; omega
    obtain ⟨s1, hi⟩ := insert_total hmf hrun hnt
    simp only [Sorter.insertAll, hi]
    exact ih (r.insert hkv hi) (fun kv hkv => hl kv (by simp [hkv]))

/-- With a total merge function (and a merger that returns a result) a complete run succeeds. -/
theorem program_total (mf : MergeFn) (cfg : SCfg) (l : List Entry) (fin : Bool)
    (hmf : ∀ k vs, (mf k vs).isSome) (hrun : ∀ srcs, (Merger.run mf srcs).1.isSome)
    (h0 : 0 < cap0 cfg) (h1 : cap0 cfg + 15 < 2 ^ 63)
    (hT : cfg.allowRealloc = true → cfg.budget ≤ 2 ^ 62 - 2 ^ 34)
    (hl : ∀ kv ∈ l, LenOk kv.1 kv.2) : ∃ s, program mf cfg l fin = .ok s := by
  obtain ⟨s0, hn⟩ := new_no_trap h0 h1
  have r0 : Reach mf cfg LenOk s0 0 0 := .new hn
  obtain ⟨s1, hi⟩ := insertAll_total hmf hrun hT r0 l hl
  unfold program
  simp only [hn, hi]
  cases fin with
  | false => exact ⟨s1, by simp⟩
  | true =>
    obtain ⟨sp, mg, r1⟩ := r0.insertAll hl hi
    obtain ⟨s2, hf⟩ := finishChunks_total hmf r1.core.1.inv.live
    exact ⟨s2, by simpa using hf⟩

end Sorter
end Grenad
