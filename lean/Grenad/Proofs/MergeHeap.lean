/-
  Grenad.Proofs.MergeHeap — the heap-as-list of `Grenad.Model.Merger`: `heapMin` selects the least
  `(key, idx)`, `popSame` collects the other heads with that key in increasing index order.
-/
import Grenad.Proofs.GroupSpec
import Grenad.Model.Merger

namespace Grenad

/-- Heap entries come from pairwise different sources. -/
def IdxNe (h : List MSrc) : Prop := h.Pairwise (fun a b => a.idx ≠ b.idx)
/-- Increasing source index. -/
def IdxLt (h : List MSrc) : Prop := h.Pairwise (fun a b => a.idx < b.idx)

theorem IdxLt.idxNe {h : List MSrc} (p : IdxLt h) : IdxNe h :=
  List.Pairwise.imp (fun hab => Nat.ne_of_lt hab) p

theorem IdxNe.perm {h h' : List MSrc} (p : IdxNe h) (hp : h.Perm h') : IdxNe h' :=
  List.Pairwise.perm p hp (fun hxy => fun e => hxy e.symm)

theorem before_iff (a b : MSrc) :
    a.before b = true ↔ a.key < b.key ∨ (a.key = b.key ∧ a.idx < b.idx) := by
  simp [MSrc.before]

theorem before_trans {a b c : MSrc} (h1 : a.before b = true) (h2 : b.before c = true) :
    a.before c = true := by
  rw [before_iff] at *
  rcases h1 with h1 | ⟨e1, l1⟩ <;> rcases h2 with h2 | ⟨e2, l2⟩
  · left; exact blt_trans h1 h2
  · left; rw [← e2]; exact h1
  · left; rw [e1]; exact h2
  · right; exact ⟨e1.trans e2, Nat.lt_trans l1 l2⟩

theorem before_total {a b : MSrc} (hne : a.idx ≠ b.idx) (h : ¬ a.before b = true) :
    b.before a = true := by
  rw [before_iff] at *
  by_cases hk : a.key = b.key
  · right; refine ⟨hk.symm, ?_⟩
    have : ¬ a.idx < b.idx := fun hl => h (Or.inr ⟨hk, hl⟩)
    omega
  · left; exact blt_tri (fun hl => h (Or.inl hl)) hk

theorem heapMin_eq_none {h : List MSrc} : heapMin h = none ↔ h = [] := by
  cases h with
  | nil => simp [heapMin]
  | cons s r =>
    simp only [heapMin]
    split <;> (try split) <;> simp

theorem heapMin_spec {h : List MSrc} {m : MSrc} (hp : IdxNe h) (hm : heapMin h = some m) :
    m ∈ h ∧ ∀ x ∈ h, x = m ∨ m.before x = true := by
  induction h generalizing m with
  | nil => simp [heapMin] at hm
  | cons s r ih =>
    have hp' := List.pairwise_cons.mp hp
    simp only [heapMin] at hm
    split at hm
    · rename_i hn
      have : r = [] := heapMin_eq_none.mp hn
      subst this
      cases hm
      simp
    · rename_i m0 hm0
      obtain ⟨hmem, hall⟩ := ih hp'.2 hm0
      split at hm
      · rename_i hb
        cases hm
        refine ⟨List.mem_cons_self, ?_⟩
        intro x hx
        rcases List.mem_cons.mp hx with e | hx
        · left; exact e
        · right
          rcases hall x hx with e | hb'
          · rw [e]; exact hb
          · exact before_trans hb hb'
      · rename_i hb
        cases hm
        refine ⟨List.mem_cons_of_mem _ hmem, ?_⟩
        intro x hx
        rcases List.mem_cons.mp hx with e | hx
        · right; rw [e]
          exact before_total (hp'.1 _ hmem) hb
        · exact hall x hx

theorem heapPop_eq_none {h : List MSrc} : heapPop h = none ↔ h = [] := by
  unfold heapPop
  split
  · rename_i hn; simp [heapMin_eq_none.mp hn]
  · rename_i m hm
    constructor
    · intro h'; cases h'
    · intro e; subst e; simp [heapMin] at hm

/-- What `heapPop` returns: the least element by `(key, idx)` and the rest. -/
theorem heapPop_spec {h h1 : List MSrc} {m : MSrc} (hp : IdxNe h) (hm : heapPop h = some (m, h1)) :
    m ∈ h ∧ h1 = h.erase m ∧ h.Perm (m :: h1) ∧ IdxNe h1 ∧
    (∀ x ∈ h1, m.idx ≠ x.idx) ∧
    (∀ x ∈ h, ¬ x.key < m.key) ∧
    (∀ x ∈ h1, x.key = m.key → m.idx < x.idx) := by
  unfold heapPop at hm
  split at hm
  · cases hm
  · rename_i m' hmin
    cases hm
    obtain ⟨hmem, hall⟩ := heapMin_spec hp hmin
    have hperm : h.Perm (m :: h.erase m) := List.perm_cons_erase hmem
    have hp2 : IdxNe (m :: h.erase m) := hp.perm hperm
    have hp2' := List.pairwise_cons.mp hp2
    refine ⟨hmem, rfl, hperm, hp2'.2, hp2'.1, ?_, ?_⟩
    · intro x hx hlt
      rcases hall x hx with e | hb
      · rw [e] at hlt; exact blt_irrefl _ hlt
      · rw [before_iff] at hb
        rcases hb with hb | ⟨e, _⟩
        · exact blt_asymm hlt hb
        · rw [e] at hlt; exact blt_irrefl _ hlt
    · intro x hx hk
      have hx' : x ∈ h := hperm.symm.subset (List.mem_cons_of_mem _ hx)
      rcases hall x hx' with e | hb
      · exact absurd (e ▸ rfl) (hp2'.1 x hx)
      · rw [before_iff] at hb
        rcases hb with hb | ⟨_, hl⟩
        · rw [hk] at hb; exact absurd hb (blt_irrefl _)
        · exact hl

/-- `popSame` collects exactly the heap entries whose key is `k` (the least key), in increasing
    index order, and leaves the others. -/
theorem popSame_spec (k : Bytes) : ∀ (fuel : Nat) (h acc : List MSrc), IdxNe h →
    (∀ x ∈ h, ¬ x.key < k) → h.length + 1 ≤ fuel →
    ∃ S h', popSame k fuel h acc = (acc.reverse ++ S, h') ∧
      S.Perm (h.filter (fun x => decide (x.key = k))) ∧ IdxLt S ∧
      h'.Perm (h.filter (fun x => decide (x.key ≠ k))) := by
  intro fuel
  induction fuel with
  | zero => intro h acc _ _ hf; omega
  | succ fuel ih =>
    intro h acc hp hge hf
    simp only [popSame]
    cases hpop : heapPop h with
    | none =>
      have : h = [] := heapPop_eq_none.mp hpop
      subst this
      exact ⟨[], [], by simp, by simp, by simp [IdxLt], by simp⟩
    | some p =>
      obtain ⟨m, h1⟩ := p
      obtain ⟨hmem, herase, hperm, hp1, hidx, hmin, hsame⟩ := heapPop_spec hp hpop
      simp only []
      by_cases hk : m.key = k
      · simp only [hk, if_true]
        have hlen : h1.length + 1 = h.length := by
          have := hperm.length_eq; simp only [List.length_cons] at this; omega
        have hge1 : ∀ x ∈ h1, ¬ x.key < k := fun x hx =>
          hge x (hperm.symm.subset (List.mem_cons_of_mem _ hx))
        obtain ⟨S1, h', heq, hS, hlt, hh'⟩ := ih h1 (m :: acc) hp1 hge1 (by omega)
        refine ⟨m :: S1, h', ?_, ?_, ?_, ?_⟩
        · rw [heq]; simp
        · have := (hperm.filter (fun x => decide (x.key = k)))
          refine List.Perm.trans ?_ this.symm
          simp only [List.filter_cons, hk, decide_true, if_true]
          exact List.Perm.cons _ hS
        · refine List.pairwise_cons.mpr ⟨?_, hlt⟩
          intro x hx
          have hx' := List.mem_filter.mp (hS.subset hx)
          have hxk : x.key = k := by simpa using hx'.2
          exact hsame x hx'.1 (hxk.trans hk.symm)
        · have := (hperm.filter (fun x => decide (x.key ≠ k)))
          refine List.Perm.trans hh' ?_
          refine List.Perm.trans ?_ this.symm
          simp [hk]
      · simp only [hk, if_false]
        have hall : ∀ x ∈ h, x.key ≠ k := by
          intro x hx e
          have h1 : ¬ x.key < m.key := hmin x hx
          have h2 : ¬ m.key < k := hge m hmem
          rw [e] at h1
          exact hk (by grind)
        refine ⟨[], h, by simp, ?_, by simp [IdxLt], ?_⟩
        · rw [List.filter_eq_nil_iff.mpr]
          intro x hx; simpa using hall x hx
        · rw [List.filter_eq_self.mpr]
          intro x hx; simpa using hall x hx

/-- One round of pops on a heap: the first pop and the `popSame` loop together return all heads
    carrying the least key, in increasing index order. -/
theorem heap_round {h h1 : List MSrc} {first : MSrc} (hp : IdxNe h)
    (hpop : heapPop h = some (first, h1)) :
    ∃ S h2, popSame first.key (h1.length + 1) h1 [] = (S, h2) ∧
      (first :: S).Perm (h.filter (fun x => decide (x.key = first.key))) ∧
      IdxLt (first :: S) ∧
      h2.Perm (h.filter (fun x => decide (x.key ≠ first.key))) ∧
      first ∈ h ∧ ∀ x ∈ h, ¬ x.key < first.key := by
  obtain ⟨hmem, _, hperm, hp1, _, hmin, hsame⟩ := heapPop_spec hp hpop
  have hge1 : ∀ x ∈ h1, ¬ x.key < first.key := fun x hx =>
    hmin x (hperm.symm.subset (List.mem_cons_of_mem _ hx))
  obtain ⟨S, h2, heq, hS, hlt, hh2⟩ := popSame_spec first.key (h1.length + 1) h1 [] hp1 hge1
    (Nat.le_refl _)
  refine ⟨S, h2, by simpa using heq, ?_, ?_, ?_, hmem, hmin⟩
  · have := (hperm.filter (fun x => decide (x.key = first.key)))
    refine List.Perm.trans ?_ this.symm
    simp only [List.filter_cons, decide_true, if_true]
    exact List.Perm.cons _ hS
  · refine List.pairwise_cons.mpr ⟨?_, hlt⟩
    intro x hx
    have hx' := List.mem_filter.mp (hS.subset hx)
    exact hsame x hx'.1 (by simpa using hx'.2)
  · have := (hperm.filter (fun x => decide (x.key ≠ first.key)))
    refine List.Perm.trans hh2 ?_
    refine List.Perm.trans ?_ this.symm
    simp

end Grenad
