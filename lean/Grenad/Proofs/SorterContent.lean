/-
  Grenad.Proofs.SorterContent — content of a sorter chunk, independent of when it was produced:
  `mergeGroups` over a key-sorted list is grouping, the stable sort keeps each key's value order,
  and merging grouped-and-merged chunks is grouping the concatenation (under `MergeLaw`).
-/
import Grenad.Proofs.MergeProofs
import Grenad.Model.Sorter

namespace Grenad

/-- A merge function that never fails. -/
abbrev tot (mf' : Bytes → List Bytes → Bytes) : MergeFn := fun k vs => some (mf' k vs)

/-- Group and merge: the content of a chunk holding the pairs `S`. -/
def G (mf' : Bytes → List Bytes → Bytes) (S : List Entry) : List Entry :=
  (Spec.group S).map (fun (k, vs) => (k, mf' k vs))

theorem mergeSpec_eq_G (mf' : Bytes → List Bytes → Bytes) (ss : List (List Entry)) :
    Spec.mergeSpec mf' ss = G mf' ss.flatten := rfl

/-- The law a merge function must obey for the sorter's content to be independent of spills. -/
def MergeLaw (mf' : Bytes → List Bytes → Bytes) : Prop :=
  (∀ k v, mf' k [v] = v) ∧
  (∀ k (gs : List (List Bytes)), (∀ g ∈ gs, g ≠ []) → mf' k (gs.map (mf' k)) = mf' k gs.flatten)

/-- Sorted by key (not strictly). -/
def KeySorted (l : List Entry) : Prop := l.Pairwise (fun a b => a.1 ≤ b.1)

/-! ### `G` -/

theorem G_asc (mf' : Bytes → List Bytes → Bytes) (S : List Entry) : StrictAsc (G mf' S) := by
  unfold G StrictAsc
  rw [List.pairwise_map]
  exact gasc_group S

theorem mem_G (mf' : Bytes → List Bytes → Bytes) (S : List Entry) (k v : Bytes) :
    (k, v) ∈ G mf' S ↔ valsOf k S ≠ [] ∧ v = mf' k (valsOf k S) := by
  unfold G
  simp only [List.mem_map, Prod.mk.injEq]
  constructor
  · rintro ⟨⟨k', vs⟩, hm, rfl, rfl⟩
    have := (mem_group S k' vs).mp hm
    rw [← this.1]; exact ⟨this.2, rfl⟩
  · rintro ⟨hne, rfl⟩
    exact ⟨(k, valsOf k S), (mem_group S k _).mpr ⟨rfl, hne⟩, rfl, rfl⟩

theorem G_keys (mf' : Bytes → List Bytes → Bytes) (S : List Entry) (k : Bytes) :
    k ∈ (G mf' S).map (·.1) ↔ k ∈ S.map (·.1) := by
  rw [← mem_group_keys S k]
  have : (G mf' S).map (·.1) = (Spec.group S).map (·.1) := by
    simp [G, List.map_map, Function.comp_def]
  rw [this]

/-- `G` only depends on each key's value list. -/
theorem G_congr (mf' : Bytes → List Bytes → Bytes) {S S' : List Entry}
    (h : ∀ k, valsOf k S = valsOf k S') : G mf' S = G mf' S' := by
  have : Spec.group S = Spec.group S' := by
    apply eq_group_of_mem (gasc_group S)
    intro k vs
    rw [mem_group, h k]
  unfold G; rw [this]

theorem valsOf_G (mf' : Bytes → List Bytes → Bytes) (S : List Entry) (k : Bytes) :
    valsOf k (G mf' S) = if valsOf k S = [] then [] else [mf' k (valsOf k S)] := by
  split
  · rename_i h
    rw [valsOf_eq_nil]
    intro e he hk
    obtain ⟨k', v⟩ := e
    simp only at hk; subst hk
    exact ((mem_G mf' S k' v).mp he).1 h
  · rename_i h
    exact valsOf_of_mem_asc (G_asc mf' S) ((mem_G mf' S k _).mpr ⟨h, rfl⟩)

/-- Non-empty value lists of key `k`, one per part that has the key. -/
def partVals (k : Bytes) : List (List Entry) → List (List Bytes)
  | [] => []
  | S :: r => if valsOf k S = [] then partVals k r else valsOf k S :: partVals k r

theorem partVals_ne_nil (k : Bytes) (parts : List (List Entry)) :
    ∀ g ∈ partVals k parts, g ≠ [] := by
  induction parts with
  | nil => intro g hg; cases hg
  | cons S r ih =>
    intro g hg
    simp only [partVals] at hg
    split at hg
    · exact ih g hg
    · rcases List.mem_cons.mp hg with h | h
      · rw [h]; assumption
      · exact ih g h

theorem partVals_flatten (k : Bytes) (parts : List (List Entry)) :
    (partVals k parts).flatten = valsOf k parts.flatten := by
  induction parts with
  | nil => rfl
  | cons S r ih =>
    simp only [partVals, List.flatten_cons, valsOf_append]
    by_cases h : valsOf k S = []
    · simp [h, ih]
    · simp [h, ih]

theorem valsOf_G_parts (mf' : Bytes → List Bytes → Bytes) (k : Bytes) (parts : List (List Entry)) :
    valsOf k (parts.map (G mf')).flatten = (partVals k parts).map (mf' k) := by
  induction parts with
  | nil => rfl
  | cons S r ih =>
    simp only [partVals, List.map_cons, List.flatten_cons, valsOf_append]
    rw [ih, valsOf_G]
    by_cases h : valsOf k S = []
    · simp [h]
    · simp [h]

/-- Merging chunks that are themselves grouped-and-merged equals grouping the concatenation. -/
theorem G_flatten_law (mf' : Bytes → List Bytes → Bytes) (law : MergeLaw mf')
    (parts : List (List Entry)) :
    G mf' (parts.map (G mf')).flatten = G mf' parts.flatten := by
  apply keyAsc_ext (G_asc mf' _) (G_asc mf' _)
  rintro ⟨k, v⟩
  rw [mem_G, mem_G, valsOf_G_parts, ← partVals_flatten]
  have hne : ∀ g ∈ partVals k parts, g ≠ [] := partVals_ne_nil k parts
  rw [law.2 k _ hne]
  have : (partVals k parts).map (mf' k) ≠ [] ↔ (partVals k parts).flatten ≠ [] := by
    cases hp : partVals k parts with
    | nil => simp
    | cons g r =>
      have : g ≠ [] := hne g (by rw [hp]; exact List.mem_cons_self)
      simp [this]
  rw [this]

/-! ### `mergeGroups` -/

/-- The groups `mergeGroups` forms: maximal runs of equal keys, starting from the open group. -/
def runs : List Entry → Option (Bytes × List Bytes) → Groups
  | [], none => []
  | [], some g => [g]
  | (k, v) :: r, none => runs r (some (k, [v]))
  | (k, v) :: r, some (ck, vs) =>
    if ck = k then runs r (some (ck, vs ++ [v])) else (ck, vs) :: runs r (some (k, [v]))

theorem mergeGroups_tot (mf' : Bytes → List Bytes → Bytes) : ∀ (l : List Entry)
    (cur : Option (Bytes × List Bytes)) (out : List Entry) (calls : Groups),
    Sorter.mergeGroups (tot mf') l cur out calls =
      some (out.reverse ++ (runs l cur).map (fun (k, vs) => (k, mf' k vs)),
            calls.reverse ++ runs l cur) := by
  intro l
  induction l with
  | nil =>
    intro cur out calls
    cases cur with
    | none => simp [Sorter.mergeGroups, runs]
    | some g => obtain ⟨k, vs⟩ := g; simp [Sorter.mergeGroups, runs]
  | cons e r ih =>
    intro cur out calls
    obtain ⟨k, v⟩ := e
    cases cur with
    | none => simp only [Sorter.mergeGroups, runs]; exact ih _ _ _
    | some g =>
      obtain ⟨ck, vs⟩ := g
      simp only [Sorter.mergeGroups, runs]
      by_cases h : ck = k
      · simp only [h, if_true]; exact ih _ _ _
      · simp only [h, if_false]
        rw [ih]
        simp

/-- Grouping a list whose head carries a least key. -/
theorem group_cons_min {k v : Bytes} {r : List Entry} (hr : ∀ e ∈ r, k ≤ e.1) :
    Spec.group ((k, v) :: r) =
      (k, [v] ++ valsOf k r) :: Spec.group (r.filter (fun e => decide (e.1 ≠ k))) := by
  have h := group_min (l := (k, v) :: r) (k := k)
    (by
      intro e he
      rcases List.mem_cons.mp he with h | h
      · rw [h]; exact blt_irrefl _
      · have := hr e h; grind)
    ⟨(k, v), List.mem_cons_self, rfl⟩
  rw [h, valsOf_cons]
  simp

theorem runs_some {l : List Entry} (hs : KeySorted l) : ∀ (ck : Bytes) (vs : List Bytes),
    (∀ e ∈ l, ck ≤ e.1) →
    runs l (some (ck, vs)) =
      (ck, vs ++ valsOf ck l) :: Spec.group (l.filter (fun e => decide (e.1 ≠ ck))) := by
  induction l with
  | nil => intro ck vs _; simp [runs]
  | cons e r ih =>
    intro ck vs hge
    obtain ⟨k, v⟩ := e
    have hs' := List.pairwise_cons.mp hs
    have hr : ∀ e ∈ r, k ≤ e.1 := fun e he => hs'.1 e he
    simp only [runs]
    by_cases h : ck = k
    · subst h
      simp only [if_true]
      rw [ih hs'.2 ck (vs ++ [v]) hr, valsOf_cons]
      simp
    · simp only [h, if_false]
      have hlt : ck < k := by
        have := hge (k, v) List.mem_cons_self
        simp only at this
        grind
      have hnil : valsOf ck ((k, v) :: r) = [] := by
        rw [valsOf_eq_nil]
        intro e he
        have h1 : k ≤ e.1 := by
          rcases List.mem_cons.mp he with h | h
          · rw [h]; exact List.le_refl _
          · exact hr e h
        grind
      have hfil : ((k, v) :: r).filter (fun e => decide (e.1 ≠ ck)) = (k, v) :: r := by
        rw [List.filter_eq_self]
        intro e he
        have := valsOf_eq_nil.mp hnil e he
        simpa using this
      rw [hnil, hfil, ih hs'.2 k [v] hr, List.append_nil, group_cons_min hr]

/-- Over a key-sorted list, `mergeGroups` forms exactly the groups of `Spec.group`. -/
theorem runs_none {l : List Entry} (hs : KeySorted l) : runs l none = Spec.group l := by
  cases l with
  | nil => rfl
  | cons e r =>
    obtain ⟨k, v⟩ := e
    have hs' := List.pairwise_cons.mp hs
    have hr : ∀ e ∈ r, k ≤ e.1 := fun e he => hs'.1 e he
    simp only [runs]
    rw [runs_some hs'.2 k [v] hr, group_cons_min hr]

/-- `mergeGroups` with a never-failing merge function over a key-sorted list. -/
theorem mergeGroups_sorted (mf' : Bytes → List Bytes → Bytes) {l : List Entry} (hs : KeySorted l) :
    Sorter.mergeGroups (tot mf') l none [] [] = some (G mf' l, Spec.group l) := by
  rw [mergeGroups_tot, runs_none hs]
  simp [G]

/-! ### The stable sort -/

theorem keyLe_trans (a b c : Entry) :
    decide (a.1 ≤ b.1) = true → decide (b.1 ≤ c.1) = true → decide (a.1 ≤ c.1) = true := by
  simp only [decide_eq_true_eq]; intro h1 h2; exact List.le_trans h1 h2

theorem keyLe_total (a b : Entry) : (decide (a.1 ≤ b.1) || decide (b.1 ≤ a.1)) = true := by
  simp only [Bool.or_eq_true, decide_eq_true_eq]; exact List.le_total _ _

theorem sortStable_perm (l : List Entry) : (Sorter.sortStable l).Perm l :=
  List.mergeSort_perm l _

theorem sortStable_sorted (l : List Entry) : KeySorted (Sorter.sortStable l) := by
  have := List.pairwise_mergeSort keyLe_trans keyLe_total l
  exact List.Pairwise.imp (fun h => of_decide_eq_true h) this

/-- Stability: each key's values keep their insertion order. -/
theorem valsOf_sortStable (k : Bytes) (l : List Entry) :
    valsOf k (Sorter.sortStable l) = valsOf k l := by
  unfold valsOf
  congr 1
  let p : Entry → Bool := fun e => decide (e.1 = k)
  have hsub : List.Sublist (l.filter p) (Sorter.sortStable l) := by
    apply List.sublist_mergeSort keyLe_trans keyLe_total
    · apply List.Pairwise.imp_of_mem (R := fun _ _ => True)
      · intro a b ha hb _
        have ha' : a.1 = k := by simpa [p] using (List.mem_filter.mp ha).2
        have hb' : b.1 = k := by simpa [p] using (List.mem_filter.mp hb).2
        simp only [decide_eq_true_eq]
        rw [ha', hb']; exact List.le_refl _
      · exact List.pairwise_of_forall (fun _ _ => trivial)
    · exact List.filter_sublist
  have hsub' : List.Sublist (l.filter p) ((Sorter.sortStable l).filter p) := by
    have := hsub.filter p
    simpa only [List.filter_filter, Bool.and_self] using this
  have hlen : (l.filter p).length = ((Sorter.sortStable l).filter p).length :=
    ((sortStable_perm l).filter p).length_eq.symm
  exact (hsub'.eq_of_length hlen).symm

end Grenad
