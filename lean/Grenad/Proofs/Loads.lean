/-
  Grenad.Proofs.Loads — number of block loads per reader-cursor operation (T-loads, for C16).

  Purely structural: nothing is assumed of the in-block cursor operations `ops`, of the loader
  `load`, or of the file.  The only hypothesis is the shape invariant `Shape` (when the index
  cursor is initialised it holds exactly `levels + 1` per-level cursors), which holds of `RC.new`
  and is preserved by every operation.
-/
import Grenad.Model.Reader

namespace Grenad

variable {β : Type}

/-! ### Log extension -/

/-- `log'` is `log` with at most `n` newly loaded offsets pushed in front. -/
def LogExt (log log' : List Nat) (n : Nat) : Prop :=
  ∃ pre : List Nat, log' = pre ++ log ∧ pre.length ≤ n

theorem LogExt.refl (log : List Nat) (n : Nat) : LogExt log log n :=
  ⟨[], rfl, Nat.zero_le _⟩

theorem LogExt.trans {a b c : List Nat} {n m : Nat}
    (h1 : LogExt a b n) (h2 : LogExt b c m) : LogExt a c (n + m) := by
  obtain ⟨p, rfl, hp⟩ := h1
  obtain ⟨q, rfl, hq⟩ := h2
  exact ⟨q ++ p, by simp, by simp; omega⟩

theorem LogExt.mono {a b : List Nat} {n m : Nat} (h : LogExt a b n) (hnm : n ≤ m) :
    LogExt a b m := by
  obtain ⟨p, rfl, hp⟩ := h
  exact ⟨p, rfl, by omega⟩

theorem LogExt.cons {a b : List Nat} {x n : Nat} (h : LogExt (x :: a) b n) :
    LogExt a b (n + 1) := by
  obtain ⟨p, rfl, hp⟩ := h
  exact ⟨p ++ [x], by simp, by simp; omega⟩

theorem LogExt.one (x : Nat) (a : List Nat) : LogExt a (x :: a) 1 :=
  ⟨[x], rfl, by simp⟩

theorem LogExt.length_le {a b : List Nat} {n : Nat} (h : LogExt a b n) :
    a.length ≤ b.length ∧ b.length - a.length ≤ n := by
  obtain ⟨p, rfl, hp⟩ := h
  simp; omega

/-! ### The three loops -/

/-- `initial_index_blocks` performs at most one load per remaining level, and on success returns
    exactly one cursor per level. -/
theorem initialIndex_spec (ops : BlockOps β) (load : Nat → Option β) (mov : Mov) :
    ∀ (d jump : Nat) (acc : List (Nat × β)) (log : List Nat)
      (r : Option (List (Nat × β))) (log' : List Nat),
      RC.initialIndex ops load mov d jump acc log = some (r, log') →
      LogExt log log' d ∧ ∀ l, r = some l → l.length = acc.length + d := by
  intro d
  induction d with
  | zero =>
    intro jump acc log r log' h
    simp only [RC.initialIndex, Option.some.injEq, Prod.mk.injEq] at h
    obtain ⟨rfl, rfl⟩ := h
    exact ⟨LogExt.refl _ _, by intro l hl; cases hl; simp⟩
  | succ d ih =>
    intro jump acc log r log' h
    simp only [RC.initialIndex] at h
    split at h
    · cases h
    · rename_i c hc
      split at h
      · rename_i e he
        obtain ⟨h1, h2⟩ := ih _ _ _ _ _ h
        refine ⟨h1.cons, ?_⟩
        intro l hl
        have := h2 l hl
        simp at this; omega
      · simp only [Option.some.injEq, Prod.mk.injEq] at h
        obtain ⟨rfl, rfl⟩ := h
        exact ⟨(LogExt.one _ _).mono (by omega), by intro l hl; cases hl⟩

/-- The `for` loop of `iter_index_blocks` performs at most one load per level and keeps the
    number of levels. -/
theorem iterLevels_spec (ops : BlockOps β) (load : Nat → Option β) (mov : Mov) :
    ∀ (inner : List (Nat × β)) (jump : Nat) (log : List Nat)
      (inner' : List (Nat × β)) (done : Bool) (log' : List Nat),
      RC.iterLevels ops load mov jump inner log = some (inner', done, log') →
      LogExt log log' inner.length ∧ inner'.length = inner.length := by
  intro inner
  induction inner with
  | nil =>
    intro jump log inner' done log' h
    simp only [RC.iterLevels, Option.some.injEq, Prod.mk.injEq] at h
    obtain ⟨rfl, -, rfl⟩ := h
    exact ⟨LogExt.refl _ _, rfl⟩
  | cons x rest ih =>
    intro jump log inner' done log' h
    obtain ⟨off, c⟩ := x
    simp only [RC.iterLevels] at h
    split at h
    · cases h
    · rename_i off1 c1 log1 hre
      have hlog1 : LogExt log log1 1 := by
        split at hre
        · cases hl : load jump with
          | none => simp [hl] at hre
          | some c' =>
            simp only [hl, Option.map_some, Option.some.injEq, Prod.mk.injEq] at hre
            obtain ⟨-, -, rfl⟩ := hre
            exact LogExt.one _ _
        · simp only [Option.some.injEq, Prod.mk.injEq] at hre
          obtain ⟨-, -, rfl⟩ := hre
          exact LogExt.refl _ _
      split at h
      · split at h
        · cases h
        · rename_i rest' done' log2 hrec
          simp only [Option.some.injEq, Prod.mk.injEq] at h
          obtain ⟨rfl, -, rfl⟩ := h
          obtain ⟨h1, h2⟩ := ih _ _ _ _ _ hrec
          refine ⟨(hlog1.trans h1).mono (by simp; omega), by simp [h2]⟩
      · simp only [Option.some.injEq, Prod.mk.injEq] at h
        obtain ⟨rfl, -, rfl⟩ := h
        exact ⟨hlog1.mono (by simp), by simp⟩

/-- The recursion of `recursive_index_block` reloads at most every level but the root, and keeps
    the number of levels. -/
theorem recurLevels_spec (ops : BlockOps β) (load : Nat → Option β) (fixF1 : Bool) (mov : Mov) :
    ∀ (l : List (Nat × β)) (log : List Nat)
      (l' : List (Nat × β)) (r : Option Entry) (log' : List Nat),
      RC.recurLevels ops load fixF1 mov l log = some (l', r, log') →
      LogExt log log' (l.length - 1) ∧ l'.length = l.length := by
  intro l
  induction l with
  | nil =>
    intro log l' r log' h
    simp only [RC.recurLevels, Option.some.injEq, Prod.mk.injEq] at h
    obtain ⟨rfl, -, rfl⟩ := h
    exact ⟨LogExt.refl _ _, rfl⟩
  | cons x parents ih =>
    intro log l' r log' h
    obtain ⟨off, c⟩ := x
    simp only [RC.recurLevels] at h
    split at h
    · simp only [Option.some.injEq, Prod.mk.injEq] at h
      obtain ⟨rfl, -, rfl⟩ := h
      exact ⟨LogExt.refl _ _, by simp⟩
    · split at h
      · cases h
      · rename_i parents' e log1 hrec
        split at h
        · cases h
        · simp only [Option.some.injEq, Prod.mk.injEq] at h
          obtain ⟨rfl, -, rfl⟩ := h
          obtain ⟨h1, h2⟩ := ih _ _ _ _ hrec
          cases parents with
          | nil =>
            simp [RC.recurLevels] at hrec
          | cons p ps =>
            refine ⟨(h1.trans (LogExt.one _ _)).mono (by simp), by simp [h2]⟩
      · rename_i parents' log1 hrec
        simp only [Option.some.injEq, Prod.mk.injEq] at h
        obtain ⟨rfl, -, rfl⟩ := h
        obtain ⟨h1, h2⟩ := ih _ _ _ _ hrec
        exact ⟨h1.mono (by simp), by simp [h2]⟩

/-! ### Invariants of the reader cursor state -/

/-- Shape invariant: an initialised index cursor holds exactly one in-block cursor per index
    level (`index_levels + 1` of them, root first). -/
def Shape (c : RC β) : Prop := ∀ l, c.inner = some l → l.length = c.levels + 1

/-- Reachable-state condition: a data block is entered only through an initialised index
    cursor.  Not needed for the uniform bound `2 * (levels + 2)`; it sharpens the bound of
    `next`/`prev` from `2 * levels + 2` to `levels + 2`. -/
def Reach (c : RC β) : Prop := c.cur.isSome → c.inner.isSome

/-- `c'` is `c` after at most `n` block loads: same base offset, same number of index levels,
    and the load log of `c'` is that of `c` with at most `n` offsets pushed in front. -/
structure Ext (c c' : RC β) (n : Nat) : Prop where
  base : c'.base = c.base
  levels : c'.levels = c.levels
  log : LogExt c.log c'.log n

theorem Ext.refl (c : RC β) (n : Nat) : Ext c c n := ⟨rfl, rfl, LogExt.refl _ _⟩

theorem Ext.trans {a b c : RC β} {n m : Nat} (h1 : Ext a b n) (h2 : Ext b c m) :
    Ext a c (n + m) :=
  ⟨h2.base.trans h1.base, h2.levels.trans h1.levels, h1.log.trans h2.log⟩

theorem Ext.mono {a b : RC β} {n m : Nat} (h : Ext a b n) (hnm : n ≤ m) : Ext a b m :=
  ⟨h.base, h.levels, h.log.mono hnm⟩

theorem Shape.of_eq {c c' : RC β} (hs : Shape c) (hi : c'.inner = c.inner)
    (hl : c'.levels = c.levels) : Shape c' := by
  intro l h; rw [hl]; exact hs l (hi ▸ h)

theorem shape_new (m : Meta.Meta) : Shape (RC.new m : RC β) := by
  intro l h; simp [RC.new] at h

theorem reach_new (m : Meta.Meta) : Reach (RC.new m : RC β) := by
  intro h; simp [RC.new] at h

/-! ### Index-cursor moves -/

/-- `iter_index_blocks`: at most `levels + 1` loads. -/
theorem iterIndex_spec (ops : BlockOps β) (load : Nat → Option β) (mov : Mov)
    (c c' : RC β) (r : Option Entry)
    (h : RC.iterIndex ops load mov c = some (c', r)) (hs : Shape c) :
    Ext c c' (c.levels + 1) ∧ Shape c' ∧ c'.cur = c.cur ∧
      (r.isSome → c'.inner.isSome) ∧ (c.inner.isSome → c'.inner.isSome) := by
  unfold RC.iterIndex at h
  split at h
  · rename_i inner hin
    split at h
    · cases h
    · rename_i inner' done log' hit
      obtain ⟨h1, h2⟩ := iterLevels_spec ops load mov _ _ _ _ _ _ hit
      have hlen := hs inner hin
      have key : ∀ r', some (({ c with inner := some inner', log := log' } : RC β), r')
          = some (c', r) → Ext c c' (c.levels + 1) ∧ Shape c' ∧ c'.cur = c.cur ∧
            (r.isSome → c'.inner.isSome) ∧ (c.inner.isSome → c'.inner.isSome) := by
        intro r' h
        simp only [Option.some.injEq, Prod.mk.injEq] at h
        obtain ⟨rfl, -⟩ := h
        refine ⟨⟨rfl, rfl, hlen ▸ h1⟩, ?_, rfl, by simp, by simp⟩
        intro l hl
        simp only [Option.some.injEq] at hl
        subst hl
        simp only [h2, hlen]
      split at h
      · exact key _ h
      · exact key _ h
  · rename_i hin
    split at h
    · cases h
    · rename_i inner log' hinit
      obtain ⟨h1, h2⟩ := initialIndex_spec ops load mov _ _ _ _ _ _ hinit
      simp only [Option.some.injEq, Prod.mk.injEq] at h
      obtain ⟨rfl, rfl⟩ := h
      refine ⟨⟨rfl, rfl, h1⟩, ?_, rfl, ?_, by simp [hin]⟩
      · intro l hl
        simpa using h2 l hl
      · cases inner <;> simp

/-- `recursive_index_block`: at most `levels` loads from an initialised index cursor,
    at most `(levels + 1) + levels` otherwise. -/
theorem recurIndex_spec (ops : BlockOps β) (load : Nat → Option β) (fixF1 : Bool) (mov : Mov)
    (c c' : RC β) (r : Option Entry)
    (h : RC.recurIndex ops load fixF1 mov c = some (c', r)) (hs : Shape c) :
    Ext c c' (2 * c.levels + 1) ∧ Shape c' ∧ c'.cur = c.cur ∧
      (c.inner.isSome → Ext c c' c.levels ∧ c'.inner.isSome) := by
  unfold RC.recurIndex at h
  -- second phase, from a state `c1` obtained after `n` loads
  have phase2 : ∀ (c1 : RC β) (n : Nat), Ext c c1 n → Shape c1 → c1.cur = c.cur →
      (match c1.inner with
        | none => some (c1, none)
        | some inner =>
          match RC.recurLevels ops load fixF1 mov inner.reverse c1.log with
          | none => none
          | some (rev', r, log) =>
            some (({ c1 with inner := some rev'.reverse, log := log } : RC β), r)) = some (c', r) →
      Ext c c' (n + c.levels) ∧ Shape c' ∧ c'.cur = c.cur ∧ (c1.inner.isSome → c'.inner.isSome) := by
    intro c1 n hext hs1 hcur h
    split at h
    · rename_i hin
      simp only [Option.some.injEq, Prod.mk.injEq] at h
      obtain ⟨rfl, -⟩ := h
      exact ⟨hext.mono (by omega), hs1, hcur, by simp [hin]⟩
    · rename_i inner hin
      split at h
      · cases h
      · rename_i rev' r' log' hrec
        obtain ⟨h1, h2⟩ := recurLevels_spec ops load fixF1 mov _ _ _ _ _ hrec
        simp only [Option.some.injEq, Prod.mk.injEq] at h
        obtain ⟨rfl, -⟩ := h
        have hlen := hs1 inner hin
        refine ⟨hext.trans ⟨rfl, rfl, h1.mono ?_⟩, ?_, hcur, by simp⟩
        · simp [hlen, hext.levels]
        · intro l hl
          simp only [Option.some.injEq] at hl
          subst hl
          simp [h2, hlen]
  cases hin : c.inner with
  | some inner0 =>
    simp only [hin] at h
    obtain ⟨a, b, d, e⟩ := phase2 c 0 (Ext.refl _ _) hs rfl (by simp only [hin]; exact h)
    refine ⟨a.mono (by omega), b, d, fun _ => ⟨?_, e (by simp [hin])⟩⟩
    simpa using a
  | none =>
    simp only [hin] at h
    split at h
    · cases h
    · rename_i c1 hc1
      split at hc1
      · cases hc1
      · rename_i inner log' hinit
        obtain ⟨h1, h2⟩ := initialIndex_spec ops load mov _ _ _ _ _ _ hinit
        simp only [Option.some.injEq] at hc1
        subst hc1
        have hs1 : Shape ({ c with inner := inner, log := log' } : RC β) := by
          intro l hl; simpa using h2 l hl
        obtain ⟨a, b, d, -⟩ := phase2 { c with inner := inner, log := log' } (c.levels + 1)
          ⟨rfl, rfl, h1⟩ hs1 rfl h
        exact ⟨a.mono (by omega), b, d, by simp⟩

/-- Entering a data block is exactly one load. -/
theorem enter_spec (load : Nat → Option β) (c c' : RC β) (e : Entry) (b : β)
    (h : RC.enter load c e = some (c', b)) :
    Ext c c' 1 ∧ c'.inner = c.inner ∧ c'.cur = c.cur ∧ c'.log = offOf e :: c.log := by
  unfold RC.enter at h
  split at h
  · cases h
  · simp only [Option.some.injEq, Prod.mk.injEq] at h
    obtain ⟨rfl, -⟩ := h
    exact ⟨⟨rfl, rfl, LogExt.one _ _⟩, rfl, rfl, rfl⟩

/-! ### Public operations -/

/-- What every public operation guarantees of its final state: at most `n` loads, base and
    levels unchanged, both invariants preserved. -/
structure Post (c c' : RC β) (n : Nat) : Prop where
  ext : Ext c c' n
  shape : Shape c'
  reach : Reach c → Reach c'

theorem Post.refl {c : RC β} (hs : Shape c) (n : Nat) : Post c c n := ⟨Ext.refl _ _, hs, id⟩

theorem Post.mono {c c' : RC β} {n m : Nat} (h : Post c c' n) (hnm : n ≤ m) : Post c c' m :=
  ⟨h.ext.mono hnm, h.shape, h.reach⟩

theorem Post.trans {a b c : RC β} {n m : Nat} (h1 : Post a b n) (h2 : Post b c m) :
    Post a c (n + m) :=
  ⟨h1.ext.trans h2.ext, h2.shape, fun h => h2.reach (h1.reach h)⟩

/-- After the index move (whatever it returned). -/
theorem abs_index (ops : BlockOps β) (load : Nat → Option β) (mov : Mov)
    (c c1 : RC β) (r : Option Entry) (hs : Shape c)
    (hi : RC.iterIndex ops load mov c = some (c1, r)) : Post c c1 (c.levels + 1) := by
  obtain ⟨a, b, d, -, e⟩ := iterIndex_spec ops load mov c c1 r hi hs
  exact ⟨a, b, fun hr hc => e (hr (d ▸ hc))⟩

/-- After the index move answered `None` and the data cursor was dropped. -/
theorem abs_none (ops : BlockOps β) (load : Nat → Option β) (mov : Mov)
    (c c1 : RC β) (r : Option Entry) (hs : Shape c)
    (hi : RC.iterIndex ops load mov c = some (c1, r)) :
    Post c { c1 with cur := none } (c.levels + 1) := by
  obtain ⟨a, b, -, -, -⟩ := iterIndex_spec ops load mov c c1 r hi hs
  exact ⟨⟨a.base, a.levels, a.log⟩, b.of_eq rfl rfl, fun _ hc => by simp at hc⟩

/-- After the index move answered an entry and the data block it points to was entered. -/
theorem abs_enter (ops : BlockOps β) (load : Nat → Option β) (mov : Mov)
    (c c1 c2 : RC β) (e : Entry) (b b' : β) (hs : Shape c)
    (hi : RC.iterIndex ops load mov c = some (c1, some e))
    (he : RC.enter load c1 e = some (c2, b)) :
    Post c (RC.withCur c2 b') (c.levels + 2) ∧ (RC.withCur c2 b').inner.isSome ∧
      (RC.withCur c2 b').cur.isSome := by
  obtain ⟨a, sh, -, hsome, -⟩ := iterIndex_spec ops load mov c c1 _ hi hs
  obtain ⟨a2, hin, -, -⟩ := enter_spec load c1 c2 e b he
  have hext : Ext c (RC.withCur c2 b') (c.levels + 2) := by
    have := a.trans a2
    exact ⟨this.base, this.levels, this.log⟩
  have hinner : (RC.withCur c2 b').inner.isSome := by
    simp only [RC.withCur, hin]; exact hsome rfl
  exact ⟨⟨hext, (sh.of_eq hin a2.levels).of_eq rfl rfl, fun _ _ => hinner⟩, hinner, rfl⟩

/-- `move_on_first`: at most `levels + 2` loads. -/
theorem first_spec (ops : BlockOps β) (load : Nat → Option β) (c : RC β) (hs : Shape c) :
    Post c (c.first ops load).1 (c.levels + 2) := by
  unfold RC.first
  split
  · exact Post.refl hs _
  · rename_i c1 e hi
    split
    · exact (abs_index ops load _ c c1 _ hs hi).mono (by omega)
    · rename_i c2 b he
      exact (abs_enter ops load _ c c1 c2 e b _ hs hi he).1
  · rename_i c1 hi
    exact (abs_none ops load _ c c1 _ hs hi).mono (by omega)

/-- `move_on_last`: at most `levels + 2` loads. -/
theorem last_spec (ops : BlockOps β) (load : Nat → Option β) (c : RC β) (hs : Shape c) :
    Post c (c.last ops load).1 (c.levels + 2) := by
  unfold RC.last
  split
  · exact Post.refl hs _
  · rename_i c1 e hi
    split
    · exact (abs_index ops load _ c c1 _ hs hi).mono (by omega)
    · rename_i c2 b he
      exact (abs_enter ops load _ c c1 c2 e b _ hs hi he).1
  · rename_i c1 hi
    exact (abs_none ops load _ c c1 _ hs hi).mono (by omega)

/-- `move_on_key_greater_than_or_equal_to`: at most `levels + 2` loads; when it answers an entry,
    the index cursor is initialised and a data block is held. -/
theorem ge_spec (ops : BlockOps β) (load : Nat → Option β) (q : Bytes) (c : RC β) (hs : Shape c) :
    Post c (c.ge ops load q).1 (c.levels + 2) ∧
      (∀ e, (c.ge ops load q).2 = .ok (some e) →
        (c.ge ops load q).1.inner.isSome ∧ (c.ge ops load q).1.cur.isSome) := by
  unfold RC.ge
  split
  · exact ⟨Post.refl hs _, by intro e h; cases h⟩
  · rename_i c1 e hi
    split
    · exact ⟨(abs_index ops load _ c c1 _ hs hi).mono (by omega), by intro e h; cases h⟩
    · rename_i c2 b he
      obtain ⟨h1, h2, h3⟩ := abs_enter ops load _ c c1 c2 e b (ops.ge b q).1 hs hi he
      exact ⟨h1, fun _ _ => ⟨h2, h3⟩⟩
  · rename_i c1 hi
    exact ⟨(abs_index ops load _ c c1 _ hs hi).mono (by omega), by intro e h; cases h⟩

/-- `move_on_key_equal_to`: at most `levels + 2` loads. -/
theorem eq_spec (ops : BlockOps β) (load : Nat → Option β) (q : Bytes) (c : RC β) (hs : Shape c) :
    Post c (c.eq ops load q).1 (c.levels + 2) := by
  have h := (ge_spec ops load q c hs).1
  unfold RC.eq
  split
  · rename_i c1 heq; rw [heq] at h; exact h
  · rename_i c1 r heq; rw [heq] at h; exact h

/-- Bounds of a relative move (`next`/`prev`): `2 * levels + 2` loads from any state satisfying
    `Shape`, `levels + 2` from a reachable state, `levels + 1` when a data block is held under an
    initialised index cursor. -/
structure RelPost (c c' : RC β) : Prop where
  post : Post c c' (2 * c.levels + 2)
  reach : Reach c → Ext c c' (c.levels + 2)
  held : c.inner.isSome → c.cur.isSome → Ext c c' (c.levels + 1)

theorem rel_stay (c : RC β) (b b' : β) (hs : Shape c) (hc : c.cur = some b) :
    RelPost c (RC.withCur c b') := by
  have hext : ∀ n, Ext c (RC.withCur c b') n := fun n => ⟨rfl, rfl, LogExt.refl _ _⟩
  exact ⟨⟨hext _, hs.of_eq rfl rfl, fun hr _ => hr (by simp [hc])⟩, fun _ => hext _,
    fun _ _ => hext _⟩

theorem rel_index (ops : BlockOps β) (load : Nat → Option β) (fixF1 : Bool) (mov : Mov)
    (c c1 : RC β) (b b' : β) (r : Option Entry) (hs : Shape c) (hc : c.cur = some b)
    (hi : RC.recurIndex ops load fixF1 mov (RC.withCur c b') = some (c1, r)) :
    Post c c1 (2 * c.levels + 1) ∧ (c.inner.isSome → Ext c c1 c.levels) := by
  have hs0 : Shape (RC.withCur c b') := hs.of_eq rfl rfl
  obtain ⟨a, sh, hcur, hin⟩ := recurIndex_spec ops load fixF1 mov _ c1 r hi hs0
  refine ⟨⟨⟨a.base, a.levels, a.log⟩, sh, fun hr _ => ?_⟩, fun h => ?_⟩
  · exact (hin (hr (by simp [hc]))).2
  · have := (hin h).1
    exact ⟨this.base, this.levels, this.log⟩

theorem rel_enter (ops : BlockOps β) (load : Nat → Option β) (fixF1 : Bool) (mov : Mov)
    (c c1 c2 : RC β) (b b' nb nb' : β) (e : Entry) (hs : Shape c) (hc : c.cur = some b)
    (hi : RC.recurIndex ops load fixF1 mov (RC.withCur c b') = some (c1, some e))
    (he : RC.enter load c1 e = some (c2, nb)) :
    Post c (RC.withCur c2 nb') (2 * c.levels + 2) ∧
      (c.inner.isSome → Ext c (RC.withCur c2 nb') (c.levels + 1)) := by
  obtain ⟨p1, h1⟩ := rel_index ops load fixF1 mov c c1 b b' _ hs hc hi
  obtain ⟨a2, hin, hcur, -⟩ := enter_spec load c1 c2 e nb he
  have e2 : Ext c1 (RC.withCur c2 nb') 1 := ⟨a2.base, a2.levels, a2.log⟩
  have hcur1 : c1.cur.isSome := by
    have := (recurIndex_spec ops load fixF1 mov _ c1 _ hi (hs.of_eq rfl rfl)).2.2.1
    simp [this, RC.withCur]
  refine ⟨⟨p1.ext.trans e2, (p1.shape.of_eq hin a2.levels).of_eq rfl rfl, fun hr _ => ?_⟩,
    fun h => (h1 h).trans e2⟩
  have := p1.reach hr hcur1
  simpa [RC.withCur, hin] using this

theorem RelPost.of_index {c c1 : RC β} (b : β) (hc : c.cur = some b)
    (h : Post c c1 (2 * c.levels + 1) ∧ (c.inner.isSome → Ext c c1 c.levels)) : RelPost c c1 :=
  ⟨h.1.mono (by omega), fun hr => (h.2 (hr (by simp [hc]))).mono (by omega),
    fun hi _ => (h.2 hi).mono (by omega)⟩

theorem RelPost.of_enter {c c1 : RC β} (b : β) (hc : c.cur = some b)
    (h : Post c c1 (2 * c.levels + 2) ∧ (c.inner.isSome → Ext c c1 (c.levels + 1))) :
    RelPost c c1 :=
  ⟨h.1, fun hr => (h.2 (hr (by simp [hc]))).mono (by omega), fun hi _ => h.2 hi⟩

theorem RelPost.of_abs {c c1 : RC β} (hc : c.cur = none) (h : Post c c1 (c.levels + 2)) :
    RelPost c c1 :=
  ⟨h.mono (by omega), fun _ => h.ext, fun _ h' => by simp [hc] at h'⟩

/-- `move_on_next`. -/
theorem next_spec (ops : BlockOps β) (load : Nat → Option β) (fixF1 : Bool) (c : RC β)
    (hs : Shape c) : RelPost c (c.next ops load fixF1).1 := by
  unfold RC.next
  split
  · rename_i b hc
    split
    · rename_i b' e hn
      exact rel_stay c b b' hs hc
    · rename_i b' hn
      simp only
      split
      · exact rel_stay c b b' hs hc
      · rename_i c1 e hi
        split
        · exact RelPost.of_index b hc (rel_index ops load fixF1 _ c c1 b b' _ hs hc hi)
        · rename_i c2 nb he
          exact RelPost.of_enter b hc (rel_enter ops load fixF1 _ c c1 c2 b b' nb _ e hs hc hi he)
      · rename_i c1 hi
        exact RelPost.of_index b hc (rel_index ops load fixF1 _ c c1 b b' _ hs hc hi)
  · rename_i hc
    exact RelPost.of_abs hc (first_spec ops load c hs)

/-- `move_on_prev`. -/
theorem prev_spec (ops : BlockOps β) (load : Nat → Option β) (fixF1 : Bool) (c : RC β)
    (hs : Shape c) : RelPost c (c.prev ops load fixF1).1 := by
  unfold RC.prev
  split
  · rename_i b hc
    split
    · rename_i b' e hn
      exact rel_stay c b b' hs hc
    · rename_i b' hn
      simp only
      split
      · exact rel_stay c b b' hs hc
      · rename_i c1 e hi
        split
        · exact RelPost.of_index b hc (rel_index ops load fixF1 _ c c1 b b' _ hs hc hi)
        · rename_i c2 nb he
          exact RelPost.of_enter b hc (rel_enter ops load fixF1 _ c c1 c2 b b' nb _ e hs hc hi he)
      · rename_i c1 hi
        exact RelPost.of_index b hc (rel_index ops load fixF1 _ c c1 b b' _ hs hc hi)
  · rename_i hc
    exact RelPost.of_abs hc (last_spec ops load c hs)

/-- `move_on_key_lower_than_or_equal_to` = `ge`, then `prev` (at most `levels + 1` more loads,
    since `ge` answered from a held data block) or `last` (at most `levels + 2` more loads).
    This is the worst case of all operations. -/
private theorem le_spec (ops : BlockOps β) (load : Nat → Option β) (fixF1 : Bool) (q : Bytes) (c : RC β)
    (hs : Shape c) : Post c (c.le ops load fixF1 q).1 (2 * c.levels + 4) := by
  obtain ⟨hg, hg'⟩ := ge_spec ops load q c hs
  unfold RC.le
  split
  · rename_i c1 heq
    rw [heq] at hg
    exact hg.mono (by omega)
  · rename_i c1 k v heq
    rw [heq] at hg hg'
    split
    · exact hg.mono (by omega)
    · obtain ⟨hin, hcur⟩ := hg' _ rfl
      have hp := prev_spec ops load fixF1 c1 hg.shape
      have hl : c1.levels = c.levels := hg.ext.levels
      have : Post c1 (c1.prev ops load fixF1).1 (c1.levels + 1) :=
        ⟨hp.held hin hcur, hp.post.shape, hp.post.reach⟩
      exact (hg.trans this).mono (by omega)
  · rename_i c1 heq
    rw [heq] at hg
    have hl := last_spec ops load c1 hg.shape
    have hlv : c1.levels = c.levels := hg.ext.levels
    have : Post c (c1.last ops load).1 (2 * c.levels + 4) := (hg.trans hl).mono (by omega)
    split
    · rename_i c2 heq2; rw [heq2] at this; exact this
    · rename_i c2 r heq2; rw [heq2] at this; exact this

/-! ### One step, uniformly -/

/-- Tight bound on the number of loads of each operation, from any state satisfying `Shape`. -/
def Op.loadBound (levels : Nat) : Op → Nat
  | .first | .last | .ge _ | .eq _ => levels + 2
  | .next | .prev => 2 * levels + 2
  | .le _ => 2 * levels + 4
  | .reset | .current => 0

/-- Tight bound from a reachable state (`Reach`): `next`/`prev` cost at most `levels + 2`. -/
def Op.loadBoundReach (levels : Nat) : Op → Nat
  | .first | .last | .ge _ | .eq _ | .next | .prev => levels + 2
  | .le _ => 2 * levels + 4
  | .reset | .current => 0

theorem Op.loadBoundReach_le (levels : Nat) (op : Op) :
    op.loadBoundReach levels ≤ op.loadBound levels := by
  cases op <;> simp [Op.loadBound, Op.loadBoundReach] <;> omega

theorem Op.loadBound_le (levels : Nat) (op : Op) : op.loadBound levels ≤ 2 * (levels + 2) := by
  cases op <;> simp [Op.loadBound] <;> omega

/-- Per-operation bound. -/
theorem step_spec (ops : BlockOps β) (load : Nat → Option β) (fixF1 : Bool) (c : RC β) (op : Op)
    (hs : Shape c) : Post c (RC.step ops load fixF1 c op).1 (op.loadBound c.levels) := by
  cases op with
  | first => exact first_spec ops load c hs
  | last => exact last_spec ops load c hs
  | next => exact (next_spec ops load fixF1 c hs).post
  | prev => exact (prev_spec ops load fixF1 c hs).post
  | ge q => exact (ge_spec ops load q c hs).1
  | le q => exact le_spec ops load fixF1 q c hs
  | eq q => exact eq_spec ops load q c hs
  | reset =>
    exact ⟨⟨rfl, rfl, LogExt.refl _ _⟩, fun l h => by simp [RC.step, RC.reset] at h,
      fun _ h => by simp [RC.step, RC.reset] at h⟩
  | current => exact Post.refl hs _

/-- Per-operation bound from a reachable state. -/
theorem step_spec_reach (ops : BlockOps β) (load : Nat → Option β) (fixF1 : Bool) (c : RC β)
    (op : Op) (hs : Shape c) (hr : Reach c) :
    Post c (RC.step ops load fixF1 c op).1 (op.loadBoundReach c.levels) := by
  have h := step_spec ops load fixF1 c op hs
  cases op with
  | next => exact ⟨(next_spec ops load fixF1 c hs).reach hr, h.shape, h.reach⟩
  | prev => exact ⟨(prev_spec ops load fixF1 c hs).reach hr, h.shape, h.reach⟩
  | _ => exact h

/-- Uniform bound. -/
theorem step_post (ops : BlockOps β) (load : Nat → Option β) (fixF1 : Bool) (c : RC β) (op : Op)
    (hs : Shape c) : Post c (RC.step ops load fixF1 c op).1 (2 * (c.levels + 2)) :=
  (step_spec ops load fixF1 c op hs).mono (Op.loadBound_le _ _)

/-! ### Histories -/

/-- Run a history, returning the final state and the list of states *before* each step paired
    with the state after it. -/
def RC.runStates (ops : BlockOps β) (load : Nat → Option β) (fixF1 : Bool) :
    RC β → List Op → List (RC β × RC β)
  | _, [] => []
  | c, op :: rest =>
    let c' := (RC.step ops load fixF1 c op).1
    (c, c') :: RC.runStates ops load fixF1 c' rest

theorem runStates_spec (ops : BlockOps β) (load : Nat → Option β) (fixF1 : Bool) :
    ∀ (hist : List Op) (c : RC β), Shape c →
      ∀ p ∈ RC.runStates ops load fixF1 c hist,
        p.1.levels = c.levels ∧ p.1.base = c.base ∧ Post p.1 p.2 (2 * (c.levels + 2)) := by
  intro hist
  induction hist with
  | nil => intro c _ p hp; simp [RC.runStates] at hp
  | cons op rest ih =>
    intro c hs p hp
    have hpost := step_post ops load fixF1 c op hs
    simp only [RC.runStates, List.mem_cons] at hp
    rcases hp with rfl | hp
    · exact ⟨rfl, rfl, hpost⟩
    · obtain ⟨a, b, d⟩ := ih _ hpost.shape p hp
      rw [hpost.ext.levels] at a d
      exact ⟨a, b.trans hpost.ext.base, d⟩

/-- Number of blocks loaded by each step of a history, in order. -/
def RC.loadCounts (ops : BlockOps β) (load : Nat → Option β) (fixF1 : Bool)
    (c : RC β) (hist : List Op) : List Nat :=
  (RC.runStates ops load fixF1 c hist).map (fun p => p.2.log.length - p.1.log.length)

/-- Run a history: final state and the results in order. -/
def RC.run (ops : BlockOps β) (load : Nat → Option β) (fixF1 : Bool) :
    RC β → List Op → RC β × List Res
  | c, [] => (c, [])
  | c, op :: rest =>
    let s := RC.step ops load fixF1 c op
    let t := RC.run ops load fixF1 s.1 rest
    (t.1, s.2 :: t.2)

theorem loadCounts_le (ops : BlockOps β) (load : Nat → Option β) (fixF1 : Bool)
    (c : RC β) (hs : Shape c) (hist : List Op) :
    ∀ n ∈ RC.loadCounts ops load fixF1 c hist, n ≤ 2 * (c.levels + 2) := by
  intro n hn
  simp only [RC.loadCounts, List.mem_map] at hn
  obtain ⟨p, hp, rfl⟩ := hn
  obtain ⟨hl, -, hpost⟩ := runStates_spec ops load fixF1 hist c hs p hp
  exact hpost.ext.log.length_le.2

theorem loadCounts_length (ops : BlockOps β) (load : Nat → Option β) (fixF1 : Bool) :
    ∀ (hist : List Op) (c : RC β), (RC.loadCounts ops load fixF1 c hist).length = hist.length := by
  intro hist
  induction hist with
  | nil => intro c; rfl
  | cons op rest ih =>
    intro c
    have := ih (RC.step ops load fixF1 c op).1
    simp only [RC.loadCounts, RC.runStates, List.map_cons, List.length_cons, List.length_map] at this ⊢
    omega

end Grenad
