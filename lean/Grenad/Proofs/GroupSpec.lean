/-
  Grenad.Proofs.GroupSpec — theory of `Spec.group` (the grouping specification used by C06/C07):
  keys strictly ascending, membership characterisation, uniqueness, "peel off the least key".
-/
import Grenad.Model.Spec

namespace Grenad

abbrev Groups := List (Bytes × List Bytes)

/-- Strictly ascending keys of a group list. -/
def GAsc (g : Groups) : Prop := g.Pairwise (fun a b => a.1 < b.1)

/-- Values carried by the entries of `l` whose key is `k`, in order of appearance. -/
def valsOf (k : Bytes) (l : List Entry) : List Bytes :=
  (l.filter (fun e => decide (e.1 = k))).map (·.2)

/-- Value list of key `k` in a group list (`[]` when absent). -/
def gv : Groups → Bytes → List Bytes
  | [], _ => []
  | (k', vs) :: r, k => if k' = k then vs else gv r k

theorem blt_irrefl (a : Bytes) : ¬ a < a := List.lt_irrefl a
theorem blt_trans {a b c : Bytes} (h1 : a < b) (h2 : b < c) : a < c := List.lt_trans h1 h2
theorem blt_asymm {a b : Bytes} (h1 : a < b) : ¬ b < a := fun h2 => blt_irrefl a (blt_trans h1 h2)
theorem blt_tri {a b : Bytes} (h1 : ¬ a < b) (h2 : a ≠ b) : b < a := by grind

@[simp] theorem valsOf_nil (k : Bytes) : valsOf k [] = [] := rfl

theorem valsOf_cons (k : Bytes) (e : Entry) (l : List Entry) :
    valsOf k (e :: l) = if e.1 = k then e.2 :: valsOf k l else valsOf k l := by
  unfold valsOf
  by_cases h : e.1 = k <;> simp [h]

theorem valsOf_append (k : Bytes) (l₁ l₂ : List Entry) :
    valsOf k (l₁ ++ l₂) = valsOf k l₁ ++ valsOf k l₂ := by
  simp [valsOf]

theorem valsOf_flatten (k : Bytes) (ss : List (List Entry)) :
    valsOf k ss.flatten = (ss.map (valsOf k)).flatten := by
  induction ss with
  | nil => rfl
  | cons s r ih => simp [valsOf_append, ih]

theorem valsOf_eq_nil {k : Bytes} {l : List Entry} : valsOf k l = [] ↔ ∀ e ∈ l, e.1 ≠ k := by
  simp [valsOf, List.filter_eq_nil_iff]

theorem valsOf_ne_nil {k : Bytes} {l : List Entry} : valsOf k l ≠ [] ↔ ∃ e ∈ l, e.1 = k := by
  rw [Ne, valsOf_eq_nil]; simp

theorem valsOf_filter_ne_self (k : Bytes) (l : List Entry) :
    valsOf k (l.filter (fun e => decide (e.1 ≠ k))) = [] := by
  rw [valsOf_eq_nil]; intro e he; simpa using (List.mem_filter.mp he).2

theorem valsOf_filter_ne_other {k k' : Bytes} (h : k' ≠ k) (l : List Entry) :
    valsOf k' (l.filter (fun e => decide (e.1 ≠ k))) = valsOf k' l := by
  unfold valsOf
  rw [List.filter_filter]
  congr 1
  apply List.filter_congr
  intro e _
  by_cases h1 : e.1 = k' <;> simp [h1, h]

/-! ### `gv` -/

theorem gv_eq_nil {g : Groups} {k : Bytes} (h : ∀ x ∈ g, x.1 ≠ k) : gv g k = [] := by
  induction g with
  | nil => rfl
  | cons a r ih =>
    obtain ⟨k', vs⟩ := a
    have h1 : k' ≠ k := h (k', vs) List.mem_cons_self
    simp only [gv, h1, if_false]
    exact ih (fun x hx => h x (List.mem_cons_of_mem _ hx))

theorem gv_of_mem {g : Groups} (ha : GAsc g) {k : Bytes} {vs : List Bytes} (hm : (k, vs) ∈ g) :
    gv g k = vs := by
  induction g with
  | nil => cases hm
  | cons a r ih =>
    obtain ⟨k', vs'⟩ := a
    have ha' := List.pairwise_cons.mp ha
    rcases List.mem_cons.mp hm with h | h
    · cases h; simp [gv]
    · have : k' < k := ha'.1 _ h
      have h1 : k' ≠ k := by intro e; subst e; exact blt_irrefl _ this
      simp only [gv, h1, if_false]
      exact ih ha'.2 h

/-! ### `addGroup` -/

open Spec in
theorem key_of_mem_addGroup {k v : Bytes} {g : Groups} {x : Bytes × List Bytes}
    (h : x ∈ addGroup k v g) : x.1 = k ∨ ∃ y ∈ g, y.1 = x.1 := by
  induction g with
  | nil => simp [addGroup] at h; left; rw [h]
  | cons a r ih =>
    obtain ⟨k', vs⟩ := a
    simp only [addGroup] at h
    split at h
    · rcases List.mem_cons.mp h with h | h
      · left; rw [h]
      · right; exact ⟨x, h, rfl⟩
    · split at h
      · rcases List.mem_cons.mp h with h | h
        · right; exact ⟨(k', vs), List.mem_cons_self, by rw [h]⟩
        · right; exact ⟨x, List.mem_cons_of_mem _ h, rfl⟩
      · rcases List.mem_cons.mp h with h | h
        · right; exact ⟨(k', vs), List.mem_cons_self, by rw [h]⟩
        · rcases ih h with h | ⟨y, hy, e⟩
          · left; exact h
          · right; exact ⟨y, List.mem_cons_of_mem _ hy, e⟩

open Spec in
theorem gasc_addGroup {k v : Bytes} {g : Groups} (ha : GAsc g) : GAsc (addGroup k v g) := by
  induction g with
  | nil => simp [addGroup, GAsc]
  | cons a r ih =>
    obtain ⟨k', vs⟩ := a
    have ha' := List.pairwise_cons.mp ha
    simp only [addGroup]
    split
    · rename_i hlt
      refine List.pairwise_cons.mpr ⟨?_, ha⟩
      intro b hb
      rcases List.mem_cons.mp hb with h | h
      · rw [h]; exact hlt
      · exact blt_trans hlt (ha'.1 b h)
    · split
      · exact List.pairwise_cons.mpr ⟨ha'.1, ha'.2⟩
      · rename_i h1 h2
        refine List.pairwise_cons.mpr ⟨?_, ih ha'.2⟩
        intro b hb
        rcases key_of_mem_addGroup hb with h | ⟨y, hy, e⟩
        · show k' < b.1
          rw [h]; exact blt_tri h1 h2
        · show k' < b.1
          rw [← e]; exact ha'.1 y hy

open Spec in
theorem mem_addGroup {k v : Bytes} {g : Groups} (ha : GAsc g) (k' : Bytes) (vs : List Bytes) :
    (k', vs) ∈ addGroup k v g ↔ (k' = k ∧ vs = gv g k ++ [v]) ∨ (k' ≠ k ∧ (k', vs) ∈ g) := by
  induction g with
  | nil =>
    simp only [addGroup, gv, List.mem_singleton, Prod.mk.injEq, List.nil_append, List.not_mem_nil,
      and_false, or_false]
  | cons a r ih =>
    obtain ⟨k0, vs0⟩ := a
    have ha' := List.pairwise_cons.mp ha
    have hr : ∀ x ∈ r, k0 < x.1 := ha'.1
    simp only [addGroup]
    split
    · rename_i hlt
      have hne : k0 ≠ k := by intro e; subst e; exact blt_irrefl _ hlt
      have hnil : gv r k = [] := gv_eq_nil (fun x hx e => by
        have := hr x hx; rw [e] at this; exact blt_asymm hlt this)
      simp only [gv, hne, if_false, hnil, List.nil_append, List.mem_cons, Prod.mk.injEq]
      constructor
      · rintro (h | h | h)
        · left; exact h
        · right; refine ⟨?_, Or.inl h⟩; rw [h.1]; exact hne
        · right; refine ⟨?_, Or.inr h⟩
          intro e; have := hr _ h; simp only at this; rw [e] at this
          exact blt_asymm hlt this
      · rintro (h | ⟨_, h | h⟩)
        · left; exact h
        · right; left; exact h
        · right; right; exact h
    · split
      · rename_i _ heq
        subst heq
        simp only [gv, if_true, List.mem_cons, Prod.mk.injEq]
        constructor
        · rintro (h | h)
          · left; exact h
          · right; refine ⟨?_, Or.inr h⟩
            intro e; have := hr _ h; simp only at this; rw [e] at this
            exact blt_irrefl _ this
        · rintro (h | ⟨h1, h | h⟩)
          · left; exact h
          · exact absurd h.1 h1
          · right; exact h
      · rename_i h1 h2
        have hne : k0 ≠ k := fun e => h2 e.symm
        simp only [gv, hne, if_false, List.mem_cons, Prod.mk.injEq]
        rw [ih ha'.2]
        constructor
        · rintro (h | h | h)
          · right; refine ⟨?_, Or.inl h⟩; rw [h.1]; exact hne
          · left; exact h
          · right; exact ⟨h.1, Or.inr h.2⟩
        · rintro (h | ⟨h1, h | h⟩)
          · right; left; exact h
          · left; exact h
          · right; right; exact ⟨h1, h⟩

/-! ### `group` -/

/-- Induction from the right end of a list. -/
theorem list_snoc_induction {α : Type _} {motive : List α → Prop} (nil : motive [])
    (append_singleton : ∀ l e, motive l → motive (l ++ [e])) : ∀ l, motive l := by
  intro l
  have : ∀ r : List α, motive r.reverse := by
    intro r
    induction r with
    | nil => exact nil
    | cons a r ih => rw [List.reverse_cons]; exact append_singleton _ _ ih
  simpa using this l.reverse

open Spec in
theorem group_append_singleton (l : List Entry) (e : Entry) :
    group (l ++ [e]) = addGroup e.1 e.2 (group l) := by
  simp [group, List.foldl_append]

open Spec in
@[simp] theorem group_nil : group [] = [] := rfl

open Spec in
theorem gasc_group (l : List Entry) : GAsc (group l) := by
  induction l using list_snoc_induction with
  | nil => simp [GAsc]
  | append_singleton l e ih => rw [group_append_singleton]; exact gasc_addGroup ih

open Spec in
/-- Membership in `group l`: the value list of `k` is exactly the values of `k` in `l`, in order,
    and only keys that occur are present. -/
theorem mem_group (l : List Entry) (k : Bytes) (vs : List Bytes) :
    (k, vs) ∈ group l ↔ vs = valsOf k l ∧ vs ≠ [] := by
  induction l using list_snoc_induction generalizing k vs with
  | nil => simp
  | append_singleton l e ih =>
    obtain ⟨ke, ve⟩ := e
    rw [group_append_singleton, mem_addGroup (gasc_group l), valsOf_append, valsOf_cons]
    have hgv : gv (group l) ke = valsOf ke l := by
      by_cases hn : valsOf ke l = []
      · rw [hn]
        apply gv_eq_nil
        intro x hx e
        obtain ⟨kx, vx⟩ := x
        simp only at e; subst e
        have := (ih kx vx).mp hx
        exact this.2 (this.1.trans hn)
      · exact gv_of_mem (gasc_group l) ((ih ke _).mpr ⟨rfl, hn⟩)
    simp only [hgv, valsOf_nil]
    by_cases hk : k = ke
    · subst hk
      simp only [true_and, ne_eq, not_true_eq_false, false_and, or_false, if_true]
      constructor
      · intro h; exact ⟨h, by rw [h]; simp⟩
      · intro h; exact h.1
    · have hk' : ke ≠ k := fun e => hk e.symm
      simp [hk, hk', ih]

open Spec in
theorem key_mem_of_mem_group {l : List Entry} {x : Bytes × List Bytes} (h : x ∈ group l) :
    ∃ e ∈ l, e.1 = x.1 := by
  obtain ⟨k, vs⟩ := x
  have := (mem_group l k vs).mp h
  exact valsOf_ne_nil.mp (this.1 ▸ this.2)

/-- Two key-ascending association lists with the same members are equal. -/
theorem keyAsc_ext {β : Type} {g₁ g₂ : List (Bytes × β)}
    (h₁ : g₁.Pairwise (fun a b => a.1 < b.1)) (h₂ : g₂.Pairwise (fun a b => a.1 < b.1))
    (h : ∀ x, x ∈ g₁ ↔ x ∈ g₂) : g₁ = g₂ := by
  induction g₁ generalizing g₂ with
  | nil =>
    cases g₂ with
    | nil => rfl
    | cons b t => exact absurd ((h b).mpr List.mem_cons_self) (by simp)
  | cons a t₁ ih =>
    cases g₂ with
    | nil => exact absurd ((h a).mp List.mem_cons_self) (by simp)
    | cons b t₂ =>
      have p₁ := List.pairwise_cons.mp h₁
      have p₂ := List.pairwise_cons.mp h₂
      have hab : a = b := by
        rcases List.mem_cons.mp ((h a).mp List.mem_cons_self) with e | ha
        · exact e
        · rcases List.mem_cons.mp ((h b).mpr List.mem_cons_self) with e | hb
          · exact e.symm
          · exact absurd (p₁.1 b hb) (blt_asymm (p₂.1 a ha))
      subst hab
      congr 1
      apply ih p₁.2 p₂.2
      intro x
      constructor
      · intro hx
        rcases List.mem_cons.mp ((h x).mp (List.mem_cons_of_mem _ hx)) with e | hx'
        · subst e; exact absurd (p₁.1 x hx) (blt_irrefl _)
        · exact hx'
      · intro hx
        rcases List.mem_cons.mp ((h x).mpr (List.mem_cons_of_mem _ hx)) with e | hx'
        · subst e; exact absurd (p₂.1 x hx) (blt_irrefl _)
        · exact hx'

/-- Two key-ascending group lists with the same members are equal. -/
theorem gasc_ext {g₁ g₂ : Groups} (h₁ : GAsc g₁) (h₂ : GAsc g₂) (h : ∀ x, x ∈ g₁ ↔ x ∈ g₂) :
    g₁ = g₂ := keyAsc_ext h₁ h₂ h

open Spec in
/-- A key-ascending list whose members are characterised like those of `group l` is `group l`. -/
theorem eq_group_of_mem {g : Groups} {l : List Entry} (ha : GAsc g)
    (hm : ∀ k vs, (k, vs) ∈ g ↔ vs = valsOf k l ∧ vs ≠ []) : g = group l :=
  gasc_ext ha (gasc_group l) (fun ⟨k, vs⟩ => by rw [hm, mem_group])

open Spec in
/-- Peel off the least key. -/
theorem group_min {l : List Entry} {k : Bytes} (hmin : ∀ e ∈ l, ¬ e.1 < k)
    (hex : ∃ e ∈ l, e.1 = k) :
    group l = (k, valsOf k l) :: group (l.filter (fun e => decide (e.1 ≠ k))) := by
  symm
  apply eq_group_of_mem
  · refine List.pairwise_cons.mpr ⟨?_, gasc_group _⟩
    intro x hx
    obtain ⟨e, he, hk⟩ := key_mem_of_mem_group hx
    have he' := List.mem_filter.mp he
    have hne : e.1 ≠ k := by simpa using he'.2
    show k < x.1
    rw [← hk]
    exact blt_tri (hmin e he'.1) hne
  · intro k' vs
    rw [List.mem_cons, mem_group]
    by_cases hk : k' = k
    · subst hk
      rw [valsOf_filter_ne_self]
      have := valsOf_ne_nil.mpr hex
      constructor
      · rintro (h | h)
        · cases h; exact ⟨rfl, this⟩
        · exact absurd h.1 h.2
      · rintro ⟨h, _⟩; left; rw [h]
    · rw [valsOf_filter_ne_other hk]
      constructor
      · rintro (h | h)
        · cases h; exact absurd rfl hk
        · exact h
      · intro h; right; exact h

open Spec in
theorem length_addGroup_le (k v : Bytes) (g : Groups) : (addGroup k v g).length ≤ g.length + 1 := by
  induction g with
  | nil => simp [addGroup]
  | cons a r ih =>
    obtain ⟨k', vs⟩ := a
    simp only [addGroup]
    split
    · simp
    · split
      · simp
      · simp only [List.length_cons]; omega

open Spec in
theorem length_group_le (l : List Entry) : (group l).length ≤ l.length := by
  induction l using list_snoc_induction with
  | nil => simp
  | append_singleton l e ih =>
    rw [group_append_singleton]
    have := length_addGroup_le e.1 e.2 (group l)
    simp only [List.length_append, List.length_singleton]; omega

/-- The keys of `group l` are strictly ascending. -/
theorem group_keys_asc (l : List Entry) : ((Spec.group l).map (·.1)).Pairwise (· < ·) := by
  rw [List.pairwise_map]; exact gasc_group l

/-- The keys of `group l` are exactly the keys occurring in `l`. -/
theorem mem_group_keys (l : List Entry) (k : Bytes) :
    k ∈ (Spec.group l).map (·.1) ↔ k ∈ l.map (·.1) := by
  simp only [List.mem_map]
  constructor
  · rintro ⟨x, hx, rfl⟩
    obtain ⟨e, he, hk⟩ := key_mem_of_mem_group hx
    exact ⟨e, he, hk⟩
  · rintro ⟨e, he, rfl⟩
    exact ⟨(e.1, valsOf e.1 l), (mem_group l _ _).mpr ⟨rfl, valsOf_ne_nil.mpr ⟨e, he, rfl⟩⟩, rfl⟩

end Grenad
