/-
  Grenad.Proofs.BinSearchProofs — the loops of `Grenad.Model.BinSearch` meet the contract of
  `slice::binary_search_by` on a list sorted with respect to the comparison.  Core Lean only.
-/
import Grenad.Model.BinSearch

namespace Grenad.BinSearch

/-- `l` is sorted with respect to `cmp`: `Less` on `[0, k)`, `Equal` on `[k, m)`, `Greater` on
    `[m, len)` — the precondition of `slice::binary_search_by`. -/
structure SortedBy {α : Type} (cmp : α → Ordering) (l : List α) (k m : Nat) : Prop where
  km : k ≤ m
  ml : m ≤ l.length
  lt : ∀ i (h : i < l.length), i < k → cmp l[i] = .lt
  eq : ∀ i (h : i < l.length), k ≤ i → i < m → cmp l[i] = .eq
  gt : ∀ i (h : i < l.length), m ≤ i → cmp l[i] = .gt

section
variable {α : Type} {cmp : α → Ordering} {l : List α} {k m : Nat}

theorem SortedBy.lt_iff (h : SortedBy cmp l k m) {i : Nat} (hi : i < l.length) :
    cmp l[i] = .lt ↔ i < k := by
  constructor
  · intro hc
    rcases Nat.lt_or_ge i k with h1 | h1
    · exact h1
    · rcases Nat.lt_or_ge i m with h2 | h2
      · rw [h.eq i hi h1 h2] at hc; cases hc
      · rw [h.gt i hi h2] at hc; cases hc
  · exact h.lt i hi

theorem SortedBy.gt_iff (h : SortedBy cmp l k m) {i : Nat} (hi : i < l.length) :
    cmp l[i] = .gt ↔ m ≤ i := by
  constructor
  · intro hc
    rcases Nat.lt_or_ge i m with h2 | h2
    · rcases Nat.lt_or_ge i k with h1 | h1
      · rw [h.lt i hi h1] at hc; cases hc
      · rw [h.eq i hi h1 h2] at hc; cases hc
    · exact h2
  · exact h.gt i hi

theorem SortedBy.eq_iff (h : SortedBy cmp l k m) {i : Nat} (hi : i < l.length) :
    cmp l[i] = .eq ↔ k ≤ i ∧ i < m := by
  constructor
  · intro hc
    rcases Nat.lt_or_ge i k with h1 | h1
    · rw [h.lt i hi h1] at hc; cases hc
    · rcases Nat.lt_or_ge i m with h2 | h2
      · exact ⟨h1, h2⟩
      · rw [h.gt i hi h2] at hc; cases hc
  · exact fun ⟨a, b⟩ => h.eq i hi a b

/-! ### The classic loop -/

theorem binSearchLoop_spec (h : SortedBy cmp l k m) :
    ∀ (fuel left right : Nat), left ≤ k → m ≤ right → right ≤ l.length → right - left < fuel →
      (k = m → binSearchLoop cmp l fuel left right = .error k) ∧
      (k < m → ∃ i, binSearchLoop cmp l fuel left right = .ok i ∧ k ≤ i ∧ i < m) := by
  intro fuel
  induction fuel with
  | zero => intro left right _ _ _ hf; omega
  | succ fuel ih =>
    intro left right hl hr hrl hf
    have hkm := h.km
    unfold binSearchLoop
    by_cases hlr : left < right
    · simp only [hlr, if_true]
      have hmid : left + (right - left) / 2 < l.length := by
        have := Nat.div_le_self (right - left) 2
        have : (right - left) / 2 < right - left := Nat.div_lt_self (by omega) (by omega)
        omega
      have hmr : left + (right - left) / 2 < right := by
        have : (right - left) / 2 < right - left := Nat.div_lt_self (by omega) (by omega)
        omega
      rw [List.getElem?_eq_getElem hmid]
      simp only
      cases hc : cmp l[left + (right - left) / 2] with
      | lt =>
        have := (h.lt_iff hmid).mp hc
        exact ih _ _ (by omega) hr hrl (by omega)
      | gt =>
        have := (h.gt_iff hmid).mp hc
        exact ih _ _ hl this (by omega) (by omega)
      | eq =>
        have := (h.eq_iff hmid).mp hc
        exact ⟨fun e => by omega, fun _ => ⟨_, rfl, this.1, this.2⟩⟩
    · simp only [hlr, if_false]
      exact ⟨fun e => by congr 1; omega, fun e => by omega⟩

/-- **Contract of `binary_search_by`, classic loop.**  On a list sorted w.r.t. `cmp` with `Less`
    region `[0, k)` and `Equal` region `[k, m)`: if no element compares `Equal` the result is
    `Err(k)`, the insertion point; otherwise it is `Ok(i)` for some `i` in the `Equal` region. -/
theorem binSearchBy_spec (h : SortedBy cmp l k m) :
    (k = m → binSearchBy cmp l = .error k) ∧
    (k < m → ∃ i, binSearchBy cmp l = .ok i ∧ k ≤ i ∧ i < m) :=
  binSearchLoop_spec h _ 0 l.length (Nat.zero_le _) h.ml (Nat.le_refl _) (by omega)

/-! ### The branch-free loop (Rust ≥ 1.82) -/

theorem binSearchBase_spec (h : SortedBy cmp l k m) :
    ∀ (fuel base size : Nat), (base = 0 ∨ base < m) → m ≤ base + size → base + size ≤ l.length →
      1 ≤ size → size < fuel + 1 →
      (binSearchBase cmp l fuel base size = 0 ∨ binSearchBase cmp l fuel base size < m) ∧
      m ≤ binSearchBase cmp l fuel base size + 1 ∧
      binSearchBase cmp l fuel base size < l.length := by
  intro fuel
  induction fuel with
  | zero =>
    intro base size hb hm hl h1 hf
    have : size = 1 := by omega
    subst this
    unfold binSearchBase
    exact ⟨hb, hm, by omega⟩
  | succ fuel ih =>
    intro base size hb hm hl h1 hf
    unfold binSearchBase
    by_cases hs : size > 1
    · simp only [hs, if_true]
      have hhalf : 1 ≤ size / 2 := by
        have := Nat.div_le_self size 2
        rcases Nat.lt_or_ge (size / 2) 1 with h0 | h0
        · have : size / 2 = 0 := by omega
          have := Nat.div_add_mod size 2
          have := Nat.mod_lt size (show 2 > 0 by omega)
          omega
        · exact h0
      have hhalf2 : size / 2 ≤ size - size / 2 := by
        have := Nat.div_add_mod size 2
        omega
      have hmid : base + size / 2 < l.length := by omega
      rw [List.getElem?_eq_getElem hmid]
      simp only
      cases hc : cmp l[base + size / 2] with
      | gt =>
        have := (h.gt_iff hmid).mp hc
        dsimp only
        exact ih _ _ hb (by omega) (by omega) (by omega) (by omega)
      | lt =>
        have := (h.lt_iff hmid).mp hc
        have := h.km
        dsimp only
        exact ih _ _ (.inr (by omega)) (by omega) (by omega) (by omega) (by omega)
      | eq =>
        have := (h.eq_iff hmid).mp hc
        dsimp only
        exact ih _ _ (.inr this.2) (by omega) (by omega) (by omega) (by omega)
    · simp only [hs, if_false]
      exact ⟨hb, by omega, by omega⟩

/-- **Contract of `binary_search_by`, branch-free loop.** -/
theorem binSearchBy'_spec (h : SortedBy cmp l k m) :
    (k = m → binSearchBy' cmp l = .error k) ∧
    (k < m → ∃ i, binSearchBy' cmp l = .ok i ∧ k ≤ i ∧ i < m) := by
  unfold binSearchBy'
  have hkm := h.km
  have hml := h.ml
  by_cases h0 : l.length = 0
  · simp only [h0, if_true]
    exact ⟨fun e => by congr 1; omega, fun e => by omega⟩
  · simp only [h0, if_false]
    obtain ⟨hb, hm, hlen⟩ := binSearchBase_spec h (l.length + 1) 0 l.length (.inl rfl) (by omega)
      (by omega) (by omega) (by omega)
    generalize binSearchBase cmp l (l.length + 1) 0 l.length = base at hb hm hlen
    rw [List.getElem?_eq_getElem hlen]
    simp only
    cases hc : cmp l[base] with
    | eq =>
      have := (h.eq_iff hlen).mp hc
      dsimp only
      exact ⟨fun e => by omega, fun _ => ⟨_, rfl, this.1, this.2⟩⟩
    | lt =>
      have := (h.lt_iff hlen).mp hc
      dsimp only
      exact ⟨fun e => by congr 1; omega, fun e => by omega⟩
    | gt =>
      have := (h.gt_iff hlen).mp hc
      dsimp only
      exact ⟨fun e => by congr 1; omega, fun e => by omega⟩

end

/-! ### Strictly ascending tables: at most one `Equal` element -/

theorem takeWhile_spec' {α : Type} (p : α → Bool) (l : List α) :
    (l.takeWhile p).length ≤ l.length ∧
    (∀ i (h : i < l.length), i < (l.takeWhile p).length → p l[i] = true) ∧
    (∀ h : (l.takeWhile p).length < l.length, p l[(l.takeWhile p).length] = false) := by
  induction l with
  | nil => simp
  | cons a l ih =>
    by_cases hp : p a = true
    · simp only [List.takeWhile_cons, hp, if_true, List.length_cons]
      refine ⟨by omega, ?_, ?_⟩
      · intro i hi hik
        cases i with
        | zero => simpa using hp
        | succ i => simpa using ih.2.1 i (by simpa using hi) (by omega)
      · intro h
        simpa using ih.2.2 (by omega)
    · simp only [List.takeWhile_cons, hp, List.length_cons]
      simp
      simpa using hp

theorem takeWhile_congr' {α : Type} {p q : α → Bool} {l : List α} (h : ∀ a ∈ l, p a = q a) :
    l.takeWhile p = l.takeWhile q := by
  induction l with
  | nil => rfl
  | cons a l ih =>
    simp only [List.takeWhile_cons, h a (by simp)]
    rw [ih (fun b hb => h b (by simp [hb]))]

/-- A table whose consecutive elements are related by `R`, for a comparison that is monotone
    along `R` (once an element is not `Less`, every later one is `Greater`) is sorted, with the
    `Less` region counted by `takeWhile` and at most one `Equal` element. -/
theorem sortedBy_of_pairwise {α : Type} {cmp : α → Ordering} {R : α → α → Prop} {l : List α}
    (hR : l.Pairwise R) (hmono : ∀ a b, R a b → cmp a ≠ .lt → cmp b = .gt) :
    ∃ m, SortedBy cmp l (l.takeWhile (fun x => cmp x == .lt)).length m ∧
      m ≤ (l.takeWhile (fun x => cmp x == .lt)).length + 1 ∧
      ((l.takeWhile (fun x => cmp x == .lt)).length < m ↔
        ∃ h : (l.takeWhile (fun x => cmp x == .lt)).length < l.length,
          cmp l[(l.takeWhile (fun x => cmp x == .lt)).length] = .eq) := by
  obtain ⟨s0, s1, s2⟩ := takeWhile_spec' (fun x => cmp x == .lt) l
  generalize (l.takeWhile (fun x => cmp x == .lt)).length = k at s0 s1 s2
  have hgt : ∀ i (h : i < l.length), k < i → cmp l[i] = .gt := by
    intro i hi hki
    have hk : k < l.length := by omega
    have hr := List.pairwise_iff_getElem.mp hR k i hk hi hki
    refine hmono _ _ hr ?_
    have := s2 hk
    simpa using this
  have hlt : ∀ i (h : i < l.length), i < k → cmp l[i] = .lt := by
    intro i hi hik
    simpa using s1 i hi hik
  by_cases he : ∃ h : k < l.length, cmp l[k] = .eq
  · obtain ⟨hk, hek⟩ := he
    refine ⟨k + 1, ⟨by omega, by omega, hlt, ?_, ?_⟩, Nat.le_refl _, ?_⟩
    · intro i hi h1 h2
      have : i = k := by omega
      subst this; exact hek
    · intro i hi h1; exact hgt i hi (by omega)
    · exact ⟨fun _ => ⟨hk, hek⟩, fun _ => by omega⟩
  · refine ⟨k, ⟨Nat.le_refl _, s0, hlt, ?_, ?_⟩, by omega, ?_⟩
    · intro i hi h1 h2; omega
    · intro i hi h1
      rcases Nat.lt_or_ge k i with h2 | h2
      · exact hgt i hi h2
      · have : i = k := by omega
        subst this
        have h3 := s2 hi
        have h4 : cmp l[i] ≠ .lt := by simpa using h3
        cases hc : cmp l[i] with
        | lt => exact absurd hc h4
        | eq => exact absurd ⟨hi, hc⟩ he
        | gt => rfl
    · exact ⟨fun h => by omega, fun h => absurd h he⟩

/-- **Binary search on a strictly ascending table** (either loop): the result is determined by
    the specification the model uses — with `k` the number of leading `Less` elements
    (`takeWhile`), `Ok(k)` if the element at `k` compares `Equal`, `Err(k)` otherwise. -/
theorem binSearchBy_strict {α : Type} {cmp : α → Ordering} {R : α → α → Prop} {l : List α}
    (hR : l.Pairwise R) (hmono : ∀ a b, R a b → cmp a ≠ .lt → cmp b = .gt) :
    binSearchBy cmp l =
      (match l[(l.takeWhile (fun x => cmp x == .lt)).length]? with
       | some x => if cmp x = .eq then .ok (l.takeWhile (fun x => cmp x == .lt)).length
                   else .error (l.takeWhile (fun x => cmp x == .lt)).length
       | none => .error (l.takeWhile (fun x => cmp x == .lt)).length) ∧
    binSearchBy' cmp l = binSearchBy cmp l := by
  obtain ⟨m, hs, hm, hiff⟩ := sortedBy_of_pairwise hR hmono
  generalize (l.takeWhile (fun x => cmp x == .lt)).length = k at hs hm hiff
  obtain ⟨a1, a2⟩ := binSearchBy_spec hs
  obtain ⟨b1, b2⟩ := binSearchBy'_spec hs
  have hkm := hs.km
  rcases Nat.lt_or_ge k m with hlt | hge
  · obtain ⟨hk, hek⟩ := hiff.mp hlt
    obtain ⟨i, hi, h1, h2⟩ := a2 hlt
    obtain ⟨j, hj, h3, h4⟩ := b2 hlt
    have : i = k := by omega
    have : j = k := by omega
    subst_vars
    refine ⟨?_, by rw [hi, hj]⟩
    rw [hi, List.getElem?_eq_getElem hk]
    simp [hek]
  · have hkm' : k = m := by omega
    refine ⟨?_, by rw [a1 hkm', b1 hkm']⟩
    rw [a1 hkm']
    have hne : ¬ ∃ h : k < l.length, cmp l[k] = .eq := fun h => by have := hiff.mpr h; omega
    rcases Nat.lt_or_ge k l.length with hk | hk
    · rw [List.getElem?_eq_getElem hk]
      have : cmp l[k] ≠ .eq := fun h => hne ⟨hk, h⟩
      simp [this]
    · rw [List.getElem?_eq_none hk]

end Grenad.BinSearch
