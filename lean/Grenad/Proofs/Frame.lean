/-
  Entry framing: `Block.entryAt` on a payload that contains `BW.frame k v` at `pre.length`
  returns exactly `k`, `v` and the offset just past the frame (base lemma of T-block, C14).
-/
import Grenad.Proofs.Varint
import Grenad.Model.Block

namespace Grenad

open Varint

theorem encode32_length_pos (v : Nat) : 1 ≤ (encode32 v).length := by
  rw [encode32_length]; unfold width; repeat' split
  all_goals omega

theorem encode32_length_le (v : Nat) : (encode32 v).length ≤ 5 := by
  rw [encode32_length]; unfold width; repeat' split
  all_goals omega

theorem frame_length (k v : Bytes) :
    (BW.frame k v).length = (encode32 k.length).length + (encode32 v.length).length + k.length + v.length := by
  simp [BW.frame]; omega

theorem slice?_append_mid (pre mid post : Bytes) :
    slice? (pre ++ mid ++ post) pre.length mid.length = some mid := by
  unfold slice?
  simp [List.append_assoc]

theorem entryAt_frame (pre post k v : Bytes) (offs : List Nat)
    (hk : k.length < 2^32) (hv : v.length < 2^32) :
    Block.entryAt { payload := pre ++ BW.frame k v ++ post, offsets := offs } pre.length
      = some (k, v, pre.length + (BW.frame k v).length) := by
  have hpos : 1 ≤ (encode32 k.length).length := encode32_length_pos _
  unfold Block.entryAt
  have hlt : ¬ (pre.length ≥ (pre ++ BW.frame k v ++ post).length) := by
    simp [BW.frame]; omega
  simp only [hlt, if_false]
  -- first varint
  have d1 : (pre ++ BW.frame k v ++ post).drop pre.length
      = encode32 k.length ++ (encode32 v.length ++ k ++ v ++ post) := by
    simp [BW.frame, List.append_assoc]
  rw [d1, decode_encode _ hk]
  simp only
  -- second varint
  have d2 : (pre ++ BW.frame k v ++ post).drop (pre.length + (encode32 k.length).length)
      = encode32 v.length ++ (k ++ v ++ post) := by
    have : pre ++ BW.frame k v ++ post
        = (pre ++ encode32 k.length) ++ (encode32 v.length ++ (k ++ v ++ post)) := by
      simp [BW.frame, List.append_assoc]
    rw [this]
    have hl : pre.length + (encode32 k.length).length = (pre ++ encode32 k.length).length := by simp
    rw [hl, List.drop_left]
  rw [d2, decode_encode _ hv]
  simp only
  -- key and value slices
  have s1 : slice? (pre ++ BW.frame k v ++ post)
      (pre.length + (encode32 k.length).length + (encode32 v.length).length) k.length = some k := by
    have : pre ++ BW.frame k v ++ post
        = (pre ++ encode32 k.length ++ encode32 v.length) ++ k ++ (v ++ post) := by
      simp [BW.frame, List.append_assoc]
    rw [this]
    have hl : pre.length + (encode32 k.length).length + (encode32 v.length).length
        = (pre ++ encode32 k.length ++ encode32 v.length).length := by simp; omega
    rw [hl]; exact slice?_append_mid _ _ _
  have s2 : slice? (pre ++ BW.frame k v ++ post)
      (pre.length + (encode32 k.length).length + (encode32 v.length).length + k.length) v.length = some v := by
    have : pre ++ BW.frame k v ++ post
        = (pre ++ encode32 k.length ++ encode32 v.length ++ k) ++ v ++ post := by
      simp [BW.frame, List.append_assoc]
    rw [this]
    have hl : pre.length + (encode32 k.length).length + (encode32 v.length).length + k.length
        = (pre ++ encode32 k.length ++ encode32 v.length ++ k).length := by simp; omega
    rw [hl]; exact slice?_append_mid _ _ _
  rw [s1, s2]
  simp [frame_length]
  omega

end Grenad
