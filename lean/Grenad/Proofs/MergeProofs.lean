/-
  Grenad.Proofs.MergeProofs — `Merger.run` equals the grouped union (C06).

  Ghost state: the list `ss` of what each source still has to yield (position = source index).
  The heap is always a permutation of `start.go 0 ss`; one `next` peels the least key off
  `Spec.group ss.flatten`.
-/
import Grenad.Proofs.MergeHeap
import Grenad.Model.Abstract

namespace Grenad
open Merger

def AllAsc (ss : List (List Entry)) : Prop := ∀ s ∈ ss, StrictAsc s

/-- Values of the heads whose key is `k`, in source order. -/
def headVals (k : Bytes) (ss : List (List Entry)) : List Bytes :=
  ss.filterMap (fun s => match s with
    | e :: _ => if e.1 = k then some e.2 else none
    | [] => none)

/-- Drop the head when its key is `k`. -/
def dropHead (k : Bytes) : List Entry → List Entry
  | e :: r => if e.1 = k then r else e :: r
  | [] => []

/-- The head key of a source is not below `k`. -/
def HeadGe (k : Bytes) (s : List Entry) : Prop := ∀ e r, s = e :: r → ¬ e.1 < k

/-- What `advance` pushes back. -/
def adv (s : MSrc) : Option MSrc := match s.rest with
  | _ :: e :: more => some { s with rest := e :: more }
  | _ => none

theorem advance_eq (h : List MSrc) (s : MSrc) : advance h s = (adv s).toList ++ h := by
  obtain ⟨i, rest⟩ := s
  match rest with
  | [] => rfl
  | [_] => rfl
  | _ :: _ :: _ => rfl

@[simp] theorem adv_single (i : Nat) (e : Entry) : adv ⟨i, [e]⟩ = none := rfl
@[simp] theorem adv_cons (i : Nat) (e e' : Entry) (r : List Entry) :
    adv ⟨i, e :: e' :: r⟩ = some ⟨i, e' :: r⟩ := rfl

theorem foldl_advance_perm (F : List MSrc) : ∀ h : List MSrc,
    (F.foldl advance h).Perm (F.filterMap adv ++ h) := by
  induction F with
  | nil => intro h; simp
  | cons s F ih =>
    intro h
    simp only [List.foldl_cons, List.filterMap_cons]
    refine (ih _).trans ?_
    rw [advance_eq]
    cases adv s with
    | none => simp
    | some s' => simp only [Option.toList_some, List.singleton_append]; exact List.perm_middle

/-! ### `start.go` -/

@[simp] theorem key_mk (i : Nat) (e : Entry) (r : List Entry) :
    ({ idx := i, rest := e :: r } : MSrc).key = e.1 := rfl
@[simp] theorem val_mk (i : Nat) (e : Entry) (r : List Entry) :
    ({ idx := i, rest := e :: r } : MSrc).val = e.2 := rfl

@[simp] theorem tag_nil (i : Nat) : start.go i [] = [] := by simp [start.go]
@[simp] theorem tag_cons_nil (i : Nat) (ss : List (List Entry)) :
    start.go i ([] :: ss) = start.go (i+1) ss := by simp [start.go]
@[simp] theorem tag_cons_cons (i : Nat) (e : Entry) (r : List Entry) (ss : List (List Entry)) :
    start.go i ((e :: r) :: ss) = { idx := i, rest := e :: r } :: start.go (i+1) ss := by
  simp [start.go]

theorem tag_idxLt (ss : List (List Entry)) : ∀ i : Nat,
    IdxLt (start.go i ss) ∧ ∀ x ∈ start.go i ss, i ≤ x.idx := by
  induction ss with
  | nil => intro i; simp [IdxLt]
  | cons s ss ih =>
    intro i
    obtain ⟨h1, h2⟩ := ih (i+1)
    cases s with
    | nil => simp only [tag_cons_nil]; exact ⟨h1, fun x hx => Nat.le_of_succ_le (h2 x hx)⟩
    | cons e r =>
      simp only [tag_cons_cons]
      refine ⟨List.pairwise_cons.mpr ⟨fun x hx => h2 x hx, h1⟩, ?_⟩
      intro x hx
      rcases List.mem_cons.mp hx with e | hx
      · rw [e]; exact Nat.le_refl _
      · exact Nat.le_of_succ_le (h2 x hx)

theorem tag_eq_nil {ss : List (List Entry)} : ∀ {i : Nat}, start.go i ss = [] → ss.flatten = [] := by
  induction ss with
  | nil => intro i _; rfl
  | cons s ss ih =>
    intro i h
    cases s with
    | nil => simp only [tag_cons_nil] at h; simpa using ih h
    | cons e r => simp at h

theorem mem_tag_of_mem {ss : List (List Entry)} {e : Entry} {r : List Entry} :
    ∀ {i : Nat}, (e :: r) ∈ ss → ∃ j, ({ idx := j, rest := e :: r } : MSrc) ∈ start.go i ss := by
  induction ss with
  | nil => intro i h; cases h
  | cons s ss ih =>
    intro i h
    rcases List.mem_cons.mp h with h | h
    · subst h; exact ⟨i, by simp⟩
    · obtain ⟨j, hj⟩ := ih (i := i+1) h
      cases s with
      | nil => exact ⟨j, by simpa using hj⟩
      | cons e' r' => exact ⟨j, by simp [hj]⟩

theorem mem_tag {ss : List (List Entry)} {x : MSrc} :
    ∀ {i : Nat}, x ∈ start.go i ss → ∃ e r, x.rest = e :: r ∧ x.rest ∈ ss := by
  induction ss with
  | nil => intro i h; simp at h
  | cons s ss ih =>
    intro i h
    cases s with
    | nil =>
      simp only [tag_cons_nil] at h
      obtain ⟨e, r, h1, h2⟩ := ih h
      exact ⟨e, r, h1, List.mem_cons_of_mem _ h2⟩
    | cons e' r' =>
      simp only [tag_cons_cons] at h
      rcases List.mem_cons.mp h with h | h
      · subst h; exact ⟨e', r', rfl, List.mem_cons_self⟩
      · obtain ⟨e, r, h1, h2⟩ := ih h
        exact ⟨e, r, h1, List.mem_cons_of_mem _ h2⟩

theorem tag_filter_val (k : Bytes) (ss : List (List Entry)) : ∀ i : Nat,
    ((start.go i ss).filter (fun x => decide (x.key = k))).map MSrc.val = headVals k ss := by
  induction ss with
  | nil => intro i; simp [headVals]
  | cons s ss ih =>
    intro i
    cases s with
    | nil => simpa [headVals] using ih (i+1)
    | cons e r =>
      have := ih (i+1)
      simp only [headVals] at this ⊢
      by_cases hk : e.1 = k <;>
        simp [hk, this]

theorem tag_dropHead_perm (k : Bytes) (ss : List (List Entry)) : ∀ i : Nat,
    (start.go i (ss.map (dropHead k))).Perm
      (((start.go i ss).filter (fun x => decide (x.key = k))).filterMap adv ++
        (start.go i ss).filter (fun x => decide (x.key ≠ k))) := by
  induction ss with
  | nil => intro i; simp
  | cons s ss ih =>
    intro i
    have ih' := ih (i+1)
    cases s with
    | nil => simpa [dropHead] using ih'
    | cons e r =>
      by_cases hk : e.1 = k
      · cases r with
        | nil => simpa [dropHead, hk, List.filter_cons, List.filterMap_cons] using ih'
        | cons e' r' =>
          simp only [List.map_cons, dropHead, hk, if_true, tag_cons_cons, List.filter_cons,
            key_mk, decide_true, ne_eq, not_true_eq_false, decide_false, List.filterMap_cons, adv_cons,
            Bool.false_eq_true, if_false, List.cons_append]
          exact List.Perm.cons _ ih'
      · simp only [List.map_cons, dropHead, hk, if_false, tag_cons_cons, List.filter_cons,
          key_mk, decide_false, ne_eq, not_false_eq_true, decide_true, if_true,
          Bool.false_eq_true]
        exact (List.Perm.cons _ ih').trans List.perm_middle.symm

/-! ### One source -/

theorem src_all_ge {k : Bytes} {s : List Entry} (ha : StrictAsc s) (hg : HeadGe k s) :
    ∀ x ∈ s, ¬ x.1 < k := by
  cases s with
  | nil => intro x hx; cases hx
  | cons e r =>
    have ha' := List.pairwise_cons.mp ha
    have he : ¬ e.1 < k := hg e r rfl
    intro x hx
    rcases List.mem_cons.mp hx with h | h
    · rw [h]; exact he
    · have := ha'.1 x h
      intro hlt; exact he (blt_trans this hlt)

theorem src_filter_ne {k : Bytes} {s : List Entry} (ha : StrictAsc s) (hg : HeadGe k s) :
    s.filter (fun e => decide (e.1 ≠ k)) = dropHead k s := by
  cases s with
  | nil => rfl
  | cons e r =>
    have ha' := List.pairwise_cons.mp ha
    have he : ¬ e.1 < k := hg e r rfl
    by_cases hk : e.1 = k
    · simp only [dropHead, hk, if_true, List.filter_cons, ne_eq, not_true_eq_false, decide_false,
        Bool.false_eq_true, if_false]
      rw [List.filter_eq_self]
      intro x hx
      have := ha'.1 x hx
      rw [hk] at this
      have : x.1 ≠ k := fun e => by rw [e] at this; exact blt_irrefl _ this
      simpa using this
    · simp only [dropHead, hk, if_false]
      rw [List.filter_eq_self]
      intro x hx
      have h1 := src_all_ge ha hg x hx
      have h2 : k < e.1 := blt_tri he hk
      have : x.1 ≠ k := by
        rcases List.mem_cons.mp hx with h | h
        · rw [h]; exact hk
        · have := ha'.1 x h; grind
      simpa using this

theorem src_valsOf {k : Bytes} {s : List Entry} (ha : StrictAsc s) (hg : HeadGe k s) :
    valsOf k s = headVals k [s] := by
  cases s with
  | nil => rfl
  | cons e r =>
    have ha' := List.pairwise_cons.mp ha
    have he : ¬ e.1 < k := hg e r rfl
    have hr : valsOf k r = [] := by
      rw [valsOf_eq_nil]
      intro x hx
      have := ha'.1 x hx
      grind
    rw [valsOf_cons, hr]
    by_cases hk : e.1 = k <;> simp [headVals, hk]

theorem src_dropHead_asc {k : Bytes} {s : List Entry} (ha : StrictAsc s) :
    StrictAsc (dropHead k s) := by
  cases s with
  | nil => exact ha
  | cons e r =>
    simp only [dropHead]
    split
    · exact (List.pairwise_cons.mp ha).2
    · exact ha

/-! ### All sources -/

theorem headVals_cons (k : Bytes) (s : List Entry) (ss : List (List Entry)) :
    headVals k (s :: ss) = headVals k [s] ++ headVals k ss := by
  simp only [headVals, List.filterMap_cons, List.filterMap_nil]
  split <;> simp

theorem all_valsOf {k : Bytes} {ss : List (List Entry)} (ha : AllAsc ss)
    (hg : ∀ s ∈ ss, HeadGe k s) : valsOf k ss.flatten = headVals k ss := by
  induction ss with
  | nil => rfl
  | cons s ss ih =>
    rw [List.flatten_cons, valsOf_append, headVals_cons,
      src_valsOf (ha s List.mem_cons_self) (hg s List.mem_cons_self),
      ih (fun t ht => ha t (List.mem_cons_of_mem _ ht)) (fun t ht => hg t (List.mem_cons_of_mem _ ht))]

theorem all_filter_ne {k : Bytes} {ss : List (List Entry)} (ha : AllAsc ss)
    (hg : ∀ s ∈ ss, HeadGe k s) :
    ss.flatten.filter (fun e => decide (e.1 ≠ k)) = (ss.map (dropHead k)).flatten := by
  rw [List.filter_flatten]
  congr 1
  apply List.map_congr_left
  intro s hs
  exact src_filter_ne (ha s hs) (hg s hs)

/-- Peeling the least head key off the grouped union. -/
theorem group_step {k : Bytes} {ss : List (List Entry)} (ha : AllAsc ss)
    (hg : ∀ s ∈ ss, HeadGe k s) (hex : ∃ e r, (e :: r) ∈ ss ∧ e.1 = k) :
    Spec.group ss.flatten =
      (k, headVals k ss) :: Spec.group (ss.map (dropHead k)).flatten := by
  rw [← all_valsOf ha hg, ← all_filter_ne ha hg]
  apply group_min
  · intro e he
    obtain ⟨s, hs, hes⟩ := List.mem_flatten.mp he
    exact src_all_ge (ha s hs) (hg s hs) e hes
  · obtain ⟨e, r, hs, hk⟩ := hex
    exact ⟨e, List.mem_flatten.mpr ⟨_, hs, List.mem_cons_self⟩, hk⟩

/-! ### `next` -/

private theorem next_spec (mf : MergeFn) (m : Merger) (ss : List (List Entry)) (hasc : AllAsc ss)
    (hp : m.heap.Perm (start.go 0 ss)) :
    (ss.flatten = [] ∧ next mf m = (m, .ok none)) ∨
    ∃ k vs ss', Spec.group ss.flatten = (k, vs) :: Spec.group ss'.flatten ∧ AllAsc ss' ∧
      ((mf k vs = none ∧ (next mf m).2 = .mergeErr ∧ (next mf m).1.calls = (k, vs) :: m.calls) ∨
       (∃ v, mf k vs = some v ∧ (next mf m).2 = .ok (some (k, v)) ∧
          (next mf m).1.calls = (k, vs) :: m.calls ∧
          (next mf m).1.heap.Perm (start.go 0 ss'))) := by
  cases hpop : heapPop m.heap with
  | none =>
    left
    have h0 : m.heap = [] := heapPop_eq_none.mp hpop
    rw [h0] at hp
    refine ⟨tag_eq_nil hp.nil_eq.symm, ?_⟩
    simp [next, hpop]
  | some p =>
    right
    obtain ⟨first, h1⟩ := p
    have hne : IdxNe m.heap := (tag_idxLt ss 0).1.idxNe.perm hp.symm
    obtain ⟨S, h2, hps, hF, hFlt, hh2, hmem, hmin⟩ := heap_round hne hpop
    -- the popped entries are exactly the tagged heads with the least key, in index order
    have hFeq : first :: S = (start.go 0 ss).filter (fun x => decide (x.key = first.key)) := by
      apply List.Perm.eq_of_pairwise (le := fun a b => a.idx < b.idx)
      · intro a b _ _ h1 h2; omega
      · exact hFlt
      · exact List.Pairwise.sublist List.filter_sublist (tag_idxLt ss 0).1
      · exact hF.trans (hp.filter _)
    have hvals : first.val :: S.map MSrc.val = headVals first.key ss := by
      rw [← tag_filter_val first.key ss 0, ← hFeq]; rfl
    have hg : ∀ s ∈ ss, HeadGe first.key s := by
      intro s hs e r hser
      subst hser
      obtain ⟨j, hj⟩ := mem_tag_of_mem (i := 0) hs
      have := hmin _ (hp.symm.subset hj)
      simpa [MSrc.key] using this
    have hex : ∃ e r, (e :: r) ∈ ss ∧ e.1 = first.key := by
      obtain ⟨e, r, h1, h2⟩ := mem_tag (hp.subset hmem)
      refine ⟨e, r, h1 ▸ h2, ?_⟩
      simp [MSrc.key, h1]
    refine ⟨first.key, headVals first.key ss, ss.map (dropHead first.key),
      group_step hasc hg hex, ?_, ?_⟩
    · intro s hs
      obtain ⟨t, ht, rfl⟩ := List.mem_map.mp hs
      exact src_dropHead_asc (hasc t ht)
    · cases hmf : mf first.key (headVals first.key ss) with
      | none =>
        left
        simp [next, hpop, hps, hvals, hmf]
      | some v =>
        right
        refine ⟨v, rfl, ?_⟩
        simp only [next, hpop, hps, hvals, hmf, true_and]
        refine (foldl_advance_perm _ _).trans ?_
        rw [hFeq]
        exact ((hh2.trans (hp.filter _)).append_left _).trans
          (tag_dropHead_perm first.key ss 0).symm

/-! ### `collect` and `run` -/

/-- Apply the merge function to every group; `none` as soon as one call fails. -/
def mergeAll (mf : MergeFn) : Groups → Option (List Entry)
  | [] => some []
  | (k, vs) :: r =>
    match mf k vs with
    | none => none
    | some v => (mergeAll mf r).map ((k, v) :: ·)

/-- The calls made: every group up to and including the first failing one. -/
def callsSpec (mf : MergeFn) : Groups → Groups
  | [] => []
  | (k, vs) :: r => if (mf k vs).isSome then (k, vs) :: callsSpec mf r else [(k, vs)]

theorem collect_spec (mf : MergeFn) : ∀ (fuel : Nat) (ss : List (List Entry)) (m : Merger)
    (acc : List Entry), AllAsc ss → m.heap.Perm (start.go 0 ss) →
    (Spec.group ss.flatten).length + 1 ≤ fuel →
    (Merger.collect mf fuel m acc).1 = (mergeAll mf (Spec.group ss.flatten)).map (acc.reverse ++ ·) ∧
    (Merger.collect mf fuel m acc).2.calls = (callsSpec mf (Spec.group ss.flatten)).reverse ++ m.calls := by
  intro fuel
  induction fuel with
  | zero => intro ss m acc _ _ hf; omega
  | succ fuel ih =>
    intro ss m acc hasc hp hf
    rcases next_spec mf m ss hasc hp with ⟨hnil, hnext⟩ | ⟨k, vs, ss', hgrp, hasc', hcase⟩
    · simp [Merger.collect, hnext, hnil, mergeAll, callsSpec]
    · rw [hgrp] at hf ⊢
      rcases hcase with ⟨hmf, hres, hcalls⟩ | ⟨v, hmf, hres, hcalls, hheap⟩
      · simp only [Merger.collect]
        cases hn : next mf m with
        | mk m' r =>
          rw [hn] at hres hcalls
          simp only at hres hcalls
          subst hres
          simp [mergeAll, callsSpec, hmf, hcalls]
      · simp only [Merger.collect]
        cases hn : next mf m with
        | mk m' r =>
          rw [hn] at hres hcalls hheap
          simp only at hres hcalls hheap
          subst hres
          simp only
          obtain ⟨h1, h2⟩ := ih ss' m' ((k, v) :: acc) hasc' hheap
            (by simp only [List.length_cons] at hf; omega)
          rw [h1, h2, hcalls]
          simp only [mergeAll, callsSpec, hmf, Option.isSome_some, if_true, List.reverse_cons,
            List.append_assoc, List.singleton_append, Option.map_map, and_true]
          congr 1

theorem start_heap (sources : List (List Entry)) : (start sources).heap = start.go 0 sources := rfl

theorem length_group_flatten_le (sources : List (List Entry)) :
    (Spec.group sources.flatten).length ≤ totalLen sources := by
  refine Nat.le_trans (length_group_le _) ?_
  rw [List.length_flatten]; exact Nat.le_refl _

/-- The general statement about `Merger.run` (any merge function, failing or not). -/
theorem run_spec (mf : MergeFn) (sources : List (List Entry)) (hasc : AllAsc sources) :
    (run mf sources).1 = mergeAll mf (Spec.group sources.flatten) ∧
    (run mf sources).2.calls.reverse = callsSpec mf (Spec.group sources.flatten) := by
  have := collect_spec mf (totalLen sources + 1) sources (start sources) [] hasc
    (by rw [start_heap]) (by have := length_group_flatten_le sources; omega)
  unfold run
  rw [this.1, this.2]
  constructor
  · cases mergeAll mf (Spec.group sources.flatten) <;> simp
  · simp [start]

theorem mergeAll_total (mf' : Bytes → List Bytes → Bytes) (g : Groups) :
    mergeAll (fun k vs => some (mf' k vs)) g = some (g.map (fun (k, vs) => (k, mf' k vs))) := by
  induction g with
  | nil => rfl
  | cons a r ih => obtain ⟨k, vs⟩ := a; simp [mergeAll, ih]

theorem callsSpec_total (mf' : Bytes → List Bytes → Bytes) (g : Groups) :
    callsSpec (fun k vs => some (mf' k vs)) g = g := by
  induction g with
  | nil => rfl
  | cons a r ih => obtain ⟨k, vs⟩ := a; simp [callsSpec, ih]

/-- With a merge function that never fails, `run` returns the grouped union. -/
theorem run_total (mf' : Bytes → List Bytes → Bytes) (sources : List (List Entry))
    (hasc : AllAsc sources) :
    (run (fun k vs => some (mf' k vs)) sources).1 = some (Spec.mergeSpec mf' sources) := by
  rw [(run_spec _ sources hasc).1]
  exact mergeAll_total mf' _

/-- In a strictly ascending entry list a key has exactly one value. -/
theorem valsOf_of_mem_asc {s : List Entry} (ha : StrictAsc s) {k v : Bytes} (hm : (k, v) ∈ s) :
    valsOf k s = [v] := by
  induction s with
  | nil => cases hm
  | cons e r ih =>
    have ha' := List.pairwise_cons.mp ha
    rw [valsOf_cons]
    rcases List.mem_cons.mp hm with h | h
    · subst h
      have : valsOf k r = [] := by
        rw [valsOf_eq_nil]; intro x hx e
        have := ha'.1 x hx
        simp only at this
        rw [e] at this; exact blt_irrefl _ this
      simp [this]
    · have hne : e.1 ≠ k := by
        intro e'
        have := ha'.1 _ h
        simp only at this
        rw [e'] at this; exact blt_irrefl _ this
      simp [hne, ih ha'.2 h]

theorem mergeAll_eq_none (mf : MergeFn) (g : Groups) :
    mergeAll mf g = none ↔ ∃ x ∈ g, mf x.1 x.2 = none := by
  induction g with
  | nil => simp [mergeAll]
  | cons a r ih =>
    obtain ⟨k, vs⟩ := a
    simp only [mergeAll, List.mem_cons, exists_eq_or_imp]
    cases h : mf k vs with
    | none => simp
    | some v => simp [ih]

end Grenad
