/-
  T-cursor, part 2: the abstract block cursor `LC`, targets of absolute moves, index blocks
  (`idx`) over their children's contents (`flat`), cache soundness `CSr`, and the root-to-block
  path predicate `UpPath`.
-/
import Grenad.Proofs.TCursor1

namespace Grenad.TCursor

open Grenad Spec

/-- The index block over a list of children `(offset, content)`. -/
abbrev idx (kids : List (Nat × List Entry)) : List Entry :=
  kids.map (fun k => (lastKey k.2, be64 k.1))

/-- The concatenated content of a list of children. -/
abbrev flat (kids : List (Nat × List Entry)) : List Entry := kids.flatMap (·.2)

/-! ### Offsets -/

theorem leN_length' (k v : Nat) : (leN k v).length = k := by
  induction k generalizing v with
  | zero => simp [leN]
  | succ k ih => simp [leN, ih]

theorem leVal_leN' (k v : Nat) : leVal (leN k v) = v % 256 ^ k := by
  induction k generalizing v with
  | zero => simp [leN, leVal, Nat.mod_one]
  | succ k ih =>
    have h8 : (v % 256).toUInt8.toNat = v % 256 := by simp [Nat.toUInt8, UInt8.toNat_ofNat']
    simp only [leN, leVal, ih, h8]
    rw [Nat.pow_succ, Nat.mul_comm (256 ^ k) 256, Nat.mod_mul]

theorem beVal_be64' {v : Nat} (h : v < 2 ^ 64) : beVal (be64 v) = v := by
  simp only [beVal, be64, beN, List.reverse_reverse]
  rw [leVal_leN']; exact Nat.mod_eq_of_lt (by simpa using h)

theorem offOf_mk (k : Bytes) {n : Nat} (h : n < 2 ^ 64) : offOf (k, be64 n) = n := by
  simp [offOf, beVal_be64' h]

/-! ### `LC` -/

/-- Absolute in-block moves. -/
def AbsMov : Mov → Prop
  | .first | .last | .ge _ => True
  | _ => False

/-- Where an absolute move lands in a (non-empty) entry list. -/
def target : Mov → List Entry → Nat
  | .first, _ => 0
  | .last, es => es.length - 1
  | .ge q, es => lowerBound es q
  | _, _ => 0

theorem apply_es (mov : Mov) (c : LC) : (LC.ops.apply mov c).1.es = c.es := by
  cases mov <;> simp only [BlockOps.apply, LC.ops]
  · rfl
  · unfold LC.last; split <;> rfl
  · unfold LC.next; split
    · rfl
    · split <;> rfl
  · unfold LC.prev; split
    · unfold LC.last; split <;> rfl
    · split <;> rfl
  · rfl

theorem apply_abs {mov : Mov} (hm : AbsMov mov) (c : LC) (hne : c.es ≠ []) :
    LC.ops.apply mov c = (⟨c.es, some (target mov c.es)⟩, c.es[target mov c.es]?) := by
  cases mov with
  | first => rfl
  | last =>
    have : c.es.isEmpty = false := by simpa using hne
    simp [BlockOps.apply, LC.ops, LC.last, this, target, LC.current]
  | ge q => rfl
  | next => cases hm
  | prev => cases hm

theorem load_eq {s : Store} {off : Nat} {blk : List Entry} (h : s off = some blk) :
    s.load off = some (LC.ofList blk) := by
  simp [Store.load, h]

theorem load_some {s : Store} {off : Nat} {c : LC} (h : s.load off = some c) :
    s off = some c.es ∧ c.pos = none := by
  unfold Store.load at h
  cases hs : s off with
  | none => simp [hs] at h
  | some blk => simp [hs] at h; subst h; exact ⟨rfl, rfl⟩

/-! ### Index blocks -/

theorem flat_append (a b : List (Nat × List Entry)) : flat (a ++ b) = flat a ++ flat b := by
  simp [flat]

theorem flat_cons (k : Nat × List Entry) (ks : List (Nat × List Entry)) :
    flat (k :: ks) = k.2 ++ flat ks := by
  simp [flat]

theorem flat_zip (a : List (Nat × List Entry)) (k : Nat × List Entry) (b : List (Nat × List Entry)) :
    flat (a ++ k :: b) = flat a ++ k.2 ++ flat b := by
  simp [flat]

theorem idx_zip_get (a : List (Nat × List Entry)) (k : Nat × List Entry) (b : List (Nat × List Entry)) :
    (idx (a ++ k :: b))[a.length]? = some (lastKey k.2, be64 k.1) := by
  simp [idx]

theorem idx_length (kids : List (Nat × List Entry)) : (idx kids).length = kids.length := by
  simp [idx]

theorem flat_eq_nil {kids : List (Nat × List Entry)} (hne : ∀ k ∈ kids, k.2 ≠ [])
    (h : flat kids = []) : kids = [] := by
  cases kids with
  | nil => rfl
  | cons k ks =>
    rw [flat_cons] at h
    exact absurd (List.append_eq_nil_iff.1 h).1 (hne k (by simp))

theorem lowerBound_idx_cons (k : Nat × List Entry) (ks : List (Nat × List Entry)) (q : Bytes) :
    lowerBound (idx (k :: ks)) q = if lastKey k.2 < q then lowerBound (idx ks) q + 1 else 0 := by
  simp only [idx, List.map_cons, lowerBound_cons]

/-- How the lower bound of an index block relates to the lower bound of the content. -/
theorem lowerBound_node {kids : List (Nat × List Entry)} (hne : ∀ k ∈ kids, k.2 ≠ [])
    (hasc : StrictAsc (flat kids)) (q : Bytes) :
    (∃ kpre kid kpost, kids = kpre ++ kid :: kpost ∧ lowerBound (idx kids) q = kpre.length ∧
        lowerBound (flat kids) q = (flat kpre).length + lowerBound kid.2 q ∧
        lowerBound kid.2 q < kid.2.length)
    ∨ (lowerBound (idx kids) q = kids.length ∧ lowerBound (flat kids) q = (flat kids).length) := by
  induction kids with
  | nil => right; exact ⟨rfl, rfl⟩
  | cons k ks ih =>
    rw [flat_cons] at hasc
    by_cases hk : lastKey k.2 < q
    · have hall : ∀ e ∈ k.2, e.1 < q := fun e he =>
        blt_of_le_of_lt (StrictAsc.le_lastKey (StrictAsc.left hasc) he) hk
      have hlb := lowerBound_append_of_all_lt (flat ks) hall
      rcases ih (fun x hx => hne x (by simp [hx])) (StrictAsc.right hasc) with
        ⟨kpre, kid, kpost, h1, h2, h3, h4⟩ | ⟨h1, h2⟩
      · left
        refine ⟨k :: kpre, kid, kpost, by simp [h1], ?_, ?_, h4⟩
        · rw [lowerBound_idx_cons, if_pos hk, h2]; simp
        · rw [flat_cons k ks, hlb, h3, flat_cons, List.length_append]; omega
      · right
        refine ⟨?_, ?_⟩
        · rw [lowerBound_idx_cons, if_pos hk, h1]; simp
        · rw [flat_cons k ks, hlb, h2, List.length_append]
    · left
      obtain ⟨e, he, hek⟩ := lastKey_mem (hne k (by simp))
      have hex : ∃ e ∈ k.2, q ≤ e.1 := ⟨e, he, hek ▸ bnot_lt.1 hk⟩
      have := lowerBound_append_of_exists_ge (flat ks) hex
      refine ⟨[], k, ks, rfl, ?_, ?_, this.2⟩
      · rw [lowerBound_idx_cons, if_neg hk]; rfl
      · rw [flat_cons k ks, this.1]; simp [flat]

/-- An absolute move on an index block picks the child containing the target of the content. -/
theorem target_node {mov : Mov} (hm : AbsMov mov) {kids : List (Nat × List Entry)}
    (hne : ∀ k ∈ kids, k.2 ≠ []) (hasc : StrictAsc (flat kids))
    (ht : target mov (flat kids) < (flat kids).length) :
    ∃ kpre kid kpost, kids = kpre ++ kid :: kpost ∧ target mov (idx kids) = kpre.length ∧
      target mov (flat kids) = (flat kpre).length + target mov kid.2 ∧
      target mov kid.2 < kid.2.length := by
  have hkne : kids ≠ [] := by
    rintro rfl; simp at ht
  cases mov with
  | first =>
    cases kids with
    | nil => exact absurd rfl hkne
    | cons k ks =>
      refine ⟨[], k, ks, rfl, rfl, by simp [target, flat], ?_⟩
      have := hne k (by simp)
      simp only [target]; exact List.length_pos_iff.2 this
  | last =>
    obtain ⟨a, k, rfl⟩ := exists_snoc hkne
    have hk : 0 < k.2.length := List.length_pos_iff.2 (hne k (by simp))
    refine ⟨a, k, [], rfl, by simp [target], ?_, by simp only [target]; omega⟩
    simp only [target, flat_zip, List.length_append]
    simp [flat]; omega
  | ge q =>
    rcases lowerBound_node hne hasc q with h | ⟨_, h2⟩
    · exact h
    · simp only [target] at ht; omega
  | next => cases hm
  | prev => cases hm

/-- A `ge` that overshoots the content overshoots the index block. -/
theorem target_node_miss {kids : List (Nat × List Entry)} (hne : ∀ k ∈ kids, k.2 ≠ [])
    (hasc : StrictAsc (flat kids)) (q : Bytes)
    (ht : lowerBound (flat kids) q = (flat kids).length) :
    lowerBound (idx kids) q = (idx kids).length := by
  rcases lowerBound_node hne hasc q with ⟨kpre, kid, kpost, h1, _, h3, h4⟩ | ⟨h1, _⟩
  · subst h1
    rw [flat_zip] at ht h3
    simp only [List.length_append] at ht h3
    omega
  · rw [idx_length]; exact h1

/-! ### `Sub` -/

section
variable {s : Store} {lvl : Nat → Nat}

theorem Sub.flat_ne {d off : Nat} {fl : List Entry} (h : Sub s lvl d off fl) : fl ≠ [] := by
  induction h with
  | leaf off es _ hne _ => exact hne
  | node d off kids hk _ _ _ ih =>
    cases kids with
    | nil => exact absurd rfl hk
    | cons k ks =>
      intro h
      rw [show (k :: ks).flatMap (·.2) = k.2 ++ ks.flatMap (·.2) by simp] at h
      exact ih k (by simp) (List.append_eq_nil_iff.1 h).1

theorem Sub.lvl_eq {d off : Nat} {fl : List Entry} (h : Sub s lvl d off fl) : lvl off = d := by
  cases h <;> assumption

theorem Sub.inv_leaf {off : Nat} {fl : List Entry} (h : Sub s lvl 0 off fl) : s off = some fl := by
  cases h; assumption

theorem Sub.inv_node {d off : Nat} {fl : List Entry} (h : Sub s lvl (d + 1) off fl) :
    ∃ kids, kids ≠ [] ∧ s off = some (idx kids) ∧ (∀ k ∈ kids, Sub s lvl d k.1 k.2) ∧
      fl = flat kids := by
  cases h with
  | node _ _ kids h1 h2 h3 h4 => exact ⟨kids, h1, h2, h4, rfl⟩

theorem Sub.stored {d off : Nat} {fl : List Entry} (h : Sub s lvl d off fl) :
    ∃ blk, s off = some blk := by
  cases h with
  | leaf _ _ h1 => exact ⟨_, h1⟩
  | node _ _ _ _ h2 => exact ⟨_, h2⟩

/-! ### Cache soundness (bottom-first list; `k` = depth of the head) -/

/-- A recorded offset that is labelled with the block's own depth is the offset the held block
    was loaded from. -/
def CSr (s : Store) (lvl : Nat → Nat) : Nat → List (Nat × LC) → Prop
  | _, [] => True
  | k, (o, c) :: ps => (lvl o = k → s o = some c.es) ∧ CSr s lvl (k + 1) ps

theorem CSr_append {k : Nat} {a b : List (Nat × LC)} :
    CSr s lvl k (a ++ b) ↔ CSr s lvl k a ∧ CSr s lvl (k + a.length) b := by
  induction a generalizing k with
  | nil => simp [CSr]
  | cons x a ih =>
    obtain ⟨o, c⟩ := x
    simp only [List.cons_append, CSr, ih, List.length_cons, and_assoc]
    rw [show k + 1 + a.length = k + (a.length + 1) by omega]

/-! ### Paths (bottom-first list of index-level cursors above a block) -/

/-- `UpPath … k off fl parents pre post`: the subtree `(k, off, fl)` sits in the tree
    `(D, root, es)` with `es = pre ++ fl ++ post`, and `parents` (its ancestors' cursors, nearest
    first) hold the ancestors' blocks, each positioned on the child leading to it. -/
def UpPath (s : Store) (lvl : Nat → Nat) (D root : Nat) (es : List Entry) :
    Nat → Nat → List Entry → List (Nat × LC) → List Entry → List Entry → Prop
  | k, off, fl, [], pre, post => k = D ∧ off = root ∧ fl = es ∧ pre = [] ∧ post = []
  | k, off, fl, (_, c) :: parents, pre, post =>
    ∃ poff kpre kpost pre' post',
      pre = pre' ++ flat kpre ∧ post = flat kpost ++ post' ∧
      (∀ kk ∈ kpre ++ (off, fl) :: kpost, Sub s lvl k kk.1 kk.2) ∧
      c.es = idx (kpre ++ (off, fl) :: kpost) ∧ c.pos = some kpre.length ∧
      UpPath s lvl D root es (k + 1) poff (flat (kpre ++ (off, fl) :: kpost)) parents pre' post'

variable {D root : Nat} {es : List Entry}

theorem UpPath.split {k off : Nat} {fl : List Entry} {parents : List (Nat × LC)}
    {pre post : List Entry} (h : UpPath s lvl D root es k off fl parents pre post) :
    es = pre ++ fl ++ post := by
  induction parents generalizing k off fl pre post with
  | nil =>
    obtain ⟨_, _, h3, h4, h5⟩ := h
    simp [h3, h4, h5]
  | cons x ps ih =>
    obtain ⟨o, c⟩ := x
    obtain ⟨poff, kpre, kpost, pre', post', h1, h2, _, _, _, h6⟩ := h
    rw [ih h6, h1, h2, flat_zip]
    simp [List.append_assoc]

theorem UpPath.depth {k off : Nat} {fl : List Entry} {parents : List (Nat × LC)}
    {pre post : List Entry} (h : UpPath s lvl D root es k off fl parents pre post) :
    k + parents.length = D := by
  induction parents generalizing k off fl pre post with
  | nil => exact h.1
  | cons x ps ih =>
    obtain ⟨o, c⟩ := x
    obtain ⟨poff, kpre, kpost, pre', post', _, _, _, _, _, h6⟩ := h
    have := ih h6
    simp only [List.length_cons]; omega

theorem UpPath.head_current {k off o : Nat} {fl : List Entry} {c : LC} {ps : List (Nat × LC)}
    {pre post : List Entry} (h : UpPath s lvl D root es k off fl ((o, c) :: ps) pre post) :
    LC.current c = some (lastKey fl, be64 off) := by
  obtain ⟨poff, kpre, kpost, pre', post', _, _, _, h4, h5, _⟩ := h
  unfold LC.current
  rw [h5, h4]
  exact idx_zip_get kpre (off, fl) kpost

theorem UpPath.asc {k off : Nat} {fl : List Entry} {parents : List (Nat × LC)}
    {pre post : List Entry} (h : UpPath s lvl D root es k off fl parents pre post)
    (hasc : StrictAsc es) : StrictAsc fl := by
  rw [h.split] at hasc
  exact StrictAsc.right (StrictAsc.left hasc)

end

end Grenad.TCursor
