/-
  Grenad.Proofs.SorterEvents — two small automata over the sorter's event list:
  `allocRun` accepts exactly the alloc/dealloc disciplines of a single buffer that is reallocated
  by "allocate the new one, then free the old one", `chunkRun B` accepts the event lists in which
  the number of live chunk handles stays within `0..B` on every prefix.
-/
import Grenad.Proofs.SorterArith

namespace Grenad

/-! ### Allocation discipline -/

/-- Live allocations: none, one buffer, or (during a reallocation) the old and the new buffer. -/
inductive AState where
  | none
  | one (a : Nat)
  | two (old new : Nat)
  deriving DecidableEq, Repr

def allocStep : AState → SEvent → Option AState
  | st, .create => some st
  | st, .dropChunk => some st
  | .none, .alloc a => some (.one a)
  | .one a, .alloc b => some (.two a b)
  | .two _ _, .alloc _ => Option.none
  | .none, .dealloc _ => Option.none
  | .one a, .dealloc c => if c = a then some .none else Option.none
  | .two a b, .dealloc c => if c = a then some (.one b) else Option.none

def allocRun : AState → List SEvent → Option AState
  | st, [] => some st
  | st, x :: r => match allocStep st x with
    | Option.none => Option.none
    | some st' => allocRun st' r

theorem allocRun_append (st : AState) (a b : List SEvent) :
    allocRun st (a ++ b) = (allocRun st a).bind (fun st' => allocRun st' b) := by
  induction a generalizing st with
  | nil => simp [allocRun]
  | cons x r ih =>
    simp only [List.cons_append, allocRun]
    cases allocStep st x with
    | none => simp
    | some st' => simp [ih]

theorem allocRun_append_of {st st' : AState} {a : List SEvent} (h : allocRun st a = some st')
    (b : List SEvent) : allocRun st (a ++ b) = allocRun st' b := by
  rw [allocRun_append, h]; rfl

theorem allocRun_realloc (b j : Nat) :
    allocRun (.one b) (Entries.reallocEvents b j) = some (.one (b * 2 ^ j)) := by
  induction j generalizing b with
  | zero => simp [Entries.reallocEvents, allocRun]
  | succ j ih =>
    simp only [Entries.reallocEvents, allocRun, allocStep, if_true, ih]
    congr 2
    rw [Nat.pow_succ, Nat.mul_comm (2 ^ j), Nat.mul_assoc]

def allocSizes : List SEvent → List Nat
  | [] => []
  | .alloc a :: r => a :: allocSizes r
  | _ :: r => allocSizes r

def deallocSizes : List SEvent → List Nat
  | [] => []
  | .dealloc a :: r => a :: deallocSizes r
  | _ :: r => deallocSizes r

def AState.pending : AState → List Nat
  | .none => []
  | .one a => [a]
  | .two a b => [a, b]

/-- An accepted event list frees, in order, exactly the sizes that were live or allocated,
    except for those still live at the end. -/
theorem allocRun_balanced {st st' : AState} {ev : List SEvent} (h : allocRun st ev = some st') :
    st.pending ++ allocSizes ev = deallocSizes ev ++ st'.pending := by
  induction ev generalizing st with
  | nil => simp [allocRun] at h; subst h; simp [allocSizes, deallocSizes]
  | cons x r ih =>
    simp only [allocRun] at h
    cases hs : allocStep st x with
    | none => simp [hs] at h
    | some st1 =>
      simp only [hs] at h
      have := ih h
      cases x with
      | create => simp [allocStep] at hs; subst hs; simpa [allocSizes, deallocSizes] using this
      | dropChunk => simp [allocStep] at hs; subst hs; simpa [allocSizes, deallocSizes] using this
      | alloc a =>
        cases st with
        | none => simp [allocStep] at hs; subst hs
                  simpa [allocSizes, deallocSizes, AState.pending] using this
        | one b => simp [allocStep] at hs; subst hs
                   simpa [allocSizes, deallocSizes, AState.pending] using this
        | two b c => simp [allocStep] at hs
      | dealloc a =>
        cases st with
        | none => simp [allocStep] at hs
        | one b =>
          simp only [allocStep] at hs
          split at hs
          · simp at hs; subst hs; subst a
            simpa [allocSizes, deallocSizes, AState.pending] using this
          · simp at hs
        | two b c =>
          simp only [allocStep] at hs
          split at hs
          · simp at hs; subst hs; subst a
            simpa [allocSizes, deallocSizes, AState.pending] using this
          · simp at hs

theorem allocRun_of_prefix {st st' : AState} {ev p : List SEvent} (h : allocRun st ev = some st')
    (hp : p <+: ev) : ∃ st1, allocRun st p = some st1 := by
  obtain ⟨t, rfl⟩ := hp
  rw [allocRun_append] at h
  cases hq : allocRun st p with
  | none => simp [hq] at h
  | some st1 => exact ⟨st1, rfl⟩

theorem AState.pending_length_le (st : AState) : st.pending.length ≤ 2 := by
  cases st <;> simp [AState.pending]

/-! ### Live chunk handles -/

/-- Follow the number of live chunk handles; fail when it would exceed `B` or drop below 0. -/
def chunkRun (B : Nat) : Nat → List SEvent → Option Nat
  | n, [] => some n
  | n, .create :: r => if n + 1 ≤ B then chunkRun B (n + 1) r else none
  | n, .dropChunk :: r => if 0 < n then chunkRun B (n - 1) r else none
  | n, .alloc _ :: r => chunkRun B n r
  | n, .dealloc _ :: r => chunkRun B n r

theorem chunkRun_append (B n : Nat) (a b : List SEvent) :
    chunkRun B n (a ++ b) = (chunkRun B n a).bind (fun n' => chunkRun B n' b) := by
  induction a generalizing n with
  | nil => simp [chunkRun]
  | cons x r ih =>
    cases x <;> simp only [List.cons_append, chunkRun, ih]
    · split <;> simp
    · split <;> simp

theorem chunkRun_append_of {B n n' : Nat} {a : List SEvent} (h : chunkRun B n a = some n')
    (b : List SEvent) : chunkRun B n (a ++ b) = chunkRun B n' b := by
  rw [chunkRun_append, h]; rfl

theorem chunkRun_realloc (B n b j : Nat) : chunkRun B n (Entries.reallocEvents b j) = some n := by
  induction j generalizing b with
  | zero => simp [Entries.reallocEvents, chunkRun]
  | succ j ih => simp [Entries.reallocEvents, chunkRun, ih]

theorem chunkRun_drops (B n : Nat) {α : Type} (l : List α) :
    chunkRun B (n + l.length) (l.map (fun _ => SEvent.dropChunk)) = some n := by
  induction l generalizing n with
  | nil => simp [chunkRun]
  | cons x r ih =>
    simp only [List.map_cons, List.length_cons, chunkRun]
    have : 0 < n + (r.length + 1) := by omega
    simp only [this, if_true]
    have e : n + (r.length + 1) - 1 = n + r.length := by omega
    rw [e, ih]

def creates (ev : List SEvent) : Nat := ev.count .create
def drops (ev : List SEvent) : Nat := ev.count .dropChunk

/-- Acceptance by `chunkRun B` means: on every prefix of the event list the number of live chunk
    handles (creates minus drops, plus the initial ones) is between 0 and `B`. -/
theorem chunkRun_prefix {B n n' : Nat} {ev : List SEvent} (h : chunkRun B n ev = some n')
    (hn : n ≤ B) :
    n + creates ev = n' + drops ev ∧
    ∀ p, p <+: ev → n + creates p ≤ B + drops p ∧ drops p ≤ n + creates p := by
  induction ev generalizing n with
  | nil =>
    simp [chunkRun] at h; subst h
    refine ⟨by simp [creates, drops], ?_⟩
    intro p hp
    have : p = [] := by simpa using hp
    subst this; simp [creates, drops]; exact hn
  | cons x r ih =>
    have key : ∀ m, chunkRun B m r = some n' → m ≤ B →
        n + creates [x] = m + drops [x] →
        n + creates (x :: r) = n' + drops (x :: r) ∧
        ∀ p, p <+: x :: r → n + creates p ≤ B + drops p ∧ drops p ≤ n + creates p := by
      intro m hm hmB hx
      have ⟨i1, i2⟩ := ih hm hmB
      have cc : ∀ l, creates (x :: l) = creates [x] + creates l := by
        intro l; simp [creates, List.count_cons]; omega
      have dc : ∀ l, drops (x :: l) = drops [x] + drops l := by
        intro l; simp [drops, List.count_cons]; omega
      refine ⟨by rw [cc, dc]; omega, ?_⟩
      intro p hp
      rw [List.prefix_cons_iff] at hp
      rcases hp with rfl | ⟨t, rfl, ht⟩
      · simp [creates, drops]; exact hn
      · have := i2 t ht
        rw [cc, dc]; omega
    cases x with
    | create =>
      simp only [chunkRun] at h
      split at h
      · exact key (n + 1) h (by omega) (by simp [creates, drops])
      · simp at h
    | dropChunk =>
      simp only [chunkRun] at h
      split at h
      · exact key (n - 1) h (by omega) (by simp [creates, drops]; omega)
      · simp at h
    | alloc a => exact key n (by simpa [chunkRun] using h) hn (by simp [creates, drops])
    | dealloc a => exact key n (by simpa [chunkRun] using h) hn (by simp [creates, drops])

end Grenad
