/-
  Grenad.Proofs.EntriesBytesProofs — the byte-level buffer `EntriesB` (Model/EntriesBytes.lean)
  refines the numeric `Entries` (Model/Sorter.lean):

  * `Rep b e view`: same numbers, and the allocation is
        `encodeBounds bounds ++ gap ++ backBytes e.items`
    where every bound is in range of the entry bytes and denotes the corresponding element of
    `view` (`view` is a permutation of `e.items`; equal to it as long as the bounds are not sorted).
  * `withCapacity`, `insert` (with any number of reallocations), `sortBoundsWith`, `clear`
    preserve `Rep` and succeed / trap exactly as the numeric model does; `iter` returns `view`.
  * `SorterB` simulates `Sorter` call by call.
-/
import Grenad.Model.EntriesBytes
import Grenad.Proofs.SorterRun

namespace Grenad
namespace EntriesB

/-! ### Fixed-width little-endian integers, bound records -/

theorem leN_len (n v : Nat) : (leN n v).length = n := by
  induction n generalizing v with
  | zero => rfl
  | succ n ih => simp [leN, ih]

theorem leVal_leN_mod (n v : Nat) : leVal (leN n v) = v % 256 ^ n := by
  induction n generalizing v with
  | zero => simp [leN, leVal, Nat.mod_one]
  | succ n ih =>
    have h : ((v % 256).toUInt8).toNat = v % 256 := by
      show (UInt8.ofNat (v % 256)).toNat = v % 256
      rw [UInt8.toNat_ofNat']
      exact Nat.mod_eq_of_lt (Nat.mod_lt _ (by decide))
    simp only [leN, leVal, ih, h]
    rw [Nat.pow_succ, Nat.mul_comm (256 ^ n) 256, Nat.mod_mul]

theorem le64_len (v : Nat) : (le64 v).length = 8 := leN_len 8 v
theorem le32_len (v : Nat) : (le32 v).length = 4 := leN_len 4 v

theorem leVal_le64' {v : Nat} (h : v < 2 ^ 64) : leVal (le64 v) = v := by
  rw [le64, leVal_leN_mod]; exact Nat.mod_eq_of_lt (by simpa using h)

theorem leVal_le32' {v : Nat} (h : v < 2 ^ 32) : leVal (le32 v) = v := by
  rw [le32, leVal_leN_mod]; exact Nat.mod_eq_of_lt (by simpa using h)

@[simp] theorem encodeBound_length (a b c : Nat) : (encodeBound a b c).length = 16 := by
  simp [encodeBound, le64_len, le32_len]

@[simp] theorem encode_length (bd : EntryBound) : bd.encode.length = 16 := encodeBound_length _ _ _

/-- **Round trip of one bound record.** -/
theorem decodeBound_encodeBound {a b c : Nat} (ha : a < 2 ^ 64) (hb : b < 2 ^ 32)
    (hc : c < 2 ^ 32) : decodeBound (encodeBound a b c) = ⟨a, b, c⟩ := by
  have h1 : (encodeBound a b c).take 8 = le64 a := by
    unfold encodeBound; rw [List.append_assoc]; exact List.take_left' (le64_len a)
  have h2 : (encodeBound a b c).drop 8 = le32 b ++ le32 c := by
    unfold encodeBound; rw [List.append_assoc]; exact List.drop_left' (le64_len a)
  have h3 : (encodeBound a b c).drop 12 = le32 c := by
    unfold encodeBound; exact List.drop_left' (by simp [le64_len, le32_len])
  unfold decodeBound
  rw [h1, h2, h3, List.take_left' (le32_len b), List.take_of_length_le (by simp [le32_len]),
    leVal_le64' ha, leVal_le32' hb, leVal_le32' hc]

/-- The fields of a bound fit their machine types. -/
def Fits (bd : EntryBound) : Prop :=
  bd.keyStart < 2 ^ 64 ∧ bd.keyLen < 2 ^ 32 ∧ bd.dataLen < 2 ^ 32

theorem decode_encode {bd : EntryBound} (h : Fits bd) : decodeBound bd.encode = bd :=
  decodeBound_encodeBound h.1 h.2.1 h.2.2

@[simp] theorem encodeBounds_length (l : List EntryBound) :
    (encodeBounds l).length = 16 * l.length := by
  induction l with
  | nil => rfl
  | cons b r ih => simp [encodeBounds, ih]; omega

theorem encodeBounds_append (l r : List EntryBound) :
    encodeBounds (l ++ r) = encodeBounds l ++ encodeBounds r := by
  induction l with
  | nil => rfl
  | cons b l ih => simp [encodeBounds, ih]

theorem encodeBounds_single (bd : EntryBound) : encodeBounds [bd] = bd.encode := by
  simp [encodeBounds]

/-- **Round trip of the bounds area**, whatever follows it. -/
theorem decodeBounds_encodeBounds (l : List EntryBound) (h : ∀ bd ∈ l, Fits bd) (rest : Bytes) :
    decodeBounds l.length (encodeBounds l ++ rest) = l := by
  induction l with
  | nil => rfl
  | cons b r ih =>
    simp only [encodeBounds, List.length_cons, decodeBounds, boundSize, List.append_assoc]
    rw [List.take_left' (encode_length b), List.drop_left' (encode_length b),
      decode_encode (h b (by simp)), ih (fun bd hbd => h bd (by simp [hbd]))]

/-! ### Guarded slice reads and writes -/

theorem sub_ok {a b : Nat} (h : b ≤ a) : Entries.sub a b = .ok (a - b) := by
  simp [Entries.sub, h]

/-- Overwriting the middle segment. -/
theorem writeAt_mid (A old C new : Bytes) (off : Nat) (hoff : off = A.length)
    (hlen : new.length = old.length) :
    writeAt (A ++ (old ++ C)) off new = .ok (A ++ (new ++ C)) := by
  subst hoff
  unfold writeAt
  have h : A.length + new.length ≤ (A ++ (old ++ C)).length := by simp; omega
  rw [if_pos h, List.take_left' rfl, ← List.append_assoc A old C,
    List.drop_left' (by simp [hlen]), List.append_assoc]

/-- Overwriting the first segment. -/
theorem writeAt_front (old C new : Bytes) (hlen : new.length = old.length) :
    writeAt (old ++ C) 0 new = .ok (new ++ C) := by
  have := writeAt_mid [] old C new 0 rfl hlen
  simpa using this

theorem writeAt_length {s src s' : Bytes} {a : Nat} (h : writeAt s a src = .ok s') :
    s'.length = s.length := by
  unfold writeAt at h
  split at h
  · cases h; simp; omega
  · cases h

/-- Reading the middle segment. -/
theorem readAt_mid (A M C : Bytes) (off n : Nat) (hoff : off = A.length) (hn : n = M.length) :
    readAt (A ++ (M ++ C)) off n = .ok M := by
  subst hoff hn
  unfold readAt
  have h : A.length + M.length ≤ (A ++ (M ++ C)).length := by simp
  rw [if_pos h, List.drop_left' rfl, List.take_left' rfl]

theorem drop_len_add (x y : Bytes) (n : Nat) : (x ++ y).drop (x.length + n) = y.drop n := by
  induction x with
  | nil => simp
  | cons a x ih => simp [Nat.add_right_comm, ih]

/-- A list splits at any position within it. -/
theorem split_at_len (l : Bytes) (n : Nat) (h : n ≤ l.length) :
    ∃ a b, l = a ++ b ∧ a.length = n :=
  ⟨l.take n, l.drop n, (List.take_append_drop n l).symm, by simp; omega⟩

/-- … and at any position counted from its end. -/
theorem split_at_len_back (l : Bytes) (n : Nat) (h : n ≤ l.length) :
    ∃ a b, l = a ++ b ∧ b.length = n := by
  obtain ⟨a, b, hab, ha⟩ := split_at_len l (l.length - n) (by omega)
  refine ⟨a, b, hab, ?_⟩
  have : l.length = a.length + b.length := by rw [hab]; simp
  omega

@[simp] theorem fresh_length (g : Nat → Nat → UInt8) (n : Nat) : (fresh g n).length = n := by
  simp [fresh]

/-! ### The entry bytes at the back; what a bound denotes -/

/-- The bytes of the entries region: the last inserted entry first (lowest address). -/
def backBytes : List Entry → Bytes
  | [] => []
  | e :: r => backBytes r ++ (e.1 ++ e.2)

theorem backBytes_snoc (l : List Entry) (k v : Bytes) :
    backBytes (l ++ [(k, v)]) = (k ++ v) ++ backBytes l := by
  induction l with
  | nil => simp [backBytes]
  | cons e r ih => simp [backBytes, ih]

@[simp] theorem backBytes_length (l : List Entry) : (backBytes l).length = itemsSize l := by
  induction l with
  | nil => rfl
  | cons e r ih => simp [backBytes, itemsSize, ih]; omega

/-- A bound lies within the entry bytes `back` (and its fields fit their machine types). -/
def InRange (back : Bytes) (bd : EntryBound) : Prop :=
  bd.keyLen + bd.dataLen ≤ bd.keyStart ∧ bd.keyStart ≤ back.length ∧ Fits bd

/-- The entry a bound denotes: `key_start` counts from the END of the buffer. -/
def denote (back : Bytes) (bd : EntryBound) : Entry :=
  ((back.drop (back.length - bd.keyStart)).take bd.keyLen,
   (back.drop (back.length - bd.keyStart + bd.keyLen)).take bd.dataLen)

theorem InRange.prepend {back : Bytes} {bd : EntryBound} (h : InRange back bd) (x : Bytes) :
    InRange (x ++ back) bd := by
  refine ⟨h.1, ?_, h.2.2⟩
  have := h.2.1
  simp; omega

/-- Adding bytes below the entries region (a new entry, the gap, the bounds) does not change
    what an in-range bound denotes. -/
theorem denote_prepend {back : Bytes} {bd : EntryBound} (h : InRange back bd) (x : Bytes) :
    denote (x ++ back) bd = denote back bd := by
  have h1 := h.2.1
  have e1 : (x ++ back).length - bd.keyStart = x.length + (back.length - bd.keyStart) := by
    simp; omega
  unfold denote
  rw [e1, Nat.add_assoc, drop_len_add, drop_len_add]

/-- The bound written by `insert` denotes the inserted entry. -/
theorem denote_new (back k v : Bytes) :
    denote ((k ++ v) ++ back) ⟨back.length + k.length + v.length, k.length, v.length⟩ = (k, v) := by
  unfold denote
  have e1 : ((k ++ v) ++ back).length - (back.length + k.length + v.length) = 0 := by
    simp; omega
  rw [e1]
  simp only [List.drop_zero, Nat.zero_add, List.append_assoc]
  rw [List.take_left' rfl, List.drop_left' rfl, List.take_left' rfl]

theorem readEntry_eq (gap back : Bytes) (bd : EntryBound) (h : InRange back bd) :
    readEntry (gap ++ back) bd = .ok (denote back bd) := by
  obtain ⟨h1, h2, _⟩ := h
  have hs : Entries.sub (gap ++ back).length bd.keyStart
      = .ok (gap.length + (back.length - bd.keyStart)) := by
    rw [sub_ok (by simp; omega)]; congr 1; simp; omega
  have r1 : ∀ n off, off + n ≤ back.length →
      readAt (gap ++ back) (gap.length + off) n = .ok ((back.drop off).take n) := by
    intro n off hle
    unfold readAt
    rw [if_pos (by simp; omega), drop_len_add]
  unfold readEntry
  rw [hs]
  simp only
  rw [r1 _ _ (by omega), Nat.add_assoc, r1 _ _ (by omega)]
  rfl

theorem readKey_eq (gap back : Bytes) (bd : EntryBound) (h : InRange back bd) :
    readKey (gap ++ back) bd = .ok (denote back bd).1 := by
  obtain ⟨h1, h2, _⟩ := h
  have hs : Entries.sub (gap ++ back).length bd.keyStart
      = .ok (gap.length + (back.length - bd.keyStart)) := by
    rw [sub_ok (by simp; omega)]; congr 1; simp; omega
  unfold readKey
  rw [hs]
  simp only
  unfold readAt
  rw [if_pos (by simp; omega), drop_len_add]
  rfl

theorem readEntries_eq (gap back : Bytes) (l : List EntryBound) (h : ∀ bd ∈ l, InRange back bd) :
    readEntries (gap ++ back) l = .ok (l.map (denote back)) := by
  induction l with
  | nil => rfl
  | cons bd r ih =>
    simp only [readEntries, readEntry_eq gap back bd (h bd (by simp)),
      ih (fun x hx => h x (by simp [hx])), List.map_cons]

theorem readKeys_eq (gap back : Bytes) (l : List EntryBound) (h : ∀ bd ∈ l, InRange back bd) :
    readKeys (gap ++ back) l = .ok (l.map (fun bd => ((denote back bd).1, bd))) := by
  induction l with
  | nil => rfl
  | cons bd r ih =>
    simp only [readKeys, readKey_eq gap back bd (h bd (by simp)),
      ih (fun x hx => h x (by simp [hx])), List.map_cons]

/-! ### The abstraction relation and the layout invariant -/

/-- **Abstraction relation**: the byte-level buffer and the numeric one carry the same numbers,
    and the allocation of the numeric one is live and as long as the byte string. -/
structure Abs (b : EntriesB) (e : Entries) : Prop where
  elen : b.entriesLen = e.entriesLen
  cnt  : b.boundsCount = e.boundsCount
  len  : e.bufLen = b.buf.length
  live : e.live = true

/-- **Layout**: the allocation is the bound records, a gap, and the entry bytes; every bound lies
    within the entry bytes. -/
structure Lay (b : EntriesB) (items : List Entry) (bounds : List EntryBound) (gap : Bytes) :
    Prop where
  buf  : b.buf = encodeBounds bounds ++ (gap ++ backBytes items)
  cnt  : b.boundsCount = bounds.length
  elen : b.entriesLen = itemsSize items
  rng  : ∀ bd ∈ bounds, InRange (backBytes items) bd

theorem Lay.length {b : EntriesB} {items : List Entry} {bounds : List EntryBound} {gap : Bytes}
    (h : Lay b items bounds gap) :
    b.buf.length = 16 * b.boundsCount + gap.length + b.entriesLen := by
  rw [h.buf, h.cnt, h.elen]; simp; omega

/-- The two regions do not overlap. -/
theorem Lay.disjoint {b : EntriesB} {items : List Entry} {bounds : List EntryBound} {gap : Bytes}
    (h : Lay b items bounds gap) : 16 * b.boundsCount + b.entriesLen ≤ b.buf.length := by
  have := h.length; omega

/-- The bound `insert` writes for `(k, v)` after `items`. -/
def newBound (items : List Entry) (k v : Bytes) : EntryBound :=
  ⟨itemsSize items + k.length + v.length, k.length, v.length⟩

/-- **`store`**: with room for 16 + |k| + |v| bytes in the gap, the three writes are in range and
    produce `bounds ++ [new bound]`, a smaller gap, and `k ++ v` in front of the entry bytes. -/
theorem store_lay {b : EntriesB} {items : List Entry} {bounds : List EntryBound} {gap : Bytes}
    (h : Lay b items bounds gap) (k v : Bytes) (hroom : 16 + k.length + v.length ≤ gap.length)
    (hk : k.length < 2 ^ 32) (hv : v.length < 2 ^ 32) (hsmall : b.buf.length < 2 ^ 64) :
    ∃ b' gap', store b k v = .ok b' ∧
      Lay b' (items ++ [(k, v)]) (bounds ++ [newBound items k v]) gap' ∧
      b'.buf.length = b.buf.length ∧ b'.entriesLen = b.entriesLen + k.length + v.length ∧
      b'.boundsCount = b.boundsCount + 1 := by
  have hlen := h.length
  obtain ⟨g1, r1, hg1, hl1⟩ := split_at_len gap 16 (by omega)
  have hr1 : r1.length = gap.length - 16 := by
    have : gap.length = g1.length + r1.length := by rw [hg1]; simp
    omega
  obtain ⟨r2, g4, hg4, hl4⟩ := split_at_len_back r1 v.length (by omega)
  have hr2 : r2.length = gap.length - 16 - v.length := by
    have : r1.length = r2.length + g4.length := by rw [hg4]; simp
    omega
  obtain ⟨g2, g3, hg3, hl3⟩ := split_at_len_back r2 k.length (by omega)
  have hg2 : g2.length = gap.length - 16 - v.length - k.length := by
    have : r2.length = g2.length + g3.length := by rw [hg3]; simp
    omega
  have hgap : gap = g1 ++ (g2 ++ (g3 ++ g4)) := by rw [hg1, hg4, hg3]; simp
  let E := encodeBounds bounds
  let back := backBytes items
  have hE : E.length = 16 * b.boundsCount := by simp [E, h.cnt]
  have hback : back.length = b.entriesLen := by simp [back, h.elen]
  have hb0 : b.buf = (E ++ (g1 ++ g2)) ++ (g3 ++ (g4 ++ back)) := by
    rw [h.buf, hgap]; simp [E, back]
  have hsub : Entries.sub b.buf.length (b.entriesLen + k.length + v.length)
      = .ok ((E ++ (g1 ++ g2)).length) := by
    rw [sub_ok (by omega)]; congr 1; simp [hE, hl1, hg2]; omega
  have w1 : writeAt b.buf (E ++ (g1 ++ g2)).length k
      = .ok ((E ++ (g1 ++ g2)) ++ (k ++ (g4 ++ back))) := by
    rw [hb0]; exact writeAt_mid _ _ _ _ _ rfl hl3.symm
  have w2 : writeAt ((E ++ (g1 ++ g2)) ++ (k ++ (g4 ++ back)))
      ((E ++ (g1 ++ g2)).length + k.length) v
      = .ok (((E ++ (g1 ++ g2)) ++ k) ++ (v ++ back)) := by
    rw [← List.append_assoc (E ++ (g1 ++ g2)) k]
    exact writeAt_mid _ _ _ _ _ (by simp; omega) hl4.symm
  have hb2 : ((E ++ (g1 ++ g2)) ++ k) ++ (v ++ back) = E ++ (g1 ++ (g2 ++ (k ++ (v ++ back)))) := by
    simp
  have w3 : writeAt (E ++ (g1 ++ (g2 ++ (k ++ (v ++ back))))) (b.boundsCount * boundSize)
      (encodeBound (b.entriesLen + k.length + v.length) k.length v.length)
      = .ok (E ++ (encodeBound (b.entriesLen + k.length + v.length) k.length v.length
              ++ (g2 ++ (k ++ (v ++ back))))) :=
    writeAt_mid _ _ _ _ _ (by simp [hE, boundSize]; omega) (by simp [hl1])
  have hguard : ¬ ((b.boundsCount + 1) * boundSize
      > (E ++ (g1 ++ (g2 ++ (k ++ (v ++ back))))).length) := by
    simp [hE, hl1, boundSize]; omega
  refine ⟨⟨E ++ (encodeBound (b.entriesLen + k.length + v.length) k.length v.length
        ++ (g2 ++ (k ++ (v ++ back)))), b.entriesLen + k.length + v.length, b.boundsCount + 1⟩,
    g2, ?_, ⟨?_, ?_, ?_, ?_⟩, ?_, rfl, rfl⟩
  · unfold store
    simp only [hsub, w1, w2, hb2, w3, hguard, if_false]
  · show E ++ (encodeBound (b.entriesLen + k.length + v.length) k.length v.length
        ++ (g2 ++ (k ++ (v ++ back)))) = _
    rw [encodeBounds_append, encodeBounds_single, backBytes_snoc, h.elen]
    simp [E, back, newBound, EntryBound.encode]
  · show b.boundsCount + 1 = _
    simp [h.cnt]
  · show b.entriesLen + k.length + v.length = _
    simp [itemsSize_append, itemsSize, h.elen]; omega
  · intro bd hbd
    rw [backBytes_snoc]
    rcases List.mem_append.1 hbd with hb | hb
    · exact (h.rng bd hb).prepend _
    · simp only [List.mem_singleton] at hb
      subst hb
      refine ⟨?_, ?_, ?_, hk, hv⟩
      · simp [newBound]
      · simp [newBound]; omega
      · show itemsSize items + k.length + v.length < 2 ^ 64
        rw [← h.elen]; omega
  · show (E ++ (encodeBound (b.entriesLen + k.length + v.length) k.length v.length
        ++ (g2 ++ (k ++ (v ++ back))))).length = _
    rw [hlen]; simp [hE, hback, hg2]; omega

theorem alloc_ok (g : Nat → Nat → UInt8) {n : Nat} (hal : n % 16 = 0) (h0 : n ≠ 0)
    (hlt : n < 2 ^ 63) : alloc g n = .ok (fresh g n, [.alloc n]) := by
  unfold alloc Entries.alloc
  simp only [Entries.roundUp_of_mod hal, h0, if_false, show ¬ (n ≥ 2 ^ 63) by omega]

/-- **`reallocate_buffer`**: all four slice accesses are in range; the new allocation holds the
    same bound records at its front and the same entry bytes at its back. -/
theorem reallocate_lay (g : Nat → Nat → UInt8) {b : EntriesB} {items : List Entry}
    {bounds : List EntryBound} {gap : Bytes} (h : Lay b items bounds gap)
    (hal : b.buf.length % 16 = 0) (hpos : 16 ≤ b.buf.length) (hsm : b.buf.length < 2 ^ 62) :
    ∃ b' gap', reallocate g b = .ok (b', [.alloc (b.buf.length * 2), .dealloc b.buf.length]) ∧
      Lay b' items bounds gap' ∧ b'.buf.length = b.buf.length * 2 ∧
      b'.entriesLen = b.entriesLen ∧ b'.boundsCount = b.boundsCount := by
  have hlen := h.length
  let E := encodeBounds bounds
  let back := backBytes items
  have hE : E.length = 16 * b.boundsCount := by simp [E, h.cnt]
  have hback : back.length = b.entriesLen := by simp [back, h.elen]
  have hb0 : b.buf = E ++ (gap ++ back) := h.buf
  have r1 : readAt b.buf 0 (b.boundsCount * boundSize) = .ok E := by
    have := readAt_mid [] E (gap ++ back) 0 (b.boundsCount * boundSize) rfl
      (by simp [hE, boundSize]; omega)
    rw [hb0]; simpa using this
  have hsub : Entries.sub b.buf.length b.entriesLen = .ok (E ++ gap).length := by
    rw [sub_ok (by omega)]; congr 1; simp [hE]; omega
  have r2 : readAt b.buf (E ++ gap).length (b.buf.length - (E ++ gap).length) = .ok back := by
    have hn : b.buf.length - (E ++ gap).length = back.length := by simp [hE, hback]; omega
    rw [hn, hb0]
    have := readAt_mid (E ++ gap) back [] (E ++ gap).length back.length rfl rfl
    simpa using this
  have hg : ¬ (b.buf.length * 2 ≥ usizeLimit) := by unfold usizeLimit; omega
  obtain ⟨f1, r, hf1, hl1⟩ := split_at_len (fresh g (b.buf.length * 2)) E.length (by simp; omega)
  have hr : r.length = b.buf.length * 2 - E.length := by
    have : (fresh g (b.buf.length * 2)).length = f1.length + r.length := by rw [hf1]; simp
    simp at this; omega
  obtain ⟨f2, f3, hf3, hl3⟩ := split_at_len_back r back.length (by omega)
  have hf2 : f2.length = b.buf.length * 2 - E.length - back.length := by
    have : r.length = f2.length + f3.length := by rw [hf3]; simp
    omega
  have ha : alloc g (b.buf.length * 2) = .ok (f1 ++ (f2 ++ f3), [.alloc (b.buf.length * 2)]) := by
    rw [alloc_ok g (by omega) (by omega) (by omega), hf1, hf3]
  have w1 : writeAt (f1 ++ (f2 ++ f3)) 0 E = .ok (E ++ (f2 ++ f3)) := writeAt_front _ _ _ hl1.symm
  have hsub2 : Entries.sub (E ++ (f2 ++ f3)).length b.entriesLen = .ok (E ++ f2).length := by
    rw [sub_ok (by simp; omega)]; congr 1; simp [hl3, hback]; omega
  have hg2 : ¬ ((E ++ (f2 ++ f3)).length - (E ++ f2).length ≠ back.length) := by
    simp [hl3]; omega
  have w2 : writeAt (E ++ (f2 ++ f3)) (E ++ f2).length back = .ok (E ++ (f2 ++ back)) := by
    have := writeAt_mid (E ++ f2) f3 [] back (E ++ f2).length rfl hl3.symm
    simpa using this
  refine ⟨{ b with buf := E ++ (f2 ++ back) }, f2, ?_, ⟨rfl, h.cnt, h.elen, h.rng⟩, ?_, rfl, rfl⟩
  · unfold reallocate
    simp only [r1, hsub, r2, hg, if_false, ha, w1, hsub2, hg2, w2, List.singleton_append]
  · show (E ++ (f2 ++ back)).length = _
    simp [hE, hf2, hback]; omega

theorem reallocate_big (g : Nat → Nat → UInt8) {b : EntriesB} {items : List Entry}
    {bounds : List EntryBound} {gap : Bytes} (h : Lay b items bounds gap)
    (hal : b.buf.length % 16 = 0) (hbig : 2 ^ 62 ≤ b.buf.length) :
    reallocate g b = .error .arith := by
  have hlen := h.length
  let E := encodeBounds bounds
  let back := backBytes items
  have hE : E.length = 16 * b.boundsCount := by simp [E, h.cnt]
  have hback : back.length = b.entriesLen := by simp [back, h.elen]
  have hb0 : b.buf = E ++ (gap ++ back) := h.buf
  have r1 : readAt b.buf 0 (b.boundsCount * boundSize) = .ok E := by
    have := readAt_mid [] E (gap ++ back) 0 (b.boundsCount * boundSize) rfl
      (by simp [hE, boundSize]; omega)
    rw [hb0]; simpa using this
  have hsub : Entries.sub b.buf.length b.entriesLen = .ok (E ++ gap).length := by
    rw [sub_ok (by omega)]; congr 1; simp [hE]; omega
  have r2 : readAt b.buf (E ++ gap).length (b.buf.length - (E ++ gap).length) = .ok back := by
    have hn : b.buf.length - (E ++ gap).length = back.length := by simp [hE, hback]; omega
    rw [hn, hb0]
    have := readAt_mid (E ++ gap) back [] (E ++ gap).length back.length rfl rfl
    simpa using this
  unfold reallocate
  simp only [r1, hsub, r2]
  by_cases hg : b.buf.length * 2 ≥ usizeLimit
  · simp [hg]
  · have c2 : ¬ (b.buf.length * 2 = 0) := by omega
    have c3 : b.buf.length * 2 ≥ 2 ^ 63 := by omega
    simp [hg, alloc, Entries.alloc, Entries.roundUp_of_mod (show b.buf.length * 2 % 16 = 0 by omega),
      c2, c3]

/-! ### The representation invariant and the simulation -/

/-- **Representation invariant.**  `b` represents the numeric buffer `e`, and iterating `b`
    yields `view` (a permutation of `e.items`: `e.items` itself until the bounds are sorted). -/
structure Rep (b : EntriesB) (e : Entries) (view : List Entry) : Prop where
  abs   : Abs b e
  inv   : Entries.Inv e
  small : b.buf.length < 2 ^ 63
  lay   : ∃ bounds gap, Lay b e.items bounds gap ∧
            bounds.map (denote (backBytes e.items)) = view
  perm  : view.Perm e.items

/-- Two results agree: both fail with the same error, or both succeed with related values. -/
def ResRel {ε α β : Type} (R : α → β → Prop) : Except ε α → Except ε β → Prop
  | .ok a, .ok b => R a b
  | .error x, .error y => x = y
  | _, _ => False

theorem fits_eq_of_abs {b : EntriesB} {e : Entries} (h : Abs b e) (k v : Bytes) :
    fits b k v = Entries.fits e k v := by
  unfold fits Entries.fits remaining Entries.remaining
  simp only [h.elen, h.cnt, h.len, h.live, Bool.not_true, Bool.false_eq_true, if_false]
  rfl

theorem Rep.store {b : EntriesB} {e : Entries} {view : List Entry} (h : Rep b e view)
    (k v : Bytes) (hk : k.length ≤ u32Max) (hv : v.length ≤ u32Max)
    (hfit : e.used + Entries.entrySize k v ≤ e.bufLen) :
    ∃ b', EntriesB.store b k v = .ok b' ∧ Rep b' (e.push k v) (view ++ [(k, v)]) := by
  obtain ⟨bounds, gap, hl, hview⟩ := h.lay
  have hlen := hl.length
  have ha := h.abs
  have hsm := h.small
  unfold Entries.used Entries.entrySize boundSize at hfit
  unfold u32Max at hk hv
  rw [← ha.elen, ← ha.cnt, ha.len] at hfit
  obtain ⟨b', gap', hs, hl', hlen', hel', hcnt'⟩ :=
    store_lay hl k v (by omega) (by omega) (by omega) (by omega)
  refine ⟨b', hs, ⟨?_, ?_, ?_, ?_⟩, ?_, ?_, ⟨_, gap', hl', ?_⟩, ?_⟩
  · show b'.entriesLen = e.entriesLen + k.length + v.length
    rw [hel', ha.elen]
  · show b'.boundsCount = e.boundsCount + 1
    rw [hcnt', ha.cnt]
  · show e.bufLen = b'.buf.length
    rw [hlen', ha.len]
  · exact ha.live
  · refine h.inv.push k v ?_
    unfold Entries.used Entries.entrySize boundSize
    rw [← ha.elen, ← ha.cnt, ha.len]; exact hfit
  · rw [hlen']; exact hsm
  · show List.map (denote (backBytes (e.items ++ [(k, v)]))) (bounds ++ [newBound e.items k v])
      = view ++ [(k, v)]
    rw [backBytes_snoc, List.map_append, ← hview]
    congr 1
    · exact List.map_congr_left (fun bd hbd => denote_prepend (hl.rng bd hbd) _)
    · have := denote_new (backBytes e.items) k v
      rw [backBytes_length] at this
      simp only [List.map_cons, List.map_nil, newBound, this]
  · exact h.perm.append_right _

theorem Rep.realloc (g : Nat → Nat → UInt8) {b : EntriesB} {e : Entries} {view : List Entry}
    (h : Rep b e view) (hsm : e.bufLen < 2 ^ 62) :
    ∃ b', reallocate g b = .ok (b', [.alloc (e.bufLen * 2), .dealloc e.bufLen]) ∧
      Rep b' (e.scale 1) view := by
  obtain ⟨bounds, gap, hl, hview⟩ := h.lay
  have ha := h.abs
  have hi := h.inv
  obtain ⟨b', gap', hr, hl', hlen', hel', hcnt'⟩ :=
    reallocate_lay g hl (by rw [← ha.len]; exact hi.align) (by rw [← ha.len]; exact hi.pos)
      (by rw [← ha.len]; exact hsm)
  refine ⟨b', by rw [hr, ha.len], ⟨?_, ?_, ?_, ha.live⟩, hi.scale 1, ?_, ⟨bounds, gap', hl', hview⟩,
    h.perm⟩
  · rw [hel']; exact ha.elen
  · rw [hcnt']; exact ha.cnt
  · show e.bufLen * 2 ^ 1 = b'.buf.length
    rw [hlen', ha.len]
  · rw [hlen', ← ha.len]; omega

theorem Rep.realloc_big (g : Nat → Nat → UInt8) {b : EntriesB} {e : Entries} {view : List Entry}
    (h : Rep b e view) (hbig : 2 ^ 62 ≤ e.bufLen) : reallocate g b = .error .arith := by
  obtain ⟨bounds, gap, hl, _⟩ := h.lay
  exact reallocate_big g hl (by rw [← h.abs.len]; exact h.inv.align) (by rw [← h.abs.len]; exact hbig)

/-- **Simulation of `insert`** (any fuel, any key and value, any fresh-memory contents): the
    byte-level doubling loop fails exactly when the numeric one does, with the same trap; otherwise
    both emit the same allocation events and the results are related, the view gaining `(k, v)` at
    its end. -/
theorem insert_sim (g : Nat → Nat → UInt8) (k v : Bytes) (fuel : Nat) :
    ∀ {b : EntriesB} {e : Entries} {view : List Entry}, Rep b e view →
    ResRel (fun rb re => rb.2 = re.2 ∧ Rep rb.1 re.1 (view ++ [(k, v)]))
      (insert g b k v fuel) (Entries.insert e k v fuel) := by
  induction fuel with
  | zero => intro b e view _; simp [insert, Entries.insert, ResRel]
  | succ fuel ih =>
    intro b e view h
    rw [Entries.insert_succ h.inv, insert, fits_eq_of_abs h.abs, Entries.fits_eq h.inv]
    by_cases hk : k.length > u32Max
    · simp [hk, ResRel]
    by_cases hv : v.length > u32Max
    · simp [hk, hv, ResRel]
    simp only [hk, hv, if_false]
    by_cases hf : e.used + Entries.entrySize k v ≤ e.bufLen
    · obtain ⟨b', hs, hr⟩ := h.store k v (by omega) (by omega) hf
      simp only [hf, decide_true, if_true, hs, Except.map, ResRel]
      exact ⟨trivial, hr⟩
    simp only [hf, decide_false, if_false]
    by_cases hb : 2 ^ 62 ≤ e.bufLen
    · simp [hb, h.realloc_big g hb, ResRel]
    simp only [hb, if_false]
    obtain ⟨b', hr, hrep⟩ := h.realloc g (by omega)
    rw [hr]
    dsimp only
    have := ih hrep
    revert this
    generalize insert g b' k v fuel = rb
    generalize Entries.insert (e.scale 1) k v fuel = re
    rcases rb with tb | ⟨b'', evb⟩ <;> rcases re with te | ⟨e'', eve⟩ <;> simp [ResRel]

/-- **`with_capacity`** establishes the invariant (or fails as the numeric model does). -/
theorem withCapacity_sim (g : Nat → Nat → UInt8) (cap : Nat) :
    ResRel (fun rb re => rb.2 = re.2 ∧ Rep rb.1 re.1 [] ∧ re.1.items = [])
      (withCapacity g cap) (Entries.withCapacity cap) := by
  unfold withCapacity alloc Entries.withCapacity Entries.alloc
  have hm := Entries.roundUp_mod cap
  by_cases h0 : Entries.roundUp cap = 0
  · simp [h0, ResRel]
  by_cases h1 : Entries.roundUp cap ≥ 2 ^ 63
  · simp [h0, h1, ResRel]
  simp only [h0, h1, if_false, ResRel]
  refine ⟨trivial, ⟨⟨rfl, rfl, by simp, rfl⟩, ⟨hm, ?_, ?_, rfl, rfl, rfl⟩, ?_, ⟨[], fresh g (Entries.roundUp cap), ?_, rfl⟩,
    List.Perm.nil⟩, trivial⟩
  · show 16 ≤ Entries.roundUp cap
    omega
  · show 0 + 16 * 0 ≤ Entries.roundUp cap
    omega
  · show (fresh g (Entries.roundUp cap)).length < 2 ^ 63
    simp; omega
  · exact ⟨by simp [encodeBounds, backBytes], rfl, rfl, by simp⟩

theorem splitBounds_eq {b : EntriesB} {items : List Entry} {bounds : List EntryBound} {gap : Bytes}
    (h : Lay b items bounds gap) : splitBounds b = .ok (bounds, gap ++ backBytes items) := by
  have hlen := h.length
  have hE : (encodeBounds bounds).length = b.boundsCount * boundSize := by
    simp [h.cnt, boundSize]; omega
  unfold splitBounds
  rw [if_neg (by simp only [boundSize]; omega)]
  have h1 : b.buf.take (b.boundsCount * boundSize) = encodeBounds bounds := by
    rw [h.buf]; exact List.take_left' hE
  have h2 : b.buf.drop (b.boundsCount * boundSize) = gap ++ backBytes items := by
    rw [h.buf]; exact List.drop_left' hE
  have h3 := decodeBounds_encodeBounds bounds (fun bd hbd => (h.rng bd hbd).2.2) []
  rw [List.append_nil] at h3
  rw [h1, h2, h.cnt, h3]

/-- **`iter`** returns the view: every bound is decoded as it was encoded, and every slice of the
    tail is in range and yields the bytes of the entry the bound denotes. -/
theorem Rep.iter {b : EntriesB} {e : Entries} {view : List Entry} (h : Rep b e view) :
    EntriesB.iter b = .ok view := by
  obtain ⟨bounds, gap, hl, hview⟩ := h.lay
  unfold EntriesB.iter
  rw [splitBounds_eq hl]
  simp only
  rw [readEntries_eq _ _ _ hl.rng, hview]

/-- The two regions never overlap. -/
theorem Rep.disjoint {b : EntriesB} {e : Entries} {view : List Entry} (h : Rep b e view) :
    16 * b.boundsCount + b.entriesLen ≤ b.buf.length := by
  obtain ⟨bounds, gap, hl, _⟩ := h.lay
  exact hl.disjoint

/-- The keyed bound list `sort_by_key` works on. -/
def keyed (back : Bytes) (bounds : List EntryBound) : List (Bytes × EntryBound) :=
  bounds.map (fun bd => ((denote back bd).1, bd))

theorem keyed_snd (back : Bytes) (bounds : List EntryBound) :
    (keyed back bounds).map (·.2) = bounds := by
  induction bounds with
  | nil => rfl
  | cons bd r ih => simp only [keyed, List.map_cons] at ih ⊢; rw [ih]

theorem keyed_denote (back : Bytes) (bounds : List EntryBound) :
    (keyed back bounds).map (fun p => denote back p.2) = bounds.map (denote back) := by
  induction bounds with
  | nil => rfl
  | cons bd r ih => simp only [keyed, List.map_cons] at ih ⊢; rw [ih]

theorem keyed_key {back : Bytes} {bounds : List EntryBound} {p : Bytes × EntryBound}
    (hp : p ∈ keyed back bounds) : (denote back p.2).1 = p.1 := by
  simp only [keyed, List.mem_map] at hp
  obtain ⟨bd, _, rfl⟩ := hp
  rfl

/-- **`sort_by_key` with any permuting `sort`**: the bounds area is overwritten in place by the
    permuted records (same length, so the write stays inside the bounds area); the entry bytes are
    untouched; the view becomes the same permutation of the old view. -/
theorem Rep.sortWith_core {b : EntriesB} {e : Entries} {view : List Entry} (h : Rep b e view)
    (sort : List (Bytes × EntryBound) → List (Bytes × EntryBound))
    (hperm : ∀ l, (sort l).Perm l) :
    ∃ bounds, bounds.map (denote (backBytes e.items)) = view ∧
      (∀ bd ∈ bounds, InRange (backBytes e.items) bd) ∧
      ∃ b', sortBoundsWith sort b = .ok b' ∧
        Rep b' e ((sort (keyed (backBytes e.items) bounds)).map (fun p => denote (backBytes e.items) p.2)) := by
  obtain ⟨bounds, gap, hl, hview⟩ := h.lay
  refine ⟨bounds, hview, hl.rng, ?_⟩
  let back := backBytes e.items
  let bounds' := (sort (keyed back bounds)).map (·.2)
  have hp : bounds'.Perm bounds := by
    have := (hperm (keyed back bounds)).map (·.2)
    rwa [keyed_snd] at this
  have hw : writeAt b.buf 0 (encodeBounds bounds') = .ok (encodeBounds bounds' ++ (gap ++ back)) := by
    rw [hl.buf]
    exact writeAt_front _ _ _ (by simp [hp.length_eq])
  refine ⟨{ b with buf := encodeBounds bounds' ++ (gap ++ back) }, ?_,
    ⟨h.abs.elen, h.abs.cnt, ?_, h.abs.live⟩,
    h.inv, ?_, ⟨bounds', gap, ⟨rfl, ?_, hl.elen, ?_⟩, ?_⟩, ?_⟩
  · unfold sortBoundsWith
    rw [splitBounds_eq hl]
    simp only
    rw [readKeys_eq _ _ _ hl.rng]
    simp only
    rw [show (List.map (fun bd => ((denote (backBytes e.items) bd).fst, bd)) bounds)
      = keyed back bounds from rfl, hw]
  · show e.bufLen = (encodeBounds bounds' ++ (gap ++ back)).length
    rw [h.abs.len, hl.buf]; simp [hp.length_eq, back]
  · show (encodeBounds bounds' ++ (gap ++ back)).length < 2 ^ 63
    have := h.small
    rw [hl.buf] at this
    simpa [hp.length_eq, back] using this
  · show b.boundsCount = bounds'.length
    rw [hl.cnt, hp.length_eq]
  · intro bd hbd
    exact hl.rng bd (hp.mem_iff.1 hbd)
  · show List.map (denote back) (List.map (·.2) (sort (keyed back bounds))) = _
    rw [List.map_map]; rfl
  · refine List.Perm.trans ?_ h.perm
    rw [← hview, ← keyed_denote]
    exact (hperm _).map _

/-- **Sorting with any permuting sort**: the result iterates to a permutation of the old view,
    ordered by key however `sort` orders its output. -/
theorem Rep.sortWith {b : EntriesB} {e : Entries} {view : List Entry} (h : Rep b e view)
    (sort : List (Bytes × EntryBound) → List (Bytes × EntryBound))
    (hperm : ∀ l, (sort l).Perm l) :
    ∃ b' view', sortBoundsWith sort b = .ok b' ∧ Rep b' e view' ∧ view'.Perm view ∧
      ∀ R : Bytes → Bytes → Prop, (∀ l, (sort l).Pairwise (fun p q => R p.1 q.1)) →
        view'.Pairwise (fun x y => R x.1 y.1) := by
  obtain ⟨bounds, hview, _, b', hs, hr⟩ := h.sortWith_core sort hperm
  refine ⟨b', _, hs, hr, ?_, ?_⟩
  · rw [← hview]
    rw [← keyed_denote]
    exact (hperm _).map _
  · intro R hR
    rw [List.pairwise_map]
    refine (hR (keyed (backBytes e.items) bounds)).imp_of_mem ?_
    intro p q hp hq hpq
    rw [keyed_key ((hperm _).mem_iff.1 hp), keyed_key ((hperm _).mem_iff.1 hq)]
    exact hpq

/-- **`sort_by_key(Stable)`**: afterwards the buffer iterates to `Sorter.sortStable view`. -/
theorem Rep.sortStable {b : EntriesB} {e : Entries} {view : List Entry} (h : Rep b e view) :
    ∃ b', sortBounds b = .ok b' ∧ Rep b' e (Sorter.sortStable view) := by
  obtain ⟨bounds, hview, _, b', hs, hr⟩ :=
    h.sortWith_core stableByKey (fun l => List.mergeSort_perm l _)
  refine ⟨b', hs, ?_⟩
  have : (stableByKey (keyed (backBytes e.items) bounds)).map
      (fun p => denote (backBytes e.items) p.2) = Sorter.sortStable view := by
    unfold stableByKey Sorter.sortStable
    rw [List.map_mergeSort (s := fun a b => decide (a.1 ≤ b.1))]
    · rw [keyed_denote, hview]
    · intro p hp q hq
      rw [keyed_key hp, keyed_key hq]
  rwa [this] at hr

/-- **`clear`**. -/
theorem Rep.clear {b : EntriesB} {e : Entries} {view : List Entry} (h : Rep b e view) :
    Rep b.clear e.clear [] := by
  refine ⟨⟨rfl, rfl, h.abs.len, h.abs.live⟩, h.inv.clear, h.small, ⟨[], b.buf, ⟨?_, rfl, rfl, by simp⟩, rfl⟩,
    List.Perm.nil⟩
  show b.buf = encodeBounds [] ++ (b.buf ++ backBytes [])
  simp [encodeBounds, backBytes]

theorem ResRel.mono {ε α β : Type} {R R' : α → β → Prop} {x : Except ε α} {y : Except ε β}
    (h : ResRel R x y) (hRR : ∀ a b, x = .ok a → y = .ok b → R a b → R' a b) : ResRel R' x y := by
  rcases x with tx | a <;> rcases y with ty | b' <;> simp only [ResRel] at h ⊢
  · exact h
  · exact hRR a b' rfl rfl h

theorem ResRel.ok_left {ε α β : Type} {R : α → β → Prop} {x : Except ε α} {y : Except ε β} {a : α}
    (h : ResRel R x y) (hx : x = .ok a) : ∃ b, y = .ok b ∧ R a b := by
  subst hx
  rcases y with ty | b
  · simp [ResRel] at h
  · exact ⟨b, rfl, h⟩

theorem ResRel.error_left {ε α β : Type} {R : α → β → Prop} {x : Except ε α} {y : Except ε β}
    {t : ε} (h : ResRel R x y) (hx : x = .error t) : y = .error t := by
  subst hx
  rcases y with ty | b
  · simp only [ResRel] at h; rw [h]
  · simp [ResRel] at h

theorem ResRel.ok_right {ε α β : Type} {R : α → β → Prop} {x : Except ε α} {y : Except ε β} {b : β}
    (h : ResRel R x y) (hy : y = .ok b) : ∃ a, x = .ok a ∧ R a b := by
  subst hy
  rcases x with tx | a
  · simp [ResRel] at h
  · exact ⟨a, rfl, h⟩

theorem ResRel.error_iff {ε α β : Type} {R : α → β → Prop} {x : Except ε α} {y : Except ε β}
    (h : ResRel R x y) (t : ε) : x = .error t ↔ y = .error t := by
  rcases x with tx | a <;> rcases y with ty | b <;> simp only [ResRel] at h
  · subst h; constructor <;> intro hh <;> cases hh <;> rfl
  · constructor <;> intro hh <;> cases hh

/-- `insert_sim` for a buffer whose bounds are in insertion order. -/
theorem insert_sim_items (g : Nat → Nat → UInt8) (k v : Bytes) (fuel : Nat)
    {b : EntriesB} {e : Entries} (h : Rep b e e.items) :
    ResRel (fun rb re => rb.2 = re.2 ∧ Rep rb.1 re.1 re.1.items ∧ re.1.items = e.items ++ [(k, v)])
      (insert g b k v fuel) (Entries.insert e k v fuel) := by
  refine (insert_sim g k v fuel h).mono ?_
  rintro ⟨b', evb⟩ ⟨e', eve⟩ _ he ⟨h1, h2⟩
  obtain ⟨j, _, rfl, _⟩ := Entries.insert_ok h.inv he
  exact ⟨h1, h2, rfl⟩

/-! ### Runs of the buffer alone -/

/-- Insert a list of entries with the fuel `Sorter.insert` uses. -/
def insertAll (g : Nat → Nat → UInt8) : EntriesB → List Entry → Except Trap EntriesB
  | b, [] => .ok b
  | b, (k, v) :: r =>
    match insert g b k v 64 with
    | .error t => .error t
    | .ok (b', _) => insertAll g b' r

/-- `with_capacity(cap)` followed by the inserts of `l`. -/
def run (g : Nat → Nat → UInt8) (cap : Nat) (l : List Entry) : Except Trap EntriesB :=
  match withCapacity g cap with
  | .error t => .error t
  | .ok (b, _) => insertAll g b l

end EntriesB

namespace Entries

def insertAll : Entries → List Entry → Except Trap Entries
  | e, [] => .ok e
  | e, (k, v) :: r =>
    match insert e k v 64 with
    | .error t => .error t
    | .ok (e', _) => insertAll e' r

def run (cap : Nat) (l : List Entry) : Except Trap Entries :=
  match withCapacity cap with
  | .error t => .error t
  | .ok (e, _) => insertAll e l

end Entries

namespace EntriesB

theorem insertAll_sim (g : Nat → Nat → UInt8) (l : List Entry) :
    ∀ {b : EntriesB} {e : Entries}, Rep b e e.items →
    ResRel (fun b' e' => Rep b' e' e'.items ∧ e'.items = e.items ++ l)
      (insertAll g b l) (Entries.insertAll e l) := by
  induction l with
  | nil => intro b e h; simp [insertAll, Entries.insertAll, ResRel, h]
  | cons kv l ih =>
    intro b e h
    obtain ⟨k, v⟩ := kv
    have := insert_sim_items g k v 64 h
    simp only [insertAll, Entries.insertAll]
    revert this
    generalize insert g b k v 64 = rb
    generalize Entries.insert e k v 64 = re
    rcases rb with tb | ⟨b', evb⟩ <;> rcases re with te | ⟨e', eve⟩ <;> simp only [ResRel]
    · exact id
    · exact False.elim
    · exact False.elim
    · rintro ⟨_, hr, hi⟩
      refine (ih hr).mono ?_
      intro b'' e'' _ _ ⟨h1, h2⟩
      exact ⟨h1, by rw [h2, hi]; simp⟩

/-- **Simulation of a whole run of the buffer.** -/
theorem run_sim (g : Nat → Nat → UInt8) (cap : Nat) (l : List Entry) :
    ResRel (fun b e => Rep b e e.items ∧ e.items = l) (run g cap l) (Entries.run cap l) := by
  have := withCapacity_sim g cap
  unfold run Entries.run
  revert this
  generalize withCapacity g cap = rb
  generalize Entries.withCapacity cap = re
  rcases rb with tb | ⟨b', evb⟩ <;> rcases re with te | ⟨e', eve⟩ <;> simp only [ResRel]
  · exact id
  · exact False.elim
  · exact False.elim
  · rintro ⟨_, hr, hi⟩
    rw [← hi] at hr
    refine (insertAll_sim g l hr).mono ?_
    intro b'' e'' _ _ ⟨h1, h2⟩
    exact ⟨h1, by rw [h2, hi]; rfl⟩

/-- **After any run, `iter` returns exactly the inserted pairs, in insertion order.** -/
theorem run_iter {g : Nat → Nat → UInt8} {cap : Nat} {l : List Entry} {b : EntriesB}
    (h : run g cap l = .ok b) :
    iter b = .ok l ∧ 16 * b.boundsCount + b.entriesLen ≤ b.buf.length := by
  obtain ⟨e, _, hr, hi⟩ := (run_sim g cap l).ok_left h
  rw [hi] at hr
  exact ⟨hr.iter, hr.disjoint⟩

end EntriesB

/-! ### The sorter over the byte-level buffer simulates the sorter over the numeric one -/

/-- The two sorters agree on everything but the representation of the buffer, whose bounds are in
    insertion order. -/
structure SRep (sb : SorterB) (s : Sorter) : Prop where
  cfg    : sb.cfg = s.cfg
  chunks : sb.chunks = s.chunks
  events : sb.events = s.events
  calls  : sb.calls = s.calls
  rep    : EntriesB.Rep sb.entries s.entries s.entries.items

/-- What remains comparable once the allocation has been released. -/
structure SFin (sb : SorterB) (s : Sorter) : Prop where
  cfg    : sb.cfg = s.cfg
  chunks : sb.chunks = s.chunks
  events : sb.events = s.events
  calls  : sb.calls = s.calls

namespace SorterB

open EntriesB (ResRel Rep)
open Sorter (SErr)

theorem new_sim (g : Nat → Nat → UInt8) (cfg : SCfg) :
    ResRel SRep (SorterB.new g cfg) (Sorter.new cfg) := by
  have := EntriesB.withCapacity_sim g (if cfg.allowRealloc then cfg.initialSize else cfg.budget)
  unfold SorterB.new Sorter.new
  simp only
  revert this
  generalize EntriesB.withCapacity g _ = rb
  generalize Entries.withCapacity _ = re
  rcases rb with tb | ⟨b', evb⟩ <;> rcases re with te | ⟨e', eve⟩ <;> simp only [ResRel]
  · rintro rfl; rfl
  · exact False.elim
  · exact False.elim
  · rintro ⟨h1, hr, hi⟩
    subst h1
    exact ⟨rfl, rfl, rfl, rfl, by rw [hi]; exact hr⟩

theorem writeChunk_sim (mf : MergeFn) {sb : SorterB} {s : Sorter} (h : SRep sb s) :
    ResRel SRep (SorterB.writeChunk mf sb) (Sorter.writeChunk mf s) := by
  obtain ⟨eb, hs, hr⟩ := h.rep.sortStable
  unfold SorterB.writeChunk Sorter.writeChunk Sorter.writeChunkWith
  rw [hs]
  simp only
  rw [hr.iter]
  simp only
  cases Sorter.mergeGroups mf (Sorter.sortStable s.entries.items) none [] [] with
  | none => simp [ResRel]
  | some r =>
    obtain ⟨chunk, calls⟩ := r
    simp only [ResRel]
    exact ⟨h.cfg, by simp [h.chunks], by simp [h.events], by simp [h.calls], hr.clear⟩

theorem mergeChunks_sim (mf : MergeFn) {sb : SorterB} {s : Sorter} (h : SRep sb s) :
    ResRel SRep (SorterB.mergeChunks mf sb) (Sorter.mergeChunks mf s) := by
  unfold SorterB.mergeChunks Sorter.mergeChunks
  rw [h.chunks]
  rcases Merger.run mf s.chunks with ⟨_ | merged, m⟩
  · simp [ResRel]
  · simp only [ResRel]
    exact ⟨h.cfg, rfl, by simp [h.events], by simp [h.calls], h.rep⟩

/-- Two related sorters are the same record up to the buffer. -/
theorem srep_split {sb : SorterB} {s : Sorter} (h : SRep sb s) :
    sb = { cfg := s.cfg, entries := sb.entries, chunks := s.chunks, events := s.events,
           calls := s.calls } := by
  obtain ⟨cfgb, eb, chb, evb, cab⟩ := sb
  obtain ⟨h1, h2, h3, h4, _⟩ := h
  simp only at h1 h2 h3 h4
  subst h1 h2 h3 h4
  rfl

/-- **Simulation of `Sorter::insert`** (spill and chunk merge included). -/
theorem insert_sim (mf : MergeFn) (g : Nat → Nat → UInt8) {sb : SorterB} {s : Sorter}
    (h : SRep sb s) (k v : Bytes) :
    ResRel SRep (SorterB.insert mf g sb k v) (Sorter.insert mf s k v) := by
  have hwc := writeChunk_sim mf h
  have hrep := h.rep
  rw [srep_split h] at hwc ⊢
  generalize sb.entries = eb at hwc hrep ⊢
  unfold SorterB.insert Sorter.insert
  simp only
  rw [EntriesB.fits_eq_of_abs hrep.abs, ← hrep.abs.len]
  cases hf : s.entries.fits k v with
  | error t => simp [ResRel]
  | ok fit =>
    simp only
    by_cases hc : (fit || (!decide (s.entries.bufLen ≥ s.cfg.budget) && s.cfg.allowRealloc)) = true
    · simp only [hc, if_true]
      have := EntriesB.insert_sim_items g k v 64 hrep
      revert this
      generalize EntriesB.insert g eb k v 64 = rb
      generalize Entries.insert s.entries k v 64 = re
      rcases rb with tb | ⟨b', evb⟩ <;> rcases re with te | ⟨e', eve⟩ <;> simp only [ResRel]
      · rintro rfl; rfl
      · exact False.elim
      · exact False.elim
      · rintro ⟨h1, hr, _⟩
        subst h1
        exact ⟨rfl, rfl, rfl, rfl, hr⟩
    · simp only [hc, if_false, Bool.false_eq_true]
      revert hwc
      generalize SorterB.writeChunk mf _ = wb
      generalize Sorter.writeChunk mf s = ws
      rcases wb with tb | sb1 <;> rcases ws with te | s1 <;> simp only [ResRel]
      · rintro rfl; rfl
      · exact False.elim
      · exact False.elim
      · intro h1
        have hrep1 := h1.rep
        rw [srep_split h1]
        generalize sb1.entries = eb1 at hrep1 ⊢
        simp only
        have := EntriesB.insert_sim_items g k v 64 hrep1
        revert this
        generalize EntriesB.insert g eb1 k v 64 = rb
        generalize Entries.insert s1.entries k v 64 = re
        rcases rb with tb | ⟨b', evb⟩ <;> rcases re with te | ⟨e', eve⟩ <;> simp only [ResRel]
        · rintro rfl; rfl
        · exact False.elim
        · exact False.elim
        · rintro ⟨h2, hr, _⟩
          subst h2
          have h2 : SRep { cfg := s1.cfg, entries := b', chunks := s1.chunks,
                           events := s1.events ++ evb, calls := s1.calls }
              { s1 with entries := e', events := s1.events ++ evb } :=
            ⟨rfl, rfl, rfl, rfl, hr⟩
          by_cases hm : s1.chunks.length ≥ s1.cfg.maxNb
          · simp only [hm, if_true]
            exact mergeChunks_sim mf h2
          · simp only [hm, if_false]
            exact h2

/-- **Simulation of the final spill.** -/
theorem finishChunks_sim (mf : MergeFn) {sb : SorterB} {s : Sorter} (h : SRep sb s) :
    ResRel SFin (SorterB.finishChunks mf sb) (Sorter.finishChunks mf s) := by
  unfold SorterB.finishChunks Sorter.finishChunks
  have hw := writeChunk_sim mf h
  revert hw
  generalize SorterB.writeChunk mf sb = wb
  generalize Sorter.writeChunk mf s = ws
  rcases wb with tb | sb1 <;> rcases ws with te | s1 <;> simp only [ResRel]
  · rintro rfl; rfl
  · exact False.elim
  · exact False.elim
  · intro h1
    simp only [Entries.drop, h1.rep.abs.live, Bool.not_true, Bool.false_eq_true, if_false]
    exact ⟨h1.cfg, h1.chunks, by simp [h1.events, h1.rep.abs.len], h1.calls⟩

theorem insertAll_sim (mf : MergeFn) (g : Nat → Nat → UInt8) (l : List Entry) :
    ∀ {sb : SorterB} {s : Sorter}, SRep sb s →
    ResRel SRep (SorterB.insertAll mf g sb l) (Sorter.insertAll mf s l) := by
  induction l with
  | nil => intro sb s h; simpa [SorterB.insertAll, Sorter.insertAll, ResRel] using h
  | cons kv l ih =>
    intro sb s h
    obtain ⟨k, v⟩ := kv
    have := insert_sim mf g h k v
    simp only [SorterB.insertAll, Sorter.insertAll]
    revert this
    generalize SorterB.insert mf g sb k v = rb
    generalize Sorter.insert mf s k v = re
    rcases rb with tb | sb1 <;> rcases re with te | s1 <;> simp only [ResRel]
    · exact id
    · exact False.elim
    · exact False.elim
    · exact fun h1 => ih h1

/-- **Simulation of a complete run**: the byte-level sorter and the numeric one return the same
    error, or states that agree (`SFin`), related by `SRep` as long as the buffer is alive. -/
theorem program_sim (mf : MergeFn) (g : Nat → Nat → UInt8) (cfg : SCfg) (l : List Entry)
    (fin : Bool) :
    ResRel (fun sb s => SFin sb s ∧ (fin = false → SRep sb s))
      (SorterB.program mf g cfg l fin) (Sorter.program mf cfg l fin) := by
  unfold SorterB.program Sorter.program
  have hn := new_sim g cfg
  revert hn
  generalize SorterB.new g cfg = nb
  generalize Sorter.new cfg = ns
  rcases nb with tb | sb0 <;> rcases ns with te | s0 <;> simp only [ResRel]
  · rintro rfl; rfl
  · exact False.elim
  · exact False.elim
  · intro h0
    have := insertAll_sim mf g l h0
    revert this
    generalize SorterB.insertAll mf g sb0 l = rb
    generalize Sorter.insertAll mf s0 l = re
    rcases rb with tb | sb1 <;> rcases re with te | s1 <;> simp only [ResRel]
    · exact id
    · exact False.elim
    · exact False.elim
    · intro h1
      cases fin with
      | false =>
        simp only [Bool.false_eq_true, if_false]
        exact ⟨⟨h1.cfg, h1.chunks, h1.events, h1.calls⟩, fun _ => h1⟩
      | true =>
        simp only [if_true]
        refine (finishChunks_sim mf h1).mono ?_
        intro a b _ _ hab
        exact ⟨hab, fun hh => by cases hh⟩

end SorterB
end Grenad
