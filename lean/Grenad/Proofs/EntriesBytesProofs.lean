/-
  Grenad.Proofs.EntriesBytesProofs — the byte-level buffer `EntriesB` (Model/EntriesBytes.lean)
  refines the numeric `Entries` (Model/Sorter.lean):

  * `Rep b e view`: same numbers, and the allocation is
        `encodeBounds bounds ++ gap ++ backBytes e.items`
    where every bound is in range of the entry bytes and denotes the corresponding element of
    `view` (`view` is a permutation of `e.items`; equal to it as long as the bounds are not sorted).
  * `withCapacity`, `insert` (with any number of reallocations), `sortBoundsWith`, `clear`
    preserve `Rep` and succeed / trap exactly as the numeric model does; `iter` returns `view`.
  * `SorterB` simulates `Sorter` call by call.
-/
import Grenad.Model.EntriesBytes
import Grenad.Proofs.SorterArith

namespace Grenad
namespace EntriesB

/-! ### Fixed-width little-endian integers, bound records -/

theorem leN_len (n v : Nat) : (leN n v).length = n := by
  induction n generalizing v with
  | zero => rfl
  | succ n ih => simp [leN, ih]

theorem leVal_leN_mod (n v : Nat) : leVal (leN n v) = v % 256 ^ n := by
  induction n generalizing v with
  | zero => simp [leN, leVal, Nat.mod_one]
  | succ n ih =>
    have h : ((v % 256).toUInt8).toNat = v % 256 := by
      show (UInt8.ofNat (v % 256)).toNat = v % 256
      rw [UInt8.toNat_ofNat']
      exact Nat.mod_eq_of_lt (Nat.mod_lt _ (by decide))
    simp only [leN, leVal, ih, h]
    rw [Nat.pow_succ, Nat.mul_comm (256 ^ n) 256, Nat.mod_mul]

theorem le64_len (v : Nat) : (le64 v).length = 8 := leN_len 8 v
theorem le32_len (v : Nat) : (le32 v).length = 4 := leN_len 4 v

theorem leVal_le64' {v : Nat} (h : v < 2 ^ 64) : leVal (le64 v) = v := by
  rw [le64, leVal_leN_mod]; exact Nat.mod_eq_of_lt (by simpa using h)

theorem leVal_le32' {v : Nat} (h : v < 2 ^ 32) : leVal (le32 v) = v := by
  rw [le32, leVal_leN_mod]; exact Nat.mod_eq_of_lt (by simpa using h)

@[simp] theorem encodeBound_length (a b c : Nat) : (encodeBound a b c).length = 16 := by
  simp [encodeBound, le64_len, le32_len]

@[simp] theorem encode_length (bd : EntryBound) : bd.encode.length = 16 := encodeBound_length _ _ _

/-- **Round trip of one bound record.** -/
theorem decodeBound_encodeBound {a b c : Nat} (ha : a < 2 ^ 64) (hb : b < 2 ^ 32)
    (hc : c < 2 ^ 32) : decodeBound (encodeBound a b c) = ⟨a, b, c⟩ := by
  have h1 : (encodeBound a b c).take 8 = le64 a := by
    unfold encodeBound; rw [List.append_assoc]; exact List.take_left' (le64_len a)
  have h2 : (encodeBound a b c).drop 8 = le32 b ++ le32 c := by
    unfold encodeBound; rw [List.append_assoc]; exact List.drop_left' (le64_len a)
  have h3 : (encodeBound a b c).drop 12 = le32 c := by
    unfold encodeBound; exact List.drop_left' (by simp [le64_len, le32_len])
  unfold decodeBound
  rw [h1, h2, h3, List.take_left' (le32_len b), List.take_of_length_le (by simp [le32_len]),
    leVal_le64' ha, leVal_le32' hb, leVal_le32' hc]

/-- The fields of a bound fit their machine types. -/
def Fits (bd : EntryBound) : Prop :=
  bd.keyStart < 2 ^ 64 ∧ bd.keyLen < 2 ^ 32 ∧ bd.dataLen < 2 ^ 32

theorem decode_encode {bd : EntryBound} (h : Fits bd) : decodeBound bd.encode = bd :=
  decodeBound_encodeBound h.1 h.2.1 h.2.2

@[simp] theorem encodeBounds_length (l : List EntryBound) :
    (encodeBounds l).length = 16 * l.length := by
  induction l with
  | nil => rfl
  | cons b r ih => simp [encodeBounds, ih]; omega

theorem encodeBounds_append (l r : List EntryBound) :
    encodeBounds (l ++ r) = encodeBounds l ++ encodeBounds r := by
  induction l with
  | nil => rfl
  | cons b l ih => simp [encodeBounds, ih]

theorem encodeBounds_single (bd : EntryBound) : encodeBounds [bd] = bd.encode := by
  simp [encodeBounds]

/-- **Round trip of the bounds area**, whatever follows it. -/
theorem decodeBounds_encodeBounds (l : List EntryBound) (h : ∀ bd ∈ l, Fits bd) (rest : Bytes) :
    decodeBounds l.length (encodeBounds l ++ rest) = l := by
  induction l with
  | nil => rfl
  | cons b r ih =>
    simp only [encodeBounds, List.length_cons, decodeBounds, boundSize, List.append_assoc]
    rw [List.take_left' (encode_length b), List.drop_left' (encode_length b),
      decode_encode (h b (by simp)), ih (fun bd hbd => h bd (by simp [hbd]))]

/-! ### Guarded slice reads and writes -/

theorem sub_ok {a b : Nat} (h : b ≤ a) : Entries.sub a b = .ok (a - b) := by
  simp [Entries.sub, h]

/-- Overwriting the middle segment. -/
theorem writeAt_mid (A old C new : Bytes) (off : Nat) (hoff : off = A.length)
    (hlen : new.length = old.length) :
    writeAt (A ++ (old ++ C)) off new = .ok (A ++ (new ++ C)) := by
  subst hoff
  unfold writeAt
  have h : A.length + new.length ≤ (A ++ (old ++ C)).length := by simp; omega
  rw [if_pos h, List.take_left' rfl, ← List.append_assoc A old C,
    List.drop_left' (by simp [hlen]), List.append_assoc]

/-- Overwriting the first segment. -/
theorem writeAt_front (old C new : Bytes) (hlen : new.length = old.length) :
    writeAt (old ++ C) 0 new = .ok (new ++ C) := by
  have := writeAt_mid [] old C new 0 rfl hlen
  simpa using this

theorem writeAt_length {s src s' : Bytes} {a : Nat} (h : writeAt s a src = .ok s') :
    s'.length = s.length := by
  unfold writeAt at h
  split at h
  · cases h; simp; omega
  · cases h

/-- Reading the middle segment. -/
theorem readAt_mid (A M C : Bytes) (off n : Nat) (hoff : off = A.length) (hn : n = M.length) :
    readAt (A ++ (M ++ C)) off n = .ok M := by
  subst hoff hn
  unfold readAt
  have h : A.length + M.length ≤ (A ++ (M ++ C)).length := by simp
  rw [if_pos h, List.drop_left' rfl, List.take_left' rfl]

theorem drop_len_add (x y : Bytes) (n : Nat) : (x ++ y).drop (x.length + n) = y.drop n := by
  induction x with
  | nil => simp
  | cons a x ih => simp [Nat.add_right_comm, ih]

/-- A list splits at any position within it. -/
theorem split_at_len (l : Bytes) (n : Nat) (h : n ≤ l.length) :
    ∃ a b, l = a ++ b ∧ a.length = n :=
  ⟨l.take n, l.drop n, (List.take_append_drop n l).symm, by simp; omega⟩

/-- … and at any position counted from its end. -/
theorem split_at_len_back (l : Bytes) (n : Nat) (h : n ≤ l.length) :
    ∃ a b, l = a ++ b ∧ b.length = n := by
  obtain ⟨a, b, hab, ha⟩ := split_at_len l (l.length - n) (by omega)
  refine ⟨a, b, hab, ?_⟩
  have : l.length = a.length + b.length := by rw [hab]; simp
  omega

@[simp] theorem fresh_length (g : Nat → Nat → UInt8) (n : Nat) : (fresh g n).length = n := by
  simp [fresh]

/-! ### The entry bytes at the back; what a bound denotes -/

/-- The bytes of the entries region: the last inserted entry first (lowest address). -/
def backBytes : List Entry → Bytes
  | [] => []
  | e :: r => backBytes r ++ (e.1 ++ e.2)

theorem backBytes_snoc (l : List Entry) (k v : Bytes) :
    backBytes (l ++ [(k, v)]) = (k ++ v) ++ backBytes l := by
  induction l with
  | nil => simp [backBytes]
  | cons e r ih => simp [backBytes, ih]

@[simp] theorem backBytes_length (l : List Entry) : (backBytes l).length = itemsSize l := by
  induction l with
  | nil => rfl
  | cons e r ih => simp [backBytes, itemsSize, ih]; omega

/-- A bound lies within the entry bytes `back` (and its fields fit their machine types). -/
def InRange (back : Bytes) (bd : EntryBound) : Prop :=
  bd.keyLen + bd.dataLen ≤ bd.keyStart ∧ bd.keyStart ≤ back.length ∧ Fits bd

/-- The entry a bound denotes: `key_start` counts from the END of the buffer. -/
def denote (back : Bytes) (bd : EntryBound) : Entry :=
  ((back.drop (back.length - bd.keyStart)).take bd.keyLen,
   (back.drop (back.length - bd.keyStart + bd.keyLen)).take bd.dataLen)

theorem InRange.prepend {back : Bytes} {bd : EntryBound} (h : InRange back bd) (x : Bytes) :
    InRange (x ++ back) bd := by
  refine ⟨h.1, ?_, h.2.2⟩
  have := h.2.1
  simp; omega

/-- Adding bytes below the entries region (a new entry, the gap, the bounds) does not change
    what an in-range bound denotes. -/
theorem denote_prepend {back : Bytes} {bd : EntryBound} (h : InRange back bd) (x : Bytes) :
    denote (x ++ back) bd = denote back bd := by
  have h1 := h.2.1
  have e1 : (x ++ back).length - bd.keyStart = x.length + (back.length - bd.keyStart) := by
    simp; omega
  unfold denote
  rw [e1, Nat.add_assoc, drop_len_add, drop_len_add]

/-- The bound written by `insert` denotes the inserted entry. -/
theorem denote_new (back k v : Bytes) :
    denote ((k ++ v) ++ back) ⟨back.length + k.length + v.length, k.length, v.length⟩ = (k, v) := by
  unfold denote
  have e1 : ((k ++ v) ++ back).length - (back.length + k.length + v.length) = 0 := by
    simp; omega
  rw [e1]
  simp only [List.drop_zero, Nat.zero_add, List.append_assoc]
  rw [List.take_left' rfl, List.drop_left' rfl, List.take_left' rfl]

theorem readEntry_eq (gap back : Bytes) (bd : EntryBound) (h : InRange back bd) :
    readEntry (gap ++ back) bd = .ok (denote back bd) := by
  obtain ⟨h1, h2, _⟩ := h
  have hs : Entries.sub (gap ++ back).length bd.keyStart
      = .ok (gap.length + (back.length - bd.keyStart)) := by
    rw [sub_ok (by simp; omega)]; congr 1; simp; omega
  have r1 : ∀ n off, off + n ≤ back.length →
      readAt (gap ++ back) (gap.length + off) n = .ok ((back.drop off).take n) := by
    intro n off hle
    unfold readAt
    rw [if_pos (by simp; omega), drop_len_add]
  unfold readEntry
  rw [hs]
  simp only
  rw [r1 _ _ (by omega), Nat.add_assoc, r1 _ _ (by omega)]
  rfl

theorem readKey_eq (gap back : Bytes) (bd : EntryBound) (h : InRange back bd) :
    readKey (gap ++ back) bd = .ok (denote back bd).1 := by
  obtain ⟨h1, h2, _⟩ := h
  have hs : Entries.sub (gap ++ back).length bd.keyStart
      = .ok (gap.length + (back.length - bd.keyStart)) := by
    rw [sub_ok (by simp; omega)]; congr 1; simp; omega
  unfold readKey
  rw [hs]
  simp only
  unfold readAt
  rw [if_pos (by simp; omega), drop_len_add]
  rfl

theorem readEntries_eq (gap back : Bytes) (l : List EntryBound) (h : ∀ bd ∈ l, InRange back bd) :
    readEntries (gap ++ back) l = .ok (l.map (denote back)) := by
  induction l with
  | nil => rfl
  | cons bd r ih =>
    simp only [readEntries, readEntry_eq gap back bd (h bd (by simp)),
      ih (fun x hx => h x (by simp [hx])), List.map_cons]

theorem readKeys_eq (gap back : Bytes) (l : List EntryBound) (h : ∀ bd ∈ l, InRange back bd) :
    readKeys (gap ++ back) l = .ok (l.map (fun bd => ((denote back bd).1, bd))) := by
  induction l with
  | nil => rfl
  | cons bd r ih =>
    simp only [readKeys, readKey_eq gap back bd (h bd (by simp)),
      ih (fun x hx => h x (by simp [hx])), List.map_cons]

end EntriesB
end Grenad
