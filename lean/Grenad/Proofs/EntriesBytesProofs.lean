/-
  Grenad.Proofs.EntriesBytesProofs — the byte-level buffer `EntriesB` (Model/EntriesBytes.lean)
  refines the numeric `Entries` (Model/Sorter.lean):

  * `Rep b e view`: same numbers, and the allocation is
        `encodeBounds bounds ++ gap ++ backBytes e.items`
    where every bound is in range of the entry bytes and denotes the corresponding element of
    `view` (`view` is a permutation of `e.items`; equal to it as long as the bounds are not sorted).
  * `withCapacity`, `insert` (with any number of reallocations), `sortBoundsWith`, `clear`
    preserve `Rep` and succeed / trap exactly as the numeric model does; `iter` returns `view`.
  * `SorterB` simulates `Sorter` call by call.
-/
import Grenad.Model.EntriesBytes
import Grenad.Proofs.SorterArith

namespace Grenad
namespace EntriesB

/-! ### Fixed-width little-endian integers, bound records -/

theorem leN_len (n v : Nat) : (leN n v).length = n := by
  induction n generalizing v with
  | zero => rfl
  | succ n ih => simp [leN, ih]

theorem leVal_leN_mod (n v : Nat) : leVal (leN n v) = v % 256 ^ n := by
  induction n generalizing v with
  | zero => simp [leN, leVal, Nat.mod_one]
  | succ n ih =>
    have h : ((v % 256).toUInt8).toNat = v % 256 := by
      show (UInt8.ofNat (v % 256)).toNat = v % 256
      rw [UInt8.toNat_ofNat']
      exact Nat.mod_eq_of_lt (Nat.mod_lt _ (by decide))
    simp only [leN, leVal, ih, h]
    rw [Nat.pow_succ, Nat.mul_comm (256 ^ n) 256, Nat.mod_mul]

theorem le64_len (v : Nat) : (le64 v).length = 8 := leN_len 8 v
theorem le32_len (v : Nat) : (le32 v).length = 4 := leN_len 4 v

theorem leVal_le64' {v : Nat} (h : v < 2 ^ 64) : leVal (le64 v) = v := by
  rw [le64, leVal_leN_mod]; exact Nat.mod_eq_of_lt (by simpa using h)

theorem leVal_le32' {v : Nat} (h : v < 2 ^ 32) : leVal (le32 v) = v := by
  rw [le32, leVal_leN_mod]; exact Nat.mod_eq_of_lt (by simpa using h)

@[simp] theorem encodeBound_length (a b c : Nat) : (encodeBound a b c).length = 16 := by
  simp [encodeBound, le64_len, le32_len]

@[simp] theorem encode_length (bd : EntryBound) : bd.encode.length = 16 := encodeBound_length _ _ _

/-- **Round trip of one bound record.** -/
theorem decodeBound_encodeBound {a b c : Nat} (ha : a < 2 ^ 64) (hb : b < 2 ^ 32)
    (hc : c < 2 ^ 32) : decodeBound (encodeBound a b c) = ⟨a, b, c⟩ := by
  have h1 : (encodeBound a b c).take 8 = le64 a := by
    unfold encodeBound; rw [List.append_assoc]; exact List.take_left' (le64_len a)
  have h2 : (encodeBound a b c).drop 8 = le32 b ++ le32 c := by
    unfold encodeBound; rw [List.append_assoc]; exact List.drop_left' (le64_len a)
  have h3 : (encodeBound a b c).drop 12 = le32 c := by
    unfold encodeBound; exact List.drop_left' (by simp [le64_len, le32_len])
  unfold decodeBound
  rw [h1, h2, h3, List.take_left' (le32_len b), List.take_of_length_le (by simp [le32_len]),
    leVal_le64' ha, leVal_le32' hb, leVal_le32' hc]

/-- The fields of a bound fit their machine types. -/
def Fits (bd : EntryBound) : Prop :=
  bd.keyStart < 2 ^ 64 ∧ bd.keyLen < 2 ^ 32 ∧ bd.dataLen < 2 ^ 32

theorem decode_encode {bd : EntryBound} (h : Fits bd) : decodeBound bd.encode = bd :=
  decodeBound_encodeBound h.1 h.2.1 h.2.2

@[simp] theorem encodeBounds_length (l : List EntryBound) :
    (encodeBounds l).length = 16 * l.length := by
  induction l with
  | nil => rfl
  | cons b r ih => simp [encodeBounds, ih]; omega

theorem encodeBounds_append (l r : List EntryBound) :
    encodeBounds (l ++ r) = encodeBounds l ++ encodeBounds r := by
  induction l with
  | nil => rfl
  | cons b l ih => simp [encodeBounds, ih]

theorem encodeBounds_single (bd : EntryBound) : encodeBounds [bd] = bd.encode := by
  simp [encodeBounds]

/-- **Round trip of the bounds area**, whatever follows it. -/
theorem decodeBounds_encodeBounds (l : List EntryBound) (h : ∀ bd ∈ l, Fits bd) (rest : Bytes) :
    decodeBounds l.length (encodeBounds l ++ rest) = l := by
  induction l with
  | nil => rfl
  | cons b r ih =>
    simp only [encodeBounds, List.length_cons, decodeBounds, boundSize, List.append_assoc]
    rw [List.take_left' (encode_length b), List.drop_left' (encode_length b),
      decode_encode (h b (by simp)), ih (fun bd hbd => h bd (by simp [hbd]))]

/-! ### Guarded slice reads and writes -/

theorem sub_ok {a b : Nat} (h : b ≤ a) : Entries.sub a b = .ok (a - b) := by
  simp [Entries.sub, h]

/-- Overwriting the middle segment. -/
theorem writeAt_mid (A old C new : Bytes) (off : Nat) (hoff : off = A.length)
    (hlen : new.length = old.length) :
    writeAt (A ++ (old ++ C)) off new = .ok (A ++ (new ++ C)) := by
  subst hoff
  unfold writeAt
  have h : A.length + new.length ≤ (A ++ (old ++ C)).length := by simp; omega
  rw [if_pos h, List.take_left' rfl, ← List.append_assoc A old C,
    List.drop_left' (by simp [hlen]), List.append_assoc]

/-- Overwriting the first segment. -/
theorem writeAt_front (old C new : Bytes) (hlen : new.length = old.length) :
    writeAt (old ++ C) 0 new = .ok (new ++ C) := by
  have := writeAt_mid [] old C new 0 rfl hlen
  simpa using this

theorem writeAt_length {s src s' : Bytes} {a : Nat} (h : writeAt s a src = .ok s') :
    s'.length = s.length := by
  unfold writeAt at h
  split at h
  · cases h; simp; omega
  · cases h

/-- Reading the middle segment. -/
theorem readAt_mid (A M C : Bytes) (off n : Nat) (hoff : off = A.length) (hn : n = M.length) :
    readAt (A ++ (M ++ C)) off n = .ok M := by
  subst hoff hn
  unfold readAt
  have h : A.length + M.length ≤ (A ++ (M ++ C)).length := by simp
  rw [if_pos h, List.drop_left' rfl, List.take_left' rfl]

theorem drop_len_add (x y : Bytes) (n : Nat) : (x ++ y).drop (x.length + n) = y.drop n := by
  induction x with
  | nil => simp
  | cons a x ih => simp [Nat.add_right_comm, ih]

/-- A list splits at any position within it. -/
theorem split_at_len (l : Bytes) (n : Nat) (h : n ≤ l.length) :
    ∃ a b, l = a ++ b ∧ a.length = n :=
  ⟨l.take n, l.drop n, (List.take_append_drop n l).symm, by simp; omega⟩

/-- … and at any position counted from its end. -/
theorem split_at_len_back (l : Bytes) (n : Nat) (h : n ≤ l.length) :
    ∃ a b, l = a ++ b ∧ b.length = n := by
  obtain ⟨a, b, hab, ha⟩ := split_at_len l (l.length - n) (by omega)
  refine ⟨a, b, hab, ?_⟩
  have : l.length = a.length + b.length := by rw [hab]; simp
  omega

@[simp] theorem fresh_length (g : Nat → Nat → UInt8) (n : Nat) : (fresh g n).length = n := by
  simp [fresh]

/-! ### The entry bytes at the back; what a bound denotes -/

/-- The bytes of the entries region: the last inserted entry first (lowest address). -/
def backBytes : List Entry → Bytes
  | [] => []
  | e :: r => backBytes r ++ (e.1 ++ e.2)

theorem backBytes_snoc (l : List Entry) (k v : Bytes) :
    backBytes (l ++ [(k, v)]) = (k ++ v) ++ backBytes l := by
  induction l with
  | nil => simp [backBytes]
  | cons e r ih => simp [backBytes, ih]

@[simp] theorem backBytes_length (l : List Entry) : (backBytes l).length = itemsSize l := by
  induction l with
  | nil => rfl
  | cons e r ih => simp [backBytes, itemsSize, ih]; omega

/-- A bound lies within the entry bytes `back` (and its fields fit their machine types). -/
def InRange (back : Bytes) (bd : EntryBound) : Prop :=
  bd.keyLen + bd.dataLen ≤ bd.keyStart ∧ bd.keyStart ≤ back.length ∧ Fits bd

/-- The entry a bound denotes: `key_start` counts from the END of the buffer. -/
def denote (back : Bytes) (bd : EntryBound) : Entry :=
  ((back.drop (back.length - bd.keyStart)).take bd.keyLen,
   (back.drop (back.length - bd.keyStart + bd.keyLen)).take bd.dataLen)

theorem InRange.prepend {back : Bytes} {bd : EntryBound} (h : InRange back bd) (x : Bytes) :
    InRange (x ++ back) bd := by
  refine ⟨h.1, ?_, h.2.2⟩
  have := h.2.1
  simp; omega

/-- Adding bytes below the entries region (a new entry, the gap, the bounds) does not change
    what an in-range bound denotes. -/
theorem denote_prepend {back : Bytes} {bd : EntryBound} (h : InRange back bd) (x : Bytes) :
    denote (x ++ back) bd = denote back bd := by
  have h1 := h.2.1
  have e1 : (x ++ back).length - bd.keyStart = x.length + (back.length - bd.keyStart) := by
    simp; omega
  unfold denote
  rw [e1, Nat.add_assoc, drop_len_add, drop_len_add]

/-- The bound written by `insert` denotes the inserted entry. -/
theorem denote_new (back k v : Bytes) :
    denote ((k ++ v) ++ back) ⟨back.length + k.length + v.length, k.length, v.length⟩ = (k, v) := by
  unfold denote
  have e1 : ((k ++ v) ++ back).length - (back.length + k.length + v.length) = 0 := by
    simp; omega
  rw [e1]
  simp only [List.drop_zero, Nat.zero_add, List.append_assoc]
  rw [List.take_left' rfl, List.drop_left' rfl, List.take_left' rfl]

theorem readEntry_eq (gap back : Bytes) (bd : EntryBound) (h : InRange back bd) :
    readEntry (gap ++ back) bd = .ok (denote back bd) := by
  obtain ⟨h1, h2, _⟩ := h
  have hs : Entries.sub (gap ++ back).length bd.keyStart
      = .ok (gap.length + (back.length - bd.keyStart)) := by
    rw [sub_ok (by simp; omega)]; congr 1; simp; omega
  have r1 : ∀ n off, off + n ≤ back.length →
      readAt (gap ++ back) (gap.length + off) n = .ok ((back.drop off).take n) := by
    intro n off hle
    unfold readAt
    rw [if_pos (by simp; omega), drop_len_add]
  unfold readEntry
  rw [hs]
  simp only
  rw [r1 _ _ (by omega), Nat.add_assoc, r1 _ _ (by omega)]
  rfl

theorem readKey_eq (gap back : Bytes) (bd : EntryBound) (h : InRange back bd) :
    readKey (gap ++ back) bd = .ok (denote back bd).1 := by
  obtain ⟨h1, h2, _⟩ := h
  have hs : Entries.sub (gap ++ back).length bd.keyStart
      = .ok (gap.length + (back.length - bd.keyStart)) := by
    rw [sub_ok (by simp; omega)]; congr 1; simp; omega
  unfold readKey
  rw [hs]
  simp only
  unfold readAt
  rw [if_pos (by simp; omega), drop_len_add]
  rfl

theorem readEntries_eq (gap back : Bytes) (l : List EntryBound) (h : ∀ bd ∈ l, InRange back bd) :
    readEntries (gap ++ back) l = .ok (l.map (denote back)) := by
  induction l with
  | nil => rfl
  | cons bd r ih =>
    simp only [readEntries, readEntry_eq gap back bd (h bd (by simp)),
      ih (fun x hx => h x (by simp [hx])), List.map_cons]

theorem readKeys_eq (gap back : Bytes) (l : List EntryBound) (h : ∀ bd ∈ l, InRange back bd) :
    readKeys (gap ++ back) l = .ok (l.map (fun bd => ((denote back bd).1, bd))) := by
  induction l with
  | nil => rfl
  | cons bd r ih =>
    simp only [readKeys, readKey_eq gap back bd (h bd (by simp)),
      ih (fun x hx => h x (by simp [hx])), List.map_cons]

/-! ### The abstraction relation and the layout invariant -/

/-- **Abstraction relation**: the byte-level buffer and the numeric one carry the same numbers,
    and the allocation of the numeric one is live and as long as the byte string. -/
structure Abs (b : EntriesB) (e : Entries) : Prop where
  elen : b.entriesLen = e.entriesLen
  cnt  : b.boundsCount = e.boundsCount
  len  : e.bufLen = b.buf.length
  live : e.live = true

/-- **Layout**: the allocation is the bound records, a gap, and the entry bytes; every bound lies
    within the entry bytes. -/
structure Lay (b : EntriesB) (items : List Entry) (bounds : List EntryBound) (gap : Bytes) :
    Prop where
  buf  : b.buf = encodeBounds bounds ++ (gap ++ backBytes items)
  cnt  : b.boundsCount = bounds.length
  elen : b.entriesLen = itemsSize items
  rng  : ∀ bd ∈ bounds, InRange (backBytes items) bd

theorem Lay.length {b : EntriesB} {items : List Entry} {bounds : List EntryBound} {gap : Bytes}
    (h : Lay b items bounds gap) :
    b.buf.length = 16 * b.boundsCount + gap.length + b.entriesLen := by
  rw [h.buf, h.cnt, h.elen]; simp; omega

/-- The two regions do not overlap. -/
theorem Lay.disjoint {b : EntriesB} {items : List Entry} {bounds : List EntryBound} {gap : Bytes}
    (h : Lay b items bounds gap) : 16 * b.boundsCount + b.entriesLen ≤ b.buf.length := by
  have := h.length; omega

/-- The bound `insert` writes for `(k, v)` after `items`. -/
def newBound (items : List Entry) (k v : Bytes) : EntryBound :=
  ⟨itemsSize items + k.length + v.length, k.length, v.length⟩

/-- **`store`**: with room for 16 + |k| + |v| bytes in the gap, the three writes are in range and
    produce `bounds ++ [new bound]`, a smaller gap, and `k ++ v` in front of the entry bytes. -/
theorem store_lay {b : EntriesB} {items : List Entry} {bounds : List EntryBound} {gap : Bytes}
    (h : Lay b items bounds gap) (k v : Bytes) (hroom : 16 + k.length + v.length ≤ gap.length)
    (hk : k.length < 2 ^ 32) (hv : v.length < 2 ^ 32) (hsmall : b.buf.length < 2 ^ 64) :
    ∃ b' gap', store b k v = .ok b' ∧
      Lay b' (items ++ [(k, v)]) (bounds ++ [newBound items k v]) gap' ∧
      b'.buf.length = b.buf.length ∧ b'.entriesLen = b.entriesLen + k.length + v.length ∧
      b'.boundsCount = b.boundsCount + 1 := by
  have hlen := h.length
  obtain ⟨g1, r1, hg1, hl1⟩ := split_at_len gap 16 (by omega)
  have hr1 : r1.length = gap.length - 16 := by
    have : gap.length = g1.length + r1.length := by rw [hg1]; simp
    omega
  obtain ⟨r2, g4, hg4, hl4⟩ := split_at_len_back r1 v.length (by omega)
  have hr2 : r2.length = gap.length - 16 - v.length := by
    have : r1.length = r2.length + g4.length := by rw [hg4]; simp
    omega
  obtain ⟨g2, g3, hg3, hl3⟩ := split_at_len_back r2 k.length (by omega)
  have hg2 : g2.length = gap.length - 16 - v.length - k.length := by
    have : r2.length = g2.length + g3.length := by rw [hg3]; simp
    omega
  have hgap : gap = g1 ++ (g2 ++ (g3 ++ g4)) := by rw [hg1, hg4, hg3]; simp
  let E := encodeBounds bounds
  let back := backBytes items
  have hE : E.length = 16 * b.boundsCount := by simp [E, h.cnt]
  have hback : back.length = b.entriesLen := by simp [back, h.elen]
  have hb0 : b.buf = (E ++ (g1 ++ g2)) ++ (g3 ++ (g4 ++ back)) := by
    rw [h.buf, hgap]; simp [E, back]
  have hsub : Entries.sub b.buf.length (b.entriesLen + k.length + v.length)
      = .ok ((E ++ (g1 ++ g2)).length) := by
    rw [sub_ok (by omega)]; congr 1; simp [hE, hl1, hg2]; omega
  have w1 : writeAt b.buf (E ++ (g1 ++ g2)).length k
      = .ok ((E ++ (g1 ++ g2)) ++ (k ++ (g4 ++ back))) := by
    rw [hb0]; exact writeAt_mid _ _ _ _ _ rfl hl3.symm
  have w2 : writeAt ((E ++ (g1 ++ g2)) ++ (k ++ (g4 ++ back)))
      ((E ++ (g1 ++ g2)).length + k.length) v
      = .ok (((E ++ (g1 ++ g2)) ++ k) ++ (v ++ back)) := by
    rw [← List.append_assoc (E ++ (g1 ++ g2)) k]
    exact writeAt_mid _ _ _ _ _ (by simp; omega) hl4.symm
  have hb2 : ((E ++ (g1 ++ g2)) ++ k) ++ (v ++ back) = E ++ (g1 ++ (g2 ++ (k ++ (v ++ back)))) := by
    simp
  have w3 : writeAt (E ++ (g1 ++ (g2 ++ (k ++ (v ++ back))))) (b.boundsCount * boundSize)
      (encodeBound (b.entriesLen + k.length + v.length) k.length v.length)
      = .ok (E ++ (encodeBound (b.entriesLen + k.length + v.length) k.length v.length
              ++ (g2 ++ (k ++ (v ++ back))))) :=
    writeAt_mid _ _ _ _ _ (by simp [hE, boundSize]; omega) (by simp [hl1])
  have hguard : ¬ ((b.boundsCount + 1) * boundSize
      > (E ++ (g1 ++ (g2 ++ (k ++ (v ++ back))))).length) := by
    simp [hE, hl1, boundSize]; omega
  refine ⟨⟨E ++ (encodeBound (b.entriesLen + k.length + v.length) k.length v.length
        ++ (g2 ++ (k ++ (v ++ back)))), b.entriesLen + k.length + v.length, b.boundsCount + 1⟩,
    g2, ?_, ⟨?_, ?_, ?_, ?_⟩, ?_, rfl, rfl⟩
  · unfold store
    simp only [hsub, w1, w2, hb2, w3, hguard, if_false]
  · show E ++ (encodeBound (b.entriesLen + k.length + v.length) k.length v.length
        ++ (g2 ++ (k ++ (v ++ back)))) = _
    rw [encodeBounds_append, encodeBounds_single, backBytes_snoc, h.elen]
    simp [E, back, newBound, EntryBound.encode]
  · show b.boundsCount + 1 = _
    simp [h.cnt]
  · show b.entriesLen + k.length + v.length = _
    simp [itemsSize_append, itemsSize, h.elen]; omega
  · intro bd hbd
    rw [backBytes_snoc]
    rcases List.mem_append.1 hbd with hb | hb
    · exact (h.rng bd hb).prepend _
    · simp only [List.mem_singleton] at hb
      subst hb
      refine ⟨?_, ?_, ?_, hk, hv⟩
      · simp [newBound]
      · simp [newBound]; omega
      · show itemsSize items + k.length + v.length < 2 ^ 64
        rw [← h.elen]; omega
  · show (E ++ (encodeBound (b.entriesLen + k.length + v.length) k.length v.length
        ++ (g2 ++ (k ++ (v ++ back))))).length = _
    rw [hlen]; simp [hE, hback, hg2]; omega

theorem alloc_ok (g : Nat → Nat → UInt8) {n : Nat} (hal : n % 16 = 0) (h0 : n ≠ 0)
    (hlt : n < 2 ^ 63) : alloc g n = .ok (fresh g n, [.alloc n]) := by
  unfold alloc Entries.alloc
  simp only [Entries.roundUp_of_mod hal, h0, if_false, show ¬ (n ≥ 2 ^ 63) by omega]

/-- **`reallocate_buffer`**: all four slice accesses are in range; the new allocation holds the
    same bound records at its front and the same entry bytes at its back. -/
theorem reallocate_lay (g : Nat → Nat → UInt8) {b : EntriesB} {items : List Entry}
    {bounds : List EntryBound} {gap : Bytes} (h : Lay b items bounds gap)
    (hal : b.buf.length % 16 = 0) (hpos : 16 ≤ b.buf.length) (hsm : b.buf.length < 2 ^ 62) :
    ∃ b' gap', reallocate g b = .ok (b', [.alloc (b.buf.length * 2), .dealloc b.buf.length]) ∧
      Lay b' items bounds gap' ∧ b'.buf.length = b.buf.length * 2 ∧
      b'.entriesLen = b.entriesLen ∧ b'.boundsCount = b.boundsCount := by
  have hlen := h.length
  let E := encodeBounds bounds
  let back := backBytes items
  have hE : E.length = 16 * b.boundsCount := by simp [E, h.cnt]
  have hback : back.length = b.entriesLen := by simp [back, h.elen]
  have hb0 : b.buf = E ++ (gap ++ back) := h.buf
  have r1 : readAt b.buf 0 (b.boundsCount * boundSize) = .ok E := by
    have := readAt_mid [] E (gap ++ back) 0 (b.boundsCount * boundSize) rfl
      (by simp [hE, boundSize]; omega)
    rw [hb0]; simpa using this
  have hsub : Entries.sub b.buf.length b.entriesLen = .ok (E ++ gap).length := by
    rw [sub_ok (by omega)]; congr 1; simp [hE]; omega
  have r2 : readAt b.buf (E ++ gap).length (b.buf.length - (E ++ gap).length) = .ok back := by
    have hn : b.buf.length - (E ++ gap).length = back.length := by simp [hE, hback]; omega
    rw [hn, hb0]
    have := readAt_mid (E ++ gap) back [] (E ++ gap).length back.length rfl rfl
    simpa using this
  have hg : ¬ (b.buf.length * 2 ≥ usizeLimit) := by unfold usizeLimit; omega
  obtain ⟨f1, r, hf1, hl1⟩ := split_at_len (fresh g (b.buf.length * 2)) E.length (by simp; omega)
  have hr : r.length = b.buf.length * 2 - E.length := by
    have : (fresh g (b.buf.length * 2)).length = f1.length + r.length := by rw [hf1]; simp
    simp at this; omega
  obtain ⟨f2, f3, hf3, hl3⟩ := split_at_len_back r back.length (by omega)
  have hf2 : f2.length = b.buf.length * 2 - E.length - back.length := by
    have : r.length = f2.length + f3.length := by rw [hf3]; simp
    omega
  have ha : alloc g (b.buf.length * 2) = .ok (f1 ++ (f2 ++ f3), [.alloc (b.buf.length * 2)]) := by
    rw [alloc_ok g (by omega) (by omega) (by omega), hf1, hf3]
  have w1 : writeAt (f1 ++ (f2 ++ f3)) 0 E = .ok (E ++ (f2 ++ f3)) := writeAt_front _ _ _ hl1.symm
  have hsub2 : Entries.sub (E ++ (f2 ++ f3)).length b.entriesLen = .ok (E ++ f2).length := by
    rw [sub_ok (by simp; omega)]; congr 1; simp [hl3, hback]; omega
  have hg2 : ¬ ((E ++ (f2 ++ f3)).length - (E ++ f2).length ≠ back.length) := by
    simp [hl3]; omega
  have w2 : writeAt (E ++ (f2 ++ f3)) (E ++ f2).length back = .ok (E ++ (f2 ++ back)) := by
    have := writeAt_mid (E ++ f2) f3 [] back (E ++ f2).length rfl hl3.symm
    simpa using this
  refine ⟨{ b with buf := E ++ (f2 ++ back) }, f2, ?_, ⟨rfl, h.cnt, h.elen, h.rng⟩, ?_, rfl, rfl⟩
  · unfold reallocate
    simp only [r1, hsub, r2, hg, if_false, ha, w1, hsub2, hg2, w2, List.singleton_append]
  · show (E ++ (f2 ++ back)).length = _
    simp [hE, hf2, hback]; omega

theorem reallocate_big (g : Nat → Nat → UInt8) {b : EntriesB} {items : List Entry}
    {bounds : List EntryBound} {gap : Bytes} (h : Lay b items bounds gap)
    (hal : b.buf.length % 16 = 0) (hbig : 2 ^ 62 ≤ b.buf.length) :
    reallocate g b = .error .arith := by
  have hlen := h.length
  let E := encodeBounds bounds
  let back := backBytes items
  have hE : E.length = 16 * b.boundsCount := by simp [E, h.cnt]
  have hback : back.length = b.entriesLen := by simp [back, h.elen]
  have hb0 : b.buf = E ++ (gap ++ back) := h.buf
  have r1 : readAt b.buf 0 (b.boundsCount * boundSize) = .ok E := by
    have := readAt_mid [] E (gap ++ back) 0 (b.boundsCount * boundSize) rfl
      (by simp [hE, boundSize]; omega)
    rw [hb0]; simpa using this
  have hsub : Entries.sub b.buf.length b.entriesLen = .ok (E ++ gap).length := by
    rw [sub_ok (by omega)]; congr 1; simp [hE]; omega
  have r2 : readAt b.buf (E ++ gap).length (b.buf.length - (E ++ gap).length) = .ok back := by
    have hn : b.buf.length - (E ++ gap).length = back.length := by simp [hE, hback]; omega
    rw [hn, hb0]
    have := readAt_mid (E ++ gap) back [] (E ++ gap).length back.length rfl rfl
    simpa using this
  unfold reallocate
  simp only [r1, hsub, r2]
  by_cases hg : b.buf.length * 2 ≥ usizeLimit
  · simp [hg]
  · have c2 : ¬ (b.buf.length * 2 = 0) := by omega
    have c3 : b.buf.length * 2 ≥ 2 ^ 63 := by omega
    simp [hg, alloc, Entries.alloc, Entries.roundUp_of_mod (show b.buf.length * 2 % 16 = 0 by omega),
      c2, c3]

end EntriesB
end Grenad
