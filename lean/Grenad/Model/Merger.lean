/-
  Grenad.Model.Merger — mirror of src/merger.rs.

  A source is the list of entries its cursor will still yield (head = `cursor.current()`); that a
  fresh cursor over a file yields exactly the file's entries is C01/T-cursor.  `std::BinaryHeap`
  is replaced by its specification: "pop the greatest element" of the reversed total order on
  `(key, source_index)`; live heads always have distinct `(key, index)` pairs, so the heap's
  internal shape is unobservable.
-/
import Grenad.Model.Spec

namespace Grenad

/-- A user merge function; `none` = it returned `Err`. -/
abbrev MergeFn := Bytes → List Bytes → Option Bytes

/-- Heap entry: source index and the entries from the current one on (never empty). -/
structure MSrc where
  idx  : Nat
  rest : List Entry
  deriving Repr, Inhabited, DecidableEq

def MSrc.key (s : MSrc) : Bytes := match s.rest with
  | e :: _ => e.1
  | [] => []

def MSrc.val (s : MSrc) : Bytes := match s.rest with
  | e :: _ => e.2
  | [] => []

/-- `Entry::cmp` reversed: `a` pops before `b`. -/
def MSrc.before (a b : MSrc) : Bool :=
  decide (a.key < b.key) || (decide (a.key = b.key) && decide (a.idx < b.idx))

/-- Index-free selection of the element that pops first. -/
def heapMin : List MSrc → Option MSrc
  | [] => none
  | s :: rest =>
    match heapMin rest with
    | none => some s
    | some m => if s.before m then some s else some m

/-- `BinaryHeap::pop`. -/
def heapPop (h : List MSrc) : Option (MSrc × List MSrc) :=
  match heapMin h with
  | none => none
  | some m => some (m, h.erase m)

/-- The `while let Some(entry) = heap.peek()` loop collecting the other heads with `key`. -/
def popSame (key : Bytes) : Nat → List MSrc → List MSrc → List MSrc × List MSrc
  | 0, h, acc => (acc.reverse, h)
  | fuel+1, h, acc =>
    match heapPop h with
    | some (m, h') => if m.key = key then popSame key fuel h' (m :: acc) else (acc.reverse, h)
    | none => (acc.reverse, h)

/-- `cursor.move_on_next()` + push back when it still has an entry. -/
def advance (h : List MSrc) (s : MSrc) : List MSrc :=
  match s.rest with
  | _ :: (e :: more) => { s with rest := e :: more } :: h
  | _ => h

structure Merger where
  heap  : List MSrc
  calls : List (Bytes × List Bytes) := []      -- instrumentation: merge calls, most recent first
  deriving Inhabited

namespace Merger

/-- `into_stream_merger_iter`: one `move_on_next` per source, empty sources are dropped. -/
def start (sources : List (List Entry)) : Merger :=
  let rec go : Nat → List (List Entry) → List MSrc
    | _, [] => []
    | i, s :: rest => match s with
      | [] => go (i+1) rest
      | _ :: _ => { idx := i, rest := s } :: go (i+1) rest
  { heap := go 0 sources }

inductive MRes where
  | ok (e : Option Entry)
  | mergeErr
  deriving Repr, DecidableEq, Inhabited

/-- `MergerIter::next`. -/
def next (mf : MergeFn) (m : Merger) : Merger × MRes :=
  match heapPop m.heap with
  | none => (m, .ok none)
  | some (first, h) =>
    let (same, h) := popSame first.key (h.length + 1) h []
    let vals := first.val :: same.map MSrc.val
    let calls := (first.key, vals) :: m.calls
    match mf first.key vals with
    | none => ({ m with heap := h, calls := calls }, .mergeErr)
    | some merged =>
      let h := (first :: same).foldl advance h
      ({ heap := h, calls := calls }, .ok (some (first.key, merged)))

/-- Drain the merger. `fuel` ≥ total number of entries + 1. -/
def collect (mf : MergeFn) : Nat → Merger → List Entry → Option (List Entry) × Merger
  | 0, m, acc => (some acc.reverse, m)
  | fuel+1, m, acc =>
    match next mf m with
    | (m', .ok none) => (some acc.reverse, m')
    | (m', .ok (some e)) => collect mf fuel m' (e :: acc)
    | (m', .mergeErr) => (none, m')

def totalLen (sources : List (List Entry)) : Nat := (sources.map List.length).sum

/-- Merge `sources` completely. -/
def run (mf : MergeFn) (sources : List (List Entry)) : Option (List Entry) × Merger :=
  collect mf (totalLen sources + 1) (start sources) []

end Merger
end Grenad
