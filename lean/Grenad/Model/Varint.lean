/-
  Grenad.Model.Varint — mirror of src/varint.rs (LEB128-style 32-bit lengths).
-/
import Grenad.Model.Basic

namespace Grenad.Varint

/-- `varint_encode32`: same five branches; `(x | 128) as u8` is `x % 128 + 128`,
    `(x >> 7k) as u8` in the last position is below 128 so the cast is exact. -/
def encode32 (v : Nat) : Bytes :=
  if v < 2^7 then
    [UInt8.ofNat v]
  else if v < 2^14 then
    [UInt8.ofNat (v % 128 + 128), UInt8.ofNat (v / 2^7)]
  else if v < 2^21 then
    [UInt8.ofNat (v % 128 + 128), UInt8.ofNat (v / 2^7 % 128 + 128), UInt8.ofNat (v / 2^14)]
  else if v < 2^28 then
    [UInt8.ofNat (v % 128 + 128), UInt8.ofNat (v / 2^7 % 128 + 128),
     UInt8.ofNat (v / 2^14 % 128 + 128), UInt8.ofNat (v / 2^21)]
  else
    [UInt8.ofNat (v % 128 + 128), UInt8.ofNat (v / 2^7 % 128 + 128),
     UInt8.ofNat (v / 2^14 % 128 + 128), UInt8.ofNat (v / 2^21 % 128 + 128),
     UInt8.ofNat (v / 2^28)]

/-- `varint_length_packed`: number of bytes up to and including the first byte without the
    continuation bit; 0 when every byte of `d` has it. -/
def lengthPacked (d : Bytes) : Nat :=
  let i := (d.takeWhile (fun b => decide (128 ≤ b.toNat))).length
  if i = d.length then 0 else i + 1

/-- `varint_decode32`: `(value, consumed)`; `none` where Rust indexes `data[0]` of an empty slice. -/
def decode32 (data : Bytes) : Option (Nat × Nat) :=
  match data with
  | [] => none
  | d0 :: _ =>
    let len := lengthPacked (data.take 5)
    let b (i : Nat) : Nat := (data.getD i 0).toNat
    let v0 := d0.toNat % 128
    let v1 := if len > 1 then v0 + (b 1 % 128) * 2^7 else v0
    let v2 := if len > 2 then v1 + (b 2 % 128) * 2^14 else v1
    let v3 := if len > 3 then v2 + (b 3 % 128) * 2^21 else v2
    let v4 := if len > 4 then v3 + (b 4 * 2^28) % 2^32 else v3
    some (v4, len)

end Grenad.Varint
