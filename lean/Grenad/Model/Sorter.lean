/-
  Grenad.Model.Sorter — mirror of src/sorter.rs: `Entries` buffer bookkeeping as numbers with
  guarded primitives (C08, C17) and the spill / chunk-merge / final-merge logic (C07).

  A chunk is represented by the entry list it holds; that a chunk file written with any writer
  configuration scans back to that list is C01.
-/
import Grenad.Model.Merger

namespace Grenad

/-- `size_of::<EntryBound>()` on a 64-bit target. -/
def boundSize : Nat := 16

/-- usize::MAX + 1 on a 64-bit target. -/
def usizeLimit : Nat := 2^64

/-- Events the buffer and the chunk storage perform, in program order (instrumentation). -/
inductive SEvent where
  | alloc (size : Nat)
  | dealloc (size : Nat)
  | create            -- ChunkCreator::create
  | dropChunk         -- a chunk handle is dropped
  deriving Repr, DecidableEq, Inhabited

/-- `Entries` + `EntryBoundAlignedBuffer`, reduced to its sizes and the inserted entries. -/
structure Entries where
  bufLen      : Nat            -- buffer.len (the allocation size)
  entriesLen  : Nat
  boundsCount : Nat
  items       : List Entry     -- inserted since the last clear, in insertion order
  live        : Bool := true   -- the allocation exists
  deriving Repr, Inhabited

namespace Entries

/-- `size.div_ceil(16) * 16`. -/
def roundUp (n : Nat) : Nat := (n + boundSize - 1) / boundSize * boundSize

/-- `EntryBoundAlignedBuffer::new`: `alloc` with a zero size is undefined behaviour, a size that
    overflows `isize` makes `Layout::from_size_align(..).unwrap()` panic. -/
def alloc (size : Nat) : Except Trap (Nat × List SEvent) :=
  let sz := roundUp size
  if sz = 0 then .error .allocZero
  else if sz ≥ 2^63 then .error .arith
  else .ok (sz, [.alloc sz])

def withCapacity (cap : Nat) : Except Trap (Entries × List SEvent) :=
  match alloc cap with
  | .error t => .error t
  | .ok (sz, ev) => .ok ({ bufLen := sz, entriesLen := 0, boundsCount := 0, items := [] }, ev)

/-- Guarded `a - b` on usize. -/
def sub (a b : Nat) : Except Trap Nat := if b ≤ a then .ok (a - b) else .error .arith

/-- `remaining`. -/
def remaining (e : Entries) : Except Trap Nat :=
  match sub e.bufLen e.entriesLen with
  | .error t => .error t
  | .ok r => sub r (e.boundsCount * boundSize)

def entrySize (k v : Bytes) : Nat := boundSize + k.length + v.length

/-- `fits`. -/
def fits (e : Entries) (k v : Bytes) : Except Trap Bool :=
  if !e.live then .error .useAfterFree else
  match sub (e.bufLen / boundSize) e.boundsCount, remaining e with
  | .ok ra, .ok rem => .ok (decide (rem ≥ entrySize k v) && decide (ra ≥ 1))
  | .error t, _ => .error t
  | _, .error t => .error t

/-- `reallocate_buffer`: allocate twice the size, copy both ends, free the old buffer. -/
def reallocate (e : Entries) : Except Trap (Entries × List SEvent) :=
  if !e.live then .error .useAfterFree else
  if e.bufLen * 2 ≥ usizeLimit then .error .arith else
  match alloc (e.bufLen * 2) with
  | .error t => .error t
  | .ok (sz, ev) =>
    -- `new_buffer[..bounds_end]` and `new_buffer[new_len - entries_len ..]` must be in range
    if e.boundsCount * boundSize ≤ sz ∧ e.entriesLen ≤ sz then
      .ok ({ e with bufLen := sz }, ev ++ [.dealloc e.bufLen])
    else .error .outOfRange

/-- The write of one entry when it fits: both copies and the bound store are range-checked, and
    the two regions must not overlap. -/
def store (e : Entries) (k v : Bytes) : Except Trap Entries :=
  let entriesLen := e.entriesLen + k.length + v.length
  if entriesLen > e.bufLen then .error .arith else          -- `buffer.len() - entries_len`
  let entriesStart := e.bufLen - entriesLen
  let boundsEnd := (e.boundsCount + 1) * boundSize
  if boundsEnd > e.bufLen then .error .outOfRange else      -- `&mut buffer[..bounds_end]`
  if boundsEnd > entriesStart then .error .outOfRange else  -- the bound would overwrite entry bytes
  .ok { e with entriesLen := entriesLen, boundsCount := e.boundsCount + 1,
               items := e.items ++ [(k, v)] }

/-- `Entries::insert`: doubles until the entry fits. -/
def insert (e : Entries) (k v : Bytes) : Nat → Except Trap (Entries × List SEvent)
  | 0 => .error .arith
  | fuel+1 =>
    if k.length > u32Max then .error .keyTooLong else
    if v.length > u32Max then .error .valTooLong else
    match fits e k v with
    | .error t => .error t
    | .ok true => (store e k v).map (fun e' => (e', []))
    | .ok false =>
      match reallocate e with
      | .error t => .error t
      | .ok (e', ev) =>
        match insert e' k v fuel with
        | .error t => .error t
        | .ok (e'', ev') => .ok (e'', ev ++ ev')

def clear (e : Entries) : Entries := { e with entriesLen := 0, boundsCount := 0, items := [] }

/-- `Drop for EntryBoundAlignedBuffer`. -/
def drop (e : Entries) : Except Trap (Entries × List SEvent) :=
  if !e.live then .error .badDealloc else .ok ({ e with live := false }, [.dealloc e.bufLen])

end Entries

structure SCfg where
  threshold    : Nat            -- dump_threshold as given
  minMemory    : Nat := 10485760   -- MIN_SORTER_MEMORY
  initialSize  : Nat := 131072     -- INITIAL_SORTER_VEC_SIZE
  allowRealloc : Bool := true
  maxChunks    : Nat := 25      -- as given
  stable       : Bool := true
  deriving Repr, Inhabited

/-- `cmp::max(memory, MIN_SORTER_MEMORY)`. -/
def SCfg.budget (c : SCfg) : Nat := max c.threshold c.minMemory
/-- `cmp::max(nb_chunks, MIN_NB_CHUNKS)`. -/
def SCfg.maxNb (c : SCfg) : Nat := max c.maxChunks 1

structure Sorter where
  cfg     : SCfg
  entries : Entries
  chunks  : List (List Entry)             -- oldest first
  events  : List SEvent                   -- program order
  calls   : List (Bytes × List Bytes)     -- merge calls, program order
  deriving Inhabited

namespace Sorter

def new (cfg : SCfg) : Except Trap Sorter :=
  let cap := if cfg.allowRealloc then cfg.initialSize else cfg.budget
  match Entries.withCapacity cap with
  | .error t => .error t
  | .ok (e, ev) => .ok { cfg := cfg, entries := e, chunks := [], events := ev, calls := [] }

/-- Outcome of a sorter call. -/
inductive SErr where
  | trap (t : Trap)
  | merge                                   -- the merge function failed
  deriving Repr, DecidableEq, Inhabited

/-- Stable sort by key (`sort_by_key`). -/
def sortStable (kvs : List Entry) : List Entry :=
  kvs.mergeSort (fun a b => decide (a.1 ≤ b.1))

/-- Group consecutive equal keys of a key-sorted list and merge each group (singletons too). -/
def mergeGroups (mf : MergeFn) : List Entry → Option (Bytes × List Bytes) →
    List Entry → List (Bytes × List Bytes) → Option (List Entry × List (Bytes × List Bytes))
  | [], none, out, calls => some (out.reverse, calls.reverse)
  | [], some (k, vs), out, calls =>
    (mf k vs).map (fun m => (((k, m) :: out).reverse, ((k, vs) :: calls).reverse))
  | (k, v) :: rest, none, out, calls => mergeGroups mf rest (some (k, [v])) out calls
  | (k, v) :: rest, some (ck, vs), out, calls =>
    if ck = k then mergeGroups mf rest (some (ck, vs ++ [v])) out calls
    else match mf ck vs with
      | none => none
      | some m => mergeGroups mf rest (some (k, [v])) ((ck, m) :: out) ((ck, vs) :: calls)

/-- `write_chunk` with an explicit ordering of the pending entries (`sorted` must be a key-sorted
    permutation of them: the stable one, or whatever an unstable / parallel sort produced). -/
def writeChunkWith (mf : MergeFn) (s : Sorter) (sorted : List Entry) : Except SErr Sorter :=
  match mergeGroups mf sorted none [] [] with
  | none => .error .merge
  | some (chunk, calls) =>
    .ok { s with chunks := s.chunks ++ [chunk], entries := s.entries.clear,
                 events := s.events ++ [.create], calls := s.calls ++ calls }

def writeChunk (mf : MergeFn) (s : Sorter) : Except SErr Sorter :=
  writeChunkWith mf s (sortStable s.entries.items)

/-- `merge_chunks`: a new chunk is created while the drained ones are still alive. -/
def mergeChunks (mf : MergeFn) (s : Sorter) : Except SErr Sorter :=
  match Merger.run mf s.chunks with
  | (none, _) => .error .merge
  | (some merged, m) =>
    .ok { s with chunks := [merged],
                 events := s.events ++ [.create] ++ s.chunks.map (fun _ => .dropChunk),
                 calls := s.calls ++ m.calls.reverse }

/-- `Sorter::insert`. -/
def insert (mf : MergeFn) (s : Sorter) (k v : Bytes) : Except SErr Sorter :=
  match s.entries.fits k v with
  | .error t => .error (.trap t)
  | .ok fit =>
    let thresholdExceeded := decide (s.entries.bufLen ≥ s.cfg.budget)
    if fit || (!thresholdExceeded && s.cfg.allowRealloc) then
      match s.entries.insert k v 64 with
      | .error t => .error (.trap t)
      | .ok (e, ev) => .ok { s with entries := e, events := s.events ++ ev }
    else
      match writeChunk mf s with
      | .error e => .error e
      | .ok s =>
        match s.entries.insert k v 64 with
        | .error t => .error (.trap t)
        | .ok (e, ev) =>
          let s := { s with entries := e, events := s.events ++ ev }
          if s.chunks.length ≥ s.cfg.maxNb then mergeChunks mf s else .ok s

/-- `extract_reader_cursors_and_merger`: the final spill; the chunks are then handed out. -/
def finishChunks (mf : MergeFn) (s : Sorter) : Except SErr Sorter :=
  match writeChunk mf s with
  | .error e => .error e
  | .ok s =>
    match s.entries.drop with
    | .error t => .error (.trap t)
    | .ok (e, ev) => .ok { s with entries := e, events := s.events ++ ev }

/-- `into_stream_merger_iter` drained (also what `write_into_stream_writer` inserts). -/
def finish (mf : MergeFn) (s : Sorter) : Except SErr (List Entry × Sorter) :=
  match finishChunks mf s with
  | .error e => .error e
  | .ok s =>
    match Merger.run mf s.chunks with
    | (none, _) => .error .merge
    | (some out, m) => .ok (out, { s with calls := s.calls ++ m.calls.reverse })

end Sorter
end Grenad
