/-
  Grenad.Model.Writer — mirror of src/writer.rs.
  The compression crates are a parameter (`Codec`); see DESIGN §3.2.
-/
import Grenad.Model.Block
import Grenad.Model.Meta

namespace Grenad

/-- A block codec: the six compression back ends are *not* modelled. -/
structure Codec where
  id         : Nat                       -- codec id stored in the trailer
  compress   : Bytes → Bytes
  decompress : Bytes → Option Bytes

def Codec.none : Codec := { id := 0, compress := fun b => b, decompress := fun b => some b }

/-- `decompress ∘ compress = id`: the only fact assumed of a compression crate. -/
def Codec.Lawful (cd : Codec) : Prop := ∀ b, cd.decompress (cd.compress b) = some b

structure WCfg where
  blockSize : Nat          -- as given by the caller
  minBlock  : Nat := 1024  -- MIN_BLOCK_SIZE (overridable through the verification hook)
  interval  : Nat := 8     -- index_key_interval
  levels    : Nat := 0     -- index_levels (u8)
  deriving Repr, Inhabited

/-- `WriterBuilder::block_size`: `cmp::max(MIN_BLOCK_SIZE, size)`. -/
def WCfg.clamped (c : WCfg) : Nat := max c.minBlock c.blockSize

/-- One emitted block, kept as a ghost log next to the output bytes. -/
structure Emitted where
  offset : Nat             -- where its 8-byte length prefix starts
  level  : Nat             -- 0 = data block; ℓ ≥ 1 = index_block_writers[levels + 1 - ℓ] … see `W.idxLevel`
  raw    : Bytes           -- uncompressed block bytes (`BW.finish`)
  items  : List Entry := [] -- ghost: the entries the block writer held
  deriving Repr, Inhabited

structure W where
  cfg   : WCfg
  bw    : BW
  idx   : List BW          -- index_block_writers, root first; length = levels + 1
  out   : Bytes            -- everything handed to the sink so far; `count = out.length`
  count : Nat              -- entries_count
  log   : List Emitted     -- ghost: emitted blocks, in emission order
  deriving Inhabited

namespace W

def new (cfg : WCfg) : W :=
  { cfg := cfg, bw := BW.new cfg.interval,
    idx := List.replicate (cfg.levels + 1) (BW.new cfg.interval),
    out := [], count := 0, log := [] }

/-- `compress_and_write_block`: returns the bytes appended to the sink. -/
def blockBytes (cd : Codec) (raw : Bytes) : Bytes :=
  let body := cd.compress raw
  be64 body.length ++ body

/-- Replace element `i` of a list. -/
def setAt {α} (l : List α) (i : Nat) (a : α) : List α := l.set i a

/-- The level loop of `Writer::insert` over `index_block_writers[1..]`, from the last writer up.
    `i` is the index (in `idx`) of the writer under consideration; it stops at index 1, whose
    parent lies outside the slice, so index 1 (and the root, index 0) are never cut here. -/
def cutLevels (cd : Codec) (bs : Nat) : Nat → List BW → Bytes → List Emitted →
    Except Trap (List BW × Bytes × List Emitted)
  | 0, idx, out, log => .ok (idx, out, log)
  | i+1, idx, out, log =>
    if i + 1 < 2 then .ok (idx, out, log) else
    match idx[i+1]?, idx[i]? with
    | some cur, some parent =>
      if cur.sizeEstimate ≥ bs then
        match cur.lastKey with
        | some lk =>
          match parent.insert lk (be64 out.length) with
          | .error t => .error t
          | .ok parent' =>
            let raw := cur.finish
            let idx' := (idx.set i parent').set (i+1) cur.reset
            cutLevels cd bs i idx' (out ++ blockBytes cd raw)
              (log ++ [{ offset := out.length, level := idx.length - (i+1), raw := raw, items := cur.items }])
        | none => cutLevels cd bs i idx out log
      else cutLevels cd bs i idx out log
    | _, _ => .ok (idx, out, log)

/-- `Writer::insert`. -/
def insert (cd : Codec) (w : W) (k v : Bytes) : Except Trap W :=
  match w.bw.insert k v with
  | .error t => .error t
  | .ok bw =>
    let w := { w with bw := bw, count := w.count + 1 }
    let bs := w.cfg.clamped
    if bw.sizeEstimate ≥ bs then
      match bw.lastKey with
      | some lk =>
        let n := w.idx.length
        match w.idx[n - 1]? with
        | some lastIdx =>
          match lastIdx.insert lk (be64 w.out.length) with
          | .error t => .error t
          | .ok lastIdx' =>
            let raw := bw.finish
            let out := w.out ++ blockBytes cd raw
            let log := w.log ++ [{ offset := w.out.length, level := 0, raw := raw, items := bw.items }]
            let idx := w.idx.set (n - 1) lastIdx'
            match cutLevels cd bs (n - 1) idx out log with
            | .error t => .error t
            | .ok (idx, out, log) => .ok { w with bw := bw.reset, idx := idx, out := out, log := log }
        | none => .ok w
      | none => .ok w
    else .ok w

/-- The level loop of `Writer::into_inner`, from the last index writer up to the root.
    Returns the writers, the output, the log and the offset of the block written last
    (`index_block_offset`). -/
def flushLevels (cd : Codec) : Nat → List BW → Bytes → List Emitted → Nat →
    Except Trap (List BW × Bytes × List Emitted × Nat)
  | 0, idx, out, log, root => .ok (idx, out, log, root)
  | i+1, idx, out, log, _ =>
    -- writer at index `i` is the last of the remaining slice `idx[0..=i]`
    match idx[i]? with
    | none => .ok (idx, out, log, out.length)
    | some cur =>
      let off := out.length
      match cur.lastKey with
      | some lk =>
        let step (idx : List BW) : Except Trap (List BW × Bytes × List Emitted × Nat) :=
          let raw := cur.finish
          flushLevels cd i (idx.set i cur.reset) (out ++ blockBytes cd raw)
            (log ++ [{ offset := off, level := idx.length - i, raw := raw, items := cur.items }]) off
        if i = 0 then step idx else
        match idx[i - 1]? with
        | some parent =>
          match parent.insert lk (be64 off) with
          | .error t => .error t
          | .ok parent' => step (idx.set (i - 1) parent')
        | none => step idx
      | none =>
        if i = 0 then
          let raw := cur.finish
          flushLevels cd i (idx.set i cur.reset) (out ++ blockBytes cd raw)
            (log ++ [{ offset := off, level := idx.length - i, raw := raw, items := cur.items }]) off
        else flushLevels cd i idx out log off

/-- `Writer::into_inner`: the complete file, or the trap the Rust code would hit. -/
def finish (cd : Codec) (w : W) : Except Trap (Bytes × List Emitted) :=
  -- write the last data block only if it is not empty
  let r : Except Trap (List BW × Bytes × List Emitted) :=
    match w.bw.lastKey with
    | some lk =>
      let n := w.idx.length
      match w.idx[n - 1]? with
      | some lastIdx =>
        match lastIdx.insert lk (be64 w.out.length) with
        | .error t => .error t
        | .ok lastIdx' =>
          let raw := w.bw.finish
          .ok (w.idx.set (n - 1) lastIdx', w.out ++ blockBytes cd raw,
               w.log ++ [{ offset := w.out.length, level := 0, raw := raw, items := w.bw.items }])
      | none => .ok (w.idx, w.out, w.log)
    | none => .ok (w.idx, w.out, w.log)
  match r with
  | .error t => .error t
  | .ok (idx, out, log) =>
    match flushLevels cd idx.length idx out log out.length with
    | .error t => .error t
    | .ok (idx, out, log, root) =>
      -- `(self.index_block_writers.len() - 1) as u8` (after the repair of finding F2; the pinned
      -- code computed `len() as u8 - 1`, which traps for 256 writers — see Props/C01)
      let m : Meta.Meta :=
        { version := 2, root := root, codec := cd.id, count := w.count, levels := (idx.length - 1) % 256 }
      .ok (out ++ Meta.encode m, log)

/-- Insert all pairs in order, then finish. -/
def run (cd : Codec) (cfg : WCfg) (kvs : List Entry) : Except Trap (Bytes × List Emitted) :=
  let rec go (w : W) : List Entry → Except Trap W
    | [] => .ok w
    | (k, v) :: rest => match insert cd w k v with
      | .error t => .error t
      | .ok w' => go w' rest
  match go (new cfg) kvs with
  | .error t => .error t
  | .ok w => finish cd w

end W
end Grenad
