/-
  Grenad.Model.Abstract — L1: the abstract view of a block (a list cursor, `LC`) and of a file
  (`Store`: offset ↦ block entries; `Sub`: the index tree as a predicate over a store).

  `LC` is what `T-block` proves the byte-level `BlockCursor` to be; `Sub` is what `T-writer`
  proves of the writer's output and what `T-cursor` assumes of a file.
-/
import Grenad.Model.Spec

namespace Grenad

/-- A cursor inside one block, abstractly: the block's entries and an index
    (`none` = `current_offset == None`; `some n` with `n = es.length` = parked past the end). -/
structure LC where
  es  : List Entry
  pos : Option Nat
  deriving Repr, DecidableEq, Inhabited

namespace LC

def ofList (es : List Entry) : LC := { es := es, pos := none }

def current (c : LC) : Option Entry :=
  match c.pos with
  | none => none
  | some i => c.es[i]?

def first (c : LC) : LC × Option Entry :=
  let c' := { c with pos := some 0 }
  (c', c'.current)

/-- `move_on_last`: on an empty block the offset is left untouched. -/
def last (c : LC) : LC × Option Entry :=
  if c.es.isEmpty then (c, none) else
  let c' := { c with pos := some (c.es.length - 1) }
  (c', c'.current)

/-- `move_on_next`: parks at `es.length` after the last entry; stays there afterwards. -/
def next (c : LC) : LC × Option Entry :=
  match c.pos with
  | none => c.first
  | some i =>
    if i < c.es.length then
      let c' := { c with pos := some (i + 1) }
      (c', c'.current)
    else (c, none)

/-- `move_on_prev`: at the first entry, or parked past the end, returns `None` without moving. -/
def prev (c : LC) : LC × Option Entry :=
  match c.pos with
  | none => c.last
  | some i =>
    if i = 0 ∨ c.es.length ≤ i then (c, none) else
    let c' := { c with pos := some (i - 1) }
    (c', c'.current)

/-- `move_on_key_greater_than_or_equal_to`: lands on the index of the ceiling (possibly parked). -/
def ge (c : LC) (q : Bytes) : LC × Option Entry :=
  let c' := { c with pos := some (Spec.lowerBound c.es q) }
  (c', c'.current)

def ops : BlockOps LC :=
  { current := current, first := first, last := last, next := next, prev := prev, ge := ge }

end LC

/-- Strictly ascending keys. -/
def StrictAsc (es : List Entry) : Prop := es.Pairwise (fun a b => a.1 < b.1)

/-- A file, abstractly: which entries the block at each offset holds. -/
abbrev Store := Nat → Option (List Entry)

def Store.load (s : Store) (off : Nat) : Option LC := (s off).map LC.ofList

/-- Last key of a non-empty entry list. -/
def lastKey (es : List Entry) : Bytes := match es.getLast? with
  | some e => e.1
  | none => []

/-- `Sub s lvl d off flat`: the block at `off` is the root of a well-formed subtree of depth `d`
    (`0` = data block) whose leaves concatenate to `flat`.  An index block maps the last key of
    each child to the child's offset (u64 big-endian).  `lvl` labels every block offset with its
    depth, so blocks of different depths never share an offset. -/
inductive Sub (s : Store) (lvl : Nat → Nat) : Nat → Nat → List Entry → Prop where
  | leaf (off : Nat) (es : List Entry) :
      s off = some es → es ≠ [] → lvl off = 0 → Sub s lvl 0 off es
  | node (d off : Nat) (kids : List (Nat × List Entry)) :
      kids ≠ [] →
      s off = some (kids.map (fun k => (lastKey k.2, be64 k.1))) →
      lvl off = d + 1 →
      (∀ k ∈ kids, Sub s lvl d k.1 k.2) →
      Sub s lvl (d + 1) off (kids.flatMap (·.2))

/-- A well-formed file over a store: root offset, number of index levels, and content.
    The empty file has an empty root index block (and nothing else is ever loaded). -/
structure FileOK (s : Store) (root levels : Nat) (es : List Entry) : Prop where
  asc    : StrictAsc es
  tree   : (es = [] ∧ s root = some []) ∨ ∃ lvl, Sub s lvl (levels + 1) root es
  blocks : ∀ off es', s off = some es' → StrictAsc es' ∧ off < 2^64

/-- The reader cursor over an abstract store. -/
def RC.stepA (s : Store) (fixF1 : Bool) : RC LC → Op → RC LC × Res :=
  RC.step LC.ops s.load fixF1

end Grenad
