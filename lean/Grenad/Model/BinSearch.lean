/-
  Grenad.Model.BinSearch — Rust's `slice::binary_search_by` as the loop it is (core Lean only).

  `Grenad.Model.Block` replaces the two in-block searches (`offsets.binary_search(&cur)` in
  `move_on_prev`, `offsets.binary_search_by_key(&Some(key), |off| entry_at(off).key)` in
  `move_on_key_lower_than_or_equal_to`) by their specification (`takeWhile`).  This file gives the
  loops themselves; `Grenad/Proofs/BinSearchProofs.lean` proves that on a sorted table they return
  what the specification says.

  Two loops are modelled, because the standard library changed its implementation:
  * `binSearchBy`   — the classic `size` / `left` / `right` halving loop with an early exit on
                      `Equal` (Rust 1.52 – 1.81);
  * `binSearchBy'`  — the branch-free `base` / `size` loop without early exit (Rust ≥ 1.82).
  `Result<usize, usize>` is `Except Nat Nat` with `Ok i ↦ .ok i` and `Err i ↦ .error i`.
-/

namespace Grenad

/-- ```
    while left < right {
        let mid = left + size / 2;
        let cmp = f(self.get_unchecked(mid));
        left  = if cmp == Less    { mid + 1 } else { left };
        right = if cmp == Greater { mid }     else { right };
        if cmp == Equal { return Ok(mid); }
        size = right - left;
    }
    Err(left)
    ```
    `size` is always `right - left`.  `fuel` bounds the number of iterations (`right - left`
    decreases at every turn); `l[mid]?` is never `none` (`mid < right ≤ len`). -/
def binSearchLoop {α : Type} (cmp : α → Ordering) (l : List α) : Nat → Nat → Nat → Except Nat Nat
  | 0, left, _ => .error left
  | fuel + 1, left, right =>
    if left < right then
      let size := right - left
      let mid := left + size / 2
      match l[mid]? with
      | none => .error left
      | some x =>
        match cmp x with
        | .lt => binSearchLoop cmp l fuel (mid + 1) right
        | .gt => binSearchLoop cmp l fuel left mid
        | .eq => .ok mid
    else .error left

/-- `slice::binary_search_by` (Rust 1.52 – 1.81): `size = len; left = 0; right = len; loop`. -/
def binSearchBy {α : Type} (cmp : α → Ordering) (l : List α) : Except Nat Nat :=
  binSearchLoop cmp l (l.length + 1) 0 l.length

/-- ```
    while size > 1 {
        let half = size / 2;
        let mid = base + half;
        let cmp = f(self.get_unchecked(mid));
        base = if cmp == Greater { base } else { mid };
        size -= half;
    }
    ```
    Returns the final `base`. -/
def binSearchBase {α : Type} (cmp : α → Ordering) (l : List α) : Nat → Nat → Nat → Nat
  | 0, base, _ => base
  | fuel + 1, base, size =>
    if size > 1 then
      let half := size / 2
      let mid := base + half
      match l[mid]? with
      | none => base
      | some x =>
        binSearchBase cmp l fuel (match cmp x with | .gt => base | _ => mid) (size - half)
    else base

/-- `slice::binary_search_by` (Rust ≥ 1.82):
    ```
    let mut size = self.len();
    if size == 0 { return Err(0); }
    let mut base = 0;
    while size > 1 { … }
    let cmp = f(self.get_unchecked(base));
    if cmp == Equal { Ok(base) } else { Err(base + (cmp == Less) as usize) }
    ``` -/
def binSearchBy' {α : Type} (cmp : α → Ordering) (l : List α) : Except Nat Nat :=
  if l.length = 0 then .error 0 else
  let base := binSearchBase cmp l (l.length + 1) 0 l.length
  match l[base]? with
  | none => .error base
  | some x =>
    match cmp x with
    | .eq => .ok base
    | .lt => .error (base + 1)
    | .gt => .error base

/-- `unwrap_or_else(|x| x)`: "extract Err and Ok" (`move_on_prev`). -/
def okOrErr : Except Nat Nat → Nat
  | .ok i => i
  | .error i => i

/-- `Ok i ↦ (true, i)`, `Err i ↦ (false, i)`: the reading of the result used by
    `BlockCursor.searchKey`. -/
def foundAt : Except Nat Nat → Bool × Nat
  | .ok i => (true, i)
  | .error i => (false, i)

/-- `<[u8] as Ord>::cmp`: lexicographic comparison of byte strings. -/
def cmpBytes (a b : List UInt8) : Ordering := compareOfLessAndEq a b

/-- `<Option<T> as Ord>::cmp` (derived): `None < Some(_)`, `Some(a)` vs `Some(b)` by `cmp`. -/
def compareOption {α : Type} (cmp : α → α → Ordering) : Option α → Option α → Ordering
  | none, none => .eq
  | none, some _ => .lt
  | some _, none => .gt
  | some a, some b => cmp a b

end Grenad
