/-
  Grenad.Model.Reader — mirror of src/reader/reader_cursor.rs (ReaderCursor + IndexBlockCursor).

  The cursor is generic in the in-block cursor implementation `β` (`BlockOps β`) and in the
  block loader (`load : Nat → Option β`, i.e. `seek(Start(off))` + `Block::new` + `into_cursor`).
  It is instantiated with the byte-level `BlockCursor` for execution (`Reader.byteOps`,
  `Reader.loadBlock`) and reasoned about through the laws `T-block` proves of that instance.
-/
import Grenad.Model.Writer

namespace Grenad

/-- The in-block cursor operations used by the reader. -/
structure BlockOps (β : Type) where
  current : β → Option Entry
  first   : β → β × Option Entry
  last    : β → β × Option Entry
  next    : β → β × Option Entry
  prev    : β → β × Option Entry
  ge      : β → Bytes → β × Option Entry

/-- The closures passed to `iter_index_blocks` / `recursive_index_block`, as data. -/
inductive Mov where
  | first | last | next | prev
  | ge (q : Bytes)
  deriving Repr, DecidableEq, Inhabited

def BlockOps.apply {β} (ops : BlockOps β) : Mov → β → β × Option Entry
  | .first, c => ops.first c
  | .last, c => ops.last c
  | .next, c => ops.next c
  | .prev, c => ops.prev c
  | .ge q, c => ops.ge c q

/-- The byte-level instance. -/
def byteOps : BlockOps BlockCursor :=
  { current := BlockCursor.current, first := BlockCursor.first, last := BlockCursor.last,
    next := BlockCursor.next, prev := BlockCursor.prev, ge := BlockCursor.ge }

/-- `seek(Start(off))`, `read_u64::<BigEndian>()`, `decompress(take(len))`, footer parse.
    Returns the block and the number of bytes consumed from the source. -/
def loadBlockLen (cd : Codec) (file : Bytes) (off : Nat) : Option (Block × Nat) :=
  match slice? file off 8 with
  | none => none
  | some hdr =>
    let len := beVal hdr
    -- `take(len)` + `read_to_end`: a short source yields what is there
    let body := (file.drop (off + 8)).take len
    match cd.decompress body with
    | none => none
    | some raw => (Block.parse raw).map (fun b => (b, 8 + body.length))

def loadBlock (cd : Codec) (file : Bytes) (off : Nat) : Option Block :=
  (loadBlockLen cd file off).map (·.1)

def loadCursor (cd : Codec) (file : Bytes) (off : Nat) : Option BlockCursor :=
  (loadBlock cd file off).map BlockCursor.ofBlock

/-- Offset stored as the value of an index entry (`u64::from_be_bytes`). -/
def offOf (e : Entry) : Nat := beVal e.2

/-- `IndexBlockCursor` + `ReaderCursor` state. `log` is instrumentation: offsets of the blocks
    loaded so far, most recent first (one `seek(Start)` per load). -/
structure RC (β : Type) where
  base   : Nat                          -- base_block_offset
  levels : Nat                          -- index_levels
  inner  : Option (List (Nat × β))      -- per level: (recorded offset, cursor), root first
  cur    : Option β                     -- current_cursor (data block)
  log    : List Nat := []

/-- Result of a public cursor call. -/
inductive Res where
  | ok (e : Option Entry)
  | err                                  -- Err(_) from the call
  deriving Repr, DecidableEq, Inhabited

namespace RC

variable {β : Type}

def new (m : Meta.Meta) : RC β :=
  { base := m.root, levels := m.levels, inner := none, cur := none }

def reset (c : RC β) : RC β := { c with inner := none, cur := none }

def current (ops : BlockOps β) (c : RC β) : Option Entry :=
  match c.cur with
  | some b => ops.current b
  | none => none

/-- `initial_index_blocks`: `Except` = load failure, inner `none` = some level answered `None`. -/
def initialIndex (ops : BlockOps β) (load : Nat → Option β) (mov : Mov) :
    Nat → Nat → List (Nat × β) → List Nat → Option (Option (List (Nat × β)) × List Nat)
  | 0, _, acc, log => some (some acc.reverse, log)
  | d+1, jump, acc, log =>
    match load jump with
    | none => none
    | some c =>
      let (c', r) := ops.apply mov c
      match r with
      | some e => initialIndex ops load mov d (offOf e) ((offOf e, c') :: acc) (jump :: log)
      | none => some (none, jump :: log)

/-- The `for (offset, cursor) in inner` loop of `iter_index_blocks`.
    Returns the updated levels and whether the loop ran to completion. -/
def iterLevels (ops : BlockOps β) (load : Nat → Option β) (mov : Mov) :
    Nat → List (Nat × β) → List Nat → Option (List (Nat × β) × Bool × List Nat)
  | _, [], log => some ([], true, log)
  | jump, (off, c) :: rest, log =>
    let reloaded : Option (Nat × β × List Nat) :=
      if jump ≠ off then (load jump).map (fun c' => (jump, c', jump :: log)) else some (off, c, log)
    match reloaded with
    | none => none
    | some (off, c, log) =>
      let (c', r) := ops.apply mov c
      match r with
      | some e =>
        match iterLevels ops load mov (offOf e) rest log with
        | none => none
        | some (rest', done, log) => some ((off, c') :: rest', done, log)
      | none => some ((off, c') :: rest, false, log)

/-- `iter_index_blocks`: index entry pointed at by the last level, or `none`. -/
def iterIndex (ops : BlockOps β) (load : Nat → Option β) (mov : Mov) (c : RC β) :
    Option (RC β × Option Entry) :=
  match c.inner with
  | some inner =>
    match iterLevels ops load mov c.base inner c.log with
    | none => none
    | some (inner', done, log) =>
      let c' := { c with inner := some inner', log := log }
      if done then
        some (c', match inner'.getLast? with
                  | some (_, b) => ops.current b
                  | none => none)
      else some (c', none)
  | none =>
    match initialIndex ops load mov (c.levels + 1) c.base [] c.log with
    | none => none
    | some (inner, log) =>
      let c' := { c with inner := inner, log := log }
      some (c', match inner with
                | some l => (match l.getLast? with
                             | some (_, b) => ops.current b
                             | none => none)
                | none => none)

/-- The inner `recursive` function of `recursive_index_block`, over the levels in *reverse*
    order (last level first).  `fixF1 = true` records the offset of a reloaded block next to it
    (the repaired code); `false` leaves the stale offset in place (the code as pinned). -/
def recurLevels (ops : BlockOps β) (load : Nat → Option β) (fixF1 : Bool) (mov : Mov) :
    List (Nat × β) → List Nat → Option (List (Nat × β) × Option Entry × List Nat)
  | [], log => some ([], none, log)
  | (off, c) :: parents, log =>
    let (c', r) := ops.apply mov c
    match r with
    | some _ => some ((off, c') :: parents, ops.current c', log)
    | none =>
      match recurLevels ops load fixF1 mov parents log with
      | none => none
      | some (parents', some e, log) =>
        match load (offOf e) with
        | none => none
        | some nc =>
          let (nc', r') := ops.apply mov nc
          some ((if fixF1 then offOf e else off, nc') :: parents', r', offOf e :: log)
      | some (parents', none, log) => some ((off, c') :: parents', none, log)

/-- `recursive_index_block`. -/
def recurIndex (ops : BlockOps β) (load : Nat → Option β) (fixF1 : Bool) (mov : Mov) (c : RC β) :
    Option (RC β × Option Entry) :=
  let c1 : Option (RC β) :=
    match c.inner with
    | some _ => some c
    | none =>
      match initialIndex ops load mov (c.levels + 1) c.base [] c.log with
      | none => none
      | some (inner, log) => some { c with inner := inner, log := log }
  match c1 with
  | none => none
  | some c1 =>
    match c1.inner with
    | none => some (c1, none)
    | some inner =>
      match recurLevels ops load fixF1 mov inner.reverse c1.log with
      | none => none
      | some (rev', r, log) => some ({ c1 with inner := some rev'.reverse, log := log }, r)

/-- Load the data block an index entry points to and make it the current cursor. -/
def enter (load : Nat → Option β) (c : RC β) (e : Entry) : Option (RC β × β) :=
  match load (offOf e) with
  | none => none
  | some b => some ({ c with log := offOf e :: c.log }, b)

def withCur (c : RC β) (b : β) : RC β := { c with cur := some b }

def first (ops : BlockOps β) (load : Nat → Option β) (c : RC β) : RC β × Res :=
  match iterIndex ops load .first c with
  | none => (c, .err)
  | some (c, some e) =>
    match enter load c e with
    | none => (c, .err)
    | some (c, b) => let (b', r) := ops.first b; (withCur c b', .ok r)
  | some (c, none) => ({ c with cur := none }, .ok none)

def last (ops : BlockOps β) (load : Nat → Option β) (c : RC β) : RC β × Res :=
  match iterIndex ops load .last c with
  | none => (c, .err)
  | some (c, some e) =>
    match enter load c e with
    | none => (c, .err)
    | some (c, b) => let (b', r) := ops.last b; (withCur c b', .ok r)
  | some (c, none) => ({ c with cur := none }, .ok none)

def next (ops : BlockOps β) (load : Nat → Option β) (fixF1 : Bool) (c : RC β) : RC β × Res :=
  match c.cur with
  | some b =>
    match ops.next b with
    | (b', some e) => (withCur c b', .ok (some e))
    | (b', none) =>
      let c := withCur c b'
      match recurIndex ops load fixF1 .next c with
      | none => (c, .err)
      | some (c, some e) =>
        match enter load c e with
        | none => (c, .err)
        | some (c, nb) => let (nb', r) := ops.first nb; (withCur c nb', .ok r)
      | some (c, none) => (c, .ok none)
  | none => first ops load c

def prev (ops : BlockOps β) (load : Nat → Option β) (fixF1 : Bool) (c : RC β) : RC β × Res :=
  match c.cur with
  | some b =>
    match ops.prev b with
    | (b', some e) => (withCur c b', .ok (some e))
    | (b', none) =>
      let c := withCur c b'
      match recurIndex ops load fixF1 .prev c with
      | none => (c, .err)
      | some (c, some e) =>
        match enter load c e with
        | none => (c, .err)
        | some (c, nb) => let (nb', r) := ops.last nb; (withCur c nb', .ok r)
      | some (c, none) => (c, .ok none)
  | none => last ops load c

def ge (ops : BlockOps β) (load : Nat → Option β) (q : Bytes) (c : RC β) : RC β × Res :=
  match iterIndex ops load (.ge q) c with
  | none => (c, .err)
  | some (c, some e) =>
    match enter load c e with
    | none => (c, .err)
    | some (c, b) => let (b', r) := ops.ge b q; (withCur c b', .ok r)
  | some (c, none) => (c, .ok none)          -- current_cursor is left as it was

def le (ops : BlockOps β) (load : Nat → Option β) (fixF1 : Bool) (q : Bytes) (c : RC β) :
    RC β × Res :=
  match ge ops load q c with
  | (c, .err) => (c, .err)
  | (c, .ok (some (k, v))) =>
    if k = q then (c, .ok (some (k, v))) else prev ops load fixF1 c
  | (c, .ok none) =>
    match last ops load c with
    | (c, .err) => (c, .err)
    | (c, .ok r) => (c, .ok (r.filter (fun e => decide (e.1 ≤ q))))

def eq (ops : BlockOps β) (load : Nat → Option β) (q : Bytes) (c : RC β) : RC β × Res :=
  match ge ops load q c with
  | (c, .err) => (c, .err)
  | (c, .ok r) => (c, .ok (r.filter (fun e => decide (e.1 = q))))

end RC

/-- Cursor operations as data (for histories). -/
inductive Op where
  | first | last | next | prev
  | ge (q : Bytes) | le (q : Bytes) | eq (q : Bytes)
  | reset | current
  deriving Repr, DecidableEq, Inhabited

def RC.step {β} (ops : BlockOps β) (load : Nat → Option β) (fixF1 : Bool) (c : RC β) :
    Op → RC β × Res
  | .first => c.first ops load
  | .last => c.last ops load
  | .next => c.next ops load fixF1
  | .prev => c.prev ops load fixF1
  | .ge q => c.ge ops load q
  | .le q => c.le ops load fixF1 q
  | .eq q => c.eq ops load q
  | .reset => (c.reset, .ok none)
  | .current => (c, .ok (c.current ops))

end Grenad
