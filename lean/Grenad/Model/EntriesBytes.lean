/-
  Grenad.Model.EntriesBytes — byte-level mirror of `Entries` / `EntryBoundAlignedBuffer`
  (src/sorter.rs): ONE allocation used from both ends,

      [----bounds---->--remaining--<--key+data--]

  Entry bytes (key, then data) are written at the back, at `buffer.len() - entries_len`; a 16-byte
  `EntryBound { key_start: usize, key_length: u32, data_length: u32 }` (`repr(C)`, native = little
  endian on the reference target) is written at the front at index `bounds_count`, with
  `key_start = entries_len` *after* the entry has been added, i.e. the distance of the key's first
  byte from the END of the buffer.  `iter` / `sort_by_key` read bound `i` and slice
  `tail[tail.len() - key_start ..][.. key_length]` where `tail` is the buffer after the bounds area.

  Every slice access is guarded (`readAt`, `writeAt`, `Entries.sub`): where Rust would panic the
  model returns the `Trap`.  Nothing here checks that the two regions do not overlap — that is a
  theorem (`Grenad.Proofs.EntriesBytesProofs`), not a guard.

  The numeric model `Grenad.Entries` (Model/Sorter.lean) is the abstraction of this one.
-/
import Grenad.Model.Sorter

namespace Grenad

/-- A decoded `EntryBound`. -/
structure EntryBound where
  keyStart : Nat
  keyLen   : Nat
  dataLen  : Nat
  deriving Repr, DecidableEq, Inhabited

/-- The 16 bytes of an `EntryBound` in memory: `usize` then two `u32`, little endian.  The `as u32`
    casts and the `usize` field truncate, as `leN` does. -/
def encodeBound (keyStart keyLen dataLen : Nat) : Bytes :=
  le64 keyStart ++ le32 keyLen ++ le32 dataLen

def EntryBound.encode (b : EntryBound) : Bytes := encodeBound b.keyStart b.keyLen b.dataLen

/-- `cast_slice::<u8, EntryBound>` on one 16-byte record. -/
def decodeBound (bs : Bytes) : EntryBound :=
  { keyStart := leVal (bs.take 8)
    keyLen   := leVal ((bs.drop 8).take 4)
    dataLen  := leVal ((bs.drop 12).take 4) }

/-- The bound records, in index order. -/
def encodeBounds : List EntryBound → Bytes
  | [] => []
  | b :: r => b.encode ++ encodeBounds r

/-- `cast_slice::<u8, EntryBound>` on `n` records. -/
def decodeBounds : Nat → Bytes → List EntryBound
  | 0, _ => []
  | n+1, bs => decodeBound (bs.take boundSize) :: decodeBounds n (bs.drop boundSize)

/-- `Entries` with its allocation as bytes (`buf.length = buffer.len()`). -/
structure EntriesB where
  buf         : Bytes
  entriesLen  : Nat
  boundsCount : Nat
  deriving Repr, Inhabited

namespace EntriesB

/-- `&s[a..][..n]`. -/
def readAt (s : Bytes) (a n : Nat) : Except Trap Bytes :=
  if a + n ≤ s.length then .ok ((s.drop a).take n) else .error .outOfRange

/-- `s[a..][..src.len()].copy_from_slice(src)`. -/
def writeAt (s : Bytes) (a : Nat) (src : Bytes) : Except Trap Bytes :=
  if a + src.length ≤ s.length then .ok (s.take a ++ src ++ s.drop (a + src.length))
  else .error .outOfRange

/-- The contents of a fresh allocation of `n` bytes are unspecified: byte `i` is `g n i` for an
    arbitrary `g` (every byte string of length `n` is of this form). -/
def fresh (g : Nat → Nat → UInt8) (n : Nat) : Bytes := (List.range n).map (g n)

/-- `EntryBoundAlignedBuffer::new`. -/
def alloc (g : Nat → Nat → UInt8) (size : Nat) : Except Trap (Bytes × List SEvent) :=
  match Entries.alloc size with
  | .error t => .error t
  | .ok (sz, ev) => .ok (fresh g sz, ev)

def withCapacity (g : Nat → Nat → UInt8) (cap : Nat) : Except Trap (EntriesB × List SEvent) :=
  match alloc g cap with
  | .error t => .error t
  | .ok (buf, ev) => .ok ({ buf := buf, entriesLen := 0, boundsCount := 0 }, ev)

/-- `remaining`. -/
def remaining (b : EntriesB) : Except Trap Nat :=
  match Entries.sub b.buf.length b.entriesLen with
  | .error t => .error t
  | .ok r => Entries.sub r (b.boundsCount * boundSize)

/-- `fits` (`align_to::<EntryBound>().1.len()` is `len / 16`: the allocation is 16-aligned). -/
def fits (b : EntriesB) (k v : Bytes) : Except Trap Bool :=
  match Entries.sub (b.buf.length / boundSize) b.boundsCount, remaining b with
  | .ok ra, .ok rem => .ok (decide (rem ≥ Entries.entrySize k v) && decide (ra ≥ 1))
  | .error t, _ => .error t
  | _, .error t => .error t

/-- The `fits` branch of `insert`: key and data at the back, the bound record at the front. -/
def store (b : EntriesB) (k v : Bytes) : Except Trap EntriesB :=
  let entriesLen := b.entriesLen + k.length + v.length
  match Entries.sub b.buf.length entriesLen with          -- `buffer.len() - entries_len`
  | .error t => .error t
  | .ok entriesStart =>
  match writeAt b.buf entriesStart k with                 -- `buffer[entries_start..][..key.len()]`
  | .error t => .error t
  | .ok buf1 =>
  match writeAt buf1 (entriesStart + k.length) v with     -- `buffer[entries_start + key.len()..][..]`
  | .error t => .error t
  | .ok buf2 =>
  let boundsEnd := (b.boundsCount + 1) * boundSize
  if boundsEnd > buf2.length then .error .outOfRange else  -- `&mut buffer[..bounds_end]`
  match writeAt buf2 (b.boundsCount * boundSize)          -- `bounds[bounds_count] = bound`
      (encodeBound entriesLen k.length v.length) with
  | .error t => .error t
  | .ok buf3 => .ok { buf := buf3, entriesLen := entriesLen, boundsCount := b.boundsCount + 1 }

/-- `reallocate_buffer`. -/
def reallocate (g : Nat → Nat → UInt8) (b : EntriesB) : Except Trap (EntriesB × List SEvent) :=
  let boundsEnd := b.boundsCount * boundSize
  match readAt b.buf 0 boundsEnd with                      -- `&buffer[..bounds_end]`
  | .error t => .error t
  | .ok boundsBytes =>
  match Entries.sub b.buf.length b.entriesLen with         -- `buffer.len() - entries_len`
  | .error t => .error t
  | .ok entriesStart =>
  match readAt b.buf entriesStart (b.buf.length - entriesStart) with   -- `&buffer[entries_start..]`
  | .error t => .error t
  | .ok entriesBytes =>
  if b.buf.length * 2 ≥ usizeLimit then .error .arith else
  match alloc g (b.buf.length * 2) with
  | .error t => .error t
  | .ok (new0, ev) =>
  match writeAt new0 0 boundsBytes with                    -- `new_buffer[..bounds_end].copy_from_slice`
  | .error t => .error t
  | .ok new1 =>
  match Entries.sub new1.length b.entriesLen with          -- `new_buffer.len() - entries_len`
  | .error t => .error t
  | .ok newStart =>
  -- `new_buffer[new_entries_start..].copy_from_slice(entries_bytes)` needs equal lengths
  if new1.length - newStart ≠ entriesBytes.length then .error .outOfRange else
  match writeAt new1 newStart entriesBytes with
  | .error t => .error t
  | .ok new2 => .ok ({ b with buf := new2 }, ev ++ [.dealloc b.buf.length])

/-- `Entries::insert`: doubles until the entry fits (fuel as in `Entries.insert`). -/
def insert (g : Nat → Nat → UInt8) (b : EntriesB) (k v : Bytes) :
    Nat → Except Trap (EntriesB × List SEvent)
  | 0 => .error .arith
  | fuel+1 =>
    if k.length > u32Max then .error .keyTooLong else
    if v.length > u32Max then .error .valTooLong else
    match fits b k v with
    | .error t => .error t
    | .ok true => (store b k v).map (fun b' => (b', []))
    | .ok false =>
      match reallocate g b with
      | .error t => .error t
      | .ok (b', ev) =>
        match insert g b' k v fuel with
        | .error t => .error t
        | .ok (b'', ev') => .ok (b'', ev ++ ev')

def clear (b : EntriesB) : EntriesB := { b with entriesLen := 0, boundsCount := 0 }

/-- `buffer.split_at(bounds_end)` and the cast of the first half. -/
def splitBounds (b : EntriesB) : Except Trap (List EntryBound × Bytes) :=
  let boundsEnd := b.boundsCount * boundSize
  if boundsEnd > b.buf.length then .error .outOfRange
  else .ok (decodeBounds b.boundsCount (b.buf.take boundsEnd), b.buf.drop boundsEnd)

/-- The closure of `iter`: `tail[tail.len() - key_start..]`, key then data. -/
def readEntry (tail : Bytes) (bd : EntryBound) : Except Trap Entry :=
  match Entries.sub tail.length bd.keyStart with
  | .error t => .error t
  | .ok start =>
  match readAt tail start bd.keyLen with
  | .error t => .error t
  | .ok key =>
  match readAt tail (start + bd.keyLen) bd.dataLen with
  | .error t => .error t
  | .ok data => .ok (key, data)

def readEntries (tail : Bytes) : List EntryBound → Except Trap (List Entry)
  | [] => .ok []
  | bd :: r =>
    match readEntry tail bd with
    | .error t => .error t
    | .ok e =>
      match readEntries tail r with
      | .error t => .error t
      | .ok es => .ok (e :: es)

/-- `iter`, collected. -/
def iter (b : EntriesB) : Except Trap (List Entry) :=
  match splitBounds b with
  | .error t => .error t
  | .ok (bounds, tail) => readEntries tail bounds

/-- The key closure of `sort_by_key`. -/
def readKey (tail : Bytes) (bd : EntryBound) : Except Trap Bytes :=
  match Entries.sub tail.length bd.keyStart with
  | .error t => .error t
  | .ok start => readAt tail start bd.keyLen

def readKeys (tail : Bytes) : List EntryBound → Except Trap (List (Bytes × EntryBound))
  | [] => .ok []
  | bd :: r =>
    match readKey tail bd with
    | .error t => .error t
    | .ok k =>
      match readKeys tail r with
      | .error t => .error t
      | .ok ks => .ok ((k, bd) :: ks)

/-- `sort_by_key` / `sort_unstable_by_key` / the parallel variants: the bound records, each with
    the key it denotes, are rearranged by `sort` and stored back at the front.  (The key of every
    bound is read up front; Rust reads keys only when it compares, which makes no difference once
    no read can fail.) -/
def sortBoundsWith (sort : List (Bytes × EntryBound) → List (Bytes × EntryBound)) (b : EntriesB) :
    Except Trap EntriesB :=
  match splitBounds b with
  | .error t => .error t
  | .ok (bounds, tail) =>
    match readKeys tail bounds with
    | .error t => .error t
    | .ok kbs =>
      match writeAt b.buf 0 (encodeBounds ((sort kbs).map (·.2))) with
      | .error t => .error t
      | .ok buf' => .ok { b with buf := buf' }

/-- `SortAlgorithm::Stable`. -/
def stableByKey (l : List (Bytes × EntryBound)) : List (Bytes × EntryBound) :=
  l.mergeSort (fun a b => decide (a.1 ≤ b.1))

def sortBounds (b : EntriesB) : Except Trap EntriesB := sortBoundsWith stableByKey b

end EntriesB

/-- The sorter with the byte-level buffer (everything else as in `Sorter`). -/
structure SorterB where
  cfg     : SCfg
  entries : EntriesB
  chunks  : List (List Entry)
  events  : List SEvent
  calls   : List (Bytes × List Bytes)
  deriving Inhabited

namespace SorterB

open Sorter (SErr mergeGroups)

def new (g : Nat → Nat → UInt8) (cfg : SCfg) : Except Trap SorterB :=
  let cap := if cfg.allowRealloc then cfg.initialSize else cfg.budget
  match EntriesB.withCapacity g cap with
  | .error t => .error t
  | .ok (e, ev) => .ok { cfg := cfg, entries := e, chunks := [], events := ev, calls := [] }

/-- `write_chunk`: sort the bounds, iterate the buffer, merge equal keys, clear. -/
def writeChunk (mf : MergeFn) (s : SorterB) : Except SErr SorterB :=
  match s.entries.sortBounds with
  | .error t => .error (.trap t)
  | .ok eb =>
    match eb.iter with
    | .error t => .error (.trap t)
    | .ok sorted =>
      match mergeGroups mf sorted none [] [] with
      | none => .error .merge
      | some (chunk, calls) =>
        .ok { s with chunks := s.chunks ++ [chunk], entries := eb.clear,
                     events := s.events ++ [.create], calls := s.calls ++ calls }

/-- `merge_chunks`. -/
def mergeChunks (mf : MergeFn) (s : SorterB) : Except SErr SorterB :=
  match Merger.run mf s.chunks with
  | (none, _) => .error .merge
  | (some merged, m) =>
    .ok { s with chunks := [merged],
                 events := s.events ++ [.create] ++ s.chunks.map (fun _ => .dropChunk),
                 calls := s.calls ++ m.calls.reverse }

/-- `Sorter::insert`. -/
def insert (mf : MergeFn) (g : Nat → Nat → UInt8) (s : SorterB) (k v : Bytes) :
    Except SErr SorterB :=
  match s.entries.fits k v with
  | .error t => .error (.trap t)
  | .ok fit =>
    let thresholdExceeded := decide (s.entries.buf.length ≥ s.cfg.budget)
    if fit || (!thresholdExceeded && s.cfg.allowRealloc) then
      match s.entries.insert g k v 64 with
      | .error t => .error (.trap t)
      | .ok (e, ev) => .ok { s with entries := e, events := s.events ++ ev }
    else
      match writeChunk mf s with
      | .error e => .error e
      | .ok s =>
        match s.entries.insert g k v 64 with
        | .error t => .error (.trap t)
        | .ok (e, ev) =>
          let s := { s with entries := e, events := s.events ++ ev }
          if s.chunks.length ≥ s.cfg.maxNb then mergeChunks mf s else .ok s

/-- The final spill; the allocation is then released (no bytes remain addressable). -/
def finishChunks (mf : MergeFn) (s : SorterB) : Except SErr SorterB :=
  match writeChunk mf s with
  | .error e => .error e
  | .ok s =>
    .ok { s with entries := { buf := [], entriesLen := 0, boundsCount := 0 },
                 events := s.events ++ [.dealloc s.entries.buf.length] }

def insertAll (mf : MergeFn) (g : Nat → Nat → UInt8) : SorterB → List Entry → Except SErr SorterB
  | s, [] => .ok s
  | s, (k, v) :: r =>
    match insert mf g s k v with
    | .error e => .error e
    | .ok s' => insertAll mf g s' r

/-- A complete use of the byte-level sorter (mirror of `Sorter.program`). -/
def program (mf : MergeFn) (g : Nat → Nat → UInt8) (cfg : SCfg) (l : List Entry) (fin : Bool) :
    Except SErr SorterB :=
  match new g cfg with
  | .error t => .error (.trap t)
  | .ok s =>
    match insertAll mf g s l with
    | .error e => .error e
    | .ok s => if fin then finishChunks mf s else .ok s

end SorterB
end Grenad
