/-
  Grenad.Model.Iter — mirrors of src/reader/range_iter.rs and src/reader/prefix_iter.rs,
  generic in the cursor (`step : γ → Op → γ × Res`) so that the same definitions run over the
  byte-level reader cursor and over the L0 specification cursor.
-/
import Grenad.Model.Reader

namespace Grenad

inductive Bound where
  | unbounded
  | included (k : Bytes)
  | excluded (k : Bytes)
  deriving Repr, DecidableEq, Inhabited

/-- `end_contains`. -/
def endContains : Bound → Bytes → Bool
  | .unbounded, _ => true
  | .included e, k => decide (k ≤ e)
  | .excluded e, k => decide (k < e)

/-- `start_contains`. -/
def startContains : Bound → Bytes → Bool
  | .unbounded, _ => true
  | .included s, k => decide (s ≤ k)
  | .excluded s, k => decide (s < k)

def inRange (lo hi : Bound) (k : Bytes) : Bool := startContains lo k && endContains hi k

structure RangeIter (γ : Type) where
  cursor : γ
  lo : Bound
  hi : Bound
  start : Bool := true       -- move_on_start

section
variable {γ : Type} (step : γ → Op → γ × Res)

/-- `RangeIter::next`. -/
def RangeIter.next (it : RangeIter γ) : RangeIter γ × Res :=
  let (c, r) : γ × Res :=
    if it.start then
      match it.lo with
      | .unbounded => step it.cursor .first
      | .included s => step it.cursor (.ge s)
      | .excluded s =>
        match step it.cursor (.ge s) with
        | (c, .ok (some (k, v))) => if k = s then step c .next else (c, .ok (some (k, v)))
        | (c, r) => (c, r)
    else step it.cursor .next
  let it' := { it with cursor := c, start := false }
  match r with
  | .err => (it', .err)
  | .ok (some (k, v)) => if endContains it.hi k then (it', .ok (some (k, v))) else (it', .ok none)
  | .ok none => (it', .ok none)

/-- `RevRangeIter::next`. -/
def RangeIter.nextRev (it : RangeIter γ) : RangeIter γ × Res :=
  let (c, r) : γ × Res :=
    if it.start then
      match it.hi with
      | .unbounded => step it.cursor .last
      | .included e => step it.cursor (.le e)
      | .excluded e =>
        match step it.cursor (.le e) with
        | (c, .ok (some (k, v))) => if k = e then step c .prev else (c, .ok (some (k, v)))
        | (c, r) => (c, r)
    else step it.cursor .prev
  let it' := { it with cursor := c, start := false }
  match r with
  | .err => (it', .err)
  | .ok (some (k, v)) => if startContains it.lo k then (it', .ok (some (k, v))) else (it', .ok none)
  | .ok none => (it', .ok none)

/-- `advance_key`: the byte string just after every string with this prefix, or `none` when the
    prefix is empty or made of 0xFF only. Works on the reversed string. -/
def advanceRev : Bytes → Option Bytes
  | [] => none
  | x :: rest => if x = 255 then advanceRev rest else some ((x + 1) :: rest)

def advanceKey (p : Bytes) : Option Bytes := (advanceRev p.reverse).map List.reverse

structure PrefixIter (γ : Type) where
  cursor : γ
  pre : Bytes
  start : Bool := true

/-- `PrefixIter::next`. -/
def PrefixIter.next (it : PrefixIter γ) : PrefixIter γ × Res :=
  let (c, r) := if it.start then step it.cursor (.ge it.pre) else step it.cursor .next
  let it' := { it with cursor := c, start := false }
  match r with
  | .err => (it', .err)
  | .ok (some (k, v)) => if it.pre.isPrefixOf k then (it', .ok (some (k, v))) else (it', .ok none)
  | .ok none => (it', .ok none)

/-- `move_on_last_prefix`. -/
def moveOnLastPrefix (c : γ) (p : Bytes) : γ × Res :=
  match advanceKey p with
  | some np =>
    match step c (.le np) with
    | (c, .err) => (c, .err)
    | (c, .ok (some (k, _))) => if k = np then step c .prev else step c .current
    | (c, .ok none) => step c .current
  | none => step c .last

/-- `RevPrefixIter::next`. -/
def PrefixIter.nextRev (it : PrefixIter γ) : PrefixIter γ × Res :=
  let (c, r) := if it.start then moveOnLastPrefix step it.cursor it.pre else step it.cursor .prev
  let it' := { it with cursor := c, start := false }
  match r with
  | .err => (it', .err)
  | .ok (some (k, v)) => if it.pre.isPrefixOf k then (it', .ok (some (k, v))) else (it', .ok none)
  | .ok none => (it', .ok none)

/-- Call `nxt` until its first `None` (or error); `fuel` bounds the number of calls. -/
def collect {ι : Type} (nxt : ι → ι × Res) : Nat → ι → List Entry → Option (List Entry)
  | 0, _, acc => some acc.reverse
  | fuel+1, it, acc =>
    match nxt it with
    | (_, .err) => none
    | (_, .ok none) => some acc.reverse
    | (it', .ok (some e)) => collect nxt fuel it' (e :: acc)

end
end Grenad
