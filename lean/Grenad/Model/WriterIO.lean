/-
  Grenad.Model.WriterIO — the writer seen from its sink: the sequence of `write_all` calls
  (`compress_and_write_block`: `write_u64::<BigEndian>(len)` then `write_all(body)`;
  `Metadata::write_into`: five little-endian field writes) and their run against a sink schedule.
-/
import Grenad.Model.Writer
import Grenad.Model.IO

namespace Grenad

/-- The two `write_all` calls issued for each emitted block. -/
def W.blockWrites (cd : Codec) (log : List Emitted) : List Bytes :=
  log.flatMap (fun e => let body := cd.compress e.raw; [be64 body.length, body])

/-- The five `write_all` calls of `Metadata::write_into` (V2). -/
def W.trailerWrites (m : Meta.Meta) : List Bytes :=
  [le64 m.root, [UInt8.ofNat m.codec], le64 m.count, [UInt8.ofNat m.levels], le32 Meta.magicV2]

/-- Every `write_all` call of a complete writer run, in program order. -/
def W.writes (cd : Codec) (log : List Emitted) (m : Meta.Meta) : List Bytes :=
  W.blockWrites cd log ++ W.trailerWrites m

/-- The writer run against a sink that answers from `sch`: the sink afterwards, the unused
    schedule, and `none` (Ok) or the tag of the I/O error that stopped it. -/
def W.runIO (cd : Codec) (log : List Emitted) (m : Meta.Meta) (sch : List IOM.WResp) :
    IOM.Sink × List IOM.WResp × Option Nat :=
  IOM.writeMany (W.writes cd log m) {} sch

end Grenad
