/-
  Grenad.Model.Spec — L0: what the properties say, over a strictly ascending entry list.
  Short enough to read in minutes; shares no definition with the byte-level mirrors.
-/
import Grenad.Model.Iter

namespace Grenad.Spec

/-- Number of entries whose key is `< q` (= index of the ceiling of `q`). -/
def lowerBound (es : List Entry) (q : Bytes) : Nat := (es.takeWhile (fun e => decide (e.1 < q))).length

/-- Number of entries whose key is `≤ q` (= index after the floor of `q`). -/
def upperBound (es : List Entry) (q : Bytes) : Nat := (es.takeWhile (fun e => decide (e.1 ≤ q))).length

def ceiling (es : List Entry) (q : Bytes) : Option Entry := es.find? (fun e => decide (q ≤ e.1))
def floor (es : List Entry) (q : Bytes) : Option Entry := es.reverse.find? (fun e => decide (e.1 ≤ q))
def lookup (es : List Entry) (q : Bytes) : Option Entry := es.find? (fun e => decide (e.1 = q))

/-- Logical cursor position. -/
inductive Pos where
  | fresh               -- never positioned, or reset
  | at (i : Nat)        -- on entry `i`
  | lost                -- the last operation returned `None`
  deriving Repr, DecidableEq, Inhabited

/-- A specified result, or `none` when the property leaves it open. -/
abbrev SRes := Option (Option Entry)

def land (es : List Entry) (i : Nat) : Pos × SRes :=
  match es[i]? with
  | some e => (.at i, some (some e))
  | none => (.lost, some none)

def find (es : List Entry) (p : Entry → Bool) : Pos × SRes :=
  match es.findIdx? p with
  | some i => land es i
  | none => (.lost, some none)

/-- The specification cursor (C02 + C03). -/
def step (es : List Entry) : Pos → Op → Pos × SRes
  | _, .first => land es 0
  | _, .last => if es.isEmpty then (.lost, some none) else land es (es.length - 1)
  | .fresh, .next => land es 0
  | .at i, .next => land es (i + 1)
  | .lost, .next => (.lost, none)
  | .fresh, .prev => if es.isEmpty then (.lost, some none) else land es (es.length - 1)
  | .at i, .prev => if i = 0 then (.lost, some none) else land es (i - 1)
  | .lost, .prev => (.lost, none)
  | _, .ge q => find es (fun e => decide (q ≤ e.1))
  | _, .le q =>
    let n := upperBound es q
    if n = 0 then (.lost, some none) else land es (n - 1)
  | _, .eq q => find es (fun e => decide (e.1 = q))
  | _, .reset => (.fresh, some none)
  | .fresh, .current => (.fresh, some none)
  | .at i, .current => (.at i, some es[i]?)
  | .lost, .current => (.lost, none)

/-- An implementation result agrees with the specification when the latter is determined. -/
def Agree (r : Res) : SRes → Prop
  | none => True
  | some e => r = .ok e

instance (r : Res) (s : SRes) : Decidable (Agree r s) := by
  cases s <;> simp [Agree] <;> infer_instance

/-- The specification cursor packaged as a total cursor for the generic iterators:
    unspecified results are surfaced as `None`. -/
def stepTotal (es : List Entry) (p : Pos) (op : Op) : Pos × Res :=
  match step es p op with
  | (p', some r) => (p', .ok r)
  | (p', none) => (p', .ok none)

def range (es : List Entry) (lo hi : Bound) : List Entry := es.filter (fun e => inRange lo hi e.1)
def withPrefix (es : List Entry) (p : Bytes) : List Entry := es.filter (fun e => p.isPrefixOf e.1)

/-! ### Merge and sort specifications (C06, C07) -/

/-- Insert into an ascending association list of (key, values), appending to an existing key. -/
def addGroup (k : Bytes) (v : Bytes) : List (Bytes × List Bytes) → List (Bytes × List Bytes)
  | [] => [(k, [v])]
  | (k', vs) :: rest =>
    if k < k' then (k, [v]) :: (k', vs) :: rest
    else if k = k' then (k', vs ++ [v]) :: rest
    else (k', vs) :: addGroup k v rest

/-- Group a sequence of pairs by key: ascending keys, values in order of appearance. -/
def group (kvs : List Entry) : List (Bytes × List Bytes) :=
  kvs.foldl (fun g (k, v) => addGroup k v g) []

/-- K-way merge specification: sources in the order they were added. -/
def mergeSpec (mf : Bytes → List Bytes → Bytes) (sources : List (List Entry)) : List Entry :=
  (group sources.flatten).map (fun (k, vs) => (k, mf k vs))

end Grenad.Spec
