/-
  Grenad.Model.Basic — bytes, fixed-width integers, entries.
  Import-free (core Lean only) so that the executable driver links.
-/

namespace Grenad

abbrev Bytes := List UInt8

/-- A key/value pair. -/
abbrev Entry := Bytes × Bytes

/-- Named reasons for which the Rust code would panic.  Never replaced by a default value. -/
inductive Trap where
  | keyOrder        -- block_writer.rs: assert!(key > last_key)
  | keyTooLong      -- block_writer.rs / sorter.rs: assert!(key.len() <= u32::MAX)
  | valTooLong
  | u8Overflow      -- writer.rs: `len() as u8 - 1` in an overflow-checked build
  | outOfRange      -- slice index out of range
  | arith           -- usize overflow / underflow
  | allocZero
  | badDealloc
  | useAfterFree
  deriving Repr, DecidableEq, Inhabited

def Trap.name : Trap → String
  | .keyOrder => "keyOrder" | .keyTooLong => "keyTooLong" | .valTooLong => "valTooLong"
  | .u8Overflow => "u8Overflow" | .outOfRange => "outOfRange" | .arith => "arith"
  | .allocZero => "allocZero" | .badDealloc => "badDealloc" | .useAfterFree => "useAfterFree"

/-- Little-endian encoding of `v` on `n` bytes (low byte first). -/
def leN : Nat → Nat → Bytes
  | 0, _ => []
  | n+1, v => (v % 256).toUInt8 :: leN n (v / 256)

/-- Big-endian encoding of `v` on `n` bytes (high byte first). -/
def beN (n v : Nat) : Bytes := (leN n v).reverse

/-- Value of a little-endian byte string. -/
def leVal : Bytes → Nat
  | [] => 0
  | b :: bs => b.toNat + 256 * leVal bs

/-- Value of a big-endian byte string. -/
def beVal (bs : Bytes) : Nat := leVal bs.reverse

def be64 (v : Nat) : Bytes := beN 8 v
def be32 (v : Nat) : Bytes := beN 4 v
def le64 (v : Nat) : Bytes := leN 8 v
def le32 (v : Nat) : Bytes := leN 4 v

/-- `&s[a..a+n]`, or `none` where Rust's slice indexing would panic. -/
def slice? (s : Bytes) (a n : Nat) : Option Bytes :=
  if a + n ≤ s.length then some ((s.drop a).take n) else none

/-- `u32::MAX`. -/
def u32Max : Nat := 4294967295

end Grenad
