/-
  Grenad.Model.Meta — mirror of src/metadata.rs + CompressionType::from_u8.
  Constants are literals taken from the property text (C09, C10), not from the code.
-/
import Grenad.Model.Basic

namespace Grenad.Meta

def magicV1 : Nat := 0x76324D4C
def magicV2 : Nat := 0x6723D4C4

inductive OpenErr where
  | io          -- seek before start / short read
  | badMagic    -- Error::InvalidFormatVersion
  | badCodec    -- Error::InvalidCompressionType
  deriving Repr, DecidableEq, Inhabited

def OpenErr.name : OpenErr → String
  | .io => "io" | .badMagic => "bad-magic" | .badCodec => "bad-codec"

structure Meta where
  version : Nat      -- 1 or 2
  root    : Nat      -- index_block_offset
  codec   : Nat      -- 0..5
  count   : Nat      -- entries_count
  levels  : Nat      -- index_levels
  deriving Repr, DecidableEq, Inhabited

/-- `Metadata::read_from` over an in-memory `Cursor`:
    `seek(End(-4))` fails when fewer than 4 bytes exist; the magic selects the layout;
    `seek(End(-21|-22))` fails when the record is incomplete; the codec id is validated. -/
def parse (b : Bytes) : Except OpenErr Meta :=
  let n := b.length
  if n < 4 then .error .io else
  let magic := leVal (b.drop (n - 4))
  if magic = magicV1 then
    if n < 21 then .error .io else
    let t := b.drop (n - 21)
    let codec := (t.getD 8 0).toNat
    if codec > 5 then .error .badCodec else
    .ok { version := 1, root := leVal (t.take 8), codec := codec,
          count := leVal ((t.drop 9).take 8), levels := 0 }
  else if magic = magicV2 then
    if n < 22 then .error .io else
    let t := b.drop (n - 22)
    let codec := (t.getD 8 0).toNat
    if codec > 5 then .error .badCodec else
    .ok { version := 2, root := leVal (t.take 8), codec := codec,
          count := leVal ((t.drop 9).take 8), levels := (t.getD 17 0).toNat }
  else .error .badMagic

/-- `Metadata::write_into`. -/
def encode (m : Meta) : Bytes :=
  if m.version = 1 then
    le64 m.root ++ [UInt8.ofNat m.codec] ++ le64 m.count ++ le32 magicV1
  else
    le64 m.root ++ [UInt8.ofNat m.codec] ++ le64 m.count ++ [UInt8.ofNat m.levels] ++ le32 magicV2

/-- I/O issued by an open: (number of seeks, bytes read, lowest offset-from-end touched). -/
def openIO (b : Bytes) : Nat × Nat × Nat :=
  let n := b.length
  if n < 4 then (1, 0, 0) else
  let magic := leVal (b.drop (n - 4))
  if magic = magicV1 then (if n < 21 then (2, 4, 4) else (2, 4 + 17, 21))
  else if magic = magicV2 then (if n < 22 then (2, 4, 4) else (2, 4 + 18, 22))
  else (1, 4, 4)

end Grenad.Meta
