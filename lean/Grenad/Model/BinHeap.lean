/-
  Grenad.Model.BinHeap — `std::collections::BinaryHeap<Entry<R>>` as it is used by src/merger.rs,
  and the merger of Grenad.Model.Merger re-stated over it.

  Grenad.Model.Merger replaces the binary heap by its specification (a list, `heapMin`/`heapPop`).
  This file models the data structure itself: an implicit binary tree in an array (children of
  `i` are `2i+1`, `2i+2`), and the algorithms of Rust's `alloc::collections::binary_heap`:

  * `push`  = `data.push(item); sift_up(0, old_len)`;
  * `pop`   = `data.pop()`, then (if the vector is not empty) the popped last item is exchanged
              with `data[0]` and `sift_down_to_bottom(0)` is run: the hole descends to a leaf,
              always towards the greater child (the right one on a tie), WITHOUT comparing with
              the moved element, and is finally moved up again by `sift_up(0, pos)`.
              This is the std algorithm, NOT the textbook sift-down;
  * `peek`  = `data.get(0)`.

  Presentational differences with the Rust source, all without effect on the array that
  results: (0) the two `while` loops are written with a fuel argument (structural recursion, the
  style of the other model files, so that `decide` evaluates them); `pos` resp. `data.len()`
  iterations are never exhausted — the correctness proofs in Grenad.Proofs.BinHeapProofs cover
  this; (1) Rust moves a `Hole` (the element is taken out, the entries on the path are shifted by
  one, the element is written back at the end) where this model swaps the element with each
  entry on the path; (2) `sift_up`'s parameter `start` is always `0` in `push` and `pop`, so it
  is specialised away.

  `BinaryHeap` is a MAX-heap for `Ord`; `Entry::cmp` is the REVERSED comparison of
  `(key, source_index)`, so `a > b` in Rust is `a.before b` here (`a` pops before `b`) and
  Rust's `a <= b` is `!(a.before b)`.
-/
import Grenad.Model.Merger

namespace Grenad

/-- `BinaryHeap<Entry<R>>`: the backing vector `data`. -/
structure BinHeap where
  data : Array MSrc := #[]
  deriving Inhabited

namespace BinHeap

/-- `BinaryHeap::new()`. -/
def empty : BinHeap := {}

def size (h : BinHeap) : Nat := h.data.size

def toList (h : BinHeap) : List MSrc := h.data.toList

/-- The loop of `sift_up(0, pos)`:
    `while pos > 0 { parent = (pos-1)/2; if elt <= data[parent] { break }; move up }`.
    `fuel` bounds the number of iterations (structural recursion, so that `decide` evaluates it). -/
def siftUpLoop : Nat → Array MSrc → Nat → Array MSrc
  | 0, a, _ => a
  | fuel+1, a, pos =>
    if h : 0 < pos ∧ pos < a.size then
      let parent := (pos - 1) / 2
      if a[pos].before (a[parent]'(by omega)) then
        siftUpLoop fuel (a.swap pos parent h.2 (by omega)) parent
      else a
    else a

/-- `sift_up(0, pos)`.  The position strictly decreases, so `pos` iterations are enough. -/
def siftUp (a : Array MSrc) (pos : Nat) : Array MSrc := siftUpLoop pos a pos

/-- The loop of `sift_down_to_bottom(pos)`:
    `while child <= end-2 { child += (data[child] <= data[child+1]); move down; child = 2*pos+1 }`
    `if child == end-1 { move down }`, then `sift_up(0, pos)`. -/
def siftDownLoop : Nat → Array MSrc → Nat → Array MSrc
  | 0, a, _ => a
  | fuel+1, a, pos =>
    if h : pos < a.size then
      let child := 2 * pos + 1
      if h2 : child + 1 < a.size then
        -- both children exist: go to the one that pops first (the right one unless left > right)
        let c := if (a[child]'(by omega)).before a[child + 1] then child else child + 1
        siftDownLoop fuel (a.swap pos c h (by simp only [c]; split <;> omega)) c
      else if h1 : child + 1 = a.size then
        -- a single (last) child
        siftUp (a.swap pos child h (by omega)) child
      else
        siftUp a pos
    else a

/-- `sift_down_to_bottom(pos)`.  The position strictly increases and stays below `a.size`, so
    `a.size` iterations are enough. -/
def siftDownToBottom (a : Array MSrc) (pos : Nat) : Array MSrc := siftDownLoop a.size a pos

/-- `BinaryHeap::push`. -/
def push (h : BinHeap) (x : MSrc) : BinHeap :=
  { data := siftUp (h.data.push x) h.data.size }

/-- `BinaryHeap::peek`. -/
def peek (h : BinHeap) : Option MSrc := h.data[0]?

/-- `BinaryHeap::pop`. -/
def pop (h : BinHeap) : Option (MSrc × BinHeap) :=
  match h.data.back? with
  | none => none
  | some item =>
    let d := h.data.pop
    if hd : 0 < d.size then
      some (d[0], { data := siftDownToBottom (d.set 0 item) 0 })
    else
      some (item, { data := d })

end BinHeap

/-- The `while let Some(entry) = heap.peek()` loop: peek, compare the key, pop. -/
def popSameH (key : Bytes) : Nat → BinHeap → List MSrc → List MSrc × BinHeap
  | 0, h, acc => (acc.reverse, h)
  | fuel+1, h, acc =>
    match h.peek with
    | none => (acc.reverse, h)
    | some e =>
      if e.key = key then
        match h.pop with
        | some (m, h') => popSameH key fuel h' (m :: acc)
        | none => (acc.reverse, h)          -- unreachable: `peek` returned an entry
      else (acc.reverse, h)

/-- `cursor.move_on_next()` + `heap.push(entry)` when it still has an entry. -/
def advanceH (h : BinHeap) (s : MSrc) : BinHeap :=
  match s.rest with
  | _ :: (e :: more) => h.push { s with rest := e :: more }
  | _ => h

/-- `MergerIter` over the array-based binary heap. -/
structure MergerH where
  heap  : BinHeap
  calls : List (Bytes × List Bytes) := []      -- instrumentation: merge calls, most recent first
  deriving Inhabited

namespace MergerH

open Merger (MRes totalLen)

/-- `into_stream_merger_iter`: `heap.push` of every non-empty source, in source order. -/
def startH (sources : List (List Entry)) : MergerH :=
  let rec go : Nat → List (List Entry) → BinHeap → BinHeap
    | _, [], h => h
    | i, s :: rest, h => match s with
      | [] => go (i+1) rest h
      | _ :: _ => go (i+1) rest (h.push { idx := i, rest := s })
  { heap := go 0 sources BinHeap.empty }

/-- `MergerIter::next` (same structure as `Merger.next`). -/
def nextH (mf : MergeFn) (m : MergerH) : MergerH × MRes :=
  match m.heap.pop with
  | none => (m, .ok none)
  | some (first, h) =>
    let (same, h) := popSameH first.key (h.size + 1) h []
    let vals := first.val :: same.map MSrc.val
    let calls := (first.key, vals) :: m.calls
    match mf first.key vals with
    | none => ({ m with heap := h, calls := calls }, .mergeErr)
    | some merged =>
      let h := (first :: same).foldl advanceH h
      ({ heap := h, calls := calls }, .ok (some (first.key, merged)))

/-- Drain the merger. `fuel` ≥ total number of entries + 1. -/
def collectH (mf : MergeFn) : Nat → MergerH → List Entry → Option (List Entry) × MergerH
  | 0, m, acc => (some acc.reverse, m)
  | fuel+1, m, acc =>
    match nextH mf m with
    | (m', .ok none) => (some acc.reverse, m')
    | (m', .ok (some e)) => collectH mf fuel m' (e :: acc)
    | (m', .mergeErr) => (none, m')

/-- Merge `sources` completely on the binary heap. -/
def runH (mf : MergeFn) (sources : List (List Entry)) : Option (List Entry) × MergerH :=
  collectH mf (totalLen sources + 1) (startH sources) []

end MergerH
end Grenad
