/-
  Grenad.Model.IO — the I/O layer the crate sits on (C11, C12): a sink and a source whose
  every call is answered from a schedule, and std's `write_all` / `read_exact` /
  `Take::read_to_end` loops modelled from their documented contract.
-/
import Grenad.Model.Reader

namespace Grenad.IOM

/-- Answer of the sink to one `write(buf)` call. -/
inductive WResp where
  | accept (n : Nat)        -- accepts `clamp n 1 buf.len` bytes
  | interrupted             -- Err(ErrorKind::Interrupted)
  | fail (tag : Nat)        -- any other error, identified by `tag`
  deriving Repr, DecidableEq, Inhabited

/-- The sink behind a `CountWrite`. -/
structure Sink where
  data  : Bytes := []
  count : Nat := 0          -- CountWrite::count
  deriving Repr, DecidableEq, Inhabited

/-- `Write::write_all` through `CountWrite::write`.  An exhausted schedule accepts everything.
    Returns the sink, the unused schedule and `none` (Ok) or `some tag` (Err). -/
def writeAll (buf : Bytes) (s : Sink) : List WResp → Sink × List WResp × Option Nat
  | [] => ({ data := s.data ++ buf, count := s.count + buf.length }, [], none)
  | r :: rs =>
    if buf.isEmpty then (s, r :: rs, none) else
    match r with
    | .accept n =>
      let m := max 1 (min n buf.length)
      writeAll (buf.drop m) { data := s.data ++ buf.take m, count := s.count + m } rs
    | .interrupted => writeAll buf s rs
    | .fail tag => (s, rs, some tag)

/-- A sequence of `write_all` calls (what a `Writer` issues), stopping at the first error. -/
def writeMany : List Bytes → Sink → List WResp → Sink × List WResp × Option Nat
  | [], s, sch => (s, sch, none)
  | b :: bs, s, sch =>
    match writeAll b s sch with
    | (s', sch', none) => writeMany bs s' sch'
    | (s', sch', some t) => (s', sch', some t)

/-- Answer of the source to one `read(buf)` call. -/
inductive RResp where
  | serve (n : Nat)         -- serves `clamp n 1 (min want avail)` bytes (0 at end of data)
  | interrupted
  | fail (tag : Nat)
  deriving Repr, DecidableEq, Inhabited

/-- `Read::read_exact(want)` from `data` at `pos`; an exhausted schedule serves everything.
    Result: bytes read, new position, unused schedule, `none` | `some tag` (`some 0` = UnexpectedEof). -/
def readExact (data : Bytes) : Nat → Nat → Bytes → List RResp → Bytes × Nat × List RResp × Option Nat
  | 0, pos, acc, sch => (acc, pos, sch, none)
  | want+1, pos, acc, sch =>
    let avail := data.length - pos
    if avail = 0 then (acc, pos, sch, some 0) else
    match sch with
    | [] =>
      let m := min (want+1) avail
      if m = want + 1 then (acc ++ (data.drop pos).take m, pos + m, [], none)
      else (acc ++ (data.drop pos).take m, pos + m, [], some 0)
    | .serve n :: rs =>
      let m := max 1 (min n (min (want+1) avail))
      readExact data (want + 1 - m) (pos + m) (acc ++ (data.drop pos).take m) rs
    | .interrupted :: rs => readExact data (want+1) pos acc rs
    | .fail tag :: rs => (acc, pos, rs, some tag)
termination_by want _ _ sch => (want, sch.length)

/-- `reader.take(limit).read_to_end(out)`: reads until the limit or the end of data. -/
def readToEndTake (data : Bytes) : Nat → Nat → Bytes → List RResp → Bytes × Nat × List RResp × Option Nat
  | 0, pos, acc, sch => (acc, pos, sch, none)
  | limit+1, pos, acc, sch =>
    let avail := data.length - pos
    if avail = 0 then (acc, pos, sch, none) else
    match sch with
    | [] => let m := min (limit+1) avail; (acc ++ (data.drop pos).take m, pos + m, [], none)
    | .serve n :: rs =>
      let m := max 1 (min n (min (limit+1) avail))
      readToEndTake data (limit + 1 - m) (pos + m) (acc ++ (data.drop pos).take m) rs
    | .interrupted :: rs => readToEndTake data (limit+1) pos acc rs
    | .fail tag :: rs => (acc, pos, rs, some tag)
termination_by limit _ _ sch => (limit, sch.length)

/-- `seek(Start(off))`; `read_u64`; `take(len).read_to_end` — the bytes `Block::read_from` hands
    to the decompressor, under a read schedule. -/
def loadBodyIO (file : Bytes) (off : Nat) (sch : List RResp) : Option Bytes × List RResp × Option Nat :=
  match readExact file 8 off [] sch with
  | (_, _, sch, some t) => (none, sch, some t)
  | (hdr, pos, sch, none) =>
    match readToEndTake file (beVal hdr) pos [] sch with
    | (_, _, sch, some t) => (none, sch, some t)
    | (body, _, sch, none) => (some body, sch, none)

end Grenad.IOM
