/-
  Grenad.Model.Block — mirrors of src/block_writer.rs (BW) and src/block.rs (Block, BlockCursor).
-/
import Grenad.Model.Varint

namespace Grenad

/-! ### BlockWriter -/

structure BW where
  buffer   : Bytes
  lastKey  : Option Bytes
  interval : Nat            -- index_key_interval (NonZeroUsize)
  offsets  : List Nat       -- index_offsets, starts as [0]
  counter  : Nat            -- index_key_counter
  items    : List Entry := []   -- ghost: the entries inserted since the last reset
  deriving Repr, Inhabited

namespace BW

def new (interval : Nat) : BW :=
  { buffer := [], lastKey := none, interval := interval, offsets := [0], counter := 0 }

/-- `BlockWriter::reset` (run by `BlockBuffer::drop`). -/
def reset (w : BW) : BW :=
  { w with buffer := [], lastKey := none, offsets := w.offsets.take 1, counter := 0, items := [] }

/-- `current_size_estimate`. -/
def sizeEstimate (w : BW) : Nat := w.buffer.length + w.offsets.length * 8 + 4

/-- The frame appended for one entry. -/
def frame (k v : Bytes) : Bytes :=
  Varint.encode32 k.length ++ Varint.encode32 v.length ++ k ++ v

/-- `BlockWriter::insert`, with its three assertions as traps. -/
def insert (w : BW) (k v : Bytes) : Except Trap BW :=
  if k.length > u32Max then .error .keyTooLong else
  if v.length > u32Max then .error .valTooLong else
  let (offsets, counter) :=
    if w.counter = w.interval then (w.offsets ++ [w.buffer.length], 0) else (w.offsets, w.counter)
  match w.lastKey with
  | some lk =>
    if lk < k then
      .ok { w with buffer := w.buffer ++ frame k v, lastKey := some k,
                   offsets := offsets, counter := counter + 1, items := w.items ++ [(k, v)] }
    else .error .keyOrder
  | none =>
      .ok { w with buffer := w.buffer ++ frame k v, lastKey := some k,
                   offsets := offsets, counter := counter + 1, items := w.items ++ [(k, v)] }

/-- `BlockWriter::finish`: the uncompressed block bytes. -/
def finish (w : BW) : Bytes :=
  w.buffer ++ w.offsets.flatMap be64 ++ be32 w.offsets.length

end BW

/-! ### Block -/

structure Block where
  payload : Bytes
  offsets : List Nat
  deriving Repr, Inhabited, DecidableEq

namespace Block

/-- Split a byte string into big-endian u64 values (`chunks_exact(8)`). -/
def be64s : Nat → Bytes → List Nat
  | 0, _ => []
  | n+1, bs => beVal (bs.take 8) :: be64s n (bs.drop 8)

/-- The footer interpretation in `Block::read_from` on the decompressed buffer.
    `none` where the Rust slice indexing would panic. -/
def parse (buf : Bytes) : Option Block :=
  let n := buf.length
  if n < 4 then none else
  let cnt := beVal (buf.drop (n - 4))
  if n < 4 + cnt * 8 then none else
  let p := n - 4 - cnt * 8
  some { payload := buf.take p, offsets := be64s cnt ((buf.drop p).take (cnt * 8)) }

/-- `Block::entry_at`: key, value and the offset of the next entry.
    `none` when `start ≥ payload.len()`; on malformed payloads (never produced by a writer)
    the Rust code panics where this returns `none` — no property quantifies over those. -/
def entryAt (b : Block) (start : Nat) : Option (Bytes × Bytes × Nat) :=
  if start ≥ b.payload.length then none else
  match Varint.decode32 (b.payload.drop start) with
  | none => none
  | some (klen, n1) =>
    match Varint.decode32 (b.payload.drop (start + n1)) with
    | none => none
    | some (vlen, n2) =>
      let o := start + n1 + n2
      match slice? b.payload o klen, slice? b.payload (o + klen) vlen with
      | some k, some v => some (k, v, o + klen + vlen)
      | _, _ => none

end Block

/-! ### BlockCursor (byte-offset cursor inside one block) -/

structure BlockCursor where
  block : Block
  off   : Option Nat       -- current_offset
  deriving Repr, Inhabited, DecidableEq

namespace BlockCursor

def ofBlock (b : Block) : BlockCursor := { block := b, off := none }

def current (c : BlockCursor) : Option Entry :=
  match c.off with
  | none => none
  | some o => (c.block.entryAt o).map (fun (k, v, _) => (k, v))

def first (c : BlockCursor) : BlockCursor × Option Entry :=
  let c' := { c with off := c.block.offsets.head? }
  (c', c'.current)

/-- The `while let Some((_, _, next)) = entry_at(off)` loop of `move_on_last`: returns the last
    offset at which an entry was seen (if any).  `fuel` bounds the loop by the payload length. -/
def scanLast (b : Block) : Nat → Nat → Option Nat → Option Nat
  | 0, _, acc => acc
  | fuel+1, off, acc =>
    match b.entryAt off with
    | some (_, _, next) => scanLast b fuel next (some off)
    | none => acc

def last (c : BlockCursor) : BlockCursor × Option Entry :=
  match c.block.offsets.getLast? with
  | some off =>
    let c' := match scanLast c.block (c.block.payload.length + 1) off none with
      | some o => { c with off := some o }
      | none => c                               -- offset left untouched
    (c', c'.current)
  | none => let c' := { c with off := none }; (c', c'.current)

def next (c : BlockCursor) : BlockCursor × Option Entry :=
  match c.off with
  | some o =>
    match c.block.entryAt o with
    | some (_, _, nxt) => let c' := { c with off := some nxt }; (c', c'.current)
    | none => (c, none)
  | none => c.first

/-- `slice::binary_search` result on the ascending offset table, reduced to what `move_on_prev`
    uses: the index of an exact match, or the insertion point. -/
def searchOffsets (offs : List Nat) (x : Nat) : Nat :=
  (offs.takeWhile (· < x)).length

/-- The scan loop of `move_on_prev`: walk from `off` until the entry with `curKey`. -/
def scanPrev (b : Block) (curKey : Bytes) : Nat → Nat → Option Nat → Option Nat
  | 0, _, acc => acc
  | fuel+1, off, acc =>
    match b.entryAt off with
    | some (k, _, next) => if curKey = k then acc else scanPrev b curKey fuel next (some off)
    | none => acc

def prev (c : BlockCursor) : BlockCursor × Option Entry :=
  match c.off with
  | some cur =>
    let offs := c.block.offsets
    let j := searchOffsets offs cur
    if j = 0 then (c, none) else            -- checked_sub(1)?
    match c.block.entryAt cur with
    | none => (c, none)                     -- `.map(..)?`
    | some (curKey, _, _) =>
      let start := offs.getD (j - 1) 0
      let c' := match scanPrev c.block curKey (c.block.payload.length + 1) start none with
        | some o => { c with off := some o }
        | none => c
      (c', c'.current)
  | none => c.last

/-- Result of `binary_search_by_key(&Some(key), |off| entry_at(off).key)` over the offset table,
    reduced to what the caller uses: `Ok i` ↦ `(true, i)`, `Err i` ↦ `(false, i)`.
    The table keys ascend, so the binary search is modelled by its specification. -/
def searchKey (b : Block) (key : Bytes) : Bool × Nat :=
  let keyAt (off : Nat) : Option Bytes := (b.entryAt off).map (fun (k, _, _) => k)
  -- `None < Some _`, `Some a < Some b ↔ a < b`
  let lt (off : Nat) : Bool := match keyAt off with
    | none => true
    | some k => decide (k < key)
  let i := (b.offsets.takeWhile lt).length
  match b.offsets[i]? with
  | some off => (decide (keyAt off = some key), i)
  | none => (false, i)

/-- The linear scan of `move_on_key_lower_than_or_equal_to`. -/
def scanLe (b : Block) (key : Bytes) : Nat → Nat → Option Nat → Option Nat
  | 0, _, acc => acc
  | fuel+1, off, acc =>
    match b.entryAt off with
    | some (k, _, next) => if key < k then acc else scanLe b key fuel next (some off)
    | none => acc

def le (c : BlockCursor) (key : Bytes) : BlockCursor × Option Entry :=
  let offs := c.block.offsets
  let (found, i) := searchKey c.block key
  let c' :=
    if found then { c with off := some (offs.getD i 0) }
    else if i = 0 then { c with off := none }
    else match offs[i - 1]? with
      | some off => { c with off := scanLe c.block key (c.block.payload.length + 1) off none }
      | none => { c with off := none }
  (c', c'.current)

def ge (c : BlockCursor) (key : Bytes) : BlockCursor × Option Entry :=
  match c.le key with
  | (c', some (k, v)) => if k = key then (c', some (k, v)) else c'.next
  | (c', none) => c'.first

end BlockCursor

end Grenad
