/-
  Grenad.Model.MetaIO — `Metadata::read_from` (src/metadata.rs) over a *scheduled* source:
  the same sequence of `seek` / `read_uN` calls as the Rust function, every `read_uN` being one
  `read_exact` loop (`IOM.readExact`) answered from the schedule of `Grenad.Model.IO`.
  `Meta.parse` (Grenad.Model.Meta) is the same function over an in-memory cursor that never
  splits, interrupts or fails a read.
-/
import Grenad.Model.Meta
import Grenad.Model.IO

namespace Grenad.Meta

open Grenad.IOM (RResp readExact)

/-- Result of an open through the I/O layer: the value returned, the unused schedule, the tag of
    the fault that stopped it (`none`: no `read` call failed — the outcome, `Ok` or `Err`, was
    decided by seeks and by the bytes), and the log of the `read_exact(want)` calls issued, as
    `(position, want)` pairs in call order. -/
abbrev OpenRes := Except OpenErr Meta × List RResp × Option Nat × List (Nat × Nat)

/-- `Metadata::read_from`, call by call, with the read log.
    * `reader.seek(SeekFrom::End(-k))?` fails (`Err(Io)`, no `read` issued) when `k > len`;
    * `reader.read_uN()?` is `read_exact` of `N/8` bytes at the current position; an error of the
      source is returned as `Err(Io)` together with its tag;
    * the position after a successful read is the one `read_exact` left. -/
def parseIOL (b : Bytes) (sch : List RResp) : OpenRes :=
  let n := b.length
  -- reader.seek(SeekFrom::End(-4))?
  if 4 > n then (.error .io, sch, none, []) else
  let l1 := [(n - 4, 4)]
  -- reader.read_u32::<LittleEndian>()?
  match readExact b 4 (n - 4) [] sch with
  | (_, _, sch, some t) => (.error .io, sch, some t, l1)
  | (mg, _, sch, none) =>
    let magic := leVal mg
    if magic = magicV1 then
      -- reader.seek(SeekFrom::End(-21))?
      if 21 > n then (.error .io, sch, none, l1) else
      let l2 := l1 ++ [(n - 21, 8)]
      -- index_block_offset = reader.read_u64::<LittleEndian>()?
      match readExact b 8 (n - 21) [] sch with
      | (_, _, sch, some t) => (.error .io, sch, some t, l2)
      | (rootB, pos, sch, none) =>
        let l3 := l2 ++ [(pos, 1)]
        -- compression_type = reader.read_u8()?
        match readExact b 1 pos [] sch with
        | (_, _, sch, some t) => (.error .io, sch, some t, l3)
        | (codecB, pos, sch, none) =>
          let codec := (codecB.getD 0 0).toNat
          -- CompressionType::from_u8(compression_type).ok_or(Error::InvalidCompressionType)?
          if codec > 5 then (.error .badCodec, sch, none, l3) else
          let l4 := l3 ++ [(pos, 8)]
          -- entries_count = reader.read_u64::<LittleEndian>()?
          match readExact b 8 pos [] sch with
          | (_, _, sch, some t) => (.error .io, sch, some t, l4)
          | (countB, _, sch, none) =>
            (.ok { version := 1, root := leVal rootB, codec := codec, count := leVal countB,
                   levels := 0 }, sch, none, l4)
    else if magic = magicV2 then
      -- reader.seek(SeekFrom::End(-22))?
      if 22 > n then (.error .io, sch, none, l1) else
      let l2 := l1 ++ [(n - 22, 8)]
      -- index_block_offset = reader.read_u64::<LittleEndian>()?
      match readExact b 8 (n - 22) [] sch with
      | (_, _, sch, some t) => (.error .io, sch, some t, l2)
      | (rootB, pos, sch, none) =>
        let l3 := l2 ++ [(pos, 1)]
        -- compression_type = reader.read_u8()?
        match readExact b 1 pos [] sch with
        | (_, _, sch, some t) => (.error .io, sch, some t, l3)
        | (codecB, pos, sch, none) =>
          let codec := (codecB.getD 0 0).toNat
          -- CompressionType::from_u8(compression_type).ok_or(Error::InvalidCompressionType)?
          if codec > 5 then (.error .badCodec, sch, none, l3) else
          let l4 := l3 ++ [(pos, 8)]
          -- entries_count = reader.read_u64::<LittleEndian>()?
          match readExact b 8 pos [] sch with
          | (_, _, sch, some t) => (.error .io, sch, some t, l4)
          | (countB, pos, sch, none) =>
            let l5 := l4 ++ [(pos, 1)]
            -- index_levels = reader.read_u8()?
            match readExact b 1 pos [] sch with
            | (_, _, sch, some t) => (.error .io, sch, some t, l5)
            | (levelsB, _, sch, none) =>
              (.ok { version := 2, root := leVal rootB, codec := codec, count := leVal countB,
                     levels := (levelsB.getD 0 0).toNat }, sch, none, l5)
    else
      -- _ => return Err(Error::InvalidFormatVersion)
      (.error .badMagic, sch, none, l1)

/-- The open through the I/O layer: value returned, unused schedule, fault tag. -/
def parseIO (b : Bytes) (sch : List RResp) : Except OpenErr Meta × List RResp × Option Nat :=
  let r := parseIOL b sch
  (r.1, r.2.1, r.2.2.1)

/-- The `read_exact(want)` calls issued by the open, as `(position, want)` in call order. -/
def parseIOReads (b : Bytes) (sch : List RResp) : List (Nat × Nat) := (parseIOL b sch).2.2.2

end Grenad.Meta
