/-
  Grenad.Generated.Prelude — the (hand-written, trusted) meaning of the Rust primitives that the
  translator `r2l` emits.  Import-free.

  Conventions of the translation (DESIGN.md §3.5):
  * every Rust integer is a `Nat` (`Int` for `i64`); its width is known to the translator, which emits
    the overflow-checked operation of that width (`add 32 a b`): the reference build is overflow-checked;
  * `[u8]`, `Vec<u8>`, `[u8; N]` are `List UInt8`; other vectors are lists of the element's translation;
  * a Rust panic (overflow, index out of range, failed `assert!`, `unwrap` on `None`) is
    `Except.error <message>`; `Result`-returning functions return their `Err` in the *value*
    (`M (Except E α)`), never mixed with panics;
  * `&mut` parameters and `&mut self` are returned next to the result.
-/

namespace Grenad.R

inductive IoErr where
  | unexpectedEof
  | invalidSeek
  | interrupted                -- `ErrorKind::Interrupted` from an abstract writer
  | other (tag : Nat)          -- any other error of an abstract writer
  deriving Repr, DecidableEq

/-- `Err(..)` values of the crate (`Error`, `io::Error`). -/
inductive RErr where
  | io (e : IoErr)
  | invalidFormatVersion
  | invalidCompressionType
  | cursor                     -- an `Err(_)` returned by a call on the external cursor
  | decompress                 -- an `Err(_)` returned by the external codec
  | merge                      -- `Error::Merge(_)`: the user's merge function returned `Err(_)`
  deriving Repr, DecidableEq

/-- How a translated function can fail: a Rust panic, or an `Err` returned through `?` / `return Err`. -/
inductive Fail where
  | panic (msg : String)
  | err (e : RErr)
  deriving Repr, DecidableEq

abbrev M := Except Fail

instance : MonadExcept Fail M := inferInstanceAs (MonadExcept Fail (Except Fail))

@[inline] def add (w a b : Nat) : M Nat :=
  if a + b < 2 ^ w then pure (a + b) else throw (Fail.panic "attempt to add with overflow")

@[inline] def sub (_w a b : Nat) : M Nat :=
  if b ≤ a then pure (a - b) else throw (Fail.panic "attempt to subtract with overflow")

@[inline] def mul (w a b : Nat) : M Nat :=
  if a * b < 2 ^ w then pure (a * b) else throw (Fail.panic "attempt to multiply with overflow")

/-- `a << k` at width `w` (overflow-checked builds panic when `k ≥ w`; bits shifted out are lost). -/
@[inline] def shl (w a k : Nat) : M Nat :=
  if k < w then pure ((a <<< k) % 2 ^ w) else throw (Fail.panic "attempt to shift left with overflow")

@[inline] def shr (w a k : Nat) : M Nat :=
  if k < w then pure (a >>> k) else throw (Fail.panic "attempt to shift right with overflow")

/-- `a as uW` for an unsigned source. -/
@[inline] def castU (w a : Nat) : Nat := a % 2 ^ w

/-- `a as iW` for an unsigned source (two's complement wrap). -/
@[inline] def castI (w a : Nat) : Int :=
  if a % 2 ^ w < 2 ^ (w - 1) then ((a % 2 ^ w : Nat) : Int) else ((a % 2 ^ w : Nat) : Int) - ((2 ^ w : Nat) : Int)

/-- `u8::checked_add`-style: `none` on overflow. -/
@[inline] def checkedAdd (w a b : Nat) : Option Nat := if a + b < 2 ^ w then some (a + b) else none

/-- `a.div_ceil(b)` -/
@[inline] def divCeil (a b : Nat) : M Nat :=
  if b = 0 then throw (Fail.panic "attempt to divide by zero") else pure ((a + b - 1) / b)

@[inline] def div (a b : Nat) : M Nat :=
  if b = 0 then throw (Fail.panic "attempt to divide by zero") else pure (a / b)

@[inline] def rem (a b : Nat) : M Nat :=
  if b = 0 then throw (Fail.panic "attempt to calculate the remainder with a divisor of zero") else pure (a % b)

/-- `l[i]` -/
@[inline] def idx {α} (l : List α) (i : Nat) : M α :=
  match l[i]? with
  | some x => pure x
  | none => throw (Fail.panic "index out of bounds")

/-- `l[i] = x` -/
@[inline] def setIdx {α} (l : List α) (i : Nat) (x : α) : M (List α) :=
  if i < l.length then pure (l.set i x) else throw (Fail.panic "index out of bounds")

/-- `&l[..n]` -/
@[inline] def sliceTo {α} (l : List α) (n : Nat) : M (List α) :=
  if n ≤ l.length then pure (l.take n) else throw (Fail.panic "range end index out of range")

/-- `&l[a..]` -/
@[inline] def sliceFrom {α} (l : List α) (a : Nat) : M (List α) :=
  if a ≤ l.length then pure (l.drop a) else throw (Fail.panic "range start index out of range")

/-- `&l[a..b]` -/
@[inline] def sliceRange {α} (l : List α) (a b : Nat) : M (List α) :=
  if a ≤ b then (if b ≤ l.length then pure ((l.take b).drop a) else throw (Fail.panic "range end index out of range"))
  else throw (Fail.panic "slice index starts after its end")

@[inline] def assert (c : Bool) (msg : String) : M Unit := if c then pure () else throw (Fail.panic msg)

@[inline] def unwrap {α} (o : Option α) : M α :=
  match o with
  | some x => pure x
  | none => throw (Fail.panic "called `Option::unwrap()` on a `None` value")

/-- `x.to_be_bytes()` / `to_le_bytes()` on `n` bytes. -/
def leBytes : Nat → Nat → List UInt8
  | 0, _ => []
  | n+1, v => (v % 256).toUInt8 :: leBytes n (v / 256)
def beBytes (n v : Nat) : List UInt8 := (leBytes n v).reverse

def leValue : List UInt8 → Nat
  | [] => 0
  | b :: bs => b.toNat + 256 * leValue bs
def beValue (bs : List UInt8) : Nat := leValue bs.reverse

/-- `usize::try_from(x).unwrap()` / `x.try_into().unwrap()` into width `w`. -/
@[inline] def tryInto (w a : Nat) : M Nat :=
  if a < 2 ^ w then pure a else throw (Fail.panic "called `Result::unwrap()` on an `Err` value: TryFromIntError")

/-! ### A seekable byte source (`io::Cursor<&[u8]>`-like), for `Metadata::read_from`.
    `read_exact` semantics: a short source is `UnexpectedEof`; a failed call leaves the position
    unspecified — the translated functions return at the first error, so it is never observed. -/

structure Src where
  bytes : List UInt8
  pos : Nat
  deriving Repr, DecidableEq, Inhabited

/-- `reader.seek(SeekFrom::End(off))` — negative resulting positions are an `InvalidInput` error. -/
@[inline] def Src.seekEnd (s : Src) (off : Int) : Except IoErr Nat × Src :=
  let p : Int := (s.bytes.length : Int) + off
  if p < 0 then (.error .invalidSeek, s) else (.ok p.toNat, { s with pos := p.toNat })

/-- `reader.seek(SeekFrom::Start(n))` on an in-memory source: always succeeds (`io::Cursor` lets the position pass
    the end; reads there deliver nothing). -/
@[inline] def Src.seekStart (s : Src) (n : Nat) : Except IoErr Nat × Src :=
  (.ok n, { s with pos := n })

/-- `read_exact` of `n` bytes. -/
@[inline] def Src.readN (s : Src) (n : Nat) : Except IoErr (List UInt8) × Src :=
  if s.pos + n ≤ s.bytes.length then (.ok ((s.bytes.drop s.pos).take n), { s with pos := s.pos + n })
  else (.error .unexpectedEof, { s with pos := s.bytes.length })

@[inline] def Src.readLE (s : Src) (n : Nat) : Except IoErr Nat × Src :=
  match s.readN n with
  | (.ok bs, s') => (.ok (leValue bs), s')
  | (.error e, s') => (.error e, s')

@[inline] def Src.readBE (s : Src) (n : Nat) : Except IoErr Nat × Src :=
  match s.readN n with
  | (.ok bs, s') => (.ok (beValue bs), s')
  | (.error e, s') => (.error e, s')

/-- `reader.take(n)` followed by `read_to_end`: at most `n` bytes, fewer when the source ends first -/
@[inline] def Src.readUpTo (s : Src) (n : Nat) : List UInt8 × Src :=
  ((s.bytes.drop s.pos).take n, { s with pos := min (s.pos + n) (max s.pos s.bytes.length) })

/-- `opt.as_mut().map(f)` with `f : &mut T → U`: `f` runs on the content, which is written back -/
@[inline] def optMapMut {α β : Type} (o : Option α) (f : α → M (β × α)) : M (Option β × Option α) :=
  match o with
  | some a => do let (b, a') ← f a; pure (some b, some a')
  | none => pure (none, none)

/-- `opt.map(f)` with `f` a translated (possibly panicking) function -/
@[inline] def optMapM {α β : Type} (o : Option α) (f : α → M β) : M (Option β) :=
  match o with
  | some a => do let b ← f a; pure (some b)
  | none => pure none

/-- `opt.and_then(f)` with `f` a translated (possibly panicking) function -/
@[inline] def optBindM {α β : Type} (o : Option α) (f : α → M (Option β)) : M (Option β) :=
  match o with
  | some a => f a
  | none => pure none

/-- `read_to_end` on the in-memory source: everything from the current position on -/
@[inline] def Src.readToEnd (s : Src) : List UInt8 × Src :=
  (s.bytes.drop s.pos, { s with pos := max s.pos s.bytes.length })

/-- the result of the external codec: `none` is `Err(_)` -/
@[inline] def liftDecompress (r : Option (List UInt8)) : M (List UInt8) :=
  match r with
  | some raw => pure raw
  | none => throw (Fail.err RErr.decompress)

/-- the result of the external compressor: `none` is `Err(_)` (an `io::Error`) -/
@[inline] def liftCompress (r : Option (List UInt8)) : M (List UInt8) :=
  match r with
  | some out => pure out
  | none => throw (Fail.err (RErr.io (IoErr.other 0)))

/-- `<[u8; N]>::try_from(slice).map(uN::from_be_bytes).unwrap()` -/
@[inline] def beValueN (n : Nat) (bs : List UInt8) : M Nat :=
  if bs.length = n then pure (beValue bs) else throw (Fail.panic "called `Result::unwrap()` on an `Err` value: TryFromSliceError")

/-- `bytes.chunks_exact(n)` read as big-endian integers (the remainder is dropped) -/
def chunksBE (n : Nat) (bs : List UInt8) : List Nat :=
  if h : n = 0 then [] else
  if bs.length < n then [] else beValue (bs.take n) :: chunksBE n (bs.drop n)
termination_by bs.length
decreasing_by simp only [List.length_drop]; omega

/-- A byte sink that accepts everything (`Vec<u8>`): `write_uN::<Endian>` appends. -/
abbrev Sink := List UInt8

@[inline] def liftIo {α} (r : Except IoErr α) : M α :=
  match r with
  | .ok v => pure v
  | .error e => throw (Fail.err (RErr.io e))

/-- `opt.ok_or(e)?` -/
@[inline] def okOr {α} (o : Option α) (e : RErr) : M α :=
  match o with
  | some v => pure v
  | none => throw (Fail.err e)

@[inline] def addI (w : Nat) (a b : Int) : M Int :=
  if -(2 ^ (w - 1) : Int) ≤ a + b ∧ a + b < 2 ^ (w - 1) then pure (a + b) else throw (Fail.panic "attempt to add with overflow")

@[inline] def subI (w : Nat) (a b : Int) : M Int :=
  if -(2 ^ (w - 1) : Int) ≤ a - b ∧ a - b < 2 ^ (w - 1) then pure (a - b) else throw (Fail.panic "attempt to subtract with overflow")

/-- `std::ops::Bound` -/
inductive Bound (α : Type) where
  | included (x : α)
  | excluded (x : α)
  | unbounded
  deriving Repr

/-- `<[u8] as Ord>::cmp`: lexicographic. -/
def cmpBytes (a b : List UInt8) : Ordering :=
  if a < b then .lt else if a = b then .eq else .gt

/-- `<Option<&[u8]> as Ord>::cmp`: `None` first. -/
def cmpOptBytes : Option (List UInt8) → Option (List UInt8) → Ordering
  | none, none => .eq
  | none, some _ => .lt
  | some _, none => .gt
  | some a, some b => cmpBytes a b

/-- `usize::checked_sub` -/
@[inline] def checkedSub (a b : Nat) : Option Nat := if b ≤ a then some (a - b) else none

/-! ### `slice::binary_search*` — the loop of the standard library this crate is built with (Rust ≥ 1.82:
    branch-free `base`/`size` halving, no early exit), with a comparison that may itself panic.
    `Result<usize, usize>` is `Except Nat Nat`.  (lean/Grenad/Model/BinSearch.lean has the same loop over a
    pure comparison, and Proofs/BinSearchProofs.lean its specification on sorted tables.) -/

def binSearchBaseM {α : Type} (cmp : α → M Ordering) (l : List α) : Nat → Nat → Nat → M Nat
  | 0, base, _ => pure base
  | fuel + 1, base, size =>
    if size > 1 then
      let half := size / 2
      let mid := base + half
      match l[mid]? with
      | none => pure base
      | some x => do
        let c ← cmp x
        binSearchBaseM cmp l fuel (match c with | .gt => base | _ => mid) (size - half)
    else pure base

def binSearchByM {α : Type} (cmp : α → M Ordering) (l : List α) : M (Except Nat Nat) :=
  if l.length = 0 then pure (.error 0) else do
    let base ← binSearchBaseM cmp l (l.length + 1) 0 l.length
    match l[base]? with
    | none => pure (.error base)
    | some x =>
      match ← cmp x with
      | .eq => pure (.ok base)
      | .lt => pure (.error (base + 1))
      | .gt => pure (.error base)

/-- `Result<usize, usize>` of the slice searches -/
abbrev SearchRes := Except Nat Nat

/-- `l.binary_search(&x)` on integers -/
def binarySearch (l : List Nat) (x : Nat) : Except Nat Nat :=
  match binSearchByM (fun o => (pure (compare o x) : M Ordering)) l with
  | .ok r => r
  | .error _ => .error 0   -- unreachable: the comparison is pure

/-- `l.binary_search_by_key(&key, |e| f(e))` with an ordering `cmp` on keys -/
def binarySearchByKeyM {α κ : Type} (cmp : κ → κ → Ordering) (l : List α) (key : κ) (f : α → M κ) : M (Except Nat Nat) :=
  binSearchByM (fun e => do pure (cmp (← f e) key)) l

/-- `.unwrap_or_else(|x| x)` on a search result: "extract Err and Ok" -/
@[inline] def okOrErr : Except Nat Nat → Nat
  | .ok i => i
  | .error i => i

/-! ### An external cursor (`ReaderCursor<R>`): the iterators are translated relative to its step function,
    exactly as the model's iterators are generic in `step`. -/

inductive CurOp where
  | first | last | next | prev
  | ge (k : List UInt8) | le (k : List UInt8)
  | current
  deriving Repr, DecidableEq

/-- the outcome of one cursor call: `none` = `Err(_)`, `some e` = `Ok(e)` -/
abbrev CurRes := Option (Option (List UInt8 × List UInt8))

@[inline] def liftCur (r : CurRes) : M (Option (List UInt8 × List UInt8)) :=
  match r with
  | some e => pure e
  | none => throw (Fail.err RErr.cursor)

/-! ### buffers whose content is not represented (a struct with a checked `Deref` to `&[u8]` of length `len`): slicing and
    copying are reduced to their bounds checks, which is where they can panic -/

/-- `&buf[..h]` -/
@[inline] def ghostTo (len h : Nat) : M Nat :=
  if h ≤ len then pure h else throw (Fail.panic "range end index out of range for slice")
/-- `&buf[l..]` -/
@[inline] def ghostFrom (len l : Nat) : M Nat :=
  if l ≤ len then pure (len - l) else throw (Fail.panic "range start index out of range for slice")
/-- `&buf[l..h]` -/
@[inline] def ghostRange (len l h : Nat) : M Nat :=
  if l ≤ h ∧ h ≤ len then pure (h - l) else throw (Fail.panic "slice index out of range")
/-- `dst.copy_from_slice(src)`: panics unless the lengths are equal -/
@[inline] def copyLenCheck (dst src : Nat) : M Unit :=
  if dst = src then pure () else throw (Fail.panic "source slice length does not match destination slice length")
/-- `bytemuck::cast_slice(_mut)::<u8, T>` on a buffer aligned for `T`: the number of `T`; panics on a length that is not a multiple of the size -/
@[inline] def castSliceLen (len sz : Nat) : M Nat :=
  if len % sz = 0 then pure (len / sz) else throw (Fail.panic "cast_slice: output slice would have slop")
/-- `arr[i] = v` -/
@[inline] def idxCheck (count i : Nat) : M Unit :=
  if i < count then pure () else throw (Fail.panic "index out of bounds")

/-- what a user merge function hands back: `Cow::Owned` or `Cow::Borrowed` bytes -/
inductive Cow where
  | owned (b : List UInt8)
  | borrowed (b : List UInt8)
  deriving Repr, DecidableEq

/-! ### `std::collections::BinaryHeap` by its contract: a bag; `peek`/`pop` deliver an element that no other element
    exceeds in the order `cmp` (the first such element of the list: which one among equals is unspecified in std,
    and the heap of the merger never holds two equal elements). -/

/-- index of a greatest element (the earliest one), scanning left to right -/
def heapMaxIdxM {α : Type} (cmp : α → α → M Ordering) : List α → Nat → Option (Nat × α) → M (Option (Nat × α))
  | [], _, best => pure best
  | x :: xs, i, none => heapMaxIdxM cmp xs (i + 1) (some (i, x))
  | x :: xs, i, some (j, b) => do
    let o ← cmp b x
    if o == Ordering.lt then heapMaxIdxM cmp xs (i + 1) (some (i, x)) else heapMaxIdxM cmp xs (i + 1) (some (j, b))

@[inline] def heapPeekM {α : Type} (cmp : α → α → M Ordering) (h : List α) : M (Option α) := do
  let r ← heapMaxIdxM cmp h 0 none
  pure (r.map (·.2))

@[inline] def heapPopM {α : Type} (cmp : α → α → M Ordering) (h : List α) : M (Option α × List α) := do
  let r ← heapMaxIdxM cmp h 0 none
  match r with
  | some (i, x) => pure (some x, h.eraseIdx i)
  | none => pure (none, h)

end Grenad.R
