/-
  Grenad.SrcTie.ReaderTotalBase — total correctness of the regenerated reader on written files, part 1:
  the invariant under which no generated call can panic or fail, and the three primitive facts
  (in-block moves, `current`, loading a block) in "returns and re-establishes the invariant" form.

  `RTOk x Q`: the translated computation `x` returns `.ok y` with `Q y` (a total-correctness triple).
  `RTPt s k off`: in the abstract store `s`, `off` holds a block all of whose entries (when `k > 0`) carry an
     8-byte value pointing to a block with the same property at depth `k - 1`.
  `RTCur G c`: the generated in-block cursor `c` is over a writer-built block (`Assembly.Rb`) all of whose
     entries satisfy `G`, and the block's sizes exclude `usize` overflow (`OKBlock`).
-/
import Grenad.SrcTie.ReaderE2EGen
import Grenad.SrcTie.NoPanic

set_option linter.unusedSimpArgs false
set_option linter.unusedVariables false

namespace Grenad.SrcTie
open Grenad Grenad.R Grenad.Gen Grenad.Assembly Grenad.TCursor

/-! ### total-correctness triples -/

/-- the translated computation returns, and its result satisfies `Q` -/
def RTOk {α : Type} (x : M α) (Q : α → Prop) : Prop := ∃ y, x = .ok y ∧ Q y

theorem rtok_bind {α β : Type} {x : M α} {f : α → M β} {P : α → Prop} {Q : β → Prop}
    (hx : RTOk x P) (hf : ∀ a, P a → RTOk (f a) Q) : RTOk (Except.bind x f) Q := by
  obtain ⟨a, rfl, ha⟩ := hx
  exact hf a ha

theorem rtok_ok {α : Type} {a : α} {Q : α → Prop} (h : Q a) : RTOk (Except.ok a : M α) Q := ⟨a, rfl, h⟩

theorem rtok_pure {α : Type} {a : α} {Q : α → Prop} (h : Q a) : RTOk (Except.pure a : M α) Q := ⟨a, rfl, h⟩

theorem rtok_mono {α : Type} {x : M α} {P Q : α → Prop} (hx : RTOk x P) (h : ∀ a, P a → Q a) : RTOk x Q := by
  obtain ⟨a, ha, hp⟩ := hx
  exact ⟨a, ha, h a hp⟩

theorem rtok_of_eq {α : Type} {x : M α} {a : α} {Q : α → Prop} (hx : x = .ok a) (h : Q a) : RTOk x Q :=
  ⟨a, hx, h⟩

/-! ### the tree below an offset -/

/-- what an entry of a block at depth `k` satisfies: nothing for a data block (`k = 0`); for an index block, an
    8-byte value that is the offset of a stored block whose entries satisfy the same at depth `k - 1` -/
def RTG (s : Store) : Nat → Entry → Prop
  | 0, _ => True
  | k + 1, e => e.2.length = 8 ∧ ∃ blk, s (offOf e) = some blk ∧ ∀ e' ∈ blk, RTG s k e'

/-- `off` holds a block of depth `k` -/
def RTPt (s : Store) (k off : Nat) : Prop := ∃ blk, s off = some blk ∧ ∀ e ∈ blk, RTG s k e

theorem rtg_succ (s : Store) (k : Nat) (e : Entry) : RTG s (k + 1) e ↔ e.2.length = 8 ∧ RTPt s k (offOf e) :=
  Iff.rfl

theorem rt_be64_length (n : Nat) : (be64 n).length = 8 := by
  simp [be64, beN, leN_length]

/-- a subtree of a well-formed file is a tree in the sense of `RTPt` -/
theorem rtpt_of_sub {s : Store} {lvl : Nat → Nat} (hlt : ∀ off blk, s off = some blk → off < 2 ^ 64) :
    ∀ (k off : Nat) (fl : List Entry), Sub s lvl k off fl → RTPt s k off
  | 0, off, fl, h => ⟨fl, Sub.inv_leaf h, fun _ _ => trivial⟩
  | k + 1, off, fl, h => by
    obtain ⟨kids, -, hblk, hkids, -⟩ := Sub.inv_node h
    refine ⟨idx kids, hblk, ?_⟩
    intro e he
    simp only [List.mem_map] at he
    obtain ⟨kid, hk, rfl⟩ := he
    have hsk := hkids kid hk
    obtain ⟨b, hb⟩ := Sub.stored hsk
    refine ⟨rt_be64_length _, ?_⟩
    rw [offOf_mk _ (hlt _ _ hb)]
    exact rtpt_of_sub hlt k kid.1 kid.2 hsk

/-- the root of a well-formed file (empty or not) -/
theorem rtpt_root {s : Store} {root levels : Nat} {es : List Entry} (h : FileOK s root levels es) :
    RTPt s (levels + 1) root := by
  rcases h.tree with ⟨-, hs⟩ | ⟨lvl, hsub⟩
  · exact ⟨[], hs, fun e he => by cases he⟩
  · exact rtpt_of_sub (fun off blk hb => (h.blocks off blk hb).2) _ _ _ hsub

/-! ### the cursors held -/

section
variable (iv : Nat) (log : List Emitted)

/-- a generated in-block cursor over a writer-built block whose entries all satisfy `G` -/
def RTCur (G : Entry → Prop) (c : Gen.BlockCursor) : Prop :=
  OKBlock c.block ∧ ∃ l, Rb iv log (toBC c) l ∧ ∀ e ∈ l.es, G e

variable {iv log}

theorem RTCur.good {G : Entry → Prop} {c : Gen.BlockCursor} (h : RTCur iv log G c) : Good (fun _ => True) c :=
  ⟨h.1, trivial⟩

/-- **every in-block move returns**, keeps the invariant, and returns an entry of the block -/
theorem rt_move {G : Entry → Prop} {c : Gen.BlockCursor} (h : RTCur iv log G c) (m : Mov) :
    RTOk (genMove m c) fun x => RTCur iv log G x.2 ∧ ∀ e, x.1 = some e → G e := by
  obtain ⟨hok, l, ⟨e0, he0, b, hb, hr⟩, hG⟩ := h
  have hbb : toBlock c.block = b := hr.1
  subst hbb
  obtain ⟨c', hmv, hrep', hblk⟩ := src_tblock_total c hok hb hr m
  refine ⟨_, hmv, ⟨by rw [hblk]; exact hok, (LC.ops.apply m l).1, ⟨e0, he0, toBlock c'.block, ?_, hrep'⟩, ?_⟩, ?_⟩
  · rw [hblk]; exact hb
  · rw [apply_es]; exact hG
  · intro e he
    exact hG e (apply_mem m l he)

/-- **`current` returns** an entry of the block -/
theorem rt_current {G : Entry → Prop} {c : Gen.BlockCursor} (h : RTCur iv log G c) :
    RTOk (Gen.BlockCursor.current c) fun r => ∀ e, r = some e → G e := by
  obtain ⟨hok, l, ⟨e0, he0, b, hb, hr⟩, hG⟩ := h
  have hbb : toBlock c.block = b := hr.1
  subst hbb
  obtain ⟨r, hcur⟩ := current_total c hok hb (goodPos_of_brepr hr)
  refine ⟨r, hcur, ?_⟩
  intro e he
  have h1 := src_bc_current c hok r hcur
  have h2 : (toBC c).current = l.current := current_sim hb hr
  rw [h1, h2] at he
  exact hG e (Assembly.current_mem he)

end

/-! ### loading -/

/-- where the model loads a block, the emitted load sequence returns -/
theorem rt_genLoad_ok (cd : Codec) (file : Bytes) (rd : Src) (hrd : rd.bytes = file) (off : Nat)
    (ct : CompressionType) (b : Grenad.BlockCursor) (h : loadCursor cd file off = some b) :
    ∃ x, genLoad cd rd off ct = .ok x := by
  have hmodel := src_block_read_from cd
    ({ compression_type := ct, buffer := [], payload_size := 0, index_offsets := [] } : Gen.Block) file off
  cases hl : loadBlockLen cd file off with
  | none => simp [loadCursor, loadBlock, hl] at h
  | some p =>
    obtain ⟨blk, n⟩ := p
    rw [hl] at hmodel
    obtain ⟨b', hb', -⟩ := hmodel
    have hsrc : ({ bytes := rd.bytes, pos := off } : Src) = { bytes := file, pos := off } := by rw [hrd]
    refine ⟨(({ block := b', current_offset := none } : Gen.BlockCursor), ({ bytes := rd.bytes, pos := off } : Src)), ?_⟩
    unfold genLoad Gen.Block.new
    simp only [Src.seekStart, liftIo, pure, Except.pure, Except.bind, bind, hsrc, hb', Gen.Block.into_cursor,
      Gen.BlockCursor.new]

section
variable {cd : Codec} {file : Bytes} {iv : Nat} {log : List Emitted} {s : Store}

/-- **loading a block of the tree returns** a fresh cursor satisfying the invariant of its depth -/
theorem rt_load (hs : SmallBlocks cd file) (hB : ByteSim s (loadCursor cd file) (Rb iv log))
    {k off : Nat} (hp : RTPt s k off) (rd : Src) (hrd : rd.bytes = file) (ct : CompressionType) :
    RTOk (genLoad cd rd off ct) fun x => RTCur iv log (RTG s k) x.1 ∧ x.2.bytes = file := by
  obtain ⟨blk, hblk, hG⟩ := hp
  obtain ⟨b, hload, hrb⟩ := hB.load off blk hblk
  obtain ⟨⟨c, rd'⟩, hgen⟩ := rt_genLoad_ok cd file rd hrd off ct b hload
  obtain ⟨hmodel, hgood, -, hrd'⟩ :=
    src_load_cursor cd file (fun _ => True) hs (loadsQ_true cd file) rd hrd off ct c rd' hgen
  rw [hload] at hmodel
  simp only [Option.some.injEq] at hmodel
  subst hmodel
  exact ⟨_, hgen, ⟨hgood.1, LC.ofList blk, hrb, hG⟩, hrd'⟩

end

/-- the value of an index entry as the code reads it, on 8 bytes -/
theorem rt_beValueN8 (k ob : Bytes) (h : ob.length = 8) : beValueN 8 ob = .ok (offOf (k, ob)) := by
  unfold beValueN
  simp only [h, if_true, pure, Except.pure, beValue_eq_beVal]
  rfl

/-- the five closures passed by `IndexBlockCursor::move_on_*` / used by `ReaderCursor` are `genMove` -/
theorem rt_genMove_first : (fun c => Gen.BlockCursor.move_on_first c) = genMove .first := rfl
theorem rt_genMove_last : (fun c => Gen.BlockCursor.move_on_last c) = genMove .last := rfl
theorem rt_genMove_next : (fun c => Gen.BlockCursor.move_on_next c) = genMove .next := rfl
theorem rt_genMove_prev : (fun c => Gen.BlockCursor.move_on_prev c) = genMove .prev := rfl
theorem rt_genMove_ge (q : Bytes) :
    (fun c => Gen.BlockCursor.move_on_key_greater_than_or_equal_to c q) = genMove (.ge q) := rfl

end Grenad.SrcTie
