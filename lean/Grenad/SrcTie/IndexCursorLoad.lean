/-
  Grenad.SrcTie.IndexCursorLoad — first part of the translator tie for `IndexBlockCursor`
  (src/reader/reader_cursor.rs, regenerated into Generated/Src/SrcReaderCursor.lean on every run):

  * `genLoad` / `src_load_cursor`: the emitted sequence `seek(Start(off))?; Block::new(..).map(Block::into_cursor)?`
    is the model's `loadCursor cd file off`;
  * `Good Q c`: the invariant carried by every block cursor the index cursor holds (it only speaks about the
    block, so every in-block move preserves it);
  * `MovTie`: what it means for a translated closure `|c| c.move_on_X()` to be the model's `ops.apply m`,
    proved for the five closures passed by `IndexBlockCursor::move_on_*`.
-/
import Grenad.Generated.Src.SrcReaderCursor
import Grenad.SrcTie.BlockCursor
import Grenad.SrcTie.BlockLoad

set_option linter.unusedSimpArgs false
set_option linter.unusedVariables false

namespace Grenad.SrcTie
open Grenad Grenad.R Grenad.Gen

/-! ### hypotheses on the file -/

/-- Every block that can be read from `file` (at any offset) decompresses to fewer than `2^62` bytes.
    (The translated `Block::entry_at` adds lengths in checked `usize` arithmetic; with a buffer that fits in
    memory no addition overflows.)  It holds for every file when the codec never inflates to `2^62` bytes
    (`smallBlocks_of_codec`), and for every uncompressed file shorter than `2^62` bytes (`smallBlocks_none`). -/
def SmallBlocks (cd : Codec) (file : Bytes) : Prop :=
  ∀ off raw, cd.decompress ((file.drop (off + 8)).take (beVal ((file.drop off).take 8))) = some raw →
    raw.length < 2 ^ 62

theorem smallBlocks_of_codec (cd : Codec) (file : Bytes)
    (h : ∀ b raw, cd.decompress b = some raw → raw.length < 2 ^ 62) : SmallBlocks cd file :=
  fun _ raw hd => h _ raw hd

theorem smallBlocks_none (file : Bytes) (h : file.length < 2 ^ 62) : SmallBlocks Codec.none file := by
  intro off raw hd
  simp only [Codec.none, Option.some.injEq] at hd
  subst hd
  simp only [List.length_take, List.length_drop]
  omega

/-- Every block the model can load from `file` satisfies `Q`. -/
def LoadsQ (cd : Codec) (file : Bytes) (Q : Grenad.Block → Prop) : Prop :=
  ∀ off blk n, loadBlockLen cd file off = some (blk, n) → Q blk

theorem loadsQ_true (cd : Codec) (file : Bytes) : LoadsQ cd file (fun _ => True) := fun _ _ _ _ => trivial

/-- The two orderings under which the standard library's binary searches (`move_on_prev`,
    `move_on_key_*`) are the model's specification-level searches: what every writer-built block satisfies
    (`BinSearch.tableKeysAsc_of_blockOf`, `Proofs/BinSearchBlock.lean`). -/
def SortedBlock (b : Grenad.Block) : Prop :=
  b.offsets.Pairwise (· < ·) ∧ BinSearch.TableKeysAsc b

/-! ### the invariant on the cursors held -/

/-- `OKBlock` (sizes: `entry_at` cannot overflow) and a property `Q` of the model-level block. -/
def Good (Q : Grenad.Block → Prop) (c : Gen.BlockCursor) : Prop :=
  OKBlock c.block ∧ Q (toBlock c.block)

theorem Good.of_block {Q : Grenad.Block → Prop} {c c' : Gen.BlockCursor} (h : Good Q c)
    (hb : c'.block = c.block) : Good Q c' := by
  unfold Good at *
  rw [hb]
  exact h

/-! ### loading a block -/

/-- what `Block::read_from` leaves in `buffer`: the codec's output on the (at most) `block_len` bytes
    following the length prefix -/
theorem read_from_buffer (cd : Codec) (b0 b' : Gen.Block) (file : Bytes) (off : Nat)
    (h : Gen.Block.read_from (fun _ => cd.decompress) b0 { bytes := file, pos := off } = .ok b') :
    cd.decompress ((file.drop (off + 8)).take (beVal ((file.drop off).take 8))) = some b'.buffer := by
  unfold Gen.Block.read_from at h
  by_cases hh : off + 8 ≤ file.length
  · simp only [hh, if_true, Src.readBE, Src.readN, liftIo, bind, Except.bind, pure, Except.pure,
      beValue_eq_beVal, Src.readUpTo] at h
    generalize hlen : beVal ((file.drop off).take 8) = len at h ⊢
    generalize hbody : (file.drop (off + 8)).take len = body at h ⊢
    cases hdc : cd.decompress body with
    | none => simp [hdc, liftDecompress, throw, throwThe, MonadExceptOf.throw] at h
    | some raw =>
      simp only [hdc, liftDecompress, pure, Except.pure, List.nil_append] at h
      iterate 11 (split at h; · cases h)
      cases h; rfl
  · simp [hh, Src.readBE, Src.readN, liftIo, bind, Except.bind, throw, throwThe, MonadExceptOf.throw] at h

/-- `reader.seek(SeekFrom::Start(off))?; Block::new(&mut reader, ct).map(Block::into_cursor)?` exactly as the
    translator emits it at its three call sites (`initial_index_blocks`, `iter_index_blocks`, `recursive`):
    the new cursor and the reader afterwards. -/
def genLoad (cd : Codec) (rd : Src) (off : Nat) (ct : CompressionType) : M (Gen.BlockCursor × Src) :=
  Except.bind (liftIo (rd.seekStart off).fst) fun _ =>
    Except.bind (Gen.Block.new (fun _ => cd.decompress) (rd.seekStart off).snd ct) fun x =>
      Except.bind x.fst.into_cursor fun c => Except.pure (c, x.snd)

/-- **Loading.**  Whenever the emitted load sequence returns, it returns the model's `loadCursor`, the
    cursor is good and unpositioned, and the reader still reads the same file. -/
theorem src_load_cursor (cd : Codec) (file : Bytes) (Q : Grenad.Block → Prop)
    (hs : SmallBlocks cd file) (hq : LoadsQ cd file Q)
    (rd : Src) (hrd : rd.bytes = file) (off : Nat) (ct : CompressionType)
    (c : Gen.BlockCursor) (rd' : Src) (h : genLoad cd rd off ct = .ok (c, rd')) :
    loadCursor cd file off = some (toBC c) ∧ Good Q c ∧ c.current_offset = none ∧ rd'.bytes = file := by
  unfold genLoad at h
  simp only [Src.seekStart, liftIo, pure, Except.pure, Except.bind] at h
  obtain ⟨x, hnew, h⟩ := bind_ok h
  unfold Gen.Block.new at hnew
  simp only [bind, pure] at hnew
  obtain ⟨b', hread, hnew⟩ := bind_ok hnew
  simp only [Except.pure, Except.ok.injEq] at hnew
  subst hnew
  simp only [Gen.Block.into_cursor, Gen.BlockCursor.new, bind, pure, Except.bind, Except.pure,
    Except.ok.injEq, Prod.mk.injEq] at h
  obtain ⟨hc, hrd'⟩ := h
  subst hc hrd'
  have hsrc : ({ bytes := rd.bytes, pos := off } : Src) = { bytes := file, pos := off } := by rw [hrd]
  rw [hsrc] at hread
  have hbuf := read_from_buffer cd _ b' file off hread
  have hmodel := src_block_read_from cd
    ({ compression_type := ct, buffer := [], payload_size := 0, index_offsets := [] } : Gen.Block) file off
  cases hl : loadBlockLen cd file off with
  | none =>
    rw [hl] at hmodel
    obtain ⟨e, he⟩ := hmodel
    rw [he] at hread
    cases hread
  | some p =>
    obtain ⟨blk, n⟩ := p
    rw [hl] at hmodel
    obtain ⟨b'', hb'', hblk, hp, _⟩ := hmodel
    rw [hb''] at hread
    cases hread
    refine ⟨?_, ⟨⟨hp, hs off _ hbuf⟩, ?_⟩, rfl, hrd⟩
    · simp only [loadCursor, loadBlock, hl, Option.map_some, toBC, Grenad.BlockCursor.ofBlock, hblk]
    · rw [hblk]; exact hq off blk n hl

/-- **Load failures.**  Where the model has no block (short header, codec error, malformed footer) the
    emitted load sequence does not return. -/
theorem src_load_cursor_none (cd : Codec) (file : Bytes) (hs : SmallBlocks cd file)
    (rd : Src) (hrd : rd.bytes = file) (off : Nat) (ct : CompressionType)
    (hnone : loadCursor cd file off = none) : ∀ x, genLoad cd rd off ct ≠ .ok x := by
  intro x hx
  obtain ⟨c, rd'⟩ := x
  have := (src_load_cursor cd file (fun _ => True) hs (loadsQ_true cd file) rd hrd off ct c rd' hx).1
  rw [hnone] at this
  cases this

/-! ### the closures -/

/-- The translated closure `mov` is the model's in-block move `f` on every good cursor, and does not
    replace the block. -/
def MovTie (Q : Grenad.Block → Prop)
    (mov : Gen.BlockCursor → M (Option (Bytes × Bytes) × Gen.BlockCursor))
    (f : Grenad.BlockCursor → Grenad.BlockCursor × Option Entry) : Prop :=
  ∀ c r c', Good Q c → mov c = .ok (r, c') → (toBC c', r) = f (toBC c) ∧ c'.block = c.block

/-- The in-block operations exactly as the translated code computes them: `prev` and `ge` run the standard
    library's binary-search loop (`binSearchBy'`).  On strictly ascending tables they are `byteOps`
    (`srcOps_apply_eq`). -/
def srcOps : BlockOps Grenad.BlockCursor :=
  { byteOps with prev := BinSearch.prevBS binSearchBy', ge := geBS binSearchBy' }

theorem srcOps_current : srcOps.current = Grenad.BlockCursor.current := rfl
theorem byteOps_current : byteOps.current = Grenad.BlockCursor.current := rfl

theorem srcOps_apply_eq (m : Mov) (c : Grenad.BlockCursor) (h : SortedBlock c.block) :
    srcOps.apply m c = byteOps.apply m c := by
  cases m with
  | first => rfl
  | last => rfl
  | next => rfl
  | prev =>
    show BinSearch.prevBS binSearchBy' c = c.prev
    exact (BinSearch.prev_eq_prevBS c h.1).2.symm
  | ge q =>
    show geBS binSearchBy' c q = c.ge q
    exact (ge_eq_geBS c q h.2).symm

theorem movTie_first (Q : Grenad.Block → Prop) :
    MovTie Q (fun c => Gen.BlockCursor.move_on_first c) (byteOps.apply .first) :=
  fun c r c' hg h => src_bc_first c c' hg.1 r h

theorem movTie_last (Q : Grenad.Block → Prop) :
    MovTie Q (fun c => Gen.BlockCursor.move_on_last c) (byteOps.apply .last) :=
  fun c r c' hg h => src_bc_last c c' hg.1 r h

theorem movTie_next (Q : Grenad.Block → Prop) :
    MovTie Q (fun c => Gen.BlockCursor.move_on_next c) (byteOps.apply .next) :=
  fun c r c' hg h => src_bc_next c c' hg.1 r h

theorem movTie_prev (Q : Grenad.Block → Prop) (hQ : ∀ b, Q b → b.offsets.Pairwise (· < ·)) :
    MovTie Q (fun c => Gen.BlockCursor.move_on_prev c) (byteOps.apply .prev) :=
  fun c r c' hg h =>
    ⟨src_bc_prev_model c c' hg.1 r (hQ _ hg.2) h, (src_bc_prev c c' hg.1 r h).2⟩

theorem movTie_ge (Q : Grenad.Block → Prop) (hQ : ∀ b, Q b → BinSearch.TableKeysAsc b) (key : Bytes) :
    MovTie Q (fun c => Gen.BlockCursor.move_on_key_greater_than_or_equal_to c key) (byteOps.apply (.ge key)) :=
  fun c r c' hg h =>
    ⟨src_bc_ge_model c c' hg.1 key r (hQ _ hg.2) h, (src_bc_ge c c' hg.1 key r h).2⟩

/-- without any ordering hypothesis: against the binary-search form of the operations -/
theorem movTie_first_src (Q : Grenad.Block → Prop) :
    MovTie Q (fun c => Gen.BlockCursor.move_on_first c) (srcOps.apply .first) := movTie_first Q

theorem movTie_last_src (Q : Grenad.Block → Prop) :
    MovTie Q (fun c => Gen.BlockCursor.move_on_last c) (srcOps.apply .last) := movTie_last Q

theorem movTie_next_src (Q : Grenad.Block → Prop) :
    MovTie Q (fun c => Gen.BlockCursor.move_on_next c) (srcOps.apply .next) := movTie_next Q

theorem movTie_prev_src (Q : Grenad.Block → Prop) :
    MovTie Q (fun c => Gen.BlockCursor.move_on_prev c) (srcOps.apply .prev) :=
  fun c r c' hg h => src_bc_prev c c' hg.1 r h

theorem movTie_ge_src (Q : Grenad.Block → Prop) (key : Bytes) :
    MovTie Q (fun c => Gen.BlockCursor.move_on_key_greater_than_or_equal_to c key) (srcOps.apply (.ge key)) :=
  fun c r c' hg h => src_bc_ge c c' hg.1 key r h

/-! ### abstraction of the index cursor -/

/-- the levels held, as the model's -/
def absL (l : List (Nat × Gen.BlockCursor)) : List (Nat × Grenad.BlockCursor) :=
  l.map fun (o, c) => (o, toBC c)

/-- every cursor held is good -/
def GoodL (Q : Grenad.Block → Prop) (l : List (Nat × Gen.BlockCursor)) : Prop := ∀ p ∈ l, Good Q p.2

/-- the translated `IndexBlockCursor` as the model's `RC` (the data-block cursor `cur` and the load log are
    not part of `IndexBlockCursor`: they are carried along) -/
def toRC (s : Gen.IndexBlockCursor) (cur : Option Grenad.BlockCursor) (log : List Nat) :
    RC Grenad.BlockCursor :=
  { base := s.base_block_offset, levels := s.index_levels,
    inner := s.inner.map (·.map fun (o, c) => (o, toBC c)), cur := cur, log := log }

/-- all cursors of an `IndexBlockCursor` are good -/
def GoodIdx (Q : Grenad.Block → Prop) (s : Gen.IndexBlockCursor) : Prop :=
  ∀ l, s.inner = some l → GoodL Q l

theorem toRC_inner (s : Gen.IndexBlockCursor) (cur : Option Grenad.BlockCursor) (log : List Nat) :
    (toRC s cur log).inner = s.inner.map absL := rfl

theorem absL_nil : absL [] = [] := rfl
theorem absL_cons (o : Nat) (c : Gen.BlockCursor) (l : List (Nat × Gen.BlockCursor)) :
    absL ((o, c) :: l) = (o, toBC c) :: absL l := rfl
theorem absL_append (a b : List (Nat × Gen.BlockCursor)) : absL (a ++ b) = absL a ++ absL b := by
  simp [absL]
theorem absL_reverse (a : List (Nat × Gen.BlockCursor)) : absL a.reverse = (absL a).reverse := by
  simp [absL]
theorem absL_length (a : List (Nat × Gen.BlockCursor)) : (absL a).length = a.length := by
  simp [absL]

theorem GoodL.nil (Q : Grenad.Block → Prop) : GoodL Q [] := by intro p hp; cases hp
theorem GoodL.append {Q : Grenad.Block → Prop} {a b : List (Nat × Gen.BlockCursor)}
    (ha : GoodL Q a) (hb : GoodL Q b) : GoodL Q (a ++ b) := by
  intro p hp
  rcases List.mem_append.mp hp with h | h
  · exact ha p h
  · exact hb p h
theorem GoodL.cons {Q : Grenad.Block → Prop} {o : Nat} {c : Gen.BlockCursor}
    {l : List (Nat × Gen.BlockCursor)} (hc : Good Q c) (hl : GoodL Q l) : GoodL Q ((o, c) :: l) := by
  intro p hp
  rcases List.mem_cons.mp hp with h | h
  · subst h; exact hc
  · exact hl p h
theorem GoodL.head {Q : Grenad.Block → Prop} {p : Nat × Gen.BlockCursor}
    {l : List (Nat × Gen.BlockCursor)} (h : GoodL Q (p :: l)) : Good Q p.2 := h p (List.mem_cons_self)
theorem GoodL.tail {Q : Grenad.Block → Prop} {p : Nat × Gen.BlockCursor}
    {l : List (Nat × Gen.BlockCursor)} (h : GoodL Q (p :: l)) : GoodL Q l :=
  fun q hq => h q (List.mem_cons_of_mem _ hq)
theorem GoodL.left {Q : Grenad.Block → Prop} {a b : List (Nat × Gen.BlockCursor)}
    (h : GoodL Q (a ++ b)) : GoodL Q a := fun q hq => h q (List.mem_append_left _ hq)
theorem GoodL.right {Q : Grenad.Block → Prop} {a b : List (Nat × Gen.BlockCursor)}
    (h : GoodL Q (a ++ b)) : GoodL Q b := fun q hq => h q (List.mem_append_right _ hq)

/-- the value of an index entry as the code reads it (`try_into().map(u64::from_be_bytes).unwrap()`):
    it returns only on 8 bytes, and then it is the model's `offOf` -/
theorem beValueN8_ok (bs : Bytes) (v : Nat) (h : beValueN 8 bs = .ok v) (k : Bytes) : v = offOf (k, bs) := by
  unfold beValueN at h
  split at h
  · simp only [pure, Except.pure, Except.ok.injEq] at h
    rw [← h, beValue_eq_beVal]; rfl
  · cases h

end Grenad.SrcTie
