/-
  Grenad.SrcTie.WriterBuilder — translator tie for `WriterBuilder` (src/writer.rs): the defaults and the
  minimum-block-size clamp that C15 speaks about, regenerated from /repo/src on every run.
-/
import Grenad.Generated.Src.SrcWriterBuilder
import Grenad.Model.Writer

set_option linter.unusedSimpArgs false
set_option linter.unusedVariables false

namespace Grenad.SrcTie
open Grenad Grenad.R Grenad.Gen

/-- the block size a translated builder ends with is the model's `WCfg.clamped` of the requested size -/
theorem src_writer_builder_block_size (b : Gen.WriterBuilder) (size : Nat) (iv lv : Nat) :
    (WriterBuilder.block_size_fn b size).map (·.block_size)
      = .ok ({ blockSize := size, minBlock := 1024, interval := iv, levels := lv } : WCfg).clamped := by
  simp [WriterBuilder.block_size_fn, WCfg.clamped, MIN_BLOCK_SIZE, bind, Except.bind, pure, Except.pure, Except.map]

/-- C15's "values below 1024 are treated as 1024", on the translated code. -/
theorem src_C15_clamp (b : Gen.WriterBuilder) (size : Nat) :
    (WriterBuilder.block_size_fn b size).map (·.block_size) = .ok (if size < 1024 then 1024 else size) := by
  simp [WriterBuilder.block_size_fn, MIN_BLOCK_SIZE, bind, Except.bind, pure, Except.pure, Except.map]
  split <;> omega

/-- the builder's defaults are the model's: block size 8192 (already above the minimum), no compression,
    index depth 0, no explicit interval -/
theorem src_writer_builder_default :
    WriterBuilder.new = .ok { compression_type := .none, compression_level := 0, index_key_interval := none,
                              index_levels := 0, block_size := 8192 } := by
  simp [WriterBuilder.new, WriterBuilder.default, DEFAULT_BLOCK_SIZE, bind, Except.bind, pure, Except.pure]

/-- the other setters only set their field -/
theorem src_writer_builder_setters (b : Gen.WriterBuilder) (lv iv : Nat) :
    WriterBuilder.index_levels_fn b lv = .ok { b with index_levels := lv } ∧
    WriterBuilder.index_key_interval_fn b iv = .ok { b with index_key_interval := some iv } := by
  simp [WriterBuilder.index_levels_fn, WriterBuilder.index_key_interval_fn, bind, Except.bind, pure, Except.pure]

end Grenad.SrcTie
