/-
  Grenad.SrcTie.C13Src — C13 (and the trailer half of C09/C10) stated directly on the code regenerated
  from /repo/src/metadata.rs.
-/
import Grenad.Props.C13
import Grenad.SrcTie.Meta
import Grenad.Proofs.MetaProofs

set_option linter.unusedSimpArgs false
set_option linter.unusedVariables false

namespace Grenad.SrcTie
open Grenad Grenad.R Grenad.Gen

/-- The translated `Metadata::read_from` never panics, on any byte string. -/
theorem src_C13_never_panics (b : List UInt8) (p : Nat) (msg : String) :
    Metadata.read_from { bytes := b, pos := p } ≠ .error (.panic msg) := by
  intro h
  have := src_read_from b p
  rw [h] at this
  simp [resToModel, errToModel] at this

/-- The translated `Metadata::read_from` succeeds exactly on byte strings ending in a valid trailer. -/
theorem src_C13_open_iff (b : List UInt8) (p : Nat) :
    (∃ m, Metadata.read_from { bytes := b, pos := p } = .ok m) ↔ Props.C13.ValidTrailer b := by
  rw [← Props.C13.C13_open_iff]
  have h := src_read_from b p
  constructor
  · rintro ⟨m, hm⟩
    rw [hm] at h
    simp only [resToModel, Option.some.injEq] at h
    exact ⟨_, h.symm⟩
  · rintro ⟨m, hm⟩
    rw [hm] at h
    cases hr : Metadata.read_from { bytes := b, pos := p } with
    | ok m' => exact ⟨m', rfl⟩
    | error f =>
      rw [hr] at h
      cases f with
      | panic s => simp [resToModel, errToModel] at h
      | err e => cases e <;> simp [resToModel, errToModel] at h

/-- Trailer round trip on translated code: what `write_into` appends, `read_from` accepts and returns
    (format V2, any codec variant, fields within their widths). -/
theorem src_C09_trailer_roundtrip (m : Gen.Metadata) (pre : List UInt8) (p : Nat)
    (hv : m.file_version = .formatV2) (h1 : m.index_block_offset < 2 ^ 64) (h2 : m.entries_count < 2 ^ 64)
    (h3 : m.index_levels < 256) :
    ∃ n out, Metadata.write_into m pre = .ok (n, out) ∧ n = 22 ∧
      (Metadata.read_from { bytes := out, pos := p }).map toModelMeta = .ok (toModelMeta m) := by
  refine ⟨_, _, src_write_into m pre, ?_, ?_⟩
  · simp [Meta.encode, toModelMeta, hv, le64, le32, leN]
  · have h := src_read_from (pre ++ Meta.encode (toModelMeta m)) p
    have hc : (toModelMeta m).codec ≤ 5 := by
      simp only [toModelMeta]; cases m.compression_type <;> simp [CompressionType.toNat]
    have hm : toModelMeta m = { version := 2, root := m.index_block_offset, codec := m.compression_type.toNat,
                                count := m.entries_count, levels := m.index_levels } := by
      simp [toModelMeta, hv]
    have hp := MetaP.parse_encode_v2 pre m.index_block_offset m.compression_type.toNat m.entries_count m.index_levels
      h1 (by simpa [toModelMeta] using hc) h2 h3
    rw [← hm] at hp
    rw [hp] at h
    cases hr : Metadata.read_from { bytes := pre ++ Meta.encode (toModelMeta m), pos := p } with
    | ok m' =>
      rw [hr] at h
      simp only [resToModel, Option.some.injEq, Except.ok.injEq] at h
      simp [Except.map, h]
    | error f =>
      rw [hr] at h
      cases f with
      | panic s => simp [resToModel, errToModel] at h
      | err e => cases e <;> simp [resToModel, errToModel] at h

end Grenad.SrcTie
