/-
  Grenad.SrcTie.EndToEnd — the block level on regenerated code, total form: for every strictly ascending
  list of entries (lengths below 2^32, payload below 2^32 bytes) pushed through the TRANSLATED block writer
  and every sequence of moves of the TRANSLATED in-block cursor over the finished block, the run returns —
  no panic, no loop-fuel exhaustion — and its answers are the list cursor's over exactly those entries.
-/
import Grenad.SrcTie.BuiltSrc
import Grenad.SrcTie.NoPanic

set_option linter.unusedSimpArgs false
set_option linter.unusedVariables false

namespace Grenad.SrcTie
open Grenad Grenad.R Grenad.Gen

/-- a run of translated moves, collecting the answers -/
def genRun (ms : List Mov) (c : Gen.BlockCursor) (acc : List (Option (Bytes × Bytes))) :
    M (Gen.BlockCursor × List (Option (Bytes × Bytes))) :=
  ms.foldlM (fun (s : Gen.BlockCursor × List (Option (Bytes × Bytes))) m => do
    let (r, c1) ← genMove m s.1
    pure (c1, s.2 ++ [r])) (c, acc)

/-- the list cursor's answers to the same moves -/
def specRun (ms : List Mov) (l : LC) (acc : List (Option Entry)) : List (Option Entry) :=
  (ms.foldl (fun (s : LC × List (Option Entry)) m =>
    ((LC.ops.apply m s.1).1, s.2 ++ [(LC.ops.apply m s.1).2])) (l, acc)).2

theorem src_tblock_run_total {iv : Nat} {es : List Entry} : ∀ (ms : List Mov) (c : Gen.BlockCursor) (l : LC)
    (acc : List (Option (Bytes × Bytes))),
    OKBlock c.block → BlockOf iv es (toBlock c.block) → BRepr es (toBlock c.block) (toBC c) l →
    ∃ c', genRun ms c acc = .ok (c', specRun ms l acc) := by
  intro ms
  induction ms with
  | nil => intro c l acc _ _ _; exact ⟨c, rfl⟩
  | cons m ms ih =>
    intro c l acc hok hb hrep
    obtain ⟨c1, hm, hrep1, hblk⟩ := src_tblock_total c hok hb hrep m
    have hok1 : OKBlock c1.block := by rw [hblk]; exact hok
    have hb1 : BlockOf iv es (toBlock c1.block) := by rw [hblk]; exact hb
    obtain ⟨c', h'⟩ := ih c1 (LC.ops.apply m l).1 (acc ++ [(LC.ops.apply m l).2]) hok1 hb1 hrep1
    refine ⟨c', ?_⟩
    simp only [genRun, specRun, List.foldlM, List.foldl, bind, Except.bind, hm, pure, Except.pure] at h' ⊢
    exact h'

/-- **Block level, end to end, total, on regenerated code.** -/
theorem src_block_end_to_end_total {iv : Nat} (hiv : 1 ≤ iv) (hi : iv < 2 ^ 64) {es : List Entry}
    (hasc : StrictAsc es) (hl : ∀ e ∈ es, e.1.length < 2 ^ 32 ∧ e.2.length < 2 ^ 32)
    (hsz : (frames es).length < 2 ^ 32) (ct : Gen.CompressionType) :
    ∃ (w wf : Gen.BlockWriter) (b : Grenad.Block),
      genInsertAll (genNew iv) es = .ok w ∧ BlockWriter.finish w = .ok wf ∧
      Grenad.Block.parse wf.buffer = some b ∧
      ∀ (ms : List Mov), ∃ c',
        genRun ms { block := { compression_type := ct, buffer := wf.buffer, payload_size := b.payload.length,
                               index_offsets := b.offsets }, current_offset := none } []
          = .ok (c', specRun ms (LC.ofList es) []) := by
  obtain ⟨w, wf, b, h1, h2, h3, hbo, h5⟩ := src_block_end_to_end hiv hi hasc hl hsz ct
  refine ⟨w, wf, b, h1, h2, h3, ?_⟩
  intro ms
  simp only at h5
  obtain ⟨hgb, hok, _⟩ := h5
  exact src_tblock_run_total ms _ (LC.ofList es) [] hok (by rw [hgb]; exact hbo)
    (by
      have : toBC { block := { compression_type := ct, buffer := wf.buffer, payload_size := b.payload.length,
                               index_offsets := b.offsets }, current_offset := none } = BlockCursor.ofBlock b := by
        simp [toBC, BlockCursor.ofBlock, hgb]
      rw [hgb, this]; exact BRepr.ofBlock es b)

end Grenad.SrcTie
