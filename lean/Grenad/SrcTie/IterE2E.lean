/-
  Grenad.SrcTie.IterE2E — C04 / C05 with BOTH the iterator and the cursor regenerated from /repo/src.

  `src_C04_range` … (C04C05Src.lean) speak about the regenerated iterators over ANY cursor `mstep` that simulates the
  specification cursor.  Here the cursor is the regenerated `ReaderCursor` itself,

      ie_mstep cd s op := match genRcStep cd s op with | .ok (r, s') => (s', .ok r) | .error _ => (s, .err),

  and the simulation `Sim es (ie_mstep cd) ie_R` is obtained on every file of an `Assembly.Setting` from
    * total correctness of the regenerated cursor (`rt_rc_step`, ReaderTotal.lean): every call returns and keeps `RTState`;
    * the translator tie (`src_rc_step` through `e2e_gen_step`, ReaderE2EGen.lean): a returning call is the model's;
    * the model reader with `srcOps` simulates the specification cursor on `RS` (`e2e_RS_sim_src`, ReaderE2E.lean).
  The side condition of the backward prefix iterator (`LostCurrentOK`) is discharged as in `C05_bytes_side_condition`.
-/
import Grenad.SrcTie.C04C05Src
import Grenad.SrcTie.IterNew
import Grenad.SrcTie.ReaderTotal
import Grenad.SrcTie.ReaderTotalSmoke

set_option linter.unusedSimpArgs false
set_option linter.unusedVariables false

namespace Grenad.SrcTie
open Grenad Grenad.R Grenad.Gen Grenad.Assembly Grenad.TCursor Grenad.IterP

/-- the regenerated `ReaderCursor` as a model-style cursor: a call that does not return is reported as `Err` -/
def ie_mstep (cd : Codec) : Gen.ReaderCursor → Op → Gen.ReaderCursor × Res := fun s op =>
  match genRcStep cd s op with
  | .ok (r, s') => (s', .ok r)
  | .error _ => (s, .err)

theorem ie_mstep_ok {cd : Codec} {s s' : Gen.ReaderCursor} {op : Op} {r : Option (Bytes × Bytes)}
    (h : genRcStep cd s op = .ok (r, s')) : ie_mstep cd s op = (s', .ok r) := by
  simp only [ie_mstep, h]

/-- the simulation relation: the total-correctness invariant of the generated cursor, and its abstraction is related
    (by the relation `R0` of the model reader) to the specification position -/
def ie_R (file : Bytes) (iv : Nat) (log : List Emitted) (st : Store) (root levels : Nat)
    (R0 : RC Grenad.BlockCursor → Spec.Pos → Prop) (s : Gen.ReaderCursor) (p : Spec.Pos) : Prop :=
  RTState file iv log st root levels s ∧ E2EGenAt file R0 s p

/-- **The regenerated cursor simulates the specification cursor.** -/
theorem ie_sim {cd : Codec} {file : Bytes} {iv : Nat} {log : List Emitted} {st : Store} {root levels : Nat}
    {es : List Entry} {R0 : RC Grenad.BlockCursor → Spec.Pos → Prop}
    (hs : SmallBlocks cd file) (hB : ByteSim st (loadCursor cd file) (Rb iv log))
    (hlv : levels ≤ 255) (hroot : RTPt st (levels + 1) root) (hsim0 : Sim es (srcReader cd file) R0) :
    Sim es (ie_mstep cd) (ie_R file iv log st root levels R0) := by
  rintro s p op ⟨hst, hat⟩
  obtain ⟨⟨r, s'⟩, h, hst'⟩ := rt_rc_step hs hB hlv hroot s hst op
  obtain ⟨hat', hag, -⟩ := e2e_gen_step hs hsim0 hat op r h
  rw [ie_mstep_ok h]
  exact ⟨⟨hst', hat'⟩, hag⟩

section
variable {cd : Codec} {cfg : WCfg} {es : List Entry} {file : Bytes} {log : List Emitted} {m : Meta.Meta}

/-- Everything the four theorems need: on a file of a `Setting`, a relation on which the regenerated cursor simulates
    the specification cursor, holding at the freshly opened cursor, and the side condition of C05 backward. -/
theorem ie_setup (S : Setting cd cfg es file log) (hm : Meta.parse file = .ok m)
    (hs : SmallBlocks cd file) (s0 : Gen.ReaderCursor) (hg : GoodRC (fun _ => True) file s0)
    (h0 : toRCfull s0 [] = RC.new m) :
    ∃ R : Gen.ReaderCursor → Spec.Pos → Prop, Sim es (ie_mstep cd) R ∧ R s0 .fresh ∧
      ∀ p, LostCurrentOK (ie_mstep cd) s0 p := by
  obtain ⟨hst, hlv, hroot⟩ := rt_state_open S hm s0 hg h0
  obtain ⟨root, hok, hparse⟩ := S.fileOK
  rw [hm] at hparse
  cases hparse
  have hsim0 : Sim es (srcReader cd file) (RS (storeOf log) root cfg.levels es (Rb cfg.interval log)) :=
    e2e_RS_sim_src hok S.byteSim
  have hsim := ie_sim hs S.byteSim hlv hroot hsim0
  have hR : ie_R file cfg.interval log (storeOf log) root cfg.levels
      (RS (storeOf log) root cfg.levels es (Rb cfg.interval log)) s0 .fresh :=
    ⟨hst, hg, [], by rw [h0]; exact RS_new hok _ _ rfl rfl⟩
  refine ⟨_, hsim, hR, fun p => lostCurrentOK_of_mem hsim S.H.asc s0 .fresh hR p ?_⟩
  intro q c1 hle
  have h1 := (hsim s0 .fresh (.le q) hR).1
  rw [hle] at h1
  obtain ⟨hst1, hg1, lg, hR1⟩ := h1
  obtain ⟨⟨r, c2⟩, h, -⟩ := rt_rc_step hs S.byteSim hlv hroot c1 hst1 .current
  refine ⟨c2, r, ie_mstep_ok h, ?_⟩
  obtain ⟨-, -, lg', hstep⟩ :=
    src_rc_step cd file (fun _ => True) srcOps hs (loadsQ_true cd file) (e2e_idxTie_src cd file hs) (opsTie_src _)
      c1 c2 .current lg r hg1 h
  have e := e2e_RS_step_eq hok S.byteSim hR1 .current
  rw [hstep] at e
  have hr : Res.ok r = Res.ok ((toRCfull c1 lg).current byteOps) := congrArg Prod.snd e
  simp only [Res.ok.injEq] at hr
  intro e' he'
  exact RS_current_mem S.byteSim hR1 (by rw [← hr, he'])

/-! ### C04 / C05, iterator and cursor both regenerated -/

/-- **C04 forward, end to end on regenerated code.**  On a file the writer produced, over the regenerated
    `ReaderCursor` (from a cursor abstracting to the freshly opened one), the regenerated `RangeIter::new` returns an
    iterator, and calling the regenerated `RangeIter::next` until its first `None` returns — no panic, no `Err` —
    exactly the inserted entries within the bounds, in order. -/
theorem src_C04_range_e2e (S : Setting cd cfg es file log) (hm : Meta.parse file = .ok m)
    (hs : SmallBlocks cd file) (s0 : Gen.ReaderCursor) (hg : GoodRC (fun _ => True) file s0)
    (h0 : toRCfull s0 [] = RC.new m) (lo hi : Grenad.Bound) (fuel : Nat) (hfuel : fuel > es.length) :
    ∃ it, Gen.RangeIter.new s0 (toSrcBound lo, toSrcBound hi) = .ok it ∧
      collectM (Gen.RangeIter.next (gstep (ie_mstep cd))) fuel it [] = .ok (Spec.range es lo hi) := by
  obtain ⟨R, hsim, hR, -⟩ := ie_setup S hm hs s0 hg h0
  exact ⟨_, src_range_iter_new s0 lo hi,
    src_C04_range es S.H.asc (ie_mstep cd) R hsim s0 .fresh hR lo hi fuel hfuel⟩

/-- **C04 backward, end to end on regenerated code.** -/
theorem src_C04_range_rev_e2e (S : Setting cd cfg es file log) (hm : Meta.parse file = .ok m)
    (hs : SmallBlocks cd file) (s0 : Gen.ReaderCursor) (hg : GoodRC (fun _ => True) file s0)
    (h0 : toRCfull s0 [] = RC.new m) (lo hi : Grenad.Bound) (fuel : Nat) (hfuel : fuel > es.length) :
    ∃ it, Gen.RevRangeIter.new s0 (toSrcBound lo, toSrcBound hi) = .ok it ∧
      collectM (Gen.RevRangeIter.next (gstep (ie_mstep cd))) fuel it [] = .ok (Spec.range es lo hi).reverse := by
  obtain ⟨R, hsim, hR, -⟩ := ie_setup S hm hs s0 hg h0
  exact ⟨_, src_rev_range_iter_new s0 lo hi,
    src_C04_range_rev es S.H.asc (ie_mstep cd) R hsim s0 .fresh hR lo hi fuel hfuel⟩

/-- **C05 forward, end to end on regenerated code.** -/
theorem src_C05_prefix_e2e (S : Setting cd cfg es file log) (hm : Meta.parse file = .ok m)
    (hs : SmallBlocks cd file) (s0 : Gen.ReaderCursor) (hg : GoodRC (fun _ => True) file s0)
    (h0 : toRCfull s0 [] = RC.new m) (p : Bytes) (fuel : Nat) (hfuel : fuel > es.length) :
    ∃ it, Gen.PrefixIter.new s0 p = .ok it ∧
      collectM (Gen.PrefixIter.next (gstep (ie_mstep cd))) fuel it [] = .ok (Spec.withPrefix es p) := by
  obtain ⟨R, hsim, hR, -⟩ := ie_setup S hm hs s0 hg h0
  exact ⟨_, src_prefix_iter_new s0 p,
    src_C05_prefix es S.H.asc (ie_mstep cd) R hsim s0 .fresh hR p fuel hfuel⟩

/-- **C05 backward, end to end on regenerated code** — no side condition left: `LostCurrentOK` holds for the
    regenerated cursor on a written file (`ie_lostCurrentOK`). -/
theorem src_C05_prefix_rev_e2e (S : Setting cd cfg es file log) (hm : Meta.parse file = .ok m)
    (hs : SmallBlocks cd file) (s0 : Gen.ReaderCursor) (hg : GoodRC (fun _ => True) file s0)
    (h0 : toRCfull s0 [] = RC.new m) (p : Bytes) (fuel : Nat) (hfuel : fuel > es.length) :
    ∃ it, Gen.RevPrefixIter.new s0 p = .ok it ∧
      collectM (Gen.RevPrefixIter.next (gstep (ie_mstep cd))) fuel it [] = .ok (Spec.withPrefix es p).reverse := by
  obtain ⟨R, hsim, hR, hside⟩ := ie_setup S hm hs s0 hg h0
  exact ⟨_, src_rev_prefix_iter_new s0 p,
    src_C05_prefix_rev es S.H.asc (ie_mstep cd) R hsim s0 .fresh hR p (hside p) fuel hfuel⟩

/-- The side condition of the backward prefix iterator, for the regenerated cursor on a written file. -/
theorem ie_lostCurrentOK (S : Setting cd cfg es file log) (hm : Meta.parse file = .ok m)
    (hs : SmallBlocks cd file) (s0 : Gen.ReaderCursor) (hg : GoodRC (fun _ => True) file s0)
    (h0 : toRCfull s0 [] = RC.new m) (p : Bytes) : LostCurrentOK (ie_mstep cd) s0 p := by
  obtain ⟨R, hsim, hR, hside⟩ := ie_setup S hm hs s0 hg h0
  exact hside p

/-! ### from `Reader::new` + `into_cursor` -/

/-- opening a written file gives a cursor satisfying the hypotheses above -/
theorem ie_open (S : Setting cd cfg es file log) (pos : Nat) :
    ∃ rdr s0 m, Gen.Reader.new { bytes := file, pos := pos } = .ok rdr ∧ Gen.Reader.into_cursor rdr = .ok s0 ∧
      Meta.parse file = .ok m ∧ GoodRC (fun _ => True) file s0 ∧ toRCfull s0 [] = RC.new m := by
  obtain ⟨rdr, s0, hopen, hcur, -⟩ := e2e_open_ok S pos
  obtain ⟨hparse, -⟩ := e2e_reader_new file pos rdr hopen
  obtain ⟨hg, h0, -⟩ := e2e_open_cursor file pos _ hparse (e2e_setting_levels_le S hparse) rdr s0 hopen hcur
  exact ⟨rdr, s0, _, hopen, hcur, hparse, hg, h0⟩

/-- **C04 from `Reader::new`, both directions.**  `Reader::new(Cursor::new(file))`, `into_cursor()`,
    `RangeIter::new` / `RevRangeIter::new`, then `next` until `None` — all regenerated code — return the inserted
    entries within the bounds, ascending resp. descending. -/
theorem src_C04_range_open_e2e (S : Setting cd cfg es file log) (hs : SmallBlocks cd file) (pos : Nat)
    (lo hi : Grenad.Bound) (fuel : Nat) (hfuel : fuel > es.length) :
    ∃ rdr s0 it rit, Gen.Reader.new { bytes := file, pos := pos } = .ok rdr ∧ Gen.Reader.into_cursor rdr = .ok s0 ∧
      Gen.RangeIter.new s0 (toSrcBound lo, toSrcBound hi) = .ok it ∧
      collectM (Gen.RangeIter.next (gstep (ie_mstep cd))) fuel it [] = .ok (Spec.range es lo hi) ∧
      Gen.RevRangeIter.new s0 (toSrcBound lo, toSrcBound hi) = .ok rit ∧
      collectM (Gen.RevRangeIter.next (gstep (ie_mstep cd))) fuel rit [] = .ok (Spec.range es lo hi).reverse := by
  obtain ⟨rdr, s0, m, hopen, hcur, hm, hg, h0⟩ := ie_open S pos
  obtain ⟨it, h1, h2⟩ := src_C04_range_e2e S hm hs s0 hg h0 lo hi fuel hfuel
  obtain ⟨rit, h3, h4⟩ := src_C04_range_rev_e2e S hm hs s0 hg h0 lo hi fuel hfuel
  exact ⟨rdr, s0, it, rit, hopen, hcur, h1, h2, h3, h4⟩

/-- **C05 from `Reader::new`, both directions.** -/
theorem src_C05_prefix_open_e2e (S : Setting cd cfg es file log) (hs : SmallBlocks cd file) (pos : Nat)
    (p : Bytes) (fuel : Nat) (hfuel : fuel > es.length) :
    ∃ rdr s0 it rit, Gen.Reader.new { bytes := file, pos := pos } = .ok rdr ∧ Gen.Reader.into_cursor rdr = .ok s0 ∧
      Gen.PrefixIter.new s0 p = .ok it ∧
      collectM (Gen.PrefixIter.next (gstep (ie_mstep cd))) fuel it [] = .ok (Spec.withPrefix es p) ∧
      Gen.RevPrefixIter.new s0 p = .ok rit ∧
      collectM (Gen.RevPrefixIter.next (gstep (ie_mstep cd))) fuel rit [] = .ok (Spec.withPrefix es p).reverse := by
  obtain ⟨rdr, s0, m, hopen, hcur, hm, hg, h0⟩ := ie_open S pos
  obtain ⟨it, h1, h2⟩ := src_C05_prefix_e2e S hm hs s0 hg h0 p fuel hfuel
  obtain ⟨rit, h3, h4⟩ := src_C05_prefix_rev_e2e S hm hs s0 hg h0 p fuel hfuel
  exact ⟨rdr, s0, it, rit, hopen, hcur, h1, h2, h3, h4⟩

/-- `gstep (ie_mstep cd)` is the regenerated cursor: where a generated call returns `(r, s')`, the cursor handed to the
    iterator returns `r` and moves to `s'` (it returns on every state the iterators reach: `ie_sim`). -/
theorem ie_gstep_ok {s s' : Gen.ReaderCursor} {o : CurOp} {r : Option (Bytes × Bytes)}
    (h : genRcStep cd s (opOf o) = .ok (r, s')) : gstep (ie_mstep cd) s o = (s', resOf (.ok r)) := by
  simp only [gstep, ie_mstep_ok h]

end

/-! ### the hypotheses are satisfiable: `Props.C01.exFile` (twelve entries, two index levels) -/

section
open Grenad.Props.C01 Grenad.SrcTie.E2ESmoke

example (lo hi : Grenad.Bound) :
    ∃ rdr s0 it rit, Gen.Reader.new { bytes := exFile, pos := 0 } = .ok rdr ∧ Gen.Reader.into_cursor rdr = .ok s0 ∧
      Gen.RangeIter.new s0 (toSrcBound lo, toSrcBound hi) = .ok it ∧
      collectM (Gen.RangeIter.next (gstep (ie_mstep Codec.none))) 13 it [] = .ok (Spec.range exEs lo hi) ∧
      Gen.RevRangeIter.new s0 (toSrcBound lo, toSrcBound hi) = .ok rit ∧
      collectM (Gen.RevRangeIter.next (gstep (ie_mstep Codec.none))) 13 rit [] = .ok (Spec.range exEs lo hi).reverse :=
  src_C04_range_open_e2e exSetting small 0 lo hi 13 (by decide)

example (p : Bytes) :
    ∃ rdr s0 it rit, Gen.Reader.new { bytes := exFile, pos := 0 } = .ok rdr ∧ Gen.Reader.into_cursor rdr = .ok s0 ∧
      Gen.PrefixIter.new s0 p = .ok it ∧
      collectM (Gen.PrefixIter.next (gstep (ie_mstep Codec.none))) 13 it [] = .ok (Spec.withPrefix exEs p) ∧
      Gen.RevPrefixIter.new s0 p = .ok rit ∧
      collectM (Gen.RevPrefixIter.next (gstep (ie_mstep Codec.none))) 13 rit [] = .ok (Spec.withPrefix exEs p).reverse :=
  src_C05_prefix_open_e2e exSetting small 0 p 13 (by decide)

example (m : Meta.Meta) (hm : Meta.parse exFile = .ok m) (s0 : Gen.ReaderCursor)
    (hg : GoodRC (fun _ => True) exFile s0) (h0 : toRCfull s0 [] = RC.new m) :
    ∃ it, Gen.RevPrefixIter.new s0 [7] = .ok it ∧
      collectM (Gen.RevPrefixIter.next (gstep (ie_mstep Codec.none))) 13 it [] = .ok [([7, 0], []), ([7], [70, 71])] := by
  obtain ⟨it, h1, h2⟩ := src_C05_prefix_rev_e2e exSetting hm small s0 hg h0 [7] 13 (by decide)
  have hv : (Spec.withPrefix exEs [7]).reverse = [([7, 0], []), ([7], [70, 71])] := by decide
  exact ⟨it, h1, by rw [h2, hv]⟩

end

end Grenad.SrcTie

section Audit
open Grenad.SrcTie
#print axioms ie_sim
#print axioms ie_setup
#print axioms ie_lostCurrentOK
#print axioms src_C04_range_e2e
#print axioms src_C04_range_rev_e2e
#print axioms src_C05_prefix_e2e
#print axioms src_C05_prefix_rev_e2e
#print axioms src_C04_range_open_e2e
#print axioms src_C05_prefix_open_e2e
end Audit
