/-
  Grenad.SrcTie.C14Src — C14 stated directly on the code regenerated from /repo/src
  (corollaries of the translator tie and of the model-level theorems of Props/C14).
-/
import Grenad.Props.C14
import Grenad.SrcTie.Varint
import Grenad.SrcTie.Block
import Grenad.SrcTie.BlockWriter

set_option linter.unusedSimpArgs false
set_option linter.unusedVariables false

namespace Grenad.SrcTie
open Grenad Grenad.R Grenad.Gen

/-- C14 on the translated `varint_encode32` / `varint_decode32`: every length below 2^32 is written as
    1..5 bytes, and decoding those bytes (whatever follows them) returns the length and consumes exactly
    them. No panic on either side. -/
theorem src_C14_roundtrip (v : Nat) (hv : v < 2 ^ 32) (buf rest : List UInt8) (hb : 5 ≤ buf.length) (x : Nat) :
    ∃ enc buf', varint_encode32 buf v = .ok (enc, buf') ∧ 1 ≤ enc.length ∧ enc.length ≤ 5 ∧
      varint_decode32 (enc ++ rest) x = .ok (enc.length, v) := by
  obtain ⟨buf', he, _⟩ := src_varint_encode32_full buf v hb
  obtain ⟨hd, h1, h5⟩ := Props.C14.C14_roundtrip v hv rest
  refine ⟨_, _, he, h1, h5, ?_⟩
  rw [src_varint_decode32, hd]

/-- C14 end to end on translated code: an entry framed by the translated `BlockWriter::insert` is read
    back by the translated `Block::entry_at` with exactly its key and value, for all lengths < 2^32. -/
theorem src_C14_entry (w : Gen.BlockWriter) (k v post : Bytes) (offs : List Nat) (ct : Gen.CompressionType)
    (hk : k.length < 2 ^ 32) (hv : v.length < 2 ^ 32)
    (hc : w.index_key_counter ≤ w.index_key_interval) (hi : w.index_key_interval < 2 ^ 64)
    (hord : ∀ lk, w.last_key = some lk → lk < k) :
    ∃ w', BlockWriter.insert w k v = .ok w' ∧
      ∀ (hl : (w'.buffer ++ post).length < 2 ^ 62),
        Gen.Block.entry_at { compression_type := ct, buffer := w'.buffer ++ post, payload_size := (w'.buffer ++ post).length,
                             index_offsets := offs } w.buffer.length
          = .ok (some (k, v, w'.buffer.length)) := by
  have hins := src_bw_insert w [] k v hc hi
  obtain ⟨bw', hbw, hbuf⟩ := Props.C14.C14_writer_accepts (toBW w []) k v hk hv (by simpa [toBW] using hord)
  rw [hbw] at hins
  obtain ⟨w', hw', hto⟩ := hins
  refine ⟨w', hw', ?_⟩
  intro hl
  have hbuf' : w'.buffer = w.buffer ++ BW.frame k v := by
    have := congrArg BW.buffer hto
    simpa [toBW, hbuf] using this
  have hent := src_entry_at { compression_type := ct, buffer := w'.buffer ++ post, payload_size := (w'.buffer ++ post).length,
                              index_offsets := offs } w.buffer.length (by simp) (by simpa using hl)
  have hmod := Props.C14.C14_entry w.buffer post k v offs hk hv
  simp only [toBlock, List.take_length] at hent
  rw [hbuf'] at hent ⊢
  rw [hmod] at hent
  simpa [List.length_append] using hent

end Grenad.SrcTie
