/-
  Grenad.SrcTie.Merger — translator tie for the heap order of src/merger.rs (`impl Ord for Entry`),
  regenerated from /repo/src on every run: entries are ordered by (current key, source index), reversed for
  the max-heap, so that the entry that pops first is the one the model's `MSrc.before` selects.
-/
import Grenad.Generated.Src.SrcMerger
import Grenad.Model.Merger

set_option linter.unusedSimpArgs false
set_option linter.unusedVariables false

namespace Grenad.SrcTie
open Grenad Grenad.R Grenad.Gen

/-- a merge source as the translated code sees it: its cursor is the list of entries still to come,
    `current()` is the head -/
def srcStep : List Entry → CurOp → List Entry × CurRes
  | l, .current => (l, some l.head?)
  | l, _ => (l, some none)

def toEntry (s : MSrc) : Gen.Entry (List Entry) := { cursor := s.rest, source_index := s.idx }

/-- `Entry::cmp` on two live sources is the reversed lexicographic order on (key, source index) -/
theorem src_entry_cmp (a b : MSrc) (ha : a.rest ≠ []) (hb : b.rest ≠ []) :
    Gen.Entry.cmp srcStep (toEntry a) (toEntry b)
      = .ok (((cmpBytes a.key b.key).then (compare a.idx b.idx)).swap) := by
  obtain ⟨ia, ra⟩ := a
  obtain ⟨ib, rb⟩ := b
  cases ra with
  | nil => exact absurd rfl ha
  | cons ea ra' =>
    cases rb with
    | nil => exact absurd rfl hb
    | cons eb rb' =>
      simp [Gen.Entry.cmp, toEntry, srcStep, liftCur, bind, Except.bind, pure, Except.pure, MSrc.key, cmpOptBytes]

/-- the max-heap pops `a` before `b` (`cmp a b = Greater`) exactly when the model says `a.before b` -/
theorem src_entry_cmp_before (a b : MSrc) (ha : a.rest ≠ []) (hb : b.rest ≠ []) :
    Gen.Entry.cmp srcStep (toEntry a) (toEntry b) = .ok .gt ↔ a.before b = true := by
  rw [src_entry_cmp a b ha hb]
  unfold MSrc.before R.cmpBytes
  by_cases h1 : a.key < b.key
  · simp [h1, Ordering.then, Ordering.swap]
  · by_cases h2 : a.key = b.key
    · simp [h1, h2, Ordering.then, Ordering.swap, Nat.compare_eq_lt, List.lt_irrefl]
      constructor
      · intro h
        cases hc : compare a.idx b.idx <;> simp [hc] at h
        exact Nat.compare_eq_lt.mp hc
      · intro h
        simp [Nat.compare_eq_lt.mpr h]
    · simp [h1, h2, Ordering.then, Ordering.swap]

end Grenad.SrcTie
