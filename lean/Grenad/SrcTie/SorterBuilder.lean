/-
  Grenad.SrcTie.SorterBuilder — translator tie for the sorter's builder (src/sorter.rs), regenerated from /repo/src on
  every run: the clamps that define the budget and the chunk limit the C08 theorems speak about (`SCfg.budget`,
  `SCfg.maxNb`), the defaults, and the initial buffer size `build` asks for (`Sorter.new`).
-/
import Grenad.Generated.Src.SrcSorter
import Grenad.Model.Sorter

set_option linter.unusedSimpArgs false
set_option linter.unusedVariables false

namespace Grenad.SrcTie
open Grenad Grenad.R Grenad.Gen

/-- the model configuration a builder state stands for (`threshold` / `maxChunks` already clamped) -/
def sbCfg (b : Gen.SorterBuilder) : SCfg :=
  { threshold := b.dump_threshold, allowRealloc := b.allow_realloc, maxChunks := b.max_nb_chunks }

/-- the model's constants are the source's -/
theorem src_sorter_constants :
    (({ threshold := 0 } : SCfg).minMemory = Gen.MIN_SORTER_MEMORY) ∧ (({ threshold := 0 } : SCfg).initialSize = Gen.INITIAL_SORTER_VEC_SIZE)
      ∧ (({ threshold := 0 } : SCfg).maxChunks = Gen.DEFAULT_NB_CHUNKS) ∧ Gen.MIN_NB_CHUNKS = 1 := by decide

/-- `SorterBuilder::new`: 1 GiB budget, reallocation allowed, 25 chunks -/
theorem src_sorter_builder_new :
    Gen.SorterBuilder.new () = .ok { dump_threshold := Gen.DEFAULT_SORTER_MEMORY, allow_realloc := true, max_nb_chunks := Gen.DEFAULT_NB_CHUNKS } := rfl

/-- `dump_threshold(memory)` stores `max(memory, MIN_SORTER_MEMORY)` — the model's `SCfg.budget` of the requested value -/
theorem src_sorter_builder_dump_threshold (b : Gen.SorterBuilder) (memory : Nat) :
    ∃ b', Gen.SorterBuilder.dump_threshold_fn b memory = .ok b' ∧
      b'.dump_threshold = ({ sbCfg b with threshold := memory } : SCfg).budget ∧
      b'.allow_realloc = b.allow_realloc ∧ b'.max_nb_chunks = b.max_nb_chunks :=
  ⟨_, rfl, rfl, rfl, rfl⟩

/-- `max_nb_chunks(n)` stores `max(n, 1)` — the model's `SCfg.maxNb` -/
theorem src_sorter_builder_max_nb_chunks (b : Gen.SorterBuilder) (n : Nat) :
    ∃ b', Gen.SorterBuilder.max_nb_chunks_fn b n = .ok b' ∧
      b'.max_nb_chunks = ({ sbCfg b with maxChunks := n } : SCfg).maxNb ∧
      b'.allow_realloc = b.allow_realloc ∧ b'.dump_threshold = b.dump_threshold :=
  ⟨_, rfl, rfl, rfl, rfl⟩

theorem src_sorter_builder_allow_realloc (b : Gen.SorterBuilder) (a : Bool) :
    Gen.SorterBuilder.allow_realloc_fn b a = .ok { b with allow_realloc := a } := rfl

/-- **`build`** asks `Entries::with_capacity` for 128 KiB when reallocation is allowed and for the whole budget
    otherwise (the model's `Sorter.new`), starts with no chunk, and copies budget, `allow_realloc` and `max_nb_chunks`
    — the three numbers `Sorter::insert` decides with (`src_sorter_insert`). -/
theorem src_sorter_builder_build (extCap : Nat → M Gen.Entries) (b : Gen.SorterBuilder) (e : Gen.Entries)
    (h : extCap (if b.allow_realloc then ({ threshold := 0 } : SCfg).initialSize else b.dump_threshold) = .ok e) :
    Gen.SorterBuilder.build extCap b =
      .ok { chunks := [], entries := e, chunks_total_size := 0, allow_realloc := b.allow_realloc,
            dump_threshold := b.dump_threshold, max_nb_chunks := b.max_nb_chunks } := by
  have hi : ({ threshold := 0 } : SCfg).initialSize = Gen.INITIAL_SORTER_VEC_SIZE := rfl
  rw [hi] at h
  cases ha : b.allow_realloc <;> simp [Gen.SorterBuilder.build, ha, bind, Except.bind, pure, Except.pure] at h ⊢ <;> simp [h]

/-- the capacity `build` requests is the one the model's `Sorter.new` allocates, for the clamped configuration -/
theorem src_sorter_builder_capacity (b : Gen.SorterBuilder) (hb : Gen.MIN_SORTER_MEMORY ≤ b.dump_threshold) :
    (if b.allow_realloc then ({ threshold := 0 } : SCfg).initialSize else b.dump_threshold)
      = (if (sbCfg b).allowRealloc then (sbCfg b).initialSize else (sbCfg b).budget) := by
  have : (sbCfg b).budget = b.dump_threshold := by
    simp only [SCfg.budget, sbCfg]
    have : (10485760 : Nat) ≤ b.dump_threshold := hb
    omega
  cases ha : b.allow_realloc
  · simp only [sbCfg, ha] at this ⊢; simp [this]
  · simp [sbCfg, ha]

end Grenad.SrcTie
