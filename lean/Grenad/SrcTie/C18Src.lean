/-
  Grenad.SrcTie.C18Src — the order assertion of C18 stated on the code regenerated from
  /repo/src/block_writer.rs.
-/
import Grenad.SrcTie.BlockWriter

set_option linter.unusedSimpArgs false
set_option linter.unusedVariables false

namespace Grenad.SrcTie
open Grenad Grenad.R Grenad.Gen

/-- A key that is not strictly greater than the last key of the block under construction makes the
    translated `BlockWriter::insert` panic — it is never stored next to its predecessor. -/
theorem src_C18_out_of_order_panics (w : Gen.BlockWriter) (k v lk : Bytes)
    (hc : w.index_key_counter ≤ w.index_key_interval) (hi : w.index_key_interval < 2 ^ 64)
    (hlk : w.last_key = some lk) (hn : ¬ lk < k) :
    ∃ msg, BlockWriter.insert w k v = .error (.panic msg) := by
  have h := src_bw_insert w [] k v hc hi
  have hm : ∃ t, BW.insert (toBW w []) k v = .error t := by
    unfold BW.insert
    simp only [toBW, hlk]
    split
    · exact ⟨_, rfl⟩
    · split
      · exact ⟨_, rfl⟩
      · simp [hn]
  obtain ⟨t, ht⟩ := hm
  rw [ht] at h
  exact h

/-- When the translated insert succeeds the new last key is the inserted key, and it was strictly above
    the previous one. -/
theorem src_C18_accepted_is_ascending (w w' : Gen.BlockWriter) (k v : Bytes)
    (hc : w.index_key_counter ≤ w.index_key_interval) (hi : w.index_key_interval < 2 ^ 64)
    (hok : BlockWriter.insert w k v = .ok w') :
    w'.last_key = some k ∧ ∀ lk, w.last_key = some lk → lk < k := by
  have h := src_bw_insert w [] k v hc hi
  cases hm : BW.insert (toBW w []) k v with
  | error t =>
    rw [hm] at h
    obtain ⟨msg, hmsg⟩ := h
    rw [hok] at hmsg
    cases hmsg
  | ok bw' =>
    rw [hm] at h
    obtain ⟨w'', hw'', hto⟩ := h
    rw [hok] at hw''
    cases hw''
    unfold BW.insert at hm
    simp only [toBW] at hm
    split at hm
    · cases hm
    · split at hm
      · cases hm
      · cases hlk : w.last_key with
        | none =>
          simp only [hlk] at hm
          cases hm
          have := congrArg BW.lastKey hto
          simp [toBW] at this
          exact ⟨this, by intro lk h; cases h⟩
        | some lk =>
          simp only [hlk] at hm
          by_cases hlt : lk < k
          · simp only [hlt, if_true] at hm
            cases hm
            have := congrArg BW.lastKey hto
            simp [toBW] at this
            exact ⟨this, by intro lk' h; cases h; exact hlt⟩
          · simp [hlt] at hm

end Grenad.SrcTie
