/-
  Grenad.SrcTie.MergerIterStep — translator tie for the k-way merger of src/merger.rs, part 3:
  `Merger::into_stream_merger_iter` against `Merger.start` (`src_merger_start`) and one call of
  `MergerIter::next` against `Merger.next` (`src_merger_next`), over list cursors (`LCur`, `lstep`).
-/
import Grenad.SrcTie.MergerIterNext

set_option linter.unusedSimpArgs false
set_option linter.unusedVariables false

namespace Grenad.SrcTie
open Grenad Grenad.R Grenad.Gen Grenad.Wave3

/-- the bytes a `Cow` carries -/
def cowBytes : Cow → List UInt8
  | .owned b => b
  | .borrowed b => b

/-- One call of the translated `MergerIter::next` against one `Merger.next` of the model (both outcomes
    of the model in one statement). -/
theorem next_sim (mf : MergeFn) (merge : List UInt8 → List (List UInt8) → Except Unit Cow)
    (hm : ∀ k vs, (merge k vs).toOption.map cowBytes = mf k vs)
    (it : Gen.MergerIter LCur) (m : Merger)
    (hl : AllLive it.heap) (hp : (it.heap.map absE).Perm m.heap) (hne : KeyIdxNe m.heap) :
    match Merger.next mf m with
    | (m', .ok r) => ∃ it', Gen.MergerIter.next lstep merge it = .ok (r, it') ∧ AllLive it'.heap ∧
        (it'.heap.map absE).Perm m'.heap ∧ (r = none → it' = it) ∧
        (∀ k v, r = some (k, v) → it'.current_key = k ∧ it'.merged_value = v ∧ it'.tmp_entries = [])
    | (m', .mergeErr) => Gen.MergerIter.next lstep merge it = .error (Fail.err RErr.merge) := by
  rcases pop_sim it.heap m.heap hp hne with ⟨e1, e2, e3⟩ | ⟨i, e, h1, e1, e2, hperm, hp1, hne1⟩
  · simp only [Merger.next, e2]
    refine ⟨it, ?_, hl, hp, fun _ => rfl, fun k v h => by cases h⟩
    unfold Gen.MergerIter.next
    simp only [heapPopM_live _ hl, e1, bind, Except.bind, pure, Except.pure]
  · have hle : Live e := hl e (hperm.symm.subset List.mem_cons_self)
    have hl1 : AllLive (it.heap.eraseIdx i) := hl.sublist (List.eraseIdx_sublist _ _)
    have hlen : (it.heap.eraseIdx i).length = h1.length := by
      have := hp1.length_eq; simpa using this
    obtain ⟨T, H2, g1, g2, g3, g4, g5⟩ := peekRun_sim (absE e).key (h1.length + 1)
      { it with heap := it.heap.eraseIdx i, tmp_entries := [] } h1 [] hl1 hp1 hne1 (by simp only; omega)
    simp only [Merger.next, e2]
    cases hps : popSame (absE e).key (h1.length + 1) h1 [] with
    | mk S h2 =>
      rw [hps] at g2 g3
      simp only [List.reverse_nil, List.nil_append] at g2 g3
      subst g2
      simp only
      unfold Gen.MergerIter.next
      simp only [heapPopM_live _ hl, e1, bind, Except.bind, pure, Except.pure, lstep_current_live hle, liftCur]
      rw [peek_loop (absE e).key _ ?hf _ _ hl1]
      case hf =>
        intro x st hst
        simp only [heapPeekM_live _ hst, heapPopM_live _ hst, peekStep]
        cases hpe : popE st.fst.heap with
        | none => rfl
        | some p =>
          obtain ⟨i', e'⟩ := p
          have hle' : Live e' := hst e' (popE_mem hpe)
          simp only [Option.map_some, lstep_current_live hle', beq_iff_eq]
          split <;> rfl
      simp only [List.length_range', hlen, g1, Bool.not_true, Bool.false_eq_true, if_false, List.nil_append]
      rw [filterMapM_live _ ?hg T g4]
      case hg =>
        intro x hx
        simp only [lstep_current_live hx]
        rfl
      have hvals : [(absE e).val] ++ List.map (fun e => (absE e).val) T =
          (absE e).val :: List.map MSrc.val (List.map absE T) := by
        simp [List.map_map, Function.comp_def]
      simp only [hvals]
      have hmk := hm (absE e).key ((absE e).val :: List.map MSrc.val (List.map absE T))
      generalize (absE e).val :: List.map MSrc.val (List.map absE T) = vs at hmk ⊢
      have hfresh : ∀ x ∈ [e] ++ T, x.cursor.fresh = false := by
        intro x hx
        rcases List.mem_append.mp hx with hx | hx
        · rw [List.mem_singleton.mp hx]; exact hle.1
        · exact (g4 x hx).1
      cases hmr : merge (absE e).key vs with
      | error u =>
        rw [hmr] at hmk
        simp only [Except.toOption, Option.map_none] at hmk
        rw [← hmk]
        rfl
      | ok cow =>
        rw [hmr] at hmk
        simp only [Except.toOption, Option.map_some] at hmk
        rw [← hmk]
        cases cow with
        | owned b | borrowed b =>
          simp only []
          rw [adv_loop _ ?hf _ _ hfresh, foldl_advPush]
          case hf =>
            intro x st hx
            obtain ⟨⟨f, r⟩, idx⟩ := x
            simp only at hx
            subst hx
            match r with
            | [] => rfl
            | [_] => rfl
            | _ :: _ :: _ => rfl
          refine ⟨_, rfl, AllLive.append.mpr ⟨g5, filterMap_advE_live _⟩, ?_, (fun h => by cases h), ?_⟩
          · simp only [List.map_append, filterMap_advE_abs, List.singleton_append, List.map_cons]
            refine List.Perm.trans ?_ (foldl_advance_perm _ h2).symm
            exact List.perm_append_comm.trans (g3.append_left _)
          · intro k v h
            simp only [Option.some.injEq, Prod.mk.injEq] at h
            obtain ⟨rfl, rfl⟩ := h
            exact ⟨rfl, rfl, rfl⟩

/-- **src_merger_next.**  `merge` is the user's merge function as the translated code calls it, `mf` the
    same function as the model calls it.  The translated iterator `it` (any `current_key`,
    `merged_value`, `tmp_entries`) holds live entries whose abstraction is the model heap in some order;
    the model heap has pairwise distinct `(key, idx)` pairs.  Then:
    * when the model returns `.ok r`, the translated code returns `Ok(r)` — never a panic, in particular
      the fuel `heap.len() + 1` of the `while let` loop suffices — and the new iterator again holds live
      entries abstracting to the new model heap in some order; `r = None` leaves the iterator
      untouched, `r = Some((k, v))` leaves `k`, `v` in `current_key`, `merged_value` and an empty
      `tmp_entries`; pairwise distinct source indices (the inductive form of the invariant, which
      implies distinct `(key, idx)` pairs) are preserved;
    * when the model returns `.mergeErr`, the translated code returns `Err(Error::Merge(_))`. -/
theorem src_merger_next (mf : MergeFn) (merge : List UInt8 → List (List UInt8) → Except Unit Cow)
    (hm : ∀ k vs, (merge k vs).toOption.map cowBytes = mf k vs)
    (it : Gen.MergerIter LCur) (m : Merger)
    (hl : AllLive it.heap) (hp : (it.heap.map absE).Perm m.heap)
    (hne : m.heap.Pairwise (fun a b => (a.key, a.idx) ≠ (b.key, b.idx))) :
    (∀ m' r, Merger.next mf m = (m', .ok r) →
      ∃ it', Gen.MergerIter.next lstep merge it = .ok (r, it') ∧
        AllLive it'.heap ∧ (it'.heap.map absE).Perm m'.heap ∧
        (IdxNe m.heap → IdxNe m'.heap) ∧
        (r = none → it' = it) ∧
        (∀ k v, r = some (k, v) →
          it'.current_key = k ∧ it'.merged_value = v ∧ it'.tmp_entries = [])) ∧
    (∀ m', Merger.next mf m = (m', .mergeErr) →
      Gen.MergerIter.next lstep merge it = .error (Fail.err RErr.merge)) := by
  have h := next_sim mf merge hm it m hl hp ((keyIdxNe_iff _).mpr hne)
  constructor
  · intro m' r hn
    rw [hn] at h
    obtain ⟨it', h1, h2, h3, h4, h5⟩ := h
    refine ⟨it', h1, h2, h3, ?_, h4, h5⟩
    intro hi
    have := next_idxNe mf m hi
    rw [hn] at this
    exact this
  · intro m' hn
    rw [hn] at h
    exact h

/-- The model's `(key, idx)`-distinctness follows from distinct source indices, which every run keeps
    (`next_idxNe`, `start_idxNe`); by itself it is not inductive: two heads with the same index and
    different keys may meet on a common later key. -/
example : ∃ m : Merger, KeyIdxNe m.heap ∧
    ¬ KeyIdxNe (Merger.next (fun _ vs => some vs.flatten)
      (Merger.next (fun _ vs => some vs.flatten) m).1).1.heap := by
  refine ⟨⟨[⟨0, [([1], []), ([3], [])]⟩, ⟨0, [([2], []), ([3], [])]⟩], []⟩, ?_, ?_⟩
  · unfold KeyIdxNe; decide
  · unfold KeyIdxNe; decide

/-! ### `Merger::into_stream_merger_iter` -/

/-- a model heap entry as an entry of the translated heap (un-fresh cursor on the head of `rest`) -/
def toE (s : MSrc) : Gen.Entry LCur :=
  { cursor := { fresh := false, rest := s.rest }, source_index := s.idx }

theorem absE_toE (s : MSrc) : absE (toE s) = s := rfl

theorem start_loop
    (f : LCur × Nat → List (Gen.Entry LCur) → M (ForInStep (List (Gen.Entry LCur))))
    (hf : ∀ (l : List Entry) (i : Nat) (heap : List (Gen.Entry LCur)),
      f ({ fresh := true, rest := l }, i) heap = .ok (.yield (match l with
        | [] => heap
        | _ :: _ => heap ++ [toE { idx := i, rest := l }]))) :
    ∀ (srcs : List (List Entry)) (n : Nat) (heap : List (Gen.Entry LCur)),
      forIn ((srcs.map (fun l => ({ fresh := true, rest := l } : LCur))).zipIdx n) heap f =
        .ok (heap ++ (Merger.start.go n srcs).map toE) := by
  intro srcs
  induction srcs with
  | nil => intro n heap; simp [Merger.start.go]; rfl
  | cons s srcs ih =>
    intro n heap
    simp only [List.map_cons, List.zipIdx_cons, List.forIn_cons, hf, bind, Except.bind]
    rw [ih]
    cases s with
    | nil => simp
    | cons e r => simp

theorem start_go_live (srcs : List (List Entry)) (n : Nat) :
    AllLive ((Merger.start.go n srcs).map toE) := by
  intro e he
  obtain ⟨s, hs, rfl⟩ := List.mem_map.mp he
  obtain ⟨x, r, h1, _⟩ := mem_tag hs
  exact ⟨rfl, by simp [toE, h1]⟩

/-- **src_merger_start.**  `into_stream_merger_iter` over fresh list cursors: the heap holds, in the
    order of `Merger.start`, exactly the entries of the model's initial heap (empty sources dropped,
    every cursor moved onto its first entry), and the three buffers are empty. -/
theorem src_merger_start (srcs : List (List Entry)) :
    ∃ it, Gen.Merger.into_stream_merger_iter lstep
        { sources := srcs.map (fun l => ({ fresh := true, rest := l } : LCur)) } = .ok it ∧
      it.heap.map absE = (Merger.start srcs).heap ∧
      it.current_key = [] ∧ it.merged_value = [] ∧ it.tmp_entries = [] ∧ AllLive it.heap := by
  unfold Gen.Merger.into_stream_merger_iter
  simp only [bind, Except.bind, pure, Except.pure]
  rw [start_loop _ ?hf]
  case hf =>
    intro l i heap
    cases l with
    | nil => rfl
    | cons e r => rfl
  refine ⟨_, rfl, ?_, rfl, rfl, rfl, ?_⟩
  · simp only [List.nil_append, List.map_map]
    rw [start_heap]
    exact (List.map_congr_left (fun s _ => absE_toE s)).trans (List.map_id _)
  · simp only [List.nil_append]
    exact start_go_live srcs 0

end Grenad.SrcTie
