/-
  Grenad.SrcTie.Block — translator tie for `Block::payload` / `Block::entry_at` of src/block.rs,
  regenerated from /repo/src on every run.
-/
import Grenad.Generated.Src.SrcBlock
import Grenad.Model.Block
import Grenad.SrcTie.Varint

set_option linter.unusedSimpArgs false
set_option linter.unusedVariables false

namespace Grenad.SrcTie
open Grenad Grenad.R Grenad.Gen

/-- the translated block as the model's (payload, offset table) pair -/
def toBlock (b : Gen.Block) : Grenad.Block :=
  { payload := b.buffer.take b.payload_size, offsets := b.index_offsets }

theorem src_block_payload (b : Gen.Block) (hp : b.payload_size ≤ b.buffer.length) :
    Gen.Block.payload b = .ok (toBlock b).payload := by
  simp [Gen.Block.payload, sliceTo, hp, toBlock, bind, Except.bind, pure, Except.pure]

theorem decode32_bound (d : Bytes) (v n : Nat) (h : Varint.decode32 d = some (v, n)) : n ≤ 5 ∧ n ≤ d.length := by
  unfold Varint.decode32 at h
  cases d with
  | nil => simp at h
  | cons d0 t =>
    simp only [Option.some.injEq, Prod.mk.injEq] at h
    have := lengthPacked_le (List.take 5 (d0 :: t))
    simp only [List.length_take] at this
    omega

theorem decode32_lt (d : Bytes) (v n : Nat) (h : Varint.decode32 d = some (v, n)) : v < 2 ^ 33 := by
  unfold Varint.decode32 at h
  cases d with
  | nil => simp at h
  | cons d0 t =>
    simp only [Option.some.injEq, Prod.mk.injEq] at h
    obtain ⟨hv, _⟩ := h
    have b1 := UInt8.toNat_lt ((d0 :: t).getD 1 0)
    have b2 := UInt8.toNat_lt ((d0 :: t).getD 2 0)
    have b3 := UInt8.toNat_lt ((d0 :: t).getD 3 0)
    have b4 := UInt8.toNat_lt ((d0 :: t).getD 4 0)
    have b0 := UInt8.toNat_lt d0
    rw [← hv]
    split <;> split <;> split <;> split <;> omega

theorem sliceRange_eq (P : Bytes) (o n : Nat) :
    sliceRange P o (o + n) = (if o + n ≤ P.length then .ok ((P.drop o).take n) else .error (.panic "range end index out of range")) := by
  have : o ≤ o + n := by omega
  simp only [sliceRange, this, if_true]
  split
  · simp [pure, Except.pure, List.drop_take]
  · rfl

/-- `Block::entry_at` is the model's `Block.entryAt`: same entry and next offset whenever the model
    decodes one (always the case on blocks produced by a writer, `T-block`), `None` past the end, and a
    (clean, bounds-checked) panic at worst where the model has no answer. -/
theorem src_entry_at (b : Gen.Block) (start : Nat) (hp : b.payload_size ≤ b.buffer.length)
    (hl : b.buffer.length < 2 ^ 62) :
    match Grenad.Block.entryAt (toBlock b) start with
    | some r => Gen.Block.entry_at b start = .ok (some r)
    | none => Gen.Block.entry_at b start = .ok none ∨ ∃ msg, Gen.Block.entry_at b start = .error (.panic msg) := by
  unfold Gen.Block.entry_at Grenad.Block.entryAt
  simp only [bind, Except.bind, src_block_payload b hp]
  generalize hP : (toBlock b).payload = P
  have hPl : P.length < 2 ^ 62 := by
    rw [← hP]; simp [toBlock]; omega
  by_cases hs : P.length ≤ start
  · simp [hs, pure, Except.pure]
  · have hs' : ¬ start ≥ P.length := by omega
    simp only [hs, hs', decide_false, if_false, Bool.false_eq_true]
    have hsf : sliceFrom P start = .ok (P.drop start) := by
      simp [sliceFrom, pure, Except.pure]; omega
    simp only [hsf, src_varint_decode32]
    cases hd1 : Varint.decode32 (P.drop start) with
    | none => simp
    | some r1 =>
      obtain ⟨klen, n1⟩ := r1
      have hb1 := decode32_bound _ _ _ hd1
      simp only [List.length_drop] at hb1
      have hadd1 : add 64 start n1 = .ok (start + n1) := by
        have : start + n1 < 2 ^ 64 := by omega
        simp [add, this, pure, Except.pure]
      have hsf2 : sliceFrom P (start + n1) = .ok (P.drop (start + n1)) := by
        simp [sliceFrom, pure, Except.pure]; omega
      simp only [pure, Except.pure, hadd1, hsf2, src_varint_decode32]
      cases hd2 : Varint.decode32 (P.drop (start + n1)) with
      | none => simp
      | some r2 =>
        obtain ⟨vlen, n2⟩ := r2
        have hb2 := decode32_bound _ _ _ hd2
        simp only [List.length_drop] at hb2
        have hk := decode32_lt _ _ _ hd1
        have hv := decode32_lt _ _ _ hd2
        have ha : ∀ x y, x < 2 ^ 63 → y < 2 ^ 63 → add 64 x y = .ok (x + y) := by
          intro x y hx hy
          have : x + y < 2 ^ 64 := by omega
          simp [add, this, pure, Except.pure]
        simp only [ha (start + n1) n2 (by omega) (by omega), ha (start + n1 + n2) klen (by omega) (by omega), sliceRange_eq,
          ha (start + n1 + n2 + klen) vlen (by omega) (by omega), slice?]
        by_cases h1 : start + n1 + n2 + klen ≤ P.length
        · by_cases h2 : start + n1 + n2 + klen + vlen ≤ P.length
          · simp [h1, h2]
          · simp [h1, h2]
        · simp [h1]

end Grenad.SrcTie
