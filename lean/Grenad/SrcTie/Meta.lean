/-
  Grenad.SrcTie.Meta — translator tie for src/metadata.rs (`Metadata::read_from`, `write_into`) and
  `CompressionType::from_u8`, regenerated from /repo/src on every run.
-/
import Grenad.Generated.Src.SrcMeta
import Grenad.Model.Meta
import Grenad.SrcTie.Bits

set_option linter.unusedSimpArgs false
set_option linter.unusedVariables false

namespace Grenad.SrcTie
open Grenad Grenad.R Grenad.Gen

theorem leBytes_eq_leN : ∀ n v, leBytes n v = leN n v
  | 0, _ => rfl
  | n + 1, v => by simp [leBytes, leN, leBytes_eq_leN n]

theorem leValue_eq_leVal : ∀ bs, leValue bs = leVal bs
  | [] => rfl
  | b :: bs => by simp [leValue, leVal, leValue_eq_leVal bs]

/-- `CompressionType::from_u8` accepts exactly the ids 0..5 and maps each to the variant with that id. -/
theorem src_from_u8 (v : Nat) :
    (CompressionType.from_u8 v).map (Option.map CompressionType.toNat) = .ok (if v ≤ 5 then some v else none) := by
  unfold CompressionType.from_u8
  split <;> simp [pure, Except.pure, Except.map, CompressionType.toNat]
  rename_i h0 h1 h2 h3 h4 h5
  have h0 : v ≠ 0 := h0
  have h1 : v ≠ 1 := h1
  have h2 : v ≠ 2 := h2
  have h3 : v ≠ 3 := h3
  have h4 : v ≠ 4 := h4
  have h5 : v ≠ 5 := h5
  omega

/-- the translated `Metadata` as the model's record -/
def toModelMeta (m : Gen.Metadata) : Meta.Meta :=
  { version := match m.file_version with | .formatV1 => 1 | .formatV2 => 2,
    root := m.index_block_offset, codec := m.compression_type.toNat, count := m.entries_count,
    levels := m.index_levels }

/-- `Metadata::write_into` appends exactly the model's trailer bytes and reports their number. -/
theorem src_write_into (m : Gen.Metadata) (w : List UInt8) :
    Metadata.write_into m w = .ok ((Meta.encode (toModelMeta m)).length, w ++ Meta.encode (toModelMeta m)) := by
  unfold Metadata.write_into
  cases hv : m.file_version <;>
  simp [hv, toModelMeta, Meta.encode, bind, Except.bind, pure, Except.pure, add, MAGIC_V1, MAGIC_V2,
    METADATA_V1_SIZE, METADATA_V2_SIZE, leBytes_eq_leN, le64, le32, castU, leN, Meta.magicV1, Meta.magicV2, ofNat_mod256]

/-! ### `Metadata::read_from` -/

theorem seekEnd_ok (b : List UInt8) (p k : Nat) (h : k ≤ b.length) :
    (({ bytes := b, pos := p } : Src).seekEnd (-(k : Int))) = (.ok (b.length - k), { bytes := b, pos := b.length - k }) := by
  have : ¬ ((b.length : Int) + -(k : Int) < 0) := by omega
  have h2 : ((b.length : Int) + -(k : Int)).toNat = b.length - k := by omega
  simp [Src.seekEnd, this, h2]

theorem seekEnd_err (b : List UInt8) (p k : Nat) (h : b.length < k) :
    (({ bytes := b, pos := p } : Src).seekEnd (-(k : Int))) = (.error .invalidSeek, { bytes := b, pos := p }) := by
  have : ((b.length : Int) + -(k : Int) < 0) := by omega
  simp [Src.seekEnd, this]

theorem readLE_ok (b : List UInt8) (p k : Nat) (h : p + k ≤ b.length) :
    (({ bytes := b, pos := p } : Src).readLE k) = (.ok (leVal ((b.drop p).take k)), { bytes := b, pos := p + k }) := by
  simp [Src.readLE, Src.readN, h, leValue_eq_leVal]

/-- how a result of the translated `read_from` reads in the model's vocabulary (`none`: a panic) -/
def errToModel : Fail → Option Meta.OpenErr
  | .err (.io _) => some .io
  | .err .invalidFormatVersion => some .badMagic
  | .err .invalidCompressionType => some .badCodec
  | .err .cursor => none
  | .err .decompress => none
  | .err .merge => none
  | .panic _ => none

def resToModel : M Gen.Metadata → Option (Except Meta.OpenErr Meta.Meta)
  | .ok m => some (.ok (toModelMeta m))
  | .error f => (errToModel f).map .error

theorem castI64_small (k : Nat) (h : k < 2 ^ 63) : castI 64 k = (k : Int) := by
  have h1 : k % 2 ^ 64 = k := Nat.mod_eq_of_lt (by omega)
  simp [castI, h1, h]

theorem from_u8_le (v : Nat) (h : v ≤ 5) : ∃ c, CompressionType.from_u8 v = .ok (some c) ∧ c.toNat = v := by
  have := src_from_u8 v
  simp only [h, if_true] at this
  cases hr : CompressionType.from_u8 v with
  | error e => simp [hr, Except.map] at this
  | ok o =>
    cases o with
    | none => simp [hr, Except.map] at this
    | some c => exact ⟨c, rfl, by simpa [hr, Except.map] using this⟩

theorem from_u8_gt (v : Nat) (h : 5 < v) : CompressionType.from_u8 v = .ok none := by
  have := src_from_u8 v
  have h' : ¬ v ≤ 5 := by omega
  simp only [h', if_false] at this
  cases hr : CompressionType.from_u8 v with
  | error e => simp [hr, Except.map] at this
  | ok o =>
    cases o with
    | none => rfl
    | some c => simp [hr, Except.map] at this

theorem leVal_single (l : List UInt8) (h : l.length = 1) : leVal l = (l.getD 0 0).toNat := by
  match l, h with
  | [x], _ => simp [leVal]

/-- `Metadata::read_from` over an in-memory source is the model's `Meta.parse`: same accepted
    strings, same fields, same error class, and it never panics. -/
theorem src_read_from (b : List UInt8) (p : Nat) :
    resToModel (Metadata.read_from { bytes := b, pos := p }) = some (Meta.parse b) := by
  unfold Metadata.read_from Meta.parse
  have c4 : castI 64 4 = ((4 : Nat) : Int) := castI64_small 4 (by decide)
  have c17 : castI 64 METADATA_V1_SIZE = ((17 : Nat) : Int) := castI64_small 17 (by decide)
  have c18 : castI 64 METADATA_V2_SIZE = ((18 : Nat) : Int) := castI64_small 18 (by decide)
  have a21 : addI 64 ((17 : Nat) : Int) ((4 : Nat) : Int) = .ok ((21 : Nat) : Int) := by simp [addI, pure, Except.pure]
  have a22 : addI 64 ((18 : Nat) : Int) ((4 : Nat) : Int) = .ok ((22 : Nat) : Int) := by simp [addI, pure, Except.pure]
  simp only [bind, pure, c4, c17, c18]
  by_cases h4 : b.length < 4
  · rw [seekEnd_err b p 4 h4]
    simp [liftIo, Except.bind, resToModel, errToModel, h4, throw, throwThe, MonadExceptOf.throw]
  · have h4' : 4 ≤ b.length := by omega
    rw [seekEnd_ok b p 4 h4', readLE_ok b (b.length - 4) 4 (by omega)]
    have htake : (b.drop (b.length - 4)).take 4 = b.drop (b.length - 4) := by
      apply List.take_of_length_le; simp; omega
    simp only [htake, liftIo, Except.bind, h4, if_false, pure, Except.pure]
    have hm1 : MAGIC_V1 = Meta.magicV1 := by decide
    have hm2 : MAGIC_V2 = Meta.magicV2 := by decide
    have hne : Meta.magicV1 ≠ Meta.magicV2 := by decide
    rw [a21, a22, hm1, hm2]
    simp only [beq_iff_eq]
    have hpos : b.length - 4 + 4 = b.length := by omega
    rw [hpos]
    generalize hmagic : leVal (List.drop (b.length - 4) b) = magic
    by_cases hv1 : magic = Meta.magicV1
    · simp only [hv1, if_true]
      by_cases h21 : b.length < 21
      · rw [seekEnd_err b _ 21 h21]
        simp [resToModel, errToModel, h21, throw, throwThe, MonadExceptOf.throw]
      · rw [seekEnd_ok b _ 21 (by omega), readLE_ok b _ 8 (by omega), readLE_ok b _ 1 (by omega)]
        simp only [h21, if_false]
        have hone : leVal (List.take 1 (List.drop (b.length - 21 + 8) b)) = ((List.drop (b.length - 21) b).getD 8 0).toNat := by
          rw [leVal_single _ (by simp; omega)]
          simp [List.getD_eq_getElem?_getD, List.getElem?_take, List.getElem?_drop]
        rw [hone]
        generalize hc : ((List.drop (b.length - 21) b).getD 8 0).toNat = codec
        by_cases h5 : codec > 5
        · rw [from_u8_gt codec h5]
          simp [okOr, resToModel, errToModel, h5, throw, throwThe, MonadExceptOf.throw]
        · obtain ⟨c, hfc, hcn⟩ := from_u8_le codec (by omega)
          rw [hfc, readLE_ok b _ 8 (by omega)]
          simp [okOr, resToModel, toModelMeta, h5, pure, Except.pure, hcn, List.drop_drop, List.take_drop]
    · simp only [hv1, if_false]
      by_cases hv2 : magic = Meta.magicV2
      · simp only [hv2, if_true]
        by_cases h22 : b.length < 22
        · rw [seekEnd_err b _ 22 h22]
          simp [resToModel, errToModel, h22, throw, throwThe, MonadExceptOf.throw]
        · rw [seekEnd_ok b _ 22 (by omega), readLE_ok b _ 8 (by omega), readLE_ok b _ 1 (by omega)]
          simp only [h22, if_false]
          have hone : leVal (List.take 1 (List.drop (b.length - 22 + 8) b)) = ((List.drop (b.length - 22) b).getD 8 0).toNat := by
            rw [leVal_single _ (by simp; omega)]
            simp [List.getD_eq_getElem?_getD, List.getElem?_take, List.getElem?_drop]
          rw [hone]
          generalize hc : ((List.drop (b.length - 22) b).getD 8 0).toNat = codec
          by_cases h5 : codec > 5
          · rw [from_u8_gt codec h5]
            simp [okOr, resToModel, errToModel, h5, throw, throwThe, MonadExceptOf.throw]
          · obtain ⟨c, hfc, hcn⟩ := from_u8_le codec (by omega)
            rw [hfc, readLE_ok b _ 8 (by omega), readLE_ok b _ 1 (by omega)]
            have hlev : leVal (List.take 1 (List.drop (b.length - 22 + 8 + 1 + 8) b)) = ((List.drop (b.length - 22) b).getD 17 0).toNat := by
              rw [leVal_single _ (by simp; omega)]
              simp [List.getD_eq_getElem?_getD, List.getElem?_take, List.getElem?_drop]
            rw [hlev]
            simp [okOr, resToModel, toModelMeta, h5, pure, Except.pure, hcn, List.drop_drop, List.take_drop]
      · simp [hv2, resToModel, errToModel, throw, throwThe, MonadExceptOf.throw]

end Grenad.SrcTie
