/-
  Grenad.SrcTie.WriterLemmas — translator tie for `Writer::insert` / `Writer::into_inner` of src/writer.rs
  (regenerated from /repo/src on every run), part 1: the translated `BlockWriter` operations against the
  model's `BW` with the `usize` bounds carried along, and the relation between the list of index block
  writers and the model's.
-/
import Grenad.Generated.Src.SrcWriter
import Grenad.SrcTie.WriterBlock
import Grenad.Model.Writer
import Grenad.Proofs.WriterInvBW

set_option linter.unusedSimpArgs false
set_option linter.unusedVariables false

namespace Grenad.SrcTie
open Grenad Grenad.R Grenad.Gen

abbrev CompressFn := CompressionType → Nat → List UInt8 → Option (List UInt8)

/-- the external compressor of a model codec (total: grenad's `compress` fails only on I/O) -/
def codecFn (cd : Codec) : CompressFn := fun _ _ b => some (cd.compress b)

/-! ### block writers: the translated struct against the model's, ghost items aside -/

/-- `x` is the model block writer `bw` up to the ghost item list -/
def mBW (x : Gen.BlockWriter) (bw : BW) : Prop := toBW x bw.items = bw

theorem mBW_of_toBW {x : Gen.BlockWriter} {bw : BW} {l : List Entry} (h : toBW x l = bw) : mBW x bw := by
  subst h; rfl

/-- size bounds under which none of the translated operations overflows (`B`: buffer, `O`: offset table) -/
structure Small (B O : Nat) (x : Gen.BlockWriter) : Prop where
  cnt : x.index_key_counter ≤ x.index_key_interval
  iv1 : 1 ≤ x.index_key_interval
  iv : x.index_key_interval < 2 ^ 64
  buf : x.buffer.length < B
  offs : x.index_offsets.length < O

theorem Small.mono {B O B' O' : Nat} {x : Gen.BlockWriter} (h : Small B O x) (hB : B ≤ B') (hO : O ≤ O') :
    Small B' O' x :=
  ⟨h.cnt, h.iv1, h.iv, Nat.lt_of_lt_of_le h.buf hB, Nat.lt_of_lt_of_le h.offs hO⟩

theorem bw_counter_insert {p w : BW} {k v : Bytes} (h : p.insert k v = .ok w) :
    w.counter = (if p.counter = p.interval then 0 else p.counter) + 1 := by
  unfold BW.insert at h
  split at h
  · cases h
  split at h
  · cases h
  cases hl : p.lastKey with
  | none =>
    simp only [hl] at h
    injection h with h
    subst h
    dsimp only
    split <;> simp_all
  | some lk =>
    simp only [hl] at h
    split at h
    · injection h with h
      subst h
      dsimp only
      split <;> simp_all
    · cases h

/-- `BlockWriter::insert` against `BW.insert`, with the bounds carried along. -/
theorem bw_insert_sim (x : Gen.BlockWriter) (bw : BW) (k v : Bytes) (hm : mBW x bw)
    (hs : Small (2 ^ 61) (2 ^ 30) x) :
    match BW.insert bw k v with
    | .ok bw' => ∃ x', BlockWriter.insert x k v = .ok x' ∧ mBW x' bw' ∧ Small (2 ^ 62) (2 ^ 31) x'
    | .error _ => ∃ msg, BlockWriter.insert x k v = .error (.panic msg) := by
  have h := src_bw_insert x bw.items k v hs.cnt hs.iv
  rw [hm] at h
  cases hins : BW.insert bw k v with
  | error t => rw [hins] at h; exact h
  | ok bw' =>
    rw [hins] at h
    obtain ⟨x', h1, h2⟩ := h
    refine ⟨x', h1, mBW_of_toBW h2, ?_⟩
    obtain ⟨hk, hv, _, hbuf, _, _, hiv, hoff⟩ := BW.insert_ok hins
    have hc := bw_counter_insert hins
    have e1 : x'.buffer = bw'.buffer := by rw [← h2]; rfl
    have e2 : x'.index_key_interval = bw'.interval := by rw [← h2]; rfl
    have e3 : x'.index_offsets = bw'.offsets := by rw [← h2]; rfl
    have e4 : x'.index_key_counter = bw'.counter := by rw [← h2]; rfl
    have f1 : bw.buffer = x.buffer := by rw [← hm]; rfl
    have f2 : bw.interval = x.index_key_interval := by rw [← hm]; rfl
    have f3 : bw.offsets = x.index_offsets := by rw [← hm]; rfl
    have f4 : bw.counter = x.index_key_counter := by rw [← hm]; rfl
    have hfl := frame_length k v
    have hl1 := encode32_length_le k.length
    have hl2 := encode32_length_le v.length
    have hu : u32Max = 4294967295 := rfl
    have h1 := hs.cnt; have h2' := hs.iv1; have h3 := hs.iv; have h4 := hs.buf; have h5 := hs.offs
    refine ⟨?_, ?_, ?_, ?_, ?_⟩
    · rw [e4, e2, hc, hiv, f2, f4]; split <;> omega
    · rw [e2, hiv, f2]; exact h2'
    · rw [e2, hiv, f2]; exact h3
    · rw [e1, hbuf, f1, List.length_append, hfl]; omega
    · rw [e3]; rcases hoff with h | h <;> rw [h, f3] <;> simp <;> omega


theorem bw_size_sim (x : Gen.BlockWriter) (bw : BW) (hm : mBW x bw) (hs : Small (2 ^ 62) (2 ^ 31) x) :
    BlockWriter.current_size_estimate x = .ok bw.sizeEstimate := by
  have h1 := hs.buf; have h2 := hs.offs
  have h := src_bw_size_estimate x bw.items (by omega)
  rw [hm] at h; exact h

theorem bw_last_key_sim (x : Gen.BlockWriter) (bw : BW) (hm : mBW x bw) :
    BlockWriter.last_key_fn x = .ok bw.lastKey := by
  rw [← hm]; rfl

/-- `compress_and_write_block` against the model: the framed block is appended, the writer comes back reset.
    The only place the bound on the compressor's output is used, and only on the finished block (shorter than
    2^63 bytes by `Small`): hence `hcd` is restricted to such inputs — the unrestricted form
    `∀ b, (cd.compress b).length < 2^64` contradicts `cd.Lawful` (an injective `compress` cannot map all byte
    strings into those shorter than 2^64). -/
theorem bw_emit_sim (cd : Codec) (hcd : ∀ b : Bytes, b.length < 2 ^ 63 → (cd.compress b).length < 2 ^ 64) (out : Bytes)
    (x : Gen.BlockWriter) (bw : BW) (ct : CompressionType) (lvl : Nat) (hm : mBW x bw)
    (hs : Small (2 ^ 62) (2 ^ 31) x) :
    ∃ x', Gen.compress_and_write_block (codecFn cd) out x ct lvl = .ok (out ++ W.blockBytes cd bw.finish, x')
      ∧ mBW x' bw.reset ∧ Small (2 ^ 61) (2 ^ 30) x' := by
  have h2 := hs.offs
  have hfin : (BW.finish (toBW x bw.items)).length < 2 ^ 63 := by
    have hb := hs.buf
    rw [BW.finish_length]
    simp only [BW.sizeEstimate, toBW]
    omega
  obtain ⟨x', h1, h3⟩ := src_compress_and_write_block cd out x bw.items ct lvl (by omega) (hcd _ hfin)
  rw [hm] at h1 h3
  refine ⟨x', h1, mBW_of_toBW h3, ?_⟩
  have e1 : x'.buffer = bw.reset.buffer := by rw [← h3]; rfl
  have e2 : x'.index_key_interval = bw.reset.interval := by rw [← h3]; rfl
  have e3 : x'.index_offsets = bw.reset.offsets := by rw [← h3]; rfl
  have e4 : x'.index_key_counter = bw.reset.counter := by rw [← h3]; rfl
  have f2 : bw.interval = x.index_key_interval := by rw [← hm]; rfl
  refine ⟨?_, ?_, ?_, ?_, ?_⟩
  · rw [e4]; simp [BW.reset]
  · rw [e2]; simp only [BW.reset]; rw [f2]; exact hs.iv1
  · rw [e2]; simp only [BW.reset]; rw [f2]; exact hs.iv
  · rw [e1]; simp [BW.reset]
  · rw [e3]; simp only [BW.reset, List.length_take]; omega

/-! ### the list of index block writers -/

def mIdx (xs : List Gen.BlockWriter) (bs : List BW) : Prop :=
  xs.length = bs.length ∧ ∀ i (h1 : i < xs.length) (h2 : i < bs.length), mBW xs[i] bs[i]

theorem mIdx.set {xs : List Gen.BlockWriter} {bs : List BW} (h : mIdx xs bs) (j : Nat) {x : Gen.BlockWriter} {b : BW}
    (hx : mBW x b) : mIdx (xs.set j x) (bs.set j b) := by
  refine ⟨by simp [h.1], ?_⟩
  intro i h1 h2
  simp only [List.length_set] at h1 h2
  by_cases hij : j = i
  · subst hij; simpa using hx
  · simp only [List.getElem_set_ne hij]
    exact h.2 i h1 h2

theorem get!_eq {α} [Inhabited α] (xs : List α) (j : Nat) (h : j < xs.length) : xs[j]! = xs[j] :=
  getElem!_pos xs j h

theorem mIdx.get {xs : List Gen.BlockWriter} {bs : List BW} (h : mIdx xs bs) {j : Nat} (hj : j < bs.length) :
    ∃ b, bs[j]? = some b ∧ mBW xs[j]! b := by
  have hj' : j < xs.length := by rw [h.1]; exact hj
  refine ⟨bs[j], by simp [hj], ?_⟩
  rw [get!_eq xs j hj']
  exact h.2 j hj' hj

theorem get!_set_ne (xs : List Gen.BlockWriter) (i j : Nat) (x : Gen.BlockWriter) (h : i ≠ j) :
    (xs.set i x)[j]! = xs[j]! := by
  by_cases hj : j < xs.length
  · have h1 : j < (xs.set i x).length := by simpa using hj
    rw [get!_eq _ j h1, get!_eq _ j hj, List.getElem_set_ne h]
  · have h1 : ¬ j < (xs.set i x).length := by simpa using hj
    simp [hj, h1]

theorem get!_set_eq (xs : List Gen.BlockWriter) (i : Nat) (x : Gen.BlockWriter) (h : i < xs.length) :
    (xs.set i x)[i]! = x := by
  have h1 : i < (xs.set i x).length := by simpa using h
  rw [get!_eq _ i h1]; simp

end Grenad.SrcTie
