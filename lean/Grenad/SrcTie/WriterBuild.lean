/-
  Grenad.SrcTie.WriterBuild — translator tie for `WriterBuilder::build` of src/writer.rs and the block writer
  builder of src/block_writer.rs (regenerated from /repo/src on every run): the writer a builder constructs is
  the fresh state `genWriterNew` the whole-run tie starts from — same block size, `index_levels + 1` empty index
  block writers, the configured (or default, 8) index key interval, an empty sink.
-/
import Grenad.SrcTie.WriterBounds

set_option linter.unusedSimpArgs false
set_option linter.unusedVariables false

namespace Grenad.SrcTie
open Grenad Grenad.R Grenad.Gen

/-- the model configuration a translated builder stands for (its `block_size` is already clamped by the setter,
    `SrcTie.WriterBuilder`) -/
def cfgOf (wb : Gen.WriterBuilder) : WCfg :=
  { blockSize := wb.block_size, minBlock := wb.block_size,
    interval := wb.index_key_interval.getD Gen.DEFAULT_INDEX_KEY_INTERVAL, levels := wb.index_levels }

theorem src_writer_build (wb : Gen.WriterBuilder) (hl : wb.index_levels + 1 < 2 ^ 64) :
    Gen.WriterBuilder.build wb [] =
      .ok (genWriterNew (cfgOf wb) wb.compression_type wb.compression_level, []) := by
  unfold Gen.WriterBuilder.build
  cases hiv : wb.index_key_interval <;>
    simp [hiv, BlockWriter.builder, BlockWriterBuilder.new, BlockWriterBuilder.build,
      BlockWriterBuilder.index_key_interval_fn, bind, Except.bind, pure, Except.pure, add, hl, genWriterNew, bwNew,
      cfgOf, WCfg.clamped]

/-- **From the builder to the file, all on regenerated code**: `WriterBuilder::build`, then `Writer::insert` for
    every entry, then `Writer::into_inner` return the model's file, which reads back exactly the entries. -/
theorem src_C01_builder_roundtrip (cd : Codec) (wb : Gen.WriterBuilder) (es : List Entry)
    (hlaw : cd.Lawful) (hid : cd.id ≤ 5) (hlv : wb.index_levels ≤ 255)
    (hiv : ∀ iv, wb.index_key_interval = some iv → 1 ≤ iv ∧ iv < 2 ^ 64)
    (hasc : StrictAsc es) (hlens : ∀ e ∈ es, e.1.length < 2 ^ 32 ∧ e.2.length < 2 ^ 32)
    (hcount : es.length < 2 ^ 26)
    (hcd : ∀ b : Bytes, b.length < 2 ^ 63 → (cd.compress b).length < 2 ^ 64) (hct : wb.compression_type.toNat = cd.id) :
    ∃ file log,
      (do let (w, _) ← Gen.WriterBuilder.build wb []
          genWriterRun (codecFn cd) w es : M Sink) = .ok file ∧
      W.run cd (cfgOf wb) es = .ok (file, log) ∧
      (file.length < 2 ^ 64 → (∀ e ∈ log, e.raw.length < 2 ^ 32) →
        ∃ m, Meta.parse file = .ok m ∧ m.count = es.length ∧ m.codec = cd.id ∧ m.version = 2 ∧
          m.levels = wb.index_levels ∧
          Props.C01.scanForward cd file (es.length + 1) (RC.new m) =
            es.map (fun e => Res.ok (some e)) ++ [Res.ok none] ∧
          Props.C01.scanBackward cd file (es.length + 1) (RC.new m) =
            es.reverse.map (fun e => Res.ok (some e)) ++ [Res.ok none]) := by
  have hivs : 1 ≤ (cfgOf wb).interval ∧ (cfgOf wb).interval < 2 ^ 64 := by
    simp only [cfgOf]
    cases h : wb.index_key_interval with
    | none => simp [Gen.DEFAULT_INDEX_KEY_INTERVAL]
    | some iv => simpa using hiv iv h
  obtain ⟨file, log, h1, h2, h3⟩ := src_C01_writer_roundtrip_bounded cd (cfgOf wb) es wb.compression_type
    wb.compression_level hlaw hid hlv hivs.1 hivs.2 hasc hlens hcount hcd hct
  refine ⟨file, log, ?_, h2, h3⟩
  rw [src_writer_build wb (by omega)]
  exact h1

end Grenad.SrcTie
