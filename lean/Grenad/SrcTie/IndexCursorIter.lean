/-
  Grenad.SrcTie.IndexCursorIter — translator tie for `IndexBlockCursor::iter_index_blocks`
  (src/reader/reader_cursor.rs): the `for (offset, cursor) in inner` loop is the model's `RC.iterLevels`,
  the whole function is `RC.iterIndex`.
-/
import Grenad.SrcTie.IndexCursorInit

set_option linter.unusedSimpArgs false
set_option linter.unusedVariables false

namespace Grenad.SrcTie
open Grenad Grenad.R Grenad.Gen

theorem getElem!_append_cons {α : Type} [Inhabited α] (pre : List α) (x : α) (rest : List α) :
    (pre ++ x :: rest)[pre.length]! = x := by
  simp

theorem set_append_cons {α : Type} (pre : List α) (x y : α) (rest : List α) :
    (pre ++ x :: rest).set pre.length y = pre ++ y :: rest := by
  simp

/-- state of the emitted loop: early-return value, `self`, reader, `jump_to_offset` -/
abbrev IterSt :=
  Option (Option (Bytes × Bytes) × Gen.IndexBlockCursor × Src) × Gen.IndexBlockCursor × Src × Nat

section
variable (cd : Codec) (file : Bytes) (Q : Grenad.Block → Prop)
  (ops : BlockOps Grenad.BlockCursor) (m : Mov)

/-- What one iteration of the emitted loop does at level `pre.length` (the levels are `pre ++ x :: rest`):
    the model's reload decision, one in-block move, and either `yield` with the next offset or the early
    `return Ok(None)`. -/
def IterStep (F : Nat → IterSt → M (ForInStep IterSt)) : Prop :=
  ∀ (pre : List (Nat × Gen.BlockCursor)) (x : Nat × Gen.BlockCursor) (rest : List (Nat × Gen.BlockCursor))
    (s : Gen.IndexBlockCursor) (rd : Src) (jump : Nat) (log : List Nat) (y : ForInStep IterSt),
    s.inner = some (pre ++ x :: rest) → Good Q x.2 → rd.bytes = file →
    F pre.length (none, s, rd, jump) = .ok y →
    ∃ (off : Nat) (c c' : Gen.BlockCursor) (r : Option Entry) (rd1 : Src) (log1 : List Nat),
      (if jump ≠ x.1 then (loadCursor cd file jump).map (fun c' => (jump, c', jump :: log))
        else some (x.1, toBC x.2, log)) = some (off, toBC c, log1) ∧
      (toBC c', r) = ops.apply m (toBC c) ∧ Good Q c' ∧ rd1.bytes = file ∧
      match r with
      | some e => y = .yield (none, { s with inner := some (pre ++ (off, c') :: rest) }, rd1, offOf e)
      | none => y = .done (some (none, { s with inner := some (pre ++ (off, c') :: rest) }, rd1),
                  { s with inner := some (pre ++ (off, c') :: rest) }, rd1, jump)

theorem iter_loop (F : Nat → IterSt → M (ForInStep IterSt)) (hF : IterStep cd file Q ops m F) :
    ∀ (suf pre : List (Nat × Gen.BlockCursor)) (s : Gen.IndexBlockCursor) (rd : Src) (jump : Nat)
      (log : List Nat) (st' : IterSt),
    s.inner = some (pre ++ suf) → GoodL Q (pre ++ suf) → rd.bytes = file →
    forIn (List.range' pre.length suf.length) ((none, s, rd, jump) : IterSt) F = .ok st' →
    ∃ (suf' : List (Nat × Gen.BlockCursor)) (done : Bool) (log' : List Nat),
      RC.iterLevels ops (loadCursor cd file) m jump (absL suf) log = some (absL suf', done, log') ∧
      st'.2.1 = { s with inner := some (pre ++ suf') } ∧ GoodL Q (pre ++ suf') ∧ st'.2.2.1.bytes = file ∧
      (if done then st'.1 = none else st'.1 = some (none, st'.2.1, st'.2.2.1)) := by
  intro suf
  induction suf with
  | nil =>
    intro pre s rd jump log st' hinner hgood hrd hf
    simp only [List.length_nil, List.range'_zero, List.forIn_nil, pure, Except.pure, Except.ok.injEq] at hf
    subst hf
    refine ⟨[], true, log, ?_, ?_, hgood, hrd, ?_⟩
    · simp [RC.iterLevels, absL]
    · cases s; simp only at hinner; simp [hinner]
    · simp
  | cons x rest ih =>
    intro pre s rd jump log st' hinner hgood hrd hf
    rw [List.length_cons, List.range'_succ, List.forIn_cons] at hf
    obtain ⟨y, hy, hf⟩ := bind_ok hf
    have hgx : Good Q x.2 := hgood x (by simp)
    obtain ⟨off, c, c', r, rd1, log1, hreload, happ, hgc', hrd1, hyv⟩ :=
      hF pre x rest s rd jump log y hinner hgx hrd hy
    have hgood2 : GoodL Q (pre ++ (off, c') :: rest) :=
      hgood.left.append (GoodL.cons hgc' hgood.right.tail)
    obtain ⟨xo, xc⟩ := x
    cases r with
    | none =>
      simp only at hyv
      subst hyv
      simp only [pure, Except.pure, Except.ok.injEq] at hf
      subst hf
      refine ⟨(off, c') :: rest, false, log1, ?_, rfl, hgood2, hrd1, ?_⟩
      · simp only [absL_cons, RC.iterLevels]
        simp only at hreload
        rw [hreload]
        simp only [← happ]
      · simp
    | some e =>
      simp only at hyv
      subst hyv
      simp only at hf
      have hlen : pre.length + 1 = (pre ++ [(off, c')]).length := by simp
      rw [hlen] at hf
      have hinner2 : ({ s with inner := some (pre ++ (off, c') :: rest) } : Gen.IndexBlockCursor).inner
          = some ((pre ++ [(off, c')]) ++ rest) := by simp
      have hgood3 : GoodL Q ((pre ++ [(off, c')]) ++ rest) := by
        rw [List.append_assoc]; exact hgood2
      obtain ⟨suf', done, log', hmodel, hst, hg', hb', hdone⟩ :=
        ih (pre ++ [(off, c')]) _ rd1 (offOf e) log1 st' hinner2 hgood3 hrd1 hf
      refine ⟨(off, c') :: suf', done, log', ?_, ?_, ?_, hb', hdone⟩
      · simp only [absL_cons, RC.iterLevels]
        simp only at hreload
        rw [hreload]
        simp only [← happ, hmodel]
      · rw [hst]; simp
      · rw [List.append_assoc] at hg'; exact hg'

/-- the entry the last level points at (`inner.last().map(|(_, c)| c.current())`) -/
def lastCur (l : List (Nat × Grenad.BlockCursor)) : Option Entry :=
  match l.getLast? with
  | some (_, b) => ops.current b
  | none => none

omit cd file Q m in
theorem iterIndex_levels_done (load : Nat → Option Grenad.BlockCursor) (m : Mov) (c : RC Grenad.BlockCursor)
    (inner inner' : List (Nat × Grenad.BlockCursor)) (log : List Nat) (hi : c.inner = some inner)
    (h : RC.iterLevels ops load m c.base inner c.log = some (inner', true, log)) :
    RC.iterIndex ops load m c = some ({ c with inner := some inner', log := log }, lastCur ops inner') := by
  unfold RC.iterIndex
  simp only [hi, h, if_true]
  unfold lastCur
  cases inner'.getLast? with
  | none => rfl
  | some p => obtain ⟨o, b⟩ := p; rfl

omit cd file Q m in
theorem iterIndex_levels_stop (load : Nat → Option Grenad.BlockCursor) (m : Mov) (c : RC Grenad.BlockCursor)
    (inner inner' : List (Nat × Grenad.BlockCursor)) (log : List Nat) (hi : c.inner = some inner)
    (h : RC.iterLevels ops load m c.base inner c.log = some (inner', false, log)) :
    RC.iterIndex ops load m c = some ({ c with inner := some inner', log := log }, none) := by
  unfold RC.iterIndex
  simp only [hi, h, Bool.false_eq_true, if_false]

omit cd file Q m in
theorem iterIndex_init (load : Nat → Option Grenad.BlockCursor) (m : Mov) (c : RC Grenad.BlockCursor)
    (inner : Option (List (Nat × Grenad.BlockCursor))) (log : List Nat) (hi : c.inner = none)
    (h : RC.initialIndex ops load m (c.levels + 1) c.base [] c.log = some (inner, log)) :
    RC.iterIndex ops load m c = some ({ c with inner := inner, log := log },
      match inner with
      | some l => lastCur ops l
      | none => none) := by
  unfold RC.iterIndex
  simp only [hi, h]
  cases inner with
  | none => rfl
  | some l =>
    simp only [lastCur]
    cases l.getLast? with
    | none => rfl
    | some p => obtain ⟨o, b⟩ := p; rfl

variable (hs : SmallBlocks cd file) (hq : LoadsQ cd file Q)
  (mov : Gen.BlockCursor → M (Option (Bytes × Bytes) × Gen.BlockCursor))
  (htie : MovTie Q mov (ops.apply m)) (hcur : ops.current = Grenad.BlockCursor.current)
include hs hq htie hcur

omit hs hq htie hcur in
/-- the final `match self.inner.as_ref().and_then(|inner| inner.last())`: nothing to point at -/
theorem lastCur_none (l : List (Nat × Gen.BlockCursor)) (h : l.getLast? = none) : lastCur ops (absL l) = none := by
  have hl : (absL l).getLast? = l.getLast?.map (fun (o, c) => (o, toBC c)) := by
    simp [absL, List.getLast?_map]
  unfold lastCur
  rw [hl, h]
  rfl

omit hs hq htie in
/-- the final `match self.inner.as_ref().and_then(|inner| inner.last())`: `cursor.current()` -/
theorem lastCur_some (l : List (Nat × Gen.BlockCursor)) (hg : GoodL Q l) (o : Nat) (c : Gen.BlockCursor)
    (h : l.getLast? = some (o, c)) (v : Option (Bytes × Bytes)) (hv : Gen.BlockCursor.current c = .ok v) :
    lastCur ops (absL l) = v := by
  have hl : (absL l).getLast? = l.getLast?.map (fun (o, c) => (o, toBC c)) := by
    simp [absL, List.getLast?_map]
  unfold lastCur
  rw [hl, h]
  have hmem : (o, c) ∈ l := List.mem_of_getLast? h
  have := src_bc_current c (hg _ hmem).1 v hv
  simp only [Option.map_some, hcur]
  exact this.symm

/-- **`iter_index_blocks`.**  Whenever the translated function returns `(r, self', reader')`, the model's
    `iterIndex` returns `r` and the state `self'` abstracts to; `self'` holds good cursors only, the reader
    still reads `file`, and `base_block_offset`, `index_levels`, `compression_type` are unchanged. -/
theorem src_iter_index_blocks (s : Gen.IndexBlockCursor) (hg : GoodIdx Q s) (rd : Src) (hrd : rd.bytes = file)
    (cur : Option Grenad.BlockCursor) (log : List Nat)
    (r : Option (Bytes × Bytes)) (s' : Gen.IndexBlockCursor) (rd' : Src)
    (h : Gen.IndexBlockCursor.iter_index_blocks (fun _ => cd.decompress) s rd mov = .ok (r, s', rd')) :
    ∃ log', RC.iterIndex ops (loadCursor cd file) m (toRC s cur log) = some (toRC s' cur log', r) ∧
      GoodIdx Q s' ∧ rd'.bytes = file ∧ s'.base_block_offset = s.base_block_offset ∧
      s'.index_levels = s.index_levels ∧ s'.compression_type = s.compression_type := by
  unfold Gen.IndexBlockCursor.iter_index_blocks at h
  simp only [bind, pure] at h
  cases hinner : s.inner with
  | some inner =>
    rw [hinner] at h
    simp only [Option.getD_some] at h
    obtain ⟨st, hloop, h⟩ := bind_ok h
    have hgi : GoodL Q inner := hg inner hinner
    obtain ⟨suf', done, log', hmodel, hst, hg', hb', hdone⟩ :=
      iter_loop cd file Q ops m _ (by
        intro pre x rest s rd jump log y hinner hgx hrd hy
        obtain ⟨xo, xc⟩ := x
        simp only [hinner, Option.getD_some, getElem!_append_cons, set_append_cons] at hy
        by_cases hj : jump = xo
        · subst hj
          simp only [bne_self_eq_false, Bool.false_eq_true, if_false] at hy
          obtain ⟨x1, hmov, hy⟩ := bind_ok hy
          obtain ⟨r, c'⟩ := x1
          obtain ⟨happ, hblk⟩ := htie xc r c' hgx hmov
          refine ⟨jump, xc, c', r, rd, log, by simp, happ, hgx.of_block hblk, hrd, ?_⟩
          cases r with
          | none =>
            simp only [Except.pure, Except.ok.injEq] at hy
            simp only [← hy]
          | some e =>
            obtain ⟨k, ob⟩ := e
            simp only at hy
            obtain ⟨v, hv, hy⟩ := bind_ok hy
            have hvo := beValueN8_ok ob v hv k
            simp only [Except.pure, Except.ok.injEq] at hy
            simp only [← hy, hvo]
        · have hne : (jump != xo) = true := by simp [hj]
          simp only [hne, if_true] at hy
          obtain ⟨x0, c, hload, hy⟩ := genLoad_bind_ok cd rd jump s.compression_type _ _ hy
          obtain ⟨hmodel, hgood, _, hrd1⟩ := src_load_cursor cd file Q hs hq rd hrd jump _ c x0.snd hload
          obtain ⟨x1, hmov, hy⟩ := bind_ok hy
          obtain ⟨r, c'⟩ := x1
          obtain ⟨happ, hblk⟩ := htie c r c' hgood hmov
          refine ⟨jump, c, c', r, x0.snd, jump :: log, by simp [hj, hmodel], happ, hgood.of_block hblk, hrd1, ?_⟩
          cases r with
          | none =>
            simp only [Except.pure, Except.ok.injEq] at hy
            simp only [← hy]
          | some e =>
            obtain ⟨k, ob⟩ := e
            simp only at hy
            obtain ⟨v, hv, hy⟩ := bind_ok hy
            have hvo := beValueN8_ok ob v hv k
            simp only [Except.pure, Except.ok.injEq] at hy
            simp only [← hy, hvo])
        inner [] s rd s.base_block_offset log st hinner hgi hrd hloop
    simp only [List.nil_append] at hst hg'
    have hri : (toRC s cur log).inner = some (absL inner) := by rw [toRC_inner, hinner]; rfl
    have hgs' : GoodIdx Q { s with inner := some suf' } := by
      intro l hl; simp only [Option.some.injEq] at hl; subst hl; exact hg'
    cases done with
    | true =>
      simp only [if_true] at hdone
      simp only [hdone, hst, Option.bind_some] at h
      have hm := iterIndex_levels_done ops (loadCursor cd file) m (toRC s cur log) _ _ _ hri hmodel
      cases hlast : suf'.getLast? with
      | none =>
        simp only [hlast, Except.pure, Except.ok.injEq, Prod.mk.injEq] at h
        obtain ⟨h1, h2, h3⟩ := h
        subst h1 h2 h3
        refine ⟨log', ?_, hgs', hb', rfl, rfl, rfl⟩
        rw [hm, lastCur_none ops suf' hlast]
        rfl
      | some p =>
        obtain ⟨o, c⟩ := p
        simp only [hlast] at h
        obtain ⟨v, hv, h⟩ := bind_ok h
        simp only [Except.pure, Except.ok.injEq, Prod.mk.injEq] at h
        obtain ⟨h1, h2, h3⟩ := h
        subst h1 h2 h3
        refine ⟨log', ?_, hgs', hb', rfl, rfl, rfl⟩
        rw [hm, lastCur_some Q ops hcur suf' hg' o c hlast v hv]
        rfl
    | false =>
      simp only [Bool.false_eq_true, if_false] at hdone
      simp only [hdone, Except.pure, Except.ok.injEq, Prod.mk.injEq] at h
      obtain ⟨h1, h2, h3⟩ := h
      subst h1 h2 h3
      have hm := iterIndex_levels_stop ops (loadCursor cd file) m (toRC s cur log) _ _ _ hri hmodel
      rw [hst]
      refine ⟨log', ?_, hgs', hb', rfl, rfl, rfl⟩
      rw [hm]
      rfl
  | none =>
    rw [hinner] at h
    simp only [] at h
    obtain ⟨x, hinit, h⟩ := bind_ok h
    obtain ⟨ri, si, rdi⟩ := x
    obtain ⟨hsi, hrdi, hgi, log', hmodel⟩ :=
      src_initial_index_blocks cd file Q hs hq ops m mov htie s rd hrd log ri si rdi hinit
    subst hsi
    have hri : (toRC si cur log).inner = none := by rw [toRC_inner, hinner]; rfl
    have hm := iterIndex_init ops (loadCursor cd file) m (toRC si cur log) _ _ hri hmodel
    have hgs' : GoodIdx Q { si with inner := ri } := by
      intro l hl; exact hgi l hl
    cases ri with
    | none =>
      simp only [Option.bind_none, Except.pure, Except.ok.injEq, Prod.mk.injEq] at h
      obtain ⟨h1, h2, h3⟩ := h
      subst h1 h2 h3
      refine ⟨log', ?_, hgs', hrdi, rfl, rfl, rfl⟩
      rw [hm]
      rfl
    | some l =>
      simp only [Option.bind_some] at h
      have hgl := hgi l rfl
      cases hlast : l.getLast? with
      | none =>
        simp only [hlast, Except.pure, Except.ok.injEq, Prod.mk.injEq] at h
        obtain ⟨h1, h2, h3⟩ := h
        subst h1 h2 h3
        refine ⟨log', ?_, hgs', hrdi, rfl, rfl, rfl⟩
        rw [hm]
        simp only [Option.map_some]
        rw [lastCur_none ops l hlast]
        rfl
      | some p =>
        obtain ⟨o, c⟩ := p
        simp only [hlast] at h
        obtain ⟨v, hv, h⟩ := bind_ok h
        simp only [Except.pure, Except.ok.injEq, Prod.mk.injEq] at h
        obtain ⟨h1, h2, h3⟩ := h
        subst h1 h2 h3
        refine ⟨log', ?_, hgs', hrdi, rfl, rfl, rfl⟩
        rw [hm]
        simp only [Option.map_some]
        rw [lastCur_some Q ops hcur l hgl o c hlast v hv]
        rfl

end

end Grenad.SrcTie
