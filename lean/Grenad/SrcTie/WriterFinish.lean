/-
  Grenad.SrcTie.WriterFinish — part 4: the level loop of `Writer::into_inner` is the model's `W.flushLevels`,
  and `Writer::into_inner` is the model's `W.finish` (file bytes equal, trailer included).
-/
import Grenad.SrcTie.WriterInsert
import Grenad.SrcTie.Meta

set_option linter.unusedSimpArgs false
set_option linter.unusedVariables false

namespace Grenad.SrcTie
open Grenad Grenad.R Grenad.Gen

/-- one iteration of the level loop of `Writer::into_inner`, as emitted -/
def flushStep (compress : CompressFn) (j_6 : Nat) (s : Gen.Writer × Nat) : M (ForInStep (Gen.Writer × Nat)) := do
  let mut self_ := s.1
  let mut index_block_offset := s.2
  index_block_offset := self_.writer.length
  match (← Grenad.Gen.BlockWriter.last_key_fn (self_.index_block_writers[j_6]!)) with
  | Option.some last_key =>
    if decide (0 < j_6) then
      let m_8 ← Grenad.Gen.BlockWriter.insert (self_.index_block_writers[j_6 - 1]!) last_key (beBytes 8 index_block_offset)
      self_ := { self_ with index_block_writers := (self_.index_block_writers.set (j_6 - 1) m_8) }
    let (m_10, m_11) ← Grenad.Gen.compress_and_write_block compress self_.writer (self_.index_block_writers[j_6]!) self_.compression_type self_.compression_level
    self_ := { self_ with writer := m_10 }
    self_ := { self_ with index_block_writers := (self_.index_block_writers.set j_6 m_11) }
  | Option.none =>
    if (decide (j_6 ≤ 0)) then
      let (m_13, m_14) ← Grenad.Gen.compress_and_write_block compress self_.writer (self_.index_block_writers[j_6]!) self_.compression_type self_.compression_level
      self_ := { self_ with writer := m_13 }
      self_ := { self_ with index_block_writers := (self_.index_block_writers.set j_6 m_14) }
  pure (ForInStep.yield (self_, index_block_offset))

/-- `Writer::into_inner` with its level loop named -/
theorem into_inner_eq (C : CompressFn) (g : Gen.Writer) :
    Gen.Writer.into_inner C g = (do
      let mut self_ := g
      match (← Grenad.Gen.BlockWriter.last_key_fn self_.block_writer) with
      | Option.some last_key =>
        if decide (0 < self_.index_block_writers.length) then
          let offset : Nat := self_.writer.length
          let m_2 ← Grenad.Gen.BlockWriter.insert (self_.index_block_writers[self_.index_block_writers.length - 1]!) last_key (beBytes 8 offset)
          self_ := { self_ with index_block_writers := (self_.index_block_writers.set (self_.index_block_writers.length - 1) m_2) }
          let (m_4, m_5) ← Grenad.Gen.compress_and_write_block C self_.writer self_.block_writer self_.compression_type self_.compression_level
          self_ := { self_ with writer := m_4 }
          self_ := { self_ with block_writer := m_5 }
      | _ =>
        pure ()
      let _ ← sliceFrom self_.index_block_writers 0
      let s ← forIn (List.range' 0 (self_.index_block_writers.length - 0)).reverse (self_, self_.writer.length) (flushStep C)
      self_ := s.1
      let index_block_offset := s.2
      let metadata : Metadata := ({ file_version := FileVersion.formatV2, index_block_offset := index_block_offset, compression_type := self_.compression_type, entries_count := self_.entries_count, index_levels := (castU 8 ((← sub 64 self_.index_block_writers.length 1))) } : Metadata)
      let (r_15, m_16) ← Grenad.Gen.Metadata.write_into metadata self_.writer
      self_ := { self_ with writer := m_16 }
      return self_.writer) := rfl


theorem range0_rev_succ (i : Nat) : (List.range' 0 (i + 1)).reverse = i :: (List.range' 0 i).reverse := by
  rw [List.range'_concat]; simp

/-- emitting the block of level `j` without touching its parent -/
theorem flushStep_emit (cd : Codec) (hcd : ∀ b : Bytes, b.length < 2 ^ 63 → (cd.compress b).length < 2 ^ 64) (g : Gen.Writer) (r j : Nat)
    (cur : BW) (hcur : mBW g.index_block_writers[j]! cur) (hsc : Small (2 ^ 62) (2 ^ 31) g.index_block_writers[j]!)
    (hj : (∃ lk, cur.lastKey = some lk) ∧ j = 0 ∨ cur.lastKey = none ∧ j = 0) :
    ∃ x'', flushStep (codecFn cd) j (g, r) =
        .ok (ForInStep.yield ({ g with writer := g.writer ++ W.blockBytes cd cur.finish,
                                       index_block_writers := g.index_block_writers.set j x'' }, g.writer.length))
      ∧ mBW x'' cur.reset ∧ Small (2 ^ 61) (2 ^ 30) x'' := by
  obtain ⟨x'', he1, he2, he3⟩ := bw_emit_sim cd hcd g.writer g.index_block_writers[j]! cur
    g.compression_type g.compression_level hcur hsc
  refine ⟨x'', ?_, he2, he3⟩
  unfold flushStep
  rcases hj with ⟨⟨lk, hlk⟩, hj0⟩ | ⟨hlk, hj0⟩
  · subst hj0
    simp only [bind, Except.bind, bw_last_key_sim _ cur hcur, hlk, pure, Except.pure, Nat.lt_irrefl, decide_false,
      Bool.false_eq_true, if_false, he1]
  · subst hj0
    simp only [bind, Except.bind, bw_last_key_sim _ cur hcur, hlk, pure, Except.pure, Nat.le_refl, decide_true,
      if_true, he1]

theorem flushStep_skip (C : CompressFn) (g : Gen.Writer) (r j : Nat) (cur : BW)
    (hcur : mBW g.index_block_writers[j]! cur) (hlk : cur.lastKey = none) (hj : 0 < j) :
    flushStep C j (g, r) = .ok (ForInStep.yield (g, g.writer.length)) := by
  unfold flushStep
  have : ¬ j ≤ 0 := by omega
  simp only [bind, Except.bind, bw_last_key_sim _ cur hcur, hlk, pure, Except.pure, this, decide_false,
    Bool.false_eq_true, if_false]

theorem flushStep_link (cd : Codec) (hcd : ∀ b : Bytes, b.length < 2 ^ 63 → (cd.compress b).length < 2 ^ 64) (g : Gen.Writer) (r i : Nat)
    (cur parent : BW) (lk : Bytes) (hlk : cur.lastKey = some lk)
    (hcur : mBW g.index_block_writers[i + 1]! cur) (hpar : mBW g.index_block_writers[i]! parent)
    (hsc : Small (2 ^ 62) (2 ^ 31) g.index_block_writers[i + 1]!)
    (hsp : Small (2 ^ 61) (2 ^ 30) g.index_block_writers[i]!) :
    match parent.insert lk (be64 g.writer.length) with
    | .error _ => ∃ msg, flushStep (codecFn cd) (i + 1) (g, r) = .error (.panic msg)
    | .ok parent' => ∃ x' x'', flushStep (codecFn cd) (i + 1) (g, r) =
          .ok (ForInStep.yield ({ g with writer := g.writer ++ W.blockBytes cd cur.finish,
                                         index_block_writers := (g.index_block_writers.set i x').set (i + 1) x'' },
                                g.writer.length))
        ∧ mBW x' parent' ∧ Small (2 ^ 62) (2 ^ 31) x' ∧ mBW x'' cur.reset ∧ Small (2 ^ 61) (2 ^ 30) x'' := by
  unfold flushStep
  have h0 : 0 < i + 1 := by omega
  simp only [bind, Except.bind, bw_last_key_sim _ cur hcur, hlk, pure, Except.pure, h0, decide_true, if_true,
    Nat.add_sub_cancel]
  have hins := bw_insert_sim _ parent lk (be64 g.writer.length) hpar hsp
  cases hp : parent.insert lk (be64 g.writer.length) with
  | error t =>
    rw [hp] at hins
    obtain ⟨msg, hmsg⟩ := hins
    exact ⟨msg, by simp only [beBytes8_eq, hmsg]⟩
  | ok parent' =>
    rw [hp] at hins
    obtain ⟨x', hx1, hx2, hx3⟩ := hins
    have hget : (g.index_block_writers.set i x')[i + 1]! = g.index_block_writers[i + 1]! :=
      get!_set_ne _ _ _ _ (by omega)
    obtain ⟨x'', he1, he2, he3⟩ := bw_emit_sim cd hcd g.writer g.index_block_writers[i + 1]! cur
      g.compression_type g.compression_level hcur hsc
    refine ⟨x', x'', ?_, hx2, hx3, he2, he3⟩
    simp only [beBytes8_eq, hx1, hget, he1]


/-- **The level loop of `Writer::into_inner` is the model's `flushLevels`.** -/
theorem flush_loop (cd : Codec) (hcd : ∀ b : Bytes, b.length < 2 ^ 63 → (cd.compress b).length < 2 ^ 64) :
    ∀ (n : Nat) (g : Gen.Writer) (idx : List BW) (log : List Emitted) (root : Nat),
    mIdx g.index_block_writers idx → n ≤ idx.length →
    (∀ t, t + 1 < n → Small (2 ^ 61) (2 ^ 30) g.index_block_writers[t]!) →
    (1 ≤ n → Small (2 ^ 62) (2 ^ 31) g.index_block_writers[n - 1]!) →
    match W.flushLevels cd n idx g.writer log root with
    | .ok (idx', out', _, root') => ∃ g', forIn (List.range' 0 n).reverse (g, root) (flushStep (codecFn cd)) = .ok (g', root') ∧
        mIdx g'.index_block_writers idx' ∧ g'.writer = out' ∧ sameCfg g g' ∧ idx'.length = idx.length
    | .error _ => ∃ msg, forIn (List.range' 0 n).reverse (g, root) (flushStep (codecFn cd)) = .error (.panic msg) := by
  intro n
  induction n with
  | zero =>
    intro g idx log root hm _ _ _
    simp only [W.flushLevels]
    exact ⟨g, rfl, hm, rfl, sameCfg.refl g, trivial⟩
  | succ i ih =>
    intro g idx log root hm hle hs0 hs1
    have hlt : i < idx.length := by omega
    have hlen : i < g.index_block_writers.length := by rw [hm.1]; exact hlt
    rw [range0_rev_succ, List.forIn_cons]
    obtain ⟨cur, hc1, hc2⟩ := hm.get hlt
    have hsc : Small (2 ^ 62) (2 ^ 31) g.index_block_writers[i]! := by simpa using hs1 (by omega)
    simp only [W.flushLevels, hc1]
    -- continuing with an unchanged writer
    have hkeep : ∀ r', match W.flushLevels cd i idx g.writer log r' with
        | .ok (idx', out', _, root') => ∃ g', forIn (List.range' 0 i).reverse (g, r') (flushStep (codecFn cd)) = .ok (g', root') ∧
            mIdx g'.index_block_writers idx' ∧ g'.writer = out' ∧ sameCfg g g' ∧ idx'.length = idx.length
        | .error _ => ∃ msg, forIn (List.range' 0 i).reverse (g, r') (flushStep (codecFn cd)) = .error (.panic msg) := by
      intro r'
      refine ih g idx log r' hm (by omega) (fun t ht => hs0 t (by omega)) ?_
      intro h1
      have : i - 1 + 1 < i + 1 := by omega
      exact (hs0 (i - 1) this).mono (by omega) (by omega)
    -- continuing after the block of level `i` went out (and, for `i ≥ 1`, its parent took the link)
    have hafter : ∀ (g2 : Gen.Writer) (idx2 : List BW) (log2 : List Emitted),
        mIdx g2.index_block_writers idx2 → idx2.length = idx.length → sameCfg g g2 →
        (∀ t, t + 1 < i → g2.index_block_writers[t]! = g.index_block_writers[t]!) →
        (1 ≤ i → Small (2 ^ 62) (2 ^ 31) g2.index_block_writers[i - 1]!) →
        match W.flushLevels cd i idx2 g2.writer log2 g.writer.length with
        | .ok (idx', out', _, root') => ∃ g', forIn (List.range' 0 i).reverse (g2, g.writer.length) (flushStep (codecFn cd)) = .ok (g', root') ∧
            mIdx g'.index_block_writers idx' ∧ g'.writer = out' ∧ sameCfg g g' ∧ idx'.length = idx.length
        | .error _ => ∃ msg, forIn (List.range' 0 i).reverse (g2, g.writer.length) (flushStep (codecFn cd)) = .error (.panic msg) := by
      intro g2 idx2 log2 hm2 hl2 hc2' hsame hsm
      have hrec := ih g2 idx2 log2 g.writer.length hm2 (by omega)
        (fun t ht => by rw [hsame t ht]; exact hs0 t (by omega)) hsm
      cases hfl : W.flushLevels cd i idx2 g2.writer log2 g.writer.length with
      | error t => rw [hfl] at hrec; exact hrec
      | ok r =>
        rw [hfl] at hrec
        obtain ⟨idx', out', log', root'⟩ := r
        obtain ⟨g', h1, h2, h3, h4, h5⟩ := hrec
        exact ⟨g', h1, h2, h3, sameCfg.trans hc2' h4, h5.trans hl2⟩
    cases hlk : cur.lastKey with
    | none =>
      simp only []
      by_cases hi0 : i = 0
      · subst hi0
        obtain ⟨x'', hrun, hy1, hy2⟩ := flushStep_emit cd hcd g root 0 cur hc2 hsc (Or.inr ⟨hlk, rfl⟩)
        simp only [if_true]
        rw [hrun]
        simp only [W.flushLevels]
        exact ⟨_, rfl, hm.set 0 hy1, rfl, ⟨rfl, rfl, rfl, rfl, rfl⟩, by simp⟩
      · simp only [hi0, if_false]
        rw [flushStep_skip _ g root i cur hc2 hlk (by omega)]
        exact hkeep _
    | some lk =>
      simp only []
      by_cases hi0 : i = 0
      · subst hi0
        obtain ⟨x'', hrun, hy1, hy2⟩ := flushStep_emit cd hcd g root 0 cur hc2 hsc (Or.inl ⟨⟨lk, hlk⟩, rfl⟩)
        simp only [if_true]
        rw [hrun]
        simp only [W.flushLevels]
        exact ⟨_, rfl, hm.set 0 hy1, rfl, ⟨rfl, rfl, rfl, rfl, rfl⟩, by simp⟩
      · obtain ⟨i', rfl⟩ : ∃ i', i = i' + 1 := ⟨i - 1, by omega⟩
        simp only [hi0, if_false, Nat.add_sub_cancel]
        obtain ⟨parent, hp1, hp2⟩ := hm.get (show i' < idx.length by omega)
        simp only [hp1]
        have hsp : Small (2 ^ 61) (2 ^ 30) g.index_block_writers[i']! := hs0 i' (by omega)
        have hlink := flushStep_link cd hcd g root i' cur parent lk hlk hc2 hp2 hsc hsp
        cases hins : parent.insert lk (be64 g.writer.length) with
        | error t =>
          simp only [hins] at hlink ⊢
          obtain ⟨msg, hmsg⟩ := hlink
          exact ⟨msg, by rw [hmsg]; rfl⟩
        | ok parent' =>
          simp only [hins] at hlink ⊢
          obtain ⟨x', x'', hrun, hx1, hx2, hy1, hy2⟩ := hlink
          rw [hrun]
          refine hafter { g with writer := g.writer ++ W.blockBytes cd cur.finish, index_block_writers := (g.index_block_writers.set i' x').set (i' + 1) x'' }
            ((idx.set i' parent').set (i' + 1) cur.reset) _ ((hm.set i' hx1).set (i' + 1) hy1)
            (by simp) ⟨rfl, rfl, rfl, rfl, rfl⟩ ?_ ?_
          · intro t ht
            show ((g.index_block_writers.set i' x').set (i' + 1) x'')[t]! = _
            rw [get!_set_ne _ _ _ _ (by omega), get!_set_ne _ _ _ _ (by omega)]
          · intro _
            show Small _ _ ((g.index_block_writers.set i' x').set (i' + 1) x'')[i' + 1 - 1]!
            rw [Nat.add_sub_cancel, get!_set_ne _ _ _ _ (by omega), get!_set_eq _ _ _ (by omega)]
            exact hx2


/-- the tail of `into_inner`: the index levels, then the trailer -/
theorem into_inner_tail (cd : Codec) (hcd : ∀ b : Bytes, b.length < 2 ^ 63 → (cd.compress b).length < 2 ^ 64) (g3 : Gen.Writer) (idx3 : List BW)
    (log3 : List Emitted) (cnt : Nat) (hm3 : mIdx g3.index_block_writers idx3) (hpos : 0 < idx3.length)
    (hs0 : ∀ t, t + 1 < idx3.length → Small (2 ^ 61) (2 ^ 30) g3.index_block_writers[t]!)
    (hs1 : Small (2 ^ 62) (2 ^ 31) g3.index_block_writers[idx3.length - 1]!)
    (hct : g3.compression_type.toNat = cd.id) (hcnt : g3.entries_count = cnt) :
    match (match W.flushLevels cd idx3.length idx3 g3.writer log3 g3.writer.length with
           | .error t => (Except.error t : Except Trap (Bytes × List Emitted))
           | .ok (idx, out, log, root) =>
             .ok (out ++ Meta.encode { version := 2, root := root, codec := cd.id, count := cnt,
                                       levels := (idx.length - 1) % 256 }, log)) with
    | .ok (file, _) => (do
        let _ ← sliceFrom g3.index_block_writers 0
        let s ← forIn (List.range' 0 (g3.index_block_writers.length - 0)).reverse (g3, g3.writer.length) (flushStep (codecFn cd))
        let self_ := s.1
        let index_block_offset := s.2
        let metadata : Metadata := ({ file_version := FileVersion.formatV2, index_block_offset := index_block_offset, compression_type := self_.compression_type, entries_count := self_.entries_count, index_levels := (castU 8 ((← sub 64 self_.index_block_writers.length 1))) } : Metadata)
        let (r_15, m_16) ← Grenad.Gen.Metadata.write_into metadata self_.writer
        let self_ := { self_ with writer := m_16 }
        return self_.writer : M Sink) = .ok file
    | .error _ => ∃ msg, (do
        let _ ← sliceFrom g3.index_block_writers 0
        let s ← forIn (List.range' 0 (g3.index_block_writers.length - 0)).reverse (g3, g3.writer.length) (flushStep (codecFn cd))
        let self_ := s.1
        let index_block_offset := s.2
        let metadata : Metadata := ({ file_version := FileVersion.formatV2, index_block_offset := index_block_offset, compression_type := self_.compression_type, entries_count := self_.entries_count, index_levels := (castU 8 ((← sub 64 self_.index_block_writers.length 1))) } : Metadata)
        let (r_15, m_16) ← Grenad.Gen.Metadata.write_into metadata self_.writer
        let self_ := { self_ with writer := m_16 }
        return self_.writer : M Sink) = .error (.panic msg) := by
  have hlen : g3.index_block_writers.length = idx3.length := hm3.1
  have hloop := flush_loop cd hcd idx3.length g3 idx3 log3 g3.writer.length hm3 (Nat.le_refl _) hs0 (fun _ => hs1)
  have hsl : sliceFrom g3.index_block_writers 0 = .ok (g3.index_block_writers.drop 0) := by
    simp only [sliceFrom, Nat.zero_le, if_true, pure, Except.pure]
  simp only [bind, Except.bind, hsl, Nat.sub_zero, hlen]
  cases hfl : W.flushLevels cd idx3.length idx3 g3.writer log3 g3.writer.length with
  | error t =>
    rw [hfl] at hloop
    obtain ⟨msg, hmsg⟩ := hloop
    exact ⟨msg, by simp only [hmsg]⟩
  | ok r =>
    rw [hfl] at hloop
    obtain ⟨idx', out', log', root'⟩ := r
    obtain ⟨g', h1, h2, h3, h4, h5⟩ := hloop
    obtain ⟨c1, c2, c3, c4, c5⟩ := h4
    have hl' : g'.index_block_writers.length = idx'.length := h2.1
    have hpos' : 1 ≤ g'.index_block_writers.length := by omega
    simp only [h1, sub, hpos', if_true, pure, Except.pure, src_write_into]
    congr 1
    rw [h3]
    congr 1
    simp only [toModelMeta, c2, hct, c5, hcnt, castU, hl']


/-- **`Writer::into_inner` is the model's `W.finish`**: the translated code hands back exactly the model's
    file bytes (last data block, index levels bottom-up, trailer), or panics where the model traps. -/
theorem src_writer_into_inner (cd : Codec) (hcd : ∀ b : Bytes, b.length < 2 ^ 63 → (cd.compress b).length < 2 ^ 64) (g : Gen.Writer) (w : W)
    (hr : RW g w) (hs : SmallW g) (hct : g.compression_type.toNat = cd.id) :
    match W.finish cd w with
    | .ok (file, _) => Gen.Writer.into_inner (codecFn cd) g = .ok file
    | .error _ => ∃ msg, Gen.Writer.into_inner (codecFn cd) g = .error (.panic msg) := by
  rw [into_inner_eq]
  unfold W.finish
  have hlev := hs.levels
  have hlen : g.index_block_writers.length = w.idx.length := hr.idx.1
  simp only [bind, Except.bind, bw_last_key_sim _ w.bw hr.bw, pure, Except.pure]
  cases hlk : w.bw.lastKey with
  | none =>
    simp only []
    have h := into_inner_tail cd hcd g w.idx w.log w.count hr.idx (by omega)
      (fun t ht => hs.idx t (by omega)) ((hs.idx _ (by omega)).mono (by omega) (by omega)) hct hr.count
    rw [hr.out] at h ⊢
    simp only [bind, Except.bind, pure, Except.pure] at h
    exact h
  | some lk =>
    simp only []
    have hn1 : w.idx.length - 1 < w.idx.length := by omega
    obtain ⟨lastIdx, hl1, hl2⟩ := hr.idx.get hn1
    simp only [hlev, decide_true, if_true, hl1]
    rw [hlen, ← hr.out]
    have hpi := bw_insert_sim _ lastIdx lk (be64 g.writer.length) hl2 (by rw [← hlen]; exact hs.idx _ (by omega))
    cases hp : lastIdx.insert lk (be64 g.writer.length) with
    | error t =>
      rw [hp] at hpi
      obtain ⟨msg, hmsg⟩ := hpi
      exact ⟨msg, by simp only [beBytes8_eq, hmsg]⟩
    | ok lastIdx' =>
      rw [hp] at hpi
      obtain ⟨y, hy1, hy2, hy3⟩ := hpi
      obtain ⟨z, hz1, hz2, hz3⟩ := bw_emit_sim cd hcd g.writer g.block_writer w.bw g.compression_type g.compression_level
        hr.bw (hs.bw.mono (by omega) (by omega))
      simp only [beBytes8_eq, hy1, hz1]
      obtain ⟨g3, hg3⟩ : ∃ g3 : Gen.Writer, g3 = ({ block_writer := z, index_block_writers := g.index_block_writers.set (w.idx.length - 1) y, compression_type := g.compression_type, compression_level := g.compression_level, block_size := g.block_size, entries_count := g.entries_count, writer := g.writer ++ W.blockBytes cd w.bw.finish } : Gen.Writer) := ⟨_, rfl⟩
      have hi3 : g3.index_block_writers = g.index_block_writers.set (w.idx.length - 1) y := by rw [hg3]
      have hw3 : g3.writer = g.writer ++ W.blockBytes cd w.bw.finish := by rw [hg3]
      have hm3 : mIdx g3.index_block_writers (w.idx.set (w.idx.length - 1) lastIdx') := by rw [hi3]; exact hr.idx.set _ hy2
      have hl3 : (w.idx.set (w.idx.length - 1) lastIdx').length = w.idx.length := by simp
      have h := into_inner_tail cd hcd g3 (w.idx.set (w.idx.length - 1) lastIdx')
        (w.log ++ [{ offset := g.writer.length, level := 0, raw := w.bw.finish, items := w.bw.items }]) w.count hm3
        (by rw [hl3]; omega)
        (by intro t ht; rw [hl3] at ht; rw [hi3, get!_set_ne _ _ _ _ (by omega)]; exact hs.idx t (by omega))
        (by rw [hl3, hi3, get!_set_eq _ _ _ (by omega)]; exact hy3)
        (by rw [hg3]; exact hct) (by rw [hg3]; exact hr.count)
      rw [← hg3]
      rw [hw3, hi3] at h
      simp only [bind, Except.bind, pure, Except.pure] at h
      exact h

end Grenad.SrcTie
