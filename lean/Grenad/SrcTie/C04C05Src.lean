/-
  Grenad.SrcTie.C04C05Src — C04 and C05 stated on the iterators regenerated from /repo/src:
  over ANY cursor that simulates the specification cursor, calling the translated `next` until its first
  `None` yields exactly the in-range entries / the entries with the prefix, in order (reverse: in reverse
  order).  Composition of the translator tie (`src_range_next` …) with `C04_range_refines` … .
-/
import Grenad.Props.C04
import Grenad.Props.C05
import Grenad.SrcTie.IterNext

set_option linter.unusedSimpArgs false
set_option linter.unusedVariables false

namespace Grenad.SrcTie
open Grenad Grenad.R Grenad.Gen Grenad.IterP

/-- call a translated `next` until its first `None` (an `Err` or a panic ends the run) -/
def collectM {ι : Type} (nxt : ι → M (Option (Bytes × Bytes) × ι)) : Nat → ι → List Entry → M (List Entry)
  | 0, _, acc => pure acc.reverse
  | fuel + 1, it, acc =>
    match nxt it with
    | .error e => .error e
    | .ok (none, _) => pure acc.reverse
    | .ok (some e, it') => collectM nxt fuel it' (e :: acc)

/-- a translated iterator that is the model's (through an embedding `emb`) collects what the model collects -/
theorem collectM_eq {ι κ : Type} (nxtM : ι → ι × Res) (nxtG : κ → M (Option (Bytes × Bytes) × κ)) (emb : ι → κ)
    (h : ∀ it, nxtG (emb it) = match nxtM it with
      | (it', .ok e) => .ok (e, emb it')
      | (_, .err) => .error (.err .cursor)) :
    ∀ fuel it acc, collectM nxtG fuel (emb it) acc =
      match collect nxtM fuel it acc with
      | some l => .ok l
      | none => .error (.err .cursor) := by
  intro fuel
  induction fuel with
  | zero => intro it acc; simp [collectM, collect, pure, Except.pure]
  | succ f ih =>
    intro it acc
    simp only [collectM, collect, h it]
    cases hn : nxtM it with
    | mk it' r =>
      cases r with
      | err => simp
      | ok e =>
        cases e with
        | none => simp [pure, Except.pure]
        | some x => simp only; exact ih it' (x :: acc)

section
variable {γ : Type} (es : List Entry) (hasc : StrictAsc es)
  (mstep : γ → Op → γ × Res) (R : γ → Spec.Pos → Prop) (hsim : Sim es mstep R)
  (c0 : γ) (pos0 : Spec.Pos) (hR : R c0 pos0)
include hasc hsim hR

/-- **C04 on regenerated code, forward.** -/
theorem src_C04_range (lo hi : Grenad.Bound) (fuel : Nat) (hfuel : fuel > es.length) :
    collectM (Gen.RangeIter.next (gstep mstep)) fuel (toSrcRange { cursor := c0, lo := lo, hi := hi }) []
      = .ok (Spec.range es lo hi) := by
  rw [collectM_eq (Grenad.RangeIter.next mstep) (Gen.RangeIter.next (gstep mstep)) toSrcRange
        (by intro it; rw [src_range_next]; cases Grenad.RangeIter.next mstep it with | mk a b => cases b <;> rfl)]
  rw [Props.C04.C04_range_refines es hasc mstep R hsim c0 pos0 hR lo hi fuel hfuel]

/-- **C04 on regenerated code, backward.** -/
theorem src_C04_range_rev (lo hi : Grenad.Bound) (fuel : Nat) (hfuel : fuel > es.length) :
    collectM (Gen.RevRangeIter.next (gstep mstep)) fuel (toSrcRevRange { cursor := c0, lo := lo, hi := hi }) []
      = .ok (Spec.range es lo hi).reverse := by
  rw [collectM_eq (Grenad.RangeIter.nextRev mstep) (Gen.RevRangeIter.next (gstep mstep)) toSrcRevRange
        (by intro it; rw [src_range_next_rev]; cases Grenad.RangeIter.nextRev mstep it with | mk a b => cases b <;> rfl)]
  rw [Props.C04.C04_range_rev_refines es hasc mstep R hsim c0 pos0 hR lo hi fuel hfuel]

/-- **C05 on regenerated code, forward.** -/
theorem src_C05_prefix (p : Bytes) (fuel : Nat) (hfuel : fuel > es.length) :
    collectM (Gen.PrefixIter.next (gstep mstep)) fuel (toSrcPrefix { cursor := c0, pre := p }) []
      = .ok (Spec.withPrefix es p) := by
  rw [collectM_eq (Grenad.PrefixIter.next mstep) (Gen.PrefixIter.next (gstep mstep)) toSrcPrefix
        (by intro it; rw [src_prefix_next]; cases Grenad.PrefixIter.next mstep it with | mk a b => cases b <;> rfl)]
  rw [Props.C05.C05_prefix_refines es hasc mstep R hsim c0 pos0 hR p fuel hfuel]

/-- **C05 on regenerated code, backward** (under the side condition on `current()` after a failed floor
    seek, which the byte-level reader meets: `C05_bytes_side_condition`). -/
theorem src_C05_prefix_rev (p : Bytes) (hside : LostCurrentOK mstep c0 p) (fuel : Nat) (hfuel : fuel > es.length) :
    collectM (Gen.RevPrefixIter.next (gstep mstep)) fuel (toSrcRevPrefix { cursor := c0, pre := p }) []
      = .ok (Spec.withPrefix es p).reverse := by
  rw [collectM_eq (Grenad.PrefixIter.nextRev mstep) (Gen.RevPrefixIter.next (gstep mstep)) toSrcRevPrefix
        (by intro it; rw [src_prefix_next_rev]; cases Grenad.PrefixIter.nextRev mstep it with | mk a b => cases b <;> rfl)]
  rw [Props.C05.C05_prefix_rev_refines es hasc mstep R hsim c0 pos0 hR p hside fuel hfuel]

end
end Grenad.SrcTie
