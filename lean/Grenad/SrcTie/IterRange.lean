/-
  Grenad.SrcTie.IterRange — translator tie for the bound tests of src/reader/range_iter.rs
  (`end_contains`, `start_contains`), regenerated from /repo/src on every run.
-/
import Grenad.Generated.Src.SrcIter
import Grenad.Model.Iter

set_option linter.unusedSimpArgs false
set_option linter.unusedVariables false

namespace Grenad.SrcTie
open Grenad Grenad.R Grenad.Gen

/-- the model's bound as the translation of `std::ops::Bound<&Vec<u8>>` -/
def toSrcBound : Grenad.Bound → R.Bound (List UInt8)
  | .unbounded => .unbounded
  | .included k => .included k
  | .excluded k => .excluded k

theorem src_end_contains (b : Grenad.Bound) (k : Bytes) :
    end_contains (toSrcBound b) k = .ok (endContains b k) := by
  cases b <;> simp [end_contains, toSrcBound, endContains, pure, Except.pure]

theorem src_start_contains (b : Grenad.Bound) (k : Bytes) :
    start_contains (toSrcBound b) k = .ok (startContains b k) := by
  cases b <;> simp [start_contains, toSrcBound, startContains, pure, Except.pure]

end Grenad.SrcTie
