/-
  Grenad.SrcTie.C05Src — the `advance_key` facts of C05 stated on the code regenerated from
  /repo/src/reader/prefix_iter.rs.
-/
import Grenad.Props.C05
import Grenad.SrcTie.IterPrefix

namespace Grenad.SrcTie
open Grenad Grenad.R Grenad.Gen

/-- The translated `advance_key` never panics and never runs out of loop fuel. -/
theorem src_C05_advance_key_total (p : Bytes) : ∃ r, advance_key p = .ok r := ⟨_, src_advance_key p⟩

/-- `advance_key(p) = Some(s)`: a key starts with `p` iff it lies in `[p, s)`. -/
theorem src_C05_advance_key_spec (p s : Bytes) (h : advance_key p = .ok (some s)) (k : Bytes) :
    p.isPrefixOf k = true ↔ (p ≤ k ∧ k < s) := by
  rw [src_advance_key] at h
  exact Props.C05.C05_advanceKey_spec p s (by simpa using h) k

/-- `advance_key(p) = None` exactly when `p` is empty or made of 0xFF bytes only. -/
theorem src_C05_advance_key_none (p : Bytes) : advance_key p = .ok none ↔ ∀ b ∈ p, b = 255 := by
  rw [src_advance_key]
  simpa using Props.C05.C05_advanceKey_none p

end Grenad.SrcTie
