/-
  Grenad.SrcTie.EntriesInsert — translator tie for `Entries::insert` / `Entries::reallocate_buffer`
  (src/sorter.rs, regenerated from /repo/src on every run as `Gen.Entries.insert(.go)` /
  `Gen.Entries.reallocate_buffer`).  The buffer's content is not represented: slices, `copy_from_slice`,
  `cast_slice_mut` and `bounds[i] = …` are their bounds checks; `EntryBoundAlignedBuffer::new` (raw
  allocation) is the external parameter `extNew`, assumed to implement the model's `Entries.alloc`.
-/
import Grenad.SrcTie.SorterInsert

set_option linter.unusedSimpArgs false
set_option linter.unusedVariables false

namespace Grenad.SrcTie
open Grenad Grenad.R Grenad.Gen

/-! ### the primitives, as conditional rewrite rules -/

theorem ei_add {w a b : Nat} (h : a + b < 2 ^ w) : add w a b = .ok (a + b) := by
  simp [add, h, pure, Except.pure]
theorem ei_sub {w a b : Nat} (h : b ≤ a) : sub w a b = .ok (a - b) := by
  simp [sub, h, pure, Except.pure]
theorem ei_mul {w a b : Nat} (h : a * b < 2 ^ w) : mul w a b = .ok (a * b) := by
  simp [mul, h, pure, Except.pure]
theorem ei_ghostTo {len x : Nat} (h : x ≤ len) : ghostTo len x = .ok x := by
  simp [ghostTo, h, pure, Except.pure]
theorem ei_ghostFrom {len x : Nat} (h : x ≤ len) : ghostFrom len x = .ok (len - x) := by
  simp [ghostFrom, h, pure, Except.pure]
theorem ei_copy {a b : Nat} (h : a = b) : copyLenCheck a b = .ok () := by
  simp [copyLenCheck, h, pure, Except.pure]
theorem ei_cast {len sz : Nat} (h : len % sz = 0) : castSliceLen len sz = .ok (len / sz) := by
  simp [castSliceLen, h, pure, Except.pure]
theorem ei_idx {c i : Nat} (h : i < c) : idxCheck c i = .ok () := by
  simp [idxCheck, h, pure, Except.pure]
theorem ei_assert_true (msg : String) : assert true msg = .ok () := rfl

theorem ei_sub_panic {w a b : Nat} (h : ¬ b ≤ a) : ∃ msg, sub w a b = .error (.panic msg) :=
  ⟨"attempt to subtract with overflow", by simp [sub, h, throw, throwThe, MonadExceptOf.throw]⟩
theorem ei_mul_panic {w a b : Nat} (h : ¬ a * b < 2 ^ w) : ∃ msg, mul w a b = .error (.panic msg) :=
  ⟨"attempt to multiply with overflow", by simp [mul, h, throw, throwThe, MonadExceptOf.throw]⟩
theorem ei_ghostTo_panic {len x : Nat} (h : ¬ x ≤ len) : ∃ msg, ghostTo len x = .error (.panic msg) :=
  ⟨"range end index out of range for slice", by simp [ghostTo, h, throw, throwThe, MonadExceptOf.throw]⟩

/-! ### `fits` under the size condition "`buffer.len` is a `usize`" -/

/-- `src_entries_fits` with `buffer.len < 2^64` in place of `bounds_count * 16 < 2^64`: when the product
    overflows a `usize`, `bounds_count > buffer.len / 16` and both sides fail at the first subtraction. -/
theorem ei_fits (e : Gen.Entries) (items : List Entry) (k v : Bytes)
    (hl : e.buffer.len < 2 ^ 64) (hkv : 16 + k.length + v.length < 2 ^ 64) :
    match Grenad.Entries.fits (toEntries e items) k v with
    | .ok b => Gen.Entries.fits e k v = .ok b
    | .error _ => ∃ msg, Gen.Entries.fits e k v = .error (.panic msg) := by
  by_cases hb : e.bounds_count * 16 < 2 ^ 64
  · exact src_entries_fits e items k v hb hkv
  · have h1 : ¬ e.bounds_count ≤ e.buffer.len / 16 := by omega
    have hm : ∃ t, Grenad.Entries.fits (toEntries e items) k v = .error t := by
      unfold Grenad.Entries.fits
      simp only [toEntries, Grenad.Entries.sub, boundSize, h1, Bool.not_true, Bool.false_eq_true, if_false]
      exact ⟨_, rfl⟩
    obtain ⟨t, ht⟩ := hm
    rw [ht]
    obtain ⟨msg, hp⟩ := ei_sub_panic (w := 64) h1
    exact ⟨msg, by simp only [Gen.Entries.fits, hp, bind, Except.bind]⟩

/-- What an answer of the model's `fits` says about the numbers (the buffer invariant `Inv.room` holds
    whenever `fits` does not trap). -/
theorem ei_fits_ok (me : Grenad.Entries) (k v : Bytes) (b : Bool) (h : me.fits k v = .ok b) :
    me.boundsCount ≤ me.bufLen / 16 ∧ me.entriesLen ≤ me.bufLen ∧
    me.boundsCount * 16 ≤ me.bufLen - me.entriesLen ∧
    b = (decide (me.bufLen - me.entriesLen - me.boundsCount * 16 ≥ 16 + k.length + v.length)
          && decide (me.bufLen / 16 - me.boundsCount ≥ 1)) := by
  unfold Grenad.Entries.fits Grenad.Entries.remaining at h
  simp only [Grenad.Entries.sub, boundSize, Grenad.Entries.entrySize] at h
  by_cases hlive : me.live = true
  · simp only [hlive, Bool.not_true, Bool.false_eq_true, if_false] at h
    by_cases h1 : me.boundsCount ≤ me.bufLen / 16
    · by_cases h2 : me.entriesLen ≤ me.bufLen
      · by_cases h3 : me.boundsCount * 16 ≤ me.bufLen - me.entriesLen
        · simp only [h1, h2, h3, if_true] at h
          injection h with h
          exact ⟨h1, h2, h3, h.symm⟩
        · simp [h1, h2, h3] at h
      · simp [h1, h2] at h
    · simp [h1] at h
  · simp [hlive] at h

/-! ### `reallocate_buffer` -/

theorem ei_alloc_ok (n sz : Nat) (ev : List SEvent) (h : Grenad.Entries.alloc n = .ok (sz, ev)) :
    sz < 2 ^ 63 := by
  unfold Grenad.Entries.alloc at h
  simp only at h
  split at h
  · simp at h
  · split at h
    · simp at h
    · injection h with h
      injection h with h1 h2
      omega

/-- **`Entries::reallocate_buffer` on regenerated code is the model's `Entries.reallocate`.**
    The code slices the OLD buffer (`&self.buffer[..bounds_end]`, `&self.buffer[entries_start..]`,
    checked `buffer.len() - entries_len`) before it allocates; the model's `reallocate` has no
    counterpart for these three checks, hence the hypotheses `hb`, `he` (both follow from the buffer
    invariant `Inv.room`, and both hold whenever `fits` has just answered: `ei_fits_ok`).  The result
    keeps `entries_len`, `bounds_count`, and its buffer is a fresh allocation (`len < 2^63`). -/
theorem src_entries_reallocate (extNew : Nat → M Gen.EntryBoundAlignedBuffer)
    (hNew : ∀ n, match Grenad.Entries.alloc n with
      | .ok (sz, _) => ∃ b, extNew n = .ok b ∧ b.len = sz
      | .error _ => ∃ msg, extNew n = .error (.panic msg))
    (ge : Gen.Entries) (items : List Entry)
    (hb : ge.bounds_count * 16 ≤ ge.buffer.len) (he : ge.entries_len ≤ ge.buffer.len) :
    match Grenad.Entries.reallocate (toEntries ge items) with
    | .ok (e', _) => ∃ ge', Gen.Entries.reallocate_buffer extNew ge = .ok ge' ∧
        toEntries ge' items = e' ∧ ge'.buffer.len < 2 ^ 63 ∧
        ge'.entries_len = ge.entries_len ∧ ge'.bounds_count = ge.bounds_count
    | .error _ => ∃ msg, Gen.Entries.reallocate_buffer extNew ge = .error (.panic msg) := by
  unfold Grenad.Entries.reallocate
  have hlive : (toEntries ge items).live = true := rfl
  simp only [hlive, Bool.not_true, Bool.false_eq_true, if_false]
  have hbl : (toEntries ge items).bufLen = ge.buffer.len := rfl
  have hbc : (toEntries ge items).boundsCount = ge.bounds_count := rfl
  have hel : (toEntries ge items).entriesLen = ge.entries_len := rfl
  simp only [hbl, hbc, hel, boundSize, usizeLimit]
  by_cases h2 : ge.buffer.len * 2 ≥ 2 ^ 64
  · simp only [h2, if_true]
    by_cases h16 : ge.bounds_count * 16 < 2 ^ 64
    · obtain ⟨msg, hp⟩ := ei_mul_panic (w := 64) (a := ge.buffer.len) (b := 2) (by omega)
      refine ⟨msg, ?_⟩
      unfold Gen.Entries.reallocate_buffer
      simp (disch := omega) only [ei_mul, ei_ghostTo, ei_sub, ei_ghostFrom, hp, bind, Except.bind, pure, Except.pure]
    · obtain ⟨msg, hp⟩ := ei_mul_panic (w := 64) h16
      exact ⟨msg, by simp only [Gen.Entries.reallocate_buffer, hp, bind, Except.bind]⟩
  · simp only [h2, if_false]
    have h2' : ge.buffer.len * 2 < 2 ^ 64 := by omega
    have hn := hNew (ge.buffer.len * 2)
    cases ha : Grenad.Entries.alloc (ge.buffer.len * 2) with
    | error t =>
      rw [ha] at hn
      obtain ⟨msg, hp⟩ := hn
      refine ⟨msg, ?_⟩
      unfold Gen.Entries.reallocate_buffer
      simp (disch := omega) only [ei_mul, ei_ghostTo, ei_sub, ei_ghostFrom, hp, bind, Except.bind, pure, Except.pure]
    | ok p =>
      obtain ⟨sz, ev⟩ := p
      rw [ha] at hn
      obtain ⟨b, hx, hsz⟩ := hn
      have hsz63 := ei_alloc_ok _ _ _ ha
      simp only
      by_cases hr1 : ge.bounds_count * 16 ≤ sz
      · by_cases hr2 : ge.entries_len ≤ sz
        · simp only [hr1, hr2, and_self, if_true]
          refine ⟨{ ge with buffer := b }, ?_, ?_, ?_, rfl, rfl⟩
          · unfold Gen.Entries.reallocate_buffer
            simp (disch := omega) only [ei_mul, ei_ghostTo, ei_sub, ei_ghostFrom, ei_copy, hx, bind, Except.bind, pure, Except.pure]
          · simp only [toEntries, hsz]
          · simp only [hsz]; exact hsz63
        · simp only [hr1, hr2, and_false, if_false]
          obtain ⟨msg, hp⟩ := ei_sub_panic (w := 64) (a := b.len) (b := ge.entries_len) (by omega)
          refine ⟨msg, ?_⟩
          unfold Gen.Entries.reallocate_buffer
          simp (disch := omega) only [ei_mul, ei_ghostTo, ei_sub, ei_ghostFrom, ei_copy, hx, hp, bind, Except.bind, pure, Except.pure]
      · simp only [hr1, false_and, if_false]
        obtain ⟨msg, hp⟩ := ei_ghostTo_panic (len := b.len) (x := ge.bounds_count * 16) (by omega)
        refine ⟨msg, ?_⟩
        unfold Gen.Entries.reallocate_buffer
        simp (disch := omega) only [ei_mul, ei_ghostTo, ei_sub, ei_ghostFrom, ei_copy, hx, hp, bind, Except.bind, pure, Except.pure]

/-! ### `insert` -/

/-- **`Entries::insert` on regenerated code is the model's `Entries.insert`, for every fuel.**
    The only size condition is that `buffer.len` is a `usize`; it is preserved by a reallocation (the new
    length is a successful allocation's, `< 2^63`). -/
theorem ei_insert_go (extNew : Nat → M Gen.EntryBoundAlignedBuffer)
    (hNew : ∀ n, match Grenad.Entries.alloc n with
      | .ok (sz, _) => ∃ b, extNew n = .ok b ∧ b.len = sz
      | .error _ => ∃ msg, extNew n = .error (.panic msg))
    (k v : Bytes) :
    ∀ (fuel : Nat) (ge : Gen.Entries) (items : List Entry), ge.buffer.len < 2 ^ 64 →
    match (toEntries ge items).insert k v fuel with
    | .ok (e', _) => ∃ ge', Gen.Entries.insert.go extNew ge k v fuel = .ok ge' ∧
        toEntries ge' e'.items = e' ∧ ge'.buffer.len < 2 ^ 64
    | .error _ => ∃ msg, Gen.Entries.insert.go extNew ge k v fuel = .error (.panic msg) := by
  intro fuel
  induction fuel with
  | zero =>
    intro ge items hl
    exact ⟨_, rfl⟩
  | succ fuel ih =>
    intro ge items hl
    unfold Grenad.Entries.insert
    by_cases hk : k.length > u32Max
    · simp only [hk, if_true]
      have : ¬ k.length ≤ 4294967295 := by simp only [u32Max] at hk; omega
      exact ⟨_, by simp [Gen.Entries.insert.go, assert, this, bind, Except.bind, throw, throwThe, MonadExceptOf.throw]; rfl⟩
    · simp only [hk, if_false]
      have hk' : k.length ≤ 4294967295 := by simp only [u32Max] at hk; omega
      by_cases hv : v.length > u32Max
      · simp only [hv, if_true]
        have : ¬ v.length ≤ 4294967295 := by simp only [u32Max] at hv; omega
        exact ⟨_, by simp [Gen.Entries.insert.go, assert, hk', this, bind, Except.bind, throw, throwThe, MonadExceptOf.throw, pure, Except.pure]; rfl⟩
      · simp only [hv, if_false]
        have hv' : v.length ≤ 4294967295 := by simp only [u32Max] at hv; omega
        have hf := ei_fits ge items k v hl (by omega)
        cases hfit : Grenad.Entries.fits (toEntries ge items) k v with
        | error t =>
          rw [hfit] at hf
          obtain ⟨msg, hp⟩ := hf
          exact ⟨msg, by simp [Gen.Entries.insert.go, assert, hk', hv', hp, bind, Except.bind, pure, Except.pure]⟩
        | ok fit =>
          rw [hfit] at hf
          simp only at hf
          obtain ⟨f1, f2, f3, f4⟩ := ei_fits_ok _ k v fit hfit
          have hbl : (toEntries ge items).bufLen = ge.buffer.len := rfl
          have hbc : (toEntries ge items).boundsCount = ge.bounds_count := rfl
          have hel : (toEntries ge items).entriesLen = ge.entries_len := rfl
          simp only [hbl, hbc, hel] at f1 f2 f3 f4
          cases fit with
          | true =>
            simp only [Bool.true_eq, Bool.and_eq_true, decide_eq_true_eq] at f4
            obtain ⟨f5, f6⟩ := f4
            have hst : (toEntries ge items).store k v =
                .ok { toEntries ge items with
                      entriesLen := ge.entries_len + k.length + v.length,
                      boundsCount := ge.bounds_count + 1, items := items ++ [(k, v)] } := by
              unfold Grenad.Entries.store
              simp only [hbl, hbc, hel, boundSize]
              rw [if_neg (by omega), if_neg (by omega), if_neg (by omega)]
              rfl
            simp only [hst, Except.map]
            refine ⟨{ ge with entries_len := ge.entries_len + (k.length + v.length),
                              bounds_count := ge.bounds_count + 1 }, ?_, ?_, hl⟩
            · unfold Gen.Entries.insert.go
              simp (disch := omega) only [hf, hk', hv', decide_true, ei_assert_true, if_true,
                ei_add, ei_mul, ei_ghostTo, ei_sub, ei_ghostFrom, ei_copy, ei_cast, ei_idx,
                bind, Except.bind, pure, Except.pure]
            · simp only [toEntries, Nat.add_assoc]
          | false =>
            simp only
            have hr := src_entries_reallocate extNew hNew ge items (by omega) f2
            cases hre : Grenad.Entries.reallocate (toEntries ge items) with
            | error t =>
              rw [hre] at hr
              obtain ⟨msg, hp⟩ := hr
              exact ⟨msg, by simp [Gen.Entries.insert.go, assert, hk', hv', hf, hp, bind, Except.bind, pure, Except.pure]⟩
            | ok p =>
              obtain ⟨e1, ev⟩ := p
              rw [hre] at hr
              obtain ⟨ge1, hg, hte, hl1, _, _⟩ := hr
              simp only
              have hi := ih ge1 items (by omega)
              rw [hte] at hi
              cases hins : Grenad.Entries.insert e1 k v fuel with
              | error t =>
                rw [hins] at hi
                obtain ⟨msg, hp⟩ := hi
                exact ⟨msg, by simp [Gen.Entries.insert.go, assert, hk', hv', hf, hg, hp, bind, Except.bind, pure, Except.pure]⟩
              | ok p =>
                obtain ⟨e2, ev2⟩ := p
                rw [hins] at hi
                obtain ⟨ge2, hg2, hte2, hl2⟩ := hi
                exact ⟨ge2, by simp [Gen.Entries.insert.go, assert, hk', hv', hf, hg, hg2, bind, Except.bind, pure, Except.pure], hte2, hl2⟩

/-- **`Entries::insert` on regenerated code is the model's `Entries.insert`** (fuel 64 on both sides),
    relative to the raw allocator: same bookkeeping on success, a panic exactly where the model traps
    (the two `u32::MAX` asserts, the checked subtractions of `fits`, `buffer.len() * 2` overflowing,
    the allocation's layout check / zero size, the range checks of the copies, the recursion bound).

    Size condition: only `hl` — `buffer.len` is a `usize`.  Everything else the checked arithmetic needs
    is forced by the code's own control flow: the two asserts bound `16 + key.len() + data.len()`;
    an answer of `fits` gives `entries_len + 16·bounds_count ≤ buffer.len` (`ei_fits_ok`), which is what
    the slices of the old buffer in `reallocate_buffer` need; `fits = true` bounds
    `entries_len + key.len() + data.len()` and `(bounds_count + 1) * 16` by `buffer.len`.
    `hl` is preserved (third conjunct), also across reallocations (`src_entries_reallocate`: `< 2^63`).
    `hl` cannot be dropped: see `ei_hl_needed` below. -/
theorem src_entries_insert (extNew : Nat → M Gen.EntryBoundAlignedBuffer)
    (hNew : ∀ n, match Grenad.Entries.alloc n with
      | .ok (sz, _) => ∃ b, extNew n = .ok b ∧ b.len = sz
      | .error _ => ∃ msg, extNew n = .error (.panic msg))
    (k v : Bytes) (ge : Gen.Entries) (me : Grenad.Entries) (hR : toEntries ge me.items = me)
    (hl : ge.buffer.len < 2 ^ 64) :
    match me.insert k v 64 with
    | .ok (e', _) => ∃ ge', Gen.Entries.insert extNew ge k v = .ok ge' ∧ toEntries ge' e'.items = e' ∧
        ge'.buffer.len < 2 ^ 64
    | .error _ => ∃ msg, Gen.Entries.insert extNew ge k v = .error (.panic msg) := by
  have h := ei_insert_go extNew hNew k v 64 ge me.items hl
  rw [hR] at h
  exact h

#print axioms src_entries_reallocate
#print axioms src_entries_insert

/-- the model's allocator as an `extNew`: the hypothesis `hNew` is satisfiable -/
def ei_modelNew (n : Nat) : M Gen.EntryBoundAlignedBuffer :=
  match Grenad.Entries.alloc n with
  | .ok (sz, _) => .ok ⟨sz⟩
  | .error _ => .error (.panic "alloc")

theorem ei_modelNew_ok : ∀ n, match Grenad.Entries.alloc n with
    | .ok (sz, _) => ∃ b, ei_modelNew n = .ok b ∧ b.len = sz
    | .error _ => ∃ msg, ei_modelNew n = .error (.panic msg) := by
  intro n
  unfold ei_modelNew
  cases Grenad.Entries.alloc n with
  | error t => exact ⟨_, rfl⟩
  | ok p => exact ⟨_, rfl, rfl⟩

/-- a concrete instance with a reallocation: a 32-byte buffer, a 20-byte entry (needs 36) -/
example : ∃ ge', Gen.Entries.insert ei_modelNew ⟨⟨32⟩, 0, 0⟩ (List.replicate 10 1) (List.replicate 10 2) = .ok ge' ∧
    ge' = ⟨⟨64⟩, 20, 1⟩ := ⟨_, rfl, rfl⟩

/-- `hl` is needed: the model has no `usize` bound on `bounds_count * 16`, the code multiplies checked. -/
theorem ei_hl_needed :
    (∃ e', (toEntries ⟨⟨2 ^ 65⟩, 0, 2 ^ 60⟩ []).insert [] [] 64 = .ok e') ∧
    (∃ msg, Gen.Entries.insert ei_modelNew ⟨⟨2 ^ 65⟩, 0, 2 ^ 60⟩ [] [] = .error (.panic msg)) :=
  ⟨⟨_, rfl⟩, ⟨_, rfl⟩⟩

/-! ### `Sorter::insert` over the regenerated `Entries::insert`

`src_sorter_insert` (SorterInsert.lean) asks of its `extIns` the tie for EVERY translated `Entries`
(`hIns` has no size bound on `ge`).  `Gen.Entries.insert extNew` satisfies it only for
`ge.buffer.len < 2^64` (`ei_hl_needed`), so `hIns` cannot be discharged as stated.
`src_sorter_insert_bounded` is the same theorem with that bound threaded through: `hIns` is asked only
on `usize` buffer lengths and has to preserve the bound, the sorter's buffer is assumed to have one
(`hl`), and the bound is part of the conclusion (so the theorem iterates).  `hb` of `src_sorter_insert`
is no longer needed (`ei_fits`). -/

theorem ei_writeChunk_bufLen (mf : MergeFn) (ms ms' : Grenad.Sorter)
    (h : Grenad.Sorter.writeChunk mf ms = .ok ms') : ms'.entries.bufLen = ms.entries.bufLen := by
  unfold Grenad.Sorter.writeChunk Grenad.Sorter.writeChunkWith at h
  split at h
  · simp at h
  · injection h with h
    subst h
    rfl

theorem ei_mergeChunks_entries (mf : MergeFn) (ms ms' : Grenad.Sorter)
    (h : Grenad.Sorter.mergeChunks mf ms = .ok ms') : ms'.entries = ms.entries := by
  unfold Grenad.Sorter.mergeChunks at h
  split at h
  · simp at h
  · injection h with h
    subst h
    rfl

theorem ei_rel_bufLen (s : Gen.Sorter) (ms : Grenad.Sorter) (hR : RelS s ms) :
    s.entries.buffer.len = ms.entries.bufLen := by
  rw [← hR.1]; rfl

theorem src_sorter_insert_bounded (mf : MergeFn)
    (extIns : Gen.Entries → List UInt8 → List UInt8 → M Gen.Entries)
    (extWc extMc : Gen.Sorter → M (Nat × Gen.Sorter))
    (k v : Bytes)
    (hIns : ∀ (ge : Gen.Entries) (me : Grenad.Entries), toEntries ge me.items = me →
      ge.buffer.len < 2 ^ 64 →
      match me.insert k v 64 with
      | .ok (e', _) => ∃ ge', extIns ge k v = .ok ge' ∧ toEntries ge' e'.items = e' ∧
          ge'.buffer.len < 2 ^ 64
      | .error _ => ∃ msg, extIns ge k v = .error (.panic msg))
    (hWc : ∀ (s : Gen.Sorter) (ms : Grenad.Sorter), RelS s ms →
      match Grenad.Sorter.writeChunk mf ms with
      | .ok ms' => ∃ n s', extWc s = .ok (n, s') ∧ RelS s' ms' ∧
          s'.chunks_total_size = s.chunks_total_size ∧ n < 2 ^ 63
      | .error .merge => extWc s = .error (Fail.err RErr.merge)
      | .error (.trap _) => ∃ msg, extWc s = .error (.panic msg))
    (hMc : ∀ (s : Gen.Sorter) (ms : Grenad.Sorter), RelS s ms →
      match Grenad.Sorter.mergeChunks mf ms with
      | .ok ms' => ∃ n s', extMc s = .ok (n, s') ∧ RelS s' ms'
      | .error .merge => extMc s = .error (Fail.err RErr.merge)
      | .error (.trap _) => ∃ msg, extMc s = .error (.panic msg))
    (s : Gen.Sorter) (ms : Grenad.Sorter) (hR : RelS s ms)
    (hl : s.entries.buffer.len < 2 ^ 64) (hkv : 16 + k.length + v.length < 2 ^ 64)
    (hts : s.chunks_total_size < 2 ^ 63) :
    match Grenad.Sorter.insert mf ms k v with
    | .ok ms' => ∃ s', Gen.Sorter.insert extIns extWc extMc s k v = .ok s' ∧ RelS s' ms' ∧
        s'.entries.buffer.len < 2 ^ 64
    | .error .merge => Gen.Sorter.insert extIns extWc extMc s k v = .error (Fail.err RErr.merge)
    | .error (.trap _) => ∃ msg, Gen.Sorter.insert extIns extWc extMc s k v = .error (.panic msg) := by
  have hbl := ei_rel_bufLen s ms hR
  obtain ⟨hE, hT, hA, hM, hC⟩ := hR
  have hf := ei_fits s.entries ms.entries.items k v hl hkv
  rw [hE] at hf
  unfold Grenad.Sorter.insert
  cases hfit : ms.entries.fits k v with
  | error t =>
    rw [hfit] at hf
    obtain ⟨msg, hm⟩ := hf
    exact ⟨msg, by simp [Gen.Sorter.insert, hm, bind, Except.bind]⟩
  | ok fit =>
    rw [hfit] at hf
    simp only at hf
    rw [si_gen_insert_unfold extIns extWc extMc s k v fit hf]
    have hcond : (fit || (!decide (s.entries.buffer.len ≥ s.dump_threshold) && s.allow_realloc))
        = (fit || (!decide (ms.entries.bufLen ≥ ms.cfg.budget) && ms.cfg.allowRealloc)) := by
      rw [hbl, hT, hA]
    rw [hcond]
    simp only
    by_cases hc : (fit || (!decide (ms.entries.bufLen ≥ ms.cfg.budget) && ms.cfg.allowRealloc)) = true
    · simp only [hc, if_true]
      have hi := hIns s.entries ms.entries hE hl
      cases hins : ms.entries.insert k v 64 with
      | error t =>
        rw [hins] at hi
        obtain ⟨msg, hm⟩ := hi
        exact ⟨msg, by rw [hm]⟩
      | ok p =>
        obtain ⟨e', ev⟩ := p
        rw [hins] at hi
        obtain ⟨ge', hg, hte, hl'⟩ := hi
        simp only [hg]
        exact ⟨_, rfl, ⟨hte, hT, hA, hM, hC⟩, hl'⟩
    · simp only [hc, Bool.false_eq_true, if_false]
      have hw := hWc s ms ⟨hE, hT, hA, hM, hC⟩
      cases hwc : Grenad.Sorter.writeChunk mf ms with
      | error e =>
        rw [hwc] at hw
        cases e with
        | merge => simp only at hw ⊢; rw [hw]
        | trap t =>
          simp only at hw ⊢
          obtain ⟨msg, hm⟩ := hw
          exact ⟨msg, by rw [hm]⟩
      | ok ms1 =>
        rw [hwc] at hw
        obtain ⟨n, s1, hg, hR1, hts1, hn⟩ := hw
        have hl1 : s1.entries.buffer.len < 2 ^ 64 := by
          rw [ei_rel_bufLen s1 ms1 hR1, ei_writeChunk_bufLen mf ms ms1 hwc, ← hbl]; exact hl
        obtain ⟨hE1, hT1, hA1, hM1, hC1⟩ := hR1
        have hadd : add 64 s1.chunks_total_size n = .ok (s1.chunks_total_size + n) := by
          have : s1.chunks_total_size + n < 2 ^ 64 := by omega
          simp [add, this, pure, Except.pure]
        simp only [hg, hadd]
        have hi := hIns s1.entries ms1.entries hE1 hl1
        cases hins : ms1.entries.insert k v 64 with
        | error t =>
          rw [hins] at hi
          obtain ⟨msg, hm⟩ := hi
          exact ⟨msg, by rw [hm]⟩
        | ok p =>
          obtain ⟨e', ev⟩ := p
          rw [hins] at hi
          obtain ⟨ge', hg', hte, hl'⟩ := hi
          simp only [hg', ge_iff_le]
          have hR2 : RelS { s1 with chunks_total_size := s1.chunks_total_size + n, entries := ge' }
              { ms1 with entries := e', events := ms1.events ++ ev } :=
            ⟨hte, hT1, hA1, hM1, hC1⟩
          by_cases hmx : ms1.cfg.maxNb ≤ ms1.chunks.length
          · have hmx' : s1.max_nb_chunks ≤ s1.chunks.length := by rw [hM1, hC1]; exact hmx
            simp only [hmx, hmx', if_true]
            have hm := hMc _ _ hR2
            cases hmc : Grenad.Sorter.mergeChunks mf
                { ms1 with entries := e', events := ms1.events ++ ev } with
            | error e =>
              rw [hmc] at hm
              cases e with
              | merge => simp only at hm ⊢; rw [hm]
              | trap t =>
                simp only at hm ⊢
                obtain ⟨msg, hm'⟩ := hm
                exact ⟨msg, by rw [hm']⟩
            | ok ms3 =>
              rw [hmc] at hm
              obtain ⟨r, s3, hg3, hR3⟩ := hm
              simp only [hg3]
              refine ⟨_, rfl, ⟨hR3.1, hR3.2.1, hR3.2.2.1, hR3.2.2.2.1, hR3.2.2.2.2⟩, ?_⟩
              have h3 := ei_rel_bufLen s3 ms3 hR3
              have h4 := ei_mergeChunks_entries mf _ ms3 hmc
              have h5 : e'.bufLen = ge'.buffer.len := by rw [← hte]; rfl
              show s3.entries.buffer.len < 2 ^ 64
              rw [h3, h4]
              show e'.bufLen < 2 ^ 64
              rw [h5]; exact hl'
          · have hmx' : ¬ s1.max_nb_chunks ≤ s1.chunks.length := by rw [hM1, hC1]; exact hmx
            simp only [hmx, hmx', if_false]
            exact ⟨_, rfl, hR2, hl'⟩

/-- **`Sorter::insert` with the regenerated `Entries::insert` inside is the model's `Sorter.insert`**,
    relative to the raw allocator (`hNew`), `write_chunk` and `merge_chunks`. -/
theorem src_sorter_insert_entries (mf : MergeFn)
    (extNew : Nat → M Gen.EntryBoundAlignedBuffer)
    (extWc extMc : Gen.Sorter → M (Nat × Gen.Sorter))
    (k v : Bytes)
    (hNew : ∀ n, match Grenad.Entries.alloc n with
      | .ok (sz, _) => ∃ b, extNew n = .ok b ∧ b.len = sz
      | .error _ => ∃ msg, extNew n = .error (.panic msg))
    (hWc : ∀ (s : Gen.Sorter) (ms : Grenad.Sorter), RelS s ms →
      match Grenad.Sorter.writeChunk mf ms with
      | .ok ms' => ∃ n s', extWc s = .ok (n, s') ∧ RelS s' ms' ∧
          s'.chunks_total_size = s.chunks_total_size ∧ n < 2 ^ 63
      | .error .merge => extWc s = .error (Fail.err RErr.merge)
      | .error (.trap _) => ∃ msg, extWc s = .error (.panic msg))
    (hMc : ∀ (s : Gen.Sorter) (ms : Grenad.Sorter), RelS s ms →
      match Grenad.Sorter.mergeChunks mf ms with
      | .ok ms' => ∃ n s', extMc s = .ok (n, s') ∧ RelS s' ms'
      | .error .merge => extMc s = .error (Fail.err RErr.merge)
      | .error (.trap _) => ∃ msg, extMc s = .error (.panic msg))
    (s : Gen.Sorter) (ms : Grenad.Sorter) (hR : RelS s ms)
    (hl : s.entries.buffer.len < 2 ^ 64) (hkv : 16 + k.length + v.length < 2 ^ 64)
    (hts : s.chunks_total_size < 2 ^ 63) :
    match Grenad.Sorter.insert mf ms k v with
    | .ok ms' => ∃ s', Gen.Sorter.insert (Gen.Entries.insert extNew) extWc extMc s k v = .ok s' ∧
        RelS s' ms' ∧ s'.entries.buffer.len < 2 ^ 64
    | .error .merge =>
        Gen.Sorter.insert (Gen.Entries.insert extNew) extWc extMc s k v = .error (Fail.err RErr.merge)
    | .error (.trap _) =>
        ∃ msg, Gen.Sorter.insert (Gen.Entries.insert extNew) extWc extMc s k v = .error (.panic msg) :=
  src_sorter_insert_bounded mf (Gen.Entries.insert extNew) extWc extMc k v
    (fun ge me hR hl => src_entries_insert extNew hNew k v ge me hR hl) hWc hMc s ms hR hl hkv hts

#print axioms src_sorter_insert_entries

end Grenad.SrcTie
