/-
  Grenad.SrcTie.IterNew — translator tie for the constructors of the four iterators
  (`RangeIter::new`, `RevRangeIter::new` with `map_bound`, `PrefixIter::new`, `RevPrefixIter::new`), regenerated from
  /repo/src on every run: the iterator a constructor builds is exactly the model's initial iterator (bounds kept as
  given — in particular an empty start bound is NOT turned into `Unbounded` — and the "seek first" flag set), so that
  `src_C04_range(_rev)` / `src_C05_prefix(_rev)` speak about the object `Reader::into_range_iter` etc. hand out.
-/
import Grenad.SrcTie.IterNext

set_option linter.unusedSimpArgs false
set_option linter.unusedVariables false

namespace Grenad.SrcTie
open Grenad Grenad.R Grenad.Gen

/-- `map_bound(b, |bytes| bytes.as_ref().to_vec())` keeps the bound and its kind -/
theorem src_map_bound_id (b : R.Bound (List UInt8)) :
    Gen.map_bound b (fun bytes => do pure bytes) = .ok b := by
  cases b <;> rfl

theorem src_map_bound_id' (b : R.Bound (List UInt8)) :
    Gen.map_bound b (fun bytes => Except.ok bytes) = .ok b := by
  cases b <;> rfl

variable {γ : Type}

/-- `RangeIter::new` builds the model's initial forward range iterator -/
theorem src_range_iter_new (c : γ) (lo hi : Grenad.Bound) :
    Gen.RangeIter.new c (toSrcBound lo, toSrcBound hi) = .ok (toSrcRange { cursor := c, lo := lo, hi := hi }) := by
  simp [Gen.RangeIter.new, src_map_bound_id', toSrcRange, bind, Except.bind, pure, Except.pure]

/-- `RevRangeIter::new` builds the model's initial backward range iterator -/
theorem src_rev_range_iter_new (c : γ) (lo hi : Grenad.Bound) :
    Gen.RevRangeIter.new c (toSrcBound lo, toSrcBound hi) = .ok (toSrcRevRange { cursor := c, lo := lo, hi := hi }) := by
  simp [Gen.RevRangeIter.new, src_map_bound_id', toSrcRevRange, bind, Except.bind, pure, Except.pure]

/-- `PrefixIter::new` builds the model's initial forward prefix iterator -/
theorem src_prefix_iter_new (c : γ) (p : Bytes) :
    Gen.PrefixIter.new c p = .ok (toSrcPrefix { cursor := c, pre := p }) := by
  simp [Gen.PrefixIter.new, toSrcPrefix, pure, Except.pure]

/-- `RevPrefixIter::new` builds the model's initial backward prefix iterator -/
theorem src_rev_prefix_iter_new (c : γ) (p : Bytes) :
    Gen.RevPrefixIter.new c p = .ok (toSrcRevPrefix { cursor := c, pre := p }) := by
  simp [Gen.RevPrefixIter.new, toSrcRevPrefix, pure, Except.pure]

/-- the bounds survive as given: an `Excluded(b"")` start stays `Excluded(b"")` (the shape of two seeded changes) -/
example (c : γ) : ∃ it, Gen.RangeIter.new c (R.Bound.excluded [], R.Bound.unbounded) = .ok it ∧ it.range.1 = R.Bound.excluded [] ∧ it.move_on_start = true :=
  ⟨_, src_range_iter_new c (.excluded []) .unbounded, rfl, rfl⟩

end Grenad.SrcTie
