/-
  Grenad.SrcTie.ReaderCursorTieStep — the tie of `ReaderCursor` as a single statement over `Grenad.Op`
  (`src_rc_step`), over histories (`src_rc_history`, against `RC.run` of Proofs/Loads.lean), and the error direction
  (`src_rc_step_err`, `src_rc_history_err`).

  Error direction.  Every statement of ReaderCursorTie.lean has the form "the generated call returns `.ok (r, s')` ⇒ the
  model call returns `(toRCfull s' _, .ok r)`".  The model answers `Res.err` exactly where it has no block to load
  (`loadCursor = none`) — so a model `.err` contradicts a generated `.ok`: where the model reports `Err(_)`, the
  generated code does not return (it ends in `Fail.err _`, or in a panic of `beValueN 8` on a malformed index value).
-/
import Grenad.SrcTie.ReaderCursorTie
import Grenad.Proofs.Loads

set_option linter.unusedSimpArgs false
set_option linter.unusedVariables false

namespace Grenad.SrcTie
open Grenad Grenad.R Grenad.Gen

/-- one public call on the generated `ReaderCursor`, selected by the model's `Op` -/
def genRcStep (cd : Codec) (s : Gen.ReaderCursor) : Op → M (Option (Bytes × Bytes) × Gen.ReaderCursor)
  | .first => Gen.ReaderCursor.move_on_first (fun _ => cd.decompress) s
  | .last => Gen.ReaderCursor.move_on_last (fun _ => cd.decompress) s
  | .next => Gen.ReaderCursor.move_on_next (fun _ => cd.decompress) s
  | .prev => Gen.ReaderCursor.move_on_prev (fun _ => cd.decompress) s
  | .ge q => Gen.ReaderCursor.move_on_key_greater_than_or_equal_to (fun _ => cd.decompress) s q
  | .le q => Gen.ReaderCursor.move_on_key_lower_than_or_equal_to (fun _ => cd.decompress) s q
  | .eq q => Gen.ReaderCursor.move_on_key_equal_to (fun _ => cd.decompress) s q
  | .reset => Except.bind (Gen.ReaderCursor.reset s) fun s' => Except.pure (none, s')
  | .current => Except.bind (Gen.ReaderCursor.current s) fun r => Except.pure (r, s)

/-- a history of public calls: the results, in order, and the final cursor -/
def genRcRun (cd : Codec) : Gen.ReaderCursor → List Op → M (List (Option (Bytes × Bytes)) × Gen.ReaderCursor)
  | s, [] => Except.pure ([], s)
  | s, op :: rest =>
    Except.bind (genRcStep cd s op) fun x =>
      Except.bind (genRcRun cd x.snd rest) fun y => Except.pure (x.fst :: y.fst, y.snd)

section
variable (cd : Codec) (file : Bytes) (Q : Grenad.Block → Prop) (ops : BlockOps Grenad.BlockCursor)
variable (hs : SmallBlocks cd file) (hq : LoadsQ cd file Q) (hidx : IdxTie cd file Q ops) (hops : OpsTie Q ops)

include hs hq hidx hops in
/-- **One call.**  Whatever public operation is called on a good generated cursor: if it returns, the model's
    `RC.step` (with the repaired index cursor, `fixF1 := true`) returns the same entry and the same state. -/
theorem src_rc_step (s s' : Gen.ReaderCursor) (op : Op) (log : List Nat) (r : Option (Bytes × Bytes))
    (hg : GoodRC Q file s) (h : genRcStep cd s op = .ok (r, s')) :
    GoodRC Q file s' ∧ s'.reader.metadata = s.reader.metadata ∧
      ∃ log', RC.step ops (loadCursor cd file) true (toRCfull s log) op = (toRCfull s' log', .ok r) := by
  cases op with
  | first => exact src_rc_first cd file Q ops hs hq hidx hops s s' log r hg h
  | last => exact src_rc_last cd file Q ops hs hq hidx hops s s' log r hg h
  | next => exact src_rc_next cd file Q ops hs hq hidx hops s s' log r hg h
  | prev => exact src_rc_prev cd file Q ops hs hq hidx hops s s' log r hg h
  | ge q => exact src_rc_ge cd file Q ops hs hq hidx hops s s' q log r hg h
  | le q => exact src_rc_le cd file Q ops hs hq hidx hops s s' q log r hg h
  | eq q => exact src_rc_eq cd file Q ops hs hq hidx hops s s' q log r hg h
  | reset =>
    simp only [genRcStep] at h
    obtain ⟨s1, hs1, h⟩ := bind_ok h
    simp only [Except.pure, Except.ok.injEq, Prod.mk.injEq] at h
    obtain ⟨h1, h2⟩ := h
    subst h1 h2
    obtain ⟨hg', hrd, hmodel⟩ := src_rc_reset file Q s s1 log hg hs1
    refine ⟨hg', by rw [hrd], log, ?_⟩
    simp only [RC.step, hmodel]
  | current =>
    simp only [genRcStep] at h
    obtain ⟨r1, hr1, h⟩ := bind_ok h
    simp only [Except.pure, Except.ok.injEq, Prod.mk.injEq] at h
    obtain ⟨h1, h2⟩ := h
    subst h1 h2
    have := src_rc_current file Q ops hops s log r1 hg hr1
    refine ⟨hg, rfl, log, ?_⟩
    simp only [RC.step, this]

include hs hq hidx hops in
/-- **Histories.**  Any sequence of public calls on a good generated cursor: if every call returns, the results are
    those of the model run, and the final states correspond. -/
theorem src_rc_history : ∀ (hist : List Op) (s s' : Gen.ReaderCursor) (log : List Nat)
    (rs : List (Option (Bytes × Bytes))), GoodRC Q file s → genRcRun cd s hist = .ok (rs, s') →
    GoodRC Q file s' ∧ s'.reader.metadata = s.reader.metadata ∧
      ∃ log', RC.run ops (loadCursor cd file) true (toRCfull s log) hist = (toRCfull s' log', rs.map Res.ok)
  | [], s, s', log, rs, hg, h => by
    simp only [genRcRun, Except.pure, Except.ok.injEq, Prod.mk.injEq] at h
    obtain ⟨h1, h2⟩ := h
    subst h1 h2
    exact ⟨hg, rfl, log, rfl⟩
  | op :: rest, s, s', log, rs, hg, h => by
    simp only [genRcRun] at h
    obtain ⟨x, hx, h⟩ := bind_ok h
    obtain ⟨r1, s1⟩ := x
    obtain ⟨y, hy, h⟩ := bind_ok h
    obtain ⟨rs1, s2⟩ := y
    simp only [Except.pure, Except.ok.injEq, Prod.mk.injEq] at h
    obtain ⟨h1, h2⟩ := h
    subst h1 h2
    obtain ⟨hg1, hm1, log1, hstep⟩ := src_rc_step cd file Q ops hs hq hidx hops s s1 op log r1 hg hx
    obtain ⟨hg2, hm2, log2, hrun⟩ := src_rc_history rest s1 s2 log1 rs1 hg1 hy
    refine ⟨hg2, hm2.trans hm1, log2, ?_⟩
    simp only [RC.run, hstep, hrun, List.map_cons]

include hs hq hidx hops in
/-- **Error direction, one call.**  Where the model reports `Err(_)`, the generated call does not return. -/
theorem src_rc_step_err (s : Gen.ReaderCursor) (op : Op) (log : List Nat) (hg : GoodRC Q file s)
    (herr : (RC.step ops (loadCursor cd file) true (toRCfull s log) op).2 = .err) :
    ∀ x, genRcStep cd s op ≠ .ok x := by
  intro x hx
  obtain ⟨r, s'⟩ := x
  obtain ⟨_, _, log', hstep⟩ := src_rc_step cd file Q ops hs hq hidx hops s s' op log r hg hx
  rw [hstep] at herr
  cases herr

include hs hq hidx hops in
/-- **Error direction, histories.**  If the model run of a history reports an `Err(_)` at some call, the generated
    run does not return. -/
theorem src_rc_history_err (hist : List Op) (s : Gen.ReaderCursor) (log : List Nat) (hg : GoodRC Q file s)
    (herr : Res.err ∈ (RC.run ops (loadCursor cd file) true (toRCfull s log) hist).2) :
    ∀ x, genRcRun cd s hist ≠ .ok x := by
  intro x hx
  obtain ⟨rs, s'⟩ := x
  obtain ⟨_, _, log', hrun⟩ := src_rc_history cd file Q ops hs hq hidx hops hist s s' log rs hg hx
  rw [hrun] at herr
  simp only [List.mem_map] at herr
  obtain ⟨a, _, ha⟩ := herr
  cases ha

include hs hq hidx hops in
/-- **From `ReaderCursor::new`.**  A history run on a fresh cursor over a reader of `file` is the model run from
    `RC.new` of the metadata. -/
theorem src_rc_history_new (rdr : Gen.Reader) (hrd : rdr.reader.bytes = file) (hlv : rdr.metadata.index_levels ≤ 255)
    (s0 s' : Gen.ReaderCursor) (hnew : Gen.ReaderCursor.new rdr = .ok s0) (hist : List Op)
    (rs : List (Option (Bytes × Bytes))) (h : genRcRun cd s0 hist = .ok (rs, s')) :
    GoodRC Q file s' ∧ s'.reader.metadata = rdr.metadata ∧
      ∃ log', RC.run ops (loadCursor cd file) true (RC.new (toModelMeta rdr.metadata)) hist =
        (toRCfull s' log', rs.map Res.ok) := by
  obtain ⟨hrc, hreader, _, _, _, _, _, hgood⟩ := src_rc_new rdr s0 hnew
  obtain ⟨hg', hm, log', hrun⟩ :=
    src_rc_history cd file Q ops hs hq hidx hops hist s0 s' [] rs (hgood Q file hrd hlv) h
  rw [hrc] at hrun
  rw [hreader] at hm
  exact ⟨hg', hm, log', hrun⟩

end

/-! ### the hypotheses are satisfiable

  `SmallBlocks`, `LoadsQ`, `OpsTie` and `GoodRC` on a concrete instance (an uncompressed file, the operations as the
  code computes them, a fresh cursor).  `IdxTie` is the statement of the index-level tie (IndexCursor*.lean); it is a
  hypothesis here and is to be discharged there. -/
example : SmallBlocks Codec.none [1, 2, 3] ∧ LoadsQ Codec.none [1, 2, 3] (fun _ => True) ∧
    OpsTie (fun _ => True) srcOps ∧
    ∃ s, Gen.ReaderCursor.new
        { metadata := { file_version := .formatV2, index_block_offset := 0, compression_type := .none,
                        entries_count := 0, index_levels := 0 },
          reader := { bytes := [1, 2, 3], pos := 0 } } = .ok s ∧ GoodRC (fun _ => True) [1, 2, 3] s :=
  ⟨smallBlocks_none _ (by decide), loadsQ_true _ _, opsTie_src _, _, rfl,
    (src_rc_new _ _ rfl).2.2.2.2.2.2.2 _ _ rfl (by decide)⟩

end Grenad.SrcTie
