/-
  Grenad.SrcTie.ReaderE2EIdx — the hypothesis structure `IdxTie` of ReaderCursorTie.lean discharged with the theorems
  of IndexCursor*.lean, for the operations as the code computes them (`ops := srcOps`) and no hypothesis on the
  blocks (`Q := fun _ => True`): only `SmallBlocks cd file` remains.
-/
import Grenad.SrcTie.ReaderCursorTie
import Grenad.SrcTie.IndexCursor

set_option linter.unusedSimpArgs false
set_option linter.unusedVariables false

namespace Grenad.SrcTie
open Grenad Grenad.R Grenad.Gen

section
variable (cd : Codec) (file : Bytes) (Q : Grenad.Block → Prop)
  (hs : SmallBlocks cd file) (hq : LoadsQ cd file Q)
include hs hq

/-- `IndexBlockCursor::move_on_first/last/key_greater_than_or_equal_to` (all three are `iter_index_blocks` with a
    closure), generic in the operations the closure is tied to. -/
theorem e2e_index_move_on_first_ops (ops : BlockOps Grenad.BlockCursor)
    (htie : MovTie Q (fun c => Gen.BlockCursor.move_on_first c) (ops.apply .first))
    (hcur : ops.current = Grenad.BlockCursor.current)
    (s : Gen.IndexBlockCursor) (hg : GoodIdx Q s) (rd : Src) (hrd : rd.bytes = file)
    (cur : Option Grenad.BlockCursor) (log : List Nat)
    (r : Option (Bytes × Bytes)) (s' : Gen.IndexBlockCursor) (rd' : Src)
    (h : Gen.IndexBlockCursor.move_on_first (fun _ => cd.decompress) s rd = .ok (r, s', rd')) :
    ∃ log', RC.iterIndex ops (loadCursor cd file) .first (toRC s cur log) = some (toRC s' cur log', r) ∧
      IdxPost Q file s s' rd' := by
  unfold Gen.IndexBlockCursor.move_on_first at h
  simp only [bind, pure] at h
  obtain ⟨x, hx, h⟩ := bind_ok h
  obtain ⟨r1, m2, m3⟩ := x
  simp only [Except.pure, Except.ok.injEq, Prod.mk.injEq] at h
  obtain ⟨h1, h2, h3⟩ := h
  subst h1 h2 h3
  exact src_iter_index_blocks cd file Q ops .first hs hq _ htie hcur s hg rd hrd cur log _ _ _ hx

theorem e2e_index_move_on_last_ops (ops : BlockOps Grenad.BlockCursor)
    (htie : MovTie Q (fun c => Gen.BlockCursor.move_on_last c) (ops.apply .last))
    (hcur : ops.current = Grenad.BlockCursor.current)
    (s : Gen.IndexBlockCursor) (hg : GoodIdx Q s) (rd : Src) (hrd : rd.bytes = file)
    (cur : Option Grenad.BlockCursor) (log : List Nat)
    (r : Option (Bytes × Bytes)) (s' : Gen.IndexBlockCursor) (rd' : Src)
    (h : Gen.IndexBlockCursor.move_on_last (fun _ => cd.decompress) s rd = .ok (r, s', rd')) :
    ∃ log', RC.iterIndex ops (loadCursor cd file) .last (toRC s cur log) = some (toRC s' cur log', r) ∧
      IdxPost Q file s s' rd' := by
  unfold Gen.IndexBlockCursor.move_on_last at h
  simp only [bind, pure] at h
  obtain ⟨x, hx, h⟩ := bind_ok h
  obtain ⟨r1, m2, m3⟩ := x
  simp only [Except.pure, Except.ok.injEq, Prod.mk.injEq] at h
  obtain ⟨h1, h2, h3⟩ := h
  subst h1 h2 h3
  exact src_iter_index_blocks cd file Q ops .last hs hq _ htie hcur s hg rd hrd cur log _ _ _ hx

theorem e2e_index_move_on_next_ops (ops : BlockOps Grenad.BlockCursor)
    (htie : MovTie Q (fun c => Gen.BlockCursor.move_on_next c) (ops.apply .next))
    (hcur : ops.current = Grenad.BlockCursor.current)
    (s : Gen.IndexBlockCursor) (hg : GoodIdx Q s) (rd : Src) (hrd : rd.bytes = file)
    (cur : Option Grenad.BlockCursor) (log : List Nat)
    (r : Option (Bytes × Bytes)) (s' : Gen.IndexBlockCursor) (rd' : Src)
    (h : Gen.IndexBlockCursor.move_on_next (fun _ => cd.decompress) s rd = .ok (r, s', rd')) :
    ∃ log', RC.recurIndex ops (loadCursor cd file) true .next (toRC s cur log) = some (toRC s' cur log', r) ∧
      IdxPost Q file s s' rd' := by
  unfold Gen.IndexBlockCursor.move_on_next at h
  simp only [bind, pure] at h
  obtain ⟨x, hx, h⟩ := bind_ok h
  obtain ⟨r1, m2, m3⟩ := x
  simp only [Except.pure, Except.ok.injEq, Prod.mk.injEq] at h
  obtain ⟨h1, h2, h3⟩ := h
  subst h1 h2 h3
  exact src_recursive_index_block cd file Q ops .next hs hq _ htie hcur s hg rd hrd cur log _ _ _ hx

/-- **`IdxTie` from an `OpsTie`.**  The five public `IndexBlockCursor::move_on_*` functions are the model's
    `RC.iterIndex` / `RC.recurIndex` run with any operations `ops` the five in-block moves are tied to. -/
theorem e2e_idxTie_of_opsTie (ops : BlockOps Grenad.BlockCursor) (hops : OpsTie Q ops) : IdxTie cd file Q ops where
  iter_first := by
    intro s s' rd rd' cur log r hrd hg _ h
    obtain ⟨log', hm, h1, h2, h3, h4, h5⟩ :=
      e2e_index_move_on_first_ops cd file Q hs hq ops hops.first hops.current s hg rd hrd cur log r s' rd' h
    exact ⟨h2, h1, h3, h4, h5, log', hm⟩
  iter_last := by
    intro s s' rd rd' cur log r hrd hg _ h
    obtain ⟨log', hm, h1, h2, h3, h4, h5⟩ :=
      e2e_index_move_on_last_ops cd file Q hs hq ops hops.last hops.current s hg rd hrd cur log r s' rd' h
    exact ⟨h2, h1, h3, h4, h5, log', hm⟩
  iter_ge := by
    intro s s' rd rd' key cur log r hrd hg _ h
    obtain ⟨log', hm, h1, h2, h3, h4, h5⟩ :=
      src_index_move_on_ge_ops cd file Q hs hq ops key (hops.ge key) hops.current s hg rd hrd cur log r s' rd' h
    exact ⟨h2, h1, h3, h4, h5, log', hm⟩
  recur_next := by
    intro s s' rd rd' cur log r hrd hg _ h
    obtain ⟨log', hm, h1, h2, h3, h4, h5⟩ :=
      e2e_index_move_on_next_ops cd file Q hs hq ops hops.next hops.current s hg rd hrd cur log r s' rd' h
    exact ⟨h2, h1, h3, h4, h5, log', hm⟩
  recur_prev := by
    intro s s' rd rd' cur log r hrd hg _ h
    obtain ⟨log', hm, h1, h2, h3, h4, h5⟩ :=
      src_index_move_on_prev_ops cd file Q hs hq ops hops.prev hops.current s hg rd hrd cur log r s' rd' h
    exact ⟨h2, h1, h3, h4, h5, log', hm⟩

end

/-- **`IdxTie` for the code as it computes** (`srcOps`, no hypothesis on the blocks): only `SmallBlocks`. -/
theorem e2e_idxTie_src (cd : Codec) (file : Bytes) (hs : SmallBlocks cd file) :
    IdxTie cd file (fun _ => True) srcOps :=
  e2e_idxTie_of_opsTie cd file (fun _ => True) hs (loadsQ_true cd file) srcOps (opsTie_src _)

end Grenad.SrcTie

section Audit
open Grenad.SrcTie
#print axioms e2e_idxTie_of_opsTie
#print axioms e2e_idxTie_src
end Audit
