/-
  Grenad.SrcTie.Varint — translator tie for src/varint.rs.
  `Grenad.Gen.varint_*` are REGENERATED from /repo/src/varint.rs on every run (r2l); the theorems
  below state that the hand-written model (`Grenad.Varint.*`, about which C14 is proved) is exactly
  that code.  A change of the Rust functions changes the generated definitions and breaks these proofs.
-/
import Grenad.Generated.Src.SrcVarint
import Grenad.Model.Varint
import Grenad.SrcTie.Bits

set_option linter.unusedSimpArgs false
set_option linter.unusedVariables false

namespace Grenad.SrcTie
open Grenad Grenad.R Grenad.Gen

/-- `varint_encode32(&mut buf, v)` returns exactly the model's bytes, for every value and every
    scratch buffer of at least 5 bytes (the only call sites pass `[0; 10]`); the scratch buffer keeps
    its length. -/
theorem src_varint_encode32_full (bs : List UInt8) (v : Nat) (hb : 5 ≤ bs.length) :
    ∃ bs', varint_encode32 bs v = .ok (Varint.encode32 v, bs') ∧ bs'.length = bs.length := by
  obtain ⟨b0, b1, b2, b3, b4, rest, rfl⟩ : ∃ b0 b1 b2 b3 b4 rest, bs = b0 :: b1 :: b2 :: b3 :: b4 :: rest := by
    match bs, hb with
    | b0 :: b1 :: b2 :: b3 :: b4 :: rest, _ => exact ⟨_, _, _, _, _, _, rfl⟩
  unfold varint_encode32 Varint.encode32
  by_cases h7 : v < 2 ^ 7
  · simp [shl, setIdx, sliceTo, castU, bind, Except.bind, pure, Except.pure, h7]
  by_cases h14 : v < 2 ^ 14
  · simp [shl, shr, setIdx, sliceTo, castU, bind, Except.bind, pure, Except.pure, h7, h14,
      or128_mod256, Nat.shiftRight_eq_div_pow]
  by_cases h21 : v < 2 ^ 21
  · simp [shl, shr, setIdx, sliceTo, castU, bind, Except.bind, pure, Except.pure, h7, h14, h21,
      or128_mod256, Nat.shiftRight_eq_div_pow]
  by_cases h28 : v < 2 ^ 28
  · simp [shl, shr, setIdx, sliceTo, castU, bind, Except.bind, pure, Except.pure, h7, h14, h21, h28,
      or128_mod256, Nat.shiftRight_eq_div_pow]
  · simp [shl, shr, setIdx, sliceTo, castU, bind, Except.bind, pure, Except.pure, h7, h14, h21, h28,
      or128_mod256, Nat.shiftRight_eq_div_pow]

theorem src_varint_encode32 (bs : List UInt8) (v : Nat) (hb : 5 ≤ bs.length) :
    (varint_encode32 bs v).map Prod.fst = .ok (Varint.encode32 v) := by
  obtain ⟨bs', h, _⟩ := src_varint_encode32_full bs v hb
  simp [h, Except.map]

/-- the body of the `for` loop of `varint_length_packed`, as the translator emits it -/
def lpBody (d : List UInt8) {α} (_ : α) (s : Nat) : M (ForInStep Nat) :=
  Except.bind (idx d s) fun b =>
    if (b.toNat &&& 128 == 0) = true then Except.pure (ForInStep.done s)
    else Except.bind (add 64 s 1) fun s' => Except.pure (ForInStep.yield s')

theorem lpBody_stop (d : List UInt8) {α} (a : α) (i : Nat) (h : i < d.length) (hb : d[i].toNat < 128) :
    lpBody d a i = .ok (.done i) := by
  have hidx : idx d i = .ok d[i] := by simp [idx, h, pure, Except.pure]
  have h0 : d[i].toNat &&& 128 = 0 := (and128_eq_zero_iff _ (UInt8.toNat_lt _)).mpr hb
  simp [lpBody, hidx, Except.bind, h0, Except.pure]

theorem lpBody_go (d : List UInt8) {α} (a : α) (i : Nat) (h : i < d.length) (hd : d.length < 2 ^ 64)
    (hb : ¬ d[i].toNat < 128) : lpBody d a i = .ok (.yield (i + 1)) := by
  have hidx : idx d i = .ok d[i] := by simp [idx, h, pure, Except.pure]
  have h0 : ¬ d[i].toNat &&& 128 = 0 := fun h => hb ((and128_eq_zero_iff _ (UInt8.toNat_lt _)).mp h)
  have hadd : add 64 i 1 = .ok (i + 1) := by
    have : i + 1 < 2 ^ 64 := by omega
    simp [add, pure, Except.pure, this]
  simp [lpBody, hidx, Except.bind, h0, Except.pure, hadd]

theorem lp_loop (d : List UInt8) (hd : d.length < 2 ^ 64) {α} (l : List α) :
    ∀ i, i + l.length = d.length →
    forIn l i (lpBody d)
      = (.ok (i + ((d.drop i).takeWhile (fun b => decide (128 ≤ b.toNat))).length) : M Nat) := by
  induction l with
  | nil =>
    intro i hi
    simp at hi
    simp [hi, pure, Except.pure]
  | cons a l ih =>
    intro i hi
    simp only [List.length_cons] at hi
    have hlt : i < d.length := by omega
    have hdrop : d.drop i = d[i] :: d.drop (i + 1) := by simp
    have htw : (d.drop i).takeWhile (fun b => decide (128 ≤ b.toNat))
        = if 128 ≤ d[i].toNat then d[i] :: (d.drop (i + 1)).takeWhile (fun b => decide (128 ≤ b.toNat)) else [] := by
      rw [hdrop, List.takeWhile_cons]; simp
    rw [List.forIn_cons, htw]
    by_cases hb : d[i].toNat < 128
    · rw [lpBody_stop d a i hlt hb, if_neg (by omega)]
      simp [bind, Except.bind, pure, Except.pure]
    · rw [lpBody_go d a i hlt hd hb, if_pos (by omega)]
      simp only [bind, Except.bind]
      rw [ih (i + 1) (by omega)]
      simp only [List.length_cons]
      congr 1; omega

theorem src_varint_length_packed (d : List UInt8) (hd : d.length < 2 ^ 32) :
    varint_length_packed d = .ok (Varint.lengthPacked d) := by
  unfold varint_length_packed
  have hl := lp_loop d (by omega) (List.range' 0 (d.length - 0)) 0 (by simp)
  simp only [bind, pure]
  show Except.bind (forIn (List.range' 0 (d.length - 0)) 0 (lpBody d)) _ = _
  rw [hl]
  simp only [Except.bind, List.drop_zero, Nat.zero_add, Varint.lengthPacked]
  have hle : (List.takeWhile (fun b => decide (128 ≤ b.toNat)) d).length ≤ d.length :=
    (List.takeWhile_sublist _).length_le
  generalize (List.takeWhile (fun b => decide (128 ≤ b.toNat)) d).length = n at hle ⊢
  by_cases h : n = d.length
  · simp [h, Except.pure]
  · have h1 : n + 1 < 2 ^ 32 := by omega
    have h2 : n % 2 ^ 32 = n := Nat.mod_eq_of_lt (by omega)
    simp [h, add, castU, pure, Except.pure, h2, h1]

theorem lengthPacked_le (d : List UInt8) : Varint.lengthPacked d ≤ d.length := by
  unfold Varint.lengthPacked
  have hle : (List.takeWhile (fun b => decide (128 ≤ b.toNat)) d).length ≤ d.length :=
    (List.takeWhile_sublist _).length_le
  simp only
  split <;> omega

theorem idx_ok {α} (l : List α) (i : Nat) (h : i < l.length) : idx l i = .ok l[i] := by
  simp [idx, h, pure, Except.pure]

theorem shl32 (x k : Nat) (hk : k < 32) (hx : x * 2 ^ k < 2 ^ 32) : shl 32 x k = .ok (x * 2 ^ k) := by
  simp [shl, hk, pure, Except.pure, Nat.shiftLeft_eq, Nat.mod_eq_of_lt hx]

theorem or_shl_mod (a b k : Nat) (hk : k ≤ 32) (ha : a < 2 ^ k) :
    a ||| (b <<< k) % 4294967296 = a + (b * 2 ^ k) % 4294967296 := by
  show a ||| (b <<< k) % 2 ^ 32 = a + (b * 2 ^ k) % 2 ^ 32
  have h32 : 2 ^ 32 = 2 ^ (32 - k) * 2 ^ k := by rw [← Nat.pow_add]; congr 1; omega
  rw [Nat.shiftLeft_eq, h32, Nat.mul_mod_mul_right]
  have := or_shl a (b % 2 ^ (32 - k)) k ha
  rw [Nat.shiftLeft_eq] at this
  exact this

theorem src_varint_decode32 (data : List UInt8) (v0 : Nat) :
    varint_decode32 data v0 =
      match Varint.decode32 data with
      | some (v, n) => .ok (n, v)
      | none => .error (.panic "index out of bounds") := by
  unfold varint_decode32 Varint.decode32
  have hmin : min data.length 5 ≤ data.length := Nat.min_le_left _ _
  have hslice : sliceTo data (min data.length 5) = .ok (data.take 5) := by
    simp [sliceTo, pure, Except.pure, hmin, List.take_eq_take_iff]
    omega
  have hlp := src_varint_length_packed (data.take 5) (by simp; omega)
  have hlen := lengthPacked_le (data.take 5)
  simp only [List.length_take] at hlen
  cases data with
  | nil => simp [bind, Except.bind, hslice, hlp, idx, pure, Except.pure]; rfl
  | cons d0 t =>
    simp only [bind, Except.bind, hslice, hlp, pure, Except.pure]
    generalize hL : Varint.lengthPacked (List.take 5 (d0 :: t)) = len at hlen ⊢
    have hcases : len = 0 ∨ len = 1 ∨ len = 2 ∨ len = 3 ∨ len = 4 ∨ len = 5 := by omega
    have m0 := Nat.mod_lt d0.toNat (show 128 > 0 by decide)
    rcases t with _ | ⟨d1, _ | ⟨d2, _ | ⟨d3, _ | ⟨d4, t'⟩⟩⟩⟩ <;>
    rcases hcases with h | h | h | h | h | h <;> subst h
    all_goals first
      | (exfalso; simp only [List.length_cons, List.length_nil] at hlen; omega)
      | (simp (disch := omega) [idx, shl, and127, pure, Except.pure, or_shl_mod, List.getElem?_cons_zero, List.getElem?_cons_succ, List.getD_cons_succ, List.getD_cons_zero]; done)
      | (simp (disch := omega) [idx, shl, and127, pure, Except.pure, or_shl_mod, List.getElem?_cons_zero, List.getElem?_cons_succ, List.getD_cons_succ, List.getD_cons_zero]; omega)

end Grenad.SrcTie
