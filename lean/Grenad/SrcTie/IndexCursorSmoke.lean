/-
  Grenad.SrcTie.IndexCursorSmoke — non-vacuity of the `IndexBlockCursor` tie: on a concrete two-level index
  (a root index block over two leaf index blocks, uncompressed) the TRANSLATED `IndexBlockCursor::move_on_*`
  functions return (no panic, no `Err`), all hypotheses of the `src_index_*` theorems hold, and the theorems
  deliver the model's answer.  Evaluation by the kernel (`decide +kernel`), nothing assumed.
-/
import Grenad.SrcTie.IndexCursor

namespace Grenad.SrcTie.IdxSmoke
open Grenad Grenad.R Grenad.Gen Grenad.SrcTie

/-- one entry frame (lengths < 128: one-byte varints) -/
def frame (k v : Bytes) : Bytes := [k.length.toUInt8, v.length.toUInt8] ++ k ++ v

/-- a block with a single table offset `0`: length prefix, payload, table, table size -/
def blockBytes (es : List (Bytes × Bytes)) : Bytes :=
  let payload := es.flatMap fun (k, v) => frame k v
  let raw := payload ++ beBytes 8 0 ++ beBytes 4 1
  beBytes 8 raw.length ++ raw

def leaf1 : Bytes := blockBytes [([1], beBytes 8 1000), ([2], beBytes 8 2000)]
def leaf2 : Bytes := blockBytes [([3], beBytes 8 3000), ([4], beBytes 8 4000)]
/-- the root: last key of each leaf ↦ offset of the leaf -/
def root : Bytes := blockBytes [([2], beBytes 8 0), ([4], beBytes 8 leaf1.length)]

def file : Bytes := leaf1 ++ leaf2 ++ root

def s0 : Gen.IndexBlockCursor :=
  { base_block_offset := leaf1.length + leaf2.length, compression_type := .none, index_levels := 1, inner := none }

def rd0 : Src := { bytes := file, pos := 0 }

abbrev dec : CompressionType → List UInt8 → Option (List UInt8) := fun _ => Codec.none.decompress

/-- first, three times next (crossing into the second leaf: a reload), next at the end, prev back across the
    boundary, a seek, last — all on translated code -/
def run : M (List (Option (List UInt8 × List UInt8))) := do
  let (a, s, rd) ← IndexBlockCursor.move_on_first dec s0 rd0
  let (b, s, rd) ← IndexBlockCursor.move_on_next dec s rd
  let (c, s, rd) ← IndexBlockCursor.move_on_next dec s rd
  let (d, s, rd) ← IndexBlockCursor.move_on_next dec s rd
  let (e, s, rd) ← IndexBlockCursor.move_on_next dec s rd
  let (f, s, rd) ← IndexBlockCursor.move_on_key_greater_than_or_equal_to dec s [2] rd
  let (g, s, rd) ← IndexBlockCursor.move_on_next dec s rd
  let (h, s, rd) ← IndexBlockCursor.move_on_prev dec s rd
  let (i, _, _) ← IndexBlockCursor.move_on_last dec s rd
  pure [a, b, c, d, e, f, g, h, i]

def okOf {α} : M α → Option α
  | .ok v => some v
  | .error _ => none

example : okOf run = some [some ([1], beBytes 8 1000), some ([2], beBytes 8 2000), some ([3], beBytes 8 3000),
    some ([4], beBytes 8 4000), none, some ([2], beBytes 8 2000), some ([3], beBytes 8 3000),
    some ([2], beBytes 8 2000), some ([4], beBytes 8 4000)] := by
  decide +kernel

/-! the hypotheses of the theorems on this file -/

theorem small : SmallBlocks Codec.none file := smallBlocks_none file (by decide +kernel)

theorem good0 : GoodIdx (fun _ => True) s0 := goodIdx_none _ s0 rfl

/-- the translated `move_on_first` returns on this file … -/
theorem first_returns : ∃ s' rd', IndexBlockCursor.move_on_first dec s0 rd0 = .ok (some ([1], beBytes 8 1000), s', rd') := by
  have h : (okOf (IndexBlockCursor.move_on_first dec s0 rd0)).map (·.1) = some (some ([1], beBytes 8 1000)) := by
    decide +kernel
  cases hx : IndexBlockCursor.move_on_first dec s0 rd0 with
  | error e => rw [hx] at h; cases h
  | ok x =>
    obtain ⟨r, s', rd'⟩ := x
    rw [hx] at h
    simp only [okOf, Option.map_some, Option.some.injEq] at h
    subst h
    exact ⟨s', rd', rfl⟩

/-- … so the theorem applies: the model's `iterIndex` returns the same entry, from the abstraction of `s0`. -/
example : ∃ c', RC.iterIndex byteOps (loadCursor Codec.none file) .first
    { base := s0.base_block_offset, levels := 1, inner := none, cur := none, log := [] }
      = some (c', some ([1], beBytes 8 1000)) := by
  obtain ⟨s', rd', h⟩ := first_returns
  obtain ⟨log', hm, _⟩ := src_index_move_on_first Codec.none file (fun _ => True) small (loadsQ_true _ _)
    s0 good0 rd0 rfl none [] _ s' rd' h
  exact ⟨_, hm⟩

/-- `SortedBlock` is met by the blocks of this file that the cursor visits (and `LoadsQ … SortedBlock` by any
    file all of whose parsable blocks are sorted); here for the root block. -/
example : ∃ b, loadBlock Codec.none file s0.base_block_offset = some b ∧ b.offsets.Pairwise (· < ·) := by
  refine ⟨{ payload := (root.drop 8).take 22, offsets := [0] }, by decide +kernel, by simp⟩

end Grenad.SrcTie.IdxSmoke
