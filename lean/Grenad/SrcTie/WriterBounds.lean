/-
  Grenad.SrcTie.WriterBounds — the `usize` bounds `WSmall` assumed by the whole-run tie hold on every state of
  a run of fewer than 2^26 entries with key and value lengths below 2^32 (the writer rejects longer ones):
  a consequence of the writer invariant `W.Inv` (every block writer is reachable from an empty one by
  successful inserts, and the keys held by all of them form a sublist of the input keys).
-/
import Grenad.SrcTie.WriterRun

set_option linter.unusedSimpArgs false
set_option linter.unusedVariables false

namespace Grenad.SrcTie
open Grenad Grenad.R Grenad.Gen

theorem reach_counter_le {iv : Nat} {w : BW} (h : BW.Reach iv w) (hiv : 1 ≤ iv) :
    w.counter ≤ w.interval ∧ w.interval = iv := by
  induction h with
  | new => exact ⟨by simp [BW.new], rfl⟩
  | step hp hins ih =>
    have hc := bw_counter_insert hins
    have hi := (BW.insert_ok hins).2.2.2.2.2.2.1
    refine ⟨?_, by rw [hi]; exact ih.2⟩
    rw [hc, hi]
    split <;> omega

theorem reach_sizes {iv : Nat} {w : BW} (h : BW.Reach iv w) :
    w.offsets.length ≤ w.items.length + 1 ∧ w.buffer.length ≤ w.items.length * 2 ^ 34 := by
  induction h with
  | new => simp [BW.new]
  | @step p w' k v hp hins ih =>
    obtain ⟨hk, hv, _, hb, _, hit, _, ho⟩ := BW.insert_ok hins
    have hu : u32Max = 4294967295 := rfl
    have b1 := encode32_length_le k.length
    have b2 := encode32_length_le v.length
    have i1 := ih.1
    have i2 := ih.2
    refine ⟨?_, ?_⟩
    · rw [hit]; rcases ho with ho | ho <;> rw [ho] <;> simp <;> omega
    · rw [hb, hit, List.length_append, List.length_append, frame_length]
      simp only [List.length_cons, List.length_nil]
      omega


theorem bwKeys_length_le_allKeys {idx : List BW} {b : BW} (hb : b ∈ idx) : b.items.length ≤ (allKeys idx).length := by
  induction idx with
  | nil => cases hb
  | cons a t ih =>
    simp only [allKeys_cons, List.length_append]
    rcases List.mem_cons.mp hb with h | h
    · subst h; simp [bwKeys]
    · have := ih h; omega

/-- every state of a run over `pre` (at most `n` entries) is within the bounds -/
theorem wsmall_of_go (cd : Codec) (cfg : WCfg) (pre : List Entry) (w' : W) (n : Nat)
    (hiv : 1 ≤ cfg.interval) (hiv2 : cfg.interval < 2 ^ 64) (hn : pre.length ≤ n) (hn2 : n < 2 ^ 26)
    (hgo : W.run.go cd (W.new cfg) pre = .ok w') : WSmall w' := by
  obtain ⟨hcfg, hI, hcount, _, hsub, _⟩ := (W.go_spec cd pre (W.new cfg) (W.inv_new cfg)).1 w' hgo
  have hcfg' : w'.cfg = cfg := hcfg
  rw [W.keys_new, List.nil_append] at hsub
  have hklen : (W.keys w').length ≤ n := by
    have := hsub.length_le
    simp only [List.length_map] at this
    omega
  simp only [W.keys, List.length_append] at hklen
  have hbwk : (bwKeys w'.bw).length = w'.bw.items.length := by simp [bwKeys]
  have small : ∀ b : BW, BW.Reach cfg.interval b → b.items.length ≤ n → BWSmall b := by
    intro b hr hl
    obtain ⟨c1, c2⟩ := reach_counter_le hr hiv
    obtain ⟨s1, s2⟩ := reach_sizes hr
    refine ⟨c1, by rw [c2]; exact hiv, by rw [c2]; exact hiv2, ?_, by omega⟩
    have : b.items.length * 2 ^ 34 ≤ n * 2 ^ 34 := Nat.mul_le_mul_right _ hl
    have h2 : n * 2 ^ 34 < 2 ^ 26 * 2 ^ 34 := Nat.mul_lt_mul_of_pos_right hn2 (by decide)
    have h3 : (2 : Nat) ^ 26 * 2 ^ 34 = 2 ^ 60 := by decide
    omega
  refine ⟨small _ (hcfg' ▸ hI.bwR) (by omega), ?_, ?_, ?_⟩
  · intro i hi
    have hmem : w'.idx[i] ∈ w'.idx := List.getElem_mem hi
    exact small _ (hcfg' ▸ hI.idxR _ hmem) (by have := bwKeys_length_le_allKeys hmem; omega)
  · have : w'.count = pre.length := by simpa [W.new] using hcount
    omega
  · rw [hI.len]; omega

/-- **C01 for the bytes the regenerated writer produces, with explicit size limits only**: fewer than 2^26
    entries, keys and values shorter than 2^32, `index_key_interval` a nonzero `usize`, a compressor whose output on
    blocks shorter than 2^63 bytes is shorter than 2^64 bytes (jointly satisfiable with `cd.Lawful`, e.g. by
    `Codec.none`: `FrtSmoke.builder_hyps_sat`, SrcTie/FullRoundTrip.lean). -/
theorem src_C01_writer_roundtrip_bounded (cd : Codec) (cfg : WCfg) (es : List Entry) (ct : CompressionType) (lvl : Nat)
    (hlaw : cd.Lawful) (hid : cd.id ≤ 5) (hlv : cfg.levels ≤ 255) (hiv : 1 ≤ cfg.interval) (hiv2 : cfg.interval < 2 ^ 64)
    (hasc : StrictAsc es) (hlens : ∀ e ∈ es, e.1.length < 2 ^ 32 ∧ e.2.length < 2 ^ 32)
    (hcount : es.length < 2 ^ 26)
    (hcd : ∀ b : Bytes, b.length < 2 ^ 63 → (cd.compress b).length < 2 ^ 64) (hct : ct.toNat = cd.id) :
    ∃ file log, genWriterRun (codecFn cd) (genWriterNew cfg ct lvl) es = .ok file ∧ W.run cd cfg es = .ok (file, log) ∧
      (file.length < 2 ^ 64 → (∀ e ∈ log, e.raw.length < 2 ^ 32) →
        ∃ m, Meta.parse file = .ok m ∧
          m.count = es.length ∧ m.codec = cd.id ∧ m.version = 2 ∧ m.levels = cfg.levels ∧
          Props.C01.scanForward cd file (es.length + 1) (RC.new m) =
            es.map (fun e => Res.ok (some e)) ++ [Res.ok none] ∧
          Props.C01.scanBackward cd file (es.length + 1) (RC.new m) =
            es.reverse.map (fun e => Res.ok (some e)) ++ [Res.ok none]) :=
  src_C01_writer_roundtrip cd cfg es ct lvl hlaw hid hlv hiv hasc hlens (by omega) hcd hct
    (fun pre w' hp hgo => wsmall_of_go cd cfg pre w' es.length hiv hiv2 hp.length_le hcount hgo)

end Grenad.SrcTie
