/-
  Grenad.SrcTie.WriterRun — part 5: whole runs.  Any number of translated `insert`s followed by the translated
  `into_inner` produce exactly the bytes of the model's `W.run`; hence C01's round trip for the bytes the
  regenerated writer produces.
-/
import Grenad.SrcTie.WriterFinish
import Grenad.Props.C01
import Grenad.Proofs.WriterInvRun

set_option linter.unusedSimpArgs false
set_option linter.unusedVariables false

namespace Grenad.SrcTie
open Grenad Grenad.R Grenad.Gen

/-! ### whole runs: any number of `insert`s, then `into_inner` -/

/-- size bounds on a model block writer under which the translated code cannot overflow a `usize` -/
def BWSmall (bw : BW) : Prop :=
  bw.counter ≤ bw.interval ∧ 1 ≤ bw.interval ∧ bw.interval < 2 ^ 64 ∧ bw.buffer.length < 2 ^ 61 ∧ bw.offsets.length < 2 ^ 30

/-- … on a model writer: every block writer below 2 EiB / 2^30 index offsets, fewer than 2^64 entries,
    at least the root index level -/
def WSmall (w : W) : Prop :=
  BWSmall w.bw ∧ (∀ i (h : i < w.idx.length), BWSmall w.idx[i]) ∧ w.count + 1 < 2 ^ 64 ∧ 0 < w.idx.length

theorem small_of_mBW {x : Gen.BlockWriter} {bw : BW} (h : mBW x bw) (hs : BWSmall bw) : Small (2 ^ 61) (2 ^ 30) x := by
  obtain ⟨a, b, c, d, e⟩ := hs
  have e1 : x.buffer = bw.buffer := by rw [← h]; rfl
  have e2 : x.index_key_interval = bw.interval := by rw [← h]; rfl
  have e3 : x.index_offsets = bw.offsets := by rw [← h]; rfl
  have e4 : x.index_key_counter = bw.counter := by rw [← h]; rfl
  exact ⟨by rw [e4, e2]; exact a, by rw [e2]; exact b, by rw [e2]; exact c, by rw [e1]; exact d, by rw [e3]; exact e⟩

theorem smallW_of {g : Gen.Writer} {w : W} (hr : RW g w) (hw : WSmall w) : SmallW g := by
  obtain ⟨h1, h2, h3, h4⟩ := hw
  have hlen : g.index_block_writers.length = w.idx.length := hr.idx.1
  refine ⟨small_of_mBW hr.bw h1, ?_, by rw [hr.count]; exact h3, by rw [hlen]; exact h4⟩
  intro t ht
  have ht' : t < w.idx.length := by rw [← hlen]; exact ht
  rw [get!_eq _ t ht]
  exact small_of_mBW (hr.idx.2 t ht ht') (h2 t ht')

/-- the translated `insert` folded over a list of entries -/
def genWriterGo (C : CompressFn) : Gen.Writer → List Entry → M Gen.Writer
  | g, [] => pure g
  | g, (k, v) :: rest => do
    let g' ← Gen.Writer.insert C g k v
    genWriterGo C g' rest

/-- the translated writer run: all inserts, then `into_inner` -/
def genWriterRun (C : CompressFn) (g : Gen.Writer) (kvs : List Entry) : M Sink := do
  let g' ← genWriterGo C g kvs
  Gen.Writer.into_inner C g'

/-- the model's run from a given state (`W.run` is this from `W.new cfg`) -/
def runFrom (cd : Codec) (w : W) (kvs : List Entry) : Except Trap (Bytes × List Emitted) :=
  match W.run.go cd w kvs with
  | .error t => .error t
  | .ok w' => W.finish cd w'

theorem run_eq_runFrom (cd : Codec) (cfg : WCfg) (kvs : List Entry) : W.run cd cfg kvs = runFrom cd (W.new cfg) kvs := rfl

/-- **Whole-run tie.**  From related states, the translated `insert`s followed by the translated
    `into_inner` produce exactly the model's file bytes — for every entry list, every number of index
    levels, every block size and every codec — or panic where the model traps; provided the model's
    intermediate states stay within the `usize` bounds `WSmall`. -/
theorem src_writer_run (cd : Codec) (hcd : ∀ b : Bytes, b.length < 2 ^ 63 → (cd.compress b).length < 2 ^ 64) :
    ∀ (kvs : List Entry) (g : Gen.Writer) (w : W), RW g w → g.compression_type.toNat = cd.id →
    (∀ pre w', pre <+: kvs → W.run.go cd w pre = .ok w' → WSmall w') →
    match runFrom cd w kvs with
    | .ok (file, _) => genWriterRun (codecFn cd) g kvs = .ok file
    | .error _ => ∃ msg, genWriterRun (codecFn cd) g kvs = .error (.panic msg) := by
  intro kvs
  induction kvs with
  | nil =>
    intro g w hr hct hsm
    have hw : WSmall w := hsm [] w (List.nil_prefix) rfl
    have h := src_writer_into_inner cd hcd g w hr (smallW_of hr hw) hct
    simp only [runFrom, W.run.go, genWriterRun, genWriterGo, bind, Except.bind, pure, Except.pure]
    exact h
  | cons kv rest ih =>
    intro g w hr hct hsm
    obtain ⟨k, v⟩ := kv
    have hw : WSmall w := hsm [] w (List.nil_prefix) rfl
    have hins := src_writer_insert cd hcd g w k v hr (smallW_of hr hw)
    simp only [runFrom, W.run.go, genWriterRun, genWriterGo, bind, Except.bind]
    cases hi : W.insert cd w k v with
    | error t =>
      rw [hi] at hins
      obtain ⟨msg, hmsg⟩ := hins
      exact ⟨msg, by simp only [hmsg]⟩
    | ok w1 =>
      rw [hi] at hins
      obtain ⟨g1, hg1, hr1, hc1, _, _⟩ := hins
      simp only [hg1]
      have hrec := ih g1 w1 hr1 (by rw [hc1]; exact hct) (by
        intro pre w' hp hgo
        refine hsm ((k, v) :: pre) w' ?_ ?_
        · obtain ⟨t, ht⟩ := hp
          exact ⟨t, by rw [← ht]; rfl⟩
        · simp only [W.run.go, hi]; exact hgo)
      simp only [runFrom, genWriterRun, bind, Except.bind] at hrec
      exact hrec


/-! ### from a fresh writer -/

/-- a fresh translated block writer (what `BlockWriterBuilder::build` constructs) -/
def bwNew (iv : Nat) : Gen.BlockWriter :=
  { buffer := [], last_key := none, index_key_interval := iv, index_offsets := [0], index_key_counter := 0 }

/-- the state `WriterBuilder::build` constructs (struct construction, not translated): empty block writers,
    `index_levels + 1` index block writers, the clamped block size, an empty sink -/
def genWriterNew (cfg : WCfg) (ct : CompressionType) (lvl : Nat) : Gen.Writer :=
  { block_writer := bwNew cfg.interval, index_block_writers := List.replicate (cfg.levels + 1) (bwNew cfg.interval),
    compression_type := ct, compression_level := lvl, block_size := cfg.clamped, entries_count := 0, writer := [] }

theorem rw_new (cfg : WCfg) (ct : CompressionType) (lvl : Nat) : RW (genWriterNew cfg ct lvl) (W.new cfg) := by
  refine ⟨rfl, ⟨by simp [genWriterNew, W.new], ?_⟩, rfl, rfl, rfl⟩
  intro i h1 h2
  simp only [genWriterNew, W.new, List.getElem_replicate]
  rfl

/-- **C01 for the bytes the regenerated writer produces.**  For every lawful codec, configuration and
    strictly ascending input, the translated `Writer::insert`s followed by the translated
    `Writer::into_inner`, started from a fresh writer, return a file — the model's — that opens, reports
    count and codec, and scans back exactly the inserted entries, forwards and backwards (through the
    model's byte-level reader; its block level is tied to the source in `SrcTie.EndToEnd`). -/
theorem src_C01_writer_roundtrip (cd : Codec) (cfg : WCfg) (es : List Entry) (ct : CompressionType) (lvl : Nat)
    (hlaw : cd.Lawful) (hid : cd.id ≤ 5) (hlv : cfg.levels ≤ 255) (hiv : 1 ≤ cfg.interval)
    (hasc : StrictAsc es) (hlens : ∀ e ∈ es, e.1.length < 2 ^ 32 ∧ e.2.length < 2 ^ 32)
    (hcount : es.length < 2 ^ 64)
    (hcd : ∀ b : Bytes, b.length < 2 ^ 63 → (cd.compress b).length < 2 ^ 64) (hct : ct.toNat = cd.id)
    (hsmall : ∀ pre w', pre <+: es → W.run.go cd (W.new cfg) pre = .ok w' → WSmall w') :
    ∃ file log, genWriterRun (codecFn cd) (genWriterNew cfg ct lvl) es = .ok file ∧ W.run cd cfg es = .ok (file, log) ∧
      (file.length < 2 ^ 64 → (∀ e ∈ log, e.raw.length < 2 ^ 32) →
        ∃ m, Meta.parse file = .ok m ∧
          m.count = es.length ∧ m.codec = cd.id ∧ m.version = 2 ∧ m.levels = cfg.levels ∧
          Props.C01.scanForward cd file (es.length + 1) (RC.new m) =
            es.map (fun e => Res.ok (some e)) ++ [Res.ok none] ∧
          Props.C01.scanBackward cd file (es.length + 1) (RC.new m) =
            es.reverse.map (fun e => Res.ok (some e)) ++ [Res.ok none]) := by
  obtain ⟨file, log, hrun, hread⟩ := Props.C01.C01_roundtrip cd cfg es hlaw hid hlv hiv hasc hlens hcount
  have h := src_writer_run cd hcd es (genWriterNew cfg ct lvl) (W.new cfg) (rw_new cfg ct lvl) hct hsmall
  rw [← run_eq_runFrom, hrun] at h
  exact ⟨file, log, h, hrun, hread⟩

/-- **C18 on the regenerated `Writer::insert`**: a key that is not strictly above the last key of the block
    under construction makes the translated `insert` panic — nothing is written. -/
theorem src_C18_writer_rejects_unsorted (cd : Codec) (hcd : ∀ b : Bytes, b.length < 2 ^ 63 → (cd.compress b).length < 2 ^ 64) (g : Gen.Writer)
    (w : W) (k v lk : Bytes) (hr : RW g w) (hs : SmallW g) (hk : k.length ≤ u32Max) (hv : v.length ≤ u32Max)
    (hl : w.bw.lastKey = some lk) (hn : ¬ lk < k) :
    ∃ msg, Gen.Writer.insert (codecFn cd) g k v = .error (.panic msg) := by
  have h := src_writer_insert cd hcd g w k v hr hs
  rw [W.insert_keyOrder cd w hk hv hl hn] at h
  exact h

/-- … and the state the translated `insert` returns always carries the inserted key as the last key of the
    block under construction, or an empty block under construction (the block was cut): the next call is
    checked against it. -/
theorem src_C18_writer_tracks_last_key (cd : Codec) (hcd : ∀ b : Bytes, b.length < 2 ^ 63 → (cd.compress b).length < 2 ^ 64) (g g' : Gen.Writer)
    (w : W) (k v : Bytes) (hr : RW g w) (hs : SmallW g)
    (h : Gen.Writer.insert (codecFn cd) g k v = .ok g') :
    ∃ w', W.insert cd w k v = .ok w' ∧ RW g' w' ∧ g'.block_writer.last_key = w'.bw.lastKey := by
  have hsim := src_writer_insert cd hcd g w k v hr hs
  cases hi : W.insert cd w k v with
  | error t =>
    rw [hi] at hsim
    obtain ⟨msg, hmsg⟩ := hsim
    rw [hmsg] at h
    cases h
  | ok w' =>
    rw [hi] at hsim
    obtain ⟨g1, hg1, hr1, _⟩ := hsim
    rw [hg1] at h
    cases h
    refine ⟨w', rfl, hr1, ?_⟩
    have := hr1.bw
    rw [← this]
    rfl

/-! ### the hypotheses are met by real executions (kernel evaluation, a test) -/

namespace WriterSmoke

def cfgS : WCfg := { blockSize := 0, minBlock := 40, interval := 2, levels := 2 }

def esS : List Entry :=
  (List.range 12).map (fun i => ([i.toUInt8, 7], List.replicate (i % 5 * 3) (i.toUInt8)))

def okOf {α} : M α → Option α
  | .ok v => some v
  | .error _ => none

def fileOf : Except Trap (Bytes × List Emitted) → Option Bytes
  | .ok (f, _) => some f
  | .error _ => none

def blocksOf : Except Trap (Bytes × List Emitted) → Nat
  | .ok (_, l) => l.length
  | .error _ => 0

/-- twelve entries, 40-byte blocks, three index levels: the translated writer, evaluated by the kernel,
    returns the very bytes of the model's run (several data blocks and index levels are cut on the way) -/
example : okOf (genWriterRun (codecFn Codec.none) (genWriterNew cfgS .none 0) esS) = fileOf (W.run Codec.none cfgS esS) ∧
    (fileOf (W.run Codec.none cfgS esS)).isSome = true ∧ 5 ≤ blocksOf (W.run Codec.none cfgS esS) := by
  decide +kernel

end WriterSmoke

end Grenad.SrcTie
