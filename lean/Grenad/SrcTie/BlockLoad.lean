/-
  Grenad.SrcTie.BlockLoad — translator tie for `Block::read_from` of src/block.rs (regenerated from
  /repo/src on every run): reading the length prefix, handing at most `block_len` bytes to the
  external codec and interpreting the footer is the model's `loadBlockLen` / `Block.parse`.
  The codec is a parameter on both sides (`decompress` of the compression crates is not translated).
-/
import Grenad.Generated.Src.SrcBlock
import Grenad.Model.Reader
import Grenad.SrcTie.Block
import Grenad.SrcTie.Meta

set_option linter.unusedSimpArgs false
set_option linter.unusedVariables false

namespace Grenad.SrcTie
open Grenad Grenad.R Grenad.Gen

theorem beValue_eq_beVal (bs : List UInt8) : beValue bs = beVal bs := by
  simp [beValue, beVal, leValue_eq_leVal]

theorem leVal_lt : ∀ (l : List UInt8), leVal l < 256 ^ l.length
  | [] => by simp [leVal]
  | b :: bs => by
    have := leVal_lt bs
    have hb := UInt8.toNat_lt b
    simp only [leVal, List.length_cons, Nat.pow_succ]
    omega

theorem beVal_lt (l : List UInt8) : beVal l < 256 ^ l.length := by
  have := leVal_lt l.reverse
  simpa [beVal] using this

/-- `chunks_exact(8)` of exactly `cnt * 8` bytes is the model's `be64s cnt`. -/
theorem chunksBE_eq_be64s : ∀ (cnt : Nat) (bs : List UInt8), bs.length = cnt * 8 →
    chunksBE 8 bs = Grenad.Block.be64s cnt bs
  | 0, bs, h => by
    have : bs = [] := List.eq_nil_of_length_eq_zero (by omega)
    subst this
    unfold chunksBE
    simp [Grenad.Block.be64s]
  | cnt + 1, bs, h => by
    unfold chunksBE
    have h8 : ¬ bs.length < 8 := by omega
    simp only [h8, if_false, Grenad.Block.be64s, beValue_eq_beVal]
    rw [chunksBE_eq_be64s cnt (bs.drop 8) (by simp; omega)]
    simp

/-- The translated `Block::read_from`, run on a source positioned at `off`, against the model's
    `loadBlockLen`: when the model loads a block the code returns the same block (payload, offset
    table) and leaves `payload_size` inside the buffer; when the model has no block (short header,
    codec error, footer larger than the buffer) the code fails — an `Err` or a bounds panic — and
    never returns a block. -/
theorem src_block_read_from (cd : Codec) (b0 : Gen.Block) (file : Bytes) (off : Nat) :
    match loadBlockLen cd file off with
    | some (blk, _) =>
        ∃ b', Gen.Block.read_from (fun _ => cd.decompress) b0 { bytes := file, pos := off } = .ok b'
          ∧ toBlock b' = blk ∧ b'.payload_size ≤ b'.buffer.length
          ∧ b'.compression_type = b0.compression_type
    | none => ∃ e, Gen.Block.read_from (fun _ => cd.decompress) b0 { bytes := file, pos := off } = .error e := by
  unfold loadBlockLen Gen.Block.read_from
  simp only [slice?]
  by_cases hh : off + 8 ≤ file.length
  · simp only [hh, if_true, Src.readBE, Src.readN, liftIo, bind, Except.bind, pure, Except.pure,
      beValue_eq_beVal, Src.readUpTo]
    generalize hlen : beVal ((file.drop off).take 8) = len
    generalize hbody : (file.drop (off + 8)).take len = body
    cases hdc : cd.decompress body with
    | none => simp [liftDecompress, throw, throwThe, MonadExceptOf.throw]
    | some raw =>
      simp only [liftDecompress, pure, Except.pure, List.nil_append]
      unfold Grenad.Block.parse
      by_cases h4 : raw.length < 4
      · have : ¬ 4 ≤ raw.length := by omega
        simp [h4, sub, this, throw, throwThe, MonadExceptOf.throw]
      · have h4' : 4 ≤ raw.length := by omega
        simp only [h4, if_false, sub, h4', if_true, pure, Except.pure, sliceFrom,
          Nat.sub_le, sliceTo, List.length_drop]
        have h44 : 4 ≤ raw.length - (raw.length - 4) := by omega
        have htk : (raw.drop (raw.length - 4)).take 4 = raw.drop (raw.length - 4) := by
          apply List.take_of_length_le; simp; omega
        simp only [h44, if_true, htk, beValueN, List.length_drop, beValue_eq_beVal]
        have hl4 : raw.length - (raw.length - 4) = 4 := by omega
        simp only [hl4, if_true]
        generalize hcnt : beVal (raw.drop (raw.length - 4)) = cnt
        have hcl : cnt < 2 ^ 32 := by
          have := beVal_lt (raw.drop (raw.length - 4))
          rw [hcnt] at this
          simp only [List.length_drop, hl4] at this
          omega
        have hmul : cnt * 8 < 2 ^ 64 := by omega
        simp only [mul, hmul, if_true, pure, Except.pure]
        by_cases hn : raw.length < 4 + cnt * 8
        · have : ¬ cnt * 8 ≤ raw.length - 4 := by omega
          simp [hn, this, throw, throwThe, MonadExceptOf.throw]
        · have h1 : cnt * 8 ≤ raw.length - 4 := by omega
          have h2 : raw.length - 4 - cnt * 8 ≤ raw.length := by omega
          have h3 : cnt * 8 ≤ raw.length - (raw.length - 4 - cnt * 8) := by omega
          have h5 : cnt * 8 ≤ raw.length := by omega
          have h6 : 4 ≤ raw.length - cnt * 8 := by omega
          simp only [hn, if_false, h1, h2, h3, h5, h6, if_true, Option.map_some, List.length_drop]
          refine ⟨_, rfl, ?_, ?_, rfl⟩
          · simp only [toBlock, List.nil_append]
            have e1 : raw.length - cnt * 8 - 4 = raw.length - 4 - cnt * 8 := by omega
            rw [e1, chunksBE_eq_be64s cnt _ (by simp; omega)]
          · simp only []
            omega
  · simp [hh, Src.readBE, Src.readN, liftIo, bind, Except.bind, throw, throwThe, MonadExceptOf.throw]

end Grenad.SrcTie
