/-
  Grenad.SrcTie.Sorter — translator tie for the buffer arithmetic of src/sorter.rs (regenerated from
  /repo/src on every run): `Entries::{remaining, entry_size, fits, memory_usage,
  estimated_entries_memory_usage, clear}` and `Sorter::threshold_exceeded`, i.e. everything the spill
  decision of `Sorter::insert` is computed from (C08, C07).  `EntryBoundAlignedBuffer` is seen through
  its length only; that it derefs to a slice of exactly `self.len` bytes is checked on the source text.
-/
import Grenad.Generated.Src.SrcSorter
import Grenad.Model.Sorter

set_option linter.unusedSimpArgs false
set_option linter.unusedVariables false

namespace Grenad.SrcTie
open Grenad Grenad.R Grenad.Gen

/-- the translated `Entries` as the model's bookkeeping record (the entry list is ghost) -/
def toEntries (e : Gen.Entries) (items : List Entry) : Grenad.Entries :=
  { bufLen := e.buffer.len, entriesLen := e.entries_len, boundsCount := e.bounds_count, items := items }

theorem src_entries_remaining (e : Gen.Entries) (items : List Entry) (h : e.bounds_count * 16 < 2 ^ 64) :
    match Grenad.Entries.remaining (toEntries e items) with
    | .ok r => Gen.Entries.remaining e = .ok r
    | .error _ => ∃ msg, Gen.Entries.remaining e = .error (.panic msg) := by
  unfold Grenad.Entries.remaining Gen.Entries.remaining
  simp only [toEntries, Grenad.Entries.sub, boundSize, bind, Except.bind, pure, Except.pure, sub, mul, h, if_true]
  by_cases h1 : e.entries_len ≤ e.buffer.len
  · simp only [h1, if_true]
    by_cases h2 : e.bounds_count * 16 ≤ e.buffer.len - e.entries_len
    · simp [h2]
    · simp [h2, throw, throwThe, MonadExceptOf.throw]
  · simp [h1, throw, throwThe, MonadExceptOf.throw]

theorem src_entries_entry_size (k v : Bytes) (h : 16 + k.length + v.length < 2 ^ 64) :
    Gen.Entries.entry_size k v = .ok (Grenad.Entries.entrySize k v) := by
  have h1 : 16 + k.length < 2 ^ 64 := by omega
  simp [Gen.Entries.entry_size, Grenad.Entries.entrySize, boundSize, add, h, h1, bind, Except.bind, pure, Except.pure]

/-- `Entries::fits` is the model's `fits`: same answer whenever the model has one, a panic (checked
    subtraction) exactly where the model traps. -/
theorem src_entries_fits (e : Gen.Entries) (items : List Entry) (k v : Bytes)
    (hb : e.bounds_count * 16 < 2 ^ 64) (hkv : 16 + k.length + v.length < 2 ^ 64) :
    match Grenad.Entries.fits (toEntries e items) k v with
    | .ok b => Gen.Entries.fits e k v = .ok b
    | .error _ => ∃ msg, Gen.Entries.fits e k v = .error (.panic msg) := by
  have hr := src_entries_remaining e items hb
  have hs := src_entries_entry_size k v hkv
  unfold Grenad.Entries.fits Gen.Entries.fits
  simp only [bind, Except.bind, pure, Except.pure, hs, sub]
  have hlive : (toEntries e items).live = true := rfl
  simp only [hlive, Bool.not_true, Bool.false_eq_true, if_false]
  have hbl : (toEntries e items).bufLen = e.buffer.len := rfl
  have hbc : (toEntries e items).boundsCount = e.bounds_count := rfl
  simp only [hbl, hbc, boundSize, Grenad.Entries.sub]
  by_cases h1 : e.bounds_count ≤ e.buffer.len / 16
  · simp only [h1, if_true]
    cases hrem : Grenad.Entries.remaining (toEntries e items) with
    | ok r =>
      rw [hrem] at hr
      simp only [hr, ge_iff_le]
    | error t =>
      rw [hrem] at hr
      obtain ⟨msg, hm⟩ := hr
      exact ⟨msg, by simp [hm]⟩
  · simp only [h1, if_false]
    cases hrem : Grenad.Entries.remaining (toEntries e items) <;>
      exact ⟨"attempt to subtract with overflow", by simp [throw, throwThe, MonadExceptOf.throw]⟩

theorem src_entries_memory_usage (e : Gen.Entries) (items : List Entry) :
    Gen.Entries.memory_usage e = .ok (toEntries e items).bufLen := rfl

theorem src_entries_clear (e : Gen.Entries) (items : List Entry) :
    ∃ e', Gen.Entries.clear e = .ok e' ∧
      toEntries e' [] = { toEntries e items with entriesLen := 0, boundsCount := 0, items := [] } :=
  ⟨_, rfl, rfl⟩

/-- `estimated_entries_memory_usage` = bytes of entries + 16 per bound, when the buffer invariant
    (`entries_len + 16·bounds_count ≤ buffer.len`, `Inv.room`) holds. -/
theorem src_entries_estimated (e : Gen.Entries) (hb : e.bounds_count * 16 < 2 ^ 64)
    (hroom : e.entries_len + 16 * e.bounds_count ≤ e.buffer.len) :
    Gen.Entries.estimated_entries_memory_usage e = .ok (e.entries_len + 16 * e.bounds_count) := by
  have h1 : e.entries_len ≤ e.buffer.len := by omega
  have h2 : e.bounds_count * 16 ≤ e.buffer.len - e.entries_len := by omega
  have h3 : e.buffer.len - e.entries_len - e.bounds_count * 16 ≤ e.buffer.len := by omega
  simp only [Gen.Entries.estimated_entries_memory_usage, Gen.Entries.memory_usage, Gen.Entries.remaining,
    bind, Except.bind, pure, Except.pure, sub, mul, hb, h1, h2, h3, if_true]
  congr 1
  omega

/-- `Sorter::threshold_exceeded` compares the **buffer length** with the budget. -/
theorem src_threshold_exceeded (s : Gen.Sorter) :
    Gen.Sorter.threshold_exceeded s = .ok (decide (s.entries.buffer.len ≥ s.dump_threshold)) := rfl

/-- **The spill decision on regenerated code.**  `Sorter::insert` stores the entry without spilling iff
    `fits(key, val) || (!threshold_exceeded() && allow_realloc)`; computed with the translated functions
    this is the condition of the model's `Sorter.insert` (whose budget is the sorter's `dump_threshold`). -/
theorem src_spill_decision (s : Gen.Sorter) (items : List Entry) (k v : Bytes) (fit : Bool)
    (hb : s.entries.bounds_count * 16 < 2 ^ 64) (hkv : 16 + k.length + v.length < 2 ^ 64)
    (hm : Grenad.Entries.fits (toEntries s.entries items) k v = .ok fit) :
    (do let f ← Gen.Entries.fits s.entries k v
        let t ← Gen.Sorter.threshold_exceeded s
        pure (f || (!t && s.allow_realloc)) : M Bool)
      = .ok (fit || (!decide ((toEntries s.entries items).bufLen ≥ s.dump_threshold) && s.allow_realloc)) := by
  have h := src_entries_fits s.entries items k v hb hkv
  rw [hm] at h
  simp only [] at h
  simp only [h, src_threshold_exceeded, bind, Except.bind, pure, Except.pure, toEntries]
  rfl

end Grenad.SrcTie
