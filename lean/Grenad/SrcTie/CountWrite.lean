/-
  Grenad.SrcTie.CountWrite — translator tie for src/count_write.rs (regenerated from /repo/src on every
  run).  The writer under the `CountWrite` stays abstract in the translation (`wwrite`, `wflush`); here
  it is instantiated with a raw sink that answers every `write` call from a schedule (short writes,
  `Interrupted`, other errors), and std's `write_all` loop — written out from its documented source —
  is run over the TRANSLATED `CountWrite::write`.  The result is the model's `IOM.writeAll` (C11, C09:
  `count` is the number of bytes the sink really took, under every schedule).
-/
import Grenad.Generated.Src.SrcCountWrite
import Grenad.Model.IO
import Grenad.Proofs.IOProofs

set_option linter.unusedSimpArgs false
set_option linter.unusedVariables false

namespace Grenad.SrcTie
open Grenad Grenad.R Grenad.Gen Grenad.IOM

/-- the raw sink below the `CountWrite`: bytes taken so far and the schedule of answers still to give -/
structure Raw where
  data : Bytes
  sch  : List WResp
  deriving Repr, DecidableEq

/-- one `write(buf)` call on the raw sink, answered from the schedule exactly as `IOM.writeAll` reads it -/
def rawWrite (r : Raw) (buf : Bytes) : Raw × Except IoErr Nat :=
  match r.sch with
  | [] => ({ r with data := r.data ++ buf }, .ok buf.length)
  | .accept n :: rs => ({ data := r.data ++ buf.take (max 1 (min n buf.length)), sch := rs }, .ok (max 1 (min n buf.length)))
  | .interrupted :: rs => ({ r with sch := rs }, .error .interrupted)
  | .fail t :: rs => ({ r with sch := rs }, .error (.other t))

/-- One call of the translated `CountWrite::write`, keeping the receiver on the `Err` path too
    (`?` returns before `self.count` is touched; the inner writer has consumed its answer). -/
def cwWrite (cw : CountWrite Raw) (buf : Bytes) : CountWrite Raw × Except Fail Nat :=
  match Gen.CountWrite.write rawWrite cw buf with
  | .ok (n, cw') => (cw', .ok n)
  | .error e => ({ cw with inner := (rawWrite cw.inner buf).1 }, .error e)

/-- std's `Write::write_all` (library/std/src/io/mod.rs): loop while the buffer is not empty, `Ok(0)` is
    `WriteZero`, `Interrupted` is retried, any other error is returned.  `none`: out of fuel. -/
def stdWriteAll : Nat → CountWrite Raw → Bytes → CountWrite Raw × Option (Option Fail)
  | 0, cw, buf => if buf.isEmpty then (cw, some none) else (cw, none)
  | f + 1, cw, buf =>
    if buf.isEmpty then (cw, some none) else
    match cwWrite cw buf with
    | (cw', .ok n) => if n = 0 then (cw', some (some (.err (.io (.other 0))))) else stdWriteAll f cw' (buf.drop n)
    | (cw', .error (.err (.io .interrupted))) => stdWriteAll f cw' buf
    | (cw', .error e) => (cw', some (some e))

/-- how the model's error tag reads on the code side -/
def tagFail : Option Nat → Option Fail
  | none => none
  | some t => some (.err (.io (.other t)))

theorem cwWrite_ok (cw : CountWrite Raw) (buf : Bytes) (r' : Raw) (n : Nat)
    (h : rawWrite cw.inner buf = (r', .ok n)) (hc : cw.count + n < 2 ^ 64) :
    cwWrite cw buf = ({ inner := r', count := cw.count + n }, .ok n) := by
  simp [cwWrite, Gen.CountWrite.write, h, liftIo, add, hc, bind, Except.bind, pure, Except.pure]

theorem cwWrite_err (cw : CountWrite Raw) (buf : Bytes) (r' : Raw) (e : IoErr)
    (h : rawWrite cw.inner buf = (r', .error e)) :
    cwWrite cw buf = ({ cw with inner := r' }, .error (.err (.io e))) := by
  simp [cwWrite, Gen.CountWrite.write, h, liftIo, bind, Except.bind, throw, throwThe, MonadExceptOf.throw]

/-- **`write_all` through the translated `CountWrite::write` is `IOM.writeAll`**: same bytes in the sink,
    same `count`, same unused schedule, same outcome — for every buffer and every schedule of short
    writes, interruptions and failures (no `u64` overflow of the byte count). -/
theorem src_countwrite_write_all : ∀ (sch : List WResp) (buf d : Bytes) (c : Nat),
    c + buf.length < 2 ^ 64 →
    stdWriteAll (sch.length + 1) { inner := { data := d, sch := sch }, count := c } buf =
      (let r := writeAll buf { data := d, count := c } sch
       ({ inner := { data := r.1.data, sch := r.2.1 }, count := r.1.count }, some (tagFail r.2.2)))
  | [], buf, d, c, hc => by
    by_cases hb : buf = []
    · subst hb; simp [stdWriteAll, writeAll, tagFail]
    · have hne : buf.isEmpty = false := by cases buf <;> simp_all
      have hl : buf.length ≠ 0 := by cases buf <;> simp_all
      have h1 := cwWrite_ok { inner := { data := d, sch := [] }, count := c } buf
        { data := d ++ buf, sch := [] } buf.length (by simp [rawWrite]) hc
      simp only [stdWriteAll, hne, Bool.false_eq_true, if_false, h1, hl, List.length_nil, Nat.zero_add,
        List.drop_length, List.isEmpty_nil, if_true, writeAll, tagFail]
  | r :: rs, buf, d, c, hc => by
    by_cases hb : buf = []
    · subst hb; simp [stdWriteAll, writeAll, tagFail]
    · have hne : buf.isEmpty = false := by cases buf <;> simp_all
      have hl : 0 < buf.length := by cases buf <;> simp_all
      cases r with
      | accept n =>
        have hm : max 1 (min n buf.length) ≤ buf.length := by omega
        have hm0 : max 1 (min n buf.length) ≠ 0 := by omega
        have h1 := cwWrite_ok { inner := { data := d, sch := .accept n :: rs }, count := c } buf
          { data := d ++ buf.take (max 1 (min n buf.length)), sch := rs } (max 1 (min n buf.length))
          (by simp [rawWrite]) (by simp only []; omega)
        have ih := src_countwrite_write_all rs (buf.drop (max 1 (min n buf.length)))
          (d ++ buf.take (max 1 (min n buf.length))) (c + max 1 (min n buf.length))
          (by simp only [List.length_drop]; omega)
        simp only [List.length_cons]
        rw [stdWriteAll]
        simp only [hne, Bool.false_eq_true, if_false, h1, hm0]
        rw [ih]
        simp [writeAll, hne]
      | interrupted =>
        have h1 := cwWrite_err { inner := { data := d, sch := .interrupted :: rs }, count := c } buf
          { data := d, sch := rs } .interrupted (by simp [rawWrite])
        have ih := src_countwrite_write_all rs buf d c hc
        simp only [List.length_cons]
        rw [stdWriteAll]
        simp only [hne, Bool.false_eq_true, if_false, h1]
        rw [ih]
        simp [writeAll, hne]
      | fail t =>
        have h1 := cwWrite_err { inner := { data := d, sch := .fail t :: rs }, count := c } buf
          { data := d, sch := rs } (.other t) (by simp [rawWrite])
        simp only [List.length_cons]
        rw [stdWriteAll]
        simp only [hne, Bool.false_eq_true, if_false, h1]
        simp [writeAll, hne, tagFail]

/-- Corollary on the regenerated code: `count` equals the number of bytes the sink holds after any
    `write_all`, completed or failed, whenever it did before. -/
theorem src_countwrite_count_is_len (sch : List WResp) (buf d : Bytes) (hc : d.length + buf.length < 2 ^ 64) :
    let r := stdWriteAll (sch.length + 1) { inner := { data := d, sch := sch }, count := d.length } buf
    r.1.count = r.1.inner.data.length := by
  simp only [src_countwrite_write_all sch buf d d.length hc]
  exact writeAll_count_inv sch buf { data := d, count := d.length } rfl

/-- `CountWrite::new` starts the count at zero and `count()` reads it. -/
theorem src_countwrite_new (r : Raw) :
    Gen.CountWrite.new r = .ok { inner := r, count := 0 } ∧
    ∀ cw : CountWrite Raw, Gen.CountWrite.count_fn cw = .ok cw.count := by
  constructor <;> intros <;> rfl

/-- `into_inner` flushes first: the inner writer comes back only when its `flush` succeeded, and a
    failing `flush` is the call's error. -/
theorem src_countwrite_into_inner {γ : Type} (wflush : γ → γ × Except IoErr Unit) (cw : CountWrite γ) :
    Gen.CountWrite.into_inner wflush cw =
      (match (wflush cw.inner).2 with
       | .ok _ => .ok (wflush cw.inner).1
       | .error e => .error (.err (.io e))) := by
  unfold Gen.CountWrite.into_inner
  cases h : (wflush cw.inner).2 <;>
    simp [h, liftIo, bind, Except.bind, pure, Except.pure, throw, throwThe, MonadExceptOf.throw]

end Grenad.SrcTie
