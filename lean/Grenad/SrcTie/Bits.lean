/-
  Grenad.SrcTie.Bits — the bit-level facts that connect the translated Rust arithmetic
  (`|`, `&`, `>>`, `<<`, `as u8`) with the `% / +` arithmetic of the hand-written model.
-/
import Grenad.Generated.Prelude

namespace Grenad.SrcTie
open Grenad.R

theorem or128_mod256 (x : Nat) : (x ||| 128) % 256 = x % 128 + 128 := by
  have h : ∀ y : Fin 256, (y.val ||| 128) % 256 = y.val % 128 + 128 := by decide +kernel
  have h2 := h ⟨x % 256, Nat.mod_lt _ (by decide)⟩
  simp only at h2
  have : (x ||| 128) % 256 = (x % 256 ||| 128) % 256 := by
    rw [show (256:Nat) = 2^8 from rfl, Nat.or_mod_two_pow, Nat.or_mod_two_pow]; simp
  rw [this, h2]; omega

theorem and127 (x : Nat) : x &&& 127 = x % 128 := Nat.and_two_pow_sub_one_eq_mod x 7

theorem and128_eq_zero_iff (x : Nat) (hx : x < 256) : (x &&& 128 = 0) ↔ x < 128 := by
  have h : ∀ y : Fin 256, (y.val &&& 128 = 0) ↔ y.val < 128 := by decide +kernel
  exact h ⟨x, hx⟩

theorem or_shl (a b k : Nat) (ha : a < 2 ^ k) : a ||| (b <<< k) = a + b * 2 ^ k := by
  rw [Nat.or_comm, ← Nat.shiftLeft_add_eq_or_of_lt ha, Nat.shiftLeft_eq]; omega

@[simp] theorem ofNat_mod256 (x : Nat) : UInt8.ofNat (x % 256) = UInt8.ofNat x := by
  apply UInt8.toNat_inj.mp; simp

end Grenad.SrcTie
