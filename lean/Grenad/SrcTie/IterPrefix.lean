/-
  Grenad.SrcTie.IterPrefix — translator tie for `advance_key` of src/reader/prefix_iter.rs,
  regenerated from /repo/src on every run.
-/
import Grenad.Generated.Src.SrcIter
import Grenad.Model.Iter

set_option linter.unusedSimpArgs false
set_option linter.unusedVariables false

namespace Grenad.SrcTie
open Grenad Grenad.R Grenad.Gen

/-- the loop body of `advance_key` as the translator emits it (`while let Some(x) = bytes.last_mut()`) -/
def akBody {α} (_ : α) (s : Option (Option (List UInt8)) × List UInt8 × Bool) :
    M (ForInStep (Option (Option (List UInt8)) × List UInt8 × Bool)) :=
  match Option.map UInt8.toNat s.snd.fst.getLast? with
  | some x =>
    match checkedAdd 8 x 1 with
    | some y =>
      Except.pure
        (ForInStep.done
          (some (some (s.snd.fst.dropLast ++ [UInt8.ofNat y])), s.snd.fst.dropLast ++ [UInt8.ofNat y], s.snd.snd))
    | _ => Except.pure (ForInStep.yield (none, s.snd.fst.dropLast, s.snd.snd))
  | _ => Except.pure (ForInStep.done (none, s.snd.fst, true))

theorem ak_loop {α} : ∀ (r : List UInt8) (l : List α), r.length < l.length →
    forIn l ((none : Option (Option (List UInt8))), r.reverse, false) akBody =
      (.ok (match advanceRev r with
            | some q => (some (some q.reverse), q.reverse, false)
            | none => (none, [], true)) : M _) := by
  intro r
  induction r with
  | nil =>
    intro l hl
    match l, hl with
    | a :: l', _ => simp [akBody, advanceRev, Except.pure, bind, Except.bind, pure]
  | cons x rest ih =>
    intro l hl
    match l, hl with
    | a :: l', hl =>
      simp only [List.length_cons] at hl
      rw [List.forIn_cons]
      have hlast : (List.reverse (x :: rest)).getLast? = some x := by simp
      have hdrop : (List.reverse (x :: rest)).dropLast = rest.reverse := by simp
      by_cases hx : x = 255
      · subst hx
        have : akBody a ((none : Option (Option (List UInt8))), List.reverse (255 :: rest), false)
            = .ok (.yield (none, rest.reverse, false)) := by
          simp only [akBody, hlast, hdrop]
          simp [checkedAdd, Except.pure]
        rw [this]
        simp only [bind, Except.bind]
        rw [ih l' (by omega)]
        simp [advanceRev]
      · have hlt : x.toNat + 1 < 256 := by
          have := UInt8.toNat_lt x
          have : x.toNat ≠ 255 := fun h => hx (UInt8.toNat_inj.mp (by simpa using h))
          omega
        have hy : UInt8.ofNat (x.toNat + 1) = x + 1 := by
          apply UInt8.toNat_inj.mp
          simp [UInt8.toNat_add]
        have : akBody a ((none : Option (Option (List UInt8))), List.reverse (x :: rest), false)
            = .ok (.done (some (some (rest.reverse ++ [x + 1])), rest.reverse ++ [x + 1], false)) := by
          simp only [akBody, hlast, hdrop]
          simp [checkedAdd, hlt, Except.pure, hy]
        rw [this]
        simp [bind, Except.bind, pure, Except.pure, advanceRev, hx]

/-- `advance_key(bytes)` is the model's `advanceKey` (and the loop's fuel `len + 1` always suffices). -/
theorem src_advance_key (p : Bytes) : advance_key p = .ok (advanceKey p) := by
  unfold advance_key
  simp only [bind, pure]
  show Except.bind (forIn (List.range' 0 (p.length + 1)) (none, p, false) akBody) _ = _
  have h := ak_loop (α := Nat) p.reverse (List.range' 0 (p.length + 1)) (by simp)
  rw [List.reverse_reverse] at h
  rw [h]
  unfold advanceKey
  cases advanceRev p.reverse <;> simp [Except.bind, Except.pure]

end Grenad.SrcTie
