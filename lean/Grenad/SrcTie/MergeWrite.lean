/-
  Grenad.SrcTie.MergeWrite — translator tie for `Merger::write_into_stream_writer` (src/merger.rs): the
  translated merger streamed into the translated writer is exactly the translated `insert`s of the entries
  the model merger yields, in order (`src_merge_into_writer`), and C06_into_writer on the regenerated code
  (`src_C06_into_writer`).
-/
import Grenad.SrcTie.MergerIterRun
import Grenad.SrcTie.WriterBounds
import Grenad.Generated.Src.SrcMergeWrite

set_option linter.unusedSimpArgs false
set_option linter.unusedVariables false

namespace Grenad.SrcTie
open Grenad Grenad.R Grenad.Gen Grenad.Wave3

/-! ### the loop of `write_into_stream_writer` as a recursion -/

/-- the loop of `write_into_stream_writer` together with the fuel check that follows it -/
def mw_loop (merge : List UInt8 → List (List UInt8) → Except Unit Cow) (C : CompressFn) :
    Nat → Gen.MergerIter LCur → Gen.Writer → M Gen.Writer
  | 0, _, _ => .error (Fail.panic "r2l: loop fuel exhausted")
  | fuel + 1, it, g =>
    match Gen.MergerIter.next lstep merge it with
    | .error f => .error f
    | .ok (none, _) => .ok g
    | .ok (some (k, v), it') =>
      match Gen.Writer.insert C g k v with
      | .error f => .error f
      | .ok g' => mw_loop merge C fuel it' g'

theorem mw_forIn (merge : List UInt8 → List (List UInt8) → Except Unit Cow) (C : CompressFn) :
    ∀ (n s : Nat) (it : Gen.MergerIter LCur) (g : Gen.Writer),
    (do
      let __s ← forIn (m := M) (List.range' s n) (g, it, false) fun x __s =>
        have writer := __s.fst;
        have __s := __s.snd;
        have iter := __s.fst;
        have fin_1 := __s.snd;
        do
        let __x ← MergerIter.next lstep merge iter
        match __x with
          | (r_2, m_3) =>
            have iter := m_3;
            match r_2 with
            | some (key, val) => do
              let m_5 ← Writer.insert C writer key val
              have writer : Writer := m_5
              pure (ForInStep.yield (writer, iter, fin_1))
            | x =>
              have fin_1 := true;
              pure (ForInStep.done (writer, iter, fin_1))
      have writer : Writer := __s.fst
      have __s : MergerIter LCur × Bool := __s.snd
      have fin_1 : Bool := __s.snd
      have __do_jp : Unit → M Writer := fun __r => pure writer
      if (!fin_1) = true then do
          let __r ← throw (Fail.panic "r2l: loop fuel exhausted")
          __do_jp __r
        else __do_jp ()) = mw_loop merge C n it g := by
  intro n
  induction n with
  | zero =>
    intro s it g
    rfl
  | succ n ih =>
    intro s it g
    have ih' := ih (s + 1)
    simp only [bind, Except.bind, pure, Except.pure] at ih'
    simp only [List.range'_succ, List.forIn_cons, mw_loop, bind, Except.bind, pure, Except.pure]
    cases hn : Gen.MergerIter.next lstep merge it with
    | error f => rfl
    | ok p =>
      obtain ⟨r, it'⟩ := p
      cases r with
      | none => rfl
      | some kv =>
        obtain ⟨k, v⟩ := kv
        simp only
        cases hi : Gen.Writer.insert C g k v with
        | error f => rfl
        | ok g' =>
          simp only
          exact ih' it' g'

theorem mw_unfold (merge : List UInt8 → List (List UInt8) → Except Unit Cow) (C : CompressFn) (fuel : Nat)
    (ms : Gen.Merger LCur) (g : Gen.Writer) :
    Gen.Merger.write_into_stream_writer lstep merge fuel C ms g =
      match Gen.Merger.into_stream_merger_iter lstep ms with
      | .error f => .error f
      | .ok it => mw_loop merge C fuel it g := by
  unfold Gen.Merger.write_into_stream_writer
  cases h : Gen.Merger.into_stream_merger_iter lstep ms with
  | error f => rfl
  | ok it =>
    simp only [bind, Except.bind]
    have := mw_forIn merge C fuel 0 it g
    simp only [bind, Except.bind] at this
    exact this

/-! ### what the model merger yields before it stops -/

/-- The entries the model merger yields, in order, until it is drained or the merge function fails, and
    whether it stopped on a failure of the merge function. -/
def mw_trace (mf : MergeFn) : Nat → Merger → List Entry × Bool
  | 0, _ => ([], false)
  | fuel + 1, m =>
    match Merger.next mf m with
    | (_, .ok none) => ([], false)
    | (m', .ok (some e)) => (e :: (mw_trace mf fuel m').1, (mw_trace mf fuel m').2)
    | (_, .mergeErr) => ([], true)

/-- `Merger.collect` in terms of the trace -/
theorem mw_collect_trace (mf : MergeFn) : ∀ (fuel : Nat) (m : Merger) (acc : List Entry),
    (Merger.collect mf fuel m acc).1 =
      if (mw_trace mf fuel m).2 then none else some (acc.reverse ++ (mw_trace mf fuel m).1) := by
  intro fuel
  induction fuel with
  | zero => intro m acc; simp [Merger.collect, mw_trace]
  | succ fuel ih =>
    intro m acc
    cases hn : Merger.next mf m with
    | mk m' res =>
      match res, hn with
      | .ok none, hn => simp [Merger.collect, mw_trace, hn]
      | .ok (some e), hn =>
        simp only [Merger.collect, mw_trace, hn, ih m' (e :: acc)]
        simp
      | .mergeErr, hn => simp [Merger.collect, mw_trace, hn]

/-- The entries the model merger over `srcs` yields, in order, before it is drained or the merge function
    fails (`Merger.run`'s output when it succeeds: `mw_yielded_of_run`). -/
def mw_yielded (mf : MergeFn) (srcs : List (List Entry)) : List Entry :=
  (mw_trace mf (Merger.totalLen srcs + 1) (Merger.start srcs)).1

theorem mw_run_trace (mf : MergeFn) (srcs : List (List Entry)) :
    (Merger.run mf srcs).1 =
      if (mw_trace mf (Merger.totalLen srcs + 1) (Merger.start srcs)).2 then none
      else some (mw_yielded mf srcs) := by
  unfold Merger.run
  rw [mw_collect_trace]
  simp [mw_yielded]

theorem mw_yielded_of_run (mf : MergeFn) (srcs : List (List Entry)) (out : List Entry)
    (h : (Merger.run mf srcs).1 = some out) : mw_yielded mf srcs = out := by
  rw [mw_run_trace] at h
  split at h
  · cases h
  · exact (Option.some.inj h)

/-! ### the entries yielded before a failure are a prefix of the merged content -/

theorem mw_next_agree (mf mf2 : MergeFn) (hag : ∀ k vs v, mf k vs = some v → mf2 k vs = some v) (m m' : Merger)
    (r : Option Entry) (h : Merger.next mf m = (m', .ok r)) : Merger.next mf2 m = (m', .ok r) := by
  unfold Merger.next at h ⊢
  cases hpop : heapPop m.heap with
  | none => rw [hpop] at h; exact h
  | some p =>
    obtain ⟨first, h1⟩ := p
    rw [hpop] at h
    simp only at h ⊢
    cases hps : popSame first.key (h1.length + 1) h1 [] with
    | mk same h2 =>
      rw [hps] at h
      simp only at h ⊢
      cases hmf : mf first.key (first.val :: List.map MSrc.val same) with
      | none => rw [hmf] at h; simp at h
      | some v =>
        rw [hmf] at h
        rw [hag _ _ _ hmf]
        exact h

theorem mw_trace_prefix (mf mf2 : MergeFn) (hag : ∀ k vs v, mf k vs = some v → mf2 k vs = some v) :
    ∀ (fuel : Nat) (m : Merger), (mw_trace mf fuel m).1 <+: (mw_trace mf2 fuel m).1 := by
  intro fuel
  induction fuel with
  | zero => intro m; exact List.prefix_refl _
  | succ fuel ih =>
    intro m
    cases hn : Merger.next mf m with
    | mk m' res =>
      match res, hn with
      | .ok none, hn => simp only [mw_trace, hn]; exact List.nil_prefix
      | .mergeErr, hn => simp only [mw_trace, hn]; exact List.nil_prefix
      | .ok (some e), hn =>
        simp only [mw_trace, hn, mw_next_agree mf mf2 hag m m' _ hn]
        exact List.cons_prefix_cons.mpr ⟨rfl, ih m'⟩

/-- For strictly ascending sources and any merge function `mf`: the entries yielded before the merge function
    fails are a prefix of the merged content `Spec.mergeSpec mf' sources`, for every total `mf'` that agrees with
    `mf` where `mf` succeeds (e.g. `fun k vs => (mf k vs).getD []`). -/
theorem mw_yielded_prefix (mf : MergeFn) (mf' : Bytes → List Bytes → Bytes)
    (hag : ∀ k vs v, mf k vs = some v → mf' k vs = v) (sources : List (List Entry))
    (hasc : ∀ s ∈ sources, StrictAsc s) : mw_yielded mf sources <+: Spec.mergeSpec mf' sources := by
  have h := mw_trace_prefix mf (Grenad.Props.C06.total mf')
    (by intro k vs v hv; simp only [Grenad.Props.C06.total, hag k vs v hv])
    (Merger.totalLen sources + 1) (Merger.start sources)
  have h2 := mw_yielded_of_run (Grenad.Props.C06.total mf') sources _ (Grenad.Props.C06.C06_merge mf' sources hasc)
  rw [← h2]
  exact h

/-! ### the simulation -/

/-- what `write_into_stream_writer` does, in terms of the trace: the translated `insert`s of the yielded
    entries, then `Err(Error::Merge(_))` if the merger stopped on a failure -/
def mw_outcome (C : CompressFn) (g : Gen.Writer) (t : List Entry × Bool) : M Gen.Writer :=
  match genWriterGo C g t.1 with
  | .error f => .error f
  | .ok g' => if t.2 then .error (Fail.err RErr.merge) else .ok g'

theorem mw_sim (mf : MergeFn) (merge : List UInt8 → List (List UInt8) → Except Unit Cow)
    (hm : ∀ k vs, (merge k vs).toOption.map cowBytes = mf k vs) (C : CompressFn) :
    ∀ (fuel fuel' : Nat) (it : Gen.MergerIter LCur) (m : Merger) (g : Gen.Writer),
      AllLive it.heap → (it.heap.map absE).Perm m.heap → IdxNe m.heap → heapLen m.heap < fuel →
      heapLen m.heap < fuel' →
      mw_loop merge C fuel it g = mw_outcome C g (mw_trace mf fuel' m) := by
  intro fuel
  induction fuel with
  | zero => intro fuel' it m g _ _ _ h; omega
  | succ fuel ih =>
    intro fuel' it m g hl hp hne hfuel hfuel'
    obtain ⟨fuel', rfl⟩ : ∃ n, fuel' = n + 1 := ⟨fuel' - 1, by omega⟩
    have hsim := next_sim mf merge hm it m hl hp (keyIdxNe_of_idxNe hne)
    have hne' := next_idxNe mf m hne
    have hlive : ∀ s ∈ m.heap, s.rest ≠ [] := by
      intro s hs
      obtain ⟨e, he, rfl⟩ := List.mem_map.mp (hp.symm.subset hs)
      exact (hl e he).2
    simp only [mw_loop, mw_trace]
    cases hn : Merger.next mf m with
    | mk m' res =>
      rw [hn] at hsim hne'
      match res, hsim, hn with
      | .ok none, hsim, hn =>
        obtain ⟨it', h1, -⟩ := hsim
        rw [h1]
        rfl
      | .ok (some e), hsim, hn =>
        obtain ⟨it', h1, h2, h3, -⟩ := hsim
        obtain ⟨k, v⟩ := e
        rw [h1]
        have := next_heapLen mf m m' (k, v) hne hlive hn
        simp only [mw_outcome, genWriterGo, bind, Except.bind]
        cases hi : Gen.Writer.insert C g k v with
        | error f => rfl
        | ok g' =>
          simp only
          exact ih fuel' it' m' g' h2 h3 hne' (by omega) (by omega)
      | .mergeErr, hsim, hn =>
        rw [hsim]
        rfl

/-- the translated merger over fresh list cursors on `srcs` -/
def mw_merger (srcs : List (List Entry)) : Gen.Merger LCur :=
  { sources := srcs.map (fun l => ({ fresh := true, rest := l } : LCur)) }

/-- Both outcomes in one equation: `write_into_stream_writer` is the translated `insert`s of the entries the
    model merger yields, in order, followed by `Err(Error::Merge(_))` if the model run fails. -/
theorem mw_into_writer (mf : MergeFn) (merge : List UInt8 → List (List UInt8) → Except Unit Cow)
    (hm : ∀ k vs, (merge k vs).toOption.map cowBytes = mf k vs) (C : CompressFn)
    (srcs : List (List Entry)) (fuel : Nat) (hfuel : Merger.totalLen srcs + 1 ≤ fuel) (g : Gen.Writer) :
    Gen.Merger.write_into_stream_writer lstep merge fuel C (mw_merger srcs) g =
      match genWriterGo C g (mw_yielded mf srcs) with
      | .error f => .error f
      | .ok g' => if (Merger.run mf srcs).1 = none then .error (Fail.err RErr.merge) else .ok g' := by
  obtain ⟨it, h1, h2, -, -, -, h6⟩ := src_merger_start srcs
  rw [mw_unfold, mw_merger, h1]
  simp only
  have hlen : heapLen (Merger.start srcs).heap = Merger.totalLen srcs := by
    rw [start_heap, heapLen_start_go]
  rw [mw_sim mf merge hm C fuel (Merger.totalLen srcs + 1) it (Merger.start srcs) g h6 (by rw [h2])
    (start_idxNe srcs) (by omega) (by omega)]
  rw [mw_run_trace]
  unfold mw_outcome mw_yielded
  cases genWriterGo C g (mw_trace mf (Merger.totalLen srcs + 1) (Merger.start srcs)).1 with
  | error f => rfl
  | ok g' =>
    cases (mw_trace mf (Merger.totalLen srcs + 1) (Merger.start srcs)).2 <;> simp

/-- **src_merge_into_writer.**  The translated `Merger::write_into_stream_writer` over fresh list cursors on
    `srcs`, any merge function (tied to the model's by `hm`), any compressor, any writer state `g`, any loop
    fuel of at least `totalLen srcs + 1`:
    * when the model run returns `some out`, it is exactly the translated `Writer::insert`s of the merged
      entries `out`, in order (`genWriterGo`) — the same result, `Ok` or panic of an `insert`; in particular
      the loop fuel never runs out;
    * when the model run fails in the merge function, it is the translated `insert`s of the entries
      `mw_yielded mf srcs` the merger yields before the failing call, and if all of those succeed it returns
      `Err(Error::Merge(_))`. -/
theorem src_merge_into_writer (mf : MergeFn) (merge : List UInt8 → List (List UInt8) → Except Unit Cow)
    (hm : ∀ k vs, (merge k vs).toOption.map cowBytes = mf k vs) (C : CompressFn)
    (srcs : List (List Entry)) (fuel : Nat) (hfuel : Merger.totalLen srcs + 1 ≤ fuel) (g : Gen.Writer) :
    (∀ out, (Merger.run mf srcs).1 = some out →
      Gen.Merger.write_into_stream_writer lstep merge fuel C
        { sources := srcs.map (fun l => ({ fresh := true, rest := l } : LCur)) } g = genWriterGo C g out) ∧
    ((Merger.run mf srcs).1 = none →
      Gen.Merger.write_into_stream_writer lstep merge fuel C
        { sources := srcs.map (fun l => ({ fresh := true, rest := l } : LCur)) } g =
        match genWriterGo C g (mw_yielded mf srcs) with
        | .error f => .error f
        | .ok _ => .error (Fail.err RErr.merge)) := by
  have h := mw_into_writer mf merge hm C srcs fuel hfuel g
  unfold mw_merger at h
  constructor
  · intro out ho
    rw [h, mw_yielded_of_run mf srcs out ho, ho]
    cases genWriterGo C g out <;> simp
  · intro hn
    rw [h, hn]
    cases genWriterGo C g (mw_yielded mf srcs) <;> simp

/-- the `none` case with its proviso spelled out -/
theorem src_merge_into_writer_err (mf : MergeFn) (merge : List UInt8 → List (List UInt8) → Except Unit Cow)
    (hm : ∀ k vs, (merge k vs).toOption.map cowBytes = mf k vs) (C : CompressFn)
    (srcs : List (List Entry)) (fuel : Nat) (hfuel : Merger.totalLen srcs + 1 ≤ fuel) (g g' : Gen.Writer)
    (hn : (Merger.run mf srcs).1 = none) (hins : genWriterGo C g (mw_yielded mf srcs) = .ok g') :
    Gen.Merger.write_into_stream_writer lstep merge fuel C
      { sources := srcs.map (fun l => ({ fresh := true, rest := l } : LCur)) } g =
      .error (Fail.err RErr.merge) := by
  rw [(src_merge_into_writer mf merge hm C srcs fuel hfuel g).2 hn, hins]

/-! ### the translated `insert`s against the model's, state by state -/

/-- From related states, the translated `insert`s of `kvs` end in a state related to the model's
    (`W.run.go`), or panic where the model traps; bounds as in `src_writer_run`. -/
theorem mw_writer_go (cd : Codec) (hcd : ∀ b : Bytes, b.length < 2 ^ 63 → (cd.compress b).length < 2 ^ 64) :
    ∀ (kvs : List Entry) (g : Gen.Writer) (w : W), RW g w →
    (∀ pre w', pre <+: kvs → W.run.go cd w pre = .ok w' → WSmall w') →
    match W.run.go cd w kvs with
    | .ok w' => ∃ g', genWriterGo (codecFn cd) g kvs = .ok g' ∧ RW g' w' ∧
        g'.compression_type = g.compression_type ∧ g'.compression_level = g.compression_level
    | .error _ => ∃ msg, genWriterGo (codecFn cd) g kvs = .error (.panic msg) := by
  intro kvs
  induction kvs with
  | nil =>
    intro g w hr hsm
    exact ⟨g, rfl, hr, rfl, rfl⟩
  | cons kv rest ih =>
    intro g w hr hsm
    obtain ⟨k, v⟩ := kv
    have hw : WSmall w := hsm [] w (List.nil_prefix) rfl
    have hins := src_writer_insert cd hcd g w k v hr (smallW_of hr hw)
    simp only [W.run.go, genWriterGo, bind, Except.bind]
    cases hi : W.insert cd w k v with
    | error t =>
      rw [hi] at hins
      obtain ⟨msg, hmsg⟩ := hins
      exact ⟨msg, by simp only [hmsg]⟩
    | ok w1 =>
      rw [hi] at hins
      obtain ⟨g1, hg1, hr1, hc1, hc2, _⟩ := hins
      simp only [hg1]
      have hrec := ih g1 w1 hr1 (by
        intro pre w' hp hgo
        refine hsm ((k, v) :: pre) w' ?_ ?_
        · obtain ⟨t, ht⟩ := hp
          exact ⟨t, by rw [← ht]; rfl⟩
        · simp only [W.run.go, hi]; exact hgo)
      rw [hc1, hc2] at hrec
      exact hrec

/-- **src_merge_into_writer, model side.**  With a generated writer `g` related to a model writer `w`: when the
    model merger returns `out` and the model writer accepts `out` from `w` (ending in `w'`, bounds `WSmall` along
    the way), `write_into_stream_writer` returns `Ok` of a writer related to `w'`. -/
theorem src_merge_into_writer_rw (mf : MergeFn) (merge : List UInt8 → List (List UInt8) → Except Unit Cow)
    (hm : ∀ k vs, (merge k vs).toOption.map cowBytes = mf k vs)
    (cd : Codec) (hcd : ∀ b : Bytes, b.length < 2 ^ 63 → (cd.compress b).length < 2 ^ 64)
    (srcs : List (List Entry)) (fuel : Nat) (hfuel : Merger.totalLen srcs + 1 ≤ fuel)
    (g : Gen.Writer) (w w' : W) (hr : RW g w) (out : List Entry)
    (ho : (Merger.run mf srcs).1 = some out) (hgo : W.run.go cd w out = .ok w')
    (hsm : ∀ pre w1, pre <+: out → W.run.go cd w pre = .ok w1 → WSmall w1) :
    ∃ g', Gen.Merger.write_into_stream_writer lstep merge fuel (codecFn cd)
        { sources := srcs.map (fun l => ({ fresh := true, rest := l } : LCur)) } g = .ok g' ∧ RW g' w' ∧
      g'.compression_type = g.compression_type ∧ g'.compression_level = g.compression_level := by
  rw [(src_merge_into_writer mf merge hm (codecFn cd) srcs fuel hfuel g).1 out ho]
  have := mw_writer_go cd hcd out g w hr hsm
  rw [hgo] at this
  exact this

/-! ### C06_into_writer on the regenerated code -/

/-- **src_C06_into_writer.**  `Props.C06.C06_into_writer` on the regenerated code.  Strictly ascending sources,
    a merge function that never fails (`merge k vs = Ok(cow)` with `cow`'s bytes `mf' k vs`), a writer
    configuration admitted by `C01_roundtrip` (lawful codec with id ≤ 5, at most 255 index levels,
    `index_key_interval` a nonzero `usize`), source keys and merged values shorter than 2^32 bytes, fewer than
    2^26 pairs in all sources together, a compressor as in `src_C01_writer_roundtrip_bounded`, any loop fuel of at
    least `totalLen sources + 1`: the regenerated `Merger::write_into_stream_writer` into a fresh regenerated
    writer followed by the regenerated `Writer::into_inner` returns `Ok(file)` where `file` is the file the
    model's `W.run cd cfg` writes from `Spec.mergeSpec mf' sources` (the model merger's output) — so, under the
    two output-size conditions of `C01_roundtrip`, it opens with `count = (mergeSpec mf' sources).length` and its
    forward and backward scans return exactly the merged entries. -/
theorem src_C06_into_writer (mf' : Bytes → List Bytes → Bytes)
    (merge : List UInt8 → List (List UInt8) → Except Unit Cow)
    (hm : ∀ k vs, (merge k vs).toOption.map cowBytes = some (mf' k vs))
    (sources : List (List Entry)) (hasc : ∀ s ∈ sources, StrictAsc s)
    (hk : ∀ s ∈ sources, ∀ e ∈ s, e.1.length < 2 ^ 32)
    (hv : ∀ g ∈ Spec.group sources.flatten, (mf' g.1 g.2).length < 2 ^ 32)
    (hn : Merger.totalLen sources < 2 ^ 26) (fuel : Nat) (hfuel : Merger.totalLen sources + 1 ≤ fuel)
    (cd : Codec) (cfg : WCfg) (ct : CompressionType) (lvl : Nat)
    (hlaw : cd.Lawful) (hid : cd.id ≤ 5) (hlv : cfg.levels ≤ 255) (hiv : 1 ≤ cfg.interval)
    (hiv2 : cfg.interval < 2 ^ 64)
    (hcd : ∀ b : Bytes, b.length < 2 ^ 63 → (cd.compress b).length < 2 ^ 64) (hct : ct.toNat = cd.id) :
    ∃ file log,
      (do let g ← Gen.Merger.write_into_stream_writer lstep merge fuel (codecFn cd)
                    { sources := sources.map (fun l => ({ fresh := true, rest := l } : LCur)) }
                    (genWriterNew cfg ct lvl)
          Gen.Writer.into_inner (codecFn cd) g : M Sink) = .ok file ∧
      (Merger.run (Grenad.Props.C06.total mf') sources).1 = some (Spec.mergeSpec mf' sources) ∧
      W.run cd cfg (Spec.mergeSpec mf' sources) = .ok (file, log) ∧
      (file.length < 2 ^ 64 → (∀ e ∈ log, e.raw.length < 2 ^ 32) →
        ∃ m, Meta.parse file = .ok m ∧
          m.count = (Spec.mergeSpec mf' sources).length ∧ m.codec = cd.id ∧ m.version = 2 ∧
          m.levels = cfg.levels ∧
          Props.C01.scanForward cd file ((Spec.mergeSpec mf' sources).length + 1) (RC.new m) =
            (Spec.mergeSpec mf' sources).map (fun e => Res.ok (some e)) ++ [Res.ok none] ∧
          Props.C01.scanBackward cd file ((Spec.mergeSpec mf' sources).length + 1) (RC.new m) =
            (Spec.mergeSpec mf' sources).reverse.map (fun e => Res.ok (some e)) ++ [Res.ok none]) := by
  have hrun := Grenad.Props.C06.C06_merge mf' sources hasc
  have hsz := Grenad.Props.C06.mergeSpec_sizes mf' sources hk hv (by omega)
  have hlen : (Spec.mergeSpec mf' sources).length < 2 ^ 26 := by
    have := Grenad.length_group_flatten_le sources
    simp only [Spec.mergeSpec, List.length_map]
    omega
  obtain ⟨file, log, hgen, hw, hread⟩ :=
    src_C01_writer_roundtrip_bounded cd cfg (Spec.mergeSpec mf' sources) ct lvl hlaw hid hlv hiv hiv2
      (Grenad.Props.C06.mergeSpec_asc mf' sources) hsz.lens hlen hcd hct
  refine ⟨file, log, ?_, hrun, hw, hread⟩
  rw [(src_merge_into_writer (Grenad.Props.C06.total mf') merge hm (codecFn cd) sources fuel hfuel
    (genWriterNew cfg ct lvl)).1 _ hrun]
  exact hgen

/-! ### Concrete instances -/

/-- `src_merge_into_writer`, `some` case, evaluated: three sources sharing keys streamed into a fresh
    regenerated writer give the state the four merged inserts give -/
example : Gen.Merger.write_into_stream_writer lstep exMerge 7 (codecFn Codec.none)
      { sources := Grenad.Props.C06.exSources.map (fun l => ({ fresh := true, rest := l } : LCur)) }
      (genWriterNew Grenad.Props.C06.exWCfg .none 0) =
    genWriterGo (codecFn Codec.none) (genWriterNew Grenad.Props.C06.exWCfg .none 0)
      [([1], [10, 11]), ([2], [20]), ([3], [30, 31]), ([4, 0], [40])] := by
  refine (src_merge_into_writer (Grenad.Props.C06.total Grenad.Props.C06.exConcat) exMerge exMerge_spec _
    Grenad.Props.C06.exSources 7 (by decide) _).1 _ ?_
  rw [Grenad.Props.C06.C06_merge _ _ Grenad.Props.C06.exAsc]
  decide

/-- `none` case: the merge function fails on key `[3]`; keys `[1]` and `[2]` are inserted first, then
    `Err(Error::Merge(_))` -/
example : mw_yielded Grenad.Props.C06.exFail Grenad.Props.C06.exSources = [([1], [10, 11]), ([2], [20])] ∧
    Gen.Merger.write_into_stream_writer lstep exMergeFail 7 (codecFn Codec.none)
      { sources := Grenad.Props.C06.exSources.map (fun l => ({ fresh := true, rest := l } : LCur)) }
      (genWriterNew Grenad.Props.C06.exWCfg .none 0) = .error (Fail.err RErr.merge) := by
  refine ⟨by decide, ?_⟩
  have hm : ∀ k vs, (exMergeFail k vs).toOption.map cowBytes = Grenad.Props.C06.exFail k vs := by
    intro k vs; simp only [exMergeFail, Grenad.Props.C06.exFail]; split <;> rfl
  have hnone : (Merger.run Grenad.Props.C06.exFail Grenad.Props.C06.exSources).1 = none := by decide
  rw [(src_merge_into_writer Grenad.Props.C06.exFail exMergeFail hm _ Grenad.Props.C06.exSources 7
    (by decide) _).2 hnone]
  have : mw_yielded Grenad.Props.C06.exFail Grenad.Props.C06.exSources = [([1], [10, 11]), ([2], [20])] := by
    decide
  rw [this]
  have hok : (WriterSmoke.okOf (genWriterGo (codecFn Codec.none) (genWriterNew Grenad.Props.C06.exWCfg .none 0)
      [([1], [10, 11]), ([2], [20])])).isSome = true := by decide +kernel
  cases h : genWriterGo (codecFn Codec.none) (genWriterNew Grenad.Props.C06.exWCfg .none 0)
      [([1], [10, 11]), ([2], [20])] with
  | ok g' => rfl
  | error f => rw [h] at hok; cases hok

/-- the hypotheses of `src_C06_into_writer` are jointly satisfiable (`Codec.none`, `exSources`, `exConcat`) -/
example : ∃ file log,
    (do let g ← Gen.Merger.write_into_stream_writer lstep exMerge 7 (codecFn Codec.none)
                  { sources := Grenad.Props.C06.exSources.map (fun l => ({ fresh := true, rest := l } : LCur)) }
                  (genWriterNew Grenad.Props.C06.exWCfg .none 0)
        Gen.Writer.into_inner (codecFn Codec.none) g : M Sink) = .ok file ∧
    W.run Codec.none Grenad.Props.C06.exWCfg
      (Spec.mergeSpec Grenad.Props.C06.exConcat Grenad.Props.C06.exSources) = .ok (file, log) := by
  obtain ⟨file, log, h1, -, h2, -⟩ := src_C06_into_writer Grenad.Props.C06.exConcat exMerge exMerge_spec
    Grenad.Props.C06.exSources Grenad.Props.C06.exAsc (by decide) (by decide) (by decide) 7 (by decide)
    Codec.none Grenad.Props.C06.exWCfg .none 0 (fun _ => rfl) (by decide) (by decide) (by decide) (by decide)
    (by intro b hb; show b.length < 2 ^ 64; omega) rfl
  exact ⟨file, log, h1, h2⟩

end Grenad.SrcTie

section Axioms
open Grenad.SrcTie
#print axioms mw_into_writer
#print axioms src_merge_into_writer
#print axioms src_merge_into_writer_err
#print axioms src_merge_into_writer_rw
#print axioms src_C06_into_writer
#print axioms mw_yielded_prefix
end Axioms
