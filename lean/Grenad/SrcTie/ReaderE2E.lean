/-
  Grenad.SrcTie.ReaderE2E — reader side, end to end, part A (model level).

  `srcOps` (SrcTie/IndexCursorLoad.lean) are the in-block cursor operations exactly as the code regenerated from
  src/reader/block.rs computes them: `prev` and `ge` run the standard library's binary-search loop.  On a block
  whose tables ascend strictly (`SortedBlock`) they are `byteOps`, and every block a reader can reach in a file the
  writer produced is writer-built, hence sorted.  Therefore the reader run with `srcOps`,

      srcReader cd file := RC.step srcOps (loadCursor cd file) true,

  satisfies on every file of an `Assembly.Setting` exactly what Props/C01.lean states for `byteOps`:
  it simulates the specification cursor (same relation `Assembly.RS`), never reports an error, and from every
  reachable state performs the same step as the `byteOps` reader (`srcReader_step_eq`, `srcReader_stateAfter_eq`).

  Route: `e2e_Rb_ops_src` (the simulation `S.byteSim.ops` restated for `srcOps`: `Rb` carries `BlockOf`, which gives
  `SortedBlock`, where `srcOps.apply = byteOps.apply`), then the three generic steps of Proofs/Assembly.lean
  (`RC_step_sim`, `NE_step`, `step_load_mono`) — none of which depends on the in-block operations.
-/
import Grenad.Proofs.Assembly
import Grenad.Proofs.BinSearchBlock
import Grenad.SrcTie.IndexCursorLoad

set_option linter.unusedSimpArgs false
set_option linter.unusedVariables false

namespace Grenad.SrcTie
open Grenad Grenad.Assembly Grenad.TCursor Grenad.IterP

/-! ### `srcOps` on writer-built blocks -/

/-- A block built by the block writer has strictly ascending offsets and table keys. -/
theorem e2e_sortedBlock_of_blockOf {iv : Nat} {es : List Entry} {b : Grenad.Block} (hb : BlockOf iv es b) :
    SortedBlock b :=
  ⟨BinSearch.offsets_pairwise_of_blockOf hb, BinSearch.tableKeysAsc_of_blockOf hb⟩

/-- Every cursor in the block relation of the assembly is over a sorted block. -/
theorem e2e_Rb_sorted {iv : Nat} {log : List Emitted} {c : Grenad.BlockCursor} {l : LC} (h : Rb iv log c l) :
    SortedBlock c.block := by
  obtain ⟨e, he, b, hb, hr⟩ := h
  rw [hr.1]
  exact e2e_sortedBlock_of_blockOf hb

theorem e2e_srcOps_apply_eq_of_Rb {iv : Nat} {log : List Emitted} {c : Grenad.BlockCursor} {l : LC}
    (h : Rb iv log c l) (m : Mov) : srcOps.apply m c = byteOps.apply m c :=
  srcOps_apply_eq m c (e2e_Rb_sorted h)

/-- `srcOps` simulates the list cursor on the block relation of the assembly, exactly as `byteOps` does. -/
theorem e2e_Rb_ops_src (iv : Nat) (log : List Emitted) : OpsSim srcOps LC.ops (Rb iv log) where
  current := (Rb_ops iv log).current
  first := (Rb_ops iv log).first
  last := (Rb_ops iv log).last
  next := (Rb_ops iv log).next
  prev := by
    intro b b' h
    have e : srcOps.prev b = byteOps.prev b := e2e_srcOps_apply_eq_of_Rb h .prev
    rw [e]
    exact (Rb_ops iv log).prev b b' h
  ge := by
    intro b b' q h
    have e : srcOps.ge b q = byteOps.ge b q := e2e_srcOps_apply_eq_of_Rb h (.ge q)
    rw [e]
    exact (Rb_ops iv log).ge b b' q h

/-! ### the `srcOps` reader against the abstract reader -/

section
variable {s : Store} {load : Nat → Option Grenad.BlockCursor} {iv : Nat} {log : List Emitted}

/-- `ByteSim.step` for `srcOps`: one operation of the `srcOps` reader (unrestricted loader) against one operation
    of the abstract reader that does not fail. -/
theorem e2e_srcStep (B : ByteSim s load (Rb iv log)) {c : RC Grenad.BlockCursor} {a : RC LC}
    (h : RCRel (Rb iv log) c a) (op : Op) (hne : (RC.stepA s true a op).2 ≠ .err) :
    RCRel (Rb iv log) (RC.step srcOps load true c op).1 (RC.stepA s true a op).1 ∧
      (RC.step srcOps load true c op).2 = (RC.stepA s true a op).2 := by
  have h1 := RC_step_sim (e2e_Rb_ops_src iv log) B.loadSim true c a h op
  have hne' : (RC.step srcOps (restrict s load) true c op).2 ≠ .err := by
    rw [h1.2]; exact hne
  have h2 := step_load_mono srcOps (restrict s load) load (restrict_le s load) true c op hne'
  rw [h2]; exact h1

variable {root levels : Nat} {es : List Entry}

/-- The `srcOps` reader simulates the specification cursor, on the same relation as the `byteOps` reader. -/
theorem e2e_RS_sim_src (h : FileOK s root levels es) (B : ByteSim s load (Rb iv log)) :
    Sim es (RC.step srcOps load true) (RS s root levels es (Rb iv log)) := by
  intro c p op hR
  obtain ⟨a, hrel, hinv, hne⟩ := hR
  obtain ⟨n1, n2⟩ := NE_step h hne op
  obtain ⟨i1, i2⟩ := step_inv h hinv op
  obtain ⟨b1, b2⟩ := e2e_srcStep B hrel op n1
  exact ⟨⟨_, b1, i2, n2⟩, by rw [b2]; exact i1⟩

end

/-! ### related states are equal states -/

theorem e2e_blockOf_inj {iv : Nat} {es : List Entry} {b b' : Grenad.Block} (h : BlockOf iv es b)
    (h' : BlockOf iv es b') : b = b' := by
  obtain ⟨p, o⟩ := b
  obtain ⟨p', o'⟩ := b'
  have h1 := h.payload
  have h2 := h'.payload
  have h3 := h.offsets
  have h4 := h'.offsets
  simp only at h1 h2 h3 h4
  rw [h1, h2, h3, h4]

/-- The block relation determines the byte-level cursor. -/
theorem e2e_Rb_inj {iv : Nat} {log : List Emitted} {c c' : Grenad.BlockCursor} {l : LC}
    (h : Rb iv log c l) (h' : Rb iv log c' l) : c = c' := by
  obtain ⟨e, he, b, hb, hr⟩ := h
  obtain ⟨e', he', b', hb', hr'⟩ := h'
  obtain ⟨pos, rfl, rfl, -⟩ := hr.cases
  obtain ⟨pos', rfl, hl, -⟩ := hr'.cases
  simp only [LC.mk.injEq] at hl
  obtain ⟨hes, hpos⟩ := hl
  rw [← hes] at hb'
  rw [e2e_blockOf_inj hb hb', hes, hpos]

theorem e2e_LvlRel_inj {R : Grenad.BlockCursor → LC → Prop} (hR : ∀ c c' l, R c l → R c' l → c = c') :
    ∀ (x x' : List (Nat × Grenad.BlockCursor)) (y : List (Nat × LC)), LvlRel R x y → LvlRel R x' y → x = x'
  | [], [], [], _, _ => rfl
  | a :: x, a' :: x', b :: y, h, h' => by
    obtain ⟨o, c⟩ := a
    obtain ⟨o', c'⟩ := a'
    obtain ⟨h1, h2, h3⟩ := h
    obtain ⟨h1', h2', h3'⟩ := h'
    simp only at h1 h2 h1' h2'
    rw [h1, h1', hR _ _ _ h2 h2', e2e_LvlRel_inj hR x x' y h3 h3']
  | [], _ :: _, [], _, h' => h'.elim
  | _ :: _, _, [], h, _ => h.elim
  | [], _, _ :: _, h, _ => h.elim
  | _ :: _, [], _ :: _, _, h' => h'.elim

theorem e2e_OptRel_inj {α α' : Type} {R : α → α' → Prop} (hR : ∀ c c' l, R c l → R c' l → c = c')
    {x x' : Option α} {y : Option α'} (h : OptRel R x y) (h' : OptRel R x' y) : x = x' := by
  cases x <;> cases x' <;> cases y <;> simp at h h' ⊢
  exact hR _ _ _ h h'

/-- Two byte-level reader states related to the same abstract state are equal. -/
theorem e2e_RCRel_inj {R : Grenad.BlockCursor → LC → Prop} (hR : ∀ c c' l, R c l → R c' l → c = c')
    {c c' : RC Grenad.BlockCursor} {a : RC LC} (h : RCRel R c a) (h' : RCRel R c' a) : c = c' := by
  obtain ⟨b, lv, i, cu, lg⟩ := c
  obtain ⟨b', lv', i', cu', lg'⟩ := c'
  obtain ⟨h1, h2, h3, h4, h5⟩ := h
  obtain ⟨h1', h2', h3', h4', h5'⟩ := h'
  simp only at h1 h2 h3 h4 h5 h1' h2' h3' h4' h5'
  rw [h1, h1', h2, h2', h3, h3', e2e_OptRel_inj (e2e_LvlRel_inj hR) h4 h4', e2e_OptRel_inj hR h5 h5']

section
variable {s : Store} {load : Nat → Option Grenad.BlockCursor} {iv : Nat} {log : List Emitted}
  {root levels : Nat} {es : List Entry}

/-- From every state related to the specification cursor, the `srcOps` reader and the `byteOps` reader perform the
    same step: same new state, same result. -/
theorem e2e_RS_step_eq (h : FileOK s root levels es) (B : ByteSim s load (Rb iv log))
    {c : RC Grenad.BlockCursor} {p : Spec.Pos} (hR : RS s root levels es (Rb iv log) c p) (op : Op) :
    RC.step srcOps load true c op = RC.step byteOps load true c op := by
  obtain ⟨a, hrel, hinv, hne⟩ := hR
  obtain ⟨n1, n2⟩ := NE_step h hne op
  obtain ⟨b1, b2⟩ := e2e_srcStep B hrel op n1
  obtain ⟨d1, d2⟩ := B.step hrel op n1
  have hinj : ∀ (c c' : Grenad.BlockCursor) (l : LC), Rb iv log c l → Rb iv log c' l → c = c' :=
    fun _ _ _ => e2e_Rb_inj
  exact Prod.ext (e2e_RCRel_inj hinj b1 d1) (b2.trans d2.symm)

end

/-! ### the property theorems -/

/-- One public cursor call of the reader over `file` with the in-block operations as the translated code computes
    them (repaired code, `fixF1 = true`). -/
abbrev srcReader (cd : Codec) (file : Bytes) : RC Grenad.BlockCursor → Op → RC Grenad.BlockCursor × Res :=
  RC.step srcOps (loadCursor cd file) true

/-- The `byteOps` reader of Props/C01.lean. -/
abbrev e2eByteReader (cd : Codec) (file : Bytes) : RC Grenad.BlockCursor → Op → RC Grenad.BlockCursor × Res :=
  RC.step byteOps (loadCursor cd file) true

section
variable {cd : Codec} {cfg : WCfg} {es : List Entry} {file : Bytes} {log : List Emitted} {m : Meta.Meta}

/-- Everything the property theorems need (the analogue of `Setting.main`): the `srcOps` reader simulates the
    specification cursor from the freshly opened cursor, on a relation on which it coincides with the `byteOps`
    reader. -/
theorem srcReader_main (S : Setting cd cfg es file log) (hm : Meta.parse file = .ok m) :
    ∃ (R : RC Grenad.BlockCursor → Spec.Pos → Prop),
      Sim es (srcReader cd file) R ∧ Sim es (e2eByteReader cd file) R ∧ R (RC.new m) .fresh ∧
      (∀ c p, R c p → ∀ op, srcReader cd file c op = e2eByteReader cd file c op) ∧
      (∀ c p, R c p → ∀ op, (srcReader cd file c op).2 ≠ .err) := by
  obtain ⟨root, hok, hparse⟩ := S.fileOK
  rw [hm] at hparse
  cases hparse
  refine ⟨RS (storeOf log) root cfg.levels es (Rb cfg.interval log), e2e_RS_sim_src hok S.byteSim,
    RS_sim hok S.byteSim, RS_new hok _ _ rfl rfl, fun c p hR op => e2e_RS_step_eq hok S.byteSim hR op, ?_⟩
  rintro c p ⟨a, hrel, hinv, hne⟩ op
  rw [(e2e_srcStep S.byteSim hrel op (NE_step hok hne op).1).2]
  exact (NE_step hok hne op).1

/-- **C01/C03 for the operations as the code computes them, every history.**  For every finite list of cursor
    operations, the results of the `srcOps` reader over the written file agree with the specification cursor over
    the inserted entries wherever the latter determines the result. -/
theorem srcReader_history (S : Setting cd cfg es file log) (hm : Meta.parse file = .ok m) (ops : List Op) :
    ∀ x ∈ runBothG (srcReader cd file) es (RC.new m) .fresh ops, Spec.Agree x.1 x.2 := by
  obtain ⟨R, hsim, -, hR, -⟩ := srcReader_main S hm
  exact runBothG_agree hsim hR ops

/-- The `srcOps` reader never reports an error on a written file, whatever the history. -/
theorem srcReader_never_err (S : Setting cd cfg es file log) (hm : Meta.parse file = .ok m)
    (ops : List Op) (op : Op) :
    (srcReader cd file (stateAfter (srcReader cd file) (RC.new m) ops) op).2 ≠ .err := by
  obtain ⟨R, hsim, -, hR, -, hne⟩ := srcReader_main S hm
  exact hne _ _ (stateAfter_R hsim hR ops) op

/-- After every history the `srcOps` reader and the `byteOps` reader are in the same state. -/
theorem srcReader_stateAfter_eq (S : Setting cd cfg es file log) (hm : Meta.parse file = .ok m)
    (ops : List Op) :
    stateAfter (srcReader cd file) (RC.new m) ops = stateAfter (e2eByteReader cd file) (RC.new m) ops := by
  obtain ⟨R, hsim, hsimb, hR, heq, -⟩ := srcReader_main S hm
  suffices H : ∀ (ops : List Op) (c : RC Grenad.BlockCursor) (p : Spec.Pos), R c p →
      stateAfter (srcReader cd file) c ops = stateAfter (e2eByteReader cd file) c ops from H ops _ _ hR
  intro ops
  induction ops with
  | nil => intro c p _; rfl
  | cons op ops ih =>
    intro c p hc
    have e := heq c p hc op
    show stateAfter (srcReader cd file) (srcReader cd file c op).1 ops =
      stateAfter (e2eByteReader cd file) (e2eByteReader cd file c op).1 ops
    rw [← e]
    exact ih _ _ (hsim c p op hc).1

/-- ... and the next call returns the same state and the same result on both. -/
theorem srcReader_step_eq (S : Setting cd cfg es file log) (hm : Meta.parse file = .ok m)
    (ops : List Op) (op : Op) :
    srcReader cd file (stateAfter (srcReader cd file) (RC.new m) ops) op =
      e2eByteReader cd file (stateAfter (e2eByteReader cd file) (RC.new m) ops) op := by
  obtain ⟨R, hsim, -, hR, heq, -⟩ := srcReader_main S hm
  rw [← srcReader_stateAfter_eq S hm ops]
  exact heq _ _ (stateAfter_R hsim hR ops) op

/-! ### C02 -/

/-- `ge q` from the freshly opened cursor returns the ceiling of `q`. -/
theorem srcReader_ge (S : Setting cd cfg es file log) (hm : Meta.parse file = .ok m) (q : Bytes) :
    (srcReader cd file (RC.new m) (.ge q)).2 = .ok (Spec.ceiling es q) := by
  obtain ⟨R, hsim, -, hR, -⟩ := srcReader_main S hm
  exact sim_ge hsim hR q

/-- `le q` from the freshly opened cursor returns the floor of `q`. -/
theorem srcReader_le (S : Setting cd cfg es file log) (hm : Meta.parse file = .ok m) (q : Bytes) :
    (srcReader cd file (RC.new m) (.le q)).2 = .ok (Spec.floor es q) := by
  obtain ⟨R, hsim, -, hR, -⟩ := srcReader_main S hm
  exact sim_le hsim S.H.asc hR q

/-- `eq q` from the freshly opened cursor returns the entry with key `q`, if any. -/
theorem srcReader_eq (S : Setting cd cfg es file log) (hm : Meta.parse file = .ok m) (q : Bytes) :
    (srcReader cd file (RC.new m) (.eq q)).2 = .ok (Spec.lookup es q) := by
  obtain ⟨R, hsim, -, hR, -⟩ := srcReader_main S hm
  exact sim_eq hsim S.H.asc hR q

/-- After any history. -/
theorem srcReader_ge_after (S : Setting cd cfg es file log) (hm : Meta.parse file = .ok m)
    (ops : List Op) (q : Bytes) :
    (srcReader cd file (stateAfter (srcReader cd file) (RC.new m) ops) (.ge q)).2
      = .ok (Spec.ceiling es q) := by
  obtain ⟨R, hsim, -, hR, -⟩ := srcReader_main S hm
  exact sim_ge hsim (stateAfter_R hsim hR ops) q

theorem srcReader_le_after (S : Setting cd cfg es file log) (hm : Meta.parse file = .ok m)
    (ops : List Op) (q : Bytes) :
    (srcReader cd file (stateAfter (srcReader cd file) (RC.new m) ops) (.le q)).2
      = .ok (Spec.floor es q) := by
  obtain ⟨R, hsim, -, hR, -⟩ := srcReader_main S hm
  exact sim_le hsim S.H.asc (stateAfter_R hsim hR ops) q

theorem srcReader_eq_after (S : Setting cd cfg es file log) (hm : Meta.parse file = .ok m)
    (ops : List Op) (q : Bytes) :
    (srcReader cd file (stateAfter (srcReader cd file) (RC.new m) ops) (.eq q)).2
      = .ok (Spec.lookup es q) := by
  obtain ⟨R, hsim, -, hR, -⟩ := srcReader_main S hm
  exact sim_eq hsim S.H.asc (stateAfter_R hsim hR ops) q

/-! ### C01: scans -/

/-- `next()` × `(n+1)` from the freshly opened cursor returns exactly the inserted pairs in insertion order and then
    `None`; `prev()` × `(n+1)` returns them in reverse order and then `None`. -/
theorem srcReader_roundtrip (S : Setting cd cfg es file log) (hm : Meta.parse file = .ok m) :
    scan (srcReader cd file) .next (es.length + 1) (RC.new m) =
      es.map (fun e => Res.ok (some e)) ++ [Res.ok none] ∧
    scan (srcReader cd file) .prev (es.length + 1) (RC.new m) =
      es.reverse.map (fun e => Res.ok (some e)) ++ [Res.ok none] := by
  obtain ⟨R, hsim, -, hR, -⟩ := srcReader_main S hm
  exact ⟨scan_next hsim hR, scan_prev hsim hR⟩

end

end Grenad.SrcTie

section Audit
open Grenad.SrcTie
#print axioms srcReader_main
#print axioms srcReader_history
#print axioms srcReader_never_err
#print axioms srcReader_stateAfter_eq
#print axioms srcReader_step_eq
#print axioms srcReader_ge
#print axioms srcReader_le
#print axioms srcReader_eq
#print axioms srcReader_ge_after
#print axioms srcReader_le_after
#print axioms srcReader_eq_after
#print axioms srcReader_roundtrip
end Audit
