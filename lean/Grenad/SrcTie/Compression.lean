/-
  Grenad.SrcTie.Compression — translator tie for the codec dispatch of src/compression.rs (`compress`, `decompress`),
  regenerated from /repo/src on every run.  The six codec crates stay external: `xcompress name level data` /
  `xdecompress name body` stand for `<name>_compress` / `<name>_decompress`.  What is proved is the part grenad owns:
  both functions dispatch a `CompressionType` to the codec of the SAME name, `None` is the identity both ways, and
  hence the pair is a lawful `Codec` of the model (`decompress ∘ compress = id`) whenever each crate is, with the id
  that `Metadata::write_into` stores (`CompressionType as u8`).
-/
import Grenad.Generated.Src.SrcCompression
import Grenad.Model.Writer

set_option linter.unusedSimpArgs false
set_option linter.unusedVariables false

namespace Grenad.SrcTie
open Grenad Grenad.R Grenad.Gen

/-- the codec crate a compression type goes to (`none`: no crate, the bytes as they are) -/
def codecName : Gen.CompressionType → Option String
  | .none => none
  | .snappyPre05 => some "snappy_pre_05"
  | .zlib => some "zlib"
  | .lz4 => some "lz4"
  | .zstd => some "zstd"
  | .snappy => some "snappy"

/-- `compress` sends every type to the crate of its name, and `None` to the identity -/
theorem src_compress (xc : String → Nat → List UInt8 → Option (List UInt8)) (t : Gen.CompressionType) (lvl : Nat) (d : Bytes) :
    Gen.compress xc t lvl d =
      match codecName t with
      | none => .ok d
      | some n => liftCompress (xc n lvl d) := by
  cases t <;> simp [Gen.compress, codecName, bind, Except.bind, pure, Except.pure] <;>
    (cases xc _ lvl d <;> simp [liftCompress, pure, Except.pure, throw, throwThe, MonadExceptOf.throw, Except.bind])

/-- `decompress` reads its input to the end, sends it to the crate of the type's name and appends the result -/
theorem src_decompress (xd : String → List UInt8 → Option (List UInt8)) (t : Gen.CompressionType) (body out : Bytes) :
    Gen.decompress xd t { bytes := body, pos := 0 } out =
      match codecName t with
      | none => .ok (out ++ body)
      | some n => (liftDecompress (xd n body)).map (out ++ ·) := by
  cases t <;> simp [Gen.decompress, codecName, Src.readToEnd, bind, Except.bind, pure, Except.pure] <;>
    (cases xd _ body <;> simp [liftDecompress, pure, Except.pure, throw, throwThe, MonadExceptOf.throw, Except.bind, Except.map])

/-- **Same crate both ways.**  Whatever `compress` returned for a type is read back by `decompress` for that type,
    provided each crate undoes its own compression. -/
theorem src_codec_roundtrip (xc : String → Nat → List UInt8 → Option (List UInt8)) (xd : String → List UInt8 → Option (List UInt8))
    (hlaw : ∀ n lvl d c, xc n lvl d = some c → xd n c = some d)
    (t : Gen.CompressionType) (lvl : Nat) (d c out : Bytes) (h : Gen.compress xc t lvl d = .ok c) :
    Gen.decompress xd t { bytes := c, pos := 0 } out = .ok (out ++ d) := by
  rw [src_compress] at h
  rw [src_decompress]
  cases hn : codecName t with
  | none => simp only [hn] at h ⊢; cases h; rfl
  | some n =>
    simp only [hn] at h ⊢
    cases hx : xc n lvl d with
    | none => simp [hx, liftCompress, throw, throwThe, MonadExceptOf.throw] at h
    | some c' =>
      simp only [hx, liftCompress, pure, Except.pure, Except.ok.injEq] at h
      subst h
      simp [hlaw n lvl d c' hx, liftDecompress, pure, Except.pure, Except.map]

/-- the model's `Codec` that the regenerated dispatch defines for a type and level, over total crates -/
def codecOfSrc (xc : String → Nat → List UInt8 → List UInt8) (xd : String → List UInt8 → Option (List UInt8))
    (t : Gen.CompressionType) (lvl : Nat) : Codec :=
  { id := Gen.CompressionType.toNat t
    compress := fun d => match Gen.compress (fun n l b => some (xc n l b)) t lvl d with
      | .ok c => c
      | .error _ => d
    decompress := fun b => match Gen.decompress xd t { bytes := b, pos := 0 } [] with
      | .ok r => some r
      | .error _ => none }

/-- **The regenerated dispatch is a lawful codec of the model** (the hypothesis `Lawful` of C01/C09) whenever each
    crate is lawful, and its id is at most 5. -/
theorem src_codec_lawful (xc : String → Nat → List UInt8 → List UInt8) (xd : String → List UInt8 → Option (List UInt8))
    (hlaw : ∀ n lvl d, xd n (xc n lvl d) = some d) (t : Gen.CompressionType) (lvl : Nat) :
    (codecOfSrc xc xd t lvl).Lawful ∧ (codecOfSrc xc xd t lvl).id ≤ 5 := by
  constructor
  · intro b
    simp only [codecOfSrc]
    have hc : ∃ c, Gen.compress (fun n l b => some (xc n l b)) t lvl b = .ok c := by
      rw [src_compress]; cases codecName t <;> simp [liftCompress, pure, Except.pure]
    obtain ⟨c, hc⟩ := hc
    rw [hc]
    have := src_codec_roundtrip (fun n l b => some (xc n l b)) xd
      (by intro n l d c h; simp only [Option.some.injEq] at h; subst h; exact hlaw n l d) t lvl b c [] hc
    simp only [this, List.nil_append]
  · cases t <;> simp [codecOfSrc, Gen.CompressionType.toNat]

/-- a swapped pair is not lawful: were `decompress` to send `Zlib` to another crate than `compress` does, the round
    trip would be that of two unrelated crates — the statement above has no such freedom (non-vacuity of the tie:
    the names on both sides are the ones in the source) -/
example : codecName .zlib = some "zlib" ∧ codecName .snappyPre05 = some "snappy_pre_05" ∧ codecName .snappy = some "snappy" := by
  decide

end Grenad.SrcTie
