/-
  Grenad.SrcTie.BuiltSrc — the block level end to end on regenerated code: entries pushed through the
  TRANSLATED `BlockWriter::insert`, the block closed by the TRANSLATED `BlockWriter::finish`, its footer read
  as `Block::read_from` does (the model's `Block.parse`), then any sequence of moves of the TRANSLATED in-block
  cursor: every move that returns gives the list cursor's answer over exactly the inserted entries.
-/
import Grenad.SrcTie.TBlockSrc
import Grenad.SrcTie.BlockWriter
import Grenad.Proofs.TBlock

set_option linter.unusedSimpArgs false
set_option linter.unusedVariables false

namespace Grenad.SrcTie
open Grenad Grenad.R Grenad.Gen

/-- the translated insert, folded over a list -/
def genInsertAll (w : Gen.BlockWriter) : List Entry → M Gen.BlockWriter
  | [] => pure w
  | (k, v) :: es =>
    match BlockWriter.insert w k v with
    | .ok w' => genInsertAll w' es
    | .error e => .error e

/-- the debug assertion of `BlockWriter::insert` is an invariant of the model's block writer -/
theorem insert_counter_inv (bw bw' : BW) (k v : Bytes) (h1 : 1 ≤ bw.interval) (hc : bw.counter ≤ bw.interval)
    (h : bw.insert k v = .ok bw') : bw'.counter ≤ bw'.interval ∧ bw'.interval = bw.interval := by
  unfold BW.insert at h
  split at h
  · cases h
  · split at h
    · cases h
    · by_cases hci : bw.counter = bw.interval
      · cases hlk : bw.lastKey with
        | none => simp [hci, hlk] at h; subst h; simp; omega
        | some lk =>
          simp only [hci, hlk] at h
          split at h
          · simp at h; subst h; simp; omega
          · cases h
      · cases hlk : bw.lastKey with
        | none => simp [hci, hlk] at h; subst h; simp; omega
        | some lk =>
          simp only [hci, hlk] at h
          split at h
          · simp at h; subst h; simp; omega
          · cases h

theorem src_insertAll_lockstep : ∀ (es : List Entry) (w : Gen.BlockWriter) (items : List Entry) (bw' : BW),
    1 ≤ w.index_key_interval → w.index_key_interval < 2 ^ 64 → w.index_key_counter ≤ w.index_key_interval →
    (toBW w items).insertAll es = .ok bw' →
    ∃ w', genInsertAll w es = .ok w' ∧ toBW w' (items ++ es) = bw' := by
  intro es
  induction es with
  | nil =>
    intro w items bw' _ _ _ h
    simp [BW.insertAll] at h
    exact ⟨w, rfl, by simpa using h⟩
  | cons e es ih =>
    intro w items bw' h1 hi hc h
    obtain ⟨k, v⟩ := e
    simp only [BW.insertAll] at h
    have hs := src_bw_insert w items k v hc hi
    cases hm : BW.insert (toBW w items) k v with
    | error t => simp [hm] at h
    | ok bw1 =>
      rw [hm] at hs h
      simp only at hs h
      obtain ⟨w1, hw1, hto⟩ := hs
      obtain ⟨hc1, hiv1⟩ := insert_counter_inv (toBW w items) bw1 k v (by simpa [toBW] using h1) (by simpa [toBW] using hc) hm
      have e1 : w1.index_key_interval = bw1.interval := by rw [← hto]; rfl
      have e2 : w1.index_key_counter = bw1.counter := by rw [← hto]; rfl
      have hiv1' : bw1.interval = w.index_key_interval := by rw [hiv1]; rfl
      obtain ⟨w', hw', hto'⟩ := ih w1 (items ++ [(k, v)]) bw' (by omega) (by omega) (by omega) (by rw [hto]; exact h)
      refine ⟨w', ?_, ?_⟩
      · simp only [genInsertAll, hw1]; exact hw'
      · simpa using hto'

/-- a fresh translated block writer -/
def genNew (iv : Nat) : Gen.BlockWriter :=
  { buffer := [], last_key := none, index_key_interval := iv, index_offsets := [0], index_key_counter := 0 }

/-- **Block level, end to end, on regenerated code.** -/
theorem src_block_end_to_end {iv : Nat} (hiv : 1 ≤ iv) (hi : iv < 2 ^ 64) {es : List Entry} (hasc : StrictAsc es)
    (hl : ∀ e ∈ es, e.1.length < 2 ^ 32 ∧ e.2.length < 2 ^ 32) (hsz : (frames es).length < 2 ^ 32)
    (ct : Gen.CompressionType) :
    ∃ (w wf : Gen.BlockWriter) (b : Grenad.Block),
      genInsertAll (genNew iv) es = .ok w ∧ BlockWriter.finish w = .ok wf ∧
      Grenad.Block.parse wf.buffer = some b ∧ BlockOf iv es b ∧
      -- the block as `Block::read_from` leaves it, and every run of translated cursor moves over it
      let gb : Gen.Block := { compression_type := ct, buffer := wf.buffer, payload_size := b.payload.length, index_offsets := b.offsets }
      toBlock gb = b ∧ OKBlock gb ∧
      ∀ (ms : List Mov) (rs : List (Option (Bytes × Bytes))) (c' : Gen.BlockCursor),
        (ms.foldlM (fun (s : Gen.BlockCursor × List (Option (Bytes × Bytes))) m => do
            let (r, c1) ← genMove m s.1
            pure (c1, s.2 ++ [r])) (({ block := gb, current_offset := none } : Gen.BlockCursor), []) : M _) = .ok (c', rs) →
        rs = (ms.foldl (fun (s : LC × List (Option Entry)) m =>
            ((LC.ops.apply m s.1).1, s.2 ++ [(LC.ops.apply m s.1).2])) (LC.ofList es, [])).2 := by
  obtain ⟨bw, b, hins, hbuilt, hparse, hpay, hoffs, hbo⟩ := tblock_roundtrip hiv hasc hl hsz
  have h0 : toBW (genNew iv) [] = BW.new iv := rfl
  obtain ⟨w, hw, hto⟩ := src_insertAll_lockstep es (genNew iv) [] bw hiv hi (by simp [genNew]) (by rw [h0]; exact hins)
  simp only [List.nil_append] at hto
  have hinv := hbuilt.inv hiv
  have hlen : w.index_offsets.length < 2 ^ 32 := by
    have e1 : w.index_offsets = bw.offsets := by rw [← hto]; rfl
    have := offsetTable_length_le iv es
    rw [e1, hinv.offsets_eq hiv]
    have hb := hinv.buffer
    omega
  have hfin := src_bw_finish w es hlen
  rw [hto] at hfin
  cases hf : BlockWriter.finish w with
  | error e => simp [hf, Except.map] at hfin
  | ok wf =>
    simp only [hf, Except.map, Except.ok.injEq] at hfin
    refine ⟨w, wf, b, hw, hf, by rw [hfin]; exact hparse, hbo, ?_⟩
    intro gb
    have hgb : toBlock gb = b := by
      have hpre : wf.buffer.take b.payload.length = b.payload := by
        rw [hfin, hpay]
        simp [BW.finish, List.append_assoc]
      show ({ payload := wf.buffer.take b.payload.length, offsets := b.offsets } : Grenad.Block) = b
      rw [hpre]
    have hok : OKBlock gb := by
      constructor
      · show b.payload.length ≤ wf.buffer.length
        rw [hfin, hpay]; simp [BW.finish]
      · show wf.buffer.length < 2 ^ 62
        rw [hfin]
        have hb := hinv.buffer
        have h8 : (bw.offsets.flatMap be64).length = 8 * bw.offsets.length := by
          induction bw.offsets with
          | nil => rfl
          | cons x xs ih => simp [List.flatMap_cons, ih, be64, beN, leN]; omega
        have e1 : w.index_offsets = bw.offsets := by rw [← hto]; rfl
        simp [BW.finish, h8, be32, beN, leN, hb]
        rw [← e1]
        omega
    refine ⟨hgb, hok, ?_⟩
    intro ms rs c' hrun
    exact src_tblock_run ms { block := gb, current_offset := none } (LC.ofList es) hok (by rw [hgb]; exact hbo)
      (by
        have : toBC { block := gb, current_offset := none } = BlockCursor.ofBlock b := by
          simp [toBC, BlockCursor.ofBlock, hgb]
        rw [hgb, this]; exact BRepr.ofBlock es b) rs c' hrun

end Grenad.SrcTie
