/-
  Grenad.SrcTie.NoPanic — on blocks built by a block writer the TRANSLATED in-block cursor never panics and
  never runs out of loop fuel: every move returns.  Together with `src_tblock_sim` this upgrades the
  partial-correctness ties of `SrcTie/BlockCursor.lean` to total statements on those blocks.
-/
import Grenad.SrcTie.TBlockSrc
import Grenad.Proofs.TBlock

set_option linter.unusedSimpArgs false
set_option linter.unusedVariables false

namespace Grenad.SrcTie
open Grenad Grenad.R Grenad.Gen

section
variable {iv : Nat} {es : List Entry} {b : Gen.Block}

/-- the translated `entry_at` at the offset of entry `i` (or at the end of the payload) returns -/
theorem entry_at_offAt (hok : OKBlock b) (hb : BlockOf iv es (toBlock b)) {i : Nat} (hi : i ≤ es.length) :
    Gen.Block.entry_at b (offAt es i) = .ok (Grenad.Block.entryAt (toBlock b) (offAt es i)) := by
  rcases Nat.lt_or_ge i es.length with hlt | hge
  · have hm := hb.entryAt_lt hlt
    have := src_entry_at b (offAt es i) hok.hp hok.hl
    rw [hm] at this ⊢
    exact this
  · have hie : i = es.length := by omega
    subst hie
    have hm := hb.entryAt_end
    rw [hm]
    -- past the end: the first test of `entry_at` answers `None`
    unfold Gen.Block.entry_at
    have hp := src_block_payload b hok.hp
    have hlen : (toBlock b).payload.length = offAt es es.length := by
      rw [hb.payload, offAt_length]
    simp [bind, Except.bind, hp, hlen, pure, Except.pure]

/-- the cursor is unpositioned or sits on an entry boundary -/
def GoodPos (es : List Entry) (c : Gen.BlockCursor) : Prop :=
  ∀ o, c.current_offset = some o → ∃ i, i ≤ es.length ∧ o = offAt es i

theorem current_total (c : Gen.BlockCursor) (hok : OKBlock c.block) (hb : BlockOf iv es (toBlock c.block))
    (hg : GoodPos es c) : ∃ r, Gen.BlockCursor.current c = .ok r := by
  unfold Gen.BlockCursor.current
  cases ho : c.current_offset with
  | none => exact ⟨none, by simp [ho, bind, Except.bind, pure, Except.pure]⟩
  | some o =>
    obtain ⟨i, hi, rfl⟩ := hg o ho
    simp only [ho, bind, Except.bind, pure, Except.pure, entry_at_offAt hok hb hi]
    exact ⟨_, rfl⟩

theorem first_total (c : Gen.BlockCursor) (hok : OKBlock c.block) (hb : BlockOf iv es (toBlock c.block)) :
    ∃ r c', Gen.BlockCursor.move_on_first c = .ok (r, c') := by
  unfold Gen.BlockCursor.move_on_first
  simp only [bind, Except.bind, pure, Except.pure, Gen.Block.index_offsets_fn, Option.map_id']
  have hg : GoodPos es { block := c.block, current_offset := c.block.index_offsets.head? } := by
    intro o ho
    simp only at ho
    have hoffs : c.block.index_offsets = (toBlock c.block).offsets := rfl
    cases hl : c.block.index_offsets with
    | nil => simp [hl] at ho
    | cons x xs =>
      simp [hl] at ho
      subst ho
      have h0 : 0 < (toBlock c.block).offsets.length := by rw [← hoffs, hl]; simp
      have := hb.offs_get h0
      simp only [← hoffs, hl, List.getElem_cons_zero, Nat.zero_mul] at this
      exact ⟨0, Nat.zero_le _, this⟩
  obtain ⟨r, hr⟩ := current_total { block := c.block, current_offset := c.block.index_offsets.head? } hok hb hg
  have : (fun (off : Nat) => off) = id := rfl
  simp only [this, Option.map_id, id] at *
  rw [hr]
  exact ⟨_, _, rfl⟩

theorem next_total (c : Gen.BlockCursor) (hok : OKBlock c.block) (hb : BlockOf iv es (toBlock c.block))
    (hg : GoodPos es c) : ∃ r c', Gen.BlockCursor.move_on_next c = .ok (r, c') := by
  unfold Gen.BlockCursor.move_on_next
  cases ho : c.current_offset with
  | none =>
    obtain ⟨r, c', h⟩ := first_total c hok hb
    simp only [ho, bind, Except.bind, pure, Except.pure, h]
    exact ⟨_, _, rfl⟩
  | some o =>
    obtain ⟨i, hi, rfl⟩ := hg o ho
    simp only [ho, bind, Except.bind, pure, Except.pure, entry_at_offAt hok hb hi]
    rcases Nat.lt_or_ge i es.length with hlt | hge
    · rw [hb.entryAt_lt hlt]
      simp only
      have hg' : GoodPos es { block := c.block, current_offset := some (offAt es (i + 1)) } := by
        intro o' ho'
        simp only [Option.some.injEq] at ho'
        exact ⟨i + 1, by omega, ho'.symm⟩
      obtain ⟨r, hr⟩ := current_total { block := c.block, current_offset := some (offAt es (i + 1)) } hok hb hg'
      rw [hr]
      exact ⟨_, _, rfl⟩
    · have hie : i = es.length := by omega
      subst hie
      rw [hb.entryAt_end]
      exact ⟨_, _, rfl⟩

/-! ### the scan loops terminate within their fuel -/

theorem scan_loop_total (stop : Bytes → Bool) {α} : ∀ (l : List α) (c : Gen.BlockCursor) (i : Nat),
    OKBlock c.block → BlockOf iv es (toBlock c.block) → GoodPos es c → i ≤ es.length →
    es.length - i + 1 ≤ l.length →
    ∃ st', forIn l (c, offAt es i, false) (scanBody stop) = .ok st' ∧ st'.2.2 = true ∧
      st'.1.block = c.block ∧ GoodPos es st'.1 := by
  intro l
  induction l with
  | nil => intro c i _ _ _ _ hlen; simp at hlen
  | cons a l ih =>
    intro c i hok hb hg hi hlen
    rw [List.forIn_cons]
    simp only [scanBody, entry_at_offAt hok hb hi, bind, Except.bind]
    rcases Nat.lt_or_ge i es.length with hlt | hge
    · rw [hb.entryAt_lt hlt]
      simp only
      by_cases hs : stop es[i].1 = true
      · simp only [hs, if_true, Except.pure]
        exact ⟨_, rfl, rfl, rfl, hg⟩
      · simp only [hs, if_false, Except.pure]
        have hg1 : GoodPos es { block := c.block, current_offset := some (offAt es i) } := by
          intro o ho; simp only [Option.some.injEq] at ho; exact ⟨i, hi, ho.symm⟩
        simp only [List.length_cons] at hlen
        obtain ⟨st', h1, h2, h3, h4⟩ := ih { block := c.block, current_offset := some (offAt es i) } (i + 1)
          hok hb hg1 (by omega) (by omega)
        exact ⟨st', h1, h2, h3, h4⟩
    · have hie : i = es.length := by omega
      subst hie
      rw [hb.entryAt_end]
      simp only [Except.pure]
      exact ⟨_, rfl, rfl, rfl, hg⟩

theorem last_loop_total {α} : ∀ (l : List α) (c : Gen.BlockCursor) (i : Nat),
    OKBlock c.block → BlockOf iv es (toBlock c.block) → GoodPos es c → i ≤ es.length →
    es.length - i + 1 ≤ l.length →
    ∃ st', forIn l (c, offAt es i, false) lastBody = .ok st' ∧ st'.2.2 = true ∧
      st'.1.block = c.block ∧ GoodPos es st'.1 := by
  intro l
  induction l with
  | nil => intro c i _ _ _ _ hlen; simp at hlen
  | cons a l ih =>
    intro c i hok hb hg hi hlen
    rw [List.forIn_cons]
    simp only [lastBody, entry_at_offAt hok hb hi, bind, Except.bind]
    rcases Nat.lt_or_ge i es.length with hlt | hge
    · rw [hb.entryAt_lt hlt]
      simp only [Except.pure]
      have hg1 : GoodPos es { block := c.block, current_offset := some (offAt es i) } := by
        intro o ho; simp only [Option.some.injEq] at ho; exact ⟨i, hi, ho.symm⟩
      simp only [List.length_cons] at hlen
      obtain ⟨st', h1, h2, h3, h4⟩ := ih { block := c.block, current_offset := some (offAt es i) } (i + 1)
        hok hb hg1 (by omega) (by omega)
      exact ⟨st', h1, h2, h3, h4⟩
    · have hie : i = es.length := by omega
      subst hie
      rw [hb.entryAt_end]
      simp only [Except.pure]
      exact ⟨_, rfl, rfl, rfl, hg⟩

/-- the fuel the translator was given (`payload_size + 1`) covers every scan -/
theorem fuel_enough (hok : OKBlock b) (hb : BlockOf iv es (toBlock b)) (i : Nat) :
    es.length - i + 1 ≤ (List.range' 0 (b.payload_size + 1)).length := by
  have h1 : (toBlock b).payload.length = b.payload_size := by
    simp [toBlock]; exact Nat.min_eq_left hok.hp
  have h2 := length_le_frames es
  rw [← hb.payload, h1] at h2
  simp only [List.length_range']
  omega

theorem bind_total {α β} {x : M α} {f : α → M β} {a : α} (h1 : x = .ok a) (h2 : ∃ y, f a = .ok y) :
    ∃ y, Except.bind x f = .ok y := by
  subst h1; exact h2

theorem last_total (c : Gen.BlockCursor) (hok : OKBlock c.block) (hb : BlockOf iv es (toBlock c.block))
    (hg : GoodPos es c) : ∃ y, Gen.BlockCursor.move_on_last c = .ok y := by
  unfold Gen.BlockCursor.move_on_last
  simp only [bind, pure]
  obtain ⟨s, hlast, hs⟩ := hb.offs_getLast?
  have hoffs : (toBlock c.block).offsets = c.block.index_offsets := rfl
  rw [hoffs] at hlast
  refine bind_total (a := c.block.index_offsets) rfl ?_
  simp only [hlast, Option.map_some]
  obtain ⟨st, hloop, hfin, hblk, hgst⟩ := last_loop_total (List.range' 0 (c.block.payload_size + 1)) c s hok hb hg
    (by omega) (fuel_enough hok hb s)
  refine bind_total (a := st) hloop ?_
  simp only [hfin, Bool.not_true, Bool.false_eq_true, if_false]
  obtain ⟨r, hr⟩ := current_total st.1 (by rw [hblk]; exact hok) (by rw [hblk]; exact hb) hgst
  exact bind_total hr ⟨_, rfl⟩

theorem prev_total (c : Gen.BlockCursor) (hok : OKBlock c.block) (hb : BlockOf iv es (toBlock c.block))
    (hg : GoodPos es c) : ∃ y, Gen.BlockCursor.move_on_prev c = .ok y := by
  unfold Gen.BlockCursor.move_on_prev
  simp only [bind, pure]
  cases ho : c.current_offset with
  | none =>
    simp only
    obtain ⟨y, hy⟩ := last_total c hok hb hg
    exact bind_total hy ⟨_, rfl⟩
  | some cur =>
    obtain ⟨i, hi, rfl⟩ := hg _ ho
    simp only
    refine bind_total (a := c.block.index_offsets) rfl ?_
    have hoffs : (toBlock c.block).offsets = c.block.index_offsets := rfl
    have hasc : c.block.index_offsets.Pairwise (· < ·) := by
      rw [← hoffs]; exact BinSearch.offsets_pairwise_of_blockOf hb
    have hj : Grenad.okOrErr (binarySearch c.block.index_offsets (offAt es i)) ≤ c.block.index_offsets.length := by
      rw [binarySearch_eq, ← (BinSearch.searchOffsets_is_binSearch _ _ hasc).2]
      unfold Grenad.BlockCursor.searchOffsets
      exact (List.takeWhile_sublist _).length_le
    have hokerr : ∀ x, R.okOrErr x = Grenad.okOrErr x := by intro x; cases x <;> rfl
    simp only [hokerr]
    generalize Grenad.okOrErr (binarySearch c.block.index_offsets (offAt es i)) = j at hj
    by_cases hj0 : j = 0
    · subst hj0
      simp only [checkedSub]
      exact ⟨_, rfl⟩
    · have hcs : checkedSub j 1 = some (j - 1) := by simp [checkedSub]; omega
      simp only [hcs]
      refine bind_total (entry_at_offAt hok hb hi) ?_
      rcases Nat.lt_or_ge i es.length with hlt | hge
      · rw [hb.entryAt_lt hlt]
        simp only [Option.map_some]
        have hjl : j - 1 < (toBlock c.block).offsets.length := by rw [hoffs]; omega
        have hstart : idx c.block.index_offsets (j - 1) = .ok (offAt es ((j - 1) * iv)) := by
          have := hb.offs_get? hjl
          rw [hoffs] at this
          simp [idx, this, pure, Except.pure]
        refine bind_total hstart ?_
        have hidx := hb.offs_idx hjl
        obtain ⟨st, hloop, hfin, hblk, hgst⟩ := scan_loop_total (fun k => es[i].1 == k)
          (List.range' 0 (c.block.payload_size + 1)) c ((j - 1) * iv) hok hb hg (by omega)
          (fuel_enough hok hb _)
        refine bind_total (a := st) hloop ?_
        simp only [hfin, Bool.not_true, Bool.false_eq_true, if_false]
        obtain ⟨r, hr⟩ := current_total st.1 (by rw [hblk]; exact hok) (by rw [hblk]; exact hb) hgst
        exact bind_total hr ⟨_, rfl⟩
      · have hie : i = es.length := by omega
        subst hie
        rw [hb.entryAt_end]
        exact ⟨_, rfl⟩

/-! ### the key search -/

theorem binSearchBaseM_total {α} (cmpM : α → M Ordering) (cmp : α → Ordering) (l : List α)
    (hc : ∀ x ∈ l, cmpM x = .ok (cmp x)) : ∀ f b s,
    binSearchBaseM cmpM l f b s = .ok (binSearchBase cmp l f b s) := by
  intro f
  induction f with
  | zero => intros; rfl
  | succ f ih =>
    intro b s
    simp only [binSearchBaseM, binSearchBase]
    split
    · cases hl : l[b + s / 2]? with
      | none => rfl
      | some x =>
        have hx : x ∈ l := List.mem_of_getElem? hl
        simp only [bind, Except.bind, hc x hx]
        exact ih _ _
    · rfl

theorem binSearchByM_total {α} (cmpM : α → M Ordering) (cmp : α → Ordering) (l : List α)
    (hc : ∀ x ∈ l, cmpM x = .ok (cmp x)) : binSearchByM cmpM l = .ok (binSearchBy' cmp l) := by
  unfold binSearchByM binSearchBy'
  split
  · rfl
  · rw [binSearchBaseM_total cmpM cmp l hc]
    simp only [bind, Except.bind, pure, Except.pure]
    cases hl : l[binSearchBase cmp l (l.length + 1) 0 l.length]? with
    | none => rfl
    | some x =>
      have hx : x ∈ l := List.mem_of_getElem? hl
      simp only [hc x hx]
      cases cmp x <;> rfl

theorem le_total (c : Gen.BlockCursor) (hok : OKBlock c.block) (hb : BlockOf iv es (toBlock c.block))
    (key : Bytes) : ∃ y, Gen.BlockCursor.move_on_key_lower_than_or_equal_to c key = .ok y := by
  unfold Gen.BlockCursor.move_on_key_lower_than_or_equal_to
  simp only [bind, pure]
  refine bind_total (a := c.block.index_offsets) rfl ?_
  have hoffs : (toBlock c.block).offsets = c.block.index_offsets := rfl
  have hkeys : BinSearch.TableKeysAsc (toBlock c.block) := BinSearch.tableKeysAsc_of_blockOf hb
  -- every comparison of the search decodes an entry at a table offset: it returns
  have hsearch : binarySearchByKeyM cmpOptBytes c.block.index_offsets (some key)
      (fun off => Except.bind (c.block.entry_at off) fun e => Except.pure (Option.map (fun x => x.fst) e))
      = .ok (binSearchBy' (BinSearch.cmpKey (toBlock c.block) key) c.block.index_offsets) := by
    unfold binarySearchByKeyM
    apply binSearchByM_total
    intro off hoff
    obtain ⟨m, hm, hget⟩ := List.getElem_of_mem hoff
    have hm' : m < (toBlock c.block).offsets.length := by rw [hoffs]; exact hm
    have hoffeq : off = offAt es (m * iv) := by
      have := hb.offs_get hm'
      simp only [hoffs] at this
      rw [← hget, this]
    have hidx := hb.offs_idx hm'
    subst hoffeq
    simp only [bind, Except.bind, pure, Except.pure, entry_at_offAt hok hb (show m * iv ≤ es.length by omega), cmpOptBytes_eq]
    rfl
  refine bind_total hsearch ?_
  have hfound := (BinSearch.searchKey_is_binSearch (toBlock c.block) key hkeys).2
  rw [hoffs] at hfound
  generalize hres : binSearchBy' (BinSearch.cmpKey (toBlock c.block) key) c.block.index_offsets = res at hfound
  have hg0 : GoodPos es { block := c.block, current_offset := none } := by intro o ho; cases ho
  cases res with
  | ok i =>
    simp only
    -- found: `offsets[i]` exists
    have hi : i < c.block.index_offsets.length := by
      unfold Grenad.BlockCursor.searchKey at hfound
      simp only [foundAt, hoffs] at hfound
      split at hfound
      · rename_i off hget
        have := (Prod.mk.inj hfound).2
        rw [← this]
        exact (List.getElem?_eq_some_iff.mp hget).1
      · simp at hfound
    have hi' : i < (toBlock c.block).offsets.length := by rw [hoffs]; exact hi
    have hstart : idx c.block.index_offsets i = .ok (offAt es (i * iv)) := by
      have := hb.offs_get? hi'
      rw [hoffs] at this
      simp [idx, this, pure, Except.pure]
    refine bind_total hstart ?_
    have hidx := hb.offs_idx hi'
    have hg1 : GoodPos es { block := c.block, current_offset := some (offAt es (i * iv)) } := by
      intro o ho; simp only [Option.some.injEq] at ho; exact ⟨i * iv, by omega, ho.symm⟩
    obtain ⟨r, hr⟩ := current_total { block := c.block, current_offset := some (offAt es (i * iv)) } hok hb hg1
    exact bind_total hr ⟨_, rfl⟩
  | error i =>
    simp only
    have hi : i ≤ c.block.index_offsets.length := by
      unfold Grenad.BlockCursor.searchKey at hfound
      simp only [foundAt, hoffs] at hfound
      split at hfound
      · have := (Prod.mk.inj hfound).2; rw [← this]; exact (List.takeWhile_sublist _).length_le
      · have := (Prod.mk.inj hfound).2; rw [← this]; exact (List.takeWhile_sublist _).length_le
    by_cases hi0 : i = 0
    · subst hi0
      have hcs0 : checkedSub 0 1 = none := by decide
      simp only [hcs0, Option.bind]
      obtain ⟨r, hr⟩ := current_total { block := c.block, current_offset := none } hok hb hg0
      exact bind_total hr ⟨_, rfl⟩
    · have hcs : checkedSub i 1 = some (i - 1) := by simp [checkedSub]; omega
      have hi' : i - 1 < (toBlock c.block).offsets.length := by rw [hoffs]; omega
      have hget := hb.offs_get? hi'
      rw [hoffs] at hget
      simp only [hcs, Option.bind, hget]
      have hidx := hb.offs_idx hi'
      obtain ⟨st, hloop, hfin, hblk, hgst⟩ := scan_loop_total (fun k => decide (key < k))
        (List.range' 0 (c.block.payload_size + 1)) { block := c.block, current_offset := none } ((i - 1) * iv)
        hok hb hg0 (by omega) (fuel_enough hok hb _)
      refine bind_total (a := st) hloop ?_
      simp only [hfin, Bool.not_true, Bool.false_eq_true, if_false]
      have hblk' : st.1.block = c.block := hblk
      obtain ⟨r, hr⟩ := current_total st.1 (by rw [hblk']; exact hok) (by rw [hblk']; exact hb) hgst
      exact bind_total hr ⟨_, rfl⟩

theorem goodPos_of_brepr {c : Gen.BlockCursor} {bb : Grenad.Block} {l : LC} (h : BRepr es bb (toBC c) l) :
    GoodPos es c := by
  obtain ⟨_, _, h3, h4⟩ := h
  intro o ho
  have : (toBC c).off = some o := ho
  rw [this] at h3
  cases hp : l.pos with
  | none => simp [hp] at h3
  | some i =>
    simp only [hp, Option.map_some, Option.some.injEq] at h3
    exact ⟨i, h4 i hp, h3⟩

theorem ge_total (c : Gen.BlockCursor) (hok : OKBlock c.block) (hb : BlockOf iv es (toBlock c.block))
    (key : Bytes) : ∃ y, Gen.BlockCursor.move_on_key_greater_than_or_equal_to c key = .ok y := by
  unfold Gen.BlockCursor.move_on_key_greater_than_or_equal_to
  simp only [bind, pure]
  obtain ⟨y, hle⟩ := le_total c hok hb key
  obtain ⟨r1, c1⟩ := y
  refine bind_total hle ?_
  have hkeys : BinSearch.TableKeysAsc (toBC c).block := BinSearch.tableKeysAsc_of_blockOf hb
  have hmodel := src_bc_le_model c c1 hok key r1 hkeys hle
  obtain ⟨_, hb1⟩ := src_bc_le c c1 hok key r1 hle
  have hspec := (le_spec hb c.current_offset key).1
  have hc1 : toBC c1 = ((toBC c).le key).1 := (congrArg Prod.fst hmodel)
  have hg1 : GoodPos es c1 := by
    apply goodPos_of_brepr (bb := toBlock c.block)
    rw [hc1]
    exact hspec
  have hok1 : OKBlock c1.block := by rw [hb1]; exact hok
  have hbo1 : BlockOf iv es (toBlock c1.block) := by rw [hb1]; exact hb
  cases r1 with
  | none =>
    simp only
    obtain ⟨r, c', h⟩ := first_total c1 hok1 hbo1
    exact bind_total h ⟨_, rfl⟩
  | some kv =>
    obtain ⟨k, v⟩ := kv
    simp only
    by_cases hk : (k == key) = true
    · simp only [hk, if_true]
      exact ⟨_, rfl⟩
    · simp only [hk, if_false]
      obtain ⟨r, c', h⟩ := next_total c1 hok1 hbo1 hg1
      exact bind_total h ⟨_, rfl⟩

/-- **On writer-built blocks every move of the translated cursor returns.** -/
theorem src_genMove_total (c : Gen.BlockCursor) (hok : OKBlock c.block) (hb : BlockOf iv es (toBlock c.block))
    {l : LC} (hrep : BRepr es (toBlock c.block) (toBC c) l) (m : Mov) :
    ∃ r c', genMove m c = .ok (r, c') := by
  have hg := goodPos_of_brepr hrep
  cases m with
  | first => exact first_total c hok hb
  | next => exact next_total c hok hb hg
  | last => obtain ⟨⟨r, c'⟩, h⟩ := last_total c hok hb hg; exact ⟨r, c', h⟩
  | prev => obtain ⟨⟨r, c'⟩, h⟩ := prev_total c hok hb hg; exact ⟨r, c', h⟩
  | ge q => obtain ⟨⟨r, c'⟩, h⟩ := ge_total c hok hb q; exact ⟨r, c', h⟩

/-- **T-block on regenerated code, total form**: on a writer-built block each move of the translated
    cursor returns, with the list cursor's answer, and keeps representing the list cursor. -/
theorem src_tblock_total (c : Gen.BlockCursor) (hok : OKBlock c.block) (hb : BlockOf iv es (toBlock c.block))
    {l : LC} (hrep : BRepr es (toBlock c.block) (toBC c) l) (m : Mov) :
    ∃ c', genMove m c = .ok ((LC.ops.apply m l).2, c') ∧
      BRepr es (toBlock c'.block) (toBC c') (LC.ops.apply m l).1 ∧ c'.block = c.block := by
  obtain ⟨r, c', h⟩ := src_genMove_total c hok hb hrep m
  obtain ⟨h1, h2, h3⟩ := src_tblock_sim c c' hok hb hrep m r h
  exact ⟨c', by rw [← h2]; exact h, h1, h3⟩

end
end Grenad.SrcTie