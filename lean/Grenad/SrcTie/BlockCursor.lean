/-
  Grenad.SrcTie.BlockCursor — translator tie for the in-block cursor of src/block.rs
  (`BlockCursor::{current, move_on_first, move_on_last, move_on_next, move_on_prev,
  move_on_key_lower_than_or_equal_to, move_on_key_greater_than_or_equal_to}`), regenerated from /repo/src
  on every run.

  Shape of the statements: *whenever the translated operation returns* (no panic — on blocks built by the
  block writer `T-block` shows the model never meets the situations in which Rust would panic), its result and
  the new cursor are exactly those of the model's `BlockCursor` operation.  The two `binary_search*` calls
  are the standard library's loop (Prelude `binSearchByM`), so the searches are tied to the model run with
  that very loop (`prevBS binSearchBy'`, `leBS binSearchBy'`), which `Proofs/BinSearchBlock.lean` proves
  equal to the model's `prev` / `le` on every strictly ascending table.
-/
import Grenad.Generated.Src.SrcBlockCursor
import Grenad.SrcTie.Block
import Grenad.Proofs.BinSearchBlock

set_option linter.unusedSimpArgs false
set_option linter.unusedVariables false

namespace Grenad.SrcTie
open Grenad Grenad.R Grenad.Gen

/-- the translated cursor as the model's -/
def toBC (c : Gen.BlockCursor) : Grenad.BlockCursor := { block := toBlock c.block, off := c.current_offset }

/-- size side conditions under which the translated `entry_at` cannot overflow `usize` -/
structure OKBlock (b : Gen.Block) : Prop where
  hp : b.payload_size ≤ b.buffer.length
  hl : b.buffer.length < 2 ^ 62

theorem entry_at_ok (b : Gen.Block) (h : OKBlock b) (s : Nat) (r : Option (Bytes × Bytes × Nat))
    (hr : Gen.Block.entry_at b s = .ok r) : r = Grenad.Block.entryAt (toBlock b) s := by
  have := src_entry_at b s h.hp h.hl
  cases hm : Grenad.Block.entryAt (toBlock b) s with
  | some x => rw [hm] at this; simp only at this; rw [hr] at this; cases this; rfl
  | none =>
    rw [hm] at this; simp only at this
    rcases this with h1 | ⟨msg, h1⟩
    · rw [hr] at h1; cases h1; rfl
    · rw [hr] at h1; cases h1

theorem src_bc_current (c : Gen.BlockCursor) (h : OKBlock c.block) (r : Option (Bytes × Bytes))
    (hr : Gen.BlockCursor.current c = .ok r) : r = (toBC c).current := by
  unfold Gen.BlockCursor.current at hr
  unfold Grenad.BlockCursor.current toBC
  cases ho : c.current_offset with
  | none => simp [ho, bind, Except.bind, pure, Except.pure] at hr ⊢; exact hr.symm
  | some off =>
    simp only [ho, bind, Except.bind, pure, Except.pure] at hr ⊢
    cases he : Gen.Block.entry_at c.block off with
    | error e => simp [he] at hr
    | ok x =>
      have := entry_at_ok c.block h off x he
      simp [he] at hr
      rw [← hr, this]

theorem src_bc_first (c c' : Gen.BlockCursor) (h : OKBlock c.block) (r : Option (Bytes × Bytes))
    (hr : Gen.BlockCursor.move_on_first c = .ok (r, c')) : (toBC c', r) = (toBC c).first ∧ c'.block = c.block := by
  unfold Gen.BlockCursor.move_on_first at hr
  simp only [bind, Except.bind, pure, Except.pure, Gen.Block.index_offsets_fn] at hr
  generalize hc1 : ({ block := c.block, current_offset := Option.map (fun off => off) c.block.index_offsets.head? } : Gen.BlockCursor) = c1 at hr
  cases hcur : Gen.BlockCursor.current c1 with
  | error e => simp [hcur] at hr
  | ok x =>
    simp only [hcur, Except.ok.injEq, Prod.mk.injEq] at hr
    obtain ⟨hx, hc'⟩ := hr
    subst hx hc'
    have hb : c1.block = c.block := by rw [← hc1]
    refine ⟨?_, hb⟩
    have := src_bc_current c1 (by rw [hb]; exact h) x hcur
    unfold Grenad.BlockCursor.first
    rw [this]
    have : toBC c1 = { toBC c with off := (toBC c).block.offsets.head? } := by
      rw [← hc1]; simp [toBC, toBlock]
    rw [this]

theorem src_bc_next (c c' : Gen.BlockCursor) (h : OKBlock c.block) (r : Option (Bytes × Bytes))
    (hr : Gen.BlockCursor.move_on_next c = .ok (r, c')) : (toBC c', r) = (toBC c).next ∧ c'.block = c.block := by
  unfold Gen.BlockCursor.move_on_next at hr
  unfold Grenad.BlockCursor.next
  cases ho : c.current_offset with
  | none =>
    simp only [ho, bind, Except.bind, pure, Except.pure] at hr
    cases hf : Gen.BlockCursor.move_on_first c with
    | error e => simp [hf] at hr
    | ok x =>
      obtain ⟨r1, c1⟩ := x
      simp only [hf, Except.ok.injEq, Prod.mk.injEq] at hr
      obtain ⟨h1, h2⟩ := hr
      subst h1 h2
      obtain ⟨this, hbb⟩ := src_bc_first c c1 h r1 hf
      refine ⟨?_, hbb⟩
      simp only [toBC, ho] at this ⊢
      exact this
  | some off =>
    simp only [ho, bind, Except.bind, pure, Except.pure] at hr
    cases he : Gen.Block.entry_at c.block off with
    | error e => simp [he] at hr
    | ok x =>
      have hx := entry_at_ok c.block h off x he
      simp only [he] at hr
      have hoff : (toBC c).off = some off := by simp [toBC, ho]
      simp only [hoff]
      cases x with
      | none =>
        simp only [Except.ok.injEq, Prod.mk.injEq] at hr
        obtain ⟨h1, h2⟩ := hr
        subst h1 h2
        have : Grenad.Block.entryAt (toBC c).block off = none := hx.symm
        refine ⟨?_, rfl⟩
        rw [this]
      | some e =>
        obtain ⟨k, v, nxt⟩ := e
        simp only at hr
        generalize hc1 : ({ block := c.block, current_offset := some nxt } : Gen.BlockCursor) = c1 at hr
        cases hcur : Gen.BlockCursor.current c1 with
        | error e => simp [hcur] at hr
        | ok y =>
          simp only [hcur, Except.ok.injEq, Prod.mk.injEq] at hr
          obtain ⟨h1, h2⟩ := hr
          subst h1 h2
          have hb : c1.block = c.block := by rw [← hc1]
          refine ⟨?_, hb⟩
          have hy := src_bc_current c1 (by rw [hb]; exact h) y hcur
          have : Grenad.Block.entryAt (toBC c).block off = some (k, v, nxt) := hx.symm
          rw [this, hy]
          have : toBC c1 = { toBC c with off := some nxt } := by rw [← hc1]; simp [toBC]
          rw [this]

/-! ### `move_on_last` -/

/-- the body of the `while let Some((_, _, next)) = entry_at(off)` loop of `move_on_last`, as emitted -/
def lastBody {α} (_ : α) (s : Gen.BlockCursor × Nat × Bool) : M (ForInStep (Gen.BlockCursor × Nat × Bool)) :=
  Except.bind (s.fst.block.entry_at s.snd.fst) fun r =>
    match r with
    | some (_, _, next) =>
      Except.pure (ForInStep.yield ({ block := s.fst.block, current_offset := some s.snd.fst }, next, s.snd.snd))
    | _ => Except.pure (ForInStep.done (s.fst, s.snd.fst, true))

theorem last_loop {α} : ∀ (l : List α) (c : Gen.BlockCursor) (off : Nat) (st' : Gen.BlockCursor × Nat × Bool),
    OKBlock c.block → forIn l (c, off, false) lastBody = .ok st' → st'.2.2 = true →
    st'.1.block = c.block ∧
      st'.1.current_offset = Grenad.BlockCursor.scanLast (toBlock c.block) l.length off c.current_offset := by
  intro l
  induction l with
  | nil =>
    intro c off st' _ hf hfin
    simp [pure, Except.pure] at hf
    subst hf
    simp at hfin
  | cons a l ih =>
    intro c off st' hok hf hfin
    rw [List.forIn_cons] at hf
    cases he : Gen.Block.entry_at c.block off with
    | error e => simp [lastBody, he, bind, Except.bind] at hf
    | ok x =>
      have hx := entry_at_ok c.block hok off x he
      cases x with
      | none =>
        simp [lastBody, he, bind, Except.bind, pure, Except.pure] at hf
        subst hf
        simp [Grenad.BlockCursor.scanLast, ← hx]
      | some e =>
        obtain ⟨k, v, nxt⟩ := e
        simp only [lastBody, he, bind, Except.bind, Except.pure] at hf
        have := ih { block := c.block, current_offset := some off } nxt st' hok hf hfin
        simp only [List.length_cons, Grenad.BlockCursor.scanLast, ← hx]
        exact this

theorem scanLast_acc (b : Grenad.Block) : ∀ (f off : Nat) (acc : Option Nat),
    Grenad.BlockCursor.scanLast b f off acc =
      (match Grenad.BlockCursor.scanLast b f off none with | some o => some o | none => acc) := by
  intro f
  induction f with
  | zero => intro off acc; simp [Grenad.BlockCursor.scanLast]
  | succ f ih =>
    intro off acc
    simp only [Grenad.BlockCursor.scanLast]
    cases he : b.entryAt off with
    | none => simp
    | some e =>
      obtain ⟨k, v, nxt⟩ := e
      simp only
      rw [ih nxt (some off)]
      cases h : Grenad.BlockCursor.scanLast b f nxt none <;> simp

theorem bind_ok {α β} {x : M α} {f : α → M β} {y : β} (h : Except.bind x f = .ok y) :
    ∃ a, x = .ok a ∧ f a = .ok y := by
  cases x with
  | error e => simp [Except.bind] at h
  | ok a => exact ⟨a, rfl, h⟩

theorem src_bc_last (c c' : Gen.BlockCursor) (h : OKBlock c.block) (r : Option (Bytes × Bytes))
    (hr : Gen.BlockCursor.move_on_last c = .ok (r, c')) : (toBC c', r) = (toBC c).last ∧ c'.block = c.block := by
  unfold Gen.BlockCursor.move_on_last at hr
  simp only [bind, pure] at hr
  obtain ⟨offs, hoffs', hr⟩ := bind_ok hr
  simp only [Gen.Block.index_offsets_fn, pure, Except.pure, Except.ok.injEq] at hoffs'
  subst hoffs'
  unfold Grenad.BlockCursor.last
  have hoffs : (toBC c).block.offsets = c.block.index_offsets := rfl
  have hlen : (toBC c).block.payload.length = c.block.payload_size := by
    simp [toBC, toBlock]; exact Nat.min_eq_left h.hp
  rw [hoffs]
  simp only [Option.map_id'] at hr
  cases hl : c.block.index_offsets.getLast? with
  | none =>
    simp only [hl] at hr
    obtain ⟨y, hcur, hr⟩ := bind_ok hr
    simp only [Except.pure, Except.ok.injEq, Prod.mk.injEq] at hr
    obtain ⟨h1, h2⟩ := hr
    subst h1 h2
    have hy := src_bc_current { block := c.block, current_offset := none } h y hcur
    refine ⟨?_, rfl⟩
    rw [hy]
    rfl
  | some off =>
    simp only [hl] at hr
    obtain ⟨st, hloop, hr⟩ := bind_ok hr
    have hloop' : forIn (List.range' 0 (c.block.payload_size + 1)) (c, off, false) (lastBody (α := Nat)) = .ok st := hloop
    by_cases hfin : st.2.2 = true
    · simp only [hfin, Bool.not_true, Bool.false_eq_true, if_false] at hr
      obtain ⟨hb, hoff⟩ := last_loop _ c off st h hloop' hfin
      obtain ⟨y, hcur, hr⟩ := bind_ok hr
      simp only [Except.pure, Except.ok.injEq, Prod.mk.injEq] at hr
      obtain ⟨h1, h2⟩ := hr
      subst h1 h2
      refine ⟨?_, hb⟩
      have hy := src_bc_current st.1 (by rw [hb]; exact h) y hcur
      simp only [List.length_range'] at hoff
      rw [hlen]
      have hst : toBC st.1 = (match Grenad.BlockCursor.scanLast (toBC c).block (c.block.payload_size + 1) off none with
          | some o => { toBC c with off := some o }
          | none => toBC c) := by
        have hacc := scanLast_acc (toBlock c.block) (c.block.payload_size + 1) off c.current_offset
        rw [hacc] at hoff
        show ({ block := toBlock st.1.block, off := st.1.current_offset } : Grenad.BlockCursor) = _
        rw [hb, hoff, show (toBC c).block = toBlock c.block from rfl]
        generalize Grenad.BlockCursor.scanLast (toBlock c.block) (c.block.payload_size + 1) off none = S
        cases S <;> rfl
      rw [hy, hst]
      rfl
    · have : st.2.2 = false := by simpa using hfin
      simp [this, throw, throwThe, MonadExceptOf.throw, Except.bind] at hr

/-! ### the scan loops of `move_on_prev` and `move_on_key_lower_than_or_equal_to` -/

/-- the model's two scans as one: walk from `off`, stop before the first entry whose key satisfies `stop` -/
def scanGen (b : Grenad.Block) (stop : Bytes → Bool) : Nat → Nat → Option Nat → Option Nat
  | 0, _, acc => acc
  | fuel + 1, off, acc =>
    match b.entryAt off with
    | some (k, _, next) => if stop k then acc else scanGen b stop fuel next (some off)
    | none => acc

theorem scanPrev_eq (b : Grenad.Block) (curKey : Bytes) : ∀ f off acc,
    Grenad.BlockCursor.scanPrev b curKey f off acc = scanGen b (fun k => decide (curKey = k)) f off acc := by
  intro f
  induction f with
  | zero => intros; rfl
  | succ f ih =>
    intro off acc
    simp only [Grenad.BlockCursor.scanPrev, scanGen]
    cases b.entryAt off with
    | none => rfl
    | some e => obtain ⟨k, v, n⟩ := e; simp only [ih, decide_eq_true_eq]

theorem scanLe_eq (b : Grenad.Block) (key : Bytes) : ∀ f off acc,
    Grenad.BlockCursor.scanLe b key f off acc = scanGen b (fun k => decide (key < k)) f off acc := by
  intro f
  induction f with
  | zero => intros; rfl
  | succ f ih =>
    intro off acc
    simp only [Grenad.BlockCursor.scanLe, scanGen]
    cases b.entryAt off with
    | none => rfl
    | some e => obtain ⟨k, v, n⟩ := e; simp only [ih, decide_eq_true_eq]

theorem scanGen_acc (b : Grenad.Block) (stop : Bytes → Bool) : ∀ (f off : Nat) (acc : Option Nat),
    scanGen b stop f off acc = (match scanGen b stop f off none with | some o => some o | none => acc) := by
  intro f
  induction f with
  | zero => intro off acc; simp [scanGen]
  | succ f ih =>
    intro off acc
    simp only [scanGen]
    cases he : b.entryAt off with
    | none => simp
    | some e =>
      obtain ⟨k, v, nxt⟩ := e
      simp only
      by_cases hs : stop k = true
      · simp [hs]
      · simp only [hs, if_false]
        rw [ih nxt (some off)]
        cases h : scanGen b stop f nxt none <;> simp

/-- the body of the two `while let Some((k, _, next)) = entry_at(off)` loops with an early `break`, as emitted -/
def scanBody (stop : Bytes → Bool) {α} (_ : α) (s : Gen.BlockCursor × Nat × Bool) :
    M (ForInStep (Gen.BlockCursor × Nat × Bool)) :=
  Except.bind (s.fst.block.entry_at s.snd.fst) fun r =>
    match r with
    | some (k, _, next) =>
      if stop k = true then Except.pure (ForInStep.done (s.fst, s.snd.fst, true))
      else Except.pure (ForInStep.yield ({ block := s.fst.block, current_offset := some s.snd.fst }, next, s.snd.snd))
    | _ => Except.pure (ForInStep.done (s.fst, s.snd.fst, true))

theorem scan_loop (stop : Bytes → Bool) {α} : ∀ (l : List α) (c : Gen.BlockCursor) (off : Nat)
    (st' : Gen.BlockCursor × Nat × Bool),
    OKBlock c.block → forIn l (c, off, false) (scanBody stop) = .ok st' → st'.2.2 = true →
    st'.1.block = c.block ∧
      st'.1.current_offset = scanGen (toBlock c.block) stop l.length off c.current_offset := by
  intro l
  induction l with
  | nil =>
    intro c off st' _ hf hfin
    simp [pure, Except.pure] at hf
    subst hf
    simp at hfin
  | cons a l ih =>
    intro c off st' hok hf hfin
    rw [List.forIn_cons] at hf
    cases he : Gen.Block.entry_at c.block off with
    | error e => simp [scanBody, he, bind, Except.bind] at hf
    | ok x =>
      have hx := entry_at_ok c.block hok off x he
      cases x with
      | none =>
        simp [scanBody, he, bind, Except.bind, pure, Except.pure] at hf
        subst hf
        simp [scanGen, ← hx]
      | some e =>
        obtain ⟨k, v, nxt⟩ := e
        by_cases hs : stop k = true
        · simp [scanBody, he, bind, Except.bind, pure, Except.pure, hs] at hf
          subst hf
          simp [scanGen, ← hx, hs]
        · simp only [scanBody, he, bind, Except.bind, Except.pure, hs, if_false] at hf
          have := ih { block := c.block, current_offset := some off } nxt st' hok hf hfin
          simp only [List.length_cons, scanGen, ← hx, hs, if_false]
          exact this

/-! ### the searches -/

theorem binSearchBaseM_pure {α} (cmp : α → Ordering) (l : List α) : ∀ f b s,
    binSearchBaseM (fun o => (pure (cmp o) : M Ordering)) l f b s = pure (binSearchBase cmp l f b s) := by
  intro f
  induction f with
  | zero => intros; rfl
  | succ f ih =>
    intro b s
    simp only [binSearchBaseM, binSearchBase]
    split
    · cases l[b + s / 2]? with
      | none => rfl
      | some x => simp only [bind, Except.bind, pure, Except.pure]; exact ih _ _
    · rfl

theorem binSearchByM_pure {α} (cmp : α → Ordering) (l : List α) :
    binSearchByM (fun o => (pure (cmp o) : M Ordering)) l = pure (binSearchBy' cmp l) := by
  unfold binSearchByM binSearchBy'
  split
  · rfl
  · rw [binSearchBaseM_pure cmp l (l.length + 1) 0 l.length]
    simp only [bind, Except.bind, pure, Except.pure]
    cases l[binSearchBase cmp l (l.length + 1) 0 l.length]? with
    | none => rfl
    | some x => simp only []; cases cmp x <;> rfl

theorem binarySearch_eq (l : List Nat) (x : Nat) :
    binarySearch l x = binSearchBy' (fun o => compare o x) l := by
  unfold binarySearch
  rw [binSearchByM_pure]
  rfl

/-! ### `move_on_prev` -/

theorem src_bc_prev (c c' : Gen.BlockCursor) (h : OKBlock c.block) (r : Option (Bytes × Bytes))
    (hr : Gen.BlockCursor.move_on_prev c = .ok (r, c')) :
    (toBC c', r) = BinSearch.prevBS binSearchBy' (toBC c) ∧ c'.block = c.block := by
  unfold Gen.BlockCursor.move_on_prev at hr
  simp only [bind, pure] at hr
  unfold BinSearch.prevBS
  have hlen : (toBC c).block.payload.length = c.block.payload_size := by
    simp [toBC, toBlock]; exact Nat.min_eq_left h.hp
  cases ho : c.current_offset with
  | none =>
    simp only [ho] at hr
    obtain ⟨x, hlast, hr⟩ := bind_ok hr
    obtain ⟨r1, c1⟩ := x
    simp only [Except.pure, Except.ok.injEq, Prod.mk.injEq] at hr
    obtain ⟨h1, h2⟩ := hr
    subst h1 h2
    obtain ⟨this, hbb⟩ := src_bc_last c c1 h r1 hlast
    refine ⟨?_, hbb⟩
    simp only [toBC, ho] at this ⊢
    exact this
  | some cur =>
    simp only [ho] at hr
    have hoff : (toBC c).off = some cur := by simp [toBC, ho]
    simp only [hoff]
    obtain ⟨offs, hoffs', hr⟩ := bind_ok hr
    simp only [Gen.Block.index_offsets_fn, pure, Except.pure, Except.ok.injEq] at hoffs'
    subst hoffs'
    have hoffs : (toBC c).block.offsets = c.block.index_offsets := rfl
    rw [hoffs, ← binarySearch_eq]
    have hokerr : ∀ x, R.okOrErr x = Grenad.okOrErr x := by intro x; cases x <;> rfl
    simp only [hokerr] at hr
    generalize hj : Grenad.okOrErr (binarySearch c.block.index_offsets cur) = j at hr ⊢
    by_cases hj0 : j = 0
    · subst hj0
      simp only [checkedSub, Except.pure] at hr
      simp at hr
      obtain ⟨h1, h2⟩ := hr
      subst h1 h2
      simp
    · have hcs : checkedSub j 1 = some (j - 1) := by simp [checkedSub]; omega
      simp only [hcs, hj0, if_false] at hr ⊢
      obtain ⟨e, he, hr⟩ := bind_ok hr
      have hx := entry_at_ok c.block h cur e he
      have hx' : Grenad.Block.entryAt (toBC c).block cur = e := hx.symm
      rw [hx']
      cases e with
      | none =>
        simp only [Option.map_none, Except.pure, Except.ok.injEq, Prod.mk.injEq] at hr
        obtain ⟨h1, h2⟩ := hr
        subst h1 h2
        exact ⟨rfl, rfl⟩
      | some ent =>
        obtain ⟨curKey, v, nx⟩ := ent
        simp only [Option.map_some] at hr
        obtain ⟨start, hidx, hr⟩ := bind_ok hr
        have hstart : start = c.block.index_offsets.getD (j - 1) 0 := by
          simp only [idx] at hidx
          cases hg : c.block.index_offsets[j - 1]? with
          | none => simp [hg, throw, throwThe, MonadExceptOf.throw] at hidx
          | some y =>
            simp [hg, pure, Except.pure] at hidx
            simp [List.getD_eq_getElem?_getD, hg, hidx]
        obtain ⟨st, hloop, hr⟩ := bind_ok hr
        have hloop' : forIn (List.range' 0 (c.block.payload_size + 1)) (c, start, false)
            (scanBody (fun k => curKey == k) (α := Nat)) = .ok st := hloop
        by_cases hfin : st.2.2 = true
        · simp only [hfin, Bool.not_true, Bool.false_eq_true, if_false] at hr
          obtain ⟨hb, hoffst⟩ := scan_loop _ _ c start st h hloop' hfin
          obtain ⟨y, hcur, hr⟩ := bind_ok hr
          simp only [Except.pure, Except.ok.injEq, Prod.mk.injEq] at hr
          obtain ⟨h1, h2⟩ := hr
          subst h1 h2
          refine ⟨?_, hb⟩
          have hy := src_bc_current st.1 (by rw [hb]; exact h) y hcur
          simp only [List.length_range'] at hoffst
          rw [hlen]
          simp only []
          rw [scanPrev_eq, ← hstart]
          have hstop : (fun k => curKey == k) = (fun k => decide (curKey = k)) := by
            funext k; by_cases hk : curKey = k <;> simp [hk]
          rw [hstop] at hoffst
          have hacc := scanGen_acc (toBlock c.block) (fun k => decide (curKey = k)) (c.block.payload_size + 1) start c.current_offset
          rw [hacc] at hoffst
          have hst : toBC st.1 = (match scanGen (toBC c).block (fun k => decide (curKey = k)) (c.block.payload_size + 1) start none with
              | some o => { toBC c with off := some o }
              | none => toBC c) := by
            show ({ block := toBlock st.1.block, off := st.1.current_offset } : Grenad.BlockCursor) = _
            rw [hb, hoffst, show (toBC c).block = toBlock c.block from rfl]
            generalize scanGen (toBlock c.block) (fun k => decide (curKey = k)) (c.block.payload_size + 1) start none = S
            cases S <;> rfl
          rw [hy, hst]
          rfl
        · have : st.2.2 = false := by simpa using hfin
          simp [this, throw, throwThe, MonadExceptOf.throw, Except.bind] at hr

/-! ### `move_on_key_lower_than_or_equal_to` -/

theorem binSearchBaseM_ok {α} (cmpM : α → M Ordering) (cmp : α → Ordering)
    (hc : ∀ x v, cmpM x = .ok v → v = cmp x) (l : List α) : ∀ f b s r,
    binSearchBaseM cmpM l f b s = .ok r → r = binSearchBase cmp l f b s := by
  intro f
  induction f with
  | zero => intro b s r h; simp [binSearchBaseM, pure, Except.pure] at h; simp [binSearchBase, h]
  | succ f ih =>
    intro b s r h
    simp only [binSearchBaseM, binSearchBase] at h ⊢
    split at h
    · rename_i hs
      simp only [hs, if_true]
      cases hl : l[b + s / 2]? with
      | none => simp [hl, pure, Except.pure] at h; simp [h]
      | some x =>
        simp only [hl, bind, Except.bind] at h
        cases hcx : cmpM x with
        | error e => simp [hcx] at h
        | ok v =>
          simp only [hcx] at h
          have := hc x v hcx
          subst this
          exact ih _ _ _ h
    · rename_i hs
      simp only [hs, if_false]
      simp [pure, Except.pure] at h
      exact h.symm

theorem binSearchByM_ok {α} (cmpM : α → M Ordering) (cmp : α → Ordering)
    (hc : ∀ x v, cmpM x = .ok v → v = cmp x) (l : List α) (r : Except Nat Nat)
    (h : binSearchByM cmpM l = .ok r) : r = binSearchBy' cmp l := by
  unfold binSearchByM at h
  unfold binSearchBy'
  split at h
  · rename_i h0; simp [pure, Except.pure] at h; simp [h0, h]
  · rename_i h0
    simp only [h0, if_false]
    obtain ⟨base, hb, h⟩ := bind_ok h
    have hbase := binSearchBaseM_ok cmpM cmp hc l _ _ _ _ hb
    subst hbase
    cases hl : l[binSearchBase cmp l (l.length + 1) 0 l.length]? with
    | none => simp [hl, pure, Except.pure] at h; simp [h]
    | some x =>
      simp only [hl] at h ⊢
      obtain ⟨v, hv, h⟩ := bind_ok h
      have := hc x v hv
      subst this
      cases hcx : cmp x <;> simp [hcx, pure, Except.pure] at h ⊢ <;> exact h.symm

theorem cmpOptBytes_eq (a b : Option Bytes) : R.cmpOptBytes a b = compareOption Grenad.cmpBytes a b := by
  cases a <;> cases b <;> simp [R.cmpOptBytes, compareOption, R.cmpBytes, Grenad.cmpBytes, compareOfLessAndEq]

theorem src_bc_le (c c' : Gen.BlockCursor) (h : OKBlock c.block) (key : Bytes) (r : Option (Bytes × Bytes))
    (hr : Gen.BlockCursor.move_on_key_lower_than_or_equal_to c key = .ok (r, c')) :
    (toBC c', r) = BinSearch.leBS binSearchBy' (toBC c) key ∧ c'.block = c.block := by
  unfold Gen.BlockCursor.move_on_key_lower_than_or_equal_to at hr
  simp only [bind, pure] at hr
  unfold BinSearch.leBS
  have hlen : (toBC c).block.payload.length = c.block.payload_size := by
    simp [toBC, toBlock]; exact Nat.min_eq_left h.hp
  obtain ⟨offs, hoffs', hr⟩ := bind_ok hr
  simp only [Gen.Block.index_offsets_fn, pure, Except.pure, Except.ok.injEq] at hoffs'
  subst hoffs'
  have hoffs : (toBC c).block.offsets = c.block.index_offsets := rfl
  obtain ⟨res, hsearch, hr⟩ := bind_ok hr
  -- the monadic search with the translated comparison is the pure loop with the model's comparison
  have hres : res = binSearchBy' (BinSearch.cmpKey (toBC c).block key) c.block.index_offsets := by
    unfold binarySearchByKeyM at hsearch
    apply binSearchByM_ok _ _ _ _ _ hsearch
    intro off v hv
    simp only [bind, Except.bind, pure, Except.pure] at hv
    cases he : Gen.Block.entry_at c.block off with
    | error e => simp [he] at hv
    | ok e =>
      have hx := entry_at_ok c.block h off e he
      simp only [he, Except.ok.injEq] at hv
      rw [← hv, cmpOptBytes_eq]
      unfold BinSearch.cmpKey BinSearch.keyAt
      rw [show (toBC c).block = toBlock c.block from rfl, ← hx]
  simp only [hoffs]
  rw [← hres]
  cases res with
  | ok i =>
    simp only [foundAt] at hr ⊢
    obtain ⟨o, hidx, hr⟩ := bind_ok hr
    have ho : o = c.block.index_offsets.getD i 0 := by
      simp only [idx] at hidx
      cases hg : c.block.index_offsets[i]? with
      | none => simp [hg, throw, throwThe, MonadExceptOf.throw] at hidx
      | some y =>
        simp [hg, pure, Except.pure] at hidx
        simp [List.getD_eq_getElem?_getD, hg, hidx]
    obtain ⟨y, hcur, hr⟩ := bind_ok hr
    simp only [Except.pure, Except.ok.injEq, Prod.mk.injEq] at hr
    obtain ⟨h1, h2⟩ := hr
    subst h1 h2
    have hy := src_bc_current { block := c.block, current_offset := some o } h y hcur
    refine ⟨?_, rfl⟩
    rw [hy, ho]
    rfl
  | error i =>
    simp only [foundAt] at hr ⊢
    by_cases hi0 : i = 0
    · subst hi0
      simp only [checkedSub, Option.bind] at hr
      simp at hr
      obtain ⟨y, hcur, hr⟩ := bind_ok hr
      simp only [Except.pure, Except.ok.injEq, Prod.mk.injEq] at hr
      obtain ⟨h1, h2⟩ := hr
      subst h1 h2
      have hy := src_bc_current { block := c.block, current_offset := none } h y hcur
      refine ⟨?_, rfl⟩
      rw [hy]
      rfl
    · have hcs : checkedSub i 1 = some (i - 1) := by simp [checkedSub]; omega
      simp only [hcs, Option.bind, hi0, Bool.false_eq_true, if_false] at hr ⊢
      cases hg : c.block.index_offsets[i - 1]? with
      | none =>
        simp only [hg] at hr
        obtain ⟨y, hcur, hr⟩ := bind_ok hr
        simp only [Except.pure, Except.ok.injEq, Prod.mk.injEq] at hr
        obtain ⟨h1, h2⟩ := hr
        subst h1 h2
        have hy := src_bc_current { block := c.block, current_offset := none } h y hcur
        refine ⟨?_, rfl⟩
        rw [hy]
        rfl
      | some off =>
        simp only [hg] at hr
        obtain ⟨st, hloop, hr⟩ := bind_ok hr
        have hloop' : forIn (List.range' 0 (c.block.payload_size + 1))
            (({ block := c.block, current_offset := none } : Gen.BlockCursor), off, false)
            (scanBody (fun k => decide (key < k)) (α := Nat)) = .ok st := hloop
        by_cases hfin : st.2.2 = true
        · simp only [hfin, Bool.not_true, Bool.false_eq_true, if_false] at hr
          obtain ⟨hb, hoffst⟩ := scan_loop _ _ { block := c.block, current_offset := none } off st h hloop' hfin
          obtain ⟨y, hcur, hr⟩ := bind_ok hr
          simp only [Except.pure, Except.ok.injEq, Prod.mk.injEq] at hr
          obtain ⟨h1, h2⟩ := hr
          subst h1 h2
          refine ⟨?_, hb⟩
          have hy := src_bc_current st.1 (by rw [hb]; exact h) y hcur
          simp only [List.length_range'] at hoffst
          rw [hlen]
          dsimp only
          rw [scanLe_eq]
          have hst : toBC st.1 = { toBC c with off := scanGen (toBC c).block (fun k => decide (key < k)) (c.block.payload_size + 1) off none } := by
            show ({ block := toBlock st.1.block, off := st.1.current_offset } : Grenad.BlockCursor) = _
            rw [hb, hoffst]
            rfl
          rw [hy, hst]
        · have : st.2.2 = false := by simpa using hfin
          simp [this, throw, throwThe, MonadExceptOf.throw, Except.bind] at hr

/-! ### `move_on_key_greater_than_or_equal_to` -/

/-- the model's `ge` over the search loop `bs` (it is `le` followed by a step) -/
def geBS (bs : (Nat → Ordering) → List Nat → Except Nat Nat) (c : Grenad.BlockCursor) (key : Bytes) :
    Grenad.BlockCursor × Option Entry :=
  match BinSearch.leBS bs c key with
  | (c', some (k, v)) => if k = key then (c', some (k, v)) else c'.next
  | (c', none) => c'.first

theorem ge_eq_geBS (c : Grenad.BlockCursor) (key : Bytes) (h : BinSearch.TableKeysAsc c.block) :
    c.ge key = geBS binSearchBy' c key := by
  unfold Grenad.BlockCursor.ge geBS
  rw [(BinSearch.le_eq_leBS c key h).2]
  rfl

theorem src_bc_ge (c c' : Gen.BlockCursor) (h : OKBlock c.block) (key : Bytes) (r : Option (Bytes × Bytes))
    (hr : Gen.BlockCursor.move_on_key_greater_than_or_equal_to c key = .ok (r, c')) :
    (toBC c', r) = geBS binSearchBy' (toBC c) key ∧ c'.block = c.block := by
  unfold Gen.BlockCursor.move_on_key_greater_than_or_equal_to at hr
  simp only [bind, pure] at hr
  obtain ⟨x, hle, hr⟩ := bind_ok hr
  obtain ⟨r1, c1⟩ := x
  obtain ⟨hl, hb1⟩ := src_bc_le c c1 h key r1 hle
  have h1 : OKBlock c1.block := by rw [hb1]; exact h
  unfold geBS
  rw [← hl]
  cases r1 with
  | none =>
    simp only at hr ⊢
    obtain ⟨x, hf, hr⟩ := bind_ok hr
    obtain ⟨r2, c2⟩ := x
    simp only [Except.pure, Except.ok.injEq, Prod.mk.injEq] at hr
    obtain ⟨e1, e2⟩ := hr
    subst e1 e2
    obtain ⟨hfirst, hb2⟩ := src_bc_first c1 c2 h1 r2 hf
    exact ⟨hfirst, by rw [hb2, hb1]⟩
  | some kv =>
    obtain ⟨k, v⟩ := kv
    simp only at hr ⊢
    by_cases hk : k = key
    · subst hk
      simp only [beq_self_eq_true, if_true, Except.pure, Except.ok.injEq, Prod.mk.injEq] at hr
      obtain ⟨e1, e2⟩ := hr
      subst e1 e2
      simp [hb1]
    · have hbeq : (k == key) = false := by simp [hk]
      simp only [hbeq, Bool.false_eq_true, if_false] at hr
      obtain ⟨x, hn, hr⟩ := bind_ok hr
      obtain ⟨r2, c2⟩ := x
      simp only [Except.pure, Except.ok.injEq, Prod.mk.injEq] at hr
      obtain ⟨e1, e2⟩ := hr
      subst e1 e2
      obtain ⟨hnext, hb2⟩ := src_bc_next c1 c2 h1 r2 hn
      simp only [hk, if_false]
      exact ⟨hnext, by rw [hb2, hb1]⟩

/-! ### against the model's own operations (strictly ascending tables: every block a writer builds) -/

theorem src_bc_prev_model (c c' : Gen.BlockCursor) (h : OKBlock c.block) (r : Option (Bytes × Bytes))
    (hasc : (toBC c).block.offsets.Pairwise (· < ·))
    (hr : Gen.BlockCursor.move_on_prev c = .ok (r, c')) : (toBC c', r) = (toBC c).prev := by
  rw [(BinSearch.prev_eq_prevBS (toBC c) hasc).2]
  exact (src_bc_prev c c' h r hr).1

theorem src_bc_le_model (c c' : Gen.BlockCursor) (h : OKBlock c.block) (key : Bytes) (r : Option (Bytes × Bytes))
    (hasc : BinSearch.TableKeysAsc (toBC c).block)
    (hr : Gen.BlockCursor.move_on_key_lower_than_or_equal_to c key = .ok (r, c')) :
    (toBC c', r) = (toBC c).le key := by
  rw [(BinSearch.le_eq_leBS (toBC c) key hasc).2]
  exact (src_bc_le c c' h key r hr).1

theorem src_bc_ge_model (c c' : Gen.BlockCursor) (h : OKBlock c.block) (key : Bytes) (r : Option (Bytes × Bytes))
    (hasc : BinSearch.TableKeysAsc (toBC c).block)
    (hr : Gen.BlockCursor.move_on_key_greater_than_or_equal_to c key = .ok (r, c')) :
    (toBC c', r) = (toBC c).ge key := by
  rw [ge_eq_geBS (toBC c) key hasc]
  exact (src_bc_ge c c' h key r hr).1

end Grenad.SrcTie
