/-
  Grenad.SrcTie.TBlockSrc — T-block stated on the code regenerated from /repo/src/block.rs:
  on every block a block writer builds (`BlockOf`), each move of the TRANSLATED in-block cursor that
  returns behaves exactly as the list cursor `LC` (the L1 specification of a block), and keeps representing it.
  Composition of the translator tie (`src_bc_*`) with `byteOps_sim`.
-/
import Grenad.SrcTie.BlockCursor
import Grenad.Proofs.TBlock5

set_option linter.unusedSimpArgs false
set_option linter.unusedVariables false

namespace Grenad.SrcTie
open Grenad Grenad.R Grenad.Gen

/-- one move of the translated cursor -/
def genMove (m : Mov) (c : Gen.BlockCursor) : M (Option (Bytes × Bytes) × Gen.BlockCursor) :=
  match m with
  | .first => Gen.BlockCursor.move_on_first c
  | .last => Gen.BlockCursor.move_on_last c
  | .next => Gen.BlockCursor.move_on_next c
  | .prev => Gen.BlockCursor.move_on_prev c
  | .ge q => Gen.BlockCursor.move_on_key_greater_than_or_equal_to c q

/-- whenever a translated move returns, it is the model's move (writer-built block) -/
theorem src_genMove_model {iv : Nat} {es : List Entry} (c c' : Gen.BlockCursor) (h : OKBlock c.block)
    (hb : BlockOf iv es (toBlock c.block)) (m : Mov) (r : Option (Bytes × Bytes))
    (hr : genMove m c = .ok (r, c')) :
    (toBC c', r) = byteOps.apply m (toBC c) ∧ c'.block = c.block := by
  have hasc : (toBC c).block.offsets.Pairwise (· < ·) := BinSearch.offsets_pairwise_of_blockOf hb
  have hkeys : BinSearch.TableKeysAsc (toBC c).block := BinSearch.tableKeysAsc_of_blockOf hb
  cases m with
  | first => exact src_bc_first c c' h r hr
  | last => exact src_bc_last c c' h r hr
  | next => exact src_bc_next c c' h r hr
  | prev =>
    refine ⟨?_, (src_bc_prev c c' h r hr).2⟩
    exact src_bc_prev_model c c' h r hasc hr
  | ge q =>
    refine ⟨?_, (src_bc_ge c c' h q r hr).2⟩
    exact src_bc_ge_model c c' h q r hkeys hr

/-- **T-block on regenerated code.** -/
theorem src_tblock_sim {iv : Nat} {es : List Entry} (c c' : Gen.BlockCursor) (h : OKBlock c.block)
    (hb : BlockOf iv es (toBlock c.block)) {l : LC} (hrep : BRepr es (toBlock c.block) (toBC c) l)
    (m : Mov) (r : Option (Bytes × Bytes)) (hr : genMove m c = .ok (r, c')) :
    BRepr es (toBlock c'.block) (toBC c') (LC.ops.apply m l).1 ∧ r = (LC.ops.apply m l).2 ∧ c'.block = c.block := by
  obtain ⟨hm, hblk⟩ := src_genMove_model c c' h hb m r hr
  have hs := byteOps_sim hb hrep m
  simp only at hs
  rw [← hm] at hs
  rw [hblk]
  exact ⟨hs.1, hs.2, rfl⟩

/-- … and for every sequence of moves that all return: the results are those of the list cursor. -/
theorem src_tblock_run {iv : Nat} {es : List Entry} : ∀ (ms : List Mov) (c : Gen.BlockCursor) (l : LC),
    OKBlock c.block → BlockOf iv es (toBlock c.block) → BRepr es (toBlock c.block) (toBC c) l →
    ∀ (rs : List (Option (Bytes × Bytes))) (c' : Gen.BlockCursor),
      (ms.foldlM (fun (s : Gen.BlockCursor × List (Option (Bytes × Bytes))) m => do
          let (r, c1) ← genMove m s.1
          pure (c1, s.2 ++ [r])) (c, []) : M _) = .ok (c', rs) →
      rs = (ms.foldl (fun (s : LC × List (Option Entry)) m =>
          ((LC.ops.apply m s.1).1, s.2 ++ [(LC.ops.apply m s.1).2])) (l, [])).2 := by
  suffices H : ∀ (ms : List Mov) (c : Gen.BlockCursor) (l : LC) (acc : List (Option (Bytes × Bytes))),
      OKBlock c.block → BlockOf iv es (toBlock c.block) → BRepr es (toBlock c.block) (toBC c) l →
      ∀ (rs : List (Option (Bytes × Bytes))) (c' : Gen.BlockCursor),
        (ms.foldlM (fun (s : Gen.BlockCursor × List (Option (Bytes × Bytes))) m => do
            let (r, c1) ← genMove m s.1
            pure (c1, s.2 ++ [r])) (c, acc) : M _) = .ok (c', rs) →
        rs = (ms.foldl (fun (s : LC × List (Option Entry)) m =>
            ((LC.ops.apply m s.1).1, s.2 ++ [(LC.ops.apply m s.1).2])) (l, acc)).2 by
    intro ms c l; exact H ms c l []
  intro ms
  induction ms with
  | nil =>
    intro c l acc _ _ _ rs c' hrun
    simp [List.foldlM, pure, Except.pure] at hrun
    simp [hrun.2]
  | cons m ms ih =>
    intro c l acc hok hb hrep rs c' hrun
    simp only [List.foldlM, bind, Except.bind] at hrun
    cases hm : genMove m c with
    | error e => simp [hm] at hrun
    | ok x =>
      obtain ⟨r, c1⟩ := x
      simp only [hm, pure, Except.pure] at hrun
      obtain ⟨hrep1, hr1, hblk⟩ := src_tblock_sim c c1 hok hb hrep m r hm
      have hok1 : OKBlock c1.block := by rw [hblk]; exact hok
      have hb1 : BlockOf iv es (toBlock c1.block) := by rw [hblk]; exact hb
      have := ih c1 (LC.ops.apply m l).1 (acc ++ [r]) hok1 hb1 hrep1 rs c' hrun
      simp only [List.foldl]
      rw [this, hr1]

end Grenad.SrcTie
