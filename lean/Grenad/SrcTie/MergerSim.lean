/-
  Grenad.SrcTie.MergerSim — the regenerated merger over ANY cursor type `γ` whose `step` simulates the
  list cursor (`LCur`, `lstep`) through an abstraction `abs : γ → LCur` on the two operations the merger
  applies (`current`, `move_on_next`): the regenerated functions commute with `abs` (parametricity).
-/
import Grenad.SrcTie.MergerIterRun

set_option linter.unusedSimpArgs false
set_option linter.unusedVariables false

namespace Grenad.SrcTie
open Grenad Grenad.R Grenad.Gen Grenad.Wave3

/-- the cursor `step` behaves, through `abs`, like the list cursor on `current` and `next` -/
def CurSim {γ : Type} (step : γ → CurOp → γ × CurRes) (abs : γ → LCur) : Prop :=
  ∀ c op, (op = CurOp.current ∨ op = CurOp.next) →
    (step c op).2 = (lstep (abs c) op).2 ∧ abs (step c op).1 = (lstep (abs c) op).1

/-- a heap entry over `γ` read as a heap entry over the list cursor -/
def absE' {γ : Type} (abs : γ → LCur) (e : Gen.Entry γ) : Gen.Entry LCur :=
  { cursor := abs e.cursor, source_index := e.source_index }

/-- the iterator over `γ` read as an iterator over the list cursor -/
def absI {γ : Type} (abs : γ → LCur) (it : Gen.MergerIter γ) : Gen.MergerIter LCur :=
  { heap := it.heap.map (absE' abs), current_key := it.current_key, merged_value := it.merged_value,
    tmp_entries := it.tmp_entries.map (absE' abs) }

/-! ### Generic plumbing in `Except` -/

theorem ms_bind {ε α α' β β' : Type} (h : α → α') (g : β → β') (A : Except ε α) (A' : Except ε α')
    (k : α → Except ε β) (k' : α' → Except ε β')
    (hA : A.map h = A') (hk : ∀ a, (k a).map g = k' (h a)) :
    (A >>= k).map g = A' >>= k' := by
  subst hA
  cases A with
  | error e => rfl
  | ok a => exact hk a

theorem ms_bind' {ε α β β' : Type} (g : β → β') (A A' : Except ε α)
    (k : α → Except ε β) (k' : α → Except ε β')
    (hA : A = A') (hk : ∀ a, (k a).map g = k' a) :
    (A >>= k).map g = A' >>= k' := by
  subst hA
  cases A with
  | error e => rfl
  | ok a => exact hk a

theorem ms_filterMapM {α α' β : Type} (p : α → α') (F : α → M (Option β)) (F' : α' → M (Option β))
    (hF : ∀ e, F e = F' (p e)) : ∀ T : List α, List.filterMapM F T = List.filterMapM F' (T.map p) := by
  intro T
  induction T with
  | nil => rfl
  | cons e T ih => rw [List.map_cons, List.filterMapM_cons, List.filterMapM_cons, hF e, ih]

def ms_stepMap {σ σ' : Type} (g : σ → σ') : ForInStep σ → ForInStep σ'
  | .done s => .done (g s)
  | .yield s => .yield (g s)

theorem ms_forIn {ε α σ σ' : Type} (g : σ → σ') (f : α → σ → Except ε (ForInStep σ))
    (f' : α → σ' → Except ε (ForInStep σ'))
    (hf : ∀ x st, (f x st).map (ms_stepMap g) = f' x (g st)) :
    ∀ (l : List α) (init : σ), (forIn l init f).map g = forIn l (g init) f' := by
  intro l
  induction l with
  | nil => intro init; rfl
  | cons x l ih =>
    intro init
    rw [List.forIn_cons, List.forIn_cons, ← hf x init]
    cases f x init with
    | error e => rfl
    | ok s =>
      cases s with
      | done s => rfl
      | yield s => exact ih s

theorem ms_forInMap {ε α α' σ σ' : Type} (g : σ → σ') (p : α → α') (f : α → σ → Except ε (ForInStep σ))
    (f' : α' → σ' → Except ε (ForInStep σ'))
    (hf : ∀ x st, (f x st).map (ms_stepMap g) = f' (p x) (g st)) :
    ∀ (l : List α) (init : σ), (forIn l init f).map g = forIn (l.map p) (g init) f' := by
  intro l
  induction l with
  | nil => intro init; rfl
  | cons x l ih =>
    intro init
    rw [List.map_cons, List.forIn_cons, List.forIn_cons, ← hf x init]
    cases f x init with
    | error e => rfl
    | ok s =>
      cases s with
      | done s => rfl
      | yield s => exact ih s

theorem ms_eraseIdx_map {α β : Type} (f : α → β) : ∀ (l : List α) (i : Nat),
    (l.eraseIdx i).map f = (l.map f).eraseIdx i := by
  intro l
  induction l with
  | nil => intro i; rfl
  | cons x l ih =>
    intro i
    cases i with
    | zero => rfl
    | succ i => simp only [List.eraseIdx_cons_succ, List.map_cons, ih]

/-! ### `Entry::cmp` -/

section
variable {γ : Type} {step : γ → CurOp → γ × CurRes} {abs : γ → LCur}

theorem ms_current (hsim : CurSim step abs) (c : γ) :
    (step c CurOp.current).2 = (lstep (abs c) CurOp.current).2 := (hsim c _ (Or.inl rfl)).1

theorem ms_next_res (hsim : CurSim step abs) (c : γ) :
    (step c CurOp.next).2 = (lstep (abs c) CurOp.next).2 := (hsim c _ (Or.inr rfl)).1

theorem ms_next_cur (hsim : CurSim step abs) (c : γ) :
    abs (step c CurOp.next).1 = (lstep (abs c) CurOp.next).1 := (hsim c _ (Or.inr rfl)).2

/-- **ms_cmp.** `Entry::cmp` only looks at what `current()` answers. -/
theorem ms_cmp (hsim : CurSim step abs) (a b : Gen.Entry γ) :
    Gen.Entry.cmp step a b = Gen.Entry.cmp lstep (absE' abs a) (absE' abs b) := by
  have ha := ms_current hsim a.cursor
  have hb := ms_current hsim b.cursor
  unfold Gen.Entry.cmp
  simp only [absE']
  rw [← ha, ← hb]

/-! ### `BinaryHeap::peek` / `pop` -/

theorem ms_heapMaxIdx (hsim : CurSim step abs) : ∀ (xs : List (Gen.Entry γ)) (i : Nat)
    (best : Option (Nat × Gen.Entry γ)),
    (heapMaxIdxM (Gen.Entry.cmp step) xs i best).map (Option.map (Prod.map id (absE' abs))) =
      heapMaxIdxM (Gen.Entry.cmp lstep) (xs.map (absE' abs)) i (best.map (Prod.map id (absE' abs))) := by
  intro xs
  induction xs with
  | nil => intro i best; rfl
  | cons x xs ih =>
    intro i best
    cases best with
    | none =>
      simp only [List.map_cons, Option.map_none, heapMaxIdxM]
      exact ih (i + 1) (some (i, x))
    | some p =>
      obtain ⟨j, b⟩ := p
      simp only [List.map_cons, Option.map_some, Prod.map, id, heapMaxIdxM]
      rw [← ms_cmp hsim b x]
      cases Gen.Entry.cmp step b x with
      | error e => rfl
      | ok o =>
        simp only [bind, Except.bind]
        split
        · exact ih (i + 1) (some (i, x))
        · exact ih (i + 1) (some (j, b))

/-- **ms_heapPeek.** -/
theorem ms_heapPeek (hsim : CurSim step abs) (h : List (Gen.Entry γ)) :
    (heapPeekM (Gen.Entry.cmp step) h).map (Option.map (absE' abs)) =
      heapPeekM (Gen.Entry.cmp lstep) (h.map (absE' abs)) := by
  have := ms_heapMaxIdx hsim h 0 none
  simp only [heapPeekM, Option.map_none] at this ⊢
  rw [← this]
  cases heapMaxIdxM (Gen.Entry.cmp step) h 0 none with
  | error e => rfl
  | ok r => cases r <;> rfl

/-- **ms_heapPop.** -/
theorem ms_heapPop (hsim : CurSim step abs) (h : List (Gen.Entry γ)) :
    (heapPopM (Gen.Entry.cmp step) h).map (fun p => (p.1.map (absE' abs), p.2.map (absE' abs))) =
      heapPopM (Gen.Entry.cmp lstep) (h.map (absE' abs)) := by
  have := ms_heapMaxIdx hsim h 0 none
  simp only [heapPopM, Option.map_none] at this ⊢
  rw [← this]
  cases heapMaxIdxM (Gen.Entry.cmp step) h 0 none with
  | error e => rfl
  | ok r =>
    cases r with
    | none => rfl
    | some p =>
      obtain ⟨i, x⟩ := p
      simp only [Except.map, bind, Except.bind, pure, Except.pure, Option.map_some, Prod.map, id,
        ms_eraseIdx_map]

/-! ### `Merger::into_stream_merger_iter` -/

/-- **ms_start.** -/
theorem ms_start (hsim : CurSim step abs) (m : Gen.Merger γ) :
    (Gen.Merger.into_stream_merger_iter step m).map (absI abs) =
      Gen.Merger.into_stream_merger_iter lstep { sources := m.sources.map abs } := by
  unfold Gen.Merger.into_stream_merger_iter
  simp only [List.zipIdx_map]
  refine ms_bind (List.map (absE' abs)) (absI abs) _ _ _ _ ?_ ?_
  · refine ms_forInMap (List.map (absE' abs)) (Prod.map abs id) _ _ ?_ _ _
    rintro ⟨c, i⟩ heap
    have h1 := ms_next_res hsim c
    have h2 := ms_next_cur hsim c
    simp only [Prod.map, id]
    generalize step c CurOp.next = s at h1 h2
    generalize lstep (abs c) CurOp.next = s' at h1 h2
    obtain ⟨c2, r3⟩ := s
    obtain ⟨c2', r3'⟩ := s'
    simp only at h1 h2
    subst h1 h2
    cases r3 with
    | none => rfl
    | some o =>
      simp only [liftCur, bind, Except.bind, pure, Except.pure]
      cases o with
      | none => rfl
      | some kv => simp [Except.map, ms_stepMap, absE']
  · intro heap; rfl

/-! ### `MergerIter::next` -/

/-- **ms_next.** -/
theorem ms_next (hsim : CurSim step abs) (merge : List UInt8 → List (List UInt8) → Except Unit Cow)
    (it : Gen.MergerIter γ) :
    (Gen.MergerIter.next step merge it).map (fun p => (p.1, absI abs p.2)) =
      Gen.MergerIter.next lstep merge (absI abs it) := by
  unfold Gen.MergerIter.next
  refine ms_bind (fun p => (p.1.map (absE' abs), p.2.map (absE' abs))) _ _ _ _ _
    (ms_heapPop hsim it.heap) ?_
  rintro ⟨r1, h2⟩
  cases r1 with
  | none => rfl
  | some e =>
    have h1 := ms_current hsim e.cursor
    simp only [Option.map_some, absE', pure_bind]
    generalize step e.cursor CurOp.current = s at h1
    generalize lstep (abs e.cursor) CurOp.current = s' at h1
    obtain ⟨c2, r3⟩ := s
    obtain ⟨c2', r3'⟩ := s'
    simp only at h1
    subst h1
    cases r3 with
    | none => rfl
    | some o =>
      cases o with
      | none => rfl
      | some kv =>
        obtain ⟨k, v⟩ := kv
        simp only [liftCur, pure_bind]
        rw [List.length_map]
        refine ms_bind (fun s => (absI abs s.1, s.2)) _ _ _ _ _ ?_ ?_
        · refine ms_forIn (fun s : Gen.MergerIter γ × Bool => (absI abs s.1, s.2)) _ _ ?_ _ _
          rintro x ⟨it1, fin⟩
          refine ms_bind (Option.map (absE' abs)) _ _ _ _ _ (ms_heapPeek hsim it1.heap) ?_
          intro o
          cases o with
          | none => rfl
          | some en =>
            simp only [Option.map_some, absE']
            rw [ms_current hsim en.cursor]
            cases (lstep (abs en.cursor) CurOp.current).snd with
            | none => rfl
            | some o =>
              cases o with
              | none => rfl
              | some kv =>
                obtain ⟨k', v'⟩ := kv
                simp only [pure_bind]
                by_cases hk : (k == k') = true
                · simp only [hk, if_true]
                  refine ms_bind (fun p => (p.1.map (absE' abs), p.2.map (absE' abs))) _ _ _ _ _
                    (ms_heapPop hsim it1.heap) ?_
                  rintro ⟨r9, h10⟩
                  cases r9 with
                  | none => rfl
                  | some e9 =>
                    simp [Except.map, ms_stepMap, absI, pure, Except.pure, absE']
                · simp only [hk, if_false]
                  rfl
        · rintro ⟨it1, fin⟩
          cases fin with
          | false => rfl
          | true =>
            rw [if_neg (by decide : ¬ ((!true) = true)), if_neg (by decide : ¬ ((!true) = true))]
            refine ms_bind' _ _ _ _ _ (ms_filterMapM (absE' abs) _ _ (fun en => ?_) _) ?_
            · simp only [absE', ms_current hsim en.cursor]
            · intro ov
              cases merge k ([v] ++ ov) with
              | error u => rfl
              | ok cow =>
                cases cow with
                | owned b | borrowed b =>
                  refine ms_bind (absI abs) _ _ _ _ _ ?_ (fun st => rfl)
                  refine ms_forInMap (absI abs) (absE' abs) _ _ ?_ _ _
                  intro en st
                  simp only [absE']
                  rw [ms_next_res hsim en.cursor, ← ms_next_cur hsim en.cursor]
                  cases (lstep (abs en.cursor) CurOp.next).snd with
                  | none => rfl
                  | some o =>
                    cases o with
                    | none => rfl
                    | some kv => simp [Except.map, ms_stepMap, absE', absI, pure, Except.pure, bind, Except.bind]

end

/-! ### Draining the iterator over any cursor -/

/-- `genCollect`, generic in the cursor -/
def genCollectG {γ : Type} (step : γ → CurOp → γ × CurRes)
    (merge : List UInt8 → List (List UInt8) → Except Unit Cow) :
    Nat → Gen.MergerIter γ → List Entry → M (List Entry)
  | 0, _, _ => .error (Fail.panic "genCollect: fuel exhausted")
  | fuel + 1, it, acc =>
    match Gen.MergerIter.next step merge it with
    | .ok (none, _) => .ok acc.reverse
    | .ok (some e, it') => genCollectG step merge fuel it' (e :: acc)
    | .error f => .error f

/-- `genMergerRun`, generic in the cursor: `into_stream_merger_iter` over the cursors `srcs`, then `next`
    until `None`, at most `fuel` times (the entries behind a generic cursor cannot be counted, so the fuel
    is a parameter; `genMergerRun` is the instance `fuel = totalLen + 1`). -/
def genMergerRunG {γ : Type} (step : γ → CurOp → γ × CurRes)
    (merge : List UInt8 → List (List UInt8) → Except Unit Cow) (fuel : Nat) (srcs : List γ) :
    M (List Entry) :=
  match Gen.Merger.into_stream_merger_iter step { sources := srcs } with
  | .ok it => genCollectG step merge fuel it []
  | .error f => .error f

section
variable {γ : Type} {step : γ → CurOp → γ × CurRes} {abs : γ → LCur}

theorem ms_collect (hsim : CurSim step abs) (merge : List UInt8 → List (List UInt8) → Except Unit Cow) :
    ∀ (fuel : Nat) (it : Gen.MergerIter γ) (acc : List Entry),
      genCollectG step merge fuel it acc = genCollect merge fuel (absI abs it) acc := by
  intro fuel
  induction fuel with
  | zero => intro it acc; rfl
  | succ fuel ih =>
    intro it acc
    simp only [genCollectG, genCollect]
    rw [← ms_next hsim merge it]
    cases Gen.MergerIter.next step merge it with
    | error f => rfl
    | ok p =>
      obtain ⟨r, it'⟩ := p
      cases r with
      | none => rfl
      | some e => exact ih it' (e :: acc)

/-- **src_merger_run_sim.**  The regenerated merger over any cursors `cs` that simulate (through `abs`)
    fresh list cursors over `lists` returns what it returns over those list cursors. -/
theorem src_merger_run_sim (hsim : CurSim step abs)
    (merge : List UInt8 → List (List UInt8) → Except Unit Cow) (cs : List γ) (lists : List (List Entry))
    (hcs : cs.map abs = lists.map (fun l => ({ fresh := true, rest := l } : LCur))) :
    genMergerRunG step merge (Merger.totalLen lists + 1) cs = genMergerRun merge lists := by
  unfold genMergerRunG genMergerRun
  rw [← hcs, ← ms_start hsim { sources := cs }]
  cases Gen.Merger.into_stream_merger_iter step { sources := cs } with
  | error f => rfl
  | ok it => exact ms_collect hsim merge _ it []

/-- **src_C06_merge_sim.**  C06 for the regenerated merger over ANY cursors that behave (on `current` and
    `move_on_next`) like fresh list cursors over strictly ascending entry lists, with a merge function that
    never fails: the result is exactly `Spec.mergeSpec`. -/
theorem src_C06_merge_sim (hsim : CurSim step abs) (mf' : Bytes → List Bytes → Bytes)
    (merge : List UInt8 → List (List UInt8) → Except Unit Cow)
    (hm : ∀ k vs, (merge k vs).toOption.map cowBytes = some (mf' k vs))
    (cs : List γ) (sources : List (List Entry))
    (hcs : cs.map abs = sources.map (fun l => ({ fresh := true, rest := l } : LCur)))
    (hasc : ∀ s ∈ sources, StrictAsc s) :
    genMergerRunG step merge (Merger.totalLen sources + 1) cs = .ok (Spec.mergeSpec mf' sources) := by
  rw [src_merger_run_sim hsim merge cs sources hcs, src_C06_merge mf' merge hm sources hasc]

/-- the same with any merge function: `mergeAll` over the groups, `Err(Error::Merge(_))` on a failed call -/
theorem src_C06_run_sim (hsim : CurSim step abs) (mf : MergeFn)
    (merge : List UInt8 → List (List UInt8) → Except Unit Cow)
    (hm : ∀ k vs, (merge k vs).toOption.map cowBytes = mf k vs)
    (cs : List γ) (sources : List (List Entry))
    (hcs : cs.map abs = sources.map (fun l => ({ fresh := true, rest := l } : LCur)))
    (hasc : ∀ s ∈ sources, StrictAsc s) :
    genMergerRunG step merge (Merger.totalLen sources + 1) cs =
      mergeOutcome (mergeAll mf (Spec.group sources.flatten)) := by
  rw [src_merger_run_sim hsim merge cs sources hcs, src_C06_run mf merge hm sources hasc]

/-- more fuel does not change a drained run -/
theorem ms_collect_mono (merge : List UInt8 → List (List UInt8) → Except Unit Cow) (n : Nat) :
    ∀ (fuel : Nat) (it : Gen.MergerIter γ) (acc out : List Entry),
      genCollectG step merge fuel it acc = .ok out → genCollectG step merge (fuel + n) it acc = .ok out := by
  intro fuel
  induction fuel with
  | zero => intro it acc out h; simp [genCollectG] at h
  | succ fuel ih =>
    intro it acc out h
    rw [Nat.add_right_comm]
    simp only [genCollectG] at h ⊢
    cases hn : Gen.MergerIter.next step merge it with
    | error f => rw [hn] at h; simp at h
    | ok p =>
      obtain ⟨r, it'⟩ := p
      rw [hn] at h
      cases r with
      | none => exact h
      | some e => exact ih it' (e :: acc) out h

/-- `src_C06_merge_sim` with any sufficient fuel -/
theorem src_C06_merge_sim_fuel (hsim : CurSim step abs) (mf' : Bytes → List Bytes → Bytes)
    (merge : List UInt8 → List (List UInt8) → Except Unit Cow)
    (hm : ∀ k vs, (merge k vs).toOption.map cowBytes = some (mf' k vs))
    (cs : List γ) (sources : List (List Entry))
    (hcs : cs.map abs = sources.map (fun l => ({ fresh := true, rest := l } : LCur)))
    (hasc : ∀ s ∈ sources, StrictAsc s) (fuel : Nat) (hfuel : Merger.totalLen sources + 1 ≤ fuel) :
    genMergerRunG step merge fuel cs = .ok (Spec.mergeSpec mf' sources) := by
  have h := src_C06_merge_sim hsim mf' merge hm cs sources hcs hasc
  obtain ⟨n, rfl⟩ := Nat.exists_eq_add_of_le hfuel
  unfold genMergerRunG at h ⊢
  cases hs : Gen.Merger.into_stream_merger_iter step { sources := cs } with
  | error f => rw [hs] at h; simp at h
  | ok it =>
    rw [hs] at h
    exact ms_collect_mono merge n _ it [] _ h

end

/-! ### Instances -/

/-- the list cursor simulates itself -/
theorem curSim_lstep : CurSim lstep id := fun c op _ => ⟨rfl, rfl⟩

/-- a cursor that also counts the calls made on it (state the merger never sees) simulates the list cursor -/
def cstep (c : LCur × Nat) (op : CurOp) : (LCur × Nat) × CurRes :=
  (((lstep c.1 op).1, c.2 + 1), (lstep c.1 op).2)

theorem curSim_cstep : CurSim cstep Prod.fst := fun c op _ => ⟨rfl, rfl⟩

/-- the hypotheses of `src_C06_merge_sim` on the counting cursors over the example sources of C06 -/
example : genMergerRunG cstep exMerge (Merger.totalLen Grenad.Props.C06.exSources + 1)
      (Grenad.Props.C06.exSources.map (fun l => (({ fresh := true, rest := l } : LCur), 0))) =
    .ok (Spec.mergeSpec Grenad.Props.C06.exConcat Grenad.Props.C06.exSources) :=
  src_C06_merge_sim curSim_cstep Grenad.Props.C06.exConcat exMerge exMerge_spec _ _
    (by simp [List.map_map, Function.comp_def]) Grenad.Props.C06.exAsc

end Grenad.SrcTie

section Axioms
open Grenad.SrcTie
#print axioms ms_cmp
#print axioms ms_heapPeek
#print axioms ms_heapPop
#print axioms ms_start
#print axioms ms_next
#print axioms src_merger_run_sim
#print axioms src_C06_merge_sim
#print axioms src_C06_run_sim
#print axioms src_C06_merge_sim_fuel
end Axioms
