/-
  Grenad.SrcTie.FullRoundTrip — C01/C02/C03 with BOTH halves being code regenerated from /repo/src on every run.

  Write side (`src_C01_builder_roundtrip`, WriterBuild.lean): the regenerated `WriterBuilder::build`, then
  `Writer::insert` for every entry, then `Writer::into_inner` return bytes `file`, and these are the model's
  (`W.run cd (cfgOf wb) es = .ok (file, log)`).
  Read side (`src_C03_history`, `src_C01_scan_next/prev`, `src_C02_*_after`, `e2e_open_ok`, ReaderE2EGen.lean): on a file
  of an `Assembly.Setting` the regenerated `Reader::new` / `Reader::into_cursor` return, and every history of public
  calls on the regenerated `ReaderCursor` that returns agrees with the specification cursor over the inserted entries.

  Here the two are joined: the `Setting` the read side needs is rebuilt from the hypotheses of the write side, the
  equation `W.run … = .ok (file, log)` it delivers and the size side conditions on the output (`frt_setting`), so the
  file in the statement is the very value the regenerated writer returned.

  Hypotheses of `src_C01_full_roundtrip`:
    * about the INPUT (codec, builder, entries) — those of `src_C01_builder_roundtrip`: a lawful codec with id ≤ 5 whose
      output on blocks shorter than 2^63 bytes is shorter than 2^64 bytes, `index_levels ≤ 255`, a nonzero `usize`
      index key interval, strictly ascending keys, key and value lengths below 2^32, fewer than 2^26 entries, the
      builder's compression type being the codec's id;
    * about the OUTPUT (they sit under the existential, as premises on the returned `file` and on the model's ghost log
      of emitted blocks, which the equation `W.run … = .ok (file, log)` ties to the input):
        `file.length < 2^64`            — offsets in the file are `u64`;
        `∀ e ∈ log, e.raw.length < 2^32` — in-block offsets fit the `u32`s the block cursor reads them through;
        `SmallBlocks cd file`            — whatever the reader decompresses from `file` is shorter than 2^62 bytes
                                           (no `usize` overflow in the regenerated `Block::new`).
      They cannot be derived from the input: the length of the file and of each block depends on `cd.compress` (an
      arbitrary function here) and on where the configured block size cuts the blocks, and 2^26 entries of up to
      2^32 + 2^32 bytes may exceed 2^64 bytes; `SmallBlocks` speaks of `cd.decompress` on arbitrary slices of the
      file, about which `Lawful` says nothing.  For `Codec.none` the third follows from `file.length < 2^62`
      (`src_C01_full_roundtrip_none`).

  `src_C01_full_roundtrip_total` (below) is the unconditional form: with `SrcTie.ReaderTotal` (every history of
  regenerated cursor calls on a written file returns `.ok`) the read side no longer says "if the call returns".
  The first theorems keep the earlier shape.
  `src_C04_C05_full_roundtrip` adds the range and prefix iterators (C04, C05; `SrcTie.IterE2E`), regenerated as well.
  Partial correctness on the read side of `src_C01_full_roundtrip`, as in ReaderE2EGen.lean: opening is shown to return; for the cursor calls the
  statement is "if the call returns `.ok`, the result is the specified one" (that they do return is shown by kernel
  evaluation on a concrete written file, ReaderE2ESmoke.lean).
-/
import Grenad.SrcTie.WriterBuild
import Grenad.SrcTie.ReaderE2EGen
import Grenad.SrcTie.ReaderTotal
import Grenad.SrcTie.IterE2E

set_option linter.unusedSimpArgs false
set_option linter.unusedVariables false

namespace Grenad.SrcTie
open Grenad Grenad.R Grenad.Gen Grenad.Assembly Grenad.IterP

/-! ### the `Setting` of the write side -/

/-- The interval of the configuration a builder stands for is a nonzero `usize`. -/
theorem frt_interval (wb : Gen.WriterBuilder)
    (hiv : ∀ iv, wb.index_key_interval = some iv → 1 ≤ iv ∧ iv < 2 ^ 64) :
    1 ≤ (cfgOf wb).interval ∧ (cfgOf wb).interval < 2 ^ 64 := by
  simp only [cfgOf]
  cases h : wb.index_key_interval with
  | none => simp [Gen.DEFAULT_INDEX_KEY_INTERVAL]
  | some iv => simpa using hiv iv h

/-- The writer's hypotheses, the run equation `src_C01_builder_roundtrip` delivers and the size side conditions on
    the output make up the `Assembly.Setting` every read-side theorem is stated on (the construction inside
    `Props.C01.C01_roundtrip`, which `src_C01_writer_roundtrip` goes through). -/
theorem frt_setting (cd : Codec) (wb : Gen.WriterBuilder) (es : List Entry) (file : Bytes) (log : List Emitted)
    (hlaw : cd.Lawful) (hid : cd.id ≤ 5) (hlv : wb.index_levels ≤ 255)
    (hiv : ∀ iv, wb.index_key_interval = some iv → 1 ≤ iv ∧ iv < 2 ^ 64)
    (hasc : StrictAsc es) (hlens : ∀ e ∈ es, e.1.length < 2 ^ 32 ∧ e.2.length < 2 ^ 32)
    (hcount : es.length < 2 ^ 26)
    (hrun : W.run cd (cfgOf wb) es = .ok (file, log))
    (hfile : file.length < 2 ^ 64) (hblocks : ∀ e ∈ log, e.raw.length < 2 ^ 32) :
    Setting cd (cfgOf wb) es file log :=
  ⟨⟨hlv, hlaw, hasc, hlens⟩, (frt_interval wb hiv).1, hrun, hfile, by omega, hid, hblocks⟩

/-! ### what the regenerated reader does on the file -/

/-- **The regenerated reader reads `es` back from `file`** (written with codec `cd` and `levels` index levels).
    `Reader::new(Cursor { file, pos })` and `Reader::into_cursor` return, the reader reports the number of entries,
    the index levels, the codec and format V2, and on the returned cursor `s0`, through the regenerated `ReaderCursor`
    functions (`genRcRun`, `genRcStep`: `move_on_first/last/next/prev`, `move_on_key_*`, `reset`, `current`):
    * C01: `move_on_next()` × `(n+1)`, if the calls return, gives exactly the entries in order and then `None`;
      `move_on_prev()` × `(n+1)` gives them in reverse order and then `None`;
    * C03: for EVERY history of public calls, if the calls return, there are as many results as calls and every
      result agrees with the specification cursor over `es` (`e2eSpecRun`) wherever the latter determines it;
    * C02: after every such history, `move_on_key_greater_than_or_equal_to(q)`, `…lower_than_or_equal_to(q)`,
      `move_on_key_equal_to(q)`, if they return, return the ceiling, the floor, the entry with key `q`. -/
def frt_ReadsBack (cd : Codec) (es : List Entry) (levels : Nat) (file : Bytes) : Prop :=
  ∀ pos : Nat, ∃ (rdr : Gen.Reader) (s0 : Gen.ReaderCursor),
    Gen.Reader.new { bytes := file, pos := pos } = .ok rdr ∧ Gen.Reader.into_cursor rdr = .ok s0 ∧
    rdr.metadata.entries_count = es.length ∧ rdr.metadata.index_levels = levels ∧
    rdr.metadata.compression_type.toNat = cd.id ∧ rdr.metadata.file_version = .formatV2 ∧
    (∀ rs s', genRcRun cd s0 (List.replicate (es.length + 1) .next) = .ok (rs, s') → rs = es.map some ++ [none]) ∧
    (∀ rs s', genRcRun cd s0 (List.replicate (es.length + 1) .prev) = .ok (rs, s') →
      rs = es.reverse.map some ++ [none]) ∧
    (∀ (hist : List Op) rs s1, genRcRun cd s0 hist = .ok (rs, s1) →
      rs.length = hist.length ∧
      (∀ x ∈ (rs.map Res.ok).zip (e2eSpecRun es .fresh hist), Spec.Agree x.1 x.2) ∧
      ∀ (q : Bytes) r s2,
        (Gen.ReaderCursor.move_on_key_greater_than_or_equal_to (fun _ => cd.decompress) s1 q = .ok (r, s2) →
          r = Spec.ceiling es q) ∧
        (Gen.ReaderCursor.move_on_key_lower_than_or_equal_to (fun _ => cd.decompress) s1 q = .ok (r, s2) →
          r = Spec.floor es q) ∧
        (Gen.ReaderCursor.move_on_key_equal_to (fun _ => cd.decompress) s1 q = .ok (r, s2) →
          r = Spec.lookup es q))

/-- The read side, collected: on the file of a `Setting` with `SmallBlocks`, the regenerated reader reads back. -/
theorem frt_reads_of_setting {cd : Codec} {cfg : WCfg} {es : List Entry} {file : Bytes} {log : List Emitted}
    (S : Setting cd cfg es file log) (hs : SmallBlocks cd file) : frt_ReadsBack cd es cfg.levels file := by
  intro pos
  obtain ⟨rdr, s0, hopen, hcur, h1, h2, h3, h4⟩ := e2e_open_ok S pos
  obtain ⟨hparse, -⟩ := e2e_reader_new file pos rdr hopen
  obtain ⟨hg, h0, -⟩ := e2e_open_cursor file pos _ hparse (e2e_setting_levels_le S hparse) rdr s0 hopen hcur
  refine ⟨rdr, s0, hopen, hcur, h1, h2, h3, h4, ?_, ?_, ?_⟩
  · intro rs s' h
    exact src_C01_scan_next S hparse hs s0 hg h0 rs s' h
  · intro rs s' h
    exact src_C01_scan_prev S hparse hs s0 hg h0 rs s' h
  · intro hist rs s1 h
    obtain ⟨hlen, hag⟩ := src_C03_history S hparse hs s0 hg h0 hist rs s1 h
    refine ⟨hlen, hag, fun q r s2 => ⟨?_, ?_, ?_⟩⟩
    · exact src_C02_ge_after S hparse hs s0 hg h0 hist rs s1 h q r s2
    · exact src_C02_le_after S hparse hs s0 hg h0 hist rs s1 h q r s2
    · exact src_C02_eq_after S hparse hs s0 hg h0 hist rs s1 h q r s2

/-! ### the theorem -/

/-- **C01/C02/C03, regenerated writer + regenerated reader, end to end.**
    The regenerated `WriterBuilder::build`, `Writer::insert` for every entry of `es` and `Writer::into_inner` return
    bytes `file` (the model's, with the model's ghost log `log` of emitted blocks), and — provided `file` is shorter
    than 2^64 bytes, every emitted block shorter than 2^32 bytes and `SmallBlocks cd file` (conditions on the output,
    see the head of this file) — the regenerated `Reader::new` / `into_cursor` open these very bytes and the
    regenerated `ReaderCursor` reads back exactly `es` (`frt_ReadsBack`: scans, every history, seeks). -/
theorem src_C01_full_roundtrip (cd : Codec) (wb : Gen.WriterBuilder) (es : List Entry)
    (hlaw : cd.Lawful) (hid : cd.id ≤ 5) (hlv : wb.index_levels ≤ 255)
    (hiv : ∀ iv, wb.index_key_interval = some iv → 1 ≤ iv ∧ iv < 2 ^ 64)
    (hasc : StrictAsc es) (hlens : ∀ e ∈ es, e.1.length < 2 ^ 32 ∧ e.2.length < 2 ^ 32)
    (hcount : es.length < 2 ^ 26)
    (hcd : ∀ b : Bytes, b.length < 2 ^ 63 → (cd.compress b).length < 2 ^ 64)
    (hct : wb.compression_type.toNat = cd.id) :
    ∃ file log,
      (do let (w, _) ← Gen.WriterBuilder.build wb []
          genWriterRun (codecFn cd) w es : M Sink) = .ok file ∧
      W.run cd (cfgOf wb) es = .ok (file, log) ∧
      (file.length < 2 ^ 64 → (∀ e ∈ log, e.raw.length < 2 ^ 32) → SmallBlocks cd file →
        frt_ReadsBack cd es wb.index_levels file) := by
  obtain ⟨file, log, hgen, hrun, -⟩ :=
    src_C01_builder_roundtrip cd wb es hlaw hid hlv hiv hasc hlens hcount hcd hct
  refine ⟨file, log, hgen, hrun, fun hfile hblocks hs => ?_⟩
  exact frt_reads_of_setting (frt_setting cd wb es file log hlaw hid hlv hiv hasc hlens hcount hrun hfile hblocks) hs

/-- `Codec.none` (no compression) meets the codec hypotheses. -/
theorem frt_none_lawful : Codec.none.Lawful := fun _ => rfl

theorem frt_none_bounded : ∀ b : Bytes, b.length < 2 ^ 63 → (Codec.none.compress b).length < 2 ^ 64 := by
  intro b hb
  show b.length < 2 ^ 64
  omega

/-- **The same without compression**: no hypothesis on the codec is left, and `SmallBlocks` follows from the file
    being shorter than 2^62 bytes (`smallBlocks_none`). -/
theorem src_C01_full_roundtrip_none (wb : Gen.WriterBuilder) (es : List Entry)
    (hlv : wb.index_levels ≤ 255)
    (hiv : ∀ iv, wb.index_key_interval = some iv → 1 ≤ iv ∧ iv < 2 ^ 64)
    (hasc : StrictAsc es) (hlens : ∀ e ∈ es, e.1.length < 2 ^ 32 ∧ e.2.length < 2 ^ 32)
    (hcount : es.length < 2 ^ 26)
    (hct : wb.compression_type = .none) :
    ∃ file log,
      (do let (w, _) ← Gen.WriterBuilder.build wb []
          genWriterRun (codecFn Codec.none) w es : M Sink) = .ok file ∧
      W.run Codec.none (cfgOf wb) es = .ok (file, log) ∧
      (file.length < 2 ^ 62 → (∀ e ∈ log, e.raw.length < 2 ^ 32) →
        frt_ReadsBack Codec.none es wb.index_levels file) := by
  obtain ⟨file, log, hgen, hrun, hread⟩ :=
    src_C01_full_roundtrip Codec.none wb es frt_none_lawful (by decide) hlv hiv hasc hlens hcount frt_none_bounded
      (by rw [hct]; rfl)
  refine ⟨file, log, hgen, hrun, fun hfile hblocks => ?_⟩
  exact hread (by omega) hblocks (smallBlocks_none file hfile)

/-! ### total correctness: the read side without "if it returns" -/

/-- **The regenerated reader reads `es` back from `file`, unconditionally.**  As `frt_ReadsBack`, but every call is
    stated to RETURN `.ok` (no panic, no `Err`): `Reader::new` / `into_cursor` return; `move_on_next()` × `(n+1)`
    returns exactly the entries in order, then `None` (`move_on_prev()`: reversed); EVERY history of public calls
    returns, with as many results as calls, each agreeing with the specification cursor over `es`; and after every
    history the three seeks return the ceiling, the floor, the entry with key `q`. -/
def frt_ReadsBackTotal (cd : Codec) (es : List Entry) (levels : Nat) (file : Bytes) : Prop :=
  ∀ pos : Nat, ∃ (rdr : Gen.Reader) (s0 : Gen.ReaderCursor),
    Gen.Reader.new { bytes := file, pos := pos } = .ok rdr ∧ Gen.Reader.into_cursor rdr = .ok s0 ∧
    rdr.metadata.entries_count = es.length ∧ rdr.metadata.index_levels = levels ∧
    rdr.metadata.compression_type.toNat = cd.id ∧ rdr.metadata.file_version = .formatV2 ∧
    (∃ s', genRcRun cd s0 (List.replicate (es.length + 1) .next) = .ok (es.map some ++ [none], s')) ∧
    (∃ s', genRcRun cd s0 (List.replicate (es.length + 1) .prev) = .ok (es.reverse.map some ++ [none], s')) ∧
    (∀ hist : List Op, ∃ rs s1, genRcRun cd s0 hist = .ok (rs, s1) ∧
      rs.length = hist.length ∧
      (∀ x ∈ (rs.map Res.ok).zip (e2eSpecRun es .fresh hist), Spec.Agree x.1 x.2) ∧
      ∀ q : Bytes,
        (∃ s2, Gen.ReaderCursor.move_on_key_greater_than_or_equal_to (fun _ => cd.decompress) s1 q =
          .ok (Spec.ceiling es q, s2)) ∧
        (∃ s2, Gen.ReaderCursor.move_on_key_lower_than_or_equal_to (fun _ => cd.decompress) s1 q =
          .ok (Spec.floor es q, s2)) ∧
        (∃ s2, Gen.ReaderCursor.move_on_key_equal_to (fun _ => cd.decompress) s1 q =
          .ok (Spec.lookup es q, s2)))

/-- one more call after a history that returned `(rs, s1)`: it returns, from `s1` -/
theorem frt_step_after {cd : Codec} {cfg : WCfg} {es : List Entry} {file : Bytes} {log : List Emitted} {m : Meta.Meta}
    (S : Setting cd cfg es file log) (hm : Meta.parse file = .ok m) (hs : SmallBlocks cd file)
    (s0 : Gen.ReaderCursor) (hg : GoodRC (fun _ => True) file s0) (h0 : toRCfull s0 [] = RC.new m)
    (hist : List Op) (rs : List (Option (Bytes × Bytes))) (s1 : Gen.ReaderCursor)
    (h : genRcRun cd s0 hist = .ok (rs, s1)) (op : Op) :
    ∃ r s2, genRcStep cd s1 op = .ok (r, s2) := by
  obtain ⟨rs', s1', r, s2, h', h2, -⟩ := src_C03_step_total S hm hs s0 hg h0 hist op
  rw [h] at h'
  simp only [Except.ok.injEq, Prod.mk.injEq] at h'
  obtain ⟨-, rfl⟩ := h'
  exact ⟨r, s2, h2⟩

/-- The read side, collected, unconditional form. -/
theorem frt_reads_total_of_setting {cd : Codec} {cfg : WCfg} {es : List Entry} {file : Bytes} {log : List Emitted}
    (S : Setting cd cfg es file log) (hs : SmallBlocks cd file) : frt_ReadsBackTotal cd es cfg.levels file := by
  intro pos
  obtain ⟨rdr, s0, hopen, hcur, h1, h2, h3, h4⟩ := e2e_open_ok S pos
  obtain ⟨hparse, -⟩ := e2e_reader_new file pos rdr hopen
  obtain ⟨hg, h0, -⟩ := e2e_open_cursor file pos _ hparse (e2e_setting_levels_le S hparse) rdr s0 hopen hcur
  refine ⟨rdr, s0, hopen, hcur, h1, h2, h3, h4, ?_, ?_, ?_⟩
  · obtain ⟨rs, s', h⟩ := src_reader_total S hparse hs s0 hg h0 (List.replicate (es.length + 1) .next)
    have := src_C01_scan_next S hparse hs s0 hg h0 rs s' h
    subst this
    exact ⟨s', h⟩
  · obtain ⟨rs, s', h⟩ := src_reader_total S hparse hs s0 hg h0 (List.replicate (es.length + 1) .prev)
    have := src_C01_scan_prev S hparse hs s0 hg h0 rs s' h
    subst this
    exact ⟨s', h⟩
  · intro hist
    obtain ⟨rs, s1, h, hlen, hag⟩ := src_C03_history_total S hparse hs s0 hg h0 hist
    refine ⟨rs, s1, h, hlen, hag, fun q => ⟨?_, ?_, ?_⟩⟩
    · obtain ⟨r, s2, h2⟩ := frt_step_after S hparse hs s0 hg h0 hist rs s1 h (.ge q)
      have hr := src_C02_ge_after S hparse hs s0 hg h0 hist rs s1 h q r s2 h2
      subst hr
      exact ⟨s2, h2⟩
    · obtain ⟨r, s2, h2⟩ := frt_step_after S hparse hs s0 hg h0 hist rs s1 h (.le q)
      have hr := src_C02_le_after S hparse hs s0 hg h0 hist rs s1 h q r s2 h2
      subst hr
      exact ⟨s2, h2⟩
    · obtain ⟨r, s2, h2⟩ := frt_step_after S hparse hs s0 hg h0 hist rs s1 h (.eq q)
      have hr := src_C02_eq_after S hparse hs s0 hg h0 hist rs s1 h q r s2 h2
      subst hr
      exact ⟨s2, h2⟩

/-- **C01/C02/C03, regenerated writer + regenerated reader, end to end, total correctness on both sides.**
    Same hypotheses as `src_C01_full_roundtrip`; the bytes the regenerated writer returns are opened by the
    regenerated `Reader::new` / `into_cursor`, and every call on the regenerated `ReaderCursor` RETURNS the specified
    result (`frt_ReadsBackTotal`). -/
theorem src_C01_full_roundtrip_total (cd : Codec) (wb : Gen.WriterBuilder) (es : List Entry)
    (hlaw : cd.Lawful) (hid : cd.id ≤ 5) (hlv : wb.index_levels ≤ 255)
    (hiv : ∀ iv, wb.index_key_interval = some iv → 1 ≤ iv ∧ iv < 2 ^ 64)
    (hasc : StrictAsc es) (hlens : ∀ e ∈ es, e.1.length < 2 ^ 32 ∧ e.2.length < 2 ^ 32)
    (hcount : es.length < 2 ^ 26)
    (hcd : ∀ b : Bytes, b.length < 2 ^ 63 → (cd.compress b).length < 2 ^ 64)
    (hct : wb.compression_type.toNat = cd.id) :
    ∃ file log,
      (do let (w, _) ← Gen.WriterBuilder.build wb []
          genWriterRun (codecFn cd) w es : M Sink) = .ok file ∧
      W.run cd (cfgOf wb) es = .ok (file, log) ∧
      (file.length < 2 ^ 64 → (∀ e ∈ log, e.raw.length < 2 ^ 32) → SmallBlocks cd file →
        frt_ReadsBackTotal cd es wb.index_levels file) := by
  obtain ⟨file, log, hgen, hrun, -⟩ :=
    src_C01_builder_roundtrip cd wb es hlaw hid hlv hiv hasc hlens hcount hcd hct
  refine ⟨file, log, hgen, hrun, fun hfile hblocks hs => ?_⟩
  exact frt_reads_total_of_setting
    (frt_setting cd wb es file log hlaw hid hlv hiv hasc hlens hcount hrun hfile hblocks) hs

/-- **The same without compression.** -/
theorem src_C01_full_roundtrip_total_none (wb : Gen.WriterBuilder) (es : List Entry)
    (hlv : wb.index_levels ≤ 255)
    (hiv : ∀ iv, wb.index_key_interval = some iv → 1 ≤ iv ∧ iv < 2 ^ 64)
    (hasc : StrictAsc es) (hlens : ∀ e ∈ es, e.1.length < 2 ^ 32 ∧ e.2.length < 2 ^ 32)
    (hcount : es.length < 2 ^ 26)
    (hct : wb.compression_type = .none) :
    ∃ file log,
      (do let (w, _) ← Gen.WriterBuilder.build wb []
          genWriterRun (codecFn Codec.none) w es : M Sink) = .ok file ∧
      W.run Codec.none (cfgOf wb) es = .ok (file, log) ∧
      (file.length < 2 ^ 62 → (∀ e ∈ log, e.raw.length < 2 ^ 32) →
        frt_ReadsBackTotal Codec.none es wb.index_levels file) := by
  obtain ⟨file, log, hgen, hrun, hread⟩ :=
    src_C01_full_roundtrip_total Codec.none wb es frt_none_lawful (by decide) hlv hiv hasc hlens hcount
      frt_none_bounded (by rw [hct]; rfl)
  refine ⟨file, log, hgen, hrun, fun hfile hblocks => ?_⟩
  exact hread (by omega) hblocks (smallBlocks_none file hfile)

/-! ### C04/C05: the regenerated range and prefix iterators on the bytes the regenerated writer returns -/

/-- **The regenerated iterators enumerate `es` from `file`.**  For every source position, all bounds `lo hi`, every
    prefix `p` and every fuel above the number of entries: `Reader::new`, `into_cursor`, `RangeIter::new` /
    `RevRangeIter::new` resp. `PrefixIter::new` / `RevPrefixIter::new`, then `next` until `None` — all regenerated code,
    over the regenerated cursor (`gstep (ie_mstep cd)`, `ie_gstep_ok`) — return exactly the entries within the bounds
    resp. with the prefix, ascending and (reversed iterators) descending.  These are the conclusions of
    `src_C04_range_open_e2e` and `src_C05_prefix_open_e2e`. -/
def frt_ItersBack (cd : Codec) (es : List Entry) (file : Bytes) : Prop :=
  ∀ (pos : Nat) (lo hi : Grenad.Bound) (p : Bytes) (fuel : Nat), fuel > es.length →
    (∃ rdr s0 it rit, Gen.Reader.new { bytes := file, pos := pos } = .ok rdr ∧ Gen.Reader.into_cursor rdr = .ok s0 ∧
      Gen.RangeIter.new s0 (toSrcBound lo, toSrcBound hi) = .ok it ∧
      collectM (Gen.RangeIter.next (gstep (ie_mstep cd))) fuel it [] = .ok (Spec.range es lo hi) ∧
      Gen.RevRangeIter.new s0 (toSrcBound lo, toSrcBound hi) = .ok rit ∧
      collectM (Gen.RevRangeIter.next (gstep (ie_mstep cd))) fuel rit [] = .ok (Spec.range es lo hi).reverse) ∧
    (∃ rdr s0 it rit, Gen.Reader.new { bytes := file, pos := pos } = .ok rdr ∧ Gen.Reader.into_cursor rdr = .ok s0 ∧
      Gen.PrefixIter.new s0 p = .ok it ∧
      collectM (Gen.PrefixIter.next (gstep (ie_mstep cd))) fuel it [] = .ok (Spec.withPrefix es p) ∧
      Gen.RevPrefixIter.new s0 p = .ok rit ∧
      collectM (Gen.RevPrefixIter.next (gstep (ie_mstep cd))) fuel rit [] = .ok (Spec.withPrefix es p).reverse)

theorem frt_iters_of_setting {cd : Codec} {cfg : WCfg} {es : List Entry} {file : Bytes} {log : List Emitted}
    (S : Setting cd cfg es file log) (hs : SmallBlocks cd file) : frt_ItersBack cd es file :=
  fun pos lo hi p fuel hfuel =>
    ⟨src_C04_range_open_e2e S hs pos lo hi fuel hfuel, src_C05_prefix_open_e2e S hs pos p fuel hfuel⟩

/-- **C04/C05, regenerated writer + regenerated reader, cursor and iterators, end to end (total).**
    Same hypotheses as `src_C01_full_roundtrip_total`; on the bytes the regenerated writer returns, the regenerated
    range and prefix iterators, forwards and reversed, return exactly the specified entries (`frt_ItersBack`). -/
theorem src_C04_C05_full_roundtrip (cd : Codec) (wb : Gen.WriterBuilder) (es : List Entry)
    (hlaw : cd.Lawful) (hid : cd.id ≤ 5) (hlv : wb.index_levels ≤ 255)
    (hiv : ∀ iv, wb.index_key_interval = some iv → 1 ≤ iv ∧ iv < 2 ^ 64)
    (hasc : StrictAsc es) (hlens : ∀ e ∈ es, e.1.length < 2 ^ 32 ∧ e.2.length < 2 ^ 32)
    (hcount : es.length < 2 ^ 26)
    (hcd : ∀ b : Bytes, b.length < 2 ^ 63 → (cd.compress b).length < 2 ^ 64)
    (hct : wb.compression_type.toNat = cd.id) :
    ∃ file log,
      (do let (w, _) ← Gen.WriterBuilder.build wb []
          genWriterRun (codecFn cd) w es : M Sink) = .ok file ∧
      W.run cd (cfgOf wb) es = .ok (file, log) ∧
      (file.length < 2 ^ 64 → (∀ e ∈ log, e.raw.length < 2 ^ 32) → SmallBlocks cd file →
        frt_ItersBack cd es file) := by
  obtain ⟨file, log, hgen, hrun, -⟩ :=
    src_C01_builder_roundtrip cd wb es hlaw hid hlv hiv hasc hlens hcount hcd hct
  refine ⟨file, log, hgen, hrun, fun hfile hblocks hs => ?_⟩
  exact frt_iters_of_setting
    (frt_setting cd wb es file log hlaw hid hlv hiv hasc hlens hcount hrun hfile hblocks) hs

/-- **The same without compression.** -/
theorem src_C04_C05_full_roundtrip_none (wb : Gen.WriterBuilder) (es : List Entry)
    (hlv : wb.index_levels ≤ 255)
    (hiv : ∀ iv, wb.index_key_interval = some iv → 1 ≤ iv ∧ iv < 2 ^ 64)
    (hasc : StrictAsc es) (hlens : ∀ e ∈ es, e.1.length < 2 ^ 32 ∧ e.2.length < 2 ^ 32)
    (hcount : es.length < 2 ^ 26)
    (hct : wb.compression_type = .none) :
    ∃ file log,
      (do let (w, _) ← Gen.WriterBuilder.build wb []
          genWriterRun (codecFn Codec.none) w es : M Sink) = .ok file ∧
      W.run Codec.none (cfgOf wb) es = .ok (file, log) ∧
      (file.length < 2 ^ 62 → (∀ e ∈ log, e.raw.length < 2 ^ 32) → frt_ItersBack Codec.none es file) := by
  obtain ⟨file, log, hgen, hrun, hread⟩ :=
    src_C04_C05_full_roundtrip Codec.none wb es frt_none_lawful (by decide) hlv hiv hasc hlens hcount
      frt_none_bounded (by rw [hct]; rfl)
  exact ⟨file, log, hgen, hrun, fun hfile hblocks => hread (by omega) hblocks (smallBlocks_none file hfile)⟩

/-! ### the hypotheses are jointly satisfiable (and the conclusion is not empty) -/

namespace FrtSmoke
open Grenad.Props.C01

/-- no compression, interval 2, two index levels below the root, 28-byte blocks (the setter's clamp is not part of
    `build`; `cfgOf` takes the stored value as the effective block size) -/
def wbS : Gen.WriterBuilder :=
  { compression_type := .none, compression_level := 0, index_key_interval := some 2, index_levels := 2,
    block_size := 28 }

theorem exEs_asc : StrictAsc exEs := by unfold StrictAsc exEs; decide

theorem exEs_lens : ∀ e ∈ exEs, e.1.length < 2 ^ 32 ∧ e.2.length < 2 ^ 32 := by simp [exEs]

/-- the size side conditions on the output of the model run, as a Boolean -/
def sizesOK : Bool :=
  match W.run Codec.none (cfgOf wbS) exEs with
  | .ok (f, l) => decide (f.length < 2 ^ 62) && l.all (fun e => decide (e.raw.length < 2 ^ 32)) &&
      decide (5 ≤ l.length)
  | .error _ => false

theorem sizesOK_true : sizesOK = true := by decide +kernel

/-- **All hypotheses of `src_C01_builder_roundtrip` hold together** for `Codec.none`, the builder `wbS` and the twelve
    entries `Props.C01.exEs` (the earlier form of the codec bound, `∀ b, (cd.compress b).length < 2^64`, contradicted
    `cd.Lawful` — an injective function cannot map all byte strings into those shorter than 2^64 — and made the
    theorem vacuous; this instance keeps that from coming back). -/
theorem builder_hyps_sat :
    ∃ file log,
      (do let (w, _) ← Gen.WriterBuilder.build wbS []
          genWriterRun (codecFn Codec.none) w exEs : M Sink) = .ok file ∧
      W.run Codec.none (cfgOf wbS) exEs = .ok (file, log) := by
  obtain ⟨file, log, h1, h2, -⟩ :=
    src_C01_builder_roundtrip Codec.none wbS exEs frt_none_lawful (by decide) (by decide)
      (by intro iv h; simp only [wbS, Option.some.injEq] at h; subst h; decide)
      exEs_asc exEs_lens (by decide) frt_none_bounded rfl
  exact ⟨file, log, h1, h2⟩

/-- **The full theorem applied**: every hypothesis, input and output side, holds on this instance (twelve entries,
    at least five blocks, two index levels), so the bytes the regenerated writer returns are read back by the
    regenerated reader. -/
theorem full_roundtrip_instance :
    ∃ file,
      (do let (w, _) ← Gen.WriterBuilder.build wbS []
          genWriterRun (codecFn Codec.none) w exEs : M Sink) = .ok file ∧
      frt_ReadsBack Codec.none exEs 2 file := by
  obtain ⟨file, log, h1, h2, h3⟩ :=
    src_C01_full_roundtrip_none wbS exEs (by decide)
      (by intro iv h; simp only [wbS, Option.some.injEq] at h; subst h; decide)
      exEs_asc exEs_lens (by decide) rfl
  have hs := sizesOK_true
  simp only [sizesOK, h2, Bool.and_eq_true, decide_eq_true_eq, List.all_eq_true] at hs
  exact ⟨file, h1, h3 hs.1.1 hs.1.2⟩

/-- **The total theorem applied** to the same instance: the regenerated writer returns `file`, the regenerated
    reader opens it, and every call on the regenerated cursor returns the specified result. -/
theorem full_roundtrip_total_instance :
    ∃ file,
      (do let (w, _) ← Gen.WriterBuilder.build wbS []
          genWriterRun (codecFn Codec.none) w exEs : M Sink) = .ok file ∧
      frt_ReadsBackTotal Codec.none exEs 2 file := by
  obtain ⟨file, log, h1, h2, h3⟩ :=
    src_C01_full_roundtrip_total_none wbS exEs (by decide)
      (by intro iv h; simp only [wbS, Option.some.injEq] at h; subst h; decide)
      exEs_asc exEs_lens (by decide) rfl
  have hs := sizesOK_true
  simp only [sizesOK, h2, Bool.and_eq_true, decide_eq_true_eq, List.all_eq_true] at hs
  exact ⟨file, h1, h3 hs.1.1 hs.1.2⟩

/-- **C04/C05 applied** to the same instance. -/
theorem iters_instance :
    ∃ file,
      (do let (w, _) ← Gen.WriterBuilder.build wbS []
          genWriterRun (codecFn Codec.none) w exEs : M Sink) = .ok file ∧
      frt_ItersBack Codec.none exEs file := by
  obtain ⟨file, log, h1, h2, h3⟩ :=
    src_C04_C05_full_roundtrip_none wbS exEs (by decide)
      (by intro iv h; simp only [wbS, Option.some.injEq] at h; subst h; decide)
      exEs_asc exEs_lens (by decide) rfl
  have hs := sizesOK_true
  simp only [sizesOK, h2, Bool.and_eq_true, decide_eq_true_eq, List.all_eq_true] at hs
  exact ⟨file, h1, h3 hs.1.1 hs.1.2⟩

/-- the former codec hypothesis was false already for `Codec.none` -/
example : ¬ ∀ b : Bytes, (Codec.none.compress b).length < 2 ^ 64 := by
  intro h
  have hlen : ∀ n : Nat, (Codec.none.compress (List.replicate n (0 : UInt8))).length = n :=
    fun n => List.length_replicate
  generalize hn : (2 : Nat) ^ 64 = n at h
  have := h (List.replicate n 0)
  rw [hlen] at this
  omega

end FrtSmoke

end Grenad.SrcTie

section Audit
open Grenad.SrcTie
#print axioms frt_setting
#print axioms frt_reads_of_setting
#print axioms src_C01_full_roundtrip
#print axioms src_C01_full_roundtrip_none
#print axioms FrtSmoke.builder_hyps_sat
#print axioms FrtSmoke.full_roundtrip_instance
#print axioms frt_reads_total_of_setting
#print axioms src_C01_full_roundtrip_total
#print axioms src_C01_full_roundtrip_total_none
#print axioms FrtSmoke.full_roundtrip_total_instance
#print axioms src_C04_C05_full_roundtrip
#print axioms src_C04_C05_full_roundtrip_none
#print axioms FrtSmoke.iters_instance
end Audit
