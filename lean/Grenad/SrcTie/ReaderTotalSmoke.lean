/-
  Grenad.SrcTie.ReaderTotalSmoke — non-vacuity of the total-correctness theorems of ReaderTotal.lean: all their
  hypotheses hold on the concrete written file `Props.C01.exFile` (twelve entries, `Codec.none`, two index levels,
  `Props.C01.exSetting`), for EVERY history — no evaluation of the history is needed any more.
-/
import Grenad.SrcTie.ReaderTotal
import Grenad.SrcTie.ReaderE2ESmoke

namespace Grenad.SrcTie.RTSmoke
open Grenad Grenad.R Grenad.Gen Grenad.SrcTie Grenad.Props.C01 Grenad.Assembly Grenad.SrcTie.E2ESmoke

/-- every history on the regenerated code over `exFile` returns and agrees with the specification -/
example (hist : List Op) :
    ∃ rdr s0 rs s', Gen.Reader.new { bytes := exFile, pos := 0 } = .ok rdr ∧
      Gen.Reader.into_cursor rdr = .ok s0 ∧ genRcRun Codec.none s0 hist = .ok (rs, s') ∧
      rs.length = hist.length ∧
      (∀ x ∈ (rs.map Res.ok).zip (e2eSpecRun exEs .fresh hist), Spec.Agree x.1 x.2) ∧
      rdr.metadata.entries_count = exEs.length :=
  src_C03_history_open_total exSetting small 0 hist

/-- the hypotheses of `src_reader_total` / `src_C03_history_total` are satisfiable: the cursor `Reader::new` +
    `into_cursor` give on `exFile` -/
example (hist : List Op) : ∃ (m : Meta.Meta) (s0 : Gen.ReaderCursor), Meta.parse exFile = .ok m ∧
    GoodRC (fun _ => True) exFile s0 ∧ toRCfull s0 [] = RC.new m ∧
    ∃ rs s', genRcRun Codec.none s0 hist = .ok (rs, s') ∧ rs.length = hist.length ∧
      ∀ x ∈ (rs.map Res.ok).zip (e2eSpecRun exEs .fresh hist), Spec.Agree x.1 x.2 := by
  obtain ⟨rdr, s0, hopen, hcur, -⟩ := e2e_open_ok exSetting 0
  obtain ⟨hparse, -⟩ := e2e_reader_new exFile 0 rdr hopen
  obtain ⟨hg, h0, -⟩ := e2e_open_cursor exFile 0 _ hparse (e2e_setting_levels_le exSetting hparse) rdr s0 hopen hcur
  exact ⟨_, s0, hparse, hg, h0, src_C03_history_total exSetting hparse small s0 hg h0 hist⟩

end Grenad.SrcTie.RTSmoke
