/-
  Grenad.SrcTie.WriterCut — part 2: the level loop of `Writer::insert`
  (`while let Some((last, head)) = slice.split_last_mut()` over `index_block_writers[1..]`, translated as a
  reverse index loop) is the model's `W.cutLevels`.  `cutStep` is the emitted loop body, named; that the
  generated `Writer::insert` is built from it is checked by `rfl` (`insert_eq`), so any change of the source
  that changes the body breaks the tie.
-/
import Grenad.SrcTie.WriterLemmas

set_option linter.unusedSimpArgs false
set_option linter.unusedVariables false

namespace Grenad.SrcTie
open Grenad Grenad.R Grenad.Gen

/-- one iteration of the level loop of `Writer::insert`, as emitted (index `j` of `index_block_writers`) -/
def cutStep (compress : CompressFn) (j_8 : Nat) (self_ : Gen.Writer) : M (ForInStep Gen.Writer) := do
  let mut self_ := self_
  if (decide (self_.block_size ≤ (← Grenad.Gen.BlockWriter.current_size_estimate (self_.index_block_writers[j_8]!)))) then
    match (← Grenad.Gen.BlockWriter.last_key_fn (self_.index_block_writers[j_8]!)) with
    | Option.some last_key =>
      if decide (1 < j_8) then
        let offset : Nat := self_.writer.length
        let m_10 ← Grenad.Gen.BlockWriter.insert (self_.index_block_writers[j_8 - 1]!) last_key (beBytes 8 offset)
        self_ := { self_ with index_block_writers := (self_.index_block_writers.set (j_8 - 1) m_10) }
        let (m_12, m_13) ← Grenad.Gen.compress_and_write_block compress self_.writer (self_.index_block_writers[j_8]!) self_.compression_type self_.compression_level
        self_ := { self_ with writer := m_12 }
        self_ := { self_ with index_block_writers := (self_.index_block_writers.set j_8 m_13) }
    | _ =>
      pure ()
  pure (ForInStep.yield self_)

/-- what the level loops leave alone -/
def sameCfg (g g' : Gen.Writer) : Prop :=
  g'.block_writer = g.block_writer ∧ g'.compression_type = g.compression_type ∧
  g'.compression_level = g.compression_level ∧ g'.block_size = g.block_size ∧ g'.entries_count = g.entries_count

theorem sameCfg.refl (g : Gen.Writer) : sameCfg g g := ⟨rfl, rfl, rfl, rfl, rfl⟩
theorem sameCfg.trans {a b c : Gen.Writer} (h1 : sameCfg a b) (h2 : sameCfg b c) : sameCfg a c := by
  obtain ⟨a1, a2, a3, a4, a5⟩ := h1
  obtain ⟨b1, b2, b3, b4, b5⟩ := h2
  exact ⟨b1.trans a1, b2.trans a2, b3.trans a3, b4.trans a4, b5.trans a5⟩

theorem range_rev_succ (i : Nat) : (List.range' 1 (i + 1)).reverse = (i + 1) :: (List.range' 1 i).reverse := by
  rw [List.range'_concat]; simp; omega

theorem beBytes8_eq : beBytes 8 = be64 := by funext v; simp [be64, beBytes_eq_beN]

/-- the step at index 1 does nothing (its parent is the root, outside the slice) -/
theorem cutStep_one (C : CompressFn) (g : Gen.Writer) (bw : BW) (hm : mBW g.index_block_writers[1]! bw)
    (hs : Small (2 ^ 62) (2 ^ 31) g.index_block_writers[1]!) :
    cutStep C 1 g = .ok (ForInStep.yield g) := by
  unfold cutStep
  simp only [bind, Except.bind, bw_size_sim _ bw hm hs, bw_last_key_sim _ bw hm, pure, Except.pure]
  by_cases h : g.block_size ≤ bw.sizeEstimate
  · simp only [h, decide_true, if_true]
    cases bw.lastKey <;> simp
  · simp [h]


/-- the step at an index `i + 1 ≥ 2`: the model's one unrolling of `cutLevels` -/
theorem cutStep_sim (cd : Codec) (hcd : ∀ b : Bytes, b.length < 2 ^ 63 → (cd.compress b).length < 2 ^ 64) (g : Gen.Writer) (i : Nat)
    (hi : 1 ≤ i) (cur parent : BW) (hlen : i + 1 < g.index_block_writers.length)
    (hcur : mBW g.index_block_writers[i + 1]! cur) (hpar : mBW g.index_block_writers[i]! parent)
    (hsc : Small (2 ^ 62) (2 ^ 31) g.index_block_writers[i + 1]!)
    (hsp : Small (2 ^ 61) (2 ^ 30) g.index_block_writers[i]!) :
    if cur.sizeEstimate ≥ g.block_size then
      match cur.lastKey with
      | some lk =>
        match parent.insert lk (be64 g.writer.length) with
        | .error _ => ∃ msg, cutStep (codecFn cd) (i + 1) g = .error (.panic msg)
        | .ok parent' => ∃ x' x'', cutStep (codecFn cd) (i + 1) g =
              .ok (ForInStep.yield { g with writer := g.writer ++ W.blockBytes cd cur.finish,
                                            index_block_writers := (g.index_block_writers.set i x').set (i + 1) x'' })
            ∧ mBW x' parent' ∧ Small (2 ^ 62) (2 ^ 31) x' ∧ mBW x'' cur.reset ∧ Small (2 ^ 61) (2 ^ 30) x''
      | none => cutStep (codecFn cd) (i + 1) g = .ok (ForInStep.yield g)
    else cutStep (codecFn cd) (i + 1) g = .ok (ForInStep.yield g) := by
  unfold cutStep
  have h1i : 1 < i + 1 := by omega
  simp only [bind, Except.bind, bw_size_sim _ cur hcur hsc, bw_last_key_sim _ cur hcur, pure, Except.pure,
    Nat.add_sub_cancel, h1i, decide_true, if_true]
  by_cases h : g.block_size ≤ cur.sizeEstimate
  · have h' : cur.sizeEstimate ≥ g.block_size := h
    simp only [h, h', decide_true, if_true]
    cases hlk : cur.lastKey with
    | none => simp
    | some lk =>
      simp only []
      have hins := bw_insert_sim _ parent lk (be64 g.writer.length) hpar hsp
      cases hp : parent.insert lk (be64 g.writer.length) with
      | error t =>
        rw [hp] at hins
        obtain ⟨msg, hmsg⟩ := hins
        exact ⟨msg, by simp only [beBytes8_eq, hmsg]⟩
      | ok parent' =>
        rw [hp] at hins
        obtain ⟨x', hx1, hx2, hx3⟩ := hins
        have hne : i ≠ i + 1 := by omega
        have hget : (g.index_block_writers.set i x')[i + 1]! = g.index_block_writers[i + 1]! :=
          get!_set_ne _ _ _ _ hne
        obtain ⟨x'', he1, he2, he3⟩ := bw_emit_sim cd hcd g.writer g.index_block_writers[i + 1]! cur
          g.compression_type g.compression_level hcur hsc
        refine ⟨x', x'', ?_, hx2, hx3, he2, he3⟩
        simp only [beBytes8_eq, hx1, hget, he1]
  · have h' : ¬ cur.sizeEstimate ≥ g.block_size := h
    simp [h, h']


/-- **The level loop of `Writer::insert` is the model's `cutLevels`.** -/
theorem cut_loop (cd : Codec) (hcd : ∀ b : Bytes, b.length < 2 ^ 63 → (cd.compress b).length < 2 ^ 64) :
    ∀ (m : Nat) (g : Gen.Writer) (idx : List BW) (log : List Emitted),
    mIdx g.index_block_writers idx → m < idx.length →
    (∀ t, t < m → Small (2 ^ 61) (2 ^ 30) g.index_block_writers[t]!) →
    Small (2 ^ 62) (2 ^ 31) g.index_block_writers[m]! →
    match W.cutLevels cd g.block_size m idx g.writer log with
    | .ok (idx', out', _) => ∃ g', forIn (List.range' 1 m).reverse g (cutStep (codecFn cd)) = .ok g' ∧
        mIdx g'.index_block_writers idx' ∧ g'.writer = out' ∧ sameCfg g g'
    | .error _ => ∃ msg, forIn (List.range' 1 m).reverse g (cutStep (codecFn cd)) = .error (.panic msg) := by
  intro m
  induction m with
  | zero =>
    intro g idx log hm hlt _ _
    simp only [W.cutLevels]
    exact ⟨g, rfl, hm, rfl, sameCfg.refl g⟩
  | succ i ih =>
    intro g idx log hm hlt hs0 hs1
    have hlen : i + 1 < g.index_block_writers.length := by rw [hm.1]; exact hlt
    rw [range_rev_succ, List.forIn_cons]
    by_cases hi0 : i = 0
    · subst hi0
      obtain ⟨b1, _, hb1⟩ := hm.get hlt
      simp only [W.cutLevels, Nat.zero_add, Nat.lt_irrefl, if_true, show (1 : Nat) < 2 by omega]
      rw [cutStep_one _ g b1 hb1 hs1]
      exact ⟨g, rfl, hm, rfl, sameCfg.refl g⟩
    · have hi1 : 1 ≤ i := by omega
      have hnot : ¬ (i + 1 < 2) := by omega
      obtain ⟨cur, hc1, hc2⟩ := hm.get hlt
      obtain ⟨parent, hp1, hp2⟩ := hm.get (show i < idx.length by omega)
      have hstep := cutStep_sim cd hcd g i hi1 cur parent hlen hc2 hp2 hs1 (hs0 i (by omega))
      have hs0' : ∀ t, t < i → Small (2 ^ 61) (2 ^ 30) g.index_block_writers[t]! := fun t ht => hs0 t (by omega)
      have hkeep := ih g idx log hm (by omega) hs0' ((hs0 i (by omega)).mono (by omega) (by omega))
      simp only [W.cutLevels, hnot, if_false, hc1, hp1]
      by_cases hsz : cur.sizeEstimate ≥ g.block_size
      · simp only [hsz, if_true] at hstep ⊢
        cases hlk : cur.lastKey with
        | none =>
          simp only [hlk] at hstep ⊢
          rw [hstep]
          exact hkeep
        | some lk =>
          simp only [hlk] at hstep ⊢
          cases hins : parent.insert lk (be64 g.writer.length) with
          | error t =>
            simp only [hins] at hstep ⊢
            obtain ⟨msg, hmsg⟩ := hstep
            exact ⟨msg, by rw [hmsg]; rfl⟩
          | ok parent' =>
            simp only [hins] at hstep ⊢
            obtain ⟨x', x'', hrun, hx1, hx2, hy1, hy2⟩ := hstep
            rw [hrun]
            let g2 : Gen.Writer := { g with writer := g.writer ++ W.blockBytes cd cur.finish,
                                            index_block_writers := (g.index_block_writers.set i x').set (i + 1) x'' }
            have hm2 : mIdx g2.index_block_writers ((idx.set i parent').set (i + 1) cur.reset) :=
              (hm.set i hx1).set (i + 1) hy1
            have hne : ∀ t, t < i → i ≠ t ∧ i + 1 ≠ t := fun t ht => ⟨by omega, by omega⟩
            have hs02 : ∀ t, t < i → Small (2 ^ 61) (2 ^ 30) g2.index_block_writers[t]! := by
              intro t ht
              show Small _ _ ((g.index_block_writers.set i x').set (i + 1) x'')[t]!
              rw [get!_set_ne _ _ _ _ (hne t ht).2, get!_set_ne _ _ _ _ (hne t ht).1]
              exact hs0' t ht
            have hs12 : Small (2 ^ 62) (2 ^ 31) g2.index_block_writers[i]! := by
              show Small _ _ ((g.index_block_writers.set i x').set (i + 1) x'')[i]!
              rw [get!_set_ne _ _ _ _ (show i + 1 ≠ i by omega), get!_set_eq _ _ _ (by omega)]
              exact hx2
            have hrec := ih g2 ((idx.set i parent').set (i + 1) cur.reset)
              (log ++ [{ offset := g.writer.length, level := idx.length - (i + 1), raw := cur.finish, items := cur.items }])
              hm2 (by simp; omega) hs02 hs12
            show match W.cutLevels cd g.block_size i ((idx.set i parent').set (i + 1) cur.reset)
                (g.writer ++ W.blockBytes cd cur.finish) _ with
              | .ok (idx', out', _) => ∃ g', forIn (List.range' 1 i).reverse g2 (cutStep (codecFn cd)) = .ok g' ∧
                  mIdx g'.index_block_writers idx' ∧ g'.writer = out' ∧ sameCfg g g'
              | .error _ => ∃ msg, forIn (List.range' 1 i).reverse g2 (cutStep (codecFn cd)) = .error (.panic msg)
            have hbs : g2.block_size = g.block_size := rfl
            have hw : g2.writer = g.writer ++ W.blockBytes cd cur.finish := rfl
            rw [hbs, hw] at hrec
            cases hcl : W.cutLevels cd g.block_size i ((idx.set i parent').set (i + 1) cur.reset)
                (g.writer ++ W.blockBytes cd cur.finish)
                (log ++ [{ offset := g.writer.length, level := idx.length - (i + 1), raw := cur.finish, items := cur.items }]) with
            | error t => rw [hcl] at hrec; exact hrec
            | ok r =>
              rw [hcl] at hrec
              obtain ⟨idx', out', log'⟩ := r
              obtain ⟨g', h1, h2, h3, h4⟩ := hrec
              exact ⟨g', h1, h2, h3, sameCfg.trans ⟨rfl, rfl, rfl, rfl, rfl⟩ h4⟩
      · simp only [hsz, if_false] at hstep ⊢
        rw [hstep]
        exact hkeep

end Grenad.SrcTie
