/-
  Grenad.SrcTie.MergerIterRun — translator tie for the k-way merger of src/merger.rs, part 4:
  draining the translated iterator (`genCollect`, `genMergerRun`) against `Merger.run` (`src_merger_run`),
  and C06 on the regenerated code (`src_C06_run`, `src_C06_merge`).
-/
import Grenad.SrcTie.MergerIterStep
import Grenad.Props.C06

set_option linter.unusedSimpArgs false
set_option linter.unusedVariables false

namespace Grenad.SrcTie
open Grenad Grenad.R Grenad.Gen Grenad.Wave3

/-! ### Every successful `next` consumes an entry -/

/-- entries the heap's sources still have to yield -/
def heapLen (h : List MSrc) : Nat := (h.map (fun s => s.rest.length)).sum

theorem heapLen_perm {h h' : List MSrc} (hp : h.Perm h') : heapLen h = heapLen h' :=
  (hp.map _).sum_nat

theorem heapLen_append (h h' : List MSrc) : heapLen (h ++ h') = heapLen h + heapLen h' := by
  simp [heapLen, List.sum_append]

theorem heapLen_cons (s : MSrc) (h : List MSrc) : heapLen (s :: h) = s.rest.length + heapLen h := by
  simp [heapLen]

theorem adv_len (s : MSrc) : heapLen (adv s).toList ≤ s.rest.length ∧
    (s.rest ≠ [] → heapLen (adv s).toList < s.rest.length) := by
  obtain ⟨i, r⟩ := s
  match r with
  | [] => simp [adv, heapLen]
  | [_] => simp [adv, heapLen]
  | _ :: _ :: _ => simp [adv, heapLen]

theorem heapLen_filterMap_adv (F : List MSrc) : heapLen (F.filterMap adv) ≤ heapLen F := by
  induction F with
  | nil => simp
  | cons s F ih =>
    have h1 := (adv_len s).1
    rw [heapLen_cons]
    cases h : adv s with
    | none => simp only [List.filterMap_cons, h]; omega
    | some s' =>
      rw [h] at h1
      simp only [Option.toList_some, heapLen, List.map_cons, List.map_nil, List.sum_cons, List.sum_nil] at h1
      simp only [List.filterMap_cons, h, heapLen_cons]
      omega

/-- A `next` that yields an entry leaves strictly fewer entries to yield. -/
theorem next_heapLen (mf : MergeFn) (m m' : Merger) (e : Entry) (hne : IdxNe m.heap)
    (hlive : ∀ s ∈ m.heap, s.rest ≠ []) (hn : Merger.next mf m = (m', .ok (some e))) :
    heapLen m'.heap < heapLen m.heap := by
  cases hpop : heapPop m.heap with
  | none => simp [Merger.next, hpop] at hn
  | some p =>
    obtain ⟨first, h1⟩ := p
    obtain ⟨S, h2, hps, hF, -, hh2, hmem, -⟩ := heap_round hne hpop
    have hfun : (fun x : MSrc => decide (x.key ≠ first.key)) =
        (fun x => !decide (x.key = first.key)) := by funext x; simp
    have hall : ((first :: S) ++ h2).Perm m.heap := by
      rw [hfun] at hh2
      exact (hF.append hh2).trans (List.filter_append_perm _ _)
    simp only [Merger.next, hpop, hps] at hn
    cases hmf : mf first.key (first.val :: List.map MSrc.val S) with
    | none => rw [hmf] at hn; simp at hn
    | some v =>
      rw [hmf] at hn
      simp only [Prod.mk.injEq] at hn
      obtain ⟨rfl, -⟩ := hn
      simp only
      rw [heapLen_perm (foldl_advance_perm (first :: S) h2), ← heapLen_perm hall, heapLen_append,
        heapLen_append, heapLen_cons]
      have h3 := heapLen_filterMap_adv S
      have h4 := (adv_len first).2 (hlive first hmem)
      cases h : adv first with
      | none => simp only [List.filterMap_cons, h]; omega
      | some s' =>
        rw [h] at h4
        simp only [Option.toList_some, heapLen, List.map_cons, List.map_nil, List.sum_cons, List.sum_nil] at h4
        simp only [List.filterMap_cons, h, heapLen_cons]
        omega

theorem heapLen_start_go (srcs : List (List Entry)) : ∀ n : Nat,
    heapLen (Merger.start.go n srcs) = Merger.totalLen srcs := by
  induction srcs with
  | nil => intro n; simp [heapLen, Merger.totalLen]
  | cons s srcs ih =>
    intro n
    cases s with
    | nil => simp only [tag_cons_nil, ih]; simp [Merger.totalLen]
    | cons e r =>
      simp only [tag_cons_cons, heapLen_cons, ih]
      simp [Merger.totalLen]

/-! ### Draining the translated iterator -/

/-- Call the translated `MergerIter::next` until it returns `None`, collecting what it yields; an `Err`
    is passed on; running out of fuel is a panic (so that `.ok` means: drained). -/
def genCollect (merge : List UInt8 → List (List UInt8) → Except Unit Cow) :
    Nat → Gen.MergerIter LCur → List Entry → M (List Entry)
  | 0, _, _ => .error (Fail.panic "genCollect: fuel exhausted")
  | fuel + 1, it, acc =>
    match Gen.MergerIter.next lstep merge it with
    | .ok (none, _) => .ok acc.reverse
    | .ok (some e, it') => genCollect merge fuel it' (e :: acc)
    | .error f => .error f

/-- The translated merger over the sources `srcs` (fresh list cursors): `into_stream_merger_iter`, then
    `next` until `None`. -/
def genMergerRun (merge : List UInt8 → List (List UInt8) → Except Unit Cow) (srcs : List (List Entry)) :
    M (List Entry) :=
  match Gen.Merger.into_stream_merger_iter lstep
      { sources := srcs.map (fun l => ({ fresh := true, rest := l } : LCur)) } with
  | .ok it => genCollect merge (Merger.totalLen srcs + 1) it []
  | .error f => .error f

/-- what the model's outcome is in the translated code's terms -/
def mergeOutcome : Option (List Entry) → M (List Entry)
  | some out => .ok out
  | none => .error (Fail.err RErr.merge)

theorem collect_sim (mf : MergeFn) (merge : List UInt8 → List (List UInt8) → Except Unit Cow)
    (hm : ∀ k vs, (merge k vs).toOption.map cowBytes = mf k vs) :
    ∀ (fuel : Nat) (it : Gen.MergerIter LCur) (m : Merger) (acc : List Entry),
      AllLive it.heap → (it.heap.map absE).Perm m.heap → IdxNe m.heap → heapLen m.heap < fuel →
      genCollect merge fuel it acc = mergeOutcome (Merger.collect mf fuel m acc).1 := by
  intro fuel
  induction fuel with
  | zero => intro it m acc _ _ _ h; omega
  | succ fuel ih =>
    intro it m acc hl hp hne hfuel
    have hsim := next_sim mf merge hm it m hl hp (keyIdxNe_of_idxNe hne)
    have hne' := next_idxNe mf m hne
    have hlive : ∀ s ∈ m.heap, s.rest ≠ [] := by
      intro s hs
      obtain ⟨e, he, rfl⟩ := List.mem_map.mp (hp.symm.subset hs)
      exact (hl e he).2
    simp only [genCollect, Merger.collect]
    cases hn : Merger.next mf m with
    | mk m' res =>
      rw [hn] at hsim hne'
      match res, hsim, hn with
      | .ok none, hsim, hn =>
        obtain ⟨it', h1, -⟩ := hsim
        rw [h1]
        rfl
      | .ok (some e), hsim, hn =>
        obtain ⟨it', h1, h2, h3, -⟩ := hsim
        rw [h1]
        have := next_heapLen mf m m' e hne hlive hn
        exact ih it' m' (e :: acc) h2 h3 hne' (by omega)
      | .mergeErr, hsim, hn =>
        rw [hsim]
        rfl

/-- **src_merger_run.**  The translated merger, started by `into_stream_merger_iter` on fresh list
    cursors over `srcs` and drained by calling `next` until `None` with fuel `totalLen srcs + 1`:
    it returns `Ok(out)` exactly when the model run returns `some out`, and `Err(Error::Merge(_))`
    when the model run fails in the merge function; it never panics (neither the loop fuel inside
    `next` nor the driver's fuel runs out).  Any sources, any merge function. -/
theorem src_merger_run (mf : MergeFn) (merge : List UInt8 → List (List UInt8) → Except Unit Cow)
    (hm : ∀ k vs, (merge k vs).toOption.map cowBytes = mf k vs) (srcs : List (List Entry)) :
    genMergerRun merge srcs = mergeOutcome (Merger.run mf srcs).1 := by
  obtain ⟨it, h1, h2, -, -, -, h6⟩ := src_merger_start srcs
  unfold genMergerRun Merger.run
  rw [h1]
  simp only
  refine collect_sim mf merge hm _ it (Merger.start srcs) [] h6 (by rw [h2]) (start_idxNe srcs) ?_
  rw [start_heap, heapLen_start_go]
  omega

/-- the two outcomes spelled out -/
theorem src_merger_run' (mf : MergeFn) (merge : List UInt8 → List (List UInt8) → Except Unit Cow)
    (hm : ∀ k vs, (merge k vs).toOption.map cowBytes = mf k vs) (srcs : List (List Entry)) :
    (∀ out, (Merger.run mf srcs).1 = some out → genMergerRun merge srcs = .ok out) ∧
    ((Merger.run mf srcs).1 = none → genMergerRun merge srcs = .error (Fail.err RErr.merge)) := by
  rw [src_merger_run mf merge hm srcs]
  constructor
  · intro out h; rw [h]; rfl
  · intro h; rw [h]; rfl

/-! ### C06 on the regenerated code -/

/-- **src_C06_run.**  Strictly ascending sources, any merge function: the translated merger returns
    `mergeAll` over the groups of the concatenated sources — the merge function applied to each key's
    values in source order, `Err(Error::Merge(_))` as soon as one call fails. -/
theorem src_C06_run (mf : MergeFn) (merge : List UInt8 → List (List UInt8) → Except Unit Cow)
    (hm : ∀ k vs, (merge k vs).toOption.map cowBytes = mf k vs) (sources : List (List Entry))
    (hasc : ∀ s ∈ sources, StrictAsc s) :
    genMergerRun merge sources = mergeOutcome (mergeAll mf (Spec.group sources.flatten)) := by
  rw [src_merger_run mf merge hm sources, (Grenad.Props.C06.C06_run mf sources hasc).1]

/-- **src_C06_merge.**  Strictly ascending sources and a merge function that never fails
    (`merge k vs = Ok(cow)` with `cow`'s bytes `mf' k vs`): the translated merger yields exactly the
    grouped union `Spec.mergeSpec mf' sources` — one entry per distinct key, ascending, its value the
    result of ONE call of the merge function on that key's values in source order. -/
theorem src_C06_merge (mf' : Bytes → List Bytes → Bytes)
    (merge : List UInt8 → List (List UInt8) → Except Unit Cow)
    (hm : ∀ k vs, (merge k vs).toOption.map cowBytes = some (mf' k vs))
    (sources : List (List Entry)) (hasc : ∀ s ∈ sources, StrictAsc s) :
    genMergerRun merge sources = .ok (Spec.mergeSpec mf' sources) := by
  rw [src_merger_run (Grenad.Props.C06.total mf') merge hm sources,
    Grenad.Props.C06.C06_merge mf' sources hasc]
  rfl

/-! ### Concrete instances -/

/-- concatenating merge function, answering `Cow::Owned` for several values and `Cow::Borrowed` for one -/
def exMerge : List UInt8 → List (List UInt8) → Except Unit Cow
  | _, [v] => .ok (.borrowed v)
  | _, vs => .ok (.owned vs.flatten)

/-- fails on key `[3]` -/
def exMergeFail : List UInt8 → List (List UInt8) → Except Unit Cow
  | k, vs => if k = [3] then .error () else .ok (.owned vs.flatten)

theorem exMerge_spec : ∀ k vs, (exMerge k vs).toOption.map cowBytes = some (Grenad.Props.C06.exConcat k vs) := by
  intro k vs
  match vs with
  | [] => rfl
  | [v] => simp [exMerge, Except.toOption, cowBytes, Grenad.Props.C06.exConcat]
  | _ :: _ :: _ => rfl

/-- three sources sharing keys (and an empty one), evaluated: `[1]` is in sources 0 and 2, `[3]` in 0 and 3 -/
example : genMergerRun exMerge Grenad.Props.C06.exSources =
    .ok [([1], [10, 11]), ([2], [20]), ([3], [30, 31]), ([4, 0], [40])] := by rfl

/-- the same through the theorem -/
example : genMergerRun exMerge Grenad.Props.C06.exSources =
    .ok [([1], [10, 11]), ([2], [20]), ([3], [30, 31]), ([4, 0], [40])] := by
  rw [src_C06_merge Grenad.Props.C06.exConcat exMerge exMerge_spec _ Grenad.Props.C06.exAsc]
  rfl

/-- a failing merge function: `Err(Error::Merge(_))` -/
example : genMergerRun exMergeFail Grenad.Props.C06.exSources = .error (Fail.err RErr.merge) := by rfl

/-- one step on a two-entry heap sharing the key `[1]` (source 2 listed first): both values are handed
    to the merge function in source order, both cursors advance, the exhausted one is dropped -/
example :
    (Gen.MergerIter.next lstep exMerge
      { heap := [⟨⟨false, [([1], [11]), ([2], [20])]⟩, 2⟩, ⟨⟨false, [([1], [10])]⟩, 0⟩],
        current_key := [9], merged_value := [9], tmp_entries := [] }).toOption.map
      (fun r => (r.1, r.2.heap.map absE, r.2.current_key, r.2.merged_value)) =
    some (some ([1], [10, 11]), [⟨2, [([2], [20])]⟩], [1], [10, 11]) := by decide

/-- the hypotheses of `src_merger_next` on that instance (the model heap lists source 0 first) -/
example : ∃ it',
    Gen.MergerIter.next lstep exMerge
      { heap := [⟨⟨false, [([1], [11]), ([2], [20])]⟩, 2⟩, ⟨⟨false, [([1], [10])]⟩, 0⟩],
        current_key := [9], merged_value := [9], tmp_entries := [] } =
      .ok (some ([1], [10, 11]), it') ∧
    AllLive it'.heap ∧ (it'.heap.map absE).Perm [⟨2, [([2], [20])]⟩] ∧
    it'.current_key = [1] ∧ it'.merged_value = [10, 11] := by
  obtain ⟨it', h1, h2, h3, -, -, h6⟩ :=
    (src_merger_next (Grenad.Props.C06.total Grenad.Props.C06.exConcat) exMerge exMerge_spec
      { heap := [⟨⟨false, [([1], [11]), ([2], [20])]⟩, 2⟩, ⟨⟨false, [([1], [10])]⟩, 0⟩],
        current_key := [9], merged_value := [9], tmp_entries := [] }
      ⟨[⟨0, [([1], [10])]⟩, ⟨2, [([1], [11]), ([2], [20])]⟩], []⟩
      (by simp [AllLive, Live]) (by decide) (by decide)).1 _ _ rfl
  exact ⟨it', h1, h2, h3, (h6 _ _ rfl).1, (h6 _ _ rfl).2.1⟩

/-- the error branch of `src_merger_next` on an instance -/
example :
    Gen.MergerIter.next lstep exMergeFail
      { heap := [⟨⟨false, [([3], [31])]⟩, 3⟩, ⟨⟨false, [([3], [30])]⟩, 0⟩],
        current_key := [], merged_value := [], tmp_entries := [] } =
      .error (Fail.err RErr.merge) :=
  (src_merger_next Grenad.Props.C06.exFail exMergeFail
      (by intro k vs; simp only [exMergeFail, Grenad.Props.C06.exFail]; split <;> rfl)
      { heap := [⟨⟨false, [([3], [31])]⟩, 3⟩, ⟨⟨false, [([3], [30])]⟩, 0⟩],
        current_key := [], merged_value := [], tmp_entries := [] }
      ⟨[⟨0, [([3], [30])]⟩, ⟨3, [([3], [31])]⟩], []⟩
      (by simp [AllLive, Live]) (by decide) (by decide)).2 _ rfl

end Grenad.SrcTie

section Axioms
open Grenad.SrcTie
#print axioms src_merger_start
#print axioms src_merger_next
#print axioms src_merger_run
#print axioms src_merger_run'
#print axioms src_C06_run
#print axioms src_C06_merge
end Axioms
