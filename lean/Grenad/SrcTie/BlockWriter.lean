/-
  Grenad.SrcTie.BlockWriter — translator tie for src/block_writer.rs
  (`BlockWriter::{reset, current_size_estimate, insert, finish}`), regenerated from /repo/src on every run.
  The model's `BW` carries one ghost field (`items`) that the Rust struct does not have.
-/
import Grenad.Generated.Src.SrcBlockWriter
import Grenad.Model.Block
import Grenad.SrcTie.Varint

set_option linter.unusedSimpArgs false
set_option linter.unusedVariables false

namespace Grenad.SrcTie
open Grenad Grenad.R Grenad.Gen

/-- the translated struct as the model's block writer (with the ghost item list supplied) -/
def toBW (w : Gen.BlockWriter) (items : List Entry) : BW :=
  { buffer := w.buffer, lastKey := w.last_key, interval := w.index_key_interval,
    offsets := w.index_offsets, counter := w.index_key_counter, items := items }

theorem src_bw_reset (w : Gen.BlockWriter) (items : List Entry) :
    ∃ w', BlockWriter.reset w = .ok w' ∧ toBW w' [] = (toBW w items).reset := by
  refine ⟨_, rfl, ?_⟩
  simp [toBW, BW.reset]

theorem src_bw_size_estimate (w : Gen.BlockWriter) (items : List Entry)
    (h : w.buffer.length + w.index_offsets.length * 8 + 4 < 2 ^ 64) :
    BlockWriter.current_size_estimate w = .ok (toBW w items).sizeEstimate := by
  have h1 : w.index_offsets.length * 8 < 2 ^ 64 := by omega
  have h2 : w.buffer.length + w.index_offsets.length * 8 < 2 ^ 64 := by omega
  simp [BlockWriter.current_size_estimate, toBW, BW.sizeEstimate, bind, Except.bind, pure, Except.pure, add, mul, h, h1, h2]

theorem beBytes_eq_beN (n v : Nat) : beBytes n v = beN n v := by
  simp [beBytes, beN, leBytes_eq]
where leBytes_eq : ∀ n v, leBytes n v = leN n v
  | 0, _ => rfl
  | n + 1, v => by simp [leBytes, leN, leBytes_eq n]

theorem src_bw_finish (w : Gen.BlockWriter) (items : List Entry) (h : w.index_offsets.length < 2 ^ 32) :
    (BlockWriter.finish w).map (·.buffer) = .ok (BW.finish (toBW w items)) := by
  have hb : (beBytes 8) = be64 := by funext v; simp [be64, beBytes_eq_beN]
  simp [BlockWriter.finish, bind, Except.bind, pure, Except.pure, Except.map, tryInto, h, toBW, BW.finish, hb, be32, beBytes_eq_beN]

/-- `BlockWriter::insert` is the model's `BW.insert`: same new state when the model succeeds, a panic
    exactly when the model traps (the three assertions).  Hypotheses: the debug assertion
    `counter ≤ interval` (an invariant of the writer, `WriterInv`) and a `usize` interval. -/
theorem src_bw_insert (w : Gen.BlockWriter) (items : List Entry) (k v : Bytes)
    (hc : w.index_key_counter ≤ w.index_key_interval) (hi : w.index_key_interval < 2 ^ 64) :
    match BW.insert (toBW w items) k v with
    | .ok bw' => ∃ w', BlockWriter.insert w k v = .ok w' ∧ toBW w' (items ++ [(k, v)]) = bw'
    | .error _ => ∃ msg, BlockWriter.insert w k v = .error (.panic msg) := by
  unfold BW.insert BlockWriter.insert
  simp only [toBW, u32Max]
  by_cases hk : k.length > 4294967295
  · have : ¬ k.length ≤ 4294967295 := by omega
    simp [hk, this, bind, Except.bind, assert, hc, pure, Except.pure, throw, throwThe, MonadExceptOf.throw]
  by_cases hv : v.length > 4294967295
  · have : ¬ v.length ≤ 4294967295 := by omega
    have hk' : k.length ≤ 4294967295 := by omega
    simp [hk, hv, this, hk', bind, Except.bind, assert, hc, pure, Except.pure, throw, throwThe, MonadExceptOf.throw]
  have hk' : k.length ≤ 4294967295 := by omega
  have hv' : v.length ≤ 4294967295 := by omega
  have hkc : castU 32 k.length = k.length := by simp [castU]; omega
  have hvc : castU 32 v.length = v.length := by simp [castU]; omega
  obtain ⟨buf1, he1, hl1⟩ := src_varint_encode32_full (List.replicate 10 (UInt8.ofNat 0)) k.length (by simp)
  obtain ⟨buf2, he2, hl2⟩ := src_varint_encode32_full buf1 v.length (by simp at hl1; omega)
  have hadd : ∀ c, c < w.index_key_interval → add 64 c 1 = .ok (c + 1) := by
    intro c hcc
    have : c + 1 < 2 ^ 64 := by omega
    simp [add, this, pure, Except.pure]
  have hadd0 : add 64 0 1 = .ok 1 := by simp [add, pure, Except.pure]
  simp only [hk, hv, if_false, bind, Except.bind, assert, hc, hk', hv', decide_true, if_true, pure, Except.pure, hkc, hvc]
  rw [he1]
  simp only [he2]
  by_cases hci : w.index_key_counter = w.index_key_interval
  · cases hlk : w.last_key with
    | none =>
      simp [hci, hadd0, toBW, BW.frame, List.append_assoc]
    | some lk =>
      by_cases hlt : lk < k
      · simp [hci, hadd0, toBW, BW.frame, List.append_assoc, hlt]
      · simp [hci, hlt, throw, throwThe, MonadExceptOf.throw]
  · have hlt' : w.index_key_counter < w.index_key_interval := by omega
    have ha := hadd _ hlt'
    cases hlk : w.last_key with
    | none =>
      simp [hci, ha, toBW, BW.frame, List.append_assoc]
    | some lk =>
      by_cases hlt : lk < k
      · simp [hci, ha, toBW, BW.frame, List.append_assoc, hlt]
      · simp [hci, hlt, throw, throwThe, MonadExceptOf.throw]

end Grenad.SrcTie
