/-
  Grenad.SrcTie.Smoke — non-vacuity of the translator ties: on a concrete block built by the TRANSLATED
  block writer, the TRANSLATED cursor operations return (no panic), so the hypotheses `… = .ok (r, c')` of
  the `src_bc_*` theorems are met by real executions.  Evaluation by the kernel (`decide`), nothing assumed.
-/
import Grenad.Generated.Src.SrcBlockWriter
import Grenad.Generated.Src.SrcBlockCursor

namespace Grenad.SrcTie.Smoke
open Grenad.R Grenad.Gen

def w0 : Gen.BlockWriter :=
  { buffer := [], last_key := none, index_key_interval := 2, index_offsets := [0], index_key_counter := 0 }

/-- three entries through the translated `BlockWriter::insert`, then `finish` -/
def built : M Gen.BlockWriter := do
  let w ← BlockWriter.insert w0 [1] [10]
  let w ← BlockWriter.insert w [2, 0] []
  let w ← BlockWriter.insert w [2, 1] [11, 12]
  BlockWriter.finish w

def blockOf (w : Gen.BlockWriter) : Gen.Block :=
  { compression_type := .none, buffer := w.buffer, payload_size := w.buffer.length - (4 + 8 * w.index_offsets.length),
    index_offsets := w.index_offsets }

/-- forward scan, then one step back, then two seeks, all on translated code -/
def run : M (List (Option (List UInt8 × List UInt8))) := do
  let w ← built
  let c : Gen.BlockCursor := { block := blockOf w, current_offset := none }
  let (a, c) ← BlockCursor.move_on_next c
  let (b, c) ← BlockCursor.move_on_next c
  let (d, c) ← BlockCursor.move_on_next c
  let (e, c) ← BlockCursor.move_on_next c
  let (f, c) ← BlockCursor.move_on_last c
  let (g, c) ← BlockCursor.move_on_prev c
  let (h, c) ← BlockCursor.move_on_key_lower_than_or_equal_to c [2]
  let (i, _) ← BlockCursor.move_on_key_greater_than_or_equal_to c [2]
  pure [a, b, d, e, f, g, h, i]

/-- `.ok v ↦ some v` (decidable equality on the result) -/
def okOf {α} : M α → Option α
  | .ok v => some v
  | .error _ => none

example : okOf run = some [some ([1], [10]), some ([2, 0], []), some ([2, 1], [11, 12]), none,
                     some ([2, 1], [11, 12]), some ([2, 0], []), some ([1], [10]), some ([2, 0], [])] := by
  decide +kernel

end Grenad.SrcTie.Smoke
