/-
  Grenad.SrcTie.ReaderE2ESmoke — non-vacuity of the end-to-end reader theorems (ReaderE2E.lean, ReaderE2EGen.lean).

  The file is `Props.C01.exFile`: the bytes the model writer produces for twelve entries with `Codec.none`, four data
  blocks, two bottom-level index blocks, one middle index block and the root (`Props.C01.exSetting` is the `Setting`).
  On it the REGENERATED code — `Reader::new`, `Reader::into_cursor` and fifteen public `ReaderCursor` calls crossing
  block boundaries in both directions, seeking, running off the end, resetting — returns `.ok` at every call (kernel
  evaluation, `decide +kernel`; nothing assumed), every hypothesis of `src_C03_history_open` holds, and the theorem
  delivers the agreement with the specification cursor over `Props.C01.exEs`.
-/
import Grenad.Props.C01
import Grenad.SrcTie.ReaderE2EGen

namespace Grenad.SrcTie.E2ESmoke
open Grenad Grenad.R Grenad.Gen Grenad.SrcTie Grenad.Props.C01 Grenad.Assembly

def okOf {α} : M α → Option α
  | .ok v => some v
  | .error _ => none

/-- `Reader::new(Cursor::new(exFile))?.into_cursor()?`, then a history of public calls — all on translated code -/
def run (hist : List Op) : M (List (Option (Bytes × Bytes))) :=
  Except.bind (Gen.Reader.new { bytes := exFile, pos := 0 }) fun rdr =>
  Except.bind (Gen.Reader.into_cursor rdr) fun s0 =>
  Except.bind (genRcRun Codec.none s0 hist) fun x => Except.pure x.1

def hist : List Op :=
  [.first, .next, .next, .next, .next, .prev, .ge [3], .le [8], .eq [5, 5], .last, .next, .current, .reset,
   .prev, .prev]

/-- what the translated code returns (no `Err`, no panic) -/
def expected : List (Option (Bytes × Bytes)) :=
  [some ([1], [10]), some ([2], [20, 21]), some ([3, 0], []), some ([3, 1], [30, 31, 32]), some ([4], [40]),
   some ([3, 1], [30, 31, 32]), some ([3, 0], []), some ([7, 0], []), none, some ([9, 5, 5], [95]), none, none,
   none, some ([9, 5, 5], [95]), some ([9], [90])]

theorem run_returns : okOf (run hist) = some expected := by
  decide +kernel

/-- the run returns: witnesses for the hypotheses of `src_C03_history_open` -/
theorem returns : ∃ rdr s0 s', Gen.Reader.new { bytes := exFile, pos := 0 } = .ok rdr ∧
    Gen.Reader.into_cursor rdr = .ok s0 ∧ genRcRun Codec.none s0 hist = .ok (expected, s') := by
  have h := run_returns
  unfold run at h
  cases h1 : Gen.Reader.new { bytes := exFile, pos := 0 } with
  | error e => rw [h1] at h; cases h
  | ok rdr =>
    rw [h1] at h
    simp only [Except.bind] at h
    cases h2 : Gen.Reader.into_cursor rdr with
    | error e => rw [h2] at h; cases h
    | ok s0 =>
      rw [h2] at h
      simp only at h
      cases h3 : genRcRun Codec.none s0 hist with
      | error e => rw [h3] at h; cases h
      | ok x =>
        obtain ⟨rs, s'⟩ := x
        rw [h3] at h
        simp only [okOf, Except.pure, Option.some.injEq] at h
        subst h
        exact ⟨rdr, s0, s', rfl, h2, h3⟩

theorem small : SmallBlocks Codec.none exFile := smallBlocks_none exFile (by decide +kernel)

/-- **The theorem applied.**  All hypotheses hold on this instance, and the conclusion is about the values the
    translated code actually returned. -/
example : expected.length = hist.length ∧
    ∀ x ∈ (expected.map Res.ok).zip (e2eSpecRun exEs .fresh hist), Spec.Agree x.1 x.2 := by
  obtain ⟨rdr, s0, s', h1, h2, h3⟩ := returns
  obtain ⟨g1, g2, -⟩ := src_C03_history_open exSetting small 0 rdr s0 h1 h2 hist expected s' h3
  exact ⟨g1, g2⟩

/-- The specification column is fully determined except at the one `current()` in position `lost`
    (so the agreement above pins fourteen of the fifteen results). -/
example : e2eSpecRun exEs .fresh hist =
    [some (some ([1], [10])), some (some ([2], [20, 21])), some (some ([3, 0], [])),
     some (some ([3, 1], [30, 31, 32])), some (some ([4], [40])), some (some ([3, 1], [30, 31, 32])),
     some (some ([3, 0], [])), some (some ([7, 0], [])), some none, some (some ([9, 5, 5], [95])), some none,
     none, some none, some (some ([9, 5, 5], [95])), some (some ([9], [90]))] := by
  decide +kernel

/-- Part A on the same instance: the model reader with the operations as the code computes them. -/
example (m : Meta.Meta) (hm : Meta.parse exFile = .ok m) (ops : List Op) :
    ∀ x ∈ runBothG (srcReader Codec.none exFile) exEs (RC.new m) .fresh ops, Spec.Agree x.1 x.2 :=
  srcReader_history exSetting hm ops

example (m : Meta.Meta) (hm : Meta.parse exFile = .ok m) (ops : List Op) (op : Op) :
    (srcReader Codec.none exFile (stateAfter (srcReader Codec.none exFile) (RC.new m) ops) op).2 ≠ .err :=
  srcReader_never_err exSetting hm ops op

/-- `Reader::new` returns on the written file, with the recorded count (12) and levels (2). -/
example : ∃ rdr s0, Gen.Reader.new { bytes := exFile, pos := 0 } = .ok rdr ∧ Gen.Reader.into_cursor rdr = .ok s0 ∧
    rdr.metadata.entries_count = 12 ∧ rdr.metadata.index_levels = 2 := by
  obtain ⟨rdr, s0, h1, h2, h3, h4, -⟩ := e2e_open_ok exSetting 0
  exact ⟨rdr, s0, h1, h2, h3, h4⟩

end Grenad.SrcTie.E2ESmoke

section Audit
open Grenad.SrcTie.E2ESmoke
#print axioms run_returns
#print axioms returns
#print axioms small
end Audit
