/-
  Grenad.SrcTie.IndexCursor — translator tie for `IndexBlockCursor` of src/reader/reader_cursor.rs
  (Generated/Src/SrcReaderCursor.lean, regenerated from /repo/src on every run): the five public
  `IndexBlockCursor::move_on_*` functions are the model's `RC.iterIndex` / `RC.recurIndex` (Model/Reader.lean)
  instantiated with the byte-level block cursor and the loader `loadCursor cd file`.

  Parts: IndexCursorLoad (loading, `Good`, `MovTie`, `toRC`), IndexCursorInit (`initial_index_blocks`),
  IndexCursorIter (`iter_index_blocks`), IndexCursorRec (`recursive`, `recursive_index_block`).

  Shape of every statement (partial correctness, as in SrcTie/BlockCursor.lean): *whenever the translated function
  returns* `.ok (r, self', reader')` from a state whose cursors are all good and a reader over `file`, the model
  returns `some (toRC self' cur log', r)` from `toRC self cur log`, the cursors of `self'` are all good, the reader
  still reads `file`, and `base_block_offset`, `index_levels`, `compression_type` are unchanged.

  Errors: because the statements read `gen = .ok x → model = some (abs x)`, they also give the converse for
  failures: where the model returns `none` (some block could not be loaded) the translated code cannot return
  `.ok` — `model = none` would contradict `model = some _` (`src_index_none_of_model_none` spells this out for
  `iterIndex`; `src_load_cursor_none` for a single load).

  Hypotheses, all explicit:
  * `SmallBlocks cd file` — decompressed blocks are shorter than `2^62` bytes (checked `usize` additions of
    `entry_at`); true of every file for a codec that cannot inflate that far, and of uncompressed files < 2^62 bytes;
  * `LoadsQ cd file Q` — every block the model can load from `file` satisfies `Q`; `Q := fun _ => True` for
    `move_on_first/last/next`, which need nothing; `Q := SortedBlock` (offset table strictly ascending, table keys
    strictly ascending — what `slice::binary_search*` relies on) for `move_on_prev` and
    `move_on_key_greater_than_or_equal_to` against `byteOps`.  Without any ordering hypothesis the same two
    functions are tied to the model over `srcOps` (the operations with the standard library's search loop) —
    the `_src` theorems;
  * `GoodIdx Q self` — all cursors held are good; it holds initially (`inner = none`, `goodIdx_new`) and every
    theorem re-establishes it, so it holds in every reachable state;
  * no hypothesis on `index_levels`: when `index_levels as usize + 1` overflows the translated code fails, and
    the statements are about returning runs;
  * `self.compression_type` plays no role: the codec is the parameter `cd` on both sides.
-/
import Grenad.SrcTie.IndexCursorRec

set_option linter.unusedSimpArgs false
set_option linter.unusedVariables false

namespace Grenad.SrcTie
open Grenad Grenad.R Grenad.Gen

/-- a fresh `IndexBlockCursor` (and one after `reset`) holds no cursor -/
theorem goodIdx_none (Q : Grenad.Block → Prop) (s : Gen.IndexBlockCursor) (h : s.inner = none) : GoodIdx Q s := by
  intro l hl; rw [h] at hl; cases hl

theorem goodIdx_new (Q : Grenad.Block → Prop) (base : Nat) (ct : CompressionType) (levels : Nat)
    (s : Gen.IndexBlockCursor) (h : Gen.IndexBlockCursor.new base ct levels = .ok s) :
    GoodIdx Q s ∧ ∀ cur, toRC s cur [] = { base := base, levels := levels, inner := none, cur := cur } := by
  simp only [Gen.IndexBlockCursor.new, pure, Except.pure, Except.ok.injEq] at h
  subst h
  exact ⟨goodIdx_none Q _ rfl, fun _ => rfl⟩

theorem goodIdx_reset (Q : Grenad.Block → Prop) (s s' : Gen.IndexBlockCursor)
    (h : Gen.IndexBlockCursor.reset s = .ok s') :
    GoodIdx Q s' ∧ ∀ cur log, toRC s' cur log = { toRC s cur log with inner := none } := by
  simp only [Gen.IndexBlockCursor.reset, pure, Except.pure, Except.ok.injEq] at h
  subst h
  exact ⟨goodIdx_none Q _ rfl, fun _ _ => rfl⟩

/-- what every theorem below concludes about the new state -/
def IdxPost (Q : Grenad.Block → Prop) (file : Bytes) (s s' : Gen.IndexBlockCursor) (rd' : Src) : Prop :=
  GoodIdx Q s' ∧ rd'.bytes = file ∧ s'.base_block_offset = s.base_block_offset ∧
    s'.index_levels = s.index_levels ∧ s'.compression_type = s.compression_type

section
variable (cd : Codec) (file : Bytes) (Q : Grenad.Block → Prop)
  (hs : SmallBlocks cd file) (hq : LoadsQ cd file Q)
include hs hq

/-! ### the three functions that need no ordering of the blocks -/

theorem src_index_move_on_first (s : Gen.IndexBlockCursor) (hg : GoodIdx Q s) (rd : Src) (hrd : rd.bytes = file)
    (cur : Option Grenad.BlockCursor) (log : List Nat)
    (r : Option (Bytes × Bytes)) (s' : Gen.IndexBlockCursor) (rd' : Src)
    (h : Gen.IndexBlockCursor.move_on_first (fun _ => cd.decompress) s rd = .ok (r, s', rd')) :
    ∃ log', RC.iterIndex byteOps (loadCursor cd file) .first (toRC s cur log) = some (toRC s' cur log', r) ∧
      IdxPost Q file s s' rd' := by
  unfold Gen.IndexBlockCursor.move_on_first at h
  simp only [bind, pure] at h
  obtain ⟨x, hx, h⟩ := bind_ok h
  obtain ⟨r1, m2, m3⟩ := x
  simp only [Except.pure, Except.ok.injEq, Prod.mk.injEq] at h
  obtain ⟨h1, h2, h3⟩ := h
  subst h1 h2 h3
  exact src_iter_index_blocks cd file Q byteOps .first hs hq _ (movTie_first Q) byteOps_current s hg rd hrd cur log
    _ _ _ hx

theorem src_index_move_on_last (s : Gen.IndexBlockCursor) (hg : GoodIdx Q s) (rd : Src) (hrd : rd.bytes = file)
    (cur : Option Grenad.BlockCursor) (log : List Nat)
    (r : Option (Bytes × Bytes)) (s' : Gen.IndexBlockCursor) (rd' : Src)
    (h : Gen.IndexBlockCursor.move_on_last (fun _ => cd.decompress) s rd = .ok (r, s', rd')) :
    ∃ log', RC.iterIndex byteOps (loadCursor cd file) .last (toRC s cur log) = some (toRC s' cur log', r) ∧
      IdxPost Q file s s' rd' := by
  unfold Gen.IndexBlockCursor.move_on_last at h
  simp only [bind, pure] at h
  obtain ⟨x, hx, h⟩ := bind_ok h
  obtain ⟨r1, m2, m3⟩ := x
  simp only [Except.pure, Except.ok.injEq, Prod.mk.injEq] at h
  obtain ⟨h1, h2, h3⟩ := h
  subst h1 h2 h3
  exact src_iter_index_blocks cd file Q byteOps .last hs hq _ (movTie_last Q) byteOps_current s hg rd hrd cur log
    _ _ _ hx

theorem src_index_move_on_next (s : Gen.IndexBlockCursor) (hg : GoodIdx Q s) (rd : Src) (hrd : rd.bytes = file)
    (cur : Option Grenad.BlockCursor) (log : List Nat)
    (r : Option (Bytes × Bytes)) (s' : Gen.IndexBlockCursor) (rd' : Src)
    (h : Gen.IndexBlockCursor.move_on_next (fun _ => cd.decompress) s rd = .ok (r, s', rd')) :
    ∃ log', RC.recurIndex byteOps (loadCursor cd file) true .next (toRC s cur log) = some (toRC s' cur log', r) ∧
      IdxPost Q file s s' rd' := by
  unfold Gen.IndexBlockCursor.move_on_next at h
  simp only [bind, pure] at h
  obtain ⟨x, hx, h⟩ := bind_ok h
  obtain ⟨r1, m2, m3⟩ := x
  simp only [Except.pure, Except.ok.injEq, Prod.mk.injEq] at h
  obtain ⟨h1, h2, h3⟩ := h
  subst h1 h2 h3
  exact src_recursive_index_block cd file Q byteOps .next hs hq _ (movTie_next Q) byteOps_current s hg rd hrd cur
    log _ _ _ hx

/-! ### `move_on_prev`, `move_on_key_greater_than_or_equal_to`: the binary searches -/

/-- generic in the operations the closure is tied to -/
theorem src_index_move_on_prev_ops (ops : BlockOps Grenad.BlockCursor)
    (htie : MovTie Q (fun c => Gen.BlockCursor.move_on_prev c) (ops.apply .prev))
    (hcur : ops.current = Grenad.BlockCursor.current)
    (s : Gen.IndexBlockCursor) (hg : GoodIdx Q s) (rd : Src) (hrd : rd.bytes = file)
    (cur : Option Grenad.BlockCursor) (log : List Nat)
    (r : Option (Bytes × Bytes)) (s' : Gen.IndexBlockCursor) (rd' : Src)
    (h : Gen.IndexBlockCursor.move_on_prev (fun _ => cd.decompress) s rd = .ok (r, s', rd')) :
    ∃ log', RC.recurIndex ops (loadCursor cd file) true .prev (toRC s cur log) = some (toRC s' cur log', r) ∧
      IdxPost Q file s s' rd' := by
  unfold Gen.IndexBlockCursor.move_on_prev at h
  simp only [bind, pure] at h
  obtain ⟨x, hx, h⟩ := bind_ok h
  obtain ⟨r1, m2, m3⟩ := x
  simp only [Except.pure, Except.ok.injEq, Prod.mk.injEq] at h
  obtain ⟨h1, h2, h3⟩ := h
  subst h1 h2 h3
  exact src_recursive_index_block cd file Q ops .prev hs hq _ htie hcur s hg rd hrd cur log _ _ _ hx

theorem src_index_move_on_ge_ops (ops : BlockOps Grenad.BlockCursor) (key : Bytes)
    (htie : MovTie Q (fun c => Gen.BlockCursor.move_on_key_greater_than_or_equal_to c key) (ops.apply (.ge key)))
    (hcur : ops.current = Grenad.BlockCursor.current)
    (s : Gen.IndexBlockCursor) (hg : GoodIdx Q s) (rd : Src) (hrd : rd.bytes = file)
    (cur : Option Grenad.BlockCursor) (log : List Nat)
    (r : Option (Bytes × Bytes)) (s' : Gen.IndexBlockCursor) (rd' : Src)
    (h : Gen.IndexBlockCursor.move_on_key_greater_than_or_equal_to (fun _ => cd.decompress) s key rd
      = .ok (r, s', rd')) :
    ∃ log', RC.iterIndex ops (loadCursor cd file) (.ge key) (toRC s cur log) = some (toRC s' cur log', r) ∧
      IdxPost Q file s s' rd' := by
  unfold Gen.IndexBlockCursor.move_on_key_greater_than_or_equal_to at h
  simp only [bind, pure] at h
  obtain ⟨x, hx, h⟩ := bind_ok h
  obtain ⟨r1, m2, m3⟩ := x
  simp only [Except.pure, Except.ok.injEq, Prod.mk.injEq] at h
  obtain ⟨h1, h2, h3⟩ := h
  subst h1 h2 h3
  exact src_iter_index_blocks cd file Q ops (.ge key) hs hq _ htie hcur s hg rd hrd cur log _ _ _ hx

/-- `move_on_prev` against the model's own `prev`: blocks with strictly ascending offset tables -/
theorem src_index_move_on_prev (hQ : ∀ b, Q b → b.offsets.Pairwise (· < ·))
    (s : Gen.IndexBlockCursor) (hg : GoodIdx Q s) (rd : Src) (hrd : rd.bytes = file)
    (cur : Option Grenad.BlockCursor) (log : List Nat)
    (r : Option (Bytes × Bytes)) (s' : Gen.IndexBlockCursor) (rd' : Src)
    (h : Gen.IndexBlockCursor.move_on_prev (fun _ => cd.decompress) s rd = .ok (r, s', rd')) :
    ∃ log', RC.recurIndex byteOps (loadCursor cd file) true .prev (toRC s cur log) = some (toRC s' cur log', r) ∧
      IdxPost Q file s s' rd' :=
  src_index_move_on_prev_ops cd file Q hs hq byteOps (movTie_prev Q hQ) byteOps_current s hg rd hrd cur log r s' rd' h

/-- `move_on_key_greater_than_or_equal_to` against the model's own `ge`: blocks whose table keys ascend strictly -/
theorem src_index_move_on_ge (hQ : ∀ b, Q b → BinSearch.TableKeysAsc b) (key : Bytes)
    (s : Gen.IndexBlockCursor) (hg : GoodIdx Q s) (rd : Src) (hrd : rd.bytes = file)
    (cur : Option Grenad.BlockCursor) (log : List Nat)
    (r : Option (Bytes × Bytes)) (s' : Gen.IndexBlockCursor) (rd' : Src)
    (h : Gen.IndexBlockCursor.move_on_key_greater_than_or_equal_to (fun _ => cd.decompress) s key rd
      = .ok (r, s', rd')) :
    ∃ log', RC.iterIndex byteOps (loadCursor cd file) (.ge key) (toRC s cur log) = some (toRC s' cur log', r) ∧
      IdxPost Q file s s' rd' :=
  src_index_move_on_ge_ops cd file Q hs hq byteOps key (movTie_ge Q hQ key) byteOps_current s hg rd hrd cur log
    r s' rd' h

/-- `move_on_prev` with no hypothesis on the blocks: the model over the standard library's search loop -/
theorem src_index_move_on_prev_src
    (s : Gen.IndexBlockCursor) (hg : GoodIdx Q s) (rd : Src) (hrd : rd.bytes = file)
    (cur : Option Grenad.BlockCursor) (log : List Nat)
    (r : Option (Bytes × Bytes)) (s' : Gen.IndexBlockCursor) (rd' : Src)
    (h : Gen.IndexBlockCursor.move_on_prev (fun _ => cd.decompress) s rd = .ok (r, s', rd')) :
    ∃ log', RC.recurIndex srcOps (loadCursor cd file) true .prev (toRC s cur log) = some (toRC s' cur log', r) ∧
      IdxPost Q file s s' rd' :=
  src_index_move_on_prev_ops cd file Q hs hq srcOps (movTie_prev_src Q) srcOps_current s hg rd hrd cur log r s' rd' h

/-- `move_on_key_greater_than_or_equal_to` with no hypothesis on the blocks -/
theorem src_index_move_on_ge_src (key : Bytes)
    (s : Gen.IndexBlockCursor) (hg : GoodIdx Q s) (rd : Src) (hrd : rd.bytes = file)
    (cur : Option Grenad.BlockCursor) (log : List Nat)
    (r : Option (Bytes × Bytes)) (s' : Gen.IndexBlockCursor) (rd' : Src)
    (h : Gen.IndexBlockCursor.move_on_key_greater_than_or_equal_to (fun _ => cd.decompress) s key rd
      = .ok (r, s', rd')) :
    ∃ log', RC.iterIndex srcOps (loadCursor cd file) (.ge key) (toRC s cur log) = some (toRC s' cur log', r) ∧
      IdxPost Q file s s' rd' :=
  src_index_move_on_ge_ops cd file Q hs hq srcOps key (movTie_ge_src Q key) srcOps_current s hg rd hrd cur log
    r s' rd' h

/-! ### failures -/

/-- The converse for errors is contained in the statements above; spelled out for `iter_index_blocks`:
    where the model fails (a block could not be loaded), the translated function does not return. -/
theorem src_index_none_of_model_none (ops : BlockOps Grenad.BlockCursor) (m : Mov)
    (mov : Gen.BlockCursor → M (Option (Bytes × Bytes) × Gen.BlockCursor))
    (htie : MovTie Q mov (ops.apply m)) (hcur : ops.current = Grenad.BlockCursor.current)
    (s : Gen.IndexBlockCursor) (hg : GoodIdx Q s) (rd : Src) (hrd : rd.bytes = file)
    (cur : Option Grenad.BlockCursor) (log : List Nat)
    (hnone : RC.iterIndex ops (loadCursor cd file) m (toRC s cur log) = none) :
    ∀ x, Gen.IndexBlockCursor.iter_index_blocks (fun _ => cd.decompress) s rd mov ≠ .ok x := by
  intro x hx
  obtain ⟨r, s', rd'⟩ := x
  obtain ⟨log', h, _⟩ := src_iter_index_blocks cd file Q ops m hs hq mov htie hcur s hg rd hrd cur log r s' rd' hx
  rw [hnone] at h
  cases h

theorem src_recursive_none_of_model_none (ops : BlockOps Grenad.BlockCursor) (m : Mov)
    (mov : Gen.BlockCursor → M (Option (Bytes × Bytes) × Gen.BlockCursor))
    (htie : MovTie Q mov (ops.apply m)) (hcur : ops.current = Grenad.BlockCursor.current)
    (s : Gen.IndexBlockCursor) (hg : GoodIdx Q s) (rd : Src) (hrd : rd.bytes = file)
    (cur : Option Grenad.BlockCursor) (log : List Nat)
    (hnone : RC.recurIndex ops (loadCursor cd file) true m (toRC s cur log) = none) :
    ∀ x, Gen.IndexBlockCursor.recursive_index_block (fun _ => cd.decompress) s rd mov ≠ .ok x := by
  intro x hx
  obtain ⟨r, s', rd'⟩ := x
  obtain ⟨log', h, _⟩ :=
    src_recursive_index_block cd file Q ops m hs hq mov htie hcur s hg rd hrd cur log r s' rd' hx
  rw [hnone] at h
  cases h

end

end Grenad.SrcTie
