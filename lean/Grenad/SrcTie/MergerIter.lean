/-
  Grenad.SrcTie.MergerIter — translator tie for the k-way merger of src/merger.rs, part 1:
  the list cursor `LCur` / `lstep`, the abstraction `absE` of a heap entry, and `std::BinaryHeap`
  (by its contract, `heapMaxIdxM` over the translated `Entry::cmp`) against the model's
  `heapMin` / `heapPop`.
-/
import Grenad.Generated.Src.SrcMergerIter
import Grenad.Proofs.Wave3Sorter

set_option linter.unusedSimpArgs false
set_option linter.unusedVariables false

namespace Grenad.SrcTie
open Grenad Grenad.R Grenad.Gen Grenad.Wave3

/-- A merge source as the translated code sees it: a cursor that is either fresh (never moved) or
    stands on the head of `rest` (nothing when `rest = []`). -/
structure LCur where
  fresh : Bool
  rest : List Entry
  deriving Repr, DecidableEq

/-- `ReaderCursor` over a list: `current()` answers the head (nothing on a fresh cursor),
    `move_on_next()` lands on the first entry of a fresh cursor, otherwise drops the head; no I/O error. -/
def lstep : LCur → CurOp → LCur × CurRes
  | c, .current => (c, some (if c.fresh then none else c.rest.head?))
  | c, .next =>
    if c.fresh then ({ fresh := false, rest := c.rest }, some c.rest.head?)
    else ({ fresh := false, rest := c.rest.tail }, some c.rest.tail.head?)
  | c, _ => (c, some none)

/-- a heap entry of the translated merger read as a heap entry of the model -/
def absE (e : Gen.Entry LCur) : MSrc := { idx := e.source_index, rest := e.cursor.rest }

/-- the entry's cursor has been moved and stands on an entry -/
def Live (e : Gen.Entry LCur) : Prop := e.cursor.fresh = false ∧ e.cursor.rest ≠ []

def AllLive (H : List (Gen.Entry LCur)) : Prop := ∀ e ∈ H, Live e

theorem AllLive.cons {e : Gen.Entry LCur} {H : List (Gen.Entry LCur)} :
    AllLive (e :: H) ↔ Live e ∧ AllLive H := by
  simp [AllLive]

theorem AllLive.nil : AllLive [] := by simp [AllLive]

theorem AllLive.append {H H' : List (Gen.Entry LCur)} :
    AllLive (H ++ H') ↔ AllLive H ∧ AllLive H' := by
  simp only [AllLive, List.mem_append]
  constructor
  · intro h; exact ⟨fun e he => h e (Or.inl he), fun e he => h e (Or.inr he)⟩
  · rintro ⟨h1, h2⟩ e (he | he)
    · exact h1 e he
    · exact h2 e he

theorem AllLive.sublist {H H' : List (Gen.Entry LCur)} (h : AllLive H) (hs : H'.Sublist H) :
    AllLive H' := fun e he => h e (hs.subset he)

theorem AllLive.perm {H H' : List (Gen.Entry LCur)} (h : AllLive H) (hp : H.Perm H') :
    AllLive H' := fun e he => h e (hp.symm.subset he)

/-- `current()` on a live entry -/
theorem lstep_current_live {e : Gen.Entry LCur} (h : Live e) :
    lstep e.cursor CurOp.current = (e.cursor, some (some ((absE e).key, (absE e).val))) := by
  obtain ⟨⟨f, r⟩, i⟩ := e
  obtain ⟨hf, hr⟩ := h
  simp only at hf hr
  subst hf
  cases r with
  | nil => exact absurd rfl hr
  | cons x r => rfl

/-- `Entry::cmp` on two live entries: the reversed lexicographic order on (key, source index) -/
theorem cmp_live {a b : Gen.Entry LCur} (ha : Live a) (hb : Live b) :
    Gen.Entry.cmp lstep a b
      = .ok (((cmpBytes (absE a).key (absE b).key).then (compare (absE a).idx (absE b).idx)).swap) := by
  simp [Gen.Entry.cmp, lstep_current_live ha, lstep_current_live hb, liftCur, bind, Except.bind, pure,
    Except.pure, cmpOptBytes, absE]

/-- the heap replaces its best candidate `b` by `x` (`cmp b x = Less`) exactly when the model says
    `x.before b` -/
theorem cmp_live_lt {a b : Gen.Entry LCur} (ha : Live a) (hb : Live b) :
    Gen.Entry.cmp lstep b a = .ok .lt ↔ (absE a).before (absE b) = true := by
  rw [cmp_live hb ha]
  unfold MSrc.before R.cmpBytes
  by_cases h1 : (absE a).key < (absE b).key
  · have h2 : ¬ (absE b).key < (absE a).key := fun h => List.lt_irrefl _ (List.lt_trans h h1)
    have h3 : (absE b).key ≠ (absE a).key := fun h => by rw [h] at h1; exact List.lt_irrefl _ h1
    simp [h1, h2, h3, Ordering.then, Ordering.swap]
  · by_cases h2 : (absE a).key = (absE b).key
    · simp [h1, h2, Ordering.then, Ordering.swap, List.lt_irrefl]
      constructor
      · intro h
        cases hc : compare (absE b).idx (absE a).idx <;> simp [hc] at h
        exact Nat.compare_eq_gt.mp hc
      · intro h
        simp [Nat.compare_eq_gt.mpr h]
    · have h3 : (absE b).key < (absE a).key := blt_tri h1 h2
      have h4 : (absE b).key ≠ (absE a).key := fun h => h2 h.symm
      simp [h1, h2, h3, h4, Ordering.then, Ordering.swap]


/-! ### `BinaryHeap::peek` / `pop` over live entries -/

/-- the scan of `heapMaxIdxM` as a pure function: the running best `(j, b)` is replaced by a later
    element exactly when that element pops before it -/
def scanMin : List (Gen.Entry LCur) → Nat → Nat × Gen.Entry LCur → Nat × Gen.Entry LCur
  | [], _, best => best
  | x :: xs, i, (j, b) =>
    if (absE x).before (absE b) then scanMin xs (i + 1) (i, x) else scanMin xs (i + 1) (j, b)

theorem heapMaxIdxM_live : ∀ (xs : List (Gen.Entry LCur)) (i j : Nat) (b : Gen.Entry LCur),
    Live b → AllLive xs →
    heapMaxIdxM (Gen.Entry.cmp lstep) xs i (some (j, b)) = .ok (some (scanMin xs i (j, b))) := by
  intro xs
  induction xs with
  | nil => intro i j b _ _; rfl
  | cons x xs ih =>
    intro i j b hb hxs
    obtain ⟨hx, hxs⟩ := AllLive.cons.mp hxs
    have hc := cmp_live hb hx
    have hlt := cmp_live_lt hx hb
    simp only [heapMaxIdxM, scanMin]
    by_cases hbef : (absE x).before (absE b) = true
    · rw [hlt.mpr hbef]
      simp only [bind, Except.bind, hbef, if_true, beq_self_eq_true]
      exact ih _ _ _ hx hxs
    · rw [hc] at hlt ⊢
      have hne : ¬ ((cmpBytes (absE b).key (absE x).key).then
          (compare (absE b).idx (absE x).idx)).swap = Ordering.lt := by
        intro h; exact hbef (hlt.mp (by rw [h]))
      simp only [bind, Except.bind, hbef, beq_iff_eq, hne, if_false, Bool.false_eq_true]
      exact ih _ _ _ hb hxs

theorem scanMin_spec : ∀ (xs : List (Gen.Entry LCur)) (i j : Nat) (b : Gen.Entry LCur),
    KeyIdxNe ((b :: xs).map absE) →
    (scanMin xs i (j, b) = (j, b) ∨
      (i ≤ (scanMin xs i (j, b)).1 ∧ xs[(scanMin xs i (j, b)).1 - i]? = some (scanMin xs i (j, b)).2)) ∧
    ∀ x ∈ b :: xs, absE x = absE (scanMin xs i (j, b)).2 ∨
      (absE (scanMin xs i (j, b)).2).before (absE x) = true := by
  intro xs
  induction xs with
  | nil =>
    intro i j b _
    simp [scanMin]
  | cons x xs ih =>
    intro i j b hne
    simp only [List.map_cons] at hne
    have hne' := List.pairwise_cons.mp hne
    simp only [scanMin]
    by_cases hbef : (absE x).before (absE b) = true
    · simp only [hbef, if_true]
      have hne2 : KeyIdxNe ((x :: xs).map absE) := hne'.2
      obtain ⟨h1, h2⟩ := ih (i + 1) i x hne2
      refine ⟨Or.inr ?_, ?_⟩
      · rcases h1 with h1 | ⟨h1, h1'⟩
        · rw [h1]; simp
        · refine ⟨by omega, ?_⟩
          have : (scanMin xs (i + 1) (i, x)).1 - i = ((scanMin xs (i + 1) (i, x)).1 - (i + 1)) + 1 := by
            omega
          rw [this, List.getElem?_cons_succ]
          exact h1'
      · intro y hy
        rcases List.mem_cons.mp hy with rfl | hy
        · right
          rcases h2 x List.mem_cons_self with e | hb
          · rw [← e]; exact hbef
          · exact before_trans hb hbef
        · exact h2 y hy
    · simp only [hbef, if_false, Bool.false_eq_true]
      have hne2 : KeyIdxNe ((b :: xs).map absE) := by
        simp only [List.map_cons]
        exact List.pairwise_cons.mpr ⟨fun y hy => hne'.1 y (List.mem_cons_of_mem _ hy),
          (List.pairwise_cons.mp hne'.2).2⟩
      obtain ⟨h1, h2⟩ := ih (i + 1) j b hne2
      refine ⟨?_, ?_⟩
      · rcases h1 with h1 | ⟨h1, h1'⟩
        · left; exact h1
        · right
          refine ⟨by omega, ?_⟩
          have : (scanMin xs (i + 1) (j, b)).1 - i = ((scanMin xs (i + 1) (j, b)).1 - (i + 1)) + 1 := by
            omega
          rw [this, List.getElem?_cons_succ]
          exact h1'
      · intro y hy
        rcases List.mem_cons.mp hy with rfl | hy
        · exact h2 _ List.mem_cons_self
        · rcases List.mem_cons.mp hy with rfl | hy
          · right
            have hbx : (absE b).before (absE y) = true :=
              before_total' (fun e1 e2 => hne'.1 (absE y) List.mem_cons_self e1.symm e2.symm) hbef
            rcases h2 b List.mem_cons_self with e | hb
            · rw [← e]; exact hbx
            · exact before_trans hb hbx
          · exact h2 y (List.mem_cons_of_mem _ hy)

theorem scanMin_mem : ∀ (xs : List (Gen.Entry LCur)) (i j : Nat) (b : Gen.Entry LCur),
    (scanMin xs i (j, b)).2 ∈ b :: xs := by
  intro xs
  induction xs with
  | nil => intro i j b; simp [scanMin]
  | cons x xs ih =>
    intro i j b
    simp only [scanMin]
    split
    · exact List.mem_cons_of_mem _ (ih _ _ _)
    · rcases List.mem_cons.mp (ih (i + 1) j b) with h | h
      · rw [h]; exact List.mem_cons_self
      · exact List.mem_cons_of_mem _ (List.mem_cons_of_mem _ h)

/-- what `peek` / `pop` select: position and element -/
def popE : List (Gen.Entry LCur) → Option (Nat × Gen.Entry LCur)
  | [] => none
  | x :: xs => some (scanMin xs 1 (0, x))

theorem popE_mem {H : List (Gen.Entry LCur)} {i : Nat} {e : Gen.Entry LCur}
    (h : popE H = some (i, e)) : e ∈ H := by
  cases H with
  | nil => simp [popE] at h
  | cons x xs =>
    simp only [popE, Option.some.injEq] at h
    have := scanMin_mem xs 1 0 x
    rw [h] at this
    exact this

theorem heapMaxIdxM_top (H : List (Gen.Entry LCur)) (hl : AllLive H) :
    heapMaxIdxM (Gen.Entry.cmp lstep) H 0 none = .ok (popE H) := by
  cases H with
  | nil => rfl
  | cons x xs =>
    obtain ⟨hx, hxs⟩ := AllLive.cons.mp hl
    simp only [heapMaxIdxM, popE]
    exact heapMaxIdxM_live xs 1 0 x hx hxs

theorem heapPeekM_live (H : List (Gen.Entry LCur)) (hl : AllLive H) :
    heapPeekM (Gen.Entry.cmp lstep) H = .ok ((popE H).map (·.2)) := by
  simp [heapPeekM, heapMaxIdxM_top H hl, bind, Except.bind, pure, Except.pure]

theorem heapPopM_live (H : List (Gen.Entry LCur)) (hl : AllLive H) :
    heapPopM (Gen.Entry.cmp lstep) H =
      .ok (match popE H with
        | some (i, x) => (some x, H.eraseIdx i)
        | none => (none, H)) := by
  simp only [heapPopM, heapMaxIdxM_top H hl, bind, Except.bind, pure, Except.pure]
  cases popE H with
  | none => rfl
  | some p => rfl

theorem perm_cons_eraseIdx {α} : ∀ (l : List α) (i : Nat) (a : α), l[i]? = some a →
    l.Perm (a :: l.eraseIdx i) := by
  intro l
  induction l with
  | nil => intro i a h; simp at h
  | cons x l ih =>
    intro i a h
    cases i with
    | zero => simp at h; subst h; simp
    | succ i =>
      simp only [List.getElem?_cons_succ] at h
      simp only [List.eraseIdx_cons_succ]
      exact ((ih i a h).cons x).trans (List.Perm.swap a x _)

/-- the element the heap selects is the one `heapMin` selects on the abstracted list -/
theorem popE_spec (H : List (Gen.Entry LCur)) (hne : KeyIdxNe (H.map absE)) :
    match popE H with
    | none => H = []
    | some (i, e) => H[i]? = some e ∧ heapMin (H.map absE) = some (absE e) := by
  cases H with
  | nil => simp [popE]
  | cons x xs =>
    simp only [popE]
    obtain ⟨h1, h2⟩ := scanMin_spec xs 1 0 x hne
    generalize scanMin xs 1 (0, x) = r at h1 h2
    obtain ⟨i, e⟩ := r
    simp only at h1 h2 ⊢
    have hget : (x :: xs)[i]? = some e := by
      rcases h1 with h1 | ⟨h1, h1'⟩
      · simp only [Prod.mk.injEq] at h1
        obtain ⟨rfl, rfl⟩ := h1
        rfl
      · have : i = (i - 1) + 1 := by omega
        rw [this, List.getElem?_cons_succ]
        exact h1'
    refine ⟨hget, ?_⟩
    have hmem : e ∈ x :: xs := List.mem_of_getElem? hget
    cases hm : heapMin ((x :: xs).map absE) with
    | none =>
      have := heapMin_eq_none.mp hm
      simp at this
    | some m =>
      obtain ⟨g1, g2⟩ := heapMin_spec' hne hm
      obtain ⟨y, hy, rfl⟩ := List.mem_map.mp g1
      rcases h2 y hy with e1 | hb
      · rw [e1]
      · rcases g2 (absE e) (List.mem_map_of_mem hmem) with e2 | hb'
        · rw [e2]
        · exact absurd hb (before_asymm hb')

/-- **pop, simulated.**  The translated heap `H` (live entries) holds, through `absE`, the entries of
    the model heap `h` (distinct `(key, idx)` pairs) in some order: both are empty, or `pop`/`peek`
    select the entry that `heapPop` selects, and the remainders again correspond. -/
theorem pop_sim (H : List (Gen.Entry LCur)) (h : List MSrc)
    (hp : (H.map absE).Perm h) (hne : KeyIdxNe h) :
    (popE H = none ∧ heapPop h = none ∧ H = []) ∨
    ∃ i e h1, popE H = some (i, e) ∧ heapPop h = some (absE e, h1) ∧
      H.Perm (e :: H.eraseIdx i) ∧ ((H.eraseIdx i).map absE).Perm h1 ∧ KeyIdxNe h1 := by
  have hneH : KeyIdxNe (H.map absE) := hne.perm hp.symm
  have hspec := popE_spec H hneH
  cases hpe : popE H with
  | none =>
    rw [hpe] at hspec
    simp only at hspec
    subst hspec
    left
    refine ⟨rfl, ?_, rfl⟩
    have : h = [] := by simpa using hp.symm.eq_nil
    rw [this]; rfl
  | some p =>
    obtain ⟨i, e⟩ := p
    rw [hpe] at hspec
    obtain ⟨hget, hmin⟩ := hspec
    right
    have hperm := perm_cons_eraseIdx H i e hget
    have hmin' : heapMin h = some (absE e) := by rw [← heapMin_perm hneH hp]; exact hmin
    refine ⟨i, e, h.erase (absE e), rfl, ?_, hperm, ?_, hne.sublist List.erase_sublist⟩
    · simp only [heapPop, hmin']
    · have h1 : (absE e :: (H.eraseIdx i).map absE).Perm h := by
        have := hperm.map absE
        simp only [List.map_cons] at this
        exact this.symm.trans hp
      have hmem : absE e ∈ h := h1.subset List.mem_cons_self
      exact (h1.trans (List.perm_cons_erase hmem)).cons_inv

end Grenad.SrcTie
