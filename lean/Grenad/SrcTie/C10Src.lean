/-
  Grenad.SrcTie.C10Src — the version-1 trailer of C10 on the code regenerated from /repo/src/metadata.rs.
-/
import Grenad.Props.C10
import Grenad.SrcTie.Meta

set_option linter.unusedSimpArgs false
set_option linter.unusedVariables false

namespace Grenad.SrcTie
open Grenad Grenad.R Grenad.Gen

/-- The translated `Metadata::read_from` opens a V1 file (21-byte trailer: root, codec id, count as
    u64 LE around a one-byte codec id, magic 0x76324D4C) as format version 1 with exactly the stored root
    offset, codec and the FULL 64-bit entry count, and index depth 0. -/
theorem src_C10_open_v1 (body : Bytes) (root codec count p : Nat)
    (hr : root < 2 ^ 64) (hc : codec ≤ 5) (hn : count < 2 ^ 64) :
    ∃ m, Metadata.read_from { bytes := Props.C10.toV1 body root codec count, pos := p } = .ok m ∧
      m.file_version = .formatV1 ∧ m.index_block_offset = root ∧ m.compression_type.toNat = codec ∧
      m.entries_count = count ∧ m.index_levels = 0 := by
  have h := src_read_from (Props.C10.toV1 body root codec count) p
  rw [Props.C10.C10_open body root codec count hr hc hn] at h
  cases hr' : Metadata.read_from { bytes := Props.C10.toV1 body root codec count, pos := p } with
  | error f =>
    rw [hr'] at h
    cases f with
    | panic s => simp [resToModel, errToModel] at h
    | err e => cases e <;> simp [resToModel, errToModel] at h
  | ok m =>
    rw [hr'] at h
    simp only [resToModel, Option.some.injEq, Except.ok.injEq, toModelMeta] at h
    refine ⟨m, rfl, ?_⟩
    have h1 := congrArg Meta.Meta.version h
    have h2 := congrArg Meta.Meta.root h
    have h3 := congrArg Meta.Meta.codec h
    have h4 := congrArg Meta.Meta.count h
    have h5 := congrArg Meta.Meta.levels h
    simp only at h1 h2 h3 h4 h5
    refine ⟨?_, h2, h3, h4, h5⟩
    cases hv : m.file_version with
    | formatV1 => rfl
    | formatV2 => simp [hv] at h1

end Grenad.SrcTie
