/-
  Grenad.SrcTie.MergerIterNext — translator tie for the k-way merger of src/merger.rs, part 2:
  the loops of `MergerIter::next` (the `while let Some(entry) = heap.peek()` loop, the values
  collected from `tmp_entries`, the `move_on_next` + push-back loop) against `popSame`, `MSrc.val`,
  `advance` of the model.
-/
import Grenad.SrcTie.MergerIter

set_option linter.unusedSimpArgs false
set_option linter.unusedVariables false

namespace Grenad.SrcTie
open Grenad Grenad.R Grenad.Gen Grenad.Wave3

/-! ### The `while let Some(entry) = self.heap.peek()` loop -/

/-- one iteration on live entries -/
def peekStep (k : List UInt8) (st : Gen.MergerIter LCur × Bool) :
    ForInStep (Gen.MergerIter LCur × Bool) :=
  match popE st.1.heap with
  | none => .done (st.1, true)
  | some (i, e) =>
    if k = (absE e).key then
      .yield ({ st.1 with heap := st.1.heap.eraseIdx i, tmp_entries := st.1.tmp_entries ++ [e] }, st.2)
    else .done (st.1, true)

/-- the loop with `n` iterations of fuel; the flag says that it ended by `break` -/
def peekRun (k : List UInt8) : Nat → Gen.MergerIter LCur → Gen.MergerIter LCur × Bool
  | 0, it => (it, false)
  | n + 1, it =>
    match popE it.heap with
    | none => (it, true)
    | some (i, e) =>
      if k = (absE e).key then
        peekRun k n { it with heap := it.heap.eraseIdx i, tmp_entries := it.tmp_entries ++ [e] }
      else (it, true)

theorem peek_loop {α} (k : List UInt8)
    (f : α → Gen.MergerIter LCur × Bool → M (ForInStep (Gen.MergerIter LCur × Bool)))
    (hf : ∀ x st, AllLive st.1.heap → f x st = .ok (peekStep k st)) :
    ∀ (l : List α) (it : Gen.MergerIter LCur), AllLive it.heap →
      forIn l (it, false) f = .ok (peekRun k l.length it) := by
  intro l
  induction l with
  | nil => intro it _; rfl
  | cons x l ih =>
    intro it hl
    rw [List.forIn_cons, hf x _ hl]
    simp only [peekStep, List.length_cons, peekRun]
    cases hpe : popE it.heap with
    | none => rfl
    | some p =>
      obtain ⟨i, e⟩ := p
      simp only
      by_cases hk : k = (absE e).key
      · simp only [hk, if_true, bind, Except.bind]
        have := ih { it with heap := it.heap.eraseIdx i, tmp_entries := it.tmp_entries ++ [e] }
          (hl.sublist (List.eraseIdx_sublist _ _))
        rw [hk] at this
        exact this
      · simp only [hk, if_false]
        rfl

/-- the loop against `popSame`: the same entries are collected in the same order, the remaining heaps
    correspond; the fuel `heap.len() + 1` is enough for the loop to end by `break` -/
theorem peekRun_sim (k : List UInt8) : ∀ (n : Nat) (it : Gen.MergerIter LCur) (h acc : List MSrc),
    AllLive it.heap → (it.heap.map absE).Perm h → KeyIdxNe h → it.heap.length + 1 ≤ n →
    ∃ T H2, peekRun k n it = ({ it with heap := H2, tmp_entries := it.tmp_entries ++ T }, true) ∧
      (popSame k n h acc).1 = acc.reverse ++ T.map absE ∧
      (H2.map absE).Perm (popSame k n h acc).2 ∧ AllLive T ∧ AllLive H2 := by
  intro n
  induction n with
  | zero => intro it h acc _ _ _ hn; omega
  | succ n ih =>
    intro it h acc hl hp hne hn
    simp only [peekRun, popSame]
    rcases pop_sim it.heap h hp hne with ⟨e1, e2, e3⟩ | ⟨i, e, h1, e1, e2, hperm, hp1, hne1⟩
    · rw [e1, e2]
      refine ⟨[], it.heap, by simp, by simp, hp, AllLive.nil, hl⟩
    · rw [e1, e2]
      simp only
      have hle : Live e := hl e (hperm.symm.subset List.mem_cons_self)
      by_cases hk : k = (absE e).key
      · have hk' : (absE e).key = k := hk.symm
        simp only [hk, if_true]
        have hlen : (it.heap.eraseIdx i).length + 1 = it.heap.length := by
          have := hperm.length_eq; simp only [List.length_cons] at this; omega
        obtain ⟨T, H2, g1, g2, g3, g4, g5⟩ :=
          ih { it with heap := it.heap.eraseIdx i, tmp_entries := it.tmp_entries ++ [e] } h1
            (absE e :: acc) (hl.sublist (List.eraseIdx_sublist _ _)) hp1 hne1 (by simp only; omega)
        refine ⟨e :: T, H2, ?_, ?_, ?_, ?_, g5⟩
        · rw [← hk, g1]; simp
        · rw [← hk, g2]; simp
        · rw [← hk]; exact g3
        · exact AllLive.cons.mpr ⟨hle, g4⟩
      · have hk' : ¬ (absE e).key = k := fun h => hk h.symm
        simp only [hk, hk', if_false]
        refine ⟨[], it.heap, by simp, by simp, hp, AllLive.nil, hl⟩

/-! ### The values of `tmp_entries` -/

theorem filterMapM_live (g : Gen.Entry LCur → M (Option (List UInt8)))
    (hg : ∀ e, Live e → g e = .ok (some (absE e).val)) :
    ∀ T : List (Gen.Entry LCur), AllLive T →
      List.filterMapM g T = .ok (T.map (fun e => (absE e).val)) := by
  intro T
  induction T with
  | nil => intro _; rfl
  | cons e T ih =>
    intro hl
    obtain ⟨he, hT⟩ := AllLive.cons.mp hl
    rw [List.filterMapM_cons, hg e he, ih hT]
    rfl

/-! ### `move_on_next` and push back -/

/-- what `move_on_next` + push puts back on the heap (an un-fresh cursor) -/
def advE (e : Gen.Entry LCur) : Option (Gen.Entry LCur) :=
  match e.cursor.rest with
  | _ :: x :: r => some { cursor := { fresh := false, rest := x :: r }, source_index := e.source_index }
  | _ => none

def advPush (st : Gen.MergerIter LCur) (e : Gen.Entry LCur) : Gen.MergerIter LCur :=
  match advE e with
  | some e' => { st with heap := st.heap ++ [e'] }
  | none => st

theorem advE_abs (e : Gen.Entry LCur) : (advE e).map absE = adv (absE e) := by
  obtain ⟨⟨f, r⟩, i⟩ := e
  match r with
  | [] => rfl
  | [_] => rfl
  | _ :: _ :: _ => rfl

theorem advE_live {e e' : Gen.Entry LCur} (h : advE e = some e') : Live e' := by
  obtain ⟨⟨f, r⟩, i⟩ := e
  match r, h with
  | _ :: x :: r, h =>
    simp only [advE, Option.some.injEq] at h
    subst h
    exact ⟨rfl, by simp⟩

theorem adv_loop (f : Gen.Entry LCur → Gen.MergerIter LCur → M (ForInStep (Gen.MergerIter LCur)))
    (hf : ∀ e st, e.cursor.fresh = false → f e st = .ok (.yield (advPush st e))) :
    ∀ (F : List (Gen.Entry LCur)) (st : Gen.MergerIter LCur), (∀ e ∈ F, e.cursor.fresh = false) →
      forIn F st f = .ok (F.foldl advPush st) := by
  intro F
  induction F with
  | nil => intro st _; rfl
  | cons e F ih =>
    intro st hF
    rw [List.forIn_cons, hf e st (hF e List.mem_cons_self)]
    simp only [bind, Except.bind, List.foldl_cons]
    exact ih _ (fun x hx => hF x (List.mem_cons_of_mem _ hx))

theorem foldl_advPush (F : List (Gen.Entry LCur)) : ∀ st : Gen.MergerIter LCur,
    F.foldl advPush st = { st with heap := st.heap ++ F.filterMap advE } := by
  induction F with
  | nil => intro st; simp
  | cons e F ih =>
    intro st
    simp only [List.foldl_cons, List.filterMap_cons]
    rw [ih]
    cases h : advE e with
    | none => simp [advPush, h]
    | some e' => simp [advPush, h]

theorem filterMap_advE_abs (F : List (Gen.Entry LCur)) :
    (F.filterMap advE).map absE = (F.map absE).filterMap adv := by
  induction F with
  | nil => rfl
  | cons e F ih =>
    simp only [List.filterMap_cons, List.map_cons]
    rw [← advE_abs e]
    cases h : advE e with
    | none => simpa using ih
    | some e' => simp [ih]

theorem filterMap_advE_live (F : List (Gen.Entry LCur)) : AllLive (F.filterMap advE) := by
  intro e he
  obtain ⟨x, _, hx⟩ := List.mem_filterMap.mp he
  exact advE_live hx

/-- `move_on_next` on an un-fresh cursor -/
theorem lstep_next_unfresh (e : Gen.Entry LCur) (h : e.cursor.fresh = false) :
    lstep e.cursor CurOp.next =
      ({ fresh := false, rest := e.cursor.rest.tail }, some e.cursor.rest.tail.head?) := by
  simp [lstep, h]

end Grenad.SrcTie
