/-
  Grenad.SrcTie.ReaderCursorTie — translator tie for `ReaderCursor` (src/reader/reader_cursor.rs, regenerated into
  Generated/Src/SrcReaderCursor2.lean on every run): the generated `ReaderCursor` operations ARE the model's
  `RC.first/last/next/prev/ge/le/eq/reset/current` (Model/Reader.lean), given the tie of the index level (`IdxTie`).
-/
import Grenad.Generated.Src.SrcReaderCursor2
import Grenad.SrcTie.IndexCursorLoad

set_option linter.unusedSimpArgs false
set_option linter.unusedVariables false

namespace Grenad.SrcTie
open Grenad Grenad.R Grenad.Gen

/-- what the tie of `IndexBlockCursor` provides (proved in IndexCursor*.lean) -/
structure IdxTie (cd : Codec) (file : Bytes) (Q : Grenad.Block → Prop) (ops : BlockOps Grenad.BlockCursor) : Prop where
  iter_first : ∀ (s s' : Gen.IndexBlockCursor) (rd rd' : Src) (cur : Option Grenad.BlockCursor) (log : List Nat)
      (r : Option (Bytes × Bytes)), rd.bytes = file → GoodIdx Q s → s.index_levels ≤ 255 →
      Gen.IndexBlockCursor.move_on_first (fun _ => cd.decompress) s rd = .ok (r, s', rd') →
      rd'.bytes = file ∧ GoodIdx Q s' ∧ s'.base_block_offset = s.base_block_offset ∧ s'.index_levels = s.index_levels ∧
      s'.compression_type = s.compression_type ∧
      ∃ log', RC.iterIndex ops (loadCursor cd file) .first (toRC s cur log) = some (toRC s' cur log', r)
  iter_last : ∀ (s s' : Gen.IndexBlockCursor) (rd rd' : Src) (cur : Option Grenad.BlockCursor) (log : List Nat)
      (r : Option (Bytes × Bytes)), rd.bytes = file → GoodIdx Q s → s.index_levels ≤ 255 →
      Gen.IndexBlockCursor.move_on_last (fun _ => cd.decompress) s rd = .ok (r, s', rd') →
      rd'.bytes = file ∧ GoodIdx Q s' ∧ s'.base_block_offset = s.base_block_offset ∧ s'.index_levels = s.index_levels ∧
      s'.compression_type = s.compression_type ∧
      ∃ log', RC.iterIndex ops (loadCursor cd file) .last (toRC s cur log) = some (toRC s' cur log', r)
  iter_ge : ∀ (s s' : Gen.IndexBlockCursor) (rd rd' : Src) (key : Bytes) (cur : Option Grenad.BlockCursor)
      (log : List Nat) (r : Option (Bytes × Bytes)), rd.bytes = file → GoodIdx Q s → s.index_levels ≤ 255 →
      Gen.IndexBlockCursor.move_on_key_greater_than_or_equal_to (fun _ => cd.decompress) s key rd = .ok (r, s', rd') →
      rd'.bytes = file ∧ GoodIdx Q s' ∧ s'.base_block_offset = s.base_block_offset ∧ s'.index_levels = s.index_levels ∧
      s'.compression_type = s.compression_type ∧
      ∃ log', RC.iterIndex ops (loadCursor cd file) (.ge key) (toRC s cur log) = some (toRC s' cur log', r)
  recur_next : ∀ (s s' : Gen.IndexBlockCursor) (rd rd' : Src) (cur : Option Grenad.BlockCursor) (log : List Nat)
      (r : Option (Bytes × Bytes)), rd.bytes = file → GoodIdx Q s → s.index_levels ≤ 255 →
      Gen.IndexBlockCursor.move_on_next (fun _ => cd.decompress) s rd = .ok (r, s', rd') →
      rd'.bytes = file ∧ GoodIdx Q s' ∧ s'.base_block_offset = s.base_block_offset ∧ s'.index_levels = s.index_levels ∧
      s'.compression_type = s.compression_type ∧
      ∃ log', RC.recurIndex ops (loadCursor cd file) true .next (toRC s cur log) = some (toRC s' cur log', r)
  recur_prev : ∀ (s s' : Gen.IndexBlockCursor) (rd rd' : Src) (cur : Option Grenad.BlockCursor) (log : List Nat)
      (r : Option (Bytes × Bytes)), rd.bytes = file → GoodIdx Q s → s.index_levels ≤ 255 →
      Gen.IndexBlockCursor.move_on_prev (fun _ => cd.decompress) s rd = .ok (r, s', rd') →
      rd'.bytes = file ∧ GoodIdx Q s' ∧ s'.base_block_offset = s.base_block_offset ∧ s'.index_levels = s.index_levels ∧
      s'.compression_type = s.compression_type ∧
      ∃ log', RC.recurIndex ops (loadCursor cd file) true .prev (toRC s cur log) = some (toRC s' cur log', r)

/-- what the tie of the in-block cursor provides for the operations `ops` the model is run with: the five translated
    moves are `ops.apply`, and `ops.current` is the byte-level `current` -/
structure OpsTie (Q : Grenad.Block → Prop) (ops : BlockOps Grenad.BlockCursor) : Prop where
  current : ops.current = Grenad.BlockCursor.current
  first : MovTie Q (fun c => Gen.BlockCursor.move_on_first c) (ops.apply .first)
  last : MovTie Q (fun c => Gen.BlockCursor.move_on_last c) (ops.apply .last)
  next : MovTie Q (fun c => Gen.BlockCursor.move_on_next c) (ops.apply .next)
  prev : MovTie Q (fun c => Gen.BlockCursor.move_on_prev c) (ops.apply .prev)
  ge : ∀ key, MovTie Q (fun c => Gen.BlockCursor.move_on_key_greater_than_or_equal_to c key) (ops.apply (.ge key))

/-- no hypothesis on the blocks: the operations as the code computes them (binary searches of the standard library) -/
theorem opsTie_src (Q : Grenad.Block → Prop) : OpsTie Q srcOps :=
  ⟨srcOps_current, movTie_first_src Q, movTie_last_src Q, movTie_next_src Q, movTie_prev_src Q, movTie_ge_src Q⟩

/-- on sorted blocks: the specification-level operations -/
theorem opsTie_byte (Q : Grenad.Block → Prop) (hQ : ∀ b, Q b → SortedBlock b) : OpsTie Q byteOps :=
  ⟨byteOps_current, movTie_first Q, movTie_last Q, movTie_next Q, movTie_prev Q (fun b h => (hQ b h).1),
    movTie_ge Q (fun b h => (hQ b h).2)⟩

/-- the translated `ReaderCursor` as the model's `RC` -/
def toRCfull (s : Gen.ReaderCursor) (log : List Nat) : RC Grenad.BlockCursor :=
  toRC s.index_block_cursor (s.current_cursor.map toBC) log

/-- the invariant of a `ReaderCursor` over `file` -/
def GoodRC (Q : Grenad.Block → Prop) (file : Bytes) (s : Gen.ReaderCursor) : Prop :=
  s.reader.reader.bytes = file ∧ GoodIdx Q s.index_block_cursor ∧ (∀ c, s.current_cursor = some c → Good Q c) ∧
    s.index_block_cursor.index_levels ≤ 255

/-- splitting the emitted load sequence off whatever follows it -/
theorem rc_genLoad_bind_ok {β : Type} (cd : Codec) (rd : Src) (off : Nat) (ct : CompressionType)
    (F : Gen.Block × Src → Gen.BlockCursor → M β) (y : β)
    (h : (Except.bind (liftIo (rd.seekStart off).fst) fun _ =>
            Except.bind (Gen.Block.new (fun _ => cd.decompress) (rd.seekStart off).snd ct) fun x =>
              Except.bind x.fst.into_cursor fun c => F x c) = .ok y) :
    ∃ x c, genLoad cd rd off ct = .ok (c, x.snd) ∧ F x c = .ok y := by
  obtain ⟨u, hu, h⟩ := bind_ok h
  obtain ⟨x, hx, h⟩ := bind_ok h
  obtain ⟨c, hc, h⟩ := bind_ok h
  refine ⟨x, c, ?_, h⟩
  unfold genLoad
  rw [hu]; simp only [Except.bind]
  rw [hx]; simp only [Except.bind]
  rw [hc]; rfl

theorem ok_bind {α β : Type} (a : α) (f : α → M β) : Except.bind (Except.ok a) f = f a := rfl

/-! ### the model's operations, case by case -/

section model
variable {β : Type} (ops : BlockOps β) (load : Nat → Option β)

theorem rc_first_some (c c1 : RC β) (e : Entry) (b b' : β) (r : Option Entry)
    (hiter : RC.iterIndex ops load .first c = some (c1, some e)) (hload : load (offOf e) = some b)
    (happ : ops.apply .first b = (b', r)) :
    RC.first ops load c = ({ c1 with cur := some b', log := offOf e :: c1.log }, .ok r) := by
  have happ' : ops.first b = (b', r) := happ
  unfold RC.first
  rw [hiter]
  simp only [RC.enter, hload, happ']
  rfl

theorem rc_first_none (c c1 : RC β) (hiter : RC.iterIndex ops load .first c = some (c1, none)) :
    RC.first ops load c = ({ c1 with cur := none }, .ok none) := by
  unfold RC.first
  rw [hiter]

theorem rc_last_some (c c1 : RC β) (e : Entry) (b b' : β) (r : Option Entry)
    (hiter : RC.iterIndex ops load .last c = some (c1, some e)) (hload : load (offOf e) = some b)
    (happ : ops.apply .last b = (b', r)) :
    RC.last ops load c = ({ c1 with cur := some b', log := offOf e :: c1.log }, .ok r) := by
  have happ' : ops.last b = (b', r) := happ
  unfold RC.last
  rw [hiter]
  simp only [RC.enter, hload, happ']
  rfl

theorem rc_last_none (c c1 : RC β) (hiter : RC.iterIndex ops load .last c = some (c1, none)) :
    RC.last ops load c = ({ c1 with cur := none }, .ok none) := by
  unfold RC.last
  rw [hiter]

theorem rc_ge_some (q : Bytes) (c c1 : RC β) (e : Entry) (b b' : β) (r : Option Entry)
    (hiter : RC.iterIndex ops load (.ge q) c = some (c1, some e)) (hload : load (offOf e) = some b)
    (happ : ops.apply (.ge q) b = (b', r)) :
    RC.ge ops load q c = ({ c1 with cur := some b', log := offOf e :: c1.log }, .ok r) := by
  have happ' : ops.ge b q = (b', r) := happ
  unfold RC.ge
  rw [hiter]
  simp only [RC.enter, hload, happ']
  rfl

theorem rc_ge_none (q : Bytes) (c c1 : RC β) (hiter : RC.iterIndex ops load (.ge q) c = some (c1, none)) :
    RC.ge ops load q c = (c1, .ok none) := by
  unfold RC.ge
  rw [hiter]

theorem rc_next_in (fx : Bool) (c : RC β) (b b' : β) (e : Entry) (hc : c.cur = some b)
    (happ : ops.apply .next b = (b', some e)) :
    RC.next ops load fx c = ({ c with cur := some b' }, .ok (some e)) := by
  have happ' : ops.next b = (b', some e) := happ
  unfold RC.next
  simp only [hc, happ']
  rfl

theorem rc_next_climb_some (fx : Bool) (c c1 : RC β) (b b' nb nb' : β) (e : Entry) (r : Option Entry)
    (hc : c.cur = some b) (happ : ops.apply .next b = (b', none))
    (hrec : RC.recurIndex ops load fx .next { c with cur := some b' } = some (c1, some e))
    (hload : load (offOf e) = some nb) (happ2 : ops.apply .first nb = (nb', r)) :
    RC.next ops load fx c = ({ c1 with cur := some nb', log := offOf e :: c1.log }, .ok r) := by
  have happ' : ops.next b = (b', none) := happ
  have happ2' : ops.first nb = (nb', r) := happ2
  have hrec' : RC.recurIndex ops load fx .next (c.withCur b') = some (c1, some e) := hrec
  unfold RC.next
  simp only [hc, happ', hrec', RC.enter, hload, happ2']
  rfl

theorem rc_next_climb_none (fx : Bool) (c c1 : RC β) (b b' : β)
    (hc : c.cur = some b) (happ : ops.apply .next b = (b', none))
    (hrec : RC.recurIndex ops load fx .next { c with cur := some b' } = some (c1, none)) :
    RC.next ops load fx c = (c1, .ok none) := by
  have happ' : ops.next b = (b', none) := happ
  have hrec' : RC.recurIndex ops load fx .next (c.withCur b') = some (c1, none) := hrec
  unfold RC.next
  simp only [hc, happ', hrec']

theorem rc_next_nocur (fx : Bool) (c : RC β) (hc : c.cur = none) :
    RC.next ops load fx c = RC.first ops load c := by
  unfold RC.next
  simp only [hc]

theorem rc_prev_in (fx : Bool) (c : RC β) (b b' : β) (e : Entry) (hc : c.cur = some b)
    (happ : ops.apply .prev b = (b', some e)) :
    RC.prev ops load fx c = ({ c with cur := some b' }, .ok (some e)) := by
  have happ' : ops.prev b = (b', some e) := happ
  unfold RC.prev
  simp only [hc, happ']
  rfl

theorem rc_prev_climb_some (fx : Bool) (c c1 : RC β) (b b' nb nb' : β) (e : Entry) (r : Option Entry)
    (hc : c.cur = some b) (happ : ops.apply .prev b = (b', none))
    (hrec : RC.recurIndex ops load fx .prev { c with cur := some b' } = some (c1, some e))
    (hload : load (offOf e) = some nb) (happ2 : ops.apply .last nb = (nb', r)) :
    RC.prev ops load fx c = ({ c1 with cur := some nb', log := offOf e :: c1.log }, .ok r) := by
  have happ' : ops.prev b = (b', none) := happ
  have happ2' : ops.last nb = (nb', r) := happ2
  have hrec' : RC.recurIndex ops load fx .prev (c.withCur b') = some (c1, some e) := hrec
  unfold RC.prev
  simp only [hc, happ', hrec', RC.enter, hload, happ2']
  rfl

theorem rc_prev_climb_none (fx : Bool) (c c1 : RC β) (b b' : β)
    (hc : c.cur = some b) (happ : ops.apply .prev b = (b', none))
    (hrec : RC.recurIndex ops load fx .prev { c with cur := some b' } = some (c1, none)) :
    RC.prev ops load fx c = (c1, .ok none) := by
  have happ' : ops.prev b = (b', none) := happ
  have hrec' : RC.recurIndex ops load fx .prev (c.withCur b') = some (c1, none) := hrec
  unfold RC.prev
  simp only [hc, happ', hrec']

theorem rc_prev_nocur (fx : Bool) (c : RC β) (hc : c.cur = none) :
    RC.prev ops load fx c = RC.last ops load c := by
  unfold RC.prev
  simp only [hc]

theorem rc_le_hit (fx : Bool) (q : Bytes) (c c1 : RC β) (v : Bytes)
    (hge : RC.ge ops load q c = (c1, .ok (some (q, v)))) :
    RC.le ops load fx q c = (c1, .ok (some (q, v))) := by
  unfold RC.le
  rw [hge]
  simp only [if_true]

theorem rc_le_miss (fx : Bool) (q : Bytes) (c c1 : RC β) (k v : Bytes) (hk : k ≠ q)
    (hge : RC.ge ops load q c = (c1, .ok (some (k, v)))) :
    RC.le ops load fx q c = RC.prev ops load fx c1 := by
  unfold RC.le
  rw [hge]
  simp only [hk, if_false]

theorem rc_le_none (fx : Bool) (q : Bytes) (c c1 c2 : RC β) (r : Option Entry)
    (hge : RC.ge ops load q c = (c1, .ok none)) (hlast : RC.last ops load c1 = (c2, .ok r)) :
    RC.le ops load fx q c = (c2, .ok (r.filter (fun e => decide (e.1 ≤ q)))) := by
  unfold RC.le
  rw [hge]
  simp only [hlast]

theorem rc_eq_ok (q : Bytes) (c c1 : RC β) (r : Option Entry) (hge : RC.ge ops load q c = (c1, .ok r)) :
    RC.eq ops load q c = (c1, .ok (r.filter (fun e => decide (e.1 = q)))) := by
  unfold RC.eq
  rw [hge]

end model

section
variable (cd : Codec) (file : Bytes) (Q : Grenad.Block → Prop) (ops : BlockOps Grenad.BlockCursor)
variable (hs : SmallBlocks cd file) (hq : LoadsQ cd file Q) (hidx : IdxTie cd file Q ops) (hops : OpsTie Q ops)

include hs hq in
/-- the common tail of `move_on_first/last/key_greater_than_or_equal_to`: read the offset, load the data block
    (`seek` + `Block::new` + `into_cursor`), run the in-block move, store the cursor -/
theorem rc_enter_move (m : Mov) (mov : Gen.BlockCursor → M (Option (Bytes × Bytes) × Gen.BlockCursor))
    (htie : MovTie Q mov (ops.apply m)) (rd : Src) (hrd : rd.bytes = file) (k ob : Bytes) (md : Gen.Metadata)
    (si : Gen.IndexBlockCursor) (r : Option (Bytes × Bytes)) (s' : Gen.ReaderCursor)
    (h : (Except.bind (beValueN 8 ob) fun off =>
        Except.bind (liftIo (rd.seekStart off).fst) fun _ =>
          Except.bind ({ metadata := md, reader := (rd.seekStart off).snd } : Gen.Reader).compression_type fun ct =>
            Except.bind (Gen.Block.new (fun _ => cd.decompress) (rd.seekStart off).snd ct) fun x =>
              Except.bind x.fst.into_cursor fun c =>
                Except.bind (mov ((some c).getD default)) fun x2 =>
                  Except.pure (x2.fst, ({ index_block_cursor := si, current_cursor := some x2.snd,
                                          reader := { metadata := md, reader := x.snd } } : Gen.ReaderCursor))) =
      .ok (r, s')) :
    ∃ (c c' : Gen.BlockCursor) (rd' : Src),
      s' = { index_block_cursor := si, current_cursor := some c', reader := { metadata := md, reader := rd' } } ∧
      rd'.bytes = file ∧ Good Q c' ∧ loadCursor cd file (offOf (k, ob)) = some (toBC c) ∧
      ops.apply m (toBC c) = (toBC c', r) := by
  obtain ⟨off, hoff, h⟩ := bind_ok h
  have hoff' := beValueN8_ok ob off hoff k
  simp only [Gen.Reader.compression_type, pure, Except.pure, ok_bind] at h
  obtain ⟨x, c, hload, h⟩ := rc_genLoad_bind_ok cd rd off md.compression_type _ _ h
  obtain ⟨hmodel, hgood, _, hrd1⟩ := src_load_cursor cd file Q hs hq rd hrd off _ c x.snd hload
  obtain ⟨x2, hmov, h⟩ := bind_ok h
  obtain ⟨r2, c'⟩ := x2
  simp only [Option.getD_some] at hmov
  obtain ⟨happ, hblk⟩ := htie c r2 c' hgood hmov
  simp only [Except.ok.injEq, Prod.mk.injEq] at h
  obtain ⟨h1, h2⟩ := h
  subst h1
  refine ⟨c, c', x.snd, h2.symm, hrd1, hgood.of_block hblk, ?_, happ.symm⟩
  rw [← hoff']; exact hmodel

include hs hq hidx hops in
theorem src_rc_first (s s' : Gen.ReaderCursor) (log : List Nat) (r : Option (Bytes × Bytes)) (hg : GoodRC Q file s)
    (h : Gen.ReaderCursor.move_on_first (fun _ => cd.decompress) s = .ok (r, s')) :
    GoodRC Q file s' ∧ s'.reader.metadata = s.reader.metadata ∧
      ∃ log', RC.first ops (loadCursor cd file) (toRCfull s log) = (toRCfull s' log', .ok r) := by
  unfold Gen.ReaderCursor.move_on_first at h
  simp only [bind, pure] at h
  obtain ⟨x, hx, h⟩ := bind_ok h
  obtain ⟨ri, si, rdi⟩ := x
  obtain ⟨hfile, hgi, hgc, hlv⟩ := hg
  obtain ⟨hrdi, hgsi, hbase, hlev, hct, log', hiter⟩ :=
    hidx.iter_first s.index_block_cursor si s.reader.reader rdi (s.current_cursor.map toBC) log ri hfile hgi hlv hx
  cases ri with
  | none =>
    simp only [Except.pure, Except.ok.injEq, Prod.mk.injEq] at h
    obtain ⟨h1, h2⟩ := h
    subst h1 h2
    refine ⟨⟨hrdi, hgsi, fun c hc => (by cases hc), (by simp only [hlev]; exact hlv)⟩, rfl, log', ?_⟩
    unfold toRCfull
    rw [rc_first_none ops _ _ _ hiter]
    rfl
  | some e =>
    obtain ⟨k, ob⟩ := e
    simp only at h
    obtain ⟨c, c', rd', hs', hrd', hgc', hload, happ⟩ :=
      rc_enter_move cd file Q ops hs hq .first _ hops.first rdi hrdi k ob _ si r s' h
    subst hs'
    refine ⟨⟨hrd', hgsi, fun c0 hc0 => (by simp only [Option.some.injEq] at hc0; subst hc0; exact hgc'),
      (by simp only [hlev]; exact hlv)⟩, rfl, offOf (k, ob) :: log', ?_⟩
    unfold toRCfull
    rw [rc_first_some ops _ _ _ _ _ _ _ hiter hload happ]
    rfl

include hs hq hidx hops in
theorem src_rc_last (s s' : Gen.ReaderCursor) (log : List Nat) (r : Option (Bytes × Bytes)) (hg : GoodRC Q file s)
    (h : Gen.ReaderCursor.move_on_last (fun _ => cd.decompress) s = .ok (r, s')) :
    GoodRC Q file s' ∧ s'.reader.metadata = s.reader.metadata ∧
      ∃ log', RC.last ops (loadCursor cd file) (toRCfull s log) = (toRCfull s' log', .ok r) := by
  unfold Gen.ReaderCursor.move_on_last at h
  simp only [bind, pure] at h
  obtain ⟨x, hx, h⟩ := bind_ok h
  obtain ⟨ri, si, rdi⟩ := x
  obtain ⟨hfile, hgi, hgc, hlv⟩ := hg
  obtain ⟨hrdi, hgsi, hbase, hlev, hct, log', hiter⟩ :=
    hidx.iter_last s.index_block_cursor si s.reader.reader rdi (s.current_cursor.map toBC) log ri hfile hgi hlv hx
  cases ri with
  | none =>
    simp only [Except.pure, Except.ok.injEq, Prod.mk.injEq] at h
    obtain ⟨h1, h2⟩ := h
    subst h1 h2
    refine ⟨⟨hrdi, hgsi, fun c hc => (by cases hc), (by simp only [hlev]; exact hlv)⟩, rfl, log', ?_⟩
    unfold toRCfull
    rw [rc_last_none ops _ _ _ hiter]
    rfl
  | some e =>
    obtain ⟨k, ob⟩ := e
    simp only at h
    obtain ⟨c, c', rd', hs', hrd', hgc', hload, happ⟩ :=
      rc_enter_move cd file Q ops hs hq .last _ hops.last rdi hrdi k ob _ si r s' h
    subst hs'
    refine ⟨⟨hrd', hgsi, fun c0 hc0 => (by simp only [Option.some.injEq] at hc0; subst hc0; exact hgc'),
      (by simp only [hlev]; exact hlv)⟩, rfl, offOf (k, ob) :: log', ?_⟩
    unfold toRCfull
    rw [rc_last_some ops _ _ _ _ _ _ _ hiter hload happ]
    rfl

include hs hq hidx hops in
theorem src_rc_ge (s s' : Gen.ReaderCursor) (key : Bytes) (log : List Nat) (r : Option (Bytes × Bytes))
    (hg : GoodRC Q file s)
    (h : Gen.ReaderCursor.move_on_key_greater_than_or_equal_to (fun _ => cd.decompress) s key = .ok (r, s')) :
    GoodRC Q file s' ∧ s'.reader.metadata = s.reader.metadata ∧
      ∃ log', RC.ge ops (loadCursor cd file) key (toRCfull s log) = (toRCfull s' log', .ok r) := by
  unfold Gen.ReaderCursor.move_on_key_greater_than_or_equal_to at h
  simp only [bind, pure] at h
  obtain ⟨x, hx, h⟩ := bind_ok h
  obtain ⟨ri, si, rdi⟩ := x
  obtain ⟨hfile, hgi, hgc, hlv⟩ := hg
  obtain ⟨hrdi, hgsi, hbase, hlev, hct, log', hiter⟩ :=
    hidx.iter_ge s.index_block_cursor si s.reader.reader rdi key (s.current_cursor.map toBC) log ri hfile hgi hlv hx
  cases ri with
  | none =>
    simp only [Except.pure, Except.ok.injEq, Prod.mk.injEq] at h
    obtain ⟨h1, h2⟩ := h
    subst h1 h2
    refine ⟨⟨hrdi, hgsi, hgc, (by simp only [hlev]; exact hlv)⟩, rfl, log', ?_⟩
    unfold toRCfull
    rw [rc_ge_none ops _ _ _ _ hiter]
  | some e =>
    obtain ⟨k, ob⟩ := e
    simp only at h
    obtain ⟨c, c', rd', hs', hrd', hgc', hload, happ⟩ :=
      rc_enter_move cd file Q ops hs hq (.ge key) _ (hops.ge key) rdi hrdi k ob _ si r s' h
    subst hs'
    refine ⟨⟨hrd', hgsi, fun c0 hc0 => (by simp only [Option.some.injEq] at hc0; subst hc0; exact hgc'),
      (by simp only [hlev]; exact hlv)⟩, rfl, offOf (k, ob) :: log', ?_⟩
    unfold toRCfull
    rw [rc_ge_some ops _ _ _ _ _ _ _ _ hiter hload happ]
    rfl

include hs hq in
/-- the tail of `next_block_from_index` / `prev_block_from_index`: read the offset and load the data block
    (`seek` + `Block::new`); `into_cursor` of the block returned is the model's `loadCursor` -/
theorem rc_enter_block (rd : Src) (hrd : rd.bytes = file) (k ob : Bytes) (md : Gen.Metadata)
    (si : Gen.IndexBlockCursor) (cur : Option Gen.BlockCursor) (rb : Option Gen.Block) (s' : Gen.ReaderCursor)
    (h : (Except.bind (beValueN 8 ob) fun off =>
        Except.bind (liftIo (rd.seekStart off).fst) fun _ =>
          Except.bind ({ metadata := md, reader := (rd.seekStart off).snd } : Gen.Reader).compression_type fun ct =>
            Except.bind (Gen.Block.new (fun _ => cd.decompress) (rd.seekStart off).snd ct) fun x =>
              Except.pure (some x.fst, ({ index_block_cursor := si, current_cursor := cur,
                                          reader := { metadata := md, reader := x.snd } } : Gen.ReaderCursor))) =
      .ok (rb, s')) :
    ∃ (blk : Gen.Block) (c : Gen.BlockCursor) (rd' : Src), rb = some blk ∧ blk.into_cursor = .ok c ∧
      s' = { index_block_cursor := si, current_cursor := cur, reader := { metadata := md, reader := rd' } } ∧
      rd'.bytes = file ∧ Good Q c ∧ loadCursor cd file (offOf (k, ob)) = some (toBC c) := by
  obtain ⟨off, hoff, h⟩ := bind_ok h
  have hoff' := beValueN8_ok ob off hoff k
  simp only [Gen.Reader.compression_type, pure, Except.pure, ok_bind] at h
  obtain ⟨u, hu, h⟩ := bind_ok h
  obtain ⟨x, hx, h⟩ := bind_ok h
  simp only [Except.ok.injEq, Prod.mk.injEq] at h
  obtain ⟨h1, h2⟩ := h
  have hload : genLoad cd rd off md.compression_type =
      .ok (({ block := x.fst, current_offset := none } : Gen.BlockCursor), x.snd) := by
    unfold genLoad
    rw [hu]; simp only [Except.bind]
    rw [hx]; rfl
  obtain ⟨hmodel, hgood, _, hrd1⟩ := src_load_cursor cd file Q hs hq rd hrd off _ _ x.snd hload
  refine ⟨x.fst, _, x.snd, h1.symm, rfl, h2.symm, hrd1, hgood, ?_⟩
  rw [← hoff']; exact hmodel

include hs hq hidx in
theorem src_rc_next_block (s s1 : Gen.ReaderCursor) (log : List Nat) (rb : Option Gen.Block) (hg : GoodRC Q file s)
    (cur : Option Grenad.BlockCursor)
    (h : Gen.ReaderCursor.next_block_from_index (fun _ => cd.decompress) s = .ok (rb, s1)) :
    GoodRC Q file s1 ∧ s1.reader.metadata = s.reader.metadata ∧ s1.current_cursor = s.current_cursor ∧
      ∃ log' ri, RC.recurIndex ops (loadCursor cd file) true .next (toRC s.index_block_cursor cur log) =
          some (toRC s1.index_block_cursor cur log', ri) ∧
        ((rb = none ∧ ri = none) ∨
         ∃ blk c k ob, rb = some blk ∧ ri = some (k, ob) ∧ blk.into_cursor = .ok c ∧ Good Q c ∧
           loadCursor cd file (offOf (k, ob)) = some (toBC c)) := by
  unfold Gen.ReaderCursor.next_block_from_index at h
  simp only [bind, pure] at h
  obtain ⟨x, hx, h⟩ := bind_ok h
  obtain ⟨ri, si, rdi⟩ := x
  obtain ⟨hfile, hgi, hgc, hlv⟩ := hg
  obtain ⟨hrdi, hgsi, hbase, hlev, hct, log', hiter⟩ :=
    hidx.recur_next s.index_block_cursor si s.reader.reader rdi cur log ri hfile hgi hlv hx
  cases ri with
  | none =>
    simp only [Except.pure, Except.ok.injEq, Prod.mk.injEq] at h
    obtain ⟨h1, h2⟩ := h
    subst h1 h2
    exact ⟨⟨hrdi, hgsi, hgc, (by simp only [hlev]; exact hlv)⟩, rfl, rfl, log', none, hiter, Or.inl ⟨rfl, rfl⟩⟩
  | some e =>
    obtain ⟨k, ob⟩ := e
    simp only at h
    obtain ⟨blk, c, rd', hrb, hic, hs', hrd', hgc', hload⟩ :=
      rc_enter_block cd file Q hs hq rdi hrdi k ob _ si _ rb s1 h
    subst hs'
    exact ⟨⟨hrd', hgsi, hgc, (by simp only [hlev]; exact hlv)⟩, rfl, rfl, log', some (k, ob), hiter,
      Or.inr ⟨blk, c, k, ob, hrb, rfl, hic, hgc', hload⟩⟩

include hs hq hidx in
theorem src_rc_prev_block (s s1 : Gen.ReaderCursor) (log : List Nat) (rb : Option Gen.Block) (hg : GoodRC Q file s)
    (cur : Option Grenad.BlockCursor)
    (h : Gen.ReaderCursor.prev_block_from_index (fun _ => cd.decompress) s = .ok (rb, s1)) :
    GoodRC Q file s1 ∧ s1.reader.metadata = s.reader.metadata ∧ s1.current_cursor = s.current_cursor ∧
      ∃ log' ri, RC.recurIndex ops (loadCursor cd file) true .prev (toRC s.index_block_cursor cur log) =
          some (toRC s1.index_block_cursor cur log', ri) ∧
        ((rb = none ∧ ri = none) ∨
         ∃ blk c k ob, rb = some blk ∧ ri = some (k, ob) ∧ blk.into_cursor = .ok c ∧ Good Q c ∧
           loadCursor cd file (offOf (k, ob)) = some (toBC c)) := by
  unfold Gen.ReaderCursor.prev_block_from_index at h
  simp only [bind, pure] at h
  obtain ⟨x, hx, h⟩ := bind_ok h
  obtain ⟨ri, si, rdi⟩ := x
  obtain ⟨hfile, hgi, hgc, hlv⟩ := hg
  obtain ⟨hrdi, hgsi, hbase, hlev, hct, log', hiter⟩ :=
    hidx.recur_prev s.index_block_cursor si s.reader.reader rdi cur log ri hfile hgi hlv hx
  cases ri with
  | none =>
    simp only [Except.pure, Except.ok.injEq, Prod.mk.injEq] at h
    obtain ⟨h1, h2⟩ := h
    subst h1 h2
    exact ⟨⟨hrdi, hgsi, hgc, (by simp only [hlev]; exact hlv)⟩, rfl, rfl, log', none, hiter, Or.inl ⟨rfl, rfl⟩⟩
  | some e =>
    obtain ⟨k, ob⟩ := e
    simp only at h
    obtain ⟨blk, c, rd', hrb, hic, hs', hrd', hgc', hload⟩ :=
      rc_enter_block cd file Q hs hq rdi hrdi k ob _ si _ rb s1 h
    subst hs'
    exact ⟨⟨hrd', hgsi, hgc, (by simp only [hlev]; exact hlv)⟩, rfl, rfl, log', some (k, ob), hiter,
      Or.inr ⟨blk, c, k, ob, hrb, rfl, hic, hgc', hload⟩⟩

include hs hq hidx hops in
theorem src_rc_next (s s' : Gen.ReaderCursor) (log : List Nat) (r : Option (Bytes × Bytes)) (hg : GoodRC Q file s)
    (h : Gen.ReaderCursor.move_on_next (fun _ => cd.decompress) s = .ok (r, s')) :
    GoodRC Q file s' ∧ s'.reader.metadata = s.reader.metadata ∧
      ∃ log', RC.next ops (loadCursor cd file) true (toRCfull s log) = (toRCfull s' log', .ok r) := by
  unfold Gen.ReaderCursor.move_on_next at h
  simp only [bind, pure] at h
  obtain ⟨x, hx, h⟩ := bind_ok h
  cases hcur : s.current_cursor with
  | none =>
    rw [hcur] at hx
    simp only [optMapMut, pure, Except.pure, Except.ok.injEq] at hx
    subst hx
    simp only at h
    obtain ⟨y, hy, h⟩ := bind_ok h
    have hse : ({ index_block_cursor := s.index_block_cursor, current_cursor := none, reader := s.reader } :
        Gen.ReaderCursor) = s := by rw [← hcur]
    rw [hse] at hy
    obtain ⟨hg', hm, log', hmodel⟩ := src_rc_first cd file Q ops hs hq hidx hops s y.snd log y.fst hg hy
    simp only [Except.pure, Except.ok.injEq, Prod.mk.injEq] at h
    obtain ⟨h1, h2⟩ := h
    subst h1 h2
    refine ⟨hg', hm, log', ?_⟩
    rw [rc_next_nocur ops _ true _ (by simp only [toRCfull, toRC, hcur, Option.map_none])]
    exact hmodel
  | some c =>
    obtain ⟨hfile, hgi, hgc, hlv⟩ := hg
    rw [hcur] at hx
    simp only [optMapMut, bind, pure] at hx
    obtain ⟨z, hz, hx⟩ := bind_ok hx
    obtain ⟨rz, cz⟩ := z
    simp only [Except.pure, Except.ok.injEq] at hx
    subst hx
    obtain ⟨happ, hblk⟩ := hops.next c rz cz (hgc c hcur) hz
    have hgcz : Good Q cz := (hgc c hcur).of_block hblk
    have hcur' : (toRCfull s log).cur = some (toBC c) := by simp only [toRCfull, toRC, hcur, Option.map_some]
    cases rz with
    | some e =>
      obtain ⟨k, v⟩ := e
      simp only [Except.pure, Except.ok.injEq, Prod.mk.injEq] at h
      obtain ⟨h1, h2⟩ := h
      subst h1 h2
      refine ⟨⟨hfile, hgi, fun c0 hc0 => (by simp only [Option.some.injEq] at hc0; subst hc0; exact hgcz), hlv⟩,
        rfl, log, ?_⟩
      rw [rc_next_in ops _ true _ _ _ _ hcur' happ.symm]
      rfl
    | none =>
      simp only at h
      obtain ⟨y, hy, h⟩ := bind_ok h
      obtain ⟨rb, s1⟩ := y
      have hg1 : GoodRC Q file
          (Gen.ReaderCursor.mk s.index_block_cursor (some cz) s.reader) :=
        ⟨hfile, hgi, fun c0 hc0 => (by simp only [Option.some.injEq] at hc0; subst hc0; exact hgcz), hlv⟩
      obtain ⟨⟨hfile1, hgi1, hgc1, hlv1⟩, hm1, hcc1, log', ri, hrec, hcase⟩ :=
        src_rc_next_block cd file Q ops hs hq hidx _ s1 log rb hg1 (some (toBC cz)) hy
      rcases hcase with ⟨hrb, hri⟩ | ⟨blk, nc, k, ob, hrb, hri, hic, hgnc, hload⟩
      · subst hrb hri
        simp only [optMapM, pure, Except.pure, ok_bind, Except.ok.injEq, Prod.mk.injEq] at h
        obtain ⟨h1, h2⟩ := h
        subst h1 h2
        refine ⟨⟨hfile1, hgi1, hgc1, hlv1⟩, hm1, log', ?_⟩
        rw [rc_next_climb_none ops _ true _ _ _ _ hcur' happ.symm hrec]
        simp only [toRCfull, hcc1, Option.map_some]
      · subst hrb hri
        simp only [optMapM, bind, pure, hic, Except.pure, ok_bind, Option.getD_some] at h
        obtain ⟨w, hw, h⟩ := bind_ok h
        obtain ⟨rw_, cw⟩ := w
        simp only [Except.ok.injEq, Prod.mk.injEq] at h
        obtain ⟨h1, h2⟩ := h
        subst h1 h2
        obtain ⟨happ2, hblk2⟩ := hops.first nc rw_ cw hgnc hw
        have hgcw : Good Q cw := hgnc.of_block hblk2
        refine ⟨⟨hfile1, hgi1, fun c0 hc0 => (by simp only [Option.some.injEq] at hc0; subst hc0; exact hgcw), hlv1⟩,
          hm1, offOf (k, ob) :: log', ?_⟩
        rw [rc_next_climb_some ops _ true _ _ _ _ _ _ _ _ hcur' happ.symm hrec hload happ2.symm]
        rfl

include hs hq hidx hops in
theorem src_rc_prev (s s' : Gen.ReaderCursor) (log : List Nat) (r : Option (Bytes × Bytes)) (hg : GoodRC Q file s)
    (h : Gen.ReaderCursor.move_on_prev (fun _ => cd.decompress) s = .ok (r, s')) :
    GoodRC Q file s' ∧ s'.reader.metadata = s.reader.metadata ∧
      ∃ log', RC.prev ops (loadCursor cd file) true (toRCfull s log) = (toRCfull s' log', .ok r) := by
  unfold Gen.ReaderCursor.move_on_prev at h
  simp only [bind, pure] at h
  obtain ⟨x, hx, h⟩ := bind_ok h
  cases hcur : s.current_cursor with
  | none =>
    rw [hcur] at hx
    simp only [optMapMut, pure, Except.pure, Except.ok.injEq] at hx
    subst hx
    simp only at h
    obtain ⟨y, hy, h⟩ := bind_ok h
    have hse : ({ index_block_cursor := s.index_block_cursor, current_cursor := none, reader := s.reader } :
        Gen.ReaderCursor) = s := by rw [← hcur]
    rw [hse] at hy
    obtain ⟨hg', hm, log', hmodel⟩ := src_rc_last cd file Q ops hs hq hidx hops s y.snd log y.fst hg hy
    simp only [Except.pure, Except.ok.injEq, Prod.mk.injEq] at h
    obtain ⟨h1, h2⟩ := h
    subst h1 h2
    refine ⟨hg', hm, log', ?_⟩
    rw [rc_prev_nocur ops _ true _ (by simp only [toRCfull, toRC, hcur, Option.map_none])]
    exact hmodel
  | some c =>
    obtain ⟨hfile, hgi, hgc, hlv⟩ := hg
    rw [hcur] at hx
    simp only [optMapMut, bind, pure] at hx
    obtain ⟨z, hz, hx⟩ := bind_ok hx
    obtain ⟨rz, cz⟩ := z
    simp only [Except.pure, Except.ok.injEq] at hx
    subst hx
    obtain ⟨happ, hblk⟩ := hops.prev c rz cz (hgc c hcur) hz
    have hgcz : Good Q cz := (hgc c hcur).of_block hblk
    have hcur' : (toRCfull s log).cur = some (toBC c) := by simp only [toRCfull, toRC, hcur, Option.map_some]
    cases rz with
    | some e =>
      obtain ⟨k, v⟩ := e
      simp only [Except.pure, Except.ok.injEq, Prod.mk.injEq] at h
      obtain ⟨h1, h2⟩ := h
      subst h1 h2
      refine ⟨⟨hfile, hgi, fun c0 hc0 => (by simp only [Option.some.injEq] at hc0; subst hc0; exact hgcz), hlv⟩,
        rfl, log, ?_⟩
      rw [rc_prev_in ops _ true _ _ _ _ hcur' happ.symm]
      rfl
    | none =>
      simp only at h
      obtain ⟨y, hy, h⟩ := bind_ok h
      obtain ⟨rb, s1⟩ := y
      have hg1 : GoodRC Q file
          (Gen.ReaderCursor.mk s.index_block_cursor (some cz) s.reader) :=
        ⟨hfile, hgi, fun c0 hc0 => (by simp only [Option.some.injEq] at hc0; subst hc0; exact hgcz), hlv⟩
      obtain ⟨⟨hfile1, hgi1, hgc1, hlv1⟩, hm1, hcc1, log', ri, hrec, hcase⟩ :=
        src_rc_prev_block cd file Q ops hs hq hidx _ s1 log rb hg1 (some (toBC cz)) hy
      rcases hcase with ⟨hrb, hri⟩ | ⟨blk, nc, k, ob, hrb, hri, hic, hgnc, hload⟩
      · subst hrb hri
        simp only [optMapM, pure, Except.pure, ok_bind, Except.ok.injEq, Prod.mk.injEq] at h
        obtain ⟨h1, h2⟩ := h
        subst h1 h2
        refine ⟨⟨hfile1, hgi1, hgc1, hlv1⟩, hm1, log', ?_⟩
        rw [rc_prev_climb_none ops _ true _ _ _ _ hcur' happ.symm hrec]
        simp only [toRCfull, hcc1, Option.map_some]
      · subst hrb hri
        simp only [optMapM, bind, pure, hic, Except.pure, ok_bind, Option.getD_some] at h
        obtain ⟨w, hw, h⟩ := bind_ok h
        obtain ⟨rw_, cw⟩ := w
        simp only [Except.ok.injEq, Prod.mk.injEq] at h
        obtain ⟨h1, h2⟩ := h
        subst h1 h2
        obtain ⟨happ2, hblk2⟩ := hops.last nc rw_ cw hgnc hw
        have hgcw : Good Q cw := hgnc.of_block hblk2
        refine ⟨⟨hfile1, hgi1, fun c0 hc0 => (by simp only [Option.some.injEq] at hc0; subst hc0; exact hgcw), hlv1⟩,
          hm1, offOf (k, ob) :: log', ?_⟩
        rw [rc_prev_climb_some ops _ true _ _ _ _ _ _ _ _ hcur' happ.symm hrec hload happ2.symm]
        rfl

include hs hq hidx hops in
theorem src_rc_le (s s' : Gen.ReaderCursor) (key : Bytes) (log : List Nat) (r : Option (Bytes × Bytes))
    (hg : GoodRC Q file s)
    (h : Gen.ReaderCursor.move_on_key_lower_than_or_equal_to (fun _ => cd.decompress) s key = .ok (r, s')) :
    GoodRC Q file s' ∧ s'.reader.metadata = s.reader.metadata ∧
      ∃ log', RC.le ops (loadCursor cd file) true key (toRCfull s log) = (toRCfull s' log', .ok r) := by
  unfold Gen.ReaderCursor.move_on_key_lower_than_or_equal_to at h
  simp only [bind, pure] at h
  obtain ⟨x, hx, h⟩ := bind_ok h
  obtain ⟨r1, s1⟩ := x
  obtain ⟨hg1, hm1, log1, hge⟩ := src_rc_ge cd file Q ops hs hq hidx hops s s1 key log r1 hg hx
  cases r1 with
  | none =>
    simp only at h
    obtain ⟨y, hy, h⟩ := bind_ok h
    obtain ⟨r2, s2⟩ := y
    obtain ⟨hg2, hm2, log2, hlast⟩ := src_rc_last cd file Q ops hs hq hidx hops s1 s2 log1 r2 hg1 hy
    simp only [Except.pure, Except.ok.injEq, Prod.mk.injEq] at h
    obtain ⟨h1, h2⟩ := h
    subst h1 h2
    refine ⟨hg2, hm2.trans hm1, log2, ?_⟩
    rw [rc_le_none ops _ true key _ _ _ _ hge hlast]
  | some e =>
    obtain ⟨k, v⟩ := e
    simp only at h
    by_cases hk : k = key
    · subst hk
      simp only [beq_self_eq_true, if_true, Except.pure, Except.ok.injEq, Prod.mk.injEq] at h
      obtain ⟨h1, h2⟩ := h
      subst h1 h2
      refine ⟨hg1, hm1, log1, ?_⟩
      rw [rc_le_hit ops _ true k _ _ v hge]
    · have hne : (k == key) = false := by simp [hk]
      simp only [hne, Bool.false_eq_true, if_false] at h
      obtain ⟨y, hy, h⟩ := bind_ok h
      obtain ⟨r2, s2⟩ := y
      obtain ⟨hg2, hm2, log2, hprev⟩ := src_rc_prev cd file Q ops hs hq hidx hops s1 s2 log1 r2 hg1 hy
      simp only [Except.pure, Except.ok.injEq, Prod.mk.injEq] at h
      obtain ⟨h1, h2⟩ := h
      subst h1 h2
      refine ⟨hg2, hm2.trans hm1, log2, ?_⟩
      rw [rc_le_miss ops _ true key _ _ k v hk hge]
      exact hprev

include hs hq hidx hops in
theorem src_rc_eq (s s' : Gen.ReaderCursor) (key : Bytes) (log : List Nat) (r : Option (Bytes × Bytes))
    (hg : GoodRC Q file s)
    (h : Gen.ReaderCursor.move_on_key_equal_to (fun _ => cd.decompress) s key = .ok (r, s')) :
    GoodRC Q file s' ∧ s'.reader.metadata = s.reader.metadata ∧
      ∃ log', RC.eq ops (loadCursor cd file) key (toRCfull s log) = (toRCfull s' log', .ok r) := by
  unfold Gen.ReaderCursor.move_on_key_equal_to at h
  simp only [bind, pure] at h
  obtain ⟨x, hx, h⟩ := bind_ok h
  obtain ⟨r1, s1⟩ := x
  obtain ⟨hg1, hm1, log1, hge⟩ := src_rc_ge cd file Q ops hs hq hidx hops s s1 key log r1 hg hx
  simp only [Except.pure, Except.ok.injEq, Prod.mk.injEq] at h
  obtain ⟨h1, h2⟩ := h
  subst h1 h2
  refine ⟨hg1, hm1, log1, ?_⟩
  rw [rc_eq_ok ops _ key _ _ _ hge]
  have hf : (fun (e : Entry) => decide (e.1 = key)) =
      (fun (x : List UInt8 × List UInt8) => match x with | (k, _) => k == key) := by
    funext e; obtain ⟨a, b⟩ := e
    by_cases hab : a = key <;> simp [hab]
  rw [hf]

include hops in
/-- `ReaderCursor::current` is the model's `RC.current` -/
theorem src_rc_current (s : Gen.ReaderCursor) (log : List Nat) (r : Option (Bytes × Bytes)) (hg : GoodRC Q file s)
    (h : Gen.ReaderCursor.current s = .ok r) : r = RC.current ops (toRCfull s log) := by
  unfold Gen.ReaderCursor.current at h
  unfold RC.current toRCfull toRC
  cases hcur : s.current_cursor with
  | none =>
    rw [hcur] at h
    simp only [optBindM, pure, Except.pure, Except.ok.injEq] at h
    rw [← h]; rfl
  | some c =>
    rw [hcur] at h
    simp only [optBindM] at h
    simp only [Option.map_some, hops.current]
    exact src_bc_current c (hg.2.2.1 c hcur).1 r h

/-- `ReaderCursor::reset` is the model's `RC.reset` (and keeps the invariant; it touches neither the reader nor
    the load log) -/
theorem src_rc_reset (s s' : Gen.ReaderCursor) (log : List Nat) (hg : GoodRC Q file s)
    (h : Gen.ReaderCursor.reset s = .ok s') :
    GoodRC Q file s' ∧ s'.reader = s.reader ∧ toRCfull s' log = (toRCfull s log).reset := by
  unfold Gen.ReaderCursor.reset Gen.IndexBlockCursor.reset at h
  simp only [bind, pure, Except.pure, ok_bind, Except.ok.injEq] at h
  subst h
  obtain ⟨hfile, hgi, hgc, hlv⟩ := hg
  exact ⟨⟨hfile, fun l hl => (by cases hl), fun c hc => (by cases hc), hlv⟩, rfl, rfl⟩

/-- `reset` always returns -/
theorem src_rc_reset_ok (s : Gen.ReaderCursor) : ∃ s', Gen.ReaderCursor.reset s = .ok s' := ⟨_, rfl⟩

end

/-- `ReaderCursor::new`: the model's `RC.new` of the metadata (`toModelMeta`, SrcTie/Meta.lean); it always
    returns, keeps the reader, and the invariant holds when the reader reads `file` and the metadata's
    `index_levels` is a `u8`. -/
theorem src_rc_new (rdr : Gen.Reader) (s : Gen.ReaderCursor) (h : Gen.ReaderCursor.new rdr = .ok s) :
    toRCfull s [] = RC.new (toModelMeta rdr.metadata) ∧ s.reader = rdr ∧ s.current_cursor = none ∧
      s.index_block_cursor.inner = none ∧
      s.index_block_cursor.base_block_offset = rdr.metadata.index_block_offset ∧
      s.index_block_cursor.index_levels = rdr.metadata.index_levels ∧
      s.index_block_cursor.compression_type = rdr.metadata.compression_type ∧
      ∀ (Q : Grenad.Block → Prop) (file : Bytes), rdr.reader.bytes = file → rdr.metadata.index_levels ≤ 255 →
        GoodRC Q file s := by
  unfold Gen.ReaderCursor.new Gen.IndexBlockCursor.new Gen.Reader.index_block_offset Gen.Reader.compression_type
    Gen.Reader.index_levels at h
  simp only [bind, pure, Except.pure, ok_bind, Except.ok.injEq] at h
  subst h
  refine ⟨rfl, rfl, rfl, rfl, rfl, rfl, rfl, ?_⟩
  intro Q file hf hl
  exact ⟨hf, fun l hl => (by cases hl), fun c hc => (by cases hc), hl⟩

theorem src_rc_new_ok (rdr : Gen.Reader) : ∃ s, Gen.ReaderCursor.new rdr = .ok s := ⟨_, rfl⟩

end Grenad.SrcTie
