/-
  Grenad.SrcTie.IterNext — translator tie for the iterators of src/reader/range_iter.rs and
  src/reader/prefix_iter.rs (`RangeIter::next`, `RevRangeIter::next`, `PrefixIter::next`,
  `RevPrefixIter::next`, `move_on_last_prefix`), regenerated from /repo/src on every run.

  The Rust iterators hold a `ReaderCursor<R>`; the translator makes them relative to the cursor's step
  function, exactly as the model's iterators are generic in `step`.  The theorems say: for EVERY cursor
  (every `mstep`), the translated `next` is the model's `next` — same entry, same new iterator state, an
  `Err` exactly when the model reports one.
-/
import Grenad.Generated.Src.SrcIterNext
import Grenad.SrcTie.IterRange
import Grenad.SrcTie.IterPrefix

set_option linter.unusedSimpArgs false
set_option linter.unusedVariables false

namespace Grenad.SrcTie
open Grenad Grenad.R Grenad.Gen

def opOf : CurOp → Op
  | .first => .first | .last => .last | .next => .next | .prev => .prev
  | .ge k => .ge k | .le k => .le k | .current => .current

def resOf : Res → CurRes
  | .ok e => some e
  | .err => none

theorem toSrcBound_unbounded : toSrcBound .unbounded = R.Bound.unbounded := rfl
theorem toSrcBound_included (k : Bytes) : toSrcBound (.included k) = R.Bound.included k := rfl
theorem toSrcBound_excluded (k : Bytes) : toSrcBound (.excluded k) = R.Bound.excluded k := rfl

section
variable {γ : Type} (mstep : γ → Op → γ × Res)

/-- the model's cursor step as the translated code sees it -/
def gstep : γ → CurOp → γ × CurRes := fun c o => ((mstep c (opOf o)).1, resOf (mstep c (opOf o)).2)

def toSrcRange (it : Grenad.RangeIter γ) : Gen.RangeIter γ :=
  { cursor := it.cursor, range := (toSrcBound it.lo, toSrcBound it.hi), move_on_start := it.start }

/-- a model outcome as an outcome of translated code (the state after an `Err` is not represented) -/
def outRange : Grenad.RangeIter γ × Res → M (Option (Bytes × Bytes) × Gen.RangeIter γ)
  | (it', .ok e) => .ok (e, toSrcRange it')
  | (_, .err) => .error (.err .cursor)

theorem src_range_next (it : Grenad.RangeIter γ) :
    Gen.RangeIter.next (gstep mstep) (toSrcRange it) = outRange (Grenad.RangeIter.next mstep it) := by
  unfold Gen.RangeIter.next Grenad.RangeIter.next
  obtain ⟨cur, lo, hi, start⟩ := it
  cases start
  · -- not the first call: one `next`
    simp only [toSrcRange, gstep, opOf, bind, Except.bind, pure, Except.pure, Bool.false_eq_true, if_false]
    cases hs : mstep cur Op.next with
    | mk c r =>
      cases r with
      | err => simp [resOf, liftCur, outRange, throw, throwThe, MonadExceptOf.throw]
      | ok e =>
        cases e with
        | none => simp [resOf, liftCur, outRange, pure, Except.pure, toSrcRange]
        | some kv =>
          obtain ⟨k, v⟩ := kv
          simp only [resOf, liftCur, pure, Except.pure, src_end_contains]
          by_cases hc : endContains hi k = true <;> simp [hc, outRange, toSrcRange]
  · simp only [toSrcRange, bind, Except.bind, pure, Except.pure, if_true]
    cases lo with
    | unbounded =>
      simp only [toSrcBound_unbounded, toSrcBound_included, toSrcBound_excluded, gstep, opOf]
      cases hs : mstep cur Op.first with
      | mk c r =>
        cases r with
        | err => simp [resOf, liftCur, outRange, throw, throwThe, MonadExceptOf.throw]
        | ok e =>
          cases e with
          | none => simp [resOf, liftCur, outRange, pure, Except.pure, toSrcRange, toSrcBound_unbounded, toSrcBound_included, toSrcBound_excluded]
          | some kv =>
            obtain ⟨k, v⟩ := kv
            simp only [resOf, liftCur, pure, Except.pure, src_end_contains]
            by_cases hc : endContains hi k = true <;> simp [hc, outRange, toSrcRange, toSrcBound_unbounded, toSrcBound_included, toSrcBound_excluded]
    | included s =>
      simp only [toSrcBound_unbounded, toSrcBound_included, toSrcBound_excluded, gstep, opOf]
      cases hs : mstep cur (Op.ge s) with
      | mk c r =>
        cases r with
        | err => simp [resOf, liftCur, outRange, throw, throwThe, MonadExceptOf.throw]
        | ok e =>
          cases e with
          | none => simp [resOf, liftCur, outRange, pure, Except.pure, toSrcRange, toSrcBound_unbounded, toSrcBound_included, toSrcBound_excluded]
          | some kv =>
            obtain ⟨k, v⟩ := kv
            simp only [resOf, liftCur, pure, Except.pure, src_end_contains]
            by_cases hc : endContains hi k = true <;> simp [hc, outRange, toSrcRange, toSrcBound_unbounded, toSrcBound_included, toSrcBound_excluded]
    | excluded s =>
      simp only [toSrcBound_unbounded, toSrcBound_included, toSrcBound_excluded, gstep, opOf]
      cases hs : mstep cur (Op.ge s) with
      | mk c r =>
        cases r with
        | err => simp [resOf, liftCur, outRange, throw, throwThe, MonadExceptOf.throw]
        | ok e =>
          cases e with
          | none => simp [resOf, liftCur, outRange, pure, Except.pure, toSrcRange, toSrcBound_unbounded, toSrcBound_included, toSrcBound_excluded]
          | some kv =>
            obtain ⟨k, v⟩ := kv
            simp only [resOf, liftCur, pure, Except.pure]
            by_cases hk : k = s
            · subst hk
              simp only [beq_self_eq_true, if_true]
              cases hs2 : mstep c Op.next with
              | mk c2 r2 =>
                cases r2 with
                | err => simp [resOf, liftCur, outRange, throw, throwThe, MonadExceptOf.throw]
                | ok e2 =>
                  cases e2 with
                  | none => simp [resOf, liftCur, outRange, pure, Except.pure, toSrcRange, toSrcBound_unbounded, toSrcBound_included, toSrcBound_excluded]
                  | some kv2 =>
                    obtain ⟨k2, v2⟩ := kv2
                    simp only [resOf, liftCur, pure, Except.pure, src_end_contains]
                    by_cases hc : endContains hi k2 = true <;> simp [hc, outRange, toSrcRange, toSrcBound_unbounded, toSrcBound_included, toSrcBound_excluded]
            · have hbeq : (k == s) = false := by simp [hk]
              simp only [hbeq, Bool.false_eq_true, if_false, hk, src_end_contains]
              by_cases hc : endContains hi k = true <;> simp [hc, outRange, toSrcRange, toSrcBound_unbounded, toSrcBound_included, toSrcBound_excluded]

def toSrcRevRange (it : Grenad.RangeIter γ) : Gen.RevRangeIter γ :=
  { cursor := it.cursor, range := (toSrcBound it.lo, toSrcBound it.hi), move_on_start := it.start }

def outRevRange : Grenad.RangeIter γ × Res → M (Option (Bytes × Bytes) × Gen.RevRangeIter γ)
  | (it', .ok e) => .ok (e, toSrcRevRange it')
  | (_, .err) => .error (.err .cursor)

theorem src_range_next_rev (it : Grenad.RangeIter γ) :
    Gen.RevRangeIter.next (gstep mstep) (toSrcRevRange it) = outRevRange (Grenad.RangeIter.nextRev mstep it) := by
  unfold Gen.RevRangeIter.next Grenad.RangeIter.nextRev
  obtain ⟨cur, lo, hi, start⟩ := it
  cases start
  · -- not the first call: one `next`
    simp only [toSrcRevRange, gstep, opOf, bind, Except.bind, pure, Except.pure, Bool.false_eq_true, if_false]
    cases hs : mstep cur Op.prev with
    | mk c r =>
      cases r with
      | err => simp [resOf, liftCur, outRevRange, throw, throwThe, MonadExceptOf.throw]
      | ok e =>
        cases e with
        | none => simp [resOf, liftCur, outRevRange, pure, Except.pure, toSrcRevRange]
        | some kv =>
          obtain ⟨k, v⟩ := kv
          simp only [resOf, liftCur, pure, Except.pure, src_start_contains]
          by_cases hc : startContains lo k = true <;> simp [hc, outRevRange, toSrcRevRange]
  · simp only [toSrcRevRange, bind, Except.bind, pure, Except.pure, if_true]
    cases hi with
    | unbounded =>
      simp only [toSrcBound_unbounded, toSrcBound_included, toSrcBound_excluded, gstep, opOf]
      cases hs : mstep cur Op.last with
      | mk c r =>
        cases r with
        | err => simp [resOf, liftCur, outRevRange, throw, throwThe, MonadExceptOf.throw]
        | ok e =>
          cases e with
          | none => simp [resOf, liftCur, outRevRange, pure, Except.pure, toSrcRevRange, toSrcBound_unbounded, toSrcBound_included, toSrcBound_excluded]
          | some kv =>
            obtain ⟨k, v⟩ := kv
            simp only [resOf, liftCur, pure, Except.pure, src_start_contains]
            by_cases hc : startContains lo k = true <;> simp [hc, outRevRange, toSrcRevRange, toSrcBound_unbounded, toSrcBound_included, toSrcBound_excluded]
    | included s =>
      simp only [toSrcBound_unbounded, toSrcBound_included, toSrcBound_excluded, gstep, opOf]
      cases hs : mstep cur (Op.le s) with
      | mk c r =>
        cases r with
        | err => simp [resOf, liftCur, outRevRange, throw, throwThe, MonadExceptOf.throw]
        | ok e =>
          cases e with
          | none => simp [resOf, liftCur, outRevRange, pure, Except.pure, toSrcRevRange, toSrcBound_unbounded, toSrcBound_included, toSrcBound_excluded]
          | some kv =>
            obtain ⟨k, v⟩ := kv
            simp only [resOf, liftCur, pure, Except.pure, src_start_contains]
            by_cases hc : startContains lo k = true <;> simp [hc, outRevRange, toSrcRevRange, toSrcBound_unbounded, toSrcBound_included, toSrcBound_excluded]
    | excluded s =>
      simp only [toSrcBound_unbounded, toSrcBound_included, toSrcBound_excluded, gstep, opOf]
      cases hs : mstep cur (Op.le s) with
      | mk c r =>
        cases r with
        | err => simp [resOf, liftCur, outRevRange, throw, throwThe, MonadExceptOf.throw]
        | ok e =>
          cases e with
          | none => simp [resOf, liftCur, outRevRange, pure, Except.pure, toSrcRevRange, toSrcBound_unbounded, toSrcBound_included, toSrcBound_excluded]
          | some kv =>
            obtain ⟨k, v⟩ := kv
            simp only [resOf, liftCur, pure, Except.pure]
            by_cases hk : k = s
            · subst hk
              simp only [beq_self_eq_true, if_true]
              cases hs2 : mstep c Op.prev with
              | mk c2 r2 =>
                cases r2 with
                | err => simp [resOf, liftCur, outRevRange, throw, throwThe, MonadExceptOf.throw]
                | ok e2 =>
                  cases e2 with
                  | none => simp [resOf, liftCur, outRevRange, pure, Except.pure, toSrcRevRange, toSrcBound_unbounded, toSrcBound_included, toSrcBound_excluded]
                  | some kv2 =>
                    obtain ⟨k2, v2⟩ := kv2
                    simp only [resOf, liftCur, pure, Except.pure, src_start_contains]
                    by_cases hc : startContains lo k2 = true <;> simp [hc, outRevRange, toSrcRevRange, toSrcBound_unbounded, toSrcBound_included, toSrcBound_excluded]
            · have hbeq : (k == s) = false := by simp [hk]
              simp only [hbeq, Bool.false_eq_true, if_false, hk, src_start_contains]
              by_cases hc : startContains lo k = true <;> simp [hc, outRevRange, toSrcRevRange, toSrcBound_unbounded, toSrcBound_included, toSrcBound_excluded]

/-! ### prefix iterators -/

def toSrcPrefix (it : Grenad.PrefixIter γ) : Gen.PrefixIter γ :=
  { cursor := it.cursor, move_on_first_prefix := it.start, prefix_ := it.pre }

def outPrefix : Grenad.PrefixIter γ × Res → M (Option (Bytes × Bytes) × Gen.PrefixIter γ)
  | (it', .ok e) => .ok (e, toSrcPrefix it')
  | (_, .err) => .error (.err .cursor)

theorem src_prefix_next (it : Grenad.PrefixIter γ) :
    Gen.PrefixIter.next (gstep mstep) (toSrcPrefix it) = outPrefix (Grenad.PrefixIter.next mstep it) := by
  unfold Gen.PrefixIter.next Grenad.PrefixIter.next
  obtain ⟨cur, pre, start⟩ := it
  cases start
  · simp only [toSrcPrefix, gstep, opOf, bind, Except.bind, pure, Except.pure, Bool.false_eq_true, if_false]
    cases hs : mstep cur Op.next with
    | mk c r =>
      cases r with
      | err => simp [resOf, liftCur, outPrefix, throw, throwThe, MonadExceptOf.throw]
      | ok e =>
        cases e with
        | none => simp [resOf, liftCur, outPrefix, pure, Except.pure, toSrcPrefix]
        | some kv =>
          obtain ⟨k, v⟩ := kv
          simp only [resOf, liftCur, pure, Except.pure]
          by_cases hc : pre.isPrefixOf k = true <;> simp [hc, outPrefix, toSrcPrefix]
  · simp only [toSrcPrefix, gstep, opOf, bind, Except.bind, pure, Except.pure, if_true]
    cases hs : mstep cur (Op.ge pre) with
    | mk c r =>
      cases r with
      | err => simp [resOf, liftCur, outPrefix, throw, throwThe, MonadExceptOf.throw]
      | ok e =>
        cases e with
        | none => simp [resOf, liftCur, outPrefix, pure, Except.pure, toSrcPrefix]
        | some kv =>
          obtain ⟨k, v⟩ := kv
          simp only [resOf, liftCur, pure, Except.pure]
          by_cases hc : pre.isPrefixOf k = true <;> simp [hc, outPrefix, toSrcPrefix]

/-- a `(cursor, Res)` outcome of the model as an outcome of translated code -/
def outCur : γ × Res → M (Option (Bytes × Bytes) × γ)
  | (c, .ok e) => .ok (e, c)
  | (_, .err) => .error (.err .cursor)

theorem gstep_out (c : γ) (o : CurOp) :
    (match (gstep mstep c o) with | (c', r) => (do let e ← liftCur r; pure (e, c') : M _)) = outCur (mstep c (opOf o)) := by
  simp only [gstep]
  cases hs : mstep c (opOf o) with
  | mk c' r => cases r <;> simp [resOf, liftCur, outCur, bind, Except.bind, pure, Except.pure, throw, throwThe, MonadExceptOf.throw]

theorem src_move_on_last_prefix (c : γ) (p : Bytes) :
    Gen.move_on_last_prefix (gstep mstep) c p = outCur (Grenad.moveOnLastPrefix mstep c p) := by
  unfold Gen.move_on_last_prefix Grenad.moveOnLastPrefix
  simp only [bind, Except.bind, src_advance_key]
  cases hadv : advanceKey p with
  | none =>
    simp only [gstep, opOf, pure, Except.pure]
    cases hs : mstep c Op.last with
    | mk c' r => cases r <;> simp [resOf, liftCur, outCur, pure, Except.pure, throw, throwThe, MonadExceptOf.throw]
  | some np =>
    simp only [gstep, opOf, pure, Except.pure]
    cases hs : mstep c (Op.le np) with
    | mk c1 r =>
      cases r with
      | err => simp [resOf, liftCur, outCur, throw, throwThe, MonadExceptOf.throw]
      | ok e =>
        cases e with
        | none =>
          simp only [resOf, liftCur, pure, Except.pure]
          cases hs2 : mstep c1 Op.current with
          | mk c2 r2 => cases r2 <;> simp [resOf, liftCur, outCur, pure, Except.pure, throw, throwThe, MonadExceptOf.throw]
        | some kv =>
          obtain ⟨k, v⟩ := kv
          simp only [resOf, liftCur, pure, Except.pure]
          by_cases hk : k = np
          · subst hk
            simp only [beq_self_eq_true, if_true]
            cases hs2 : mstep c1 Op.prev with
            | mk c2 r2 => cases r2 <;> simp [resOf, liftCur, outCur, pure, Except.pure, throw, throwThe, MonadExceptOf.throw]
          · have hbeq : (k == np) = false := by simp [hk]
            simp only [hbeq, Bool.false_eq_true, if_false, hk]
            cases hs2 : mstep c1 Op.current with
            | mk c2 r2 => cases r2 <;> simp [resOf, liftCur, outCur, pure, Except.pure, throw, throwThe, MonadExceptOf.throw]

def toSrcRevPrefix (it : Grenad.PrefixIter γ) : Gen.RevPrefixIter γ :=
  { cursor := it.cursor, move_on_last_prefix := it.start, prefix_ := it.pre }

def outRevPrefix : Grenad.PrefixIter γ × Res → M (Option (Bytes × Bytes) × Gen.RevPrefixIter γ)
  | (it', .ok e) => .ok (e, toSrcRevPrefix it')
  | (_, .err) => .error (.err .cursor)

theorem src_prefix_next_rev (it : Grenad.PrefixIter γ) :
    Gen.RevPrefixIter.next (gstep mstep) (toSrcRevPrefix it) = outRevPrefix (Grenad.PrefixIter.nextRev mstep it) := by
  unfold Gen.RevPrefixIter.next Grenad.PrefixIter.nextRev
  obtain ⟨cur, pre, start⟩ := it
  cases start
  · simp only [toSrcRevPrefix, gstep, opOf, bind, Except.bind, pure, Except.pure, Bool.false_eq_true, if_false]
    cases hs : mstep cur Op.prev with
    | mk c r =>
      cases r with
      | err => simp [resOf, liftCur, outRevPrefix, throw, throwThe, MonadExceptOf.throw]
      | ok e =>
        cases e with
        | none => simp [resOf, liftCur, outRevPrefix, pure, Except.pure, toSrcRevPrefix]
        | some kv =>
          obtain ⟨k, v⟩ := kv
          simp only [resOf, liftCur, pure, Except.pure]
          by_cases hc : pre.isPrefixOf k = true <;> simp [hc, outRevPrefix, toSrcRevPrefix]
  · simp only [toSrcRevPrefix, bind, Except.bind, pure, Except.pure, if_true, src_move_on_last_prefix]
    cases hs : Grenad.moveOnLastPrefix mstep cur pre with
    | mk c r =>
      cases r with
      | err => simp [outCur, outRevPrefix]
      | ok e =>
        cases e with
        | none => simp [outCur, outRevPrefix, toSrcRevPrefix]
        | some kv =>
          obtain ⟨k, v⟩ := kv
          simp only [outCur]
          by_cases hc : pre.isPrefixOf k = true <;> simp [hc, outRevPrefix, toSrcRevPrefix]

end
end Grenad.SrcTie
