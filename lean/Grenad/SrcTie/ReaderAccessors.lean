/-
  Grenad.SrcTie.ReaderAccessors — the accessors of `Reader` (src/reader/mod.rs), regenerated from /repo/src on every run,
  return the fields of the parsed trailer they are named after (`len` the entry count, `is_empty` whether it is zero, …):
  what C01 reports about a written file (`count = #inserts`, codec, levels, version) is what these accessors hand out.
-/
import Grenad.Generated.Src.SrcReaderCursor2

namespace Grenad.SrcTie
open Grenad.R Grenad.Gen

theorem src_reader_len (r : Gen.Reader) : Gen.Reader.len r = .ok r.metadata.entries_count := rfl
theorem src_reader_is_empty (r : Gen.Reader) : Gen.Reader.is_empty r = .ok (r.metadata.entries_count == 0) := rfl
theorem src_reader_file_version (r : Gen.Reader) : Gen.Reader.file_version r = .ok r.metadata.file_version := rfl
theorem src_reader_compression_type (r : Gen.Reader) : Gen.Reader.compression_type r = .ok r.metadata.compression_type := rfl
theorem src_reader_index_block_offset (r : Gen.Reader) : Gen.Reader.index_block_offset r = .ok r.metadata.index_block_offset := rfl
theorem src_reader_index_levels (r : Gen.Reader) : Gen.Reader.index_levels r = .ok r.metadata.index_levels := rfl

end Grenad.SrcTie
