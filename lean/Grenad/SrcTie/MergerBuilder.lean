/-
  Grenad.SrcTie.MergerBuilder — translator tie for `MergerBuilder` (src/merger.rs), regenerated from /repo/src on every
  run: sources are kept in the order they were added (`push`/`add` append, `build` hands the list over unchanged), which
  is the order C06 merges a key's values in (the source index of `Entry::cmp` and of `src_merger_start`).
-/
import Grenad.Generated.Src.SrcMergerIter

set_option linter.unusedSimpArgs false
set_option linter.unusedVariables false

namespace Grenad.SrcTie
open Grenad.R Grenad.Gen

variable {γ : Type}

/-- a fresh builder holds no source -/
theorem src_merger_builder_new : (Gen.MergerBuilder.new () : M (Gen.MergerBuilder γ)) = .ok { sources := [] } := rfl

theorem src_merger_builder_of_merger : (Gen.Merger.builder () : M (Gen.MergerBuilder γ)) = .ok { sources := [] } := rfl

/-- `push` appends -/
theorem src_merger_builder_push (b : Gen.MergerBuilder γ) (c : γ) :
    Gen.MergerBuilder.push b c = .ok { sources := b.sources ++ [c] } := rfl

/-- `add` is `push` -/
theorem src_merger_builder_add (b : Gen.MergerBuilder γ) (c : γ) :
    Gen.MergerBuilder.add b c = .ok { sources := b.sources ++ [c] } := rfl

/-- adding a list of sources one by one -/
def mbPushAll (b : Gen.MergerBuilder γ) : List γ → M (Gen.MergerBuilder γ)
  | [] => .ok b
  | c :: cs => match Gen.MergerBuilder.push b c with
    | .ok b' => mbPushAll b' cs
    | .error e => .error e

/-- **Sources keep their order**: a builder fed `cs` one by one builds a merger over exactly `cs`, in that order — the
    list `into_stream_merger_iter` enumerates to give each source its index. -/
theorem src_merger_builder_order (cs : List γ) :
    (match mbPushAll ({ sources := [] } : Gen.MergerBuilder γ) cs with
      | .ok b => Gen.MergerBuilder.build b
      | .error e => .error e) = .ok { sources := cs } := by
  have h : ∀ (cs : List γ) (acc : List γ), mbPushAll ({ sources := acc } : Gen.MergerBuilder γ) cs = .ok { sources := acc ++ cs } := by
    intro cs
    induction cs with
    | nil => intro acc; simp [mbPushAll]
    | cons c cs ih =>
      intro acc
      simp only [mbPushAll, src_merger_builder_push]
      rw [ih]
      simp
  rw [h cs []]
  rfl

end Grenad.SrcTie
