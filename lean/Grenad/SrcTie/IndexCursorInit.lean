/-
  Grenad.SrcTie.IndexCursorInit — translator tie for `IndexBlockCursor::initial_index_blocks`
  (src/reader/reader_cursor.rs): the `for _ in 0..depth` loop is the model's `RC.initialIndex`.
-/
import Grenad.SrcTie.IndexCursorLoad

set_option linter.unusedSimpArgs false
set_option linter.unusedVariables false

namespace Grenad.SrcTie
open Grenad Grenad.R Grenad.Gen

/-- splitting the emitted load sequence off whatever follows it -/
theorem genLoad_bind_ok {β : Type} (cd : Codec) (rd : Src) (off : Nat) (ct : CompressionType)
    (F : Gen.Block × Src → Gen.BlockCursor → M β) (y : β)
    (h : (Except.bind (liftIo (rd.seekStart off).fst) fun _ =>
            Except.bind (Gen.Block.new (fun _ => cd.decompress) (rd.seekStart off).snd ct) fun x =>
              Except.bind x.fst.into_cursor fun c => F x c) = .ok y) :
    ∃ x c, genLoad cd rd off ct = .ok (c, x.snd) ∧ F x c = .ok y := by
  obtain ⟨u, hu, h⟩ := bind_ok h
  obtain ⟨x, hx, h⟩ := bind_ok h
  obtain ⟨c, hc, h⟩ := bind_ok h
  refine ⟨x, c, ?_, h⟩
  unfold genLoad
  rw [hu]; simp only [Except.bind]
  rw [hx]; simp only [Except.bind]
  rw [hc]; rfl

/-- state of the emitted loop: early-return value, reader, `inner`, `jump_to_offset` -/
abbrev InitSt :=
  Option (Option (List (Nat × Gen.BlockCursor)) × Gen.IndexBlockCursor × Src) × Src ×
    List (Nat × Gen.BlockCursor) × Nat

/-- the body of the `for _ in 0..depth` loop of `initial_index_blocks`, as emitted -/
def initBody (cd : Codec) (s : Gen.IndexBlockCursor)
    (mov : Gen.BlockCursor → M (Option (Bytes × Bytes) × Gen.BlockCursor)) {α : Type} (_ : α) (st : InitSt) :
    M (ForInStep InitSt) :=
  Except.bind (liftIo (st.snd.fst.seekStart st.snd.snd.snd).fst) fun _ =>
    Except.bind (Gen.Block.new (fun _ => cd.decompress) (st.snd.fst.seekStart st.snd.snd.snd).snd s.compression_type) fun x =>
      Except.bind x.fst.into_cursor fun c =>
        Except.bind (mov c) fun x1 =>
          match x1.fst with
          | some (_key, offset_bytes) =>
            Except.bind (beValueN 8 offset_bytes) fun v =>
              Except.pure (ForInStep.yield (none, x.snd, st.snd.snd.fst ++ [(v, x1.snd)], v))
          | none =>
            Except.pure (ForInStep.done (some (none, s, x.snd), x.snd, st.snd.snd.fst, st.snd.snd.snd))

section
variable (cd : Codec) (file : Bytes) (Q : Grenad.Block → Prop)
  (hs : SmallBlocks cd file) (hq : LoadsQ cd file Q)
  (ops : BlockOps Grenad.BlockCursor) (m : Mov)
  (mov : Gen.BlockCursor → M (Option (Bytes × Bytes) × Gen.BlockCursor))
  (htie : MovTie Q mov (ops.apply m))
include hs hq htie

theorem init_loop (s : Gen.IndexBlockCursor) {α : Type} : ∀ (l : List α) (rd : Src)
    (acc : List (Nat × Gen.BlockCursor)) (jump : Nat) (log : List Nat) (st' : InitSt),
    rd.bytes = file → GoodL Q acc →
    forIn l ((none, rd, acc, jump) : InitSt) (initBody cd s mov) = .ok st' →
    st'.2.1.bytes = file ∧ ∃ log',
      match st'.1 with
      | some ret => ret = (none, s, st'.2.1) ∧
          RC.initialIndex ops (loadCursor cd file) m l.length jump (absL acc).reverse log = some (none, log')
      | none => GoodL Q st'.2.2.1 ∧
          RC.initialIndex ops (loadCursor cd file) m l.length jump (absL acc).reverse log
            = some (some (absL st'.2.2.1), log') := by
  intro l
  induction l with
  | nil =>
    intro rd acc jump log st' hrd hacc hf
    simp only [List.forIn_nil, pure, Except.pure, Except.ok.injEq] at hf
    subst hf
    refine ⟨hrd, log, hacc, ?_⟩
    simp [RC.initialIndex]
  | cons a l ih =>
    intro rd acc jump log st' hrd hacc hf
    rw [List.forIn_cons] at hf
    obtain ⟨step, hstep, hf⟩ := bind_ok hf
    unfold initBody at hstep
    obtain ⟨x, c, hload, hstep⟩ := genLoad_bind_ok cd rd jump s.compression_type _ _ hstep
    obtain ⟨hmodel, hgood, _, hrd1⟩ := src_load_cursor cd file Q hs hq rd hrd jump _ c x.snd hload
    obtain ⟨x1, hmov, hstep⟩ := bind_ok hstep
    obtain ⟨r, c'⟩ := x1
    obtain ⟨happ, hblk⟩ := htie c r c' hgood hmov
    have hgood' : Good Q c' := hgood.of_block hblk
    cases r with
    | none =>
      simp only [Except.pure, Except.ok.injEq] at hstep
      subst hstep
      simp only [pure, Except.pure, Except.ok.injEq] at hf
      subst hf
      refine ⟨hrd1, jump :: log, rfl, ?_⟩
      simp only [List.length_cons, RC.initialIndex, hmodel, ← happ]
    | some e =>
      obtain ⟨k, ob⟩ := e
      simp only at hstep
      obtain ⟨v, hv, hstep⟩ := bind_ok hstep
      have hvo := beValueN8_ok ob v hv k
      simp only [Except.pure, Except.ok.injEq] at hstep
      subst hstep
      simp only at hf
      have hacc' : GoodL Q (acc ++ [(v, c')]) := hacc.append (GoodL.cons hgood' (GoodL.nil Q))
      obtain ⟨hb, log', hres⟩ := ih x.snd (acc ++ [(v, c')]) v (jump :: log) st' hrd1 hacc' hf
      refine ⟨hb, log', ?_⟩
      have hrev : (absL (acc ++ [(v, c')])).reverse = (v, toBC c') :: (absL acc).reverse := by
        simp [absL]
      rw [hrev] at hres
      simp only [List.length_cons, RC.initialIndex, hmodel, ← happ, ← hvo]
      exact hres

/-- **`initial_index_blocks`.**  Whenever the translated function returns, the model's `initialIndex` returns
    the same levels (`none` when some level answered `None`), `self` is unchanged, the new cursors are good
    and the reader still reads `file`. -/
theorem src_initial_index_blocks (s : Gen.IndexBlockCursor) (rd : Src) (hrd : rd.bytes = file)
    (log : List Nat) (r : Option (List (Nat × Gen.BlockCursor))) (s' : Gen.IndexBlockCursor) (rd' : Src)
    (h : Gen.IndexBlockCursor.initial_index_blocks (fun _ => cd.decompress) s rd mov = .ok (r, s', rd')) :
    s' = s ∧ rd'.bytes = file ∧ (∀ l, r = some l → GoodL Q l) ∧
      ∃ log', RC.initialIndex ops (loadCursor cd file) m (s.index_levels + 1) s.base_block_offset [] log
        = some (r.map absL, log') := by
  unfold Gen.IndexBlockCursor.initial_index_blocks at h
  simp only [bind, pure] at h
  obtain ⟨depth, hdepth, h⟩ := bind_ok h
  have hd : depth = s.index_levels + 1 := by
    unfold add at hdepth
    split at hdepth
    · simp only [pure, Except.pure, Except.ok.injEq] at hdepth; exact hdepth.symm
    · cases hdepth
  subst hd
  obtain ⟨st, hloop, h⟩ := bind_ok h
  have hloop' : forIn (List.range' 0 (s.index_levels + 1 - 0))
      ((none, rd, [], s.base_block_offset) : InitSt) (initBody cd s mov (α := Nat)) = .ok st := hloop
  obtain ⟨hb, log', hres⟩ := init_loop cd file Q hs hq ops m mov htie s _ rd [] s.base_block_offset log st hrd
    (GoodL.nil Q) hloop'
  simp only [List.length_range', Nat.sub_zero, absL_nil, List.reverse_nil] at hres
  cases hst : st.1 with
  | some ret =>
    simp only [hst] at h hres
    simp only [Except.pure, Except.ok.injEq] at h
    obtain ⟨hret, hmodel⟩ := hres
    rw [hret] at h
    simp only [Prod.mk.injEq] at h
    obtain ⟨h1, h2, h3⟩ := h
    subst h1 h2 h3
    refine ⟨rfl, hb, ?_, log', hmodel⟩
    intro l hl; cases hl
  | none =>
    simp only [hst] at h hres
    simp only [Except.pure, Except.ok.injEq, Prod.mk.injEq] at h
    obtain ⟨h1, h2, h3⟩ := h
    subst h1 h2 h3
    obtain ⟨hg, hmodel⟩ := hres
    refine ⟨rfl, hb, ?_, log', hmodel⟩
    intro l hl
    simp only [Option.some.injEq] at hl
    subst hl
    exact hg

end

end Grenad.SrcTie
